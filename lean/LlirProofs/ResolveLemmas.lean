import LlirModel.Resolve
namespace Llir.Resolve
open Llir

theorem findSome?_none_iff {f : α → Option β} : ∀ (l : List α), l.findSome? f = none ↔ ∀ a ∈ l, f a = none
  | [] => by simp
  | x :: xs => by
    simp only [List.findSome?_cons]
    cases h : f x with
    | none => simp [h, findSome?_none_iff xs]
    | some b => simp [h]

/-- translation succeeds exactly when there is no duplicate definition and no entity has a resolution error -/
theorem translate_isOk_iff (ents order : List Ent) :
    (translate ents order).isOk = true ↔ dupErr ents = none ∧ ∀ e ∈ order, entErr ents e = none := by
  unfold translate
  cases hd : dupErr ents with
  | some e => simp [Outcome.isOk]
  | none =>
    cases hf : order.findSome? (entErr ents) with
    | some e =>
      simp only [Outcome.isOk, true_and]
      constructor
      · intro h; cases h
      · intro h; rw [(findSome?_none_iff order).mpr h] at hf; cases hf
    | none =>
      simp only [Outcome.isOk, true_and, true_iff]
      exact (findSome?_none_iff order).mp hf

theorem lookup_spec (ents : List Ent) (space : NS) (key : String) (j : Nat) (h : lookup ents space key = some j) :
    ∃ e, ents[j]? = some e ∧ e.ns.space = space ∧ e.key = key := by
  unfold lookup at h
  have hm := List.mem_of_getLast? h
  rw [List.mem_filter] at hm
  obtain ⟨_, hp⟩ := hm
  cases he : ents[j]? with
  | none => simp [he] at hp
  | some e =>
    simp only [he, Bool.and_eq_true, beq_iff_eq] at hp
    exact ⟨e, rfl, hp.1, hp.2⟩

theorem entErr_none_refs (ents : List Ent) (e : Ent) (h : entErr ents e = none) :
    ∀ r ∈ e.refs, r.1 ≠ .attrgroup → (lookup ents r.1.space r.2).isSome = true := by
  intro r hr hne
  unfold entErr at h
  cases hf : e.refs.find? (fun r => r.1 != .attrgroup && (lookup ents r.1.space r.2).isNone) with
  | some r' => simp [hf] at h
  | none =>
    have := List.find?_eq_none.mp hf r hr
    simp only [Bool.and_eq_true, bne_iff_ne, ne_eq, not_and, Bool.not_eq_true, Option.isNone_eq_false_iff] at this
    exact this hne

theorem entErr_none_locals (ents : List Ent) (e : Ent) (h : entErr ents e = none) :
    dupIn e.ldefs = none ∧ ∀ k ∈ e.lrefs, e.ldefs.contains k = true := by
  unfold entErr at h
  cases hf : e.refs.find? (fun r => r.1 != .attrgroup && (lookup ents r.1.space r.2).isNone) with
  | some r' => simp [hf] at h
  | none =>
    simp only [hf] at h
    cases hd : dupIn e.ldefs with
    | some k => simp [hd] at h
    | none =>
      simp only [hd] at h
      cases hl : e.lrefs.find? (fun k => !e.ldefs.contains k) with
      | some k =>
        rw [hl] at h; cases h
      | none =>
        refine ⟨rfl, ?_⟩
        intro k hk
        have := List.find?_eq_none.mp hl k hk
        simpa using this

theorem entErr_none_blocks (ents : List Ent) (e : Ent) (h : entErr ents e = none) :
    ∀ b ∈ e.brefs, blockOK ents b = true := by
  unfold entErr at h
  cases hf : e.refs.find? (fun r => r.1 != .attrgroup && (lookup ents r.1.space r.2).isNone) with
  | some r' => simp [hf] at h
  | none =>
    simp only [hf] at h
    cases hd : dupIn e.ldefs with
    | some k => simp [hd] at h
    | none =>
      simp only [hd] at h
      cases hl : e.lrefs.find? (fun k => !e.ldefs.contains k) with
      | some k => rw [hl] at h; cases h
      | none =>
        simp only [hl] at h
        cases hb : e.brefs.find? (fun b => !blockOK ents b) with
        | some b => rw [hb] at h; cases h
        | none =>
          intro b hbm
          have := List.find?_eq_none.mp hb b hbm
          simpa using this

end Llir.Resolve
