import LlirProofs.MetaLemmas
/-! M-Meta: translation of the printed lines of a well-formed section is the identity; facts about every accepted section. -/
namespace Llir.Meta
open Llir Llir.Types Llir.Core2

/-! ### reading all lines -/

theorem readLines_append : ∀ (a b : List Bytes) (ra rb : List Raw), readLines a = some ra → readLines b = some rb →
    readLines (a ++ b) = some (ra ++ rb)
  | [], b, ra, rb, ha, hb => by simp [readLines] at ha; subst ha; simpa using hb
  | l :: a, b, ra, rb, ha, hb => by
    simp only [readLines] at ha
    cases h1 : readLine l with
    | none => simp [h1] at ha
    | some r =>
      cases h2 : readLines a with
      | none => simp [h1, h2] at ha
      | some rs =>
        simp [h1, h2] at ha; subst ha
        simp [readLines, h1, readLines_append a b rs rb h2 hb]

theorem readLines_defs (useHex : Int → Bool) : ∀ (ds : List Def), (∀ d ∈ ds, d.id < 2 ^ 63 ∧ fieldsOK d.fields = true) →
    readLines (ds.map (defString useHex)) = some (ds.map .def_)
  | [], _ => rfl
  | d :: ds, h => by
    have h1 := readLine_def useHex d (h d (by simp)).1 (h d (by simp)).2
    have h2 := readLines_defs useHex ds (fun e he => h e (by simp [he]))
    simp [readLines, h1, h2]

theorem readLines_named : ∀ (ns : List Named), (∀ n ∈ ns, n.name ≠ [] ∧ ∀ k ∈ n.ids, k < 2 ^ 63) →
    readLines (ns.map namedString) = some (ns.map .named)
  | [], _ => rfl
  | n :: ns, h => by
    have h1 := readLine_named n (h n (by simp)).1 (h n (by simp)).2
    have h2 := readLines_named ns (fun e he => h e (by simp [he]))
    simp [readLines, h1, h2]

theorem rawDefs_append : ∀ (a b : List Raw), rawDefs (a ++ b) = rawDefs a ++ rawDefs b
  | [], b => rfl
  | .def_ d :: a, b => by simp [rawDefs, rawDefs_append a b]
  | .named n :: a, b => by simp [rawDefs, rawDefs_append a b]
  | .blank :: a, b => by simp [rawDefs, rawDefs_append a b]
theorem rawNamed_append : ∀ (a b : List Raw), rawNamed (a ++ b) = rawNamed a ++ rawNamed b
  | [], b => rfl
  | .def_ d :: a, b => by simp [rawNamed, rawNamed_append a b]
  | .named n :: a, b => by simp [rawNamed, rawNamed_append a b]
  | .blank :: a, b => by simp [rawNamed, rawNamed_append a b]
theorem rawDefs_defs : ∀ (ds : List Def), rawDefs (ds.map .def_) = ds
  | [] => rfl
  | d :: ds => by simp [rawDefs, rawDefs_defs ds]
theorem rawDefs_named : ∀ (ns : List Named), rawDefs (ns.map .named) = []
  | [] => rfl
  | n :: ns => by simp [rawDefs, rawDefs_named ns]
theorem rawNamed_named : ∀ (ns : List Named), rawNamed (ns.map .named) = ns
  | [] => rfl
  | n :: ns => by simp [rawNamed, rawNamed_named ns]
theorem rawNamed_defs : ∀ (ds : List Def), rawNamed (ds.map .def_) = []
  | [] => rfl
  | d :: ds => by simp [rawNamed, rawNamed_defs ds]

/-! ### sorted lists are fixed by the sorting passes -/

theorem sortedIds_lt : ∀ (d : Def) (r : List Def), sortedIds (d :: r) = true → ∀ e ∈ r, d.id < e.id
  | _, [], _, e, he => by simp at he
  | d, x :: r, h, e, he => by
    simp only [sortedIds, Bool.and_eq_true, decide_eq_true_eq] at h
    simp only [List.mem_cons] at he
    rcases he with he | he
    · subst he; exact h.1
    · have := sortedIds_lt x r h.2 e he; omega

theorem sortedIds_tail (d : Def) (r : List Def) (h : sortedIds (d :: r) = true) : sortedIds r = true := by
  cases r with
  | nil => rfl
  | cons x r => simp only [sortedIds, Bool.and_eq_true] at h; exact h.2

theorem hasDupN_sorted : ∀ (ds : List Def), sortedIds ds = true → hasDupN (ds.map (·.id)) = false
  | [], _ => rfl
  | d :: r, h => by
    have hlt := sortedIds_lt d r h
    have ih := hasDupN_sorted r (sortedIds_tail d r h)
    simp only [List.map_cons, hasDupN, ih, Bool.or_false]
    simp only [List.contains_eq_any_beq, List.any_map, List.any_eq_false, Function.comp, beq_iff_eq]
    intro e he heq
    have := hlt e he
    omega

theorem sortDefs_sorted : ∀ (ds : List Def), sortedIds ds = true → sortDefs ds = ds
  | [], _ => rfl
  | [d], _ => rfl
  | d :: e :: r, h => by
    have ih := sortDefs_sorted (e :: r) (sortedIds_tail d (e :: r) h)
    simp only [sortedIds, Bool.and_eq_true, decide_eq_true_eq] at h
    have : sortDefs (d :: e :: r) = insertDef d (sortDefs (e :: r)) := rfl
    rw [this, ih]
    simp [insertDef, h.1]

theorem sortedNames_tail (a : Named) (r : List Named) (h : sortedNames (a :: r) = true) : sortedNames r = true := by
  cases r with
  | nil => rfl
  | cons x r => simp only [sortedNames, Bool.and_eq_true] at h; exact h.2

theorem sortNamed_sorted : ∀ (ns : List Named), sortedNames ns = true → sortNamed ns = ns
  | [], _ => rfl
  | [n], _ => rfl
  | a :: b :: r, h => by
    have ih := sortNamed_sorted (b :: r) (sortedNames_tail a (b :: r) h)
    simp only [sortedNames, Bool.and_eq_true] at h
    have : sortNamed (a :: b :: r) = insertNamed a (sortNamed (b :: r)) := rfl
    rw [this, ih]
    simp [insertNamed, h.1]

theorem namesInOrder_distinct : ∀ (l : List Named), distinctNames l = true → namesInOrder l = l.map (·.name)
  | [], _ => rfl
  | n :: r, h => by
    simp only [distinctNames, Bool.and_eq_true, List.all_eq_true, Bool.not_eq_true'] at h
    have ih := namesInOrder_distinct r h.2
    simp only [namesInOrder, ih, List.map_cons, List.cons.injEq, true_and]
    apply List.filter_eq_self.mpr
    intro m hm
    simp only [List.mem_map] at hm
    obtain ⟨x, hx, rfl⟩ := hm
    simpa using h.1 x hx

theorem filter_name_distinct : ∀ (l : List Named), distinctNames l = true → ∀ n ∈ l, l.filter (·.name == n.name) = [n]
  | [], _, n, hn => by simp at hn
  | x :: r, h, n, hn => by
    simp only [distinctNames, Bool.and_eq_true, List.all_eq_true, Bool.not_eq_true'] at h
    simp only [List.mem_cons] at hn
    rcases hn with hn | hn
    · subst hn
      have : r.filter (fun m => m.name == n.name) = [] := by
        apply List.filter_eq_nil_iff.mpr
        intro m hm; simpa using h.1 m hm
      simp [List.filter, this]
    · have hne : (x.name == n.name) = false := by
        have := h.1 n hn
        rw [Bool.eq_false_iff] at this ⊢
        intro e; apply this; simp at e ⊢; exact e.symm
      simp [List.filter, hne, filter_name_distinct r h.2 n hn]

theorem mergeNamed_distinct (l : List Named) (h : distinctNames l = true) : mergeNamed l = l := by
  unfold mergeNamed
  rw [namesInOrder_distinct l h, List.map_map]
  conv => rhs; rw [← List.map_id l]
  apply List.map_congr_left
  intro n hn
  simp [Function.comp, filter_name_distinct l h n hn]

/-! ### the round trip -/

theorem translate_print (s : Sec) (h : wf s = true) :
    translate (s.named.map .named ++ ((if s.named.isEmpty || s.defs.isEmpty then [] else [Raw.blank]) ++ s.defs.map .def_)) = .ok s := by
  simp only [wf, Bool.and_eq_true] at h
  obtain ⟨⟨⟨⟨⟨_, _⟩, hsi⟩, hsn⟩, hdn⟩, hrefs⟩ := h
  have hb : rawDefs (if s.named.isEmpty || s.defs.isEmpty then [] else [Raw.blank]) = [] ∧
      rawNamed (if s.named.isEmpty || s.defs.isEmpty then [] else [Raw.blank]) = [] := by
    split <;> simp [rawDefs, rawNamed]
  have hd : rawDefs (s.named.map .named ++ ((if s.named.isEmpty || s.defs.isEmpty then [] else [Raw.blank]) ++ s.defs.map .def_)) = s.defs := by
    rw [rawDefs_append, rawDefs_append, rawDefs_named, rawDefs_defs, hb.1]; simp
  have hn : rawNamed (s.named.map .named ++ ((if s.named.isEmpty || s.defs.isEmpty then [] else [Raw.blank]) ++ s.defs.map .def_)) = s.named := by
    rw [rawNamed_append, rawNamed_append, rawNamed_named, rawNamed_defs, hb.2]; simp
  unfold translate
  simp only [hd, hn, hasDupN_sorted s.defs hsi, Bool.false_eq_true, if_false, hrefs, Bool.not_true,
    mergeNamed_distinct s.named hdn, sortNamed_sorted s.named hsn, sortDefs_sorted s.defs hsi]

/-- **the parser inverts the printer on every well-formed metadata section** -/
theorem parse_print (useHex : Int → Bool) (s : Sec) (h : wf s = true) : parse (printSec useHex s) = .ok s := by
  have h' := h
  simp only [wf, Bool.and_eq_true, List.all_eq_true, decide_eq_true_eq, Bool.not_eq_true', List.isEmpty_eq_false_iff] at h'
  obtain ⟨⟨⟨⟨⟨hdefs, hnamed⟩, _⟩, _⟩, _⟩, _⟩ := h'
  have h1 := readLines_named s.named (fun n hn => ⟨(hnamed n hn).1, (hnamed n hn).2⟩)
  have h2 := readLines_defs useHex s.defs (fun d hd => hdefs d hd)
  have h3 : readLines (if s.named.isEmpty || s.defs.isEmpty then [] else [[]]) = some (if s.named.isEmpty || s.defs.isEmpty then [] else [Raw.blank]) := by
    split <;> simp [readLines, readLine]
  have hall := readLines_append _ _ _ _ h1 (readLines_append _ _ _ _ h3 h2)
  unfold parse printSec
  rw [List.append_assoc, hall]
  exact translate_print s h

/-! ### every accepted section -/

theorem insertDef_mem (d x : Def) : ∀ (l : List Def), x ∈ insertDef d l ↔ x = d ∨ x ∈ l
  | [] => by simp [insertDef]
  | e :: es => by
    unfold insertDef
    split
    · simp
    · simp only [List.mem_cons, insertDef_mem d x es]
      constructor
      · rintro (h | h | h)
        · exact Or.inr (Or.inl h)
        · exact Or.inl h
        · exact Or.inr (Or.inr h)
      · rintro (h | h | h)
        · exact Or.inr (Or.inl h)
        · exact Or.inl h
        · exact Or.inr (Or.inr h)

theorem sortDefs_mem (x : Def) : ∀ (l : List Def), x ∈ sortDefs l ↔ x ∈ l
  | [] => by simp [sortDefs]
  | d :: r => by
    have : sortDefs (d :: r) = insertDef d (sortDefs r) := rfl
    rw [this, insertDef_mem, sortDefs_mem x r]; simp

theorem sortedIds_cons (a : Def) (l : List Def) : sortedIds (a :: l) = true ↔ (∀ e ∈ l.head?, a.id < e.id) ∧ sortedIds l = true := by
  cases l with
  | nil => simp [sortedIds]
  | cons b r => simp [sortedIds]

theorem insertDef_head (d : Def) : ∀ (l : List Def), (insertDef d l).head? = some d ∨ (insertDef d l).head? = l.head?
  | [] => by simp [insertDef]
  | e :: es => by unfold insertDef; split <;> simp

theorem insertDef_sorted (d : Def) : ∀ (l : List Def), sortedIds l = true → (∀ e ∈ l, e.id ≠ d.id) → sortedIds (insertDef d l) = true
  | [], _, _ => rfl
  | e :: es, hs, hne => by
    unfold insertDef
    split
    · rename_i hlt
      rw [sortedIds_cons]; exact ⟨by simpa using hlt, hs⟩
    · rename_i hlt
      rw [sortedIds_cons] at hs ⊢
      refine ⟨?_, insertDef_sorted d es hs.2 (fun x hx => hne x (by simp [hx]))⟩
      intro x hx
      rcases insertDef_head d es with h | h
      · rw [h] at hx; simp at hx; subst hx
        have := hne e (by simp); omega
      · rw [h] at hx; exact hs.1 x hx

theorem sortDefs_sortedIds : ∀ (l : List Def), hasDupN (l.map (·.id)) = false → sortedIds (sortDefs l) = true
  | [], _ => rfl
  | d :: r, h => by
    simp only [List.map_cons, hasDupN, Bool.or_eq_false_iff] at h
    have : sortDefs (d :: r) = insertDef d (sortDefs r) := rfl
    rw [this]
    apply insertDef_sorted d _ (sortDefs_sortedIds r h.2)
    intro e he heq
    rw [sortDefs_mem] at he
    have : (r.map (·.id)).contains d.id = true := by
      simp only [List.contains_eq_any_beq, List.any_map, List.any_eq_true, Function.comp, beq_iff_eq]
      exact ⟨e, he, heq.symm⟩
    exact absurd heq (by simpa using (by simpa using h.1 : ∀ x ∈ r, ¬ x.id = d.id) e he)

theorem insertNamed_ids (n : Named) (k : Nat) : ∀ (l : List Named), k ∈ (insertNamed n l).flatMap (·.ids) ↔ k ∈ n.ids ∨ k ∈ l.flatMap (·.ids)
  | [] => by simp [insertNamed]
  | e :: es => by
    unfold insertNamed
    split
    · simp
    · simp only [List.flatMap_cons, List.mem_append, insertNamed_ids n k es]
      constructor
      · rintro (h | h | h)
        · exact Or.inr (Or.inl h)
        · exact Or.inl h
        · exact Or.inr (Or.inr h)
      · rintro (h | h | h)
        · exact Or.inr (Or.inl h)
        · exact Or.inl h
        · exact Or.inr (Or.inr h)

theorem sortNamed_ids (k : Nat) : ∀ (l : List Named), k ∈ (sortNamed l).flatMap (·.ids) ↔ k ∈ l.flatMap (·.ids)
  | [] => by simp [sortNamed]
  | n :: r => by
    have : sortNamed (n :: r) = insertNamed n (sortNamed r) := rfl
    rw [this, insertNamed_ids, sortNamed_ids k r]; simp

/-- merging keeps no node that was not listed -/
theorem mergeNamed_ids (k : Nat) (l : List Named) (h : k ∈ (mergeNamed l).flatMap (·.ids)) : k ∈ l.flatMap (·.ids) := by
  simp only [mergeNamed, List.mem_flatMap, List.mem_map] at h ⊢
  obtain ⟨m, ⟨nm, _, rfl⟩, hk⟩ := h
  simp only [List.mem_flatten, List.mem_map, List.mem_filter] at hk
  obtain ⟨ids, ⟨x, ⟨hx, _⟩, rfl⟩, hk⟩ := hk
  exact ⟨x, hx, hk⟩

/-- what `translate` guarantees about every section it accepts -/
theorem translate_ok (rs : List Raw) (s : Sec) (h : translate rs = .ok s) :
    hasDupN ((rawDefs rs).map (·.id)) = false ∧
    (∀ n ∈ (rawDefs rs).flatMap (fun d => fieldsRefs d.fields) ++ (rawNamed rs).flatMap (·.ids), ((rawDefs rs).map (·.id)).contains n = true) ∧
    s = ⟨sortNamed (mergeNamed (rawNamed rs)), sortDefs (rawDefs rs)⟩ := by
  unfold translate at h
  simp only at h
  split at h
  · cases h
  · rename_i hd
    split at h
    · cases h
    · rename_i hr
      injection h with h
      refine ⟨by simpa using hd, ?_, h.symm⟩
      simp only [Bool.not_eq_true, Bool.not_eq_false'] at hr
      intro n hn
      exact (List.all_eq_true.mp hr) n hn

end Llir.Meta
