import LlirProofs.TyParseLemmas
namespace Llir.TyParse
open Llir Llir.Types

def post : Ty → Nat
  | .ptr e _ => post e + 1
  | .func r _ _ => post r + 1
  | _ => 0

mutual
def w : Ty → Nat
  | .ptr e _ => w e + 1
  | .vec _ _ e => w e + 2
  | .arr _ e => w e + 2
  | .struct _ fs => wL fs + 2
  | .func r ps _ => w r + wL ps + 1
  | _ => 2
def wL : TyList → Nat
  | .nil => 0
  | .cons t ts => w t + wL ts + 1
end

theorem post_lt_w : ∀ (t : Ty), post t + 2 ≤ w t
  | .ptr e _ => by have := post_lt_w e; simp [post, w]; omega
  | .func r _ _ => by have := post_lt_w r; simp [post, w]; omega
  | .void | .mmx | .label | .token | .metadata | .int _ | .float _ | .named _ => by simp [post, w]
  | .vec _ _ e => by simp [post, w]
  | .arr _ e => by simp [post, w]
  | .struct _ fs => by simp [post, w]

theorem base_void (f : Nat) (r : Bytes) : parseBase (f + 1) (tyString .void ++ r) = some (.void, r) := by
  simp [parseBase, tyString, sVoid, stripPrefix]
theorem base_mmx (f : Nat) (r : Bytes) : parseBase (f + 1) (tyString .mmx ++ r) = some (.mmx, r) := by
  simp [parseBase, tyString, sVoid, sMMX, stripPrefix]
theorem base_label (f : Nat) (r : Bytes) : parseBase (f + 1) (tyString .label ++ r) = some (.label, r) := by
  simp [parseBase, tyString, sVoid, sMMX, sLabel, stripPrefix]
theorem base_token (f : Nat) (r : Bytes) : parseBase (f + 1) (tyString .token ++ r) = some (.token, r) := by
  simp [parseBase, tyString, sVoid, sMMX, sLabel, sToken, stripPrefix]
theorem base_metadata (f : Nat) (r : Bytes) : parseBase (f + 1) (tyString .metadata ++ r) = some (.metadata, r) := by
  simp [parseBase, tyString, sVoid, sMMX, sLabel, sToken, sMetadata, stripPrefix]


theorem base_float (f : Nat) (k : Nat) (r : Bytes) : parseBase (f + 1) (tyString (.float k) ++ r) = some (.float k, r) := by
  match k with
  | 0 => simp [parseBase, tyString, floatKindName, sVoid, sMMX, sLabel, sToken, sMetadata, sHalf, stripPrefix]
  | 1 => simp [parseBase, tyString, floatKindName, sVoid, sMMX, sLabel, sToken, sMetadata, sHalf, sFloat, stripPrefix]
  | 2 => simp [parseBase, tyString, floatKindName, sVoid, sMMX, sLabel, sToken, sMetadata, sHalf, sFloat, sDouble, stripPrefix]
  | 3 => simp [parseBase, tyString, floatKindName, sVoid, sMMX, sLabel, sToken, sMetadata, sHalf, sFloat, sDouble, sFp128, stripPrefix]
  | 4 => simp [parseBase, tyString, floatKindName, sVoid, sMMX, sLabel, sToken, sMetadata, sHalf, sFloat, sDouble, sFp128, sX86fp80, stripPrefix]
  | 5 => simp [parseBase, tyString, floatKindName, sVoid, sMMX, sLabel, sToken, sMetadata, sHalf, sFloat, sDouble, sFp128, sX86fp80, sPpc, stripPrefix]
  | n + 6 =>
    have hn : readNat (natDec (n + 6) ++ 41 :: r) = some (n + 6, 41 :: r) := readNat_natDec (n + 6) (41 :: r) (by simp; decide)
    simp [parseBase, tyString, floatKindName, sVoid, sMMX, sLabel, sToken, sMetadata, sHalf, sFloat, sDouble, sFp128, sX86fp80, sPpc,
      sFloatKind, stripPrefix, hn]

theorem base_int (f : Nat) (wd : Nat) (r : Bytes) (hr : cont r = true) :
    parseBase (f + 1) (tyString (.int wd) ++ r) = some (.int wd, r) := by
  have hn := readNat_natDec wd r (cont_not_digit r hr)
  simp [parseBase, tyString, hn]

theorem base_named (f : Nat) (n : Bytes) (r : Bytes) (hr : cont r = true) :
    parseBase (f + 1) (tyString (.named n) ++ r) = some (.named n, r) := by
  have hn := readName_escapeIdent n r hr
  simp [parseBase, tyString, Enc.typeName, hn]

theorem base_arr (f : Nat) (n : Nat) (e : Ty) (r : Bytes)
    (he : parseTy f (tyString e ++ 93 :: r) = some (e, 93 :: r)) :
    parseBase (f + 1) (tyString (.arr n e) ++ r) = some (.arr n e, r) := by
  have hn : readNat (natDec n ++ (sX ++ (tyString e ++ 93 :: r))) = some (n, sX ++ (tyString e ++ 93 :: r)) :=
    readNat_natDec n _ (by simp [sX]; decide)
  have hx := stripPrefix_append sX (tyString e ++ 93 :: r)
  simp [parseBase, tyString, hn, hx, he]


theorem base_vec (f : Nat) (sc : Bool) (n : Nat) (e : Ty) (r : Bytes)
    (he : parseTy f (tyString e ++ 62 :: r) = some (e, 62 :: r)) :
    parseBase (f + 1) (tyString (.vec sc n e) ++ r) = some (.vec sc n e, r) := by
  have hn : readNat (natDec n ++ (sX ++ (tyString e ++ 62 :: r))) = some (n, sX ++ (tyString e ++ 62 :: r)) :=
    readNat_natDec n _ (by simp [sX]; decide)
  have hx := stripPrefix_append sX (tyString e ++ 62 :: r)
  cases sc with
  | true =>
    have hv := stripPrefix_append sVscale (natDec n ++ (sX ++ (tyString e ++ 62 :: r)))
    have hv' : stripPrefix sVscale (118 :: 115 :: 99 :: 97 :: 108 :: 101 :: 32 :: 120 :: 32 :: (natDec n ++ (sX ++ (tyString e ++ 62 :: r)))) =
        some (natDec n ++ (sX ++ (tyString e ++ 62 :: r))) := hv
    simp [parseBase, tyString, sVscale, stripPrefix, hn, hx, he]
  | false =>
    obtain ⟨d, ds, hd, hdig⟩ := natDec_head n
    have h123 : d ≠ 123 := by intro h; subst h; exact absurd hdig (by decide)
    have h118 : d ≠ 118 := by intro h; subst h; exact absurd hdig (by decide)
    have hn' : readNat (d :: (ds ++ (sX ++ (tyString e ++ 62 :: r)))) = some (n, sX ++ (tyString e ++ 62 :: r)) := by
      have := hn; rw [hd] at this; simpa using this
    simp [parseBase, tyString, hd, h123, h118, hn', hx, he]

theorem base_struct_nil (f : Nat) (p : Bool) (r : Bytes) :
    parseBase (f + 1) (tyString (.struct p .nil) ++ r) = some (.struct p .nil, r) := by
  cases p <;> simp [parseBase, tyString]

theorem base_struct_cons (f : Nat) (p : Bool) (t : Ty) (ts : TyList) (r : Bytes)
    (hl : ∀ r', stop r' = true → r'.head? = some 32 →
      parseList f (tyListString (.cons t ts) ++ r') = some (.cons t ts, r')) :
    parseBase (f + 1) (tyString (.struct p (.cons t ts)) ++ r) = some (.struct p (.cons t ts), r) := by
  cases p with
  | false =>
    have := hl (32 :: 125 :: r) rfl rfl
    simp [parseBase, tyString, this]
  | true =>
    have := hl (32 :: 125 :: 62 :: r) rfl rfl
    simp [parseBase, tyString, this]


/-! ### postfix steps -/

def ptrSuffix (as : Nat) : Bytes := (if as != 0 then sAddrspace ++ natDec as ++ [41] else []) ++ [42]

theorem post_ptr (g : Nat) (e : Ty) (as : Nat) (r : Bytes) :
    parsePost (g + 1) e (ptrSuffix as ++ r) = parsePost g (.ptr e as) r := by
  unfold ptrSuffix
  by_cases h0 : as = 0
  · subst h0; simp [parsePost]
  · have hne : (as != 0) = true := by simpa using h0
    have hn : readNat (natDec as ++ 41 :: 42 :: r) = some (as, 41 :: 42 :: r) := readNat_natDec as _ (by simp; decide)
    simp [hne, parsePost, sAddrspace, stripPrefix, hn, h0]

def funcSuffix (ps : TyList) (v : Bool) : Bytes :=
  [32, 40] ++ tyListString ps ++ (if v then (match ps with | .nil => sDots | .cons _ _ => sComma ++ sDots) else []) ++ [41]

def stopL (r : Bytes) : Bool :=
  stop r && (match r with | 44 :: 32 :: r' => r'.head? == some 46 | _ => true)

theorem tyListString_cons_head (t : Ty) (ts : TyList) :
    ∃ c rest, tyListString (.cons t ts) = c :: rest ∧ tyStart c = true := by
  obtain ⟨c, rest, h, hc⟩ := tyString_head t
  cases ts with
  | nil => exact ⟨c, rest, by simp [tyListString, h], hc⟩
  | cons u us => exact ⟨c, rest ++ (sComma ++ tyListString (.cons u us)), by simp [tyListString, h], hc⟩

theorem post_func (g : Nat) (rt : Ty) (ps : TyList) (v : Bool) (r : Bytes)
    (hl : ∀ r', stopL r' = true → (match ps with
      | .nil => True
      | .cons _ _ => parseList g (tyListString ps ++ r') = some (ps, r'))) :
    parsePost (g + 1) rt (funcSuffix ps v ++ r) = parsePost g (.func rt ps v) r := by
  unfold funcSuffix
  cases ps with
  | nil =>
    cases v <;> simp [parsePost, tyListString, sDots, stripPrefix]
  | cons t ts =>
    obtain ⟨c, rest, hh, hc⟩ := tyListString_cons_head t ts
    have h41 : c ≠ 41 := by intro h; subst h; exact absurd hc (by decide)
    have h46 : c ≠ 46 := by intro h; subst h; exact absurd hc (by decide)
    cases v with
    | false =>
      have := hl (41 :: r) (by simp [stopL, stop])
      simp only at this
      rw [hh, List.cons_append] at this
      simp [parsePost, hh, h41, h46, this]
    | true =>
      have := hl (44 :: 32 :: 46 :: 46 :: 46 :: 41 :: r) (by simp [stopL, stop])
      simp only at this
      rw [hh, List.cons_append] at this
      simp [parsePost, hh, h41, h46, sComma, sDots, this]

theorem parseTy_of_base (g : Nat) (s : Bytes) (b : Ty) (r : Bytes) (h : parseBase g s = some (b, r)) :
    parseTy (g + 1) s = parsePost g b r := by
  simp [parseTy, h]

theorem B_of_A (t : Ty)
    (hA : ∀ g r, cont r = true → w t ≤ g + post t + 1 → parseTy (g + post t + 1) (tyString t ++ r) = parsePost g t r) :
    ∀ f r, stop r = true → w t ≤ f → parseTy f (tyString t ++ r) = some (t, r) := by
  intro f r hs hw
  have hp := post_lt_w t
  obtain ⟨g, rfl⟩ : ∃ g, f = (g + 1) + post t + 1 := ⟨f - post t - 2, by omega⟩
  rw [hA (g + 1) r (stop_cont r hs) (by omega)]
  exact parsePost_stop g t r hs


theorem stopL_stop (r : Bytes) (h : stopL r = true) : stop r = true := by
  simp only [stopL, Bool.and_eq_true] at h; exact h.1

theorem cont_ptrSuffix (as : Nat) (r : Bytes) : cont (ptrSuffix as ++ r) = true := by
  unfold ptrSuffix
  by_cases h : as = 0
  · subst h; simp [cont]
  · have : (as != 0) = true := by simpa using h
    simp [this, sAddrspace, cont]

theorem cont_funcSuffix (ps : TyList) (v : Bool) (r : Bytes) : cont (funcSuffix ps v ++ r) = true := by
  simp [funcSuffix, cont]

theorem tyString_ptr_eq (e : Ty) (as : Nat) (r : Bytes) : tyString (.ptr e as) ++ r = tyString e ++ (ptrSuffix as ++ r) := by
  simp [tyString, ptrSuffix]

theorem tyString_func_eq (rt : Ty) (ps : TyList) (v : Bool) (r : Bytes) :
    tyString (.func rt ps v) ++ r = tyString rt ++ (funcSuffix ps v ++ r) := by
  cases v <;> cases ps <;> simp [tyString, funcSuffix]

/-- one list element followed by a continuation where the list certainly ends -/
theorem list_last (f : Nat) (t : Ty) (r : Bytes) (hr : stopL r = true)
    (hB : parseTy f (tyString t ++ r) = some (t, r)) :
    parseList (f + 1) (tyString t ++ r) = some (.cons t .nil, r) := by
  rw [parseList.eq_def]
  simp only [hB]
  simp only [stopL, Bool.and_eq_true] at hr
  obtain ⟨_, h2⟩ := hr
  split
  · rename_i t' r' heq
    simp only [Option.some.injEq, Prod.mk.injEq] at heq
    obtain ⟨rfl, hr'⟩ := heq
    rw [hr'] at h2
    simp only at h2
    simp [h2, hr']
  · rename_i t' r' hne heq
    simp only [Option.some.injEq, Prod.mk.injEq] at heq
    obtain ⟨rfl, rfl⟩ := heq
    rfl
  · rename_i heq; cases heq

theorem list_more (f : Nat) (t u : Ty) (us : TyList) (r : Bytes)
    (hB : parseTy f (tyString t ++ (sComma ++ (tyListString (.cons u us) ++ r))) = some (t, sComma ++ (tyListString (.cons u us) ++ r)))
    (hL : parseList f (tyListString (.cons u us) ++ r) = some (.cons u us, r)) :
    parseList (f + 1) (tyListString (.cons t (.cons u us)) ++ r) = some (.cons t (.cons u us), r) := by
  obtain ⟨c, rest, hh, hc⟩ := tyListString_cons_head u us
  have h46 : c ≠ 46 := by intro h; subst h; exact absurd hc (by decide)
  have e : tyListString (.cons t (.cons u us)) ++ r = tyString t ++ (sComma ++ (tyListString (.cons u us) ++ r)) := by
    simp [tyListString]
  rw [e, parseList.eq_def]
  simp only [hB]
  rw [hh] at hL ⊢
  rw [List.cons_append] at hL
  simp [sComma, h46, hL]


theorem leaf_case (t : Ty) (g : Nat) (r : Bytes) (hp : post t = 0) (hw : 2 ≤ g + post t + 1)
    (hb : ∀ f, parseBase (f + 1) (tyString t ++ r) = some (t, r)) :
    parseTy (g + post t + 1) (tyString t ++ r) = parsePost g t r := by
  rw [hp] at hw ⊢
  obtain ⟨g', rfl⟩ : ∃ g', g = g' + 1 := ⟨g - 1, by omega⟩
  exact parseTy_of_base (g' + 1) _ t r (hb g')

mutual
theorem parse_print : ∀ (t : Ty) (g : Nat) (r : Bytes), cont r = true → w t ≤ g + post t + 1 →
    parseTy (g + post t + 1) (tyString t ++ r) = parsePost g t r
  | .void, g, r, _, hw => leaf_case .void g r rfl (by simpa [w] using hw) (fun f => base_void f r)
  | .mmx, g, r, _, hw => leaf_case .mmx g r rfl (by simpa [w] using hw) (fun f => base_mmx f r)
  | .label, g, r, _, hw => leaf_case .label g r rfl (by simpa [w] using hw) (fun f => base_label f r)
  | .token, g, r, _, hw => leaf_case .token g r rfl (by simpa [w] using hw) (fun f => base_token f r)
  | .metadata, g, r, _, hw => leaf_case .metadata g r rfl (by simpa [w] using hw) (fun f => base_metadata f r)
  | .int wd, g, r, hc, hw => leaf_case (.int wd) g r rfl (by simpa [w] using hw) (fun f => base_int f wd r hc)
  | .float k, g, r, _, hw => leaf_case (.float k) g r rfl (by simpa [w] using hw) (fun f => base_float f k r)
  | .named n, g, r, hc, hw => leaf_case (.named n) g r rfl (by simpa [w] using hw) (fun f => base_named f n r hc)
  | .arr n e, g, r, _, hw => by
    have hw' : w e + 2 ≤ g + 1 := by simpa [w, post] using hw
    obtain ⟨g', rfl⟩ : ∃ g', g = g' + 1 := ⟨g - 1, by have := post_lt_w e; omega⟩
    have hB := B_of_A e (parse_print e) g' (93 :: r) (by simp [stop]) (by omega)
    exact parseTy_of_base (g' + 1) _ _ r (base_arr g' n e r hB)
  | .vec sc n e, g, r, _, hw => by
    have hw' : w e + 2 ≤ g + 1 := by simpa [w, post] using hw
    obtain ⟨g', rfl⟩ : ∃ g', g = g' + 1 := ⟨g - 1, by have := post_lt_w e; omega⟩
    have hB := B_of_A e (parse_print e) g' (62 :: r) (by simp [stop]) (by omega)
    exact parseTy_of_base (g' + 1) _ _ r (base_vec g' sc n e r hB)
  | .struct p .nil, g, r, _, hw => leaf_case (.struct p .nil) g r rfl (by simpa [w, wL] using hw) (fun f => base_struct_nil f p r)
  | .struct p (.cons t ts), g, r, _, hw => by
    have hw' : wL (.cons t ts) + 2 ≤ g + 1 := by simpa [w, post] using hw
    obtain ⟨g', rfl⟩ : ∃ g', g = g' + 1 := ⟨g - 1, by omega⟩
    have hL := fun r' (hs : stop r' = true) (hh : r'.head? = some 32) =>
      parse_print_list (.cons t ts) g' r' (by
        simp only [stopL, hs, Bool.true_and]
        cases r' with
        | nil => rfl
        | cons a r'' => simp at hh; subst hh; rfl) (by omega)
    exact parseTy_of_base (g' + 1) _ _ r (base_struct_cons g' p t ts r hL)
  | .ptr e as, g, r, _, hw => by
    have hw' : w e + 1 ≤ g + (post e + 1) + 1 := by simpa [w, post] using hw
    have e1 : g + post (.ptr e as) + 1 = (g + 1) + post e + 1 := by simp [post]; omega
    rw [e1, tyString_ptr_eq, parse_print e (g + 1) _ (cont_ptrSuffix as r) (by omega), post_ptr]
  | .func rt ps v, g, r, _, hw => by
    have hw' : w rt + wL ps + 1 ≤ g + (post rt + 1) + 1 := by simpa [w, post] using hw
    have hp := post_lt_w rt
    have e1 : g + post (.func rt ps v) + 1 = (g + 1) + post rt + 1 := by simp [post]; omega
    rw [e1, tyString_func_eq, parse_print rt (g + 1) _ (cont_funcSuffix ps v r) (by omega)]
    apply post_func
    intro r' hs
    cases ps with
    | nil => trivial
    | cons t ts => exact parse_print_list (.cons t ts) g r' hs (by omega)

theorem parse_print_list : ∀ (tl : TyList) (f : Nat) (r : Bytes), stopL r = true → wL tl ≤ f →
    (match tl with
     | .nil => True
     | .cons _ _ => parseList f (tyListString tl ++ r) = some (tl, r))
  | .nil, _, _, _, _ => trivial
  | .cons t .nil, f, r, hs, hw => by
    have hw' : w t + 1 ≤ f := by simpa [wL] using hw
    obtain ⟨f', rfl⟩ : ∃ f', f = f' + 1 := ⟨f - 1, by omega⟩
    have hB := B_of_A t (parse_print t) f' r (stopL_stop r hs) (by omega)
    simpa [tyListString] using list_last f' t r hs hB
  | .cons t (.cons u us), f, r, hs, hw => by
    have hw' : w t + wL (.cons u us) + 1 ≤ f := by simpa [wL] using hw
    obtain ⟨f', rfl⟩ : ∃ f', f = f' + 1 := ⟨f - 1, by omega⟩
    have hB := B_of_A t (parse_print t) f' (sComma ++ (tyListString (.cons u us) ++ r)) (by simp [sComma, stop]) (by omega)
    have hL := parse_print_list (.cons u us) f' r hs (by omega)
    exact list_more f' t u us r hB hL
end


/-- Round trip, stated on `parseTy`: enough fuel, and a continuation at which a type ends. -/
theorem parseTy_tyString (t : Ty) (f : Nat) (r : Bytes) (hs : stop r = true) (hf : w t ≤ f) :
    parseTy f (tyString t ++ r) = some (t, r) :=
  B_of_A t (parse_print t) f r hs hf

/-- any continuation that is not itself a postfix form (`*`, ` a…`, ` (`) -/
def stopG (r : Bytes) : Bool :=
  match r with
  | 42 :: _ => false
  | 32 :: 97 :: _ => false
  | 32 :: 40 :: _ => false
  | _ => true

theorem parsePost_stopG (f : Nat) (t : Ty) (r : Bytes) (h : stopG r = true) : parsePost (f + 1) t r = some (t, r) := by
  unfold stopG at h
  split at h
  · cases h
  · cases h
  · cases h
  · rename_i h1 h2 h3
    simp only [parsePost]

/-- Round trip for a type followed by anything that may follow a type and is not a postfix form
    (e.g. ` 42` in `i32 42`) -/
theorem parseTy_tyString_gen (t : Ty) (f : Nat) (r : Bytes) (hc : cont r = true) (hs : stopG r = true) (hf : w t ≤ f) :
    parseTy f (tyString t ++ r) = some (t, r) := by
  have hp := post_lt_w t
  obtain ⟨g, rfl⟩ : ∃ g, f = (g + 1) + post t + 1 := ⟨f - post t - 2, by omega⟩
  rw [parse_print t (g + 1) r hc (by omega)]
  exact parsePost_stopG g t r hs

/-- **The type printer is injective.** -/
theorem tyString_injective (t u : Ty) (h : tyString t = tyString u) : t = u := by
  have h1 := parseTy_tyString t (max (w t) (w u)) [] rfl (Nat.le_max_left _ _)
  have h2 := parseTy_tyString u (max (w t) (w u)) [] rfl (Nat.le_max_right _ _)
  rw [h, h2] at h1
  simp only [Option.some.injEq, Prod.mk.injEq, and_true] at h1
  exact h1.symm

mutual
theorem w_le_len : ∀ (t : Ty), w t ≤ 2 * (tyString t).length
  | .void | .mmx | .label | .token | .metadata => by simp [w, tyString, sVoid, sMMX, sLabel, sToken, sMetadata]
  | .int wd => by
    have := natDec_ne_nil wd
    have : 1 ≤ (natDec wd).length := by cases h : natDec wd with | nil => exact absurd h this | cons _ _ => simp
    simp [w, tyString]; omega
  | .float k => by
    unfold tyString floatKindName w
    split <;> simp <;> omega
  | .named n => by simp [w, tyString, Enc.typeName]; omega
  | .ptr e as => by have := w_le_len e; simp [w, tyString]; omega
  | .vec sc n e => by have := w_le_len e; simp [w, tyString, sX]; omega
  | .arr n e => by have := w_le_len e; simp [w, tyString, sX]; omega
  | .struct p .nil => by cases p <;> simp [w, wL, tyString]
  | .struct p (.cons t ts) => by
    have := wL_le_len (.cons t ts)
    cases p <;> simp [w, tyString] <;> omega
  | .func rt ps v => by
    have := w_le_len rt
    have := wL_le_len ps
    simp [w, tyString]; omega
theorem wL_le_len : ∀ (tl : TyList), wL tl ≤ 2 * (tyListString tl).length + 1
  | .nil => by simp [wL]
  | .cons t .nil => by have := w_le_len t; simp [wL, tyListString]; omega
  | .cons t (.cons u us) => by
    have := w_le_len t
    have := wL_le_len (.cons u us)
    simp [wL, tyListString, sComma] at *; omega
end

/-- Round trip on whole strings: what the printer prints, the reader reads back as the same type. -/
theorem parse_tyString (t : Ty) : parse (tyString t) = some t := by
  have hw := w_le_len t
  have := parseTy_tyString t (2 * (tyString t).length + 2) [] rfl (by omega)
  simp only [List.append_nil] at this
  simp [parse, this]

end Llir.TyParse
