import LlirModel.Natsort
namespace Llir.Natsort
open Llir

/-! ## key: a string as a list of tokens, each token a list of naturals; `less` is the lexicographic order of keys -/

def tokNum (z : Nat) (ds : Bytes) : List Nat := 48 :: ds.length :: (ds.map UInt8.toNat ++ [z])

def key (s : Bytes) : List (List Nat) :=
  match s with
  | [] => []
  | c :: r =>
    if h : isDigit c = true then
      have := splitNum_rest_lt c r h
      tokNum (splitNum (c :: r)).1 (splitNum (c :: r)).2.1 :: key (splitNum (c :: r)).2.2
    else [c.toNat] :: key r
termination_by s.length

theorem map_toNat_inj : ∀ (a b : Bytes), a.map UInt8.toNat = b.map UInt8.toNat → a = b
  | [], [], _ => rfl
  | [], _ :: _, h => by simp at h
  | _ :: _, [], h => by simp at h
  | x :: xs, y :: ys, h => by
    simp only [List.map_cons, List.cons.injEq] at h
    have := map_toNat_inj xs ys h.2
    have hx : x = y := UInt8.toNat_inj.mp h.1
    rw [this, hx]

theorem bytesLt_iff : ∀ (a b : Bytes), bytesLt a b = true ↔ a.map UInt8.toNat < b.map UInt8.toNat
  | [], [] => by simp [bytesLt]
  | [], _ :: _ => by simp [bytesLt]
  | _ :: _, [] => by simp [bytesLt]
  | x :: xs, y :: ys => by
    have ih := bytesLt_iff xs ys
    simp only [bytesLt, List.map_cons, List.cons_lt_cons_iff]
    by_cases h1 : x < y
    · simp only [h1, if_true, true_iff]; left; exact UInt8.lt_iff_toNat_lt.mp h1
    · simp only [h1, if_false]
      by_cases h2 : y < x
      · simp only [h2, if_true]
        constructor
        · intro h; cases h
        · rintro (h | ⟨h, _⟩)
          · exact absurd (UInt8.lt_iff_toNat_lt.mpr h) h1
          · have := UInt8.lt_iff_toNat_lt.mp h2; omega
      · simp only [h2, if_false, ih]
        have hxy : x.toNat = y.toNat := by
          have a := mt UInt8.lt_iff_toNat_lt.mpr h1
          have b := mt UInt8.lt_iff_toNat_lt.mpr h2
          omega
        constructor
        · intro h; right; exact ⟨hxy, h⟩
        · rintro (h | ⟨_, h⟩)
          · omega
          · exact h

theorem append_singleton_lt : ∀ (m1 m2 : List Nat) (z1 z2 : Nat), m1.length = m2.length →
    (m1 ++ [z1] < m2 ++ [z2] ↔ m1 < m2 ∨ (m1 = m2 ∧ z1 < z2))
  | [], [], z1, z2, _ => by simp [List.cons_lt_cons_iff]
  | [], _ :: _, _, _, h => by simp at h
  | _ :: _, [], _, _, h => by simp at h
  | x :: xs, y :: ys, z1, z2, hlen => by
    have ih := append_singleton_lt xs ys z1 z2 (by simpa using hlen)
    simp only [List.cons_append, List.cons_lt_cons_iff, ih, List.cons.injEq]
    constructor
    · rintro (h | ⟨hxy, h | ⟨hxs, h⟩⟩)
      · left; left; exact h
      · left; right; exact ⟨hxy, h⟩
      · right; exact ⟨⟨hxy, hxs⟩, h⟩
    · rintro ((h | ⟨hxy, h⟩) | ⟨⟨hxy, hxs⟩, h⟩)
      · left; exact h
      · right; exact ⟨hxy, Or.inl h⟩
      · right; exact ⟨hxy, Or.inr ⟨hxs, h⟩⟩

theorem tokNum_lt_iff (z1 z2 : Nat) (d1 d2 : Bytes) :
    tokNum z1 d1 < tokNum z2 d2 ↔
      d1.length < d2.length ∨ (d1.length = d2.length ∧
        (d1.map UInt8.toNat < d2.map UInt8.toNat ∨ (d1 = d2 ∧ z1 < z2))) := by
  unfold tokNum
  simp only [List.cons_lt_cons_iff, Nat.lt_irrefl, false_or, true_and]
  constructor
  · rintro (h | ⟨h, h'⟩)
    · left; exact h
    · right; refine ⟨h, ?_⟩
      rw [append_singleton_lt _ _ _ _ (by simp [h])] at h'
      rcases h' with h' | ⟨h', hz⟩
      · left; exact h'
      · right; exact ⟨map_toNat_inj _ _ h', hz⟩
  · rintro (h | ⟨h, h'⟩)
    · left; exact h
    · right; refine ⟨h, ?_⟩
      rw [append_singleton_lt _ _ _ _ (by simp [h])]
      rcases h' with h' | ⟨rfl, hz⟩
      · left; exact h'
      · right; exact ⟨rfl, hz⟩

theorem tokNum_inj (z1 z2 : Nat) (d1 d2 : Bytes) (h : tokNum z1 d1 = tokNum z2 d2) : d1 = d2 ∧ z1 = z2 := by
  unfold tokNum at h
  simp only [List.cons.injEq, true_and] at h
  obtain ⟨hl, h⟩ := h
  have := List.append_inj h (by simp [hl])
  exact ⟨map_toNat_inj _ _ this.1, by simpa using this.2⟩

theorem isDigit_iff (c : UInt8) : isDigit c = true ↔ 48 ≤ c.toNat ∧ c.toNat ≤ 57 := by
  simp [isDigit, UInt8.le_iff_toNat_le]

theorem key_cons_digit (c : UInt8) (r : Bytes) (h : isDigit c = true) :
    key (c :: r) = tokNum (splitNum (c :: r)).1 (splitNum (c :: r)).2.1 :: key (splitNum (c :: r)).2.2 := by
  rw [key]; simp [h]
theorem key_cons_nondigit (c : UInt8) (r : Bytes) (h : ¬ isDigit c = true) :
    key (c :: r) = [c.toNat] :: key r := by
  rw [key]; simp [h]

theorem tokNum_lt_single (z : Nat) (d : Bytes) (c : Nat) (hc : c ≠ 48) : tokNum z d < [c] ↔ 48 < c := by
  unfold tokNum; simp only [List.cons_lt_cons_iff]
  constructor
  · rintro (h | ⟨h, _⟩); exact h; exact absurd h.symm hc
  · intro h; left; exact h
theorem single_lt_tokNum (z : Nat) (d : Bytes) (c : Nat) (hc : c ≠ 48) : [c] < tokNum z d ↔ c < 48 := by
  unfold tokNum; simp only [List.cons_lt_cons_iff]
  constructor
  · rintro (h | ⟨h, _⟩); exact h; exact absurd h hc
  · intro h; left; exact h
theorem tokNum_ne_single (z : Nat) (d : Bytes) (c : Nat) : tokNum z d ≠ [c] := by
  unfold tokNum; simp

end Llir.Natsort
