import LlirProofs.EncLemmas
/-! decode ∘ encode for identifiers (C11): `asm.globalIdent (enc.GlobalName n) = name n` under an explicit guard -/
namespace Llir.Enc
open Llir

theorem unescape_no_backslash : ∀ (s : Bytes), (∀ b ∈ s, b ≠ 92) → unescape s = s
  | [], _ => by simp [unescape]
  | b :: r, h => by
    rw [unescape_cons_ne b r (h b (by simp))]
    rw [unescape_no_backslash r (fun x hx => h x (by simp [hx]))]

theorem parseUint63_none_of_quote (r : Bytes) : parseUint63 (34 :: r) = none := by
  unfold parseUint63
  simp [isDigit]

/-- a number below 2^63 is a fortiori a uint64 -/
theorem parseUint64_of_parseUint63 (n : Bytes) (v : Nat) (h : parseUint63 n = some v) : parseUint64 n = some v := by
  unfold parseUint63 at h
  unfold parseUint64
  by_cases h1 : n.isEmpty = true
  · simp [h1] at h
  · by_cases h2 : n.all isDigit = true
    · simp only [h1, h2, if_true, Bool.false_eq_true, if_false] at h ⊢
      by_cases h3 : decVal n < 2 ^ 63
      · simp only [h3, if_true] at h
        have : decVal n < 2 ^ 64 := by omega
        simp only [this, if_true]; exact h
      · simp [h3] at h
    · simp [h1, h2] at h

theorem asmUnquote_quoted (s : Bytes) : asmUnquote (34 :: (s ++ [34])) = unescape s := by
  unfold asmUnquote
  have h1 : (34 :: (s ++ [34])).length ≥ 2 := by simp
  have h2 : (34 :: (s ++ [34])).head? = some 34 := rfl
  have h3 : (34 :: (s ++ [34])).getLast? = some 34 := by
    rw [show (34 :: (s ++ [34]) : Bytes) = (34 :: s) ++ [34] by simp]
    exact List.getLast?_concat
  have h4 : ((34 :: (s ++ [34])).drop 1).dropLast = s := by simp
  simp [h1, h2, h3, h4]

theorem asmUnquote_plain (s : Bytes) (h : s.head? ≠ some 34) : asmUnquote s = s := by
  unfold asmUnquote
  have : (s.head? == some 34) = false := by
    cases hh : s.head? with
    | none => rfl
    | some b => simp [hh] at h ⊢; exact h
  simp [this]

/-- the identifier body printed after the sigil by GlobalName / LocalName -/
def nameBody (n : Bytes) : Bytes :=
  if allDigits n then 34 :: (n ++ [34]) else escapeIdent n

theorem globalName_eq (n : Bytes) : globalName n = 64 :: nameBody n := by
  unfold globalName nameBody; cases allDigits n <;> rfl
theorem localName_eq (n : Bytes) : localName n = 37 :: nameBody n := by
  unfold localName nameBody; cases allDigits n <;> rfl

theorem allDigits_of_parseUint63 (n : Bytes) (v : Nat) (h : parseUint63 n = some v) : allDigits n = true := by
  unfold parseUint63 at h
  by_cases h1 : n.isEmpty = true
  · simp [h1] at h
  · by_cases h2 : n.all isDigit = true
    · simp [allDigits, h1, h2]
    · simp [h1, h2] at h

theorem digits_no_backslash (n : Bytes) (h : n.all isDigit = true) : ∀ b ∈ n, b ≠ 92 := by
  intro b hb hc
  have := List.all_eq_true.mp h b hb
  subst hc; simp [isDigit] at this

/-- DECODING: for EVERY non-empty name, decoding the printed body gives the name back
    (all byte values, any length; quoting and \XX escapes included) — never a numeric ID. -/
theorem decode_nameBody (n : Bytes) (hne : n ≠ []) : decodeIdentBody (nameBody n) = .name n := by
  unfold nameBody
  cases hu : allDigits n with
  | true =>
    simp only [if_true]
    unfold decodeIdentBody
    rw [parseUint63_none_of_quote, asmUnquote_quoted]
    have hd : n.all isDigit = true := by
      simp only [allDigits, Bool.and_eq_true] at hu; exact hu.2
    rw [unescape_no_backslash n (digits_no_backslash n hd)]
  | false =>
    simp only [Bool.false_eq_true, if_false]
    unfold escapeIdent
    by_cases ht : (n.all inTail && !digitLedJunk n) = true
    · simp only [ht, if_true]
      have ht' : n.all inTail = true := by
        simp only [Bool.and_eq_true] at ht; exact ht.1
      unfold decodeIdentBody
      have hq : n.head? ≠ some 34 := by
        cases n with
        | nil => simp
        | cons a r =>
          simp only [List.head?_cons, ne_eq, Option.some.injEq]
          intro ha
          have := List.all_eq_true.mp ht' a (by simp)
          subst ha; simp [inTail, inHead, isAlpha, isUpper, isLower, isDigit] at this
      cases hp : parseUint63 n with
      | none => simp [asmUnquote_plain n hq]
      | some id =>
        have := allDigits_of_parseUint63 n id hp
        rw [hu] at this; cases this
    · simp only [ht, if_false, Bool.false_eq_true]
      unfold decodeIdentBody
      rw [parseUint63_none_of_quote, asmUnquote_quoted, unescape_escape _ inQuotedIdent_bs]

theorem globalIdent_globalName (n : Bytes) (hne : n ≠ []) :
    globalIdent (globalName n) = .ok (.name n) := by
  rw [globalName_eq]; simp [globalIdent, decode_nameBody n hne]

theorem localIdent_localName (n : Bytes) (hne : n ≠ []) :
    localIdent (localName n) = .ok (.name n) := by
  rw [localName_eq]; simp [localIdent, decode_nameBody n hne]

/-- INJECTIVITY: distinct names never print alike -/
theorem globalName_injective (a b : Bytes) (ha : a ≠ []) (hb : b ≠ [])
    (h : globalName a = globalName b) : a = b := by
  have h1 := globalIdent_globalName a ha
  have h2 := globalIdent_globalName b hb
  rw [h] at h1; rw [h1] at h2
  injection h2 with h2; injection h2

/-- regression witness of the repaired defect: the name `-0` now round-trips -/
theorem minus_zero_is_a_name : globalIdent (globalName [45, 48]) = .ok (.name [45, 48]) := by decide

end Llir.Enc
