import LlirModel.Gep
/-! Agreement of the three getelementptr pipelines with each other and with LLVMSpec.gepType.

`WFArg` describes the index operands that exist in well-formed LLVM IR: an integer constant has a scalar
type and fits int64, a literal vector constant has as many elements as its type says and integer elements
that fit int64; zeroinitializer / undef / poison / constant expressions / non-constants are unrestricted
(scalar or vector, fixed or scalable). `inrange` wraps exactly one such constant. -/
namespace Llir.Gep
open Llir Llir.Types Llir.Typing

def WFConst : IdxConst → Nat → Prop
  | .int v, n => n = 0 ∧ IntLit.int64Of v = v
  | .zero, _ => True
  | .vecInts vs, n => vs ≠ [] ∧ n = vs.length ∧ ∀ v ∈ vs, IntLit.int64Of v = v
  | .vecOther _, _ => False
  | .undef, _ => True
  | .poison, _ => True
  | .expr _, _ => True
  | .inrange _, _ => False

def WFArg (a : IdxArg) : Prop :=
  match a.c with
  | none => True
  | some (.inrange c) => WFConst c a.tyVecLen
  | some c => WFConst c a.tyVecLen

theorem map_int64Of_id : ∀ (vs : List Int), (∀ v ∈ vs, IntLit.int64Of v = v) → vs.map IntLit.int64Of = vs
  | [], _ => rfl
  | v :: vs, h => by
    simp only [List.map_cons, h v (by simp), map_int64Of_id vs (fun x hx => h x (by simp [hx]))]

/-- what `getIndex` + the type check compute for a well-formed constant -/
theorem getIndexIR_wf (c : IdxConst) (n : Nat) (sc : Bool) (h : WFConst c n) :
    ∃ ix, getIndexIR c = some ix ∧ (withType ⟨some c, n, sc⟩ ix).vectorLen = n ∧
      (ix.hasVal = true → LLVMSpec.constOf c = some ix.val) ∧ (ix.hasVal = false → LLVMSpec.constOf c = none) := by
  cases c with
  | int v =>
    obtain ⟨hn, hv⟩ := h
    subst hn
    exact ⟨⟨true, IntLit.int64Of v, 0, false⟩, by simp [getIndexIR], by simp [withType], by simp [LLVMSpec.constOf, hv], by simp⟩
  | zero =>
    refine ⟨⟨true, 0, 0, false⟩, by simp [getIndexIR], ?_, by simp [LLVMSpec.constOf], by simp⟩
    unfold withType; by_cases hn : n = 0 <;> simp [hn]
  | vecInts vs =>
    obtain ⟨hne, hn, hfit⟩ := h
    cases vs with
    | nil => exact absurd rfl hne
    | cons v vs =>
      have hv : IntLit.int64Of v = v := hfit v (by simp)
      have hm : vs.map IntLit.int64Of = vs := map_int64Of_id vs (fun x hx => hfit x (by simp [hx]))
      simp only [getIndexIR, hv, hm]
      by_cases hall : allEq v vs = true
      · refine ⟨⟨true, v, vs.length + 1, false⟩, by simp [hall], ?_, by simp [LLVMSpec.constOf, hall], by simp⟩
        subst hn; simp [withType]
      · have hall' : allEq v vs = false := by simpa using hall
        refine ⟨⟨false, 0, vs.length + 1, false⟩, by simp [hall'], ?_, by simp, by simp [LLVMSpec.constOf, hall']⟩
        subst hn; simp [withType]
  | vecOther k => exact absurd h (by simp [WFConst])
  | undef =>
    refine ⟨⟨false, 0, 0, false⟩, by simp [getIndexIR], ?_, by simp, by simp [LLVMSpec.constOf]⟩
    unfold withType; by_cases hn : n = 0 <;> simp [hn]
  | poison =>
    refine ⟨⟨false, 0, 0, false⟩, by simp [getIndexIR], ?_, by simp, by simp [LLVMSpec.constOf]⟩
    unfold withType; by_cases hn : n = 0 <;> simp [hn]
  | expr b =>
    refine ⟨⟨false, 0, 0, false⟩, by simp [getIndexIR], ?_, by simp, by simp [LLVMSpec.constOf]⟩
    unfold withType; by_cases hn : n = 0 <;> simp [hn]
  | inrange c => exact absurd h (by simp [WFConst])

theorem getIndexIR_inrange (c : IdxConst) (n : Nat) (h : WFConst c n) : getIndexIR (.inrange c) = getIndexIR c := by
  cases c <;> first | rfl | exact absurd h (by simp [WFConst])

theorem withType_fields (a : IdxArg) (ix : Index) :
    (withType a ix).hasVal = ix.hasVal ∧ (withType a ix).val = ix.val ∧
    (a.tyVecLen ≠ 0 → (withType a ix).vectorLen = a.tyVecLen ∧ (withType a ix).scalable = a.tyScalable) := by
  unfold withType
  by_cases hn : a.tyVecLen = 0 <;> simp [hn]

/-- classification of a well-formed index operand: succeeds, reports the TYPE's vector shape, and
    carries a value exactly when LLVM sees a constant (splat) index -/
theorem classify_wf (a : IdxArg) (h : WFArg a) :
    ∃ ix, classifyInst a = some ix ∧ ix.vectorLen = a.tyVecLen ∧ (a.tyVecLen ≠ 0 → ix.scalable = a.tyScalable) ∧
      (ix.hasVal = true → LLVMSpec.constVal a = some ix.val) ∧ (ix.hasVal = false → LLVMSpec.constVal a = none) := by
  rcases a with ⟨c, n, sc⟩
  cases c with
  | none =>
    refine ⟨withType ⟨none, n, sc⟩ ⟨false, 0, 0, false⟩, rfl, ?_, ?_, ?_, ?_⟩
    · unfold withType; by_cases hn : n = 0 <;> simp [hn]
    · intro hn; exact ((withType_fields ⟨none, n, sc⟩ ⟨false, 0, 0, false⟩).2.2 hn).2
    · intro hh; rw [(withType_fields _ _).1] at hh; cases hh
    · intro _; rfl
  | some c =>
    have key : ∀ (c0 : IdxConst), WFConst c0 n → getIndexIR c = getIndexIR c0 → LLVMSpec.constVal ⟨some c, n, sc⟩ = LLVMSpec.constOf c0 →
        ∃ ix, classifyInst ⟨some c, n, sc⟩ = some ix ∧ ix.vectorLen = n ∧ (n ≠ 0 → ix.scalable = sc) ∧
          (ix.hasVal = true → LLVMSpec.constVal ⟨some c, n, sc⟩ = some ix.val) ∧
          (ix.hasVal = false → LLVMSpec.constVal ⟨some c, n, sc⟩ = none) := by
      intro c0 hwf hg hcv
      obtain ⟨ix, hix, hl, h1, h2⟩ := getIndexIR_wf c0 n sc hwf
      have hw := withType_fields ⟨some c, n, sc⟩ ix
      refine ⟨withType ⟨some c, n, sc⟩ ix, by simp [classifyInst, hg, hix], ?_, ?_, ?_, ?_⟩
      · have : withType ⟨some c, n, sc⟩ ix = withType ⟨some c0, n, sc⟩ ix := rfl
        rw [this]; exact hl
      · intro hn; exact (hw.2.2 hn).2
      · intro hh; rw [hw.1] at hh; rw [hw.2.1, hcv]; exact h1 hh
      · intro hh; rw [hw.1] at hh; rw [hcv]; exact h2 hh
    cases c with
    | inrange c0 =>
      have hwf : WFConst c0 n := h
      exact key c0 hwf (getIndexIR_inrange c0 n hwf) rfl
    | int v => exact key (.int v) h rfl rfl
    | zero => exact key .zero h rfl rfl
    | vecInts vs => exact key (.vecInts vs) h rfl rfl
    | vecOther k => exact key (.vecOther k) h rfl rfl
    | undef => exact key .undef h rfl rfl
    | poison => exact key .poison h rfl rfl
    | expr b => exact key (.expr b) h rfl rfl

/-- the running vector shape of the result: (length, scalable); length 0 = "not a vector yet" -/
def updA (sh : Nat × Bool) (a : IdxArg) : Nat × Bool :=
  if sh.1 == 0 && a.tyVecLen != 0 then (a.tyVecLen, a.tyScalable) else sh

def finish (as : Nat) (sh : Nat × Bool) : Option Ty → R
  | some e => if sh.1 != 0 then .ok (.vec sh.2 sh.1 (.ptr e as)) else .ok (.ptr e as)
  | none => .panic

/-- all vector operands have the same length `L` -/
def LenOK (L : Nat) (a : IdxArg) : Prop := a.tyVecLen = 0 ∨ a.tyVecLen = L

theorem updA_len (L : Nat) (sh : Nat × Bool) (a : IdxArg) (hs : sh.1 = 0 ∨ sh.1 = L) (ha : LenOK L a) :
    (updA sh a).1 = 0 ∨ (updA sh a).1 = L := by
  unfold updA
  by_cases hc : (sh.1 == 0 && a.tyVecLen != 0) = true
  · simp only [hc, if_true]; exact ha
  · simp only [hc, Bool.false_eq_true, if_false]; exact hs

/-- the header of one loop iteration of gep.ResultType: no length-mismatch panic, the shape is updated -/
theorem go_header (a : IdxArg) (ix : Index) (L : Nat)
    (sh : Nat × Bool)
    (hvl : ix.vectorLen = a.tyVecLen) (hsc : a.tyVecLen ≠ 0 → ix.scalable = a.tyScalable)
    (hs : sh.1 = 0 ∨ sh.1 = L) (ha : LenOK L a) :
    (ix.vectorLen != 0 && sh.1 != 0 && ix.vectorLen != sh.1) = false ∧
    ((if (sh.1 == 0 && ix.vectorLen != 0) = true then ix.vectorLen else sh.1),
     (if (sh.1 == 0 && ix.vectorLen != 0) = true then ix.scalable else sh.2)) = updA sh a := by
  constructor
  · rw [hvl]
    rcases hs with hs | hs <;> rcases ha with ha | ha <;> simp [hs, ha]
  · unfold updA
    rw [hvl]
    by_cases hc : (sh.1 == 0 && a.tyVecLen != 0) = true
    · simp only [hc, if_true]
      have : a.tyVecLen ≠ 0 := by
        simp only [Bool.and_eq_true, bne_iff_ne, ne_eq] at hc; exact hc.2
      rw [hsc this]
    · simp only [hc, Bool.false_eq_true, if_false]

/-- one stepping index: gep.ResultType's switch and the LangRef rule agree -/
theorem go_step (env : Env) (as : Nat) (e : Ty) (a : IdxArg) (ix : Index) (rest : List Index) (L : Nat)
    (sh : Nat × Bool)
    (hvl : ix.vectorLen = a.tyVecLen) (hsc : a.tyVecLen ≠ 0 → ix.scalable = a.tyScalable)
    (hs : sh.1 = 0 ∨ sh.1 = L) (ha : LenOK L a)
    (h1 : ix.hasVal = true → LLVMSpec.constVal a = some ix.val) (h2 : ix.hasVal = false → LLVMSpec.constVal a = none) :
    resultType.go env as e sh.1 sh.2 false (ix :: rest) =
      match LLVMSpec.step env e a with
      | some e' => resultType.go env as e' (updA sh a).1 (updA sh a).2 false rest
      | none => .panic := by
  obtain ⟨hm, hu⟩ := go_header a ix L sh hvl hsc hs ha
  have hu1 : (if (sh.1 == 0 && ix.vectorLen != 0) = true then ix.vectorLen else sh.1) = (updA sh a).1 := by rw [← hu]
  have hu2 : (if (sh.1 == 0 && ix.vectorLen != 0) = true then ix.scalable else sh.2) = (updA sh a).2 := by rw [← hu]
  rw [resultType.go]
  simp only [hm, Bool.false_eq_true, if_false, hu1, hu2]
  cases e <;> simp only [LLVMSpec.step]
  case struct p fs =>
    cases hh : ix.hasVal with
    | false => simp [h2 hh]
    | true =>
      simp only [h1 hh, Bool.not_true, Bool.false_eq_true, if_false, Option.bind_some]
      by_cases hneg : ix.val < 0
      · simp [hneg]
      · simp only [hneg, if_false]
        cases fs.get? ix.val.toNat <;> rfl
  case named n =>
    cases hen : env n with
    | none => simp
    | some fs =>
      simp only [Option.bind_some]
      cases hh : ix.hasVal with
      | false => simp [h2 hh]
      | true =>
        simp only [h1 hh, Bool.not_true, Bool.false_eq_true, if_false, Option.bind_some]
        by_cases hneg : ix.val < 0
        · simp [hneg]
        · simp only [hneg, if_false]
          cases fs.get? ix.val.toNat <;> rfl

theorem go_wf (env : Env) (as : Nat) (L : Nat) : ∀ (args : List IdxArg) (idxs : List Index) (e : Ty) (sh : Nat × Bool),
    mapM? classifyInst args = some idxs → (∀ a ∈ args, WFArg a) → (∀ a ∈ args, LenOK L a) → (sh.1 = 0 ∨ sh.1 = L) →
    resultType.go env as e sh.1 sh.2 false idxs = finish as (args.foldl updA sh) (LLVMSpec.walk env e args)
  | [], idxs, e, sh, hm, _, _, _ => by
    simp [mapM?] at hm; subst hm
    simp [resultType.go, LLVMSpec.walk, finish]
  | a :: rest, idxs, e, sh, hm, hw, hl, hs => by
    obtain ⟨ix, hix, hvl, hsc, h1, h2⟩ := classify_wf a (hw a (by simp))
    simp only [mapM?, hix] at hm
    cases hr : mapM? classifyInst rest with
    | none => simp [hr] at hm
    | some ris =>
      simp only [hr] at hm
      injection hm with hm; subst hm
      rw [go_step env as e a ix ris L sh hvl hsc hs (hl a (by simp)) h1 h2]
      simp only [LLVMSpec.walk, List.foldl_cons]
      cases hst : LLVMSpec.step env e a with
      | none => simp [finish]
      | some e' =>
        simp only [Option.bind_some]
        exact go_wf env as L rest ris e' (updA sh a) hr (fun x hx => hw x (by simp [hx])) (fun x hx => hl x (by simp [hx]))
          (updA_len L sh a hs (hl a (by simp)))

theorem mapM_wf : ∀ (l : List IdxArg), (∀ x ∈ l, WFArg x) → ∃ is, mapM? classifyInst l = some is
  | [], _ => ⟨[], rfl⟩
  | y :: ys, hy => by
    obtain ⟨iy, hiy, _⟩ := classify_wf y (hy y (by simp))
    obtain ⟨is, his⟩ := mapM_wf ys (fun x hx => hy x (by simp [hx]))
    exact ⟨iy :: is, by simp [mapM?, hiy, his]⟩

/-- the shape accumulated over the operands is LLVM's: the first vector operand's, unless already a vector -/
theorem fold_shape : ∀ (args : List IdxArg) (sh : Nat × Bool),
    args.foldl updA sh = if sh.1 != 0 then sh else
      match args.find? (fun a => a.tyVecLen != 0) with
      | some a => (a.tyVecLen, a.tyScalable)
      | none => sh
  | [], sh => by by_cases h : sh.1 = 0 <;> simp [h]
  | a :: rest, sh => by
    simp only [List.foldl_cons]
    rw [fold_shape rest (updA sh a)]
    unfold updA
    by_cases h : sh.1 = 0
    · by_cases ha : a.tyVecLen = 0
      · simp [h, ha, List.find?_cons]
      · simp [h, ha, List.find?_cons]
    · simp [h]

/-- the whole pipeline from a given base shape, first index included -/
theorem pipeline_wf (env : Env) (as : Nat) (L : Nat) (elem : Ty) (sh : Nat × Bool) (args : List IdxArg) (idxs : List Index)
    (hm : mapM? classifyInst args = some idxs) (hw : ∀ a ∈ args, WFArg a) (hl : ∀ a ∈ args, LenOK L a) (hs : sh.1 = 0 ∨ sh.1 = L) :
    resultType.go env as elem sh.1 sh.2 true idxs = finish as (args.foldl updA sh) (LLVMSpec.walk env elem args.tail) := by
  cases args with
  | nil =>
    simp [mapM?] at hm; subst hm
    simp [resultType.go, LLVMSpec.walk, finish]
  | cons a rest =>
    obtain ⟨ix, hix, hvl, hsc, _, _⟩ := classify_wf a (hw a (by simp))
    simp only [mapM?, hix] at hm
    cases hr : mapM? classifyInst rest with
    | none => simp [hr] at hm
    | some ris =>
      simp only [hr] at hm
      injection hm with hm; subst hm
      obtain ⟨hmm, hu⟩ := go_header a ix L sh hvl hsc hs (hl a (by simp))
      have hu1 : (if (sh.1 == 0 && ix.vectorLen != 0) = true then ix.vectorLen else sh.1) = (updA sh a).1 := by rw [← hu]
      have hu2 : (if (sh.1 == 0 && ix.vectorLen != 0) = true then ix.scalable else sh.2) = (updA sh a).2 := by rw [← hu]
      rw [resultType.go]
      simp only [hmm, Bool.false_eq_true, if_false, hu1, hu2, if_true, List.tail_cons, List.foldl_cons]
      exact go_wf env as L rest ris elem (updA sh a) hr (fun x hx => hw x (by simp [hx])) (fun x hx => hl x (by simp [hx]))
        (updA_len L sh a hs (hl a (by simp)))

/-- Length consistency of the whole instruction: every vector operand (the base included) has length `L`,
    and a vector base is not the (invalid) zero-length vector. -/
def Consistent (L : Nat) (src : Ty) (args : List IdxArg) : Prop :=
  (∀ a ∈ args, LenOK L a) ∧ (∀ s n t, src = .vec s n t → n = L ∧ n ≠ 0)

end Llir.Gep
