import LlirModel.DI
import LlirProofs.MetaLemmas
import LlirProofs.Core3Lemmas
/-! M-DI: the generic reader inverts the generic printer, for every table that satisfies `tableOK`. -/
namespace Llir.DI
open Llir

/-! ### values -/

theorem natDec_ne_nil (n : Nat) : natDec n ≠ [] := Types.natDec_ne_nil n

theorem natDec_head_digit (n : Nat) : ∀ c ∈ (natDec n).head?, isDigit c = true := by
  intro c hc
  have hall := Types.natDec_digits n
  cases h : natDec n with
  | nil => rw [h] at hc; simp at hc
  | cons a r =>
    rw [h] at hc hall
    simp at hc; subst hc
    exact hall a (by simp)

def endOK (r : Bytes) : Bool :=
  match r with
  | 44 :: _ => true
  | 41 :: _ => true
  | _ => false

theorem endOK_not_digit (r : Bytes) (h : endOK r = true) : ∀ c ∈ r.head?, isDigit c = false := by
  intro c hc
  unfold endOK at h
  split at h
  · simp at hc; subst hc; decide
  · simp at hc; subst hc; decide
  · cases h

theorem readInt_print (v : Int) (r : Bytes) (hr : endOK r = true) : readInt (intDec v ++ r) = some (v, r) := by
  cases v with
  | ofNat n =>
    obtain ⟨h1, h2⟩ := TyParse.takeWhile_append_stop isDigit (natDec n) r (Types.natDec_digits n) (endOK_not_digit r hr)
    have hne := natDec_ne_nil n
    have hhead : ∀ rest, natDec n ++ r ≠ 45 :: rest := by
      intro rest e
      have := natDec_head_digit n
      cases h : natDec n with
      | nil => exact hne h
      | cons a t =>
        rw [h] at e this
        simp at e
        have := this a (by simp)
        rw [e.1] at this
        revert this; decide
    simp only [intDec]
    unfold readInt
    split
    · rename_i rest heq; exact absurd heq (hhead rest)
    · simp only [h1, h2, Core3.decVal_natDec]
      cases hx : natDec n with
      | nil => exact absurd hx hne
      | cons a t => simp
  | negSucc n =>
    obtain ⟨h1, h2⟩ := TyParse.takeWhile_append_stop isDigit (natDec (n + 1)) r (Types.natDec_digits (n + 1)) (endOK_not_digit r hr)
    have hne := natDec_ne_nil (n + 1)
    simp only [intDec, List.cons_append, readInt, h1, h2, Core3.decVal_natDec]
    cases hx : natDec (n + 1) with
    | nil => exact absurd hx hne
    | cons a t => simp

theorem takeWhile_word (w r : Bytes) (hw : wordOK w = true) (hr : endOK r = true) :
    (w ++ r).takeWhile (fun c => c != 44 && c != 41) = w ∧ (w ++ r).dropWhile (fun c => c != 44 && c != 41) = r := by
  simp only [wordOK, Bool.and_eq_true, List.all_eq_true] at hw
  have hstop : ∀ c ∈ r.head?, (fun c : UInt8 => c != 44 && c != 41) c = false := by
    intro c hc
    unfold endOK at hr
    split at hr
    · simp at hc; subst hc; decide
    · simp at hc; subst hc; decide
    · cases hr
  exact TyParse.takeWhile_append_stop _ w r (fun x hx => by
    have := hw.2 x hx
    simp only [Bool.and_eq_true, bne_iff_ne, ne_eq] at this ⊢
    exact ⟨this.1.1.1, this.1.1.2⟩) hstop

theorem readVal_print (vk : VK) (v : FVal) (r : Bytes) (hv : valOK vk v = true) (hr : endOK r = true) :
    readVal vk (valString v ++ r) = some (v, r) := by
  cases v with
  | int x =>
    simp only [valOK, beq_iff_eq] at hv; subst hv
    simp only [valString, readVal, readInt_print x r hr, Option.map_some]
  | str s =>
    simp only [valOK, beq_iff_eq] at hv; subst hv
    obtain ⟨h1, h2⟩ := Meta.quote_split s r
    simp only [valString, Enc.quote, List.cons_append, List.append_assoc, List.nil_append, readVal, h1, h2,
      Props.C11.unescape_escapeString]
  | bool b =>
    simp only [valOK, beq_iff_eq] at hv; subst hv
    cases b
    · simp [valString, readVal, sTrue, sFalse, TyParse.stripPrefix]
    · simp [valString, readVal, sTrue, TyParse.stripPrefix]
  | word w =>
    simp only [valOK, Bool.and_eq_true, beq_iff_eq] at hv
    obtain ⟨hk, hw⟩ := hv
    subst hk
    obtain ⟨h1, h2⟩ := takeWhile_word w r hw hr
    simp only [valString, readVal, h1, h2, hw, if_true]

/-! ### fields -/

theorem findField_spec : ∀ (fs : List FieldSpec) (i0 i : Nat) (spec : FieldSpec), distinctB (fs.map (·.kw)) = true → fs[i]? = some spec →
    findField i0 fs spec.kw = some (i0 + i, spec)
  | [], _, _, _, _, h => by simp at h
  | f :: fs, i0, 0, spec, _, h => by
    simp at h; subst h
    simp [findField]
  | f :: fs, i0, i + 1, spec, hd, h => by
    simp only [List.map_cons, distinctB, Bool.and_eq_true, Bool.not_eq_true'] at hd
    have hr : fs[i]? = some spec := by simpa using h
    have hmem : spec.kw ∈ fs.map (·.kw) := List.mem_map.mpr ⟨spec, List.mem_of_getElem? hr, rfl⟩
    have hne : (f.kw == spec.kw) = false := by
      cases hx : f.kw == spec.kw with
      | false => rfl
      | true =>
        have e : f.kw = spec.kw := by simpa using hx
        rw [e] at hd
        have := hd.1
        simp [hmem] at this
    simp only [findField, hne, Bool.false_eq_true, if_false]
    rw [findField_spec fs (i0 + 1) i spec hd.2 hr]
    simp; omega

/-- a field of a node of kind `k`: index in range, value of the field's kind -/
def fieldValid (k : KindSpec) (f : Nat × FVal) : Prop := ∃ spec, k.fields[f.1]? = some spec ∧ valOK spec.vk f.2 = true

theorem takeWhile_kw (kw r : Bytes) (hk : kwOK kw = true) :
    (kw ++ 58 :: r).takeWhile (· != 58) = kw ∧ (kw ++ 58 :: r).dropWhile (· != 58) = 58 :: r := by
  simp only [kwOK, Bool.and_eq_true, List.all_eq_true] at hk
  exact TyParse.takeWhile_append_stop _ kw (58 :: r) (fun x hx => by simpa using hk.2 x hx) (by simp)

theorem fieldsString_cons_ne (k : KindSpec) (hk : kindOK k = true) (f : Nat × FVal) (hf : fieldValid k f) (l : List (Nat × FVal)) :
    fieldsString k (f :: l) ≠ [] := by
  obtain ⟨spec, hs, _⟩ := hf
  have hkw : kwOK spec.kw = true := by
    simp only [kindOK, Bool.and_eq_true, List.all_eq_true] at hk
    exact hk.1.2 spec.kw (List.mem_map.mpr ⟨spec, List.mem_of_getElem? hs, rfl⟩)
  have hne : spec.kw ≠ [] := by
    simp only [kwOK, Bool.and_eq_true, Bool.not_eq_true'] at hkw
    intro e; rw [e] at hkw; simp at hkw
  have hg : k.fields[f.1]?.getD default = spec := by simp [hs]
  intro h
  cases l with
  | nil =>
    simp [fieldsString, fieldString, hg, sColon] at h
  | cons g r =>
    simp [fieldsString, fieldString, hg, sColon] at h

theorem readFields_print (k : KindSpec) (hk : kindOK k = true) : ∀ (l : List (Nat × FVal)) (r : Bytes) (f : Nat), l ≠ [] →
    (∀ x ∈ l, fieldValid k x) → l.length ≤ f → readFields k f (fieldsString k l ++ 41 :: r) = some (l, 41 :: r)
  | [], _, _, h, _, _ => absurd rfl h
  | [x], r, f, _, hv, hf => by
    obtain ⟨f', rfl⟩ : ∃ f', f = f' + 1 := ⟨f - 1, by simp at hf; omega⟩
    obtain ⟨spec, hs, hval⟩ := hv x (by simp)
    have hkk := hk
    simp only [kindOK, Bool.and_eq_true, List.all_eq_true] at hkk
    have hkw : kwOK spec.kw = true := hkk.1.2 spec.kw (List.mem_map.mpr ⟨spec, List.mem_of_getElem? hs, rfl⟩)
    have hg : k.fields[x.1]?.getD default = spec := by simp [hs]
    have e : fieldsString k [x] ++ 41 :: r = spec.kw ++ 58 :: 32 :: (valString x.2 ++ 41 :: r) := by
      simp [fieldsString, fieldString, hg, sColon]
    obtain ⟨h1, h2⟩ := takeWhile_kw spec.kw (32 :: (valString x.2 ++ 41 :: r)) hkw
    have hff := findField_spec k.fields 0 x.1 spec hkk.2 hs
    simp only [Nat.zero_add] at hff
    rw [e]
    simp only [readFields, h1, h2, hff, readVal_print spec.vk x.2 (41 :: r) hval rfl]
    rfl
  | x :: y :: l, r, f, _, hv, hf => by
    obtain ⟨f', rfl⟩ : ∃ f', f = f' + 1 := ⟨f - 1, by simp at hf; omega⟩
    obtain ⟨spec, hs, hval⟩ := hv x (by simp)
    have hkk := hk
    simp only [kindOK, Bool.and_eq_true, List.all_eq_true] at hkk
    have hkw : kwOK spec.kw = true := hkk.1.2 spec.kw (List.mem_map.mpr ⟨spec, List.mem_of_getElem? hs, rfl⟩)
    have hg : k.fields[x.1]?.getD default = spec := by simp [hs]
    have ih := readFields_print k hk (y :: l) r f' (by simp) (fun z hz => hv z (by simp [hz])) (by simp at hf ⊢; omega)
    have e : fieldsString k (x :: y :: l) ++ 41 :: r = spec.kw ++ 58 :: 32 :: (valString x.2 ++ 44 :: 32 :: (fieldsString k (y :: l) ++ 41 :: r)) := by
      simp [fieldsString, fieldString, hg, sColon, sSep]
    obtain ⟨h1, h2⟩ := takeWhile_kw spec.kw (32 :: (valString x.2 ++ 44 :: 32 :: (fieldsString k (y :: l) ++ 41 :: r))) hkw
    have hff := findField_spec k.fields 0 x.1 spec hkk.2 hs
    simp only [Nat.zero_add] at hff
    rw [e]
    simp only [readFields, h1, h2, hff, readVal_print spec.vk x.2 (44 :: 32 :: (fieldsString k (y :: l) ++ 41 :: r)) hval rfl, ih]

theorem fieldsString_len (k : KindSpec) : ∀ (l : List (Nat × FVal)), (∀ x ∈ l, fieldValid k x) → kindOK k = true → l.length ≤ (fieldsString k l).length
  | [], _, _ => by simp
  | [x], hv, hk => by
    have := fieldsString_cons_ne k hk x (hv x (by simp)) []
    cases h : fieldsString k [x] with
    | nil => exact absurd h this
    | cons a t => simp
  | x :: y :: l, hv, hk => by
    have ih := fieldsString_len k (y :: l) (fun z hz => hv z (by simp [hz])) hk
    obtain ⟨spec, hs, _⟩ := hv x (by simp)
    simp only [fieldsString, List.length_append, List.length_cons, sSep, List.length_nil] at ih ⊢
    omega

/-! ### nodes -/

theorem findKind_spec : ∀ (T : Table) (i0 i : Nat) (k : KindSpec), distinctB (T.map (·.name)) = true → T[i]? = some k →
    findKind i0 T k.name = some (i0 + i, k)
  | [], _, _, _, _, h => by simp at h
  | q :: T, i0, 0, k, _, h => by
    simp at h; subst h
    simp [findKind]
  | q :: T, i0, i + 1, k, hd, h => by
    simp only [List.map_cons, distinctB, Bool.and_eq_true, Bool.not_eq_true'] at hd
    have hr : T[i]? = some k := by simpa using h
    have hmem : k.name ∈ T.map (·.name) := List.mem_map.mpr ⟨k, List.mem_of_getElem? hr, rfl⟩
    have hne : (q.name == k.name) = false := by
      cases hx : q.name == k.name with
      | false => rfl
      | true =>
        have e : q.name = k.name := by simpa using hx
        rw [e] at hd
        have := hd.1
        simp [hmem] at this
    simp only [findKind, hne, Bool.false_eq_true, if_false]
    rw [findKind_spec T (i0 + 1) i k hd.2 hr]
    simp; omega

theorem readNode_print (T : Table) (hT : tableOK T = true) (n : Node) (k : KindSpec) (hk : T[n.kind]? = some k)
    (hv : ∀ x ∈ n.fields, fieldValid k x) : readNode T (printNode T n) = some n := by
  simp only [tableOK, Bool.and_eq_true, List.all_eq_true] at hT
  have hkind : kindOK k = true := hT.1 k (List.mem_of_getElem? hk)
  have hg : T[n.kind]?.getD default = k := by simp [hk]
  have hname : ∀ x ∈ k.name, x ≠ 40 := by
    simp only [kindOK, Bool.and_eq_true, List.all_eq_true] at hkind
    intro x hx; simpa using hkind.1.1.2 x hx
  obtain ⟨n_kind, n_distinct, n_fields⟩ := n
  simp only at hk hv hg
  have hbody : ∀ (tail : Bytes), (k.name ++ 40 :: tail).takeWhile (· != 40) = k.name ∧ (k.name ++ 40 :: tail).dropWhile (· != 40) = 40 :: tail :=
    fun tail => TyParse.takeWhile_append_stop _ k.name (40 :: tail) (fun x hx => by simpa using hname x hx) (by simp)
  have hfk := findKind_spec T 0 n_kind k hT.2 hk
  simp only [Nat.zero_add] at hfk
  -- the text after the optional `distinct `
  have core : ∀ (d : Bool),
      (match (33 :: (k.name ++ 40 :: (fieldsString k n_fields ++ [41])) : Bytes) with
        | 33 :: r =>
          let nm := r.takeWhile (· != 40)
          (match r.dropWhile (· != 40), findKind 0 T nm with
           | 40 :: r1, some (ki, k) =>
             if r1 == [41] then some (Node.mk ki d [])
             else (match readFields k (r1.length + 1) r1 with
                   | some (l, [41]) => some (Node.mk ki d l)
                   | _ => none)
           | _, _ => none)
        | _ => none) = some (Node.mk n_kind d n_fields) := by
    intro d
    obtain ⟨h1, h2⟩ := hbody (fieldsString k n_fields ++ [41])
    simp only [h1, h2, hfk]
    cases n_fields with
    | nil => simp [fieldsString]
    | cons x l =>
      have hne := fieldsString_cons_ne k hkind x (hv x (by simp)) l
      have hne2 : (fieldsString k (x :: l) ++ [41] == [41]) = false := by
        cases hx : fieldsString k (x :: l) with
        | nil => exact absurd hx hne
        | cons a t => simp
      have hlen := fieldsString_len k (x :: l) hv hkind
      have hrf := readFields_print k hkind (x :: l) [] ((fieldsString k (x :: l) ++ [41]).length + 1) (by simp) hv
        (by simp only [List.length_append] at hlen ⊢; omega)
      simp only [hne2, Bool.false_eq_true, if_false, hrf]
  cases n_distinct with
  | true =>
    have e : printNode T ⟨n_kind, true, n_fields⟩ = sDistinct ++ (33 :: (k.name ++ 40 :: (fieldsString k n_fields ++ [41]))) := by
      simp [printNode, hg]
    rw [e]
    unfold readNode
    simp only [TyParse.stripPrefix_append]
    exact core true
  | false =>
    have e : printNode T ⟨n_kind, false, n_fields⟩ = 33 :: (k.name ++ 40 :: (fieldsString k n_fields ++ [41])) := by
      simp [printNode, hg]
    rw [e]
    unfold readNode
    have hsp : TyParse.stripPrefix sDistinct (33 :: (k.name ++ 40 :: (fieldsString k n_fields ++ [41]))) = none := by
      simp [sDistinct, TyParse.stripPrefix]
    simp only [hsp]
    exact core false

end Llir.DI
