import LlirProofs.CoreLemmas
import LlirProofs.Core2Mod
import LlirProofs.Props.C01
/-! # C02 — Printed output is a fixpoint of parse and print (property theorems only; PARTIAL: M-Core) -/
namespace Llir.Props.C02
open Llir Llir.Core

theorem canon_idem (m : CoreMod) : canon (canon m) = canon m := by
  unfold canon
  simp only
  congr 1
  exact Props.C20.sorted_perm_unique _ _ (Props.C20.sort_perm _) (Props.C20.sort_sorted _) (Props.C20.sort_sorted _)

theorem sort_mem (l : List Bytes) (n : Bytes) : n ∈ Natsort.sort l ↔ n ∈ l :=
  (Props.C20.sort_perm l).mem_iff

/-- Normalisation happens in exactly one step: for every module `m` of the fragment, the text printed
    after one parse (`canon m`) parses to itself, so printing again reproduces it token for token. -/
theorem one_step_fixpoint (useHex : Int → Bool) (m : CoreMod)
    (ht : ∀ n ∈ m.typedefs, TypeNameOK n) (hg : ∀ g ∈ m.globals, GlobalOK g) :
    (translateTok (printTok useHex (canon m))).map (printTok useHex) = some (printTok useHex (canon m)) := by
  have hc : translateTok (printTok useHex (canon m)) = some (canon (canon m)) := by
    unfold translateTok
    rw [show canon m = ⟨Natsort.sort m.typedefs, m.globals⟩ from rfl]
    rw [collect_print useHex _ _ (fun n hn => ht n ((sort_mem _ _).mp hn)) hg]; rfl
  rw [hc, canon_idem]; rfl

/-- the two parsed modules are structurally identical -/
theorem second_parse_identical (useHex : Int → Bool) (m : CoreMod)
    (ht : ∀ n ∈ m.typedefs, TypeNameOK n) (hg : ∀ g ∈ m.globals, GlobalOK g) :
    translateTok (printTok useHex (canon m)) = some (canon m) := by
  unfold translateTok
  rw [show canon m = ⟨Natsort.sort m.typedefs, m.globals⟩ from rfl]
  rw [collect_print useHex _ _ (fun n hn => ht n ((sort_mem _ _).mp hn)) hg]
  simp only [Option.map_some]
  have := canon_idem m
  unfold canon at this
  simpa using this

/-! ## second fragment (struct type definitions with bodies, globals of any type, nested aggregate constants) -/

/-- One parse normalises: the module obtained by parsing prints to a text that parses to itself. -/
theorem core2_second_parse_identical (useHex : Int → Bool) (m : Core2.Mod) (h : Core2.WF m) :
    Core2.translateTok (Core2.printTok useHex (Core2.canon m)) = some (Core2.canon m) :=
  Core2.core2_fixpoint useHex m h

/-- hence printing after the second parse reproduces the first print, token for token -/
theorem core2_one_step_fixpoint (useHex : Int → Bool) (m : Core2.Mod) (h : Core2.WF m) :
    (Core2.translateTok (Core2.printTok useHex (Core2.canon m))).map (Core2.printTok useHex) =
      some (Core2.printTok useHex (Core2.canon m)) := by
  rw [Core2.core2_fixpoint useHex m h]; rfl

theorem core2_canon_idem (m : Core2.Mod) (h : Core2.WF m) : Core2.canon (Core2.canon m) = Core2.canon m :=
  Core2.canon_idem m ((Core2.hasDup_false_iff_nodup _).mp h.nodupT)

/-! ## M-Core-3: function definitions -/

/-- the printed text of a well-formed function is a fixpoint of parse-then-print, reached in one step, and the second parse returns the same function -/
theorem core3_one_step_fixpoint (useHex : Int → Bool) (f : Core3.Func) (h : Core3.wf f = true) (hmd : Core3.mdWF useHex f = true) :
    (Core3.parse (Core3.printFunc useHex f)).map (Core3.printFunc useHex) = some (Core3.printFunc useHex f) := by
  rw [C01.core3_roundtrip useHex f h hmd]; rfl

theorem core3_second_parse_identical (useHex : Int → Bool) (f g : Core3.Func) (h : Core3.wf f = true) (hmd : Core3.mdWF useHex f = true)
    (hg : Core3.parse (Core3.printFunc useHex f) = some g) : Core3.parse (Core3.printFunc useHex g) = some g := by
  rw [C01.core3_roundtrip useHex f h hmd] at hg
  injection hg with hg; subst hg
  exact C01.core3_roundtrip useHex f h hmd

end Llir.Props.C02
