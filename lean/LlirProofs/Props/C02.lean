import LlirProofs.CoreLemmas
/-! # C02 — Printed output is a fixpoint of parse and print (property theorems only; PARTIAL: M-Core) -/
namespace Llir.Props.C02
open Llir Llir.Core

theorem canon_idem (m : CoreMod) : canon (canon m) = canon m := by
  unfold canon
  simp only
  congr 1
  exact Props.C20.sorted_perm_unique _ _ (Props.C20.sort_perm _) (Props.C20.sort_sorted _) (Props.C20.sort_sorted _)

theorem sort_mem (l : List Bytes) (n : Bytes) : n ∈ Natsort.sort l ↔ n ∈ l :=
  (Props.C20.sort_perm l).mem_iff

/-- Normalisation happens in exactly one step: for every module `m` of the fragment, the text printed
    after one parse (`canon m`) parses to itself, so printing again reproduces it token for token. -/
theorem one_step_fixpoint (useHex : Int → Bool) (m : CoreMod)
    (ht : ∀ n ∈ m.typedefs, TypeNameOK n) (hg : ∀ g ∈ m.globals, GlobalOK g) :
    (translateTok (printTok useHex (canon m))).map (printTok useHex) = some (printTok useHex (canon m)) := by
  have hc : translateTok (printTok useHex (canon m)) = some (canon (canon m)) := by
    unfold translateTok
    rw [show canon m = ⟨Natsort.sort m.typedefs, m.globals⟩ from rfl]
    rw [collect_print useHex _ _ (fun n hn => ht n ((sort_mem _ _).mp hn)) hg]; rfl
  rw [hc, canon_idem]; rfl

/-- the two parsed modules are structurally identical -/
theorem second_parse_identical (useHex : Int → Bool) (m : CoreMod)
    (ht : ∀ n ∈ m.typedefs, TypeNameOK n) (hg : ∀ g ∈ m.globals, GlobalOK g) :
    translateTok (printTok useHex (canon m)) = some (canon m) := by
  unfold translateTok
  rw [show canon m = ⟨Natsort.sort m.typedefs, m.globals⟩ from rfl]
  rw [collect_print useHex _ _ (fun n hn => ht n ((sort_mem _ _).mp hn)) hg]
  simp only [Option.map_some]
  have := canon_idem m
  unfold canon at this
  simpa using this

end Llir.Props.C02
