import LlirProofs.WholeMain
import LlirProofs.Props.C05
import LlirProofs.Props.C01Whole
/-! # C04 / C05 — whole modules (M-Whole): every `@name` operand of an accepted module is a global variable or a function the module lists
    (property theorems only) -/
namespace Llir.Props.C04
open Llir Llir.Whole

theorem argGlobs_retypeArg (ge : Core3.GEnv) (e : List (Core3.Ident × Types.Ty)) (a : Core3.Arg) :
    Core3.argGlobs (Core3.retypeArg ge e a) = Core3.argGlobs a := by
  cases a with
  | tyval t o => rfl
  | retv v => cases v with
    | none => rfl
    | some p => rfl
  | tyvals ixs =>
    simp only [Core3.retypeArg, Core3.argGlobs, List.flatMap_map]
  | _ => rfl

theorem extGlobs_retypeExt (ge : Core3.GEnv) (e : List (Core3.Ident × Types.Ty)) (x : Core3.Ext) :
    Core3.extGlobs (Core3.retypeExt ge e x) = Core3.extGlobs x := by
  cases x with
  | clauses cl cs => simp only [Core3.retypeExt, Core3.extGlobs, List.flatMap_map]
  | _ => rfl

theorem instGlobs_retypeInst (ge : Core3.GEnv) (e : List (Core3.Ident × Types.Ty)) (i : Core3.Inst) :
    Core3.instGlobs (Core3.retypeInst ge e i) = Core3.instGlobs i := by
  simp only [Core3.instGlobs, Core3.retypeInst, List.flatMap_map, argGlobs_retypeArg, extGlobs_retypeExt]

/-- the types written in front of operands are replaced; the operands are not -/
theorem globUses_retypeIn (ge : Core3.GEnv) (f : Core3.Func) : Core3.globUses (Core3.retypeIn ge f) = Core3.globUses f := by
  simp only [Core3.globUses, Core3.retypeIn, List.flatMap_map, Core3.instsOf, List.flatMap_append, List.flatMap_cons, List.flatMap_nil,
    List.append_nil, instGlobs_retypeInst]

/-- what the translation of a function body returns: the numbered function with its operand types replaced — same name, same `@name` operands,
    all of them defined by the environment -/
theorem translateIn_shape (ge : Core3.GEnv) (f g : Core3.Func) (h : Core3.translateIn ge f = some g) :
    g.name = f.name ∧ ∀ n ∈ Core3.globUses g, n ∈ ge.map (·.1) := by
  obtain ⟨l, hl, _, _, _, hg⟩ := C05.core3_result_is_closed_in ge f g h
  have h := (Core3.translateIn_core _ _ _ h).1
  unfold Core3.translateCore at h
  rw [hl] at h
  simp only at h
  split at h
  · cases h
  · split at h
    · injection h with h
      subst h
      refine ⟨rfl, ?_⟩
      rw [globUses_retypeIn]
      exact hg
    · cases h

theorem mapM'_mem {α β : Type} (tr : α → Option β) : ∀ (as : List α) (bs : List β), mapM' tr as = some bs →
    ∀ b ∈ bs, ∃ a ∈ as, tr a = some b
  | [], bs, h => by simp [mapM'] at h; subst h; simp
  | a :: as, bs, h => by
    unfold mapM' at h
    cases ha : tr a with
    | none => simp [ha] at h
    | some b0 =>
      cases hr : mapM' tr as with
      | none => simp [ha, hr] at h
      | some bs' =>
        simp [ha, hr] at h; subst h
        intro b hb
        simp only [List.mem_cons] at hb
        rcases hb with rfl | hb
        · exact ⟨a, by simp, ha⟩
        · obtain ⟨a', h1, h2⟩ := mapM'_mem tr as bs' hr b hb
          exact ⟨a', by simp [h1], h2⟩

theorem mapM'_map {α β γ : Type} (tr : α → Option β) (g : β → γ) (k : α → γ) (hk : ∀ a b, tr a = some b → g b = k a) :
    ∀ (as : List α) (bs : List β), mapM' tr as = some bs → bs.map g = as.map k
  | [], bs, h => by simp [mapM'] at h; subst h; rfl
  | a :: as, bs, h => by
    unfold mapM' at h
    cases ha : tr a with
    | none => simp [ha] at h
    | some b0 =>
      cases hr : mapM' tr as with
      | none => simp [ha, hr] at h
      | some bs' =>
        simp [ha, hr] at h; subst h
        simp [hk a b0 ha, mapM'_map tr g k hk as bs' hr]

/-- **no dangling global reference in an accepted module**: whatever text the parser accepts as a module of the fragment, every `@name` operand of
    every function body of the result names a global variable or a function that the module itself lists (forward references, references to the
    function itself and references between functions included); a text with an `@name` operand nothing defines is therefore rejected -/
theorem whole_global_refs_resolve (ls : List Bytes) (m : Module) (h : parse ls = some m) :
    ∀ f ∈ m.funcs, ∀ n ∈ Core3.globUses f, n ∈ m.globals.map (·.name) ++ m.funcs.map (·.name) := by
  unfold parse at h
  cases hr : readTop (ls.length + 1) ls with
  | none => simp [hr] at h
  | some t =>
    simp only [hr, Option.bind] at h
    unfold translate at h
    cases hc : (mergeTypedefs [] t.lines).bind Core2.translateTok with
    | none => simp [hc] at h
    | some c2 =>
      simp only [hc] at h
      cases hf : mapM' (Core3.translateIn (genvOf c2.globals t.funcs)) t.funcs with
      | none => simp [hf] at h
      | some fs =>
        cases hm : Meta.readLines t.md with
        | none => simp [hf, hm] at h
        | some raws =>
          simp only [hf, hm] at h
          cases ht : Meta.translate raws with
          | error => simp [ht] at h
          | ok md =>
            simp only [ht] at h
            split at h
            · cases h
            · split at h
              · cases h
              · split at h
                · injection h with h
                  subst h
                  have hnames : fs.map (·.name) = t.funcs.map (·.name) :=
                    mapM'_map _ _ _ (fun a b hab => (translateIn_shape _ _ _ hab).1) _ _ hf
                  intro f hfm n hn
                  have := mapM'_mem _ _ _ hf f hfm
                  obtain ⟨f0, _, h0⟩ := this
                  have := (translateIn_shape _ _ _ h0).2 n hn
                  simpa [genvOf, hnames, List.map_append, List.map_map, Function.comp_def] using this
                · cases h

/-- **no dangling metadata attachment in an accepted module**: whatever text the parser accepts as a module of the fragment, every `!name !N` attached
    to an instruction of a function body refers to a metadata definition `!N = …` of the module's own metadata section (defined before or AFTER the
    function: the section follows the functions); a text whose attachment names an ID nothing defines is therefore rejected -/
theorem whole_attachment_refs_resolve (ls : List Bytes) (m : Module) (h : parse ls = some m) :
    ∀ f ∈ m.funcs, ∀ k ∈ Core3.mdUses f, k ∈ m.md.defs.map (·.id) := by
  unfold parse at h
  cases hr : readTop (ls.length + 1) ls with
  | none => simp [hr] at h
  | some t =>
    simp only [hr, Option.bind] at h
    unfold translate at h
    cases hc : (mergeTypedefs [] t.lines).bind Core2.translateTok with
    | none => simp [hc] at h
    | some c2 =>
      simp only [hc] at h
      cases hf : mapM' (Core3.translateIn (genvOf c2.globals t.funcs)) t.funcs with
      | none => simp [hf] at h
      | some fs =>
        cases hm : Meta.readLines t.md with
        | none => simp [hf, hm] at h
        | some raws =>
          simp only [hf, hm] at h
          cases ht : Meta.translate raws with
          | error => simp [ht] at h
          | ok md =>
            simp only [ht] at h
            split at h
            · cases h
            · split at h
              · cases h
              · split at h
                · rename_i hx
                  injection h with h
                  subst h
                  simp only [Bool.and_eq_true, List.all_eq_true] at hx
                  intro f hfm k hk
                  have := hx.2 k (List.mem_flatMap.mpr ⟨f, hfm, hk⟩)
                  simpa using this
                · cases h

/-- non-vacuity: the accepted module `wholeSample` has three attachments (`!dbg !7`, `!1a !4294967296` on a load; `!x !0` on a `ret`), all defined by
    its metadata section, which follows the functions -/
example : (parse (printModule (fun _ => false) C01.wholeSample)).map (fun m => (m.funcs.flatMap Core3.mdUses, m.md.defs.map (·.id))) =
    some ([7, 4294967296, 0], [0, 1, 7, 4294967296]) := by
  decide +kernel

/-- non-vacuity: the module `wholeSample` (its function `@f` invokes itself; its function `@h` mentions the global variable `@c` twice and the function `@f` twice (once as the callee of a call)) is accepted -/
example : (parse (printModule (fun _ => false) C01.wholeSample)).map (fun m => m.funcs.flatMap Core3.globUses) = some [[102], [99], [102], [99], [102], [101, 120, 116]] := by
  decide +kernel

end Llir.Props.C04
