import LlirProofs.Props.C05Whole
import LlirProofs.Props.C17Meta
/-! # C17 — whole modules (M-Whole): metadata IDs and references of every ACCEPTED module (property theorems only) -/
namespace Llir.Props.C17
open Llir Llir.Whole

/-- **metadata IDs are unique in every accepted module**: the definitions of the metadata section are in strictly ascending order of their IDs -/
theorem whole_metadata_ids_unique (ls : List Bytes) (m : Module) (h : parse ls = some m) : Meta.sortedIds m.md.defs = true := by
  obtain ⟨_, _, raws, _, _, _, ht, _, _⟩ := C05.whole_parse_shape ls m h
  obtain ⟨hd, _, hs⟩ := Meta.translate_ok raws m.md ht
  rw [hs]
  exact Meta.sortDefs_sortedIds _ hd

/-- and every metadata reference of an accepted module (a field at any depth, a node of a named definition) names exactly one definition of it -/
theorem whole_metadata_refs_resolve (ls : List Bytes) (m : Module) (h : parse ls = some m) :
    ∀ n ∈ m.md.defs.flatMap (fun d => Meta.fieldsRefs d.fields) ++ m.md.named.flatMap (·.ids),
      ∃ d ∈ m.md.defs, d.id = n ∧ ∀ e ∈ m.md.defs, e.id = n → e = d := by
  obtain ⟨t, _, raws, _, _, hm, ht, _, _⟩ := C05.whole_parse_shape ls m h
  -- the metadata lines of the module text, read on their own, are the section of the module
  have hp : Meta.parse t.md = .ok m.md := by simp [Meta.parse, hm, ht]
  exact meta_refs_resolve t.md m.md hp

end Llir.Props.C17
