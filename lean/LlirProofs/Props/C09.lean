import LlirProofs.IntLitLemmas
/-! # C09 — Integer literals keep their exact value through print and parse (property theorems only)

`identIntWith useHex` is `(*Int).Ident` with the entropy heuristic's verdict as a parameter: the
theorems hold for BOTH verdicts, hence for whatever the floating-point heuristic decides. -/
namespace Llir.Props.C09
open Llir Llir.Digits Llir.IntLit

/-- Every width (i1 included), every integer value, either notation: the printed literal parses back
    to exactly the same value. -/
theorem ident_roundtrip (w : Nat) (x : Int) (useHex : Bool) :
    ∃ s, identIntWith useHex w x = .ok s ∧ newIntFromString w s = .ok x := by
  unfold identIntWith
  by_cases h0 : (w == 1 && x == 0) = true
  · simp only [h0, if_true]
    have hw : w = 1 := by simp only [Bool.and_eq_true, beq_iff_eq] at h0; exact h0.1
    have hx : x = 0 := by simp only [Bool.and_eq_true, beq_iff_eq] at h0; exact h0.2
    subst hw; subst hx
    exact ⟨pfxFalse, rfl, by decide⟩
  · simp only [h0, Bool.false_eq_true, if_false]
    by_cases h1 : (w == 1 && x == 1) = true
    · simp only [h1, if_true]
      have hw : w = 1 := by simp only [Bool.and_eq_true, beq_iff_eq] at h1; exact h1.1
      have hx : x = 1 := by simp only [Bool.and_eq_true, beq_iff_eq] at h1; exact h1.2
      subst hw; subst hx
      exact ⟨pfxTrue, rfl, by decide⟩
    · simp only [h1, Bool.false_eq_true, if_false]
      by_cases hx : (decide (x ≥ 4096) && useHex) = true
      · simp only [hx, if_true]
        refine ⟨_, rfl, ?_⟩
        have hge : x ≥ 4096 := by
          have := hx; simp at this; exact this.1
        have := parse_u0x_gen w (natTextUpper 16 x.natAbs) x.natAbs (setString16_natTextUpper _)
        rw [this]; congr 1
        simp only [Int.ofNat_eq_natCast]; omega
      · simp only [hx, if_false]
        exact ⟨_, rfl, parse_decimal w x⟩

/-- i1: 0 and 1 are spelled `false` and `true`; every other value (the parser accepts `i1 -1`) is
    spelled as a number (this used to panic; repaired by a fix commit) -/
theorem ident_i1 (useHex : Bool) :
    identIntWith useHex 1 0 = .ok pfxFalse ∧ identIntWith useHex 1 1 = .ok pfxTrue ∧
    identIntWith useHex 1 (-1) = .ok (intText 10 (-1)) := by
  cases useHex <;> simp [identIntWith]

/-! ## every accepted notation denotes the mathematically correct value -/

theorem parse_signed_decimal (w : Nat) (z : Int) : newIntFromString w (intText 10 z) = .ok z :=
  parse_decimal w z

theorem parse_u0x_upper (w : Nat) (n : Nat) :
    newIntFromString w (pfxU0x ++ natTextUpper 16 n) = .ok (n : Int) :=
  parse_u0x_gen w _ n (setString16_natTextUpper n)

theorem parse_u0x_lower (w : Nat) (n : Nat) :
    newIntFromString w (pfxU0x ++ natText 16 n) = .ok (n : Int) :=
  parse_u0x_gen w _ n (setString16_natText n)

theorem twos_complement (w n : Nat) (hw : 1 ≤ w) (hn : n < 2 ^ w) :
    (if bigBit (Int.ofNat n) (w - 1) then Int.ofNat n - 2 ^ w else Int.ofNat n) = (BitVec.ofNat w n).toInt := by
  obtain ⟨k, rfl⟩ : ∃ k, w = k + 1 := ⟨w - 1, by omega⟩
  have hpow : (2 : Nat) ^ (k + 1) = 2 * 2 ^ k := by rw [Nat.pow_succ]; omega
  have hkpos : 0 < 2 ^ k := Nat.pow_pos (by omega)
  simp only [Nat.add_sub_cancel, bigBit, BitVec.toInt, BitVec.toNat_ofNat, Nat.mod_eq_of_lt hn]
  have hshift : (Int.ofNat n >>> k) = Int.ofNat (n / 2 ^ k) := by
    simp [Int.shiftRight_eq_div_pow, Nat.shiftRight_eq_div_pow]
  rw [hshift]
  have hq : n / 2 ^ k < 2 := by
    rw [Nat.div_lt_iff_lt_mul hkpos]; omega
  by_cases hlt : n < 2 ^ k
  · have : n / 2 ^ k = 0 := Nat.div_eq_of_lt hlt
    simp [this]; omega
  · have : n / 2 ^ k = 1 := by
      have : 1 ≤ n / 2 ^ k := by rw [Nat.le_div_iff_mul_le hkpos]; omega
      omega
    have h2 : ¬ 2 * n < 2 ^ (k + 1) := by omega
    simp [this, h2]

/-- `s0x` literals are read in two's complement at the literal's width. -/
theorem parse_s0x (w n : Nat) (hw : 1 ≤ w) (hn : n < 2 ^ w) :
    newIntFromString w (pfxS0x ++ natTextUpper 16 n) = .ok (BitVec.ofNat w n).toInt := by
  rw [parse_s0x_gen w _ n (setString16_natTextUpper n), twos_complement w n hw hn]

theorem parse_true : newIntFromString 1 pfxTrue = .ok 1 := by decide
theorem parse_false : newIntFromString 1 pfxFalse = .ok 0 := by decide
theorem parse_true_wrong_width (w : Nat) (hw : w ≠ 1) : newIntFromString w pfxTrue = .error := by
  unfold newIntFromString; simp [hw]
theorem parse_false_wrong_width (w : Nat) (hw : w ≠ 1) : newIntFromString w pfxFalse = .error := by
  unfold newIntFromString
  have : (pfxFalse == pfxTrue) = false := by decide
  simp [this, hw]

/-- non-vacuity: a width/value where the hexadecimal notation is really chosen by the heuristic model -/
example : identIntWith true 32 2147483648 = .ok (pfxU0x ++ natTextUpper 16 2147483648) := by
  simp [identIntWith]

end Llir.Props.C09
