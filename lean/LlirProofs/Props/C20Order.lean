import LlirProofs.Props.C20
/-! C20, module level: the order in which a printed module lists its definitions depends on the SET of definitions only. -/
namespace Llir.Props.C20
open Llir Llir.Natsort

theorem insertId_perm (x : Nat) (l : List Nat) : (insertId x l).Perm (x :: l) := by
  induction l with
  | nil => simp [insertId]
  | cons y ys ih =>
    unfold insertId
    split
    · exact List.Perm.refl _
    · exact (List.Perm.cons y ih).trans (List.Perm.swap x y ys)

theorem sortIds_perm (l : List Nat) : (sortIds l).Perm l := by
  induction l with
  | nil => simp [sortIds]
  | cons x xs ih =>
    have : sortIds (x :: xs) = insertId x (sortIds xs) := rfl
    rw [this]
    exact (insertId_perm x _).trans (List.Perm.cons x ih)

theorem insertId_sorted (x : Nat) (l : List Nat) (h : l.Pairwise (· ≤ ·)) : (insertId x l).Pairwise (· ≤ ·) := by
  induction l with
  | nil => simp [insertId]
  | cons y ys ih =>
    unfold insertId
    rw [List.pairwise_cons] at h
    split
    · rename_i hxy
      rw [List.pairwise_cons]
      refine ⟨?_, List.pairwise_cons.mpr h⟩
      intro z hz
      rcases List.mem_cons.mp hz with rfl | hz
      · exact hxy
      · exact Nat.le_trans hxy (h.1 z hz)
    · rename_i hxy
      rw [List.pairwise_cons]
      refine ⟨?_, ih h.2⟩
      intro z hz
      have hz' := (insertId_perm x ys).subset hz
      rcases List.mem_cons.mp hz' with rfl | hz'
      · omega
      · exact h.1 z hz'

/-- attribute groups and metadata definitions are printed by ascending ID -/
theorem sortIds_sorted (l : List Nat) : (sortIds l).Pairwise (· ≤ ·) := by
  induction l with
  | nil => simp [sortIds]
  | cons x xs ih => exact insertId_sorted x _ ih

theorem sortIds_perm_invariant (l₁ l₂ : List Nat) (hp : l₁.Perm l₂) : sortIds l₁ = sortIds l₂ :=
  List.Perm.eq_of_pairwise (le := (· ≤ ·)) (fun a b _ _ hab hba => Nat.le_antisymm hab hba) (sortIds_sorted l₁) (sortIds_sorted l₂)
    ((sortIds_perm l₁).trans (hp.trans (sortIds_perm l₂).symm))

/-- **the printed order of the definitions is canonical**: the type definitions, comdats and named metadata are listed in natural-sort order, the attribute
    groups and metadata definitions by ascending ID, each list a permutation of what was written — and writing the definitions of the input in ANY other order
    (kind by kind) gives the very same printed lists -/
theorem printed_order_canonical (d : DefLists) :
    Sorted (printedOrder d).types ∧ Sorted (printedOrder d).comdats ∧ Sorted (printedOrder d).named ∧
    (printedOrder d).attrs.Pairwise (· ≤ ·) ∧ (printedOrder d).mds.Pairwise (· ≤ ·) ∧
    (printedOrder d).types.Perm d.types ∧ (printedOrder d).comdats.Perm d.comdats ∧ (printedOrder d).named.Perm d.named ∧
    (printedOrder d).attrs.Perm d.attrs ∧ (printedOrder d).mds.Perm d.mds :=
  ⟨sort_sorted _, sort_sorted _, sort_sorted _, sortIds_sorted _, sortIds_sorted _, sort_perm _, sort_perm _, sort_perm _, sortIds_perm _, sortIds_perm _⟩

theorem printed_order_input_order_independent (d₁ d₂ : DefLists) (ht : d₁.types.Perm d₂.types) (hc : d₁.comdats.Perm d₂.comdats) (hn : d₁.named.Perm d₂.named)
    (ha : d₁.attrs.Perm d₂.attrs) (hm : d₁.mds.Perm d₂.mds) : printedOrder d₁ = printedOrder d₂ := by
  simp only [printedOrder, sort_perm_invariant _ _ ht, sort_perm_invariant _ _ hc, sort_perm_invariant _ _ hn, sortIds_perm_invariant _ _ ha, sortIds_perm_invariant _ _ hm]

/-- non-vacuity: numbered type definitions sort AMONG the names (`$s -m .a 0 1 1a 2 10 z9 z10`), they are not listed first -/
example : (printedOrder ⟨[[48], [49], [50], [49, 48], [46, 97], [36, 115], [45, 109], [49, 97], [122, 57], [122, 49, 48]], [], [], [7, 3, 5], [2, 0, 1]⟩) =
    ⟨[[36, 115], [45, 109], [46, 97], [48], [49], [49, 97], [50], [49, 48], [122, 57], [122, 49, 48]], [], [], [3, 5, 7], [0, 1, 2]⟩ := by
  decide +kernel

end Llir.Props.C20
