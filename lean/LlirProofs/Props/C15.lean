import LlirModel.Generated.OpsTable
/-! # C15 — Operand and successor views are complete and live (property theorems only)

`OpsTable.table` is REGENERATED on every run: the 66 instruction/terminator types are listed from the
source, and for each a live instance (every value slot filled, list-valued fields of length 2, every
optional operand present) is analysed by reflection — slots, the addresses Operands() returns mapped
back to slots, the blocks Succs() returns mapped back to slots, and the effect of writing through
every exposed slot. The kernel decides the property on the complete table. -/
namespace Llir.Props.C15
open Llir.Generated

def isPermOf (a b : List String) : Bool := a.length == b.length && a.all (fun x => b.contains x) && b.all (fun x => a.contains x)
def nodup : List String → Bool
  | [] => true
  | x :: xs => !xs.contains x && nodup xs

/-- LLVM's definition of the successors of each terminator kind, as slot paths (written from the LangRef) -/
def specSuccs : String → Option (List String)
  | "TermRet" => some []
  | "TermBr" => some ["Target"]
  | "TermCondBr" => some ["TargetTrue", "TargetFalse"]
  | "TermSwitch" => some ["TargetDefault", "Cases[0].Target", "Cases[1].Target"]
  | "TermIndirectBr" => some ["ValidTargets[0]", "ValidTargets[1]"]
  | "TermInvoke" => some ["NormalRetTarget", "ExceptionRetTarget"]
  | "TermCallBr" => some ["NormalRetTarget", "OtherRetTargets[0]", "OtherRetTargets[1]"]
  | "TermResume" => some []
  | "TermCatchSwitch" => some ["Handlers[0]", "Handlers[1]", "DefaultUnwindTarget"]
  | "TermCatchRet" => some ["Target"]
  | "TermCleanupRet" => some ["UnwindTarget"]
  | "TermUnreachable" => some []
  | _ => none

/-- every value the instruction uses (callee, arguments, operand-bundle inputs, incoming values and their
    predecessor blocks, indices, case values, branch targets, exception pads, clauses) has exactly one
    slot in the operand list, and every exposed slot is an address inside the instruction -/
theorem operands_complete : OpsTable.table.all (fun r => isPermOf r.operands r.slots && nodup r.operands) = true := by
  decide +kernel

/-- writing through every exposed slot reaches the instruction (the slots are live, not copies) -/
theorem operands_live : OpsTable.table.all (fun r => r.live) = true := by decide +kernel

/-- a terminator's successor list is exactly its branch targets, in LLVM's order; instructions have none -/
theorem successors_exact : OpsTable.table.all (fun r =>
    match specSuccs r.ty with
    | some s => r.succs == s
    | none => r.succs == ["-"]) = true := by decide +kernel

/-- after retargeting through the operand slots the successor list follows -/
theorem successors_live : OpsTable.table.all (fun r => r.succLive) = true := by decide +kernel

/-- the table covers all 54 instruction and 12 terminator kinds -/
theorem table_is_complete :
    (OpsTable.table.filter (fun r => r.ty.startsWith "Inst" && !r.flags)).length = 54 ∧
    (OpsTable.table.filter (fun r => r.ty.startsWith "Term" && !r.flags)).length = 12 ∧
    (OpsTable.table.filter (fun r => r.ty.startsWith "Inst" && r.flags)).length = 54 ∧
    (OpsTable.table.filter (fun r => r.ty.startsWith "Term" && r.flags)).length = 12 := by decide +kernel

end Llir.Props.C15
