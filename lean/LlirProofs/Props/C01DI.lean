import LlirProofs.DIMain
import LlirModel.Generated.DITable
/-! C01 / C02 / C17 — the SPECIALISED METADATA NODES (26 node kinds whose text is a list of `keyword: value` fields), for the table of kinds that is
    regenerated from /repo's printer and translation on every run.

    `Llir.DI` is generic over the table; `di_table_ok` re-checks on the regenerated table the conditions under which the reader inverts the printer
    (within a kind no keyword twice, no `:` in a keyword, no `(` in a kind name, no kind name twice). The round trip then holds for EVERY
    well-formed node of EVERY kind of the table. The remaining statements are about the table itself: the struct fields the printer prints are
    the struct fields the translation assigns (a field that only one side knows is lost or invented), the values the translation starts from are
    LLVM's defaults, and only the listed conditions are of an unmodelled shape. -/
namespace Llir.Props.C01
open Llir Llir.DI

/-- the regenerated table meets the conditions of the generic theorems (proof obligation of every run) -/
theorem di_table_ok : tableOK Generated.diTable = true := by decide +kernel

/-- C01: parse ∘ print is the identity on every well-formed node of every kind the source defines -/
theorem di_roundtrip (n : Node) (h : wf Generated.diTable n = true) : parse Generated.diTable (printNode Generated.diTable n) = some n :=
  parse_print Generated.diTable di_table_ok n h

/-- C02: the printed text of a well-formed node is a fixpoint of parse and print -/
theorem di_fixpoint (n : Node) (h : wf Generated.diTable n = true) :
    (parse Generated.diTable (printNode Generated.diTable n)).map (printNode Generated.diTable) = some (printNode Generated.diTable n) := by
  rw [di_roundtrip n h]; rfl

/-- the generic statement, for any table (what `di_roundtrip` instantiates) -/
theorem di_roundtrip_any_table (T : Table) (hT : tableOK T = true) (n : Node) (h : wf T n = true) : parse T (printNode T n) = some n :=
  parse_print T hT n h

/-- the printer and the translation know the same struct fields of every node kind: nothing the parser stores goes unprinted, nothing printed is
    never read (regenerated from both source files) -/
theorem di_fields_agree : Generated.diPrinterFields = Generated.diParserFields := by decide +kernel

/-- LLVMSpec: the boolean fields that are TRUE when absent in LLVM's reading (LLParser.cpp: `OPTIONAL(isDefinition, MDBoolField, (true))` of
    DIGlobalVariable and DISubprogram, `OPTIONAL(splitDebugInlining, MDBoolField, = true)` of DICompileUnit); every other optional field starts
    from the zero value, which is Go's -/
def llvmTrueDefaults : List (String × String × String) :=
  [("DICompileUnit", "SplitDebugInlining", "true"), ("DIGlobalVariable", "IsDefinition", "true"), ("DISubprogram", "IsDefinition", "true")]

/-- the values the translation starts from are LLVM's defaults -/
theorem di_parser_defaults_are_llvms : Generated.diParserDefaults = llvmTrueDefaults := by decide +kernel

/-- the only printing condition of an unmodelled shape is DISubprogram's `isDefinition` (printed when true, when the node is not distinct, or when
    there is no `spFlags`, which would take precedence) -/
theorem di_other_conditions : Generated.diOtherConds.map (fun c => (c.1, c.2.1)) = [("DISubprogram", "isDefinition")] := by decide +kernel

/-- every enum-valued field whose grammar also takes a NUMBER is printed through a helper that spells a value without a keyword as that number (the stringer form
    `DwarfLang(200)` is not valid syntax); the one field printed directly is `checksumkind`, which the grammar reads as a keyword only -/
theorem di_enum_fields_wrapped : Generated.diUnwrappedEnums = [("DIFile", "checksumkind")] := by decide +kernel

/-- non-vacuity: `distinct !DIBasicType(name: "int", size: 32, encoding: DW_ATE_signed)` is a well-formed node of the regenerated table -/
def diSample : Node := ⟨0, true, [(1, .str [105, 110, 116]), (2, .int 32), (4, .word [68, 87, 95, 65, 84, 69, 95, 115, 105, 103, 110, 101, 100])]⟩

example : wf Generated.diTable diSample = true := by decide +kernel
example : printNode Generated.diTable diSample =
    [100, 105, 115, 116, 105, 110, 99, 116, 32, 33, 68, 73, 66, 97, 115, 105, 99, 84, 121, 112, 101, 40, 110, 97, 109, 101, 58, 32, 34, 105, 110, 116, 34, 44, 32,
     115, 105, 122, 101, 58, 32, 51, 50, 44, 32, 101, 110, 99, 111, 100, 105, 110, 103, 58, 32, 68, 87, 95, 65, 84, 69, 95, 115, 105, 103, 110, 101, 100, 41] := by decide +kernel

end Llir.Props.C01
