import LlirProofs.NatsortOrder
/-! # C20 — canonical, input-order-independent order of definitions (property theorems only)

`less` is the model of `natsort.Less`. It is the lexicographic order of token keys
(`less_iff_key`), `key` is injective, hence `less` is a strict total order; consequently a list
has exactly one sorted permutation, whatever sorting routine and whatever input order. -/
namespace Llir.Props.C20
open Llir Llir.Natsort

theorem less_irrefl (a : Bytes) : less a a = false := by
  cases h : less a a with
  | false => rfl
  | true => exact absurd ((less_iff_key a a).mp h) (List.lt_irrefl _)

theorem less_asymm (a b : Bytes) (h : less a b = true) : less b a = false := by
  cases h' : less b a with
  | false => rfl
  | true => exact absurd ((less_iff_key b a).mp h') (List.lt_asymm ((less_iff_key a b).mp h))

theorem less_trans (a b c : Bytes) (h₁ : less a b = true) (h₂ : less b c = true) : less a c = true :=
  (less_iff_key a c).mpr (List.lt_trans ((less_iff_key a b).mp h₁) ((less_iff_key b c).mp h₂))

/-- totality: two distinct strings are always ordered one way or the other -/
theorem less_total (a b : Bytes) (h₁ : less a b = false) (h₂ : less b a = false) : a = b := by
  apply key_injective
  have n₁ : ¬ key a < key b := fun h => by rw [(less_iff_key a b).mpr h] at h₁; cases h₁
  have n₂ : ¬ key b < key a := fun h => by rw [(less_iff_key b a).mpr h] at h₂; cases h₂
  exact List.le_antisymm (List.not_lt.mp n₂) (List.not_lt.mp n₁)

theorem less_trichotomy (a b : Bytes) : less a b = true ∨ a = b ∨ less b a = true := by
  cases h₁ : less a b with
  | true => left; rfl
  | false =>
    cases h₂ : less b a with
    | true => right; right; rfl
    | false => right; left; exact less_total a b h₁ h₂

/-- "sorted" as `sort.Sort` guarantees it: no later element is less than an earlier one -/
def Sorted (l : List Bytes) : Prop := l.Pairwise (fun a b => less b a = false)

/-- Canonical order: a list of names has exactly ONE sorted arrangement. Whatever order the
    definitions come in, and whatever (correct) sorting routine is used, the result is the same. -/
theorem sorted_perm_unique (l₁ l₂ : List Bytes) (hp : l₁.Perm l₂) (h₁ : Sorted l₁) (h₂ : Sorted l₂) : l₁ = l₂ :=
  List.Perm.eq_of_pairwise (le := fun a b => less b a = false)
    (fun a b _ _ hab hba => less_total a b hba hab) h₁ h₂ hp

/-- the driver's reference sort really produces a sorted permutation -/
theorem insert_perm (x : Bytes) (l : List Bytes) : (Natsort.insert x l).Perm (x :: l) := by
  induction l with
  | nil => simp [Natsort.insert]
  | cons y ys ih =>
    unfold Natsort.insert
    split
    · exact List.Perm.refl _
    · exact (List.Perm.cons y ih).trans (List.Perm.swap x y ys)

theorem sort_perm (l : List Bytes) : (Natsort.sort l).Perm l := by
  induction l with
  | nil => simp [Natsort.sort]
  | cons x xs ih =>
    have : Natsort.sort (x :: xs) = Natsort.insert x (Natsort.sort xs) := rfl
    rw [this]
    exact (insert_perm x _).trans (List.Perm.cons x ih)

theorem insert_sorted (x : Bytes) (l : List Bytes) (h : Sorted l) : Sorted (Natsort.insert x l) := by
  induction l with
  | nil => simp [Natsort.insert, Sorted]
  | cons y ys ih =>
    unfold Natsort.insert
    unfold Sorted at h ih ⊢
    rw [List.pairwise_cons] at h
    split
    · rename_i hxy
      rw [List.pairwise_cons]
      refine ⟨?_, List.pairwise_cons.mpr h⟩
      intro z hz
      rcases List.mem_cons.mp hz with rfl | hz
      · exact less_asymm _ _ hxy
      · cases hzx : less z x with
        | false => rfl
        | true =>
          have := less_trans z x y hzx hxy
          rw [h.1 z hz] at this; cases this
    · rename_i hxy
      rw [List.pairwise_cons]
      refine ⟨?_, ih h.2⟩
      intro z hz
      have hz' := (insert_perm x ys).subset hz
      rcases List.mem_cons.mp hz' with rfl | hz'
      · simpa using hxy
      · exact h.1 z hz'

theorem sort_sorted (l : List Bytes) : Sorted (Natsort.sort l) := by
  induction l with
  | nil => simp [Natsort.sort, Sorted]
  | cons x xs ih => exact insert_sorted x _ ih

/-- Permuting the input does not change the sorted output. -/
theorem sort_perm_invariant (l₁ l₂ : List Bytes) (hp : l₁.Perm l₂) : Natsort.sort l₁ = Natsort.sort l₂ :=
  sorted_perm_unique _ _ ((sort_perm l₁).trans (hp.trans (sort_perm l₂).symm)) (sort_sorted l₁) (sort_sorted l₂)

/-- non-vacuity and the numeric reading on concrete names: "a2" < "a12", "2" < "02" -/
example : less [97, 50] [97, 49, 50] = true := by
  simp [less, splitNum, isDigit, isZero, bytesLt]
example : less [50] [48, 50] = true := by
  simp [less, splitNum, isDigit, isZero, bytesLt]
example : Sorted [[97, 57], [97, 49, 48]] := by
  simp [Sorted, less, splitNum, isDigit, isZero, bytesLt]

end Llir.Props.C20
