import LlirProofs.ResolveLemmas
/-! # C04 — Every reference in a parsed module is the object that defines it (property theorems only)

M-Resolve (LlirModel/Resolve.lean): objects are the scaffolds allocated per defining entity (identified
by the entity's position); `translate ents order` succeeds or reports the first error met in `order`. -/
namespace Llir.Props.C04
open Llir Llir.Resolve

/-- In an accepted module every reference (to a type, comdat, global entity of any kind, metadata
    node; forward, backward, mutual or self reference alike) resolves to an object that is a listed
    definition of exactly that namespace and key — never a placeholder, never another entity. -/
theorem references_are_definitions (ents order : List Ent) (hperm : ∀ e, e ∈ ents → e ∈ order)
    (hok : (translate ents order).isOk = true)
    (e : Ent) (he : e ∈ ents) (r : NS × String) (hr : r ∈ e.refs) (hne : r.1 ≠ .attrgroup) :
    ∃ j d, lookup ents r.1.space r.2 = some j ∧ ents[j]? = some d ∧ d.ns.space = r.1.space ∧ d.key = r.2 := by
  have h := (translate_isOk_iff ents order).mp hok
  have hs := entErr_none_refs ents e (h.2 e (hperm e he)) r hr hne
  cases hl : lookup ents r.1.space r.2 with
  | none => simp [hl] at hs
  | some j =>
    obtain ⟨d, hd, h1, h2⟩ := lookup_spec ents _ _ j hl
    exact ⟨j, d, rfl, hd, h1, h2⟩

/-- A local never resolves outside its own function: every local use of an accepted function is one
    of that same function's local definitions, and those are pairwise distinct. -/
theorem locals_resolve_in_own_function (ents order : List Ent) (hperm : ∀ e, e ∈ ents → e ∈ order)
    (hok : (translate ents order).isOk = true) (f : Ent) (hf : f ∈ ents) :
    dupIn f.ldefs = none ∧ ∀ k ∈ f.lrefs, f.ldefs.contains k = true := by
  have h := (translate_isOk_iff ents order).mp hok
  exact entErr_none_locals ents f (h.2 f (hperm f hf))

/-- In an accepted module every `blockaddress(@f, %l)` — in a global initialiser, a metadata field, a
    function body or a module-level `uselistorder` — denotes a block that the FUNCTION `@f` defines under
    exactly that label (named, or numbered by LLVM's numbering). -/
theorem blockaddress_resolves (ents order : List Ent) (hperm : ∀ e, e ∈ ents → e ∈ order)
    (hok : (translate ents order).isOk = true) (e : Ent) (he : e ∈ ents) (b : String × String) (hb : b ∈ e.brefs) :
    ∃ i f, lookup ents .global b.1 = some i ∧ ents[i]? = some f ∧ f.ns = .func ∧ f.ldefs.contains b.2 = true := by
  have h := (translate_isOk_iff ents order).mp hok
  have hbk := entErr_none_blocks ents e (h.2 e (hperm e he)) b hb
  unfold blockOK at hbk
  cases hl : lookup ents .global b.1 with
  | none => simp [hl] at hbk
  | some i =>
    simp only [hl] at hbk
    cases hf : ents[i]? with
    | none => simp [hf] at hbk
    | some f =>
      simp only [hf, Bool.and_eq_true, beq_iff_eq] at hbk
      exact ⟨i, f, rfl, hf, hbk.1, hbk.2⟩

/-- the resolved edges of the result are exactly the index lookups (nothing else is ever bound) -/
theorem edges_are_lookups (ents order : List Ent) (res : Resolved) (h : translate ents order = .ok res) :
    res.edges = (List.range ents.length).map fun i =>
      match ents[i]? with
      | some e => (i, e.refs.map fun r => (r.1, r.2, lookup ents r.1.space r.2))
      | none => (i, []) := by
  unfold translate at h
  cases hd : dupErr ents with
  | some e => simp [hd] at h
  | none =>
    simp only [hd] at h
    cases hf : order.findSome? (entErr ents) with
    | some e => simp [hf] at h
    | none => simp only [hf] at h; injection h with h; subst h; rfl

/-- non-vacuity: two mutually recursive types, a global referring to a function defined later, and a
    function with a forward local reference are accepted -/
example : (translate
    [⟨.ty, "a", false, [(.ty, "b")], [], [], []⟩, ⟨.ty, "b", false, [(.ty, "a")], [], [], []⟩,
     ⟨.global, "g", false, [(.func, "f")], [], [], []⟩, ⟨.func, "f", false, [(.global, "g")], ["x", "bb"], ["bb", "x"], []⟩]
    [⟨.func, "f", false, [(.global, "g")], ["x", "bb"], ["bb", "x"], []⟩, ⟨.ty, "b", false, [(.ty, "a")], [], [], []⟩,
     ⟨.global, "g", false, [(.func, "f")], [], [], []⟩, ⟨.ty, "a", false, [(.ty, "b")], [], [], []⟩]).isOk = true := by decide

end Llir.Props.C04
