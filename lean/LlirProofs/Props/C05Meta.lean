import LlirProofs.MetaMain
/-! # C05 — undefined or doubly defined names are errors: metadata IDs (M-Meta) -/
namespace Llir.Props.C05
open Llir Llir.Meta

/-- a reference (field at any depth, or node of a named metadata definition) to an ID that no definition of the text carries is an error -/
theorem meta_undefined_ref_is_error (ls : List Bytes) (rs : List Raw) (h : readLines ls = some rs) (n : Nat)
    (hn : n ∈ (rawDefs rs).flatMap (fun d => fieldsRefs d.fields) ++ (rawNamed rs).flatMap (·.ids))
    (hu : ∀ d ∈ rawDefs rs, d.id ≠ n) : ∃ e, parse ls = e ∧ (match e with | .error => True | .ok _ => False) := by
  refine ⟨parse ls, rfl, ?_⟩
  cases hp : parse ls with
  | error => trivial
  | ok s =>
    unfold parse at hp
    simp only [h] at hp
    obtain ⟨_, hrefs, _⟩ := translate_ok rs s hp
    have hc := hrefs n hn
    simp only [List.contains_eq_any_beq, List.any_map, List.any_eq_true, Function.comp, beq_iff_eq] at hc
    obtain ⟨d, hd, hid⟩ := hc
    exact absurd hid.symm (hu d hd)

/-- two definitions of one metadata ID are an error -/
theorem meta_duplicate_id_is_error (ls : List Bytes) (rs : List Raw) (h : readLines ls = some rs)
    (hd : hasDupN ((rawDefs rs).map (·.id)) = true) : ∃ e, parse ls = e ∧ (match e with | .error => True | .ok _ => False) := by
  refine ⟨parse ls, rfl, ?_⟩
  cases hp : parse ls with
  | error => trivial
  | ok s =>
    unfold parse at hp
    simp only [h] at hp
    obtain ⟨hnd, _, _⟩ := translate_ok rs s hp
    rw [hd] at hnd; cases hnd

/-- the two faults on a concrete text: `!0 = !{!5}` (undefined) and `!0 = !{}` twice -/
example : (match parse [[33, 48, 32, 61, 32, 33, 123, 33, 53, 125]] with | .error => true | .ok _ => false) = true := by decide +kernel
example : (match parse [[33, 48, 32, 61, 32, 33, 123, 125], [33, 48, 32, 61, 32, 33, 123, 125]] with | .error => true | .ok _ => false) = true := by decide +kernel
example : (match parse [[33, 48, 32, 61, 32, 33, 123, 33, 48, 125]] with | .error => false | .ok _ => true) = true := by decide +kernel

end Llir.Props.C05
