import LlirModel.Core3
import LlirModel.Generated.Enums
/-! C18 / C01: the keyword lists of the function-header model (`Core3.kLead`, written by hand) ARE the keyword columns of the enum table regenerated from /repo on
    every run — a keyword respelled, added or removed in ir/enum breaks this file (decided by the kernel on the regenerated table). -/
namespace Llir.Props.C18
open Llir Llir.Generated

/-- a keyword as the base-256 number the regenerated table holds -/
def b256 (k : Bytes) : Nat := k.foldl (fun acc c => acc * 256 + c.toNat) 0

/-- the bytes of a base-256 number -/
def hasByte (b : Nat) : Nat → Nat → Bool
  | 0, _ => false
  | f + 1, n => if n == 0 then false else (n % 256 == b) || hasByte b f (n / 256)

/-- the keywords of a family as the table lists them: every member but the zero member `none`, without the spellings that are not single keywords (`cc 11`) -/
def tableKeywords (t : List Enums.Row) : List Nat := ((t.filter fun r => r.1 != 0).map (·.2.1)).filter fun n => !hasByte 32 40 n

def sameSet (a b : List Nat) : Bool := a.all b.contains && b.all a.contains

theorem header_linkage_keywords : sameSet (Core3.kLinkage.map b256) (tableKeywords Enums.Linkage) = true := by decide +kernel
theorem header_visibility_keywords : sameSet (Core3.kVisibility.map b256) (tableKeywords Enums.Visibility) = true := by decide +kernel
theorem header_dll_keywords : sameSet (Core3.kDLL.map b256) (tableKeywords Enums.DLLStorageClass) = true := by decide +kernel
theorem header_callingconv_keywords : sameSet (Core3.kCallingConv.map b256) (tableKeywords Enums.CallingConv) = true := by decide +kernel
/-- (the table of enum.Preemption also holds `dso_local_equivalent`, which is a constant, not a header keyword) -/
theorem header_preemption_keywords :
    sameSet (Core3.kPreemption.map b256) ((tableKeywords Enums.Preemption).filter (· != b256 [100, 115, 111, 95, 108, 111, 99, 97, 108, 95, 101, 113, 117, 105, 118, 97, 108, 101, 110, 116])) = true := by
  decide +kernel

/-- the return attributes that are bare keywords (enum.ReturnAttr has no zero member) -/
theorem header_retattr_keywords : sameSet (Core3.kRetAttr.map b256) (Enums.ReturnAttr.map (·.2.1)) = true := by decide +kernel

/-- the parameter attributes that are bare keywords: all of enum.ParamAttr but `allocalign` and `allocptr`, which the fragment leaves out (behind a type, ` a` is how ` addrspace(` starts) -/
theorem header_paramattr_keywords :
    sameSet (Core3.kParamAttr.map b256) ((Enums.ParamAttr.map (·.2.1)).filter (fun n => n != b256 [97, 108, 108, 111, 99, 97, 108, 105, 103, 110] && n != b256 [97, 108, 108, 111, 99, 112, 116, 114])) = true := by
  decide +kernel

/-- the clauses behind the parameter list: `unnamed_addr` / `local_unnamed_addr` and the function attributes that are bare keywords -/
theorem header_unnamed_keywords : sameSet (Core3.kUnnamed.map b256) (tableKeywords Enums.UnnamedAddr) = true := by decide +kernel
/-- (enum.FuncAttr has no zero member `none`: all its members are keywords) -/
theorem header_funcattr_keywords : sameSet (Core3.kFuncAttr.map b256) (Enums.FuncAttr.map (·.2.1)) = true := by decide +kernel

end Llir.Props.C18
