import LlirProofs.EncTokens
/-! # C11 — Names and strings are escaped losslessly and unambiguously (property theorems only)

Model: LlirModel/Enc.lean (internal/enc/enc.go, the identifier decoders of asm/helper.go, LexSpec = the token
classes of llir/ll). After the two `fix:` commits (digit-led names are quoted; a signed number is a name) the
    statements hold for EVERY non-empty name. -/
namespace Llir.Props.C11
open Llir Llir.Enc

/-- Escaping is lossless for every byte string (all 256 byte values, NUL included) and every
    `valid` predicate that rejects backslash. -/
theorem unescape_escape_any (valid : UInt8 → Bool) (hv : valid 92 = false) (s : Bytes) :
    unescape (escape valid s) = s := Enc.unescape_escape valid hv s

theorem unescape_escapeString (s : Bytes) : unescape (escapeString s) = s :=
  Enc.unescape_escape _ validString_bs s

/-- quoted strings (section, partition, gc, asm, metadata strings, source_filename, datalayout, triple, character
    arrays): the printed literal is one string token and the parser's unquote gives back exactly the bytes -/
theorem string_roundtrip (s : Bytes) : isStringTok (quote s) = true ∧ asmUnquote (quote s) = s := by
  unfold quote
  refine ⟨?_, ?_⟩
  · exact isQuotedBody_wrap _ (escape_no_quote validString validString_not_quote s)
  · rw [asmUnquote_quoted]; exact Enc.unescape_escape _ validString_bs s

/-- global and local names: the printed identifier is ONE token of the lexer … -/
theorem global_name_is_one_token (n : Bytes) (hne : n ≠ []) : isGlobalTok (globalName n) = true :=
  globalName_is_token n hne
theorem local_name_is_one_token (n : Bytes) (hne : n ≠ []) : isLocalTok (localName n) = true :=
  localName_is_token n hne

/-- … that the parser decodes to exactly the name (never to a numeric ID) … -/
theorem global_name_decodes (n : Bytes) (hne : n ≠ []) : globalIdent (globalName n) = .ok (.name n) :=
  globalIdent_globalName n hne
theorem local_name_decodes (n : Bytes) (hne : n ≠ []) : localIdent (localName n) = .ok (.name n) :=
  localIdent_localName n hne

/-- … and distinct names never print alike. -/
theorem global_names_print_differently (a b : Bytes) (ha : a ≠ []) (hb : b ≠ [])
    (h : globalName a = globalName b) : a = b := globalName_injective a b ha hb h

/-- regression witnesses of the two repaired defects: `-0` is a name again, `1abc` is quoted and one token -/
theorem minus_zero_is_a_name : globalIdent (globalName [45, 48]) = .ok (.name [45, 48]) := Enc.minus_zero_is_a_name
theorem digit_led_name_is_a_token : isGlobalTok (globalName [49, 97, 98, 99]) = true := Enc.digit_led_name_is_a_token

end Llir.Props.C11
