import LlirProofs.EncLemmas
/-! # C11 — Names and strings are escaped losslessly and unambiguously (property theorems only) -/
namespace Llir.Props.C11
open Llir Llir.Enc

/-- Escaping is lossless for every byte string (all 256 byte values, NUL included) and every
    `valid` predicate that rejects backslash. -/
theorem unescape_escape_any (valid : UInt8 → Bool) (hv : valid 92 = false) (s : Bytes) :
    unescape (escape valid s) = s := Enc.unescape_escape valid hv s

theorem unescape_escapeString (s : Bytes) : unescape (escapeString s) = s :=
  Enc.unescape_escape _ validString_bs s

end Llir.Props.C11
