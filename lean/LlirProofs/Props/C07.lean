import LlirModel.Gep
import LlirProofs.GepSpec
/-! # C07 — getelementptr result types are computed correctly and consistently (property theorems only)

Three pipelines: `gepInst` (instruction constructor), `gepExpr` (constant-expression constructor; also
what the parser uses for constant gep expressions) and `gepAsm` (parser, instructions); each is its own
`getIndex` classifier, the check of the index's TYPE, and then `gep.ResultType`. -/
namespace Llir.Props.C07
open Llir Llir.Types Llir.Typing Llir.Gep

def NoInrange (a : IdxArg) : Prop := ∀ c, a.c ≠ some (.inrange c)

theorem getIndexAsm_eq_IR (c : IdxConst) (h : ∀ c', c ≠ .inrange c') : getIndexAsm c = getIndexIR c := by
  cases c with
  | inrange c' => exact absurd rfl (h c')
  | vecOther k => cases k <;> rfl
  | _ => rfl

/-- The parser classifies every index operand an instruction can have (no `inrange`) exactly as the
    instruction constructor does. -/
theorem classify_asm_eq_inst (a : IdxArg) (h : NoInrange a) : classifyAsm a = classifyInst a := by
  rcases a with ⟨c, n, s⟩
  cases c with
  | none => rfl
  | some c =>
    have : getIndexAsm c = getIndexIR c := getIndexAsm_eq_IR c (fun c' hc => h c' (by simp [hc]))
    simp [classifyAsm, classifyInst, this]

/-- The constant-expression constructor classifies every constant exactly as the instruction constructor does. -/
theorem classify_expr_eq_inst (a : IdxArg) (hc : a.c.isSome = true) : classifyExpr a = classifyInst a := by
  rcases a with ⟨c, n, s⟩
  cases c with
  | none => simp at hc
  | some c => rfl

theorem mapM?_congr {f g : α → Option β} : ∀ (l : List α), (∀ a ∈ l, f a = g a) → mapM? f l = mapM? g l
  | [], _ => rfl
  | x :: xs, h => by
    simp only [mapM?]
    rw [h x (by simp), mapM?_congr xs (fun a ha => h a (by simp [ha]))]

/-- **Consistency.** Every index list an instruction can carry: the parser and the instruction
    constructor compute the same type (or both panic). No restriction on the kinds of constants. -/
theorem parser_eq_inst (env : Env) (elem src : Ty) (args : List IdxArg) (h : ∀ a ∈ args, NoInrange a) :
    gepAsm env elem src args = gepInst env elem src args := by
  unfold gepAsm gepInst gepWith
  rw [mapM?_congr args (fun a ha => classify_asm_eq_inst a (h a ha))]

/-- **Consistency.** Every all-constant index list: the constant-expression constructor agrees as well. -/
theorem expr_eq_inst (env : Env) (elem src : Ty) (args : List IdxArg) (hc : ∀ a ∈ args, a.c.isSome = true) :
    gepExpr env elem src args = gepInst env elem src args := by
  unfold gepExpr gepInst gepWith
  rw [mapM?_congr args (fun a ha => classify_expr_eq_inst a (hc a ha))]

/-- **Correctness, every depth, every base, every index form.** For well-formed index operands
    (`WFArg`: integer constants fit int64, literal vectors have the length of their type) whose vector
    lengths are consistent (`Consistent`: LLVM requires it), the instruction constructor returns exactly
    LLVM's result type — a pointer to the element reached, in the base pointer's address space, widened
    to a (fixed or scalable) vector of pointers when the base or any index is a vector — and panics
    exactly where LLVM's rule is undefined. -/
theorem inst_eq_llvm (env : Env) (elem src : Ty) (args : List IdxArg) (L : Nat)
    (hw : ∀ a ∈ args, WFArg a) (hc : Consistent L src args) :
    gepInst env elem src args =
      match LLVMSpec.gepType env elem src args with
      | some t => .ok t
      | none => .panic := by
  obtain ⟨idxs, hm⟩ := mapM_wf args hw
  obtain ⟨hl, hv⟩ := hc
  unfold gepInst gepWith
  rw [hm]
  have main : ∀ (as : Nat) (sh : Nat × Bool), (sh.1 = 0 ∨ sh.1 = L) →
      LLVMSpec.vecShape src args = (if sh.1 != 0 then some (sh.2, sh.1) else
        (args.find? (fun a => a.tyVecLen != 0)).map fun a => (a.tyScalable, a.tyVecLen)) →
      resultType.go env as elem sh.1 sh.2 true idxs =
        match (LLVMSpec.walk env elem args.tail).map (LLVMSpec.wrap (LLVMSpec.vecShape src args) as) with
        | some t => .ok t
        | none => .panic := by
    intro as sh hs hshape
    rw [pipeline_wf env as L elem sh args idxs hm hw hl hs, fold_shape, hshape]
    cases LLVMSpec.walk env elem args.tail with
    | none => simp [finish]
    | some e =>
      simp only [Option.map_some]
      by_cases h0 : sh.1 = 0
      · simp only [h0, bne_self_eq_false, Bool.false_eq_true, if_false]
        cases hf : List.find? (fun a => a.tyVecLen != 0) args with
        | none => simp [finish, h0, LLVMSpec.wrap]
        | some x =>
          have hx : x.tyVecLen ≠ 0 := by
            have := List.find?_some hf; simpa using this
          simp [finish, hx, LLVMSpec.wrap]
      · simp [finish, h0, LLVMSpec.wrap]
  cases src with
  | ptr b as =>
    have := main as (0, false) (Or.inl rfl) (by simp [LLVMSpec.vecShape])
    simpa [resultType, LLVMSpec.gepType, LLVMSpec.baseAS] using this
  | vec s n el =>
    obtain ⟨hn, hn0⟩ := hv s n el rfl
    cases el with
    | ptr b as =>
      have := main as (n, s) (Or.inr hn) (by simp [LLVMSpec.vecShape, hn0])
      simpa [resultType, LLVMSpec.gepType, LLVMSpec.baseAS] using this
    | _ => simp [resultType, LLVMSpec.gepType, LLVMSpec.baseAS]
  | _ => simp [resultType, LLVMSpec.gepType, LLVMSpec.baseAS]

/-- …and therefore so do the parser and the constant-expression constructor. -/
theorem asm_eq_llvm (env : Env) (elem src : Ty) (args : List IdxArg) (L : Nat)
    (hw : ∀ a ∈ args, WFArg a) (hc : Consistent L src args) (hn : ∀ a ∈ args, NoInrange a) :
    gepAsm env elem src args =
      match LLVMSpec.gepType env elem src args with
      | some t => .ok t
      | none => .panic := by
  rw [parser_eq_inst env elem src args hn]; exact inst_eq_llvm env elem src args L hw hc

theorem expr_eq_llvm (env : Env) (elem src : Ty) (args : List IdxArg) (L : Nat)
    (hw : ∀ a ∈ args, WFArg a) (hc : Consistent L src args) (hk : ∀ a ∈ args, a.c.isSome = true) :
    gepExpr env elem src args =
      match LLVMSpec.gepType env elem src args with
      | some t => .ok t
      | none => .panic := by
  rw [expr_eq_inst env elem src args hk]; exact inst_eq_llvm env elem src args L hw hc

/-- The address space of the result is the base pointer's; no index: pointer to the element type. -/
theorem no_index_case (env : Env) (e b : Ty) (as : Nat) :
    gepInst env e (.ptr b as) [] = .ok (.ptr e as) ∧ LLVMSpec.gepType env e (.ptr b as) [] = some (.ptr e as) := by
  constructor
  · simp [gepInst, gepWith, mapM?, resultType, resultType.go]
  · simp [LLVMSpec.gepType, LLVMSpec.vecShape, LLVMSpec.baseAS, LLVMSpec.walk, LLVMSpec.wrap]

/-- non-vacuity: a struct-in-array walk with a constant field index -/
example : gepInst (fun _ => none) (.arr 4 (.struct false (.cons (.int 8) (.cons (.int 32) .nil)))) (.ptr (.int 8) 3)
    [⟨some (.int 0), 0, false⟩, ⟨none, 0, false⟩, ⟨some (.int 1), 0, false⟩] = .ok (.ptr (.int 32) 3) := by
  have h1 : IntLit.int64Of 1 = 1 := by decide
  have h0 : IntLit.int64Of 0 = 0 := by decide
  simp [gepInst, gepWith, mapM?, classifyInst, getIndexIR, withType, resultType, resultType.go, TyList.get?, h1, h0]

/-- non-vacuity of the hypotheses of `inst_eq_llvm`: a splat vector index, a scalable non-constant vector -/
example : (∀ a ∈ [(⟨some (.vecInts [1, 1]), 2, false⟩ : IdxArg), ⟨none, 0, false⟩], WFArg a) ∧
    Consistent 2 (.ptr (.int 8) 0) [⟨some (.vecInts [1, 1]), 2, false⟩, ⟨none, 0, false⟩] := by
  have h1 : IntLit.int64Of 1 = 1 := by decide
  refine ⟨?_, ?_, ?_⟩
  · intro a ha
    simp only [List.mem_cons, List.not_mem_nil, or_false] at ha
    rcases ha with rfl | rfl
    · simp [WFArg, WFConst, h1]
    · simp [WFArg]
  · intro a ha
    simp only [List.mem_cons, List.not_mem_nil, or_false] at ha
    rcases ha with rfl | rfl <;> simp [LenOK]
  · intro s n t h; cases h

example : gepInst (fun _ => none) (.int 8) (.ptr (.int 8) 1) [⟨none, 4, true⟩] = .ok (.vec true 4 (.ptr (.int 8) 1)) := by
  simp [gepInst, gepWith, mapM?, classifyInst, withType, resultType, resultType.go]

/-! ## the three inputs on which the code used to fail (repaired by fix commits; kept as regression facts) -/

/-- (a) scalability is kept -/
theorem scalable_kept :
    gepInst (fun _ => none) (.int 8) (.vec true 2 (.ptr (.int 8) 0)) [⟨some (.int 0), 0, false⟩]
      = .ok (.vec true 2 (.ptr (.int 8) 0)) := by
  have h0 : IntLit.int64Of 0 = 0 := by decide
  simp [gepInst, gepWith, mapM?, classifyInst, getIndexIR, withType, resultType, resultType.go, h0]

/-- (b) a vector-typed zeroinitializer index widens the result in every pipeline -/
theorem vector_zeroinitializer_widens :
    gepInst (fun _ => none) (.int 8) (.ptr (.int 8) 0) [⟨some .zero, 2, false⟩] = .ok (.vec false 2 (.ptr (.int 8) 0)) ∧
    gepAsm (fun _ => none) (.int 8) (.ptr (.int 8) 0) [⟨some .zero, 2, false⟩] = .ok (.vec false 2 (.ptr (.int 8) 0)) ∧
    gepExpr (fun _ => none) (.int 8) (.ptr (.int 8) 0) [⟨some .zero, 2, false⟩] = .ok (.vec false 2 (.ptr (.int 8) 0)) := by
  refine ⟨?_, ?_, ?_⟩ <;>
    simp [gepInst, gepAsm, gepExpr, gepWith, mapM?, classifyInst, classifyAsm, classifyExpr, getIndexIR, getIndexAsm, withType, resultType, resultType.go]

/-- (c) the parser accepts a constant-expression index -/
theorem parser_accepts_constant_expression :
    gepAsm (fun _ => none) (.int 8) (.ptr (.int 8) 0) [⟨some (.expr false), 0, false⟩] = .ok (.ptr (.int 8) 0) := by
  simp [gepAsm, gepWith, mapM?, classifyAsm, getIndexAsm, withType, resultType, resultType.go]

end Llir.Props.C07
