import LlirModel.Gep
/-! # C07 — getelementptr result types are computed correctly and consistently (property theorems only)

Three pipelines: `gepInst` (instruction constructor), `gepExpr` (constant-expression constructor; also
what the parser uses for constant gep expressions) and `gepAsm` (parser, instructions); each is its own
`getIndex` classifier followed by `gep.ResultType`. -/
namespace Llir.Props.C07
open Llir Llir.Types Llir.Typing Llir.Gep

/-- index forms on which the three classifiers are designed to agree: non-constants, integers,
    scalar zeroinitializer/undef/poison, LITERAL integer vectors whose length is the type's length,
    ptrtoint expressions of scalar type -/
def Tame (a : IdxArg) : Bool :=
  match a.c with
  | none => true
  | some (.int _) => a.tyVecLen == 0
  | some .zero => a.tyVecLen == 0
  | some .undef => a.tyVecLen == 0
  | some .poison => a.tyVecLen == 0
  | some (.expr true) => a.tyVecLen == 0
  | some (.vecInts vs) => a.tyVecLen == vs.length && vs.length != 0
  | _ => false

theorem classify_inst_eq_asm (a : IdxArg) (h : Tame a = true) : classifyAsm a = classifyInst a := by
  unfold Tame at h
  unfold classifyAsm classifyInst
  rcases a with ⟨c, n, s⟩
  cases c with
  | none => rfl
  | some c =>
    cases c <;> simp_all [getIndexIR]
    case expr b => cases b <;> simp_all [getIndexIR]

theorem getIndexIR_vecLen (vs : List Int) (hne : vs.length ≠ 0) :
    ∃ ix, getIndexIR (.vecInts vs) = some ix ∧ ix.vectorLen = vs.length := by
  cases vs with
  | nil => simp at hne
  | cons v vs =>
    simp only [getIndexIR]
    split <;> exact ⟨_, rfl, by simp⟩

theorem classify_inst_eq_expr (a : IdxArg) (h : Tame a = true) (hc : a.c.isSome = true) :
    classifyExpr a = classifyInst a := by
  unfold Tame at h
  unfold classifyExpr classifyInst
  rcases a with ⟨c, n, s⟩
  cases c with
  | none => simp at hc
  | some c =>
    cases c with
    | vecInts vs =>
      simp only [beq_iff_eq, bne_iff_ne, ne_eq, Bool.and_eq_true, decide_eq_true_eq, Bool.not_eq_true'] at h
      have hlen : vs.length ≠ 0 := by
        intro h0; simp [h0] at h
      obtain ⟨ix, hix, hl⟩ := getIndexIR_vecLen vs hlen
      have hn : n = vs.length := by simpa using h.1
      simp only [hix, Option.map_some]
      rcases ix with ⟨hv, v, l⟩
      simp only at hl; subst hl; subst hn
      simp [hlen]
    | expr b => cases b <;> simp_all [getIndexIR]
    | _ => simp_all [getIndexIR]

theorem mapM?_congr {f g : α → Option β} : ∀ (l : List α), (∀ a ∈ l, f a = g a) → mapM? f l = mapM? g l
  | [], _ => rfl
  | x :: xs, h => by
    simp only [mapM?]
    rw [h x (by simp), mapM?_congr xs (fun a ha => h a (by simp [ha]))]

/-- On tame index lists the parser and the instruction constructor compute the same type. -/
theorem parser_eq_inst (env : Env) (elem src : Ty) (args : List IdxArg) (h : ∀ a ∈ args, Tame a = true) :
    gepAsm env elem src args = gepInst env elem src args := by
  unfold gepAsm gepInst gepWith
  rw [mapM?_congr args (fun a ha => classify_inst_eq_asm a (h a ha))]

/-- On tame, all-constant index lists the constant-expression constructor agrees as well. -/
theorem expr_eq_inst (env : Env) (elem src : Ty) (args : List IdxArg) (h : ∀ a ∈ args, Tame a = true)
    (hc : ∀ a ∈ args, a.c.isSome = true) :
    gepExpr env elem src args = gepInst env elem src args := by
  unfold gepExpr gepInst gepWith
  rw [mapM?_congr args (fun a ha => classify_inst_eq_expr a (h a ha) (hc a ha))]

/-- The address space of the result is the base pointer's; no index: pointer to the element type. -/
theorem no_index_case (env : Env) (e b : Ty) (as : Nat) :
    gepInst env e (.ptr b as) [] = .ok (.ptr e as) ∧ LLVMSpec.gepType env e (.ptr b as) [] = some (.ptr e as) := by
  constructor
  · simp [gepInst, gepWith, mapM?, resultType, resultType.go]
  · simp [LLVMSpec.gepType, LLVMSpec.vecShape]

/-- FULL statement is false for the code as it is — three witnesses (recorded as known findings):
    (a) scalability is lost, (b) a vector-typed zeroinitializer index does not widen the result in the
    instruction pipeline, (c) the parser panics on a constant-expression index. -/
theorem scalable_lost :
    gepInst (fun _ => none) (.int 8) (.vec true 2 (.ptr (.int 8) 0)) [⟨some (.int 0), 0, false⟩]
      = .ok (.vec false 2 (.ptr (.int 8) 0)) ∧
    LLVMSpec.gepType (fun _ => none) (.int 8) (.vec true 2 (.ptr (.int 8) 0)) [⟨some (.int 0), 0, false⟩]
      = some (.vec true 2 (.ptr (.int 8) 0)) := by
  constructor
  · simp [gepInst, gepWith, mapM?, classifyInst, getIndexIR, resultType, resultType.go]
  · simp [LLVMSpec.gepType, LLVMSpec.vecShape, LLVMSpec.walk]

theorem vector_zeroinitializer_not_widened :
    gepInst (fun _ => none) (.int 8) (.ptr (.int 8) 0) [⟨some .zero, 2, false⟩] = .ok (.ptr (.int 8) 0) ∧
    gepExpr (fun _ => none) (.int 8) (.ptr (.int 8) 0) [⟨some .zero, 2, false⟩] = .ok (.vec false 2 (.ptr (.int 8) 0)) := by
  constructor <;> simp [gepInst, gepExpr, gepWith, mapM?, classifyInst, classifyExpr, getIndexIR, resultType, resultType.go]

theorem parser_panics_on_constant_expression :
    gepAsm (fun _ => none) (.int 8) (.ptr (.int 8) 0) [⟨some (.expr false), 0, false⟩] = .panic := by
  simp [gepAsm, gepWith, mapM?, classifyAsm]

end Llir.Props.C07
