import LlirProofs.FloatLemmas
/-! # C10 — Floating-point literals keep their exact bit pattern (property theorems only)

Bit-level model (LlirModel/FloatLit.lean) of the hexadecimal paths of NewFloatFromString and
Float.Ident. PARTIAL: NaN payloads are lost by the library's data model (proved below, recorded as a
known finding); decimal notation (parsing with rounding, the "print in decimal only when exact" test,
shortest-digits formatting) is math/big + strconv + mewmew/float and is tied by correspondence and by
an exact-rational oracle on the implementation, not by theorem; ppc_fp128 pairs are oracle-only. -/
namespace Llir.Props.C10
open Llir.FloatLit

/-- half (0xH, 5/10), double and float (16-digit hex, 11/52), fp128 (0xL, 15/112): every bit pattern
    that is not a NaN — signed zeros, subnormals, normals, infinities — is preserved exactly. -/
theorem half_bits_preserved (b : Nat) (hb : b < 2 ^ 16) (h : isNaNBits 5 10 b = false) : reprint 5 10 b = b :=
  reprint_id 5 10 b hb h
theorem double_bits_preserved (b : Nat) (hb : b < 2 ^ 64) (h : isNaNBits 11 52 b = false) : reprint 11 52 b = b :=
  reprint_id 11 52 b hb h
theorem fp128_bits_preserved (b : Nat) (hb : b < 2 ^ 128) (h : isNaNBits 15 112 b = false) : reprint 15 112 b = b :=
  reprint_id 15 112 b hb h
/-- the spelling of fp128 (low word first) is an involution on 128-bit numbers, so the literal of a non-NaN value is reprinted digit for digit -/
theorem swapWords_involutive (x : Nat) (hx : x < 2 ^ 128) : swapWords (swapWords x) = x := by
  unfold swapWords
  have hhi : x / 2 ^ 64 < 2 ^ 64 := by omega
  have hlo : x % 2 ^ 64 < 2 ^ 64 := Nat.mod_lt _ (by decide)
  have hx' : x = x / 2 ^ 64 * 2 ^ 64 + x % 2 ^ 64 := by omega
  generalize x / 2 ^ 64 = hi at *
  generalize x % 2 ^ 64 = lo at *
  have h1 : hi % 2 ^ 64 = hi := Nat.mod_eq_of_lt hhi
  rw [h1]
  have h2 : (lo * 2 ^ 64 + hi) % 2 ^ 64 = hi := by omega
  have h3 : (lo * 2 ^ 64 + hi) / 2 ^ 64 % 2 ^ 64 = lo := by omega
  rw [h2, h3]
  omega

theorem swapWords_lt (x : Nat) : swapWords x < 2 ^ 128 := by
  unfold swapWords
  have h1 : x % 2 ^ 64 < 2 ^ 64 := Nat.mod_lt _ (by decide)
  have h2 : x / 2 ^ 64 % 2 ^ 64 < 2 ^ 64 := Nat.mod_lt _ (by decide)
  generalize x % 2 ^ 64 = lo at *
  generalize x / 2 ^ 64 % 2 ^ 64 = hi at *
  omega

theorem fp128_literal_preserved (lit : Nat) (hl : lit < 2 ^ 128) (h : isNaNBits 15 112 (swapWords lit) = false) : reprint128Lit lit = lit := by
  unfold reprint128Lit
  rw [fp128_bits_preserved (swapWords lit) (swapWords_lt lit) h, swapWords_involutive lit hl]

/-- the general statement, for any IEEE interchange format -/
theorem ieee_bits_preserved (E M b : Nat) (hb : b < 2 ^ (1 + E + M)) (h : isNaNBits E M b = false) : reprint E M b = b :=
  reprint_id E M b hb h

/-- distinct non-NaN bit patterns denote distinct values in the library's value carrier (nothing is conflated) -/
theorem decode_injective (E M b₁ b₂ : Nat) (h₁ : b₁ < 2 ^ (1 + E + M)) (h₂ : b₂ < 2 ^ (1 + E + M))
    (n₁ : isNaNBits E M b₁ = false) (n₂ : isNaNBits E M b₂ = false) (h : decode E M b₁ = decode E M b₂) : b₁ = b₂ := by
  have e₁ := reprint_id E M b₁ h₁ n₁
  have e₂ := reprint_id E M b₂ h₂ n₂
  unfold reprint at e₁ e₂
  rw [h] at e₁; rw [← e₁, e₂]

/-- x86_fp80 (0xK), EVERY 80-bit pattern, canonical or not: the printed literal, read again, denotes the value the pattern was read as (a pseudo-denormal is
    printed in its normalised encoding, exactly as LLVM prints it; an unnormal, a pseudo-infinity and a pseudo-NaN are NaNs, as LLVM reads them) -/
theorem fp80_every_encoding_value_preserved (se m : Nat) :
    decode80 (encode80 (decode80 se m)).1 (encode80 (decode80 se m)).2 = decode80 se m := reprint80_value se m

/-- an unnormal is read as a NaN of its sign (not as the finite number its fields would spell); a pseudo-denormal keeps its value under the exponent field 1 -/
example : decode80 0x3FFF 1 = .nan false ∧ decode80 0x8001 0 = .nan true ∧ encode80 (decode80 0 (2 ^ 63)) = (1, 2 ^ 63) := by decide

/-- x86_fp80 (0xK): canonical non-NaN encodings are preserved exactly -/
theorem fp80_bits_preserved (se m : Nat) (hc : canonical80 se m = true) (hn : isNaN80 se m = false) :
    encode80 (decode80 se m) = (se, m) := reprint80_id se m hc hn

/-- NaN: NaN-ness and sign are preserved … -/
theorem nan_stays_nan_with_sign (E M b : Nat) (h : isNaNBits E M b = true) :
    reprint E M b = signBits E M (signBit E M b) + (2 ^ E - 1) * 2 ^ M + 2 ^ (M - 1) := reprint_nan E M b h

/-- … but the FULL statement (payload and signalling-ness preserved) is false for the code as it is:
    double 0x7FF0000000000001 is printed as 0x7FF8000000000000. -/
theorem nan_payload_lost : reprint 11 52 0x7FF0000000000001 = 0x7FF8000000000000 ∧
    (0x7FF0000000000001 : Nat) ≠ 0x7FF8000000000000 := by decide

/-- non-vacuity: -0.0, the smallest subnormal and the largest finite double are covered by the hypotheses -/
example : isNaNBits 11 52 0x8000000000000000 = false ∧ isNaNBits 11 52 1 = false ∧ isNaNBits 11 52 0x7FEFFFFFFFFFFFFF = false := by decide

end Llir.Props.C10
