import LlirProofs.Props.C01Meta
/-! # C02 — printed output is a fixpoint: the metadata section (M-Meta) -/
namespace Llir.Props.C02
open Llir Llir.Meta

/-- the printed text of a well-formed metadata section is a fixpoint of parse-then-print, reached in one step -/
theorem meta_one_step_fixpoint (useHex : Int → Bool) (s : Sec) (h : wf s = true) :
    (match parse (printSec useHex s) with | .ok s' => printSec useHex s' = printSec useHex s | .error => False) := by
  rw [C01.meta_roundtrip useHex s h]

/-- and the second parse returns the same section -/
theorem meta_second_parse_identical (useHex : Int → Bool) (s g : Sec) (h : wf s = true)
    (hg : parse (printSec useHex s) = .ok g) : parse (printSec useHex g) = .ok g := by
  rw [C01.meta_roundtrip useHex s h] at hg
  injection hg with hg; subst hg
  exact C01.meta_roundtrip useHex s h

end Llir.Props.C02
