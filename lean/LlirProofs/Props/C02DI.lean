import LlirProofs.Props.C01DI
/-! C02 — the specialised metadata nodes: the printed text of a well-formed node is a one-step fixpoint of parse and print, and parsing it twice gives the
    same node (for every kind of the regenerated table). -/
namespace Llir.Props.C02
open Llir Llir.DI

theorem di_one_step_fixpoint (n : Node) (h : wf Generated.diTable n = true) :
    (parse Generated.diTable (printNode Generated.diTable n)).map (printNode Generated.diTable) = some (printNode Generated.diTable n) :=
  Props.C01.di_fixpoint n h

theorem di_second_parse_identical (n m : Node) (h : wf Generated.diTable n = true) (hm : parse Generated.diTable (printNode Generated.diTable n) = some m) :
    parse Generated.diTable (printNode Generated.diTable m) = some m := by
  have := Props.C01.di_roundtrip n h
  rw [this] at hm
  cases hm
  exact this

end Llir.Props.C02
