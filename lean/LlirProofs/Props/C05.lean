import LlirProofs.ResolveLemmas
import LlirProofs.Core3Main
import LlirModel.Generated.Facts
/-! # C05 — Undefined or doubly defined names are reported as errors (property theorems only) -/
namespace Llir.Props.C05
open Llir Llir.Resolve

/-- a reference to an identifier without definition (type, comdat, global entity, metadata ID) makes
    translation fail, whatever the order in which entities are visited -/
theorem undefined_reference_is_error (ents order : List Ent) (e : Ent) (he : e ∈ order)
    (r : NS × String) (hr : r ∈ e.refs) (hne : r.1 ≠ .attrgroup)
    (hundef : lookup ents r.1.space r.2 = none) :
    (translate ents order).isOk = false := by
  cases hok : (translate ents order).isOk with
  | false => rfl
  | true =>
    have h := (translate_isOk_iff ents order).mp hok
    have := entErr_none_refs ents e (h.2 e he) r hr hne
    rw [hundef] at this; cases this

/-- a use of a local or label that the function does not define, or a local defined twice, is an error -/
theorem bad_local_is_error (ents order : List Ent) (f : Ent) (hf : f ∈ order)
    (h : (∃ k ∈ f.lrefs, f.ldefs.contains k = false) ∨ (dupIn f.ldefs).isSome = true) :
    (translate ents order).isOk = false := by
  cases hok : (translate ents order).isOk with
  | false => rfl
  | true =>
    have hh := (translate_isOk_iff ents order).mp hok
    have := entErr_none_locals ents f (hh.2 f hf)
    rcases h with ⟨k, hk, hc⟩ | hd
    · rw [this.2 k hk] at hc; cases hc
    · rw [this.1] at hd; cases hd

/-- `blockaddress(@f, %l)` anywhere in the module — a global initialiser, a metadata field, a function body, a
    module-level `uselistorder` — whose `@f` is not a defined function or whose `%l` is not a block that
    function defines makes translation fail, whatever the visiting order -/
theorem undefined_block_is_error (ents order : List Ent) (e : Ent) (he : e ∈ order)
    (b : String × String) (hb : b ∈ e.brefs) (hbad : blockOK ents b = false) :
    (translate ents order).isOk = false := by
  cases hok : (translate ents order).isOk with
  | false => rfl
  | true =>
    have h := (translate_isOk_iff ents order).mp hok
    have := entErr_none_blocks ents e (h.2 e he) b hb
    rw [hbad] at this; cases this

/-- No error is lost on the way: inside every loop of the translator (package asm) an assignment to `err` is checked
    immediately (`if err != nil { return … }`), so an error raised for one element of a list (a struct field, a tuple
    field, an operand …) cannot be overwritten by the next element. REGENERATED from the source on every run (go/ast). -/
theorem errors_are_not_overwritten : Generated.Facts.errOverwrites = [] := by decide

/-- a doubly defined type (previous definition not opaque), comdat, global entity or metadata ID is an error -/
theorem duplicate_definition_is_error (ents order : List Ent) (h : (dupErr ents).isSome = true) :
    (translate ents order).isOk = false := by
  cases hok : (translate ents order).isOk with
  | false => rfl
  | true =>
    have hh := (translate_isOk_iff ents order).mp hok
    rw [hh.1] at h; cases h

/-- the documented exception: an undefined attribute-group ID is not an error -/
theorem undefined_attrgroup_is_accepted :
    (translate [⟨.func, "f", false, [(.attrgroup, "7")], [], [], []⟩] [⟨.func, "f", false, [(.attrgroup, "7")], [], [], []⟩]).isOk = true := by
  decide

/-- the model never crashes: the only outcomes are a module or an error (by construction of `Outcome`),
    and which of the two does not depend on the visiting order (see C12) -/
theorem outcome_total (ents order : List Ent) :
    (∃ res, translate ents order = .ok res) ∨ (∃ err, translate ents order = .error err) := by
  cases h : translate ents order with
  | ok r => exact Or.inl ⟨r, rfl⟩
  | error e => exact Or.inr ⟨e, rfl⟩

/-- concrete faults (non-vacuity) -/
example : (translate [⟨.global, "g", false, [(.global, "undef")], [], [], []⟩] [⟨.global, "g", false, [(.global, "undef")], [], [], []⟩]).isOk = false := by decide
example : (dupErr [⟨.md, "3", false, [], [], [], []⟩, ⟨.md, "3", false, [], [], [], []⟩]).isSome = true := by decide

example : (translate
    [⟨.func, "f", false, [], ["entry"], [], []⟩, ⟨.uselist, "#", false, [(.global, "f")], [], [], [("f", "nosuchblock")]⟩]
    [⟨.func, "f", false, [], ["entry"], [], []⟩, ⟨.uselist, "#", false, [(.global, "f")], [], [], [("f", "nosuchblock")]⟩]).isOk = false := by decide
example : (translate
    [⟨.func, "f", false, [], ["entry"], [], []⟩, ⟨.uselist, "#", false, [(.global, "f")], [], [], [("f", "entry")]⟩]
    [⟨.func, "f", false, [], ["entry"], [], []⟩, ⟨.uselist, "#", false, [(.global, "f")], [], [], [("f", "entry")]⟩]).isOk = true := by decide

/-! ## M-Core-3: function bodies (asm/local.go on real instruction lines, not skeletons) -/

/-- whatever the translation of a function body returns (in a module defining the globals `ge`), it is never a function with a dangling, doubly
    defined or mis-kinded local or an undefined global: after numbering (`fill`), every identifier is defined once, every operand and label use is
    defined, every label operand is a block, and every `@name` operand is a global variable or function of the module -/
theorem core3_result_is_closed_in (ge : Core3.GEnv) (f g : Core3.Func) (h : Core3.translateIn ge f = some g) :
    ∃ l, Numbering.parseAssign (Core3.slotsOf f) = .ok l ∧
      (Core3.defs (Core3.fill f l)).Nodup ∧ (∀ u ∈ Core3.uses (Core3.fill f l), u ∈ Core3.defs (Core3.fill f l)) ∧
      (∀ u ∈ Core3.labUses (Core3.fill f l), u ∈ Core3.blockDefs (Core3.fill f l)) ∧
      (∀ n ∈ Core3.globUses (Core3.fill f l), n ∈ ge.map (·.1)) := by
  have h := (Core3.translateIn_core _ _ _ h).1
  unfold Core3.translateCore at h
  split at h
  · cases h
  · rename_i l hl
    refine ⟨l, hl, ?_⟩
    simp only at h
    split at h
    · cases h
    · rename_i hd
      split at h
      · rename_i hu
        simp only [Bool.and_eq_true, List.all_eq_true] at hu
        refine ⟨(Core3.hasDupI_false_iff_nodup _).mp (by simpa using hd), ?_, ?_, ?_⟩
        · intro u hu'; simpa using hu.1.1.1.1.1 u hu'
        · intro u hu'; simpa using hu.1.1.1.1.2 u hu'
        · intro n hn; simpa using hu.1.1.2 n hn
      · cases h

/-- in EVERY accepted function the pad named by a catchret is the result of a catchpad, the pad named by a cleanupret the result of a cleanuppad, and
    the scope named by a catchpad the result of a catchswitch (a local of another kind in such a place is an error, not a silent binding) -/
theorem core3_pad_kinds (ge : Core3.GEnv) (f g : Core3.Func) (h : Core3.translateIn ge f = some g) :
    ∃ l, Numbering.parseAssign (Core3.slotsOf f) = .ok l ∧ Core3.padsOK (Core3.fill f l) = true := by
  have h := (Core3.translateIn_core _ _ _ h).1
  unfold Core3.translateCore at h
  split at h
  · cases h
  · rename_i l hl
    refine ⟨l, hl, ?_⟩
    simp only at h
    split at h
    · cases h
    · split at h
      · rename_i hu
        simp only [Bool.and_eq_true] at hu
        exact hu.2
      · cases h

theorem core3_result_is_closed (f g : Core3.Func) (h : Core3.translate f = some g) :
    ∃ l, Numbering.parseAssign (Core3.slotsOf f) = .ok l ∧
      (Core3.defs (Core3.fill f l)).Nodup ∧ (∀ u ∈ Core3.uses (Core3.fill f l), u ∈ Core3.defs (Core3.fill f l)) ∧
      (∀ u ∈ Core3.labUses (Core3.fill f l), u ∈ Core3.blockDefs (Core3.fill f l)) := by
  obtain ⟨l, h1, h2, h3, h4, _⟩ := core3_result_is_closed_in _ f g (Core3.translate_some f g h).1
  exact ⟨l, h1, h2, h3, h4⟩

/-- a duplicated definition (after numbering) is an error -/
theorem core3_duplicate_is_error (ge : Core3.GEnv) (f : Core3.Func) (l : List Numbering.Slot) (hl : Numbering.parseAssign (Core3.slotsOf f) = .ok l)
    (h : Core3.hasDupI (Core3.defs (Core3.fill f l)) = true) : Core3.translateIn ge f = none := by
  apply Core3.translateIn_none_of_core
  simp [Core3.translateCore, hl, h]

/-- a use of an identifier the function does not define is an error -/
theorem core3_undefined_is_error (ge : Core3.GEnv) (f : Core3.Func) (l : List Numbering.Slot) (hl : Numbering.parseAssign (Core3.slotsOf f) = .ok l)
    (u : Core3.Ident) (hu : u ∈ Core3.uses (Core3.fill f l)) (hd : u ∉ Core3.defs (Core3.fill f l)) : Core3.translateIn ge f = none := by
  have : ((Core3.uses (Core3.fill f l)).all fun u => (Core3.defs (Core3.fill f l)).contains u) = false := by
    rw [List.all_eq_false]; exact ⟨u, hu, by simpa using hd⟩
  apply Core3.translateIn_none_of_core
  simp only [Core3.translateCore, hl, this, Bool.false_and, Bool.false_eq_true, if_false]
  split <;> rfl

/-- a use of a global the module does not define is an error -/
theorem core3_undefined_global_is_error (ge : Core3.GEnv) (f : Core3.Func) (l : List Numbering.Slot)
    (hl : Numbering.parseAssign (Core3.slotsOf f) = .ok l)
    (n : Bytes) (hu : n ∈ Core3.globUses (Core3.fill f l)) (hd : n ∉ ge.map (·.1)) : Core3.translateIn ge f = none := by
  have : ((Core3.globUses (Core3.fill f l)).all fun n => (ge.map (·.1)).contains n) = false := by
    rw [List.all_eq_false]; exact ⟨n, hu, by simpa using hd⟩
  apply Core3.translateIn_none_of_core
  simp only [Core3.translateCore, hl, this, Bool.and_false, Bool.false_and, Bool.false_eq_true, if_false]
  split <;> rfl

/-- in particular: a function definition on its own that mentions any global but itself is an error -/
theorem core3_standalone_global_is_error (f : Core3.Func) (l : List Numbering.Slot) (hl : Numbering.parseAssign (Core3.slotsOf f) = .ok l)
    (n : Bytes) (hu : n ∈ Core3.globUses (Core3.fill f l)) (hn : n ≠ f.name) : Core3.translate f = none := by
  unfold Core3.translate
  split
  · exact core3_undefined_global_is_error _ f l hl n hu (by simpa [Core3.selfEnv] using hn)
  · rfl

/-- a numbering LLVM rejects is an error -/
theorem core3_bad_numbering_is_error (ge : Core3.GEnv) (f : Core3.Func) (h : Numbering.parseAssign (Core3.slotsOf f) = .error) :
    Core3.translateIn ge f = none := by
  apply Core3.translateIn_none_of_core
  simp [Core3.translateCore, h]

/-- **the keywords of a function header** (linkage, preemption, visibility, DLL storage class, calling convention): in every accepted function at most one
    keyword of each family occurs, and the families stand in the order the grammar fixes — a repeated or misplaced keyword is an error, not silently kept or
    dropped -/
theorem core3_header_keywords_checked (ge : Core3.GEnv) (f g : Core3.Func) (h : Core3.translateIn ge f = some g) : Core3.leadOK f.lead = true :=
  (Core3.translateIn_core ge f g h).2

/-- `internal internal`, `dso_local internal`, `internal private` are rejected; `internal dso_local hidden dllexport fastcc` is accepted -/
example : Core3.leadOK [3, 3] = false ∧ Core3.leadOK [11, 3] = false ∧ Core3.leadOK [3, 6] = false ∧ Core3.leadOK [3, 11, 14, 16, 19] = true := by decide
/-- return attributes (positions 63–68) may repeat and come in any order, but only behind the other families -/
example : Core3.leadOK [3, 19, 66, 63, 66] = true ∧ Core3.leadOK [66, 19] = false ∧ Core3.leadOK [69] = false := by decide

end Llir.Props.C05
