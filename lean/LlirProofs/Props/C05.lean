import LlirProofs.ResolveLemmas
import LlirModel.Generated.Facts
/-! # C05 — Undefined or doubly defined names are reported as errors (property theorems only) -/
namespace Llir.Props.C05
open Llir Llir.Resolve

/-- a reference to an identifier without definition (type, comdat, global entity, metadata ID) makes
    translation fail, whatever the order in which entities are visited -/
theorem undefined_reference_is_error (ents order : List Ent) (e : Ent) (he : e ∈ order)
    (r : NS × String) (hr : r ∈ e.refs) (hne : r.1 ≠ .attrgroup)
    (hundef : lookup ents r.1.space r.2 = none) :
    (translate ents order).isOk = false := by
  cases hok : (translate ents order).isOk with
  | false => rfl
  | true =>
    have h := (translate_isOk_iff ents order).mp hok
    have := entErr_none_refs ents e (h.2 e he) r hr hne
    rw [hundef] at this; cases this

/-- a use of a local or label that the function does not define, or a local defined twice, is an error -/
theorem bad_local_is_error (ents order : List Ent) (f : Ent) (hf : f ∈ order)
    (h : (∃ k ∈ f.lrefs, f.ldefs.contains k = false) ∨ (dupIn f.ldefs).isSome = true) :
    (translate ents order).isOk = false := by
  cases hok : (translate ents order).isOk with
  | false => rfl
  | true =>
    have hh := (translate_isOk_iff ents order).mp hok
    have := entErr_none_locals ents f (hh.2 f hf)
    rcases h with ⟨k, hk, hc⟩ | hd
    · rw [this.2 k hk] at hc; cases hc
    · rw [this.1] at hd; cases hd

/-- `blockaddress(@f, %l)` anywhere in the module — a global initialiser, a metadata field, a function body, a
    module-level `uselistorder` — whose `@f` is not a defined function or whose `%l` is not a block that
    function defines makes translation fail, whatever the visiting order -/
theorem undefined_block_is_error (ents order : List Ent) (e : Ent) (he : e ∈ order)
    (b : String × String) (hb : b ∈ e.brefs) (hbad : blockOK ents b = false) :
    (translate ents order).isOk = false := by
  cases hok : (translate ents order).isOk with
  | false => rfl
  | true =>
    have h := (translate_isOk_iff ents order).mp hok
    have := entErr_none_blocks ents e (h.2 e he) b hb
    rw [hbad] at this; cases this

/-- No error is lost on the way: inside every loop of the translator (package asm) an assignment to `err` is checked
    immediately (`if err != nil { return … }`), so an error raised for one element of a list (a struct field, a tuple
    field, an operand …) cannot be overwritten by the next element. REGENERATED from the source on every run (go/ast). -/
theorem errors_are_not_overwritten : Generated.Facts.errOverwrites = [] := by decide

/-- a doubly defined type (previous definition not opaque), comdat, global entity or metadata ID is an error -/
theorem duplicate_definition_is_error (ents order : List Ent) (h : (dupErr ents).isSome = true) :
    (translate ents order).isOk = false := by
  cases hok : (translate ents order).isOk with
  | false => rfl
  | true =>
    have hh := (translate_isOk_iff ents order).mp hok
    rw [hh.1] at h; cases h

/-- the documented exception: an undefined attribute-group ID is not an error -/
theorem undefined_attrgroup_is_accepted :
    (translate [⟨.func, "f", false, [(.attrgroup, "7")], [], [], []⟩] [⟨.func, "f", false, [(.attrgroup, "7")], [], [], []⟩]).isOk = true := by
  decide

/-- the model never crashes: the only outcomes are a module or an error (by construction of `Outcome`),
    and which of the two does not depend on the visiting order (see C12) -/
theorem outcome_total (ents order : List Ent) :
    (∃ res, translate ents order = .ok res) ∨ (∃ err, translate ents order = .error err) := by
  cases h : translate ents order with
  | ok r => exact Or.inl ⟨r, rfl⟩
  | error e => exact Or.inr ⟨e, rfl⟩

/-- concrete faults (non-vacuity) -/
example : (translate [⟨.global, "g", false, [(.global, "undef")], [], [], []⟩] [⟨.global, "g", false, [(.global, "undef")], [], [], []⟩]).isOk = false := by decide
example : (dupErr [⟨.md, "3", false, [], [], [], []⟩, ⟨.md, "3", false, [], [], [], []⟩]).isSome = true := by decide

example : (translate
    [⟨.func, "f", false, [], ["entry"], [], []⟩, ⟨.uselist, "#", false, [(.global, "f")], [], [], [("f", "nosuchblock")]⟩]
    [⟨.func, "f", false, [], ["entry"], [], []⟩, ⟨.uselist, "#", false, [(.global, "f")], [], [], [("f", "nosuchblock")]⟩]).isOk = false := by decide
example : (translate
    [⟨.func, "f", false, [], ["entry"], [], []⟩, ⟨.uselist, "#", false, [(.global, "f")], [], [], [("f", "entry")]⟩]
    [⟨.func, "f", false, [], ["entry"], [], []⟩, ⟨.uselist, "#", false, [(.global, "f")], [], [], [("f", "entry")]⟩]).isOk = true := by decide

end Llir.Props.C05
