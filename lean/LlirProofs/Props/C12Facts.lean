import LlirProofs.Props.C12
import LlirModel.Generated.Facts
/-! # C12 — the part decided on facts REGENERATED from the source -/
namespace Llir.Props.C12
open Llir

/-- **the translator has no state outside the per-parse generator**: package asm declares no package-level variable other than its (discarding)
    debug logger — fact regenerated from the source (go/ast over asm/*.go). A package-level buffer, cache or counter would make the result of a parse
    depend on other parses of the process, successive or concurrent, which no per-input model can exhibit. -/
theorem asm_has_no_package_state : Generated.Facts.asmPackageVars = ["dbg"] := by decide

end Llir.Props.C12
