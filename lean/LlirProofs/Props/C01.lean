import LlirProofs.CoreLemmas
import LlirProofs.Core2Mod
import LlirProofs.Core3Main
/-! # C01 — Parse then print preserves the meaning of every accepted module (property theorems only)

PARTIAL by construction: the structural theorem below covers M-Core (LlirModel/Core.lean: opaque type
definitions and integer global variables, all names / widths / values). The leaf categories of the
property are the theorems of C09 (integers), C11 (names, strings), C16 (types), C18 (keywords, flags),
C08 (numbering), C17 (metadata IDs), C20 (ordering), C04/C05 (resolution); everything else of the
grammar is tied by correspondence only (byte-exact fixpoint and graph-closure oracles). -/
namespace Llir.Props.C01
open Llir Llir.Core

/-- M-Core round trip: parsing what the printer printed gives back the same module up to the printer's
    canonical ordering of type definitions — same names (every byte), same widths, same values, nothing
    dropped or invented — for every module of the fragment, any size, both literal notations. -/
theorem core_roundtrip (useHex : Int → Bool) (m : CoreMod)
    (ht : ∀ n ∈ m.typedefs, TypeNameOK n) (hg : ∀ g ∈ m.globals, GlobalOK g) :
    translateTok (printTok useHex m) = some (canon m) := by
  unfold translateTok canon
  rcases m with ⟨ts, gs⟩
  rw [collect_print useHex ts gs ht hg]; rfl

/-- the guard is satisfiable and the statement is not vacuous: a module with a quoted name, a name with
    a high byte, a negative and a large value -/
example : ∀ g ∈ [(⟨[97, 32, 98], 32, -7⟩ : GlobalDef), ⟨[0xE4, 0xB8], 64, 2147483648⟩, ⟨[120], 1, -1⟩], GlobalOK g := by
  intro g hg
  simp only [List.mem_cons, List.mem_nil_iff, or_false] at hg
  rcases hg with rfl | rfl | rfl <;> simp [GlobalOK]

/-! ## second fragment (LlirModel/Core2.lean): struct type definitions with bodies, globals of any type,
      nested aggregate constants -/

/-- M-Core-2 round trip: every module of identified-struct type definitions (opaque or with a body of
    arbitrarily nested types) and global variables / constants of ANY type initialised by an integer of
    any width, `zeroinitializer`, `null`, `undef` or an arbitrarily nested struct / packed struct / array /
    vector constant is read back, from the text the printer printed, as the same module up to the
    canonical order of type definitions. The readers of types and constants are proved to invert the
    printers on every type and every constant (`TyParse.parse_tyString`, `Core2.read_const`). -/
theorem core2_roundtrip (useHex : Int → Bool) (m : Core2.Mod) (h : Core2.WF m) :
    Core2.translateTok (Core2.printTok useHex m) = some (Core2.canon m) :=
  Core2.core2_roundtrip useHex m h

/-- non-vacuity: a module with a recursive struct type, a packed struct constant holding an array, a
    vector, a pointer and an `i1 -1`, satisfies the hypothesis -/
def sample : Core2.Mod :=
  ⟨[⟨[78], .struct false (.cons (.int 32) (.cons (.ptr (.named [78]) 0) .nil))⟩],
   [⟨[103], true, .struct true (.cons (.arr 2 (.int 8)) (.cons (.vec false 2 (.int 1)) (.cons (.ptr (.named [78]) 0) .nil))),
      .struct true (.cons (.arr 2 (.int 8)) (.arr (.cons (.int 8) (.int (-1)) (.cons (.int 8) (.int 200) .nil)))
        (.cons (.vec false 2 (.int 1)) (.vec (.cons (.int 1) (.int (-1)) (.cons (.int 1) (.int 0) .nil)))
        (.cons (.ptr (.named [78]) 0) .null .nil))), [], {}⟩]⟩

example : Core2.WF sample := by
  refine ⟨?_, ?_, ?_, by decide, by decide, by decide⟩
  · intro d hd; simp [sample] at hd; subst hd; exact ⟨by simp, by decide⟩
  · intro g hg; simp [sample] at hg; subst hg; simp
  · intro g hg; simp [sample] at hg; subst hg
    exact ⟨by decide, by simp [Core2.cwf, Core2.clwf, Core2.firstNoBrace, Types.tyString]⟩

/-! ## M-Core-3: function definitions (parameters, blocks, instructions over locals and constants, terminators) -/

/-- **Parse then print is the identity on function definitions**: for every well-formed function of the fragment (any number of parameters and
    blocks, named or numbered; 30 instruction / terminator rows; operands that are locals or Core2 constants of any nesting; `wf` is a decidable
    predicate), the line readers followed by the translation of asm/local.go return exactly the function that was printed — so printing the
    result reproduces the text. -/
theorem core3_roundtrip (useHex : Int → Bool) (f : Core3.Func) (h : Core3.wf f = true) (hmd : Core3.mdWF useHex f = true) :
    Core3.parse (Core3.printFunc useHex f) = some f := by
  simp only [Core3.wf, Bool.and_eq_true] at h
  unfold Core3.parse
  rw [Core3.readFunc_print useHex f h.1 hmd]
  exact Core3.translate_wf f h.1 h.2

/-- non-vacuity: `define i32 @f(i32 %x, i32 %0) { e: %1 = add i32 %x, 7 / %c = icmp eq i32 %1, %0 / br i1 %c, label %2, label %2 //
    2: store i32 %1, i32* null, align 4 / ret i32 %1 //
    s: switch i32 %1, label %2 [ i32 3, label %2 / i32 -1, label %s ] //
    i: %3 = invoke i32 @f(i32 %1, i32 7) to label %2 unwind label %l //
    l: %4 = landingpad { i8*, i32 } cleanup catch i8* null / resume { i8*, i32 } %4 }` is well-formed -/
def core3Sample : Core3.Func :=
  ⟨.int 32, [102], [(.int 32, .name [120]), (.int 32, .id 0)],
   [⟨.name [101], [⟨some (.id 1), 0, [.flags [0, 1], .tyval (.int 32) (.loc (.name [120])), .val (.const (.int 7))], .none, []⟩,
                  ⟨some (.name [99]), 13, [.tyval (.int 32) (.loc (.id 1)), .val (.loc (.id 0))], .none, []⟩],
      ⟨none, 28, [.val (.loc (.name [99])), .lab (.id 2), .lab (.id 2)], .none, []⟩⟩,
    ⟨.id 2, [⟨none, 24, [.flags [], .tyval (.int 32) (.loc (.id 1)), .tyval (.ptr (.int 32) 0) (.const .null), .okw none, .align (some 4)], .none, []⟩,
             -- store atomic volatile i32 %1, i32* null seq_cst, align 4 / fence acquire
             ⟨none, 24, [.flags [0, 1], .tyval (.int 32) (.loc (.id 1)), .tyval (.ptr (.int 32) 0) (.const .null), .okw (some 5), .align (some 4)], .none, []⟩,
             ⟨none, 88, [.kw 2], .none, []⟩,
             -- %a = load atomic i32, i32* null monotonic / %cx = cmpxchg weak i32* null, i32 %a, i32 7 acq_rel monotonic, align 8 / %rm = atomicrmw volatile umax i32* null, i32 %a seq_cst
             ⟨some (.name [97]), 23, [.flags [0], .ty (.int 32), .tyval (.ptr (.int 32) 0) (.const .null), .okw (some 1), .align none], .none, []⟩,
             ⟨some (.name [99, 120]), 89, [.flags [0], .tyval (.ptr (.int 32) 0) (.const .null), .tyval (.int 32) (.loc (.name [97])), .tyval (.int 32) (.const (.int 7)),
                .kw 4, .kw 1, .align (some 8)], .none, []⟩,
             ⟨some (.name [114, 109]), 90, [.flags [0], .kw 11, .tyval (.ptr (.int 32) 0) (.const .null), .tyval (.int 32) (.loc (.name [97])), .kw 5, .align none], .none, []⟩],
      ⟨none, 26, [.retv (some (.int 32, .loc (.id 1)))], .none, []⟩⟩,
    ⟨.name [115], [],
      ⟨none, 82, [.tyval (.int 32) (.loc (.id 1)), .lab (.id 2)], .cases [(.int 32, .int 3, .id 2), (.int 32, .int (-1), .name [115])], []⟩⟩,
    ⟨.name [105], [],
      ⟨some (.id 3), 84, [.ty (.int 32), .val (.glob [102]), .tyvals [(.int 32, .loc (.id 1)), (.int 32, .const (.int 7))]], .dests (.id 2) (.name [108]), []⟩⟩,
    -- indirectbr i8* null, [label %2, label %s] //
    -- cs: %4 = catchswitch within none [label %cp] unwind to caller // cp: %5 = catchpad within %4 [i32 7] / catchret from %5 to label %2 //
    -- cl: %6 = cleanuppad within %5 [] / cleanupret from %6 unwind label %cs
    ⟨.name [105, 98], [], ⟨none, 91, [.tyval (.ptr (.int 8) 0) (.const .null), .labs [.id 2, .name [115]]], .none, []⟩⟩,
    ⟨.name [99, 115], [], ⟨some (.id 4), 92, [.pad none, .labs [.name [99, 112]], .unwind none], .none, []⟩⟩,
    ⟨.name [99, 112], [⟨some (.id 5), 95, [.loc (.id 4), .tyvals [(.int 32, .const (.int 7))]], .none, []⟩],
      ⟨none, 93, [.loc (.id 5), .lab (.id 2)], .none, []⟩⟩,
    ⟨.name [99, 108], [⟨some (.id 6), 96, [.pad (some (.id 5)), .tyvals []], .none, []⟩],
      ⟨none, 94, [.loc (.id 6), .unwind (some (.name [99, 115]))], .none, []⟩⟩,
    ⟨.name [108], [⟨some (.id 7), 85, [.ty (.struct false (.cons (.ptr (.int 8) 0) (.cons (.int 32) .nil)))],
                    .clauses true [(false, .ptr (.int 8) 0, .const .null)], []⟩],
      ⟨none, 86, [.tyval (.struct false (.cons (.ptr (.int 8) 0) (.cons (.int 32) .nil))) (.loc (.id 7))], .none, []⟩⟩],
   -- `define internal dso_local hidden dllexport fastcc i32 @f(…)`
   [3, 11, 14, 16, 19],
   -- `… @f(…) unnamed_addr nounwind cold section "a\22b" align 8 gc "g" {`
   { unnamed := some 0, attrs := [30, 3], sect := [97, 34, 98], align := 8, gc := [103] },
   -- `(i32 noundef signext %x, i32 %0)`
   [[7, 11], []], false⟩

example : Core3.wf core3Sample = true := by decide +kernel
example : Core3.mdWF IntLit.hexChoice core3Sample = true := by decide +kernel

end Llir.Props.C01
