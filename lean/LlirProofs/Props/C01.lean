import LlirProofs.CoreLemmas
/-! # C01 — Parse then print preserves the meaning of every accepted module (property theorems only)

PARTIAL by construction: the structural theorem below covers M-Core (LlirModel/Core.lean: opaque type
definitions and integer global variables, all names / widths / values). The leaf categories of the
property are the theorems of C09 (integers), C11 (names, strings), C16 (types), C18 (keywords, flags),
C08 (numbering), C17 (metadata IDs), C20 (ordering), C04/C05 (resolution); everything else of the
grammar is tied by correspondence only (byte-exact fixpoint and graph-closure oracles). -/
namespace Llir.Props.C01
open Llir Llir.Core

/-- M-Core round trip: parsing what the printer printed gives back the same module up to the printer's
    canonical ordering of type definitions — same names (every byte), same widths, same values, nothing
    dropped or invented — for every module of the fragment, any size, both literal notations. -/
theorem core_roundtrip (useHex : Int → Bool) (m : CoreMod)
    (ht : ∀ n ∈ m.typedefs, TypeNameOK n) (hg : ∀ g ∈ m.globals, GlobalOK g) :
    translateTok (printTok useHex m) = some (canon m) := by
  unfold translateTok canon
  rcases m with ⟨ts, gs⟩
  rw [collect_print useHex ts gs ht hg]; rfl

/-- the guard is satisfiable and the statement is not vacuous: a module with a quoted name, a name with
    a high byte, a negative and a large value -/
example : ∀ g ∈ [(⟨[97, 32, 98], 32, -7⟩ : GlobalDef), ⟨[0xE4, 0xB8], 64, 2147483648⟩, ⟨[120], 1, -1⟩], GlobalOK g := by
  intro g hg
  simp only [List.mem_cons, List.mem_nil_iff, or_false] at hg
  rcases hg with rfl | rfl | rfl <;> simp [GlobalOK]

end Llir.Props.C01
