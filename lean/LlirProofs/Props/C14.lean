import LlirProofs.HistoryLemmas
import LlirModel.Generated.Facts
/-! # C14 — Observing the IR never changes it (property theorems only)

M-History (LlirModel/History.lean). The FULL statement is false for the code as it is (witness below,
recorded as a known finding); what is proved is exactly how far it holds: observers can never change
the text of a successful print — the only thing they can do is make a later print fail. -/
namespace Llir.Props.C14
open Llir Llir.Numbering Llir.History

/-- printing twice in a row yields identical text and changes nothing -/
theorem print_twice (st : List Slot) (st' : List Slot) (h : assignIDs st = .ok st') :
    step st' .print = (st', .text (render st')) := by
  have := C08.idempotent st st' 0 h
  unfold assignIDs at this
  simp [step, assignPartial_of_ok st' st' 0 this]

/-- a successful print shows LLVM's numbering of the current shape — it does not depend on any ID left
    behind by earlier prints -/
theorem print_text_depends_on_shape_only (st₁ st₂ s₁ s₂ : List Slot) (hs : shape st₁ = shape st₂)
    (h₁ : assignIDs st₁ = .ok s₁) (h₂ : assignIDs st₂ = .ok s₂) : render s₁ = render s₂ := by
  rw [C08.result_is_llvm_numbering st₁ 0 s₁ h₁, C08.result_is_llvm_numbering st₂ 0 s₂ h₂]
  exact render_numberFrom st₁ st₂ 0 hs

/-- PARTIAL form of the property (all histories, all observer placements): starting from a freshly
    constructed function, the history WITHOUT observers always prints, and the same history WITH any
    observers interleaved either prints exactly the same text or panics — it never prints anything else. -/
theorem observers_same_text_or_panic (st : List Slot) (hf : Fresh st) (h : List Op) :
    ∃ t, finalPrint st (erase h) = .text t ∧ (finalPrint st h = .text t ∨ finalPrint st h = .panic) := by
  have hfresh := fresh_run_erase h st hf
  have hshape := shape_run_erase h st st rfl
  have hok := C08.fresh_is_numbered (run st (erase h)) 0 hfresh
  refine ⟨render (LLVMSpec.numberFrom 0 (run st (erase h))), ?_, ?_⟩
  · simp [finalPrint, step, assignPartial_of_ok _ _ 0 hok]
  · unfold finalPrint step
    cases hb : (assignPartial 0 (run st h)).2 with
    | false => right; simp [hb]
    | true =>
      left
      simp only [hb, if_true]
      congr 1
      exact print_text_depends_on_shape_only _ _ _ _ hshape (assignPartial_ok _ 0 hb) hok

/-- if every value is named nothing can go wrong: observers are then completely harmless -/
theorem all_named_never_panics (st : List Slot) (hn : ∀ s ∈ st, s.counts = true → s.named = true) :
    ∃ st', assignIDs st = .ok st' := by
  refine ⟨_, C08.fresh_is_numbered st 0 ?_⟩
  intro s hs hc hnm
  have := hn s hs hc; rw [this] at hnm; cases hnm

/-- Cached types are settled by the constructors, not by the first observer: every free constructor `NewX` of package ir
    whose struct has a cached `Typ` field sets it or calls `.Type()` before returning (REGENERATED from the source on every
    run, go/ast). A lazily typed constructor would let `Type()` / `String()` / a print decide which state gets cached. -/
theorem constructors_settle_types : Llir.Generated.Facts.lazyConstructors = [] := by decide

/-- Observers do not store into their receiver: over all methods of the printing packages (ir, ir/types, ir/constant, ir/metadata, ir/enum,
    ir/value, internal/enc) that are not setters, constructors, the numbering pass or a `Type()` filling its `Typ` cache (REGENERATED from the
    source on every run, go/ast), the only stores into a receiver field are `Succs()` refreshing `Successors` (recomputed on every call: C15) and
    the byte counter of the private fmtWriter. A `String()` / `LLString()` / `Equal()` that caches makes the text depend on the query history. -/
theorem observers_do_not_store :
    Llir.Generated.Facts.observerWrites.all (fun r => (r.2.2.1 == "Succs" && r.2.2.2 == "Successors") || r.2.1 == "fmtWriter") = true := by
  decide +kernel

/-- The full statement is FALSE for the code as it is: print, insert an unnamed value before an already
    numbered one, print again — the second print panics ("expected %2, got %1"); without the first
    print the same edits print fine. -/
theorem print_then_insert_panics :
    finalPrint [] [.insert 0 false true, .insert 0 false true, .print, .insert 0 false true] = .panic ∧
    finalPrint [] (erase [.insert 0 false true, .insert 0 false true, .print, .insert 0 false true])
      = .text [some 0, some 1, some 2] := by
  decide

end Llir.Props.C14
