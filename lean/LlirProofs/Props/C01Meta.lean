import LlirProofs.MetaMain
/-! # C01 — parse then print preserves meaning: the metadata section (M-Meta; property theorems only) -/
namespace Llir.Props.C01
open Llir Llir.Meta

/-- **Metadata sections round-trip**: for every section of numbered tuple definitions (fields: `null`, references — forward, backward, to itself —,
    strings of arbitrary bytes, typed constants, inline tuples nested to any depth; `distinct` or not; any IDs below 2^63) and named metadata that
    satisfies the decidable predicate `Meta.wf` (IDs ascending, names in natural-sort order and pairwise different, every reference defined), reading
    the printed lines back and translating them (duplicate / undefined checks, merge of named metadata, the two sorting passes) gives the section
    itself: nothing is dropped, altered or re-ordered. -/
theorem meta_roundtrip (useHex : Int → Bool) (s : Sec) (h : wf s = true) : parse (printSec useHex s) = .ok s :=
  parse_print useHex s h

/-- a section that meets the hypothesis: named metadata, a cycle (!0 → !1 → !0), a self reference, a forward reference from an inline tuple,
    strings with a quote and a NUL, typed constants (also an aggregate), sparse IDs -/
def metaSample : Sec :=
  ⟨[⟨[108, 108, 118, 109, 46, 105, 100, 101, 110, 116], [0, 7]⟩, ⟨[120, 50], []⟩, ⟨[120, 49, 48], [1]⟩],
   [⟨0, false, .cons .null (.cons (.ref 1) (.cons (.str [97, 34, 0]) (.cons (.val (.int 32) (.int 7)) (.cons (.tuple (.cons (.ref 7) (.cons (.tuple .nil) .nil))) .nil))))⟩,
    ⟨1, true, .cons (.ref 0) (.cons (.ref 1) .nil)⟩,
    ⟨7, true, .nil⟩,
    ⟨4294967296, false, .cons (.val (.arr 2 (.int 8)) (.arr (.cons (.int 8) (.int 1) (.cons (.int 8) (.int (-1)) .nil)))) (.cons (.val (.ptr (.int 8) 0) .null) .nil)⟩]⟩

example : wf metaSample = true := by decide +kernel

end Llir.Props.C01
