import LlirModel.Writer
import LlirModel.Generated.Facts
/-! # C19 — WriteTo honours the io.WriterTo contract, also when the writer fails (property theorems only)

`run W s chunks` models `Module.WriteTo(w)`: one `fw.Fprint*` call per chunk. `WriteTo` returns
`(fw.size, fw.err)`. `accepted` is a ghost field: the bytes the underlying writer took. -/
namespace Llir.Props.C19
open Llir Llir.Writer

/-- the `io.Writer` contract: `0 ≤ n ≤ len(p)`, and a short write comes with a non-nil error -/
def Conforms (W : IOWriter σ) : Prop :=
  ∀ s p, (W.write s p).2.1 ≤ p.length ∧ ((W.write s p).2.1 < p.length → (W.write s p).2.2.isSome)

/-- invariant relating the state to the concatenation `done` of the chunks processed so far -/
structure Inv (st : St σ) (done : Bytes) : Prop where
  size_eq : st.size = st.accepted.length
  prefix_eq : st.accepted = done.take st.size
  full : st.err = none → st.accepted = done

theorem inv_init (s : σ) : Inv (init s) [] := ⟨rfl, rfl, fun _ => rfl⟩

theorem inv_step (W : IOWriter σ) (hW : Conforms W) (st : St σ) (done p : Bytes) (h : Inv st done) :
    Inv (step W st p) (done ++ p) := by
  unfold step
  cases herr : st.err with
  | some e =>
    simp only
    have hle : st.size ≤ done.length := by
      have := congrArg List.length h.prefix_eq
      rw [List.length_take, ← h.size_eq] at this; omega
    refine ⟨h.size_eq, ?_, fun h' => by rw [herr] at h'; cases h'⟩
    rw [List.take_append_of_le_length hle]; exact h.prefix_eq
  | none =>
    simp only
    have hfull := h.full herr
    have hc := hW st.w p
    have hsz : st.size = done.length := by rw [h.size_eq, hfull]
    refine ⟨?_, ?_, ?_⟩
    · simp [h.size_eq, List.length_take, Nat.min_eq_left hc.1]
    · simp [hfull, hsz, List.take_append]
      exact (List.take_of_length_le (Nat.le_add_right _ _)).symm
    · intro he
      have he' : (W.write st.w p).2.2 = none := he
      have : ¬ (W.write st.w p).2.1 < p.length := fun hlt => by
        have := hc.2 hlt; rw [he'] at this; cases this
      have hn : (W.write st.w p).2.1 = p.length := by omega
      rw [hfull, hn, List.take_length]

theorem inv_run_aux (W : IOWriter σ) (hW : Conforms W) (cs : List Bytes) :
    ∀ (st : St σ) (done : Bytes), Inv st done → Inv (cs.foldl (step W) st) (done ++ cs.flatten) := by
  induction cs with
  | nil => intro st done h; simpa using h
  | cons c cs ih =>
    intro st done h
    have := ih (step W st c) (done ++ c) (inv_step W hW st done c h)
    simpa [List.foldl_cons, List.flatten_cons, List.append_assoc] using this

theorem inv_run (W : IOWriter σ) (hW : Conforms W) (s : σ) (cs : List Bytes) :
    Inv (run W s cs) cs.flatten := by
  have := inv_run_aux W hW cs (init s) [] (inv_init s)
  simpa [run] using this

/-- (1) The count returned is exactly the number of bytes the writer accepted, and (2) the bytes
    delivered are exactly that long a prefix of `String()` — for EVERY conforming writer, every
    chunking, every failure point. -/
theorem count_and_prefix (W : IOWriter σ) (hW : Conforms W) (s : σ) (cs : List Bytes) :
    (run W s cs).size = (run W s cs).accepted.length ∧
    (run W s cs).accepted = cs.flatten.take (run W s cs).size :=
  ⟨(inv_run W hW s cs).size_eq, (inv_run W hW s cs).prefix_eq⟩

/-- (3) No error reported ⇒ everything was delivered: bytes = String(), count = len(String()). -/
theorem no_error_total (W : IOWriter σ) (hW : Conforms W) (s : σ) (cs : List Bytes)
    (h : (run W s cs).err = none) :
    (run W s cs).accepted = cs.flatten ∧ (run W s cs).size = cs.flatten.length := by
  have i := inv_run W hW s cs
  refine ⟨i.full h, ?_⟩
  rw [i.size_eq, i.full h]

/-- (4) Silence: once an error is latched, no further Write call is made and nothing changes,
    whatever else WriteTo still wants to print. -/
theorem silent_after_error (W : IOWriter σ) (st : St σ) (e : String) (h : st.err = some e) (more : List Bytes) :
    more.foldl (step W) st = st := by
  induction more with
  | nil => rfl
  | cons c cs ih =>
    have : step W st c = st := by unfold step; rw [h]
    rw [List.foldl_cons, this, ih]

theorem run_append (W : IOWriter σ) (s : σ) (cs more : List Bytes) :
    run W s (cs ++ more) = more.foldl (step W) (run W s cs) := by
  simp [run, List.foldl_append]

/-- (5) The error reported is the FIRST error the writer returned: the run splits at the chunk
    whose write returned it, all earlier writes having succeeded. -/
theorem first_error_aux (W : IOWriter σ) (e : String) (cs : List Bytes) :
    ∀ (st : St σ), st.err = none → (cs.foldl (step W) st).err = some e →
    ∃ pre p post, cs = pre ++ p :: post ∧ (pre.foldl (step W) st).err = none ∧
      (W.write (pre.foldl (step W) st).w p).2.2 = some e ∧
      cs.foldl (step W) st = (pre ++ [p]).foldl (step W) st := by
  induction cs with
  | nil => intro st h0 h; simp at h; rw [h0] at h; cases h
  | cons c cs ih =>
    intro st h0 h
    rw [List.foldl_cons] at h
    cases hst : (step W st c).err with
    | none =>
      obtain ⟨pre, p, post, hcs, h1, h2, h3⟩ := ih (step W st c) hst h
      exact ⟨c :: pre, p, post, by simp [hcs], by simpa using h1, by simpa using h2, by simpa using h3⟩
    | some e' =>
      have hsil := silent_after_error W (step W st c) e' hst cs
      rw [hsil, hst] at h
      have he : e' = e := by injection h
      subst he
      refine ⟨[], c, cs, rfl, h0, ?_, by simp [hsil]⟩
      have : (step W st c).err = (W.write st.w c).2.2 := by unfold step; rw [h0]
      simp only [List.foldl_nil]
      rw [← this]; exact hst

theorem first_error (W : IOWriter σ) (s : σ) (cs : List Bytes) (e : String) (h : (run W s cs).err = some e) :
    ∃ pre p post, cs = pre ++ p :: post ∧ (run W s pre).err = none ∧
      (W.write (run W s pre).w p).2.2 = some e ∧ run W s cs = run W s (pre ++ [p]) :=
  first_error_aux W e cs (init s) rfl h

/-! ## the two concrete writers the property names -/

theorem okWriter_conforms : Conforms okWriter := by
  intro s p; simp [okWriter]

theorem failAfter_conforms (k : Nat) : Conforms (failAfter k) := by
  intro s p
  simp only [failAfter]
  split <;> simp <;> omega

/-- a writer that never fails receives exactly `String()`; the count is its length -/
theorem never_failing_writer (cs : List Bytes) :
    (run okWriter 0 cs).err = none ∧ (run okWriter 0 cs).accepted = cs.flatten ∧
    (run okWriter 0 cs).size = cs.flatten.length := by
  have herr : ∀ (cs : List Bytes) (st : St Nat), st.err = none → (cs.foldl (step okWriter) st).err = none := by
    intro cs
    induction cs with
    | nil => intro st h; exact h
    | cons c cs ih =>
      intro st h
      rw [List.foldl_cons]
      apply ih
      unfold step; rw [h]; simp [okWriter]
  have h := herr cs (init 0) rfl
  exact ⟨h, no_error_total okWriter okWriter_conforms 0 cs h⟩

structure FInv (k : Nat) (st : St Nat) (done : Bytes) : Prop where
  w_eq : st.w = st.size
  le_k : st.size ≤ k
  err_some : st.err.isSome → st.size = k ∧ k < done.length
  err_none : st.err = none → st.size = done.length

theorem finv_step (k : Nat) (st : St Nat) (done p : Bytes) (h : FInv k st done) :
    FInv k (step (failAfter k) st p) (done ++ p) := by
  unfold step
  cases herr : st.err with
  | some e =>
    simp only
    have := h.err_some (by rw [herr]; rfl)
    exact ⟨h.w_eq, h.le_k, fun _ => ⟨this.1, by rw [List.length_append]; omega⟩, fun h' => by rw [herr] at h'; cases h'⟩
  | none =>
    have hn := h.err_none herr
    have hw := h.w_eq
    have hk := h.le_k
    simp only [failAfter]
    by_cases hfit : p.length ≤ k - st.w
    · simp only [hfit, if_true]
      exact ⟨by simp [hw], by simp; omega, fun h' => by simp at h', fun _ => by simp [List.length_append]; omega⟩
    · simp only [hfit, if_false]
      exact ⟨by simp [hw], by simp; omega, fun _ => ⟨by simp; omega, by simp [List.length_append]; omega⟩,
             fun h' => by simp at h'⟩

theorem finv_run_aux (k : Nat) (cs : List Bytes) :
    ∀ (st : St Nat) (done : Bytes), FInv k st done → FInv k (cs.foldl (step (failAfter k)) st) (done ++ cs.flatten) := by
  induction cs with
  | nil => intro st done h; simpa using h
  | cons c cs ih =>
    intro st done h
    have := ih _ _ (finv_step k st done c h)
    simpa [List.foldl_cons, List.flatten_cons, List.append_assoc] using this

/-- (6) A writer that fails after `k` bytes receives exactly the first `k` bytes of `String()`;
    WriteTo returns `min k len` and reports an error iff `k < len(String())`. -/
theorem failing_writer (k : Nat) (cs : List Bytes) :
    (run (failAfter k) 0 cs).accepted = cs.flatten.take k ∧
    (run (failAfter k) 0 cs).size = min k cs.flatten.length ∧
    ((run (failAfter k) 0 cs).err.isSome ↔ k < cs.flatten.length) := by
  have fi : FInv k (run (failAfter k) 0 cs) cs.flatten := by
    have := finv_run_aux k cs (init 0) [] ⟨rfl, Nat.zero_le _, fun h => by simp [init] at h, fun _ => rfl⟩
    simpa [run] using this
  have cp := count_and_prefix (failAfter k) (failAfter_conforms k) 0 cs
  cases herr : (run (failAfter k) 0 cs).err with
  | none =>
    have hs := fi.err_none herr
    have hk := fi.le_k
    refine ⟨?_, by omega, ?_⟩
    · rw [cp.2, hs, List.take_length, List.take_of_length_le (by omega)]
    · simp only [Option.isSome_none, Bool.false_eq_true, false_iff]; omega
  | some e =>
    have hs := fi.err_some (by rw [herr]; rfl)
    refine ⟨by rw [cp.2, hs.1], by omega, ?_⟩
    simp only [Option.isSome_some, true_iff]; exact hs.2

/-- The premises under which `run` models `Module.WriteTo`, decided on facts REGENERATED from the current source
    (go/ast over ir/module.go and ir/helper.go): the `io.Writer` parameter is used only to build the fmtWriter,
    WriteTo never touches `fw.w`, `fw.size` or `fw.err` itself and returns exactly `fw.size, fw.err`, and each of
    Fprint/Fprintf/Fprintln is: guard on the latched error, ONE fmt.F* call on fw.w, `fw.size += int64(n)`, `fw.err = err`. -/
theorem writer_discipline :
    Generated.Facts.writeTo_paramUsesOutsideLiteral = 0 ∧ Generated.Facts.writeTo_paramUsesInLiteral = 1 ∧
    Generated.Facts.writeTo_fwDotW = 0 ∧ Generated.Facts.writeTo_assignsToFw = 0 ∧
    Generated.Facts.writeTo_returns = Generated.Facts.writeTo_returnsSizeErr ∧ Generated.Facts.writeTo_returns ≥ 1 ∧
    Generated.Facts.fmtWriter_Fprint_disciplined = true ∧ Generated.Facts.fmtWriter_Fprintf_disciplined = true ∧
    Generated.Facts.fmtWriter_Fprintln_disciplined = true := by decide

/-- non-vacuity: a 3-chunk module text and a writer failing after 4 bytes -/
example : (run (failAfter 4) 0 [[1, 2, 3], [4, 5], [6]]).accepted = [1, 2, 3, 4] ∧
    (run (failAfter 4) 0 [[1, 2, 3], [4, 5], [6]]).size = 4 := by decide

end Llir.Props.C19
