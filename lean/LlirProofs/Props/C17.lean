import LlirModel.MetaIDs
/-! # C17 — Metadata IDs are unique (property theorems only; ID assignment part)

`assignMd` models `Module.AssignMetadataIDs` on the list of ID fields of `m.MetadataDefs` (-1 = unassigned). -/
namespace Llir.Props.C17
open Llir.MetaIDs

/-- the `nextID` closure returns the SMALLEST unused ID above `cur` -/
theorem nextFree_spec (used : List Int) (cur : Int) :
    cur < nextFree used cur ∧ used.contains (nextFree used cur) = false ∧
    ∀ m, cur < m → m < nextFree used cur → used.contains m = true := by
  fun_induction nextFree used cur with
  | case1 cur h _ ih =>
    obtain ⟨h1, h2, h3⟩ := ih
    refine ⟨by omega, h2, ?_⟩
    intro m hm hlt
    by_cases he : m = cur + 1
    · subst he; exact h
    · exact h3 m (by omega) hlt
  | case2 cur h =>
    refine ⟨by omega, by simpa using h, ?_⟩
    intro m hm hlt; omega

/-- explicitly numbered nodes keep their number; unnumbered positions stay unnumbered positions -/
theorem go_explicit_unchanged (used : List Int) : ∀ (cur : Int) (ids : List Int),
    (go used cur ids).length = ids.length ∧
    ∀ i (hi : i < ids.length) (hi' : i < (go used cur ids).length), ids[i] ≠ -1 → (go used cur ids)[i] = ids[i]
  | _, [] => by simp [go]
  | cur, id :: rest => by
    unfold go
    by_cases hid : (id != -1) = true
    · simp only [hid, if_true]
      have ih := go_explicit_unchanged used cur rest
      refine ⟨by simp [ih.1], ?_⟩
      intro i hi hi' hne
      cases i with
      | zero => simp
      | succ j => simp only [List.getElem_cons_succ] at hne ⊢; exact ih.2 j (by simpa using hi) (by simpa using hi') hne
    · simp only [hid, Bool.false_eq_true, if_false]
      have ih := go_explicit_unchanged used (nextFree used cur) rest
      refine ⟨by simp [ih.1], ?_⟩
      intro i hi hi' hne
      cases i with
      | zero => simp at hne; simp [hne] at hid
      | succ j => simp only [List.getElem_cons_succ] at hne ⊢; exact ih.2 j (by simpa using hi) (by simpa using hi') hne

/-- every element of the result is either an explicit ID (a member of `used`) or a fresh ID that is
    unused and larger than everything assigned before it -/
theorem go_members (used : List Int) : ∀ (cur : Int) (ids : List Int), (∀ x ∈ ids, x ≠ -1 → used.contains x = true) →
    ∀ y ∈ go used cur ids, used.contains y = true ∨ (cur < y ∧ used.contains y = false)
  | _, [], _, y, hy => by simp [go] at hy
  | cur, id :: rest, hu, y, hy => by
    unfold go at hy
    by_cases hid : (id != -1) = true
    · simp only [hid, if_true, List.mem_cons] at hy
      rcases hy with hy | hy
      · left; rw [hy]; exact hu id (by simp) (by simpa using hid)
      · exact go_members used cur rest (fun x hx => hu x (by simp [hx])) y hy
    · simp only [hid, Bool.false_eq_true, if_false, List.mem_cons] at hy
      have sp := nextFree_spec used cur
      rcases hy with hy | hy
      · right; rw [hy]; exact ⟨sp.1, sp.2.1⟩
      · rcases go_members used (nextFree used cur) rest (fun x hx => hu x (by simp [hx])) y hy with h | h
        · left; exact h
        · right; exact ⟨by omega, h.2⟩

/-- the IDs handed out never include -1 and never collide with an explicit ID -/
theorem go_no_unassigned (used : List Int) (cur : Int) (hc : -1 ≤ cur) (ids : List Int)
    (hu : ∀ x ∈ ids, x ≠ -1 → used.contains x = true) (hneg : used.contains (-1) = false) :
    ∀ y ∈ go used cur ids, y ≠ -1 := by
  intro y hy hm
  rcases go_members used cur ids hu y hy with h | h
  · subst hm; rw [hneg] at h; cases h
  · omega

theorem hasDup_false_iff_nodup : ∀ (l : List Int), hasDup l = false ↔ l.Nodup
  | [] => by simp [hasDup]
  | x :: xs => by
    simp only [hasDup, Bool.or_eq_false_iff, List.nodup_cons, hasDup_false_iff_nodup xs]
    constructor
    · rintro ⟨h1, h2⟩; exact ⟨by simpa using h1, h2⟩
    · rintro ⟨h1, h2⟩; exact ⟨by simpa using h1, h2⟩

/-- duplicate explicit IDs are an error -/
theorem duplicate_explicit_is_error (ids : List Int) (h : ¬ (ids.filter (· != -1)).Nodup) : assignMd ids = .error := by
  unfold assignMd
  have : hasDup (ids.filter (· != -1)) = true := by
    cases hd : hasDup (ids.filter (· != -1)) with
    | true => rfl
    | false => exact absurd ((hasDup_false_iff_nodup _).mp hd) h
  simp [this]

/-- distinct explicit IDs are always accepted -/
theorem distinct_explicit_is_ok (ids : List Int) (h : (ids.filter (· != -1)).Nodup) :
    assignMd ids = .ok (go (ids.filter (· != -1)) (-1) ids) := by
  unfold assignMd
  simp [(hasDup_false_iff_nodup _).mpr h]

/-- uniqueness: the assigned list has no duplicates -/
theorem go_nodup (used : List Int) (hnd : used.Nodup) : ∀ (cur : Int) (ids : List Int),
    (ids.filter (· != -1)).Sublist used →
    (go used cur ids).Nodup
  | _, [], _ => by simp [go]
  | cur, id :: rest, hs => by
    unfold go
    by_cases hid : (id != -1) = true
    · simp only [hid, if_true]
      have hs' : (id :: rest.filter (· != -1)).Sublist used := by simpa [List.filter_cons, hid] using hs
      have hrest : (rest.filter (· != -1)).Sublist used := (List.sublist_cons_self _ _).trans hs'
      refine List.nodup_cons.mpr ⟨?_, go_nodup used hnd cur rest hrest⟩
      intro hmem
      have hu : ∀ x ∈ rest, x ≠ -1 → used.contains x = true := fun x hx hne => by
        have : x ∈ rest.filter (· != -1) := by simp [hx, hne]
        simpa using hrest.subset this
      have hnd' : (id :: rest.filter (· != -1)).Nodup := hnd.sublist hs'
      have hnot : id ∉ rest.filter (· != -1) := (List.nodup_cons.mp hnd').1
      -- id is explicit: it can only reappear as an explicit element of rest, or as a fresh one (not in used)
      have hidu : used.contains id = true := by simpa using hs'.subset (by simp)
      -- walk: membership in go implies explicit-in-rest or fresh
      have key : ∀ (c : Int) (l : List Int), (∀ x ∈ l, x ≠ -1 → used.contains x = true) → id ∈ go used c l → id ∈ l.filter (· != -1) := by
        intro c l
        induction l generalizing c with
        | nil => intro _ h; simp [go] at h
        | cons a r ih =>
          intro hu' h
          unfold go at h
          by_cases ha : (a != -1) = true
          · simp only [ha, if_true, List.mem_cons] at h
            rcases h with h | h
            · simp [List.filter_cons, ha, h]
            · have := ih c (fun x hx => hu' x (by simp [hx])) h
              simp [List.filter_cons, ha, this]
          · simp only [ha, Bool.false_eq_true, if_false, List.mem_cons] at h
            rcases h with h | h
            · have := (nextFree_spec used c).2.1; rw [← h, hidu] at this; cases this
            · have := ih _ (fun x hx => hu' x (by simp [hx])) h
              simp [List.filter_cons, ha, this]
      exact hnot (key cur rest hu hmem)
    · simp only [hid, Bool.false_eq_true, if_false]
      have hs' : (rest.filter (· != -1)).Sublist used := by simpa [List.filter_cons, hid] using hs
      refine List.nodup_cons.mpr ⟨?_, go_nodup used hnd _ rest hs'⟩
      intro hmem
      have hu : ∀ x ∈ rest, x ≠ -1 → used.contains x = true := fun x hx hne => by
        have : x ∈ rest.filter (· != -1) := by simp [hx, hne]
        simpa using hs'.subset this
      rcases go_members used (nextFree used cur) rest hu _ hmem with h' | h'
      · have := (nextFree_spec used cur).2.1; rw [this] at h'; cases h'
      · omega

/-- Every metadata definition ends up with a unique ID. -/
theorem assigned_ids_unique (ids r : List Int) (h : assignMd ids = .ok r) : r.Nodup := by
  unfold assignMd at h
  by_cases hd : hasDup (ids.filter (· != -1)) = true
  · simp [hd] at h
  · simp only [hd, if_false] at h
    injection h with h
    rw [← h]
    exact go_nodup _ ((hasDup_false_iff_nodup _).mp (by simpa using hd)) (-1) ids (List.Sublist.refl _)

theorem go_all_explicit (used : List Int) : ∀ (cur : Int) (l : List Int), (∀ x ∈ l, x ≠ -1) → go used cur l = l
  | _, [], _ => by simp [go]
  | cur, a :: r, h => by
    unfold go
    have ha : (a != -1) = true := by simpa using h a (by simp)
    simp only [ha, if_true]
    rw [go_all_explicit used cur r (fun x hx => h x (by simp [hx]))]

/-- Assigning IDs to an already numbered module changes nothing. -/
theorem assign_idempotent (ids r : List Int) (h : assignMd ids = .ok r) : assignMd r = .ok r := by
  have hnd := assigned_ids_unique ids r h
  unfold assignMd at h
  by_cases hd : hasDup (ids.filter (· != -1)) = true
  · simp [hd] at h
  · simp only [hd, if_false] at h
    injection h with h
    have hno : ∀ y ∈ r, y ≠ -1 := by
      rw [← h]
      apply go_no_unassigned _ (-1) (by omega) ids
      · intro x hx hne; simp [hx, hne]
      · simp
    have hf : r.filter (· != -1) = r := by
      rw [List.filter_eq_self]; intro x hx; simpa using hno x hx
    unfold assignMd
    simp only [hf]
    rw [(hasDup_false_iff_nodup r).mpr hnd]
    simp only [Bool.false_eq_true, if_false]
    rw [go_all_explicit r (-1) r hno]

/-- the first unnumbered node receives the smallest unused ID (non-vacuity + the "smallest unused" clause) -/
example : assignMd [3, -1, 0, -1, 1, -1] = .ok [3, 2, 0, 4, 1, 5] := by
  simp [assignMd, hasDup, go, nextFree]

end Llir.Props.C17
