import LlirProofs.ResolveLemmas
import LlirProofs.Props.C20
/-! # C12 — Translation is deterministic (property theorems only)

`order` stands for the order in which Go's map iteration makes the translator visit the entities. -/
namespace Llir.Props.C12
open Llir Llir.Resolve

/-- Whether an input is accepted or rejected does not depend on the map-iteration order. -/
theorem acceptance_order_independent (ents o₁ o₂ : List Ent) (h : ∀ e, e ∈ o₁ ↔ e ∈ o₂) :
    (translate ents o₁).isOk = (translate ents o₂).isOk := by
  have key : ∀ o o' : List Ent, (∀ e, e ∈ o ↔ e ∈ o') → (translate ents o).isOk = true → (translate ents o').isOk = true := by
    intro o o' hh hok
    have := (translate_isOk_iff ents o).mp hok
    exact (translate_isOk_iff ents o').mpr ⟨this.1, fun e he => this.2 e ((hh e).mpr he)⟩
  cases h1 : (translate ents o₁).isOk with
  | true => exact (key o₁ o₂ h h1).symm
  | false =>
    cases h2 : (translate ents o₂).isOk with
    | false => rfl
    | true => rw [key o₂ o₁ (fun e => (h e).symm) h2] at h1; cases h1

/-- When accepted, the resolved module (every reference edge) is the same for every order. -/
theorem result_order_independent (ents o₁ o₂ : List Ent) (r₁ r₂ : Resolved)
    (h₁ : translate ents o₁ = .ok r₁) (h₂ : translate ents o₂ = .ok r₂) : r₁.edges = r₂.edges := by
  have e1 : ∀ (o : List Ent) (r : Resolved), translate ents o = .ok r →
      r.edges = (List.range ents.length).map fun i =>
        match ents[i]? with
        | some e => (i, e.refs.map fun r => (r.1, r.2, lookup ents r.1.space r.2))
        | none => (i, []) := by
    intro o r h
    unfold translate at h
    cases hd : dupErr ents with
    | some e => simp [hd] at h
    | none =>
      simp only [hd] at h
      cases hf : o.findSome? (entErr ents) with
      | some e => simp [hf] at h
      | none => simp only [hf] at h; injection h with h; subst h; rfl
  rw [e1 o₁ r₁ h₁, e1 o₂ r₂ h₂]

/-- The printed order of type definitions and comdats does not depend on the order in which the
    names come out of the translator's maps (unique sorted permutation, C20). -/
theorem sorted_lists_order_independent (l₁ l₂ : List Bytes) (h : l₁.Perm l₂) :
    Natsort.sort l₁ = Natsort.sort l₂ := C20.sort_perm_invariant l₁ l₂ h

end Llir.Props.C12
