import LlirProofs.MetaMain
/-! # C20 / C12 — canonical, input-order-independent order of definitions: metadata definitions (M-Meta) -/
namespace Llir.Props.C20
open Llir Llir.Meta

theorem sorted_ext : ∀ (l₁ l₂ : List Def), sortedIds l₁ = true → sortedIds l₂ = true → (∀ x, x ∈ l₁ ↔ x ∈ l₂) → l₁ = l₂
  | [], [], _, _, _ => rfl
  | [], b :: r₂, _, _, h => by have := (h b).mpr (by simp); simp at this
  | a :: r₁, [], _, _, h => by have := (h a).mp (by simp); simp at this
  | a :: r₁, b :: r₂, h₁, h₂, h => by
    have lt₁ := sortedIds_lt a r₁ h₁
    have lt₂ := sortedIds_lt b r₂ h₂
    have hab : a = b := by
      have ha := (h a).mp (by simp)
      have hb := (h b).mpr (by simp)
      simp only [List.mem_cons] at ha hb
      rcases ha with ha | ha
      · exact ha
      · rcases hb with hb | hb
        · exact hb.symm
        · have := lt₂ a ha; have := lt₁ b hb; omega
    subst hab
    congr 1
    apply sorted_ext r₁ r₂ (sortedIds_tail a r₁ h₁) (sortedIds_tail a r₂ h₂)
    intro x
    constructor
    · intro hx
      have := (h x).mp (by simp [hx])
      simp only [List.mem_cons] at this
      rcases this with e | e
      · subst e; have := lt₁ x hx; omega
      · exact e
    · intro hx
      have := (h x).mpr (by simp [hx])
      simp only [List.mem_cons] at this
      rcases this with e | e
      · subst e; have := lt₂ x hx; omega
      · exact e

theorem hasDupN_false_iff : ∀ (l : List Nat), hasDupN l = false ↔ l.Nodup
  | [] => by simp [hasDupN]
  | x :: xs => by simp [hasDupN, hasDupN_false_iff xs]

theorem hasDupN_perm (l₁ l₂ : List Nat) (hp : l₁.Perm l₂) : hasDupN l₁ = hasDupN l₂ := by
  have h : hasDupN l₁ = false ↔ hasDupN l₂ = false := by rw [hasDupN_false_iff, hasDupN_false_iff]; exact hp.nodup_iff
  cases h1 : hasDupN l₁ <;> cases h2 : hasDupN l₂ <;> simp_all

/-- **the numbered definitions come out in ID order whatever order the text lists them in**: two texts whose definition lines are permutations of
    each other (the named metadata lines in the same order) are translated to the same section, or are both rejected -/
theorem meta_defs_order_independent (rs₁ rs₂ : List Raw) (hp : (rawDefs rs₁).Perm (rawDefs rs₂)) (hn : rawNamed rs₁ = rawNamed rs₂) :
    (match translate rs₁, translate rs₂ with
     | .ok s₁, .ok s₂ => s₁.defs = s₂.defs ∧ s₁.named = s₂.named
     | .error, .error => True
     | _, _ => False) := by
  have hids : ((rawDefs rs₁).map (·.id)).Perm ((rawDefs rs₂).map (·.id)) := hp.map _
  have hdup := hasDupN_perm _ _ hids
  have hrefs : ((rawDefs rs₁).flatMap (fun d => fieldsRefs d.fields) ++ (rawNamed rs₂).flatMap (·.ids)).all (fun n => ((rawDefs rs₁).map (·.id)).contains n)
      = ((rawDefs rs₂).flatMap (fun d => fieldsRefs d.fields) ++ (rawNamed rs₂).flatMap (·.ids)).all (fun n => ((rawDefs rs₂).map (·.id)).contains n) := by
    apply Bool.eq_iff_iff.mpr
    simp only [List.all_eq_true, List.mem_append, List.mem_flatMap, List.contains_eq_any_beq, List.any_eq_true, beq_iff_eq]
    constructor
    · intro h n hx
      have hx' : (∃ a ∈ rawDefs rs₁, n ∈ fieldsRefs a.fields) ∨ ∃ a ∈ rawNamed rs₂, n ∈ a.ids := by
        rcases hx with ⟨a, ha, hk⟩ | hx
        · exact Or.inl ⟨a, hp.mem_iff.mpr ha, hk⟩
        · exact Or.inr hx
      obtain ⟨y, hy, he⟩ := h n hx'
      exact ⟨y, hids.mem_iff.mp hy, he⟩
    · intro h n hx
      have hx' : (∃ a ∈ rawDefs rs₂, n ∈ fieldsRefs a.fields) ∨ ∃ a ∈ rawNamed rs₂, n ∈ a.ids := by
        rcases hx with ⟨a, ha, hk⟩ | hx
        · exact Or.inl ⟨a, hp.mem_iff.mp ha, hk⟩
        · exact Or.inr hx
      obtain ⟨y, hy, he⟩ := h n hx'
      exact ⟨y, hids.mem_iff.mpr hy, he⟩
  have t₁ : translate rs₁ = (if hasDupN ((rawDefs rs₂).map (·.id)) then .error
      else if !(((rawDefs rs₂).flatMap (fun d => fieldsRefs d.fields) ++ (rawNamed rs₂).flatMap (·.ids)).all (fun n => ((rawDefs rs₂).map (·.id)).contains n)) then .error
      else .ok ⟨sortNamed (mergeNamed (rawNamed rs₂)), sortDefs (rawDefs rs₁)⟩) := by
    simp only [translate, hn, hdup, hrefs]
  have t₂ : translate rs₂ = (if hasDupN ((rawDefs rs₂).map (·.id)) then .error
      else if !(((rawDefs rs₂).flatMap (fun d => fieldsRefs d.fields) ++ (rawNamed rs₂).flatMap (·.ids)).all (fun n => ((rawDefs rs₂).map (·.id)).contains n)) then .error
      else .ok ⟨sortNamed (mergeNamed (rawNamed rs₂)), sortDefs (rawDefs rs₂)⟩) := by
    simp only [translate]
  rw [t₁, t₂]
  generalize hX : (((rawDefs rs₂).flatMap (fun d => fieldsRefs d.fields) ++ (rawNamed rs₂).flatMap (·.ids)).all (fun n => ((rawDefs rs₂).map (·.id)).contains n)) = X
  cases hdv : hasDupN ((rawDefs rs₂).map (·.id))
  · cases X
    · simp
    · simp only [Bool.false_eq_true, if_false, Bool.not_true]
      refine ⟨?_, trivial⟩
      have hd1 : hasDupN ((rawDefs rs₁).map (·.id)) = false := by rw [hdup]; exact hdv
      exact sorted_ext _ _ (sortDefs_sortedIds _ hd1) (sortDefs_sortedIds _ hdv)
        (fun x => by rw [sortDefs_mem, sortDefs_mem]; exact hp.mem_iff)
  · simp

end Llir.Props.C20
