import LlirProofs.TypesEqual
import LlirProofs.TyParseMain
/-! # C16 — Type equality is a structural equivalence matching LLVM type identity (property theorems only)

Universe: type names unique, only struct types named — an identified struct is the leaf `named n`.
`equal` is the transliteration of `Type.Equal` (pointers compare their printed strings). Termination
on recursive types is by construction: `equal` and `tyString` are structurally recursive and never
look at the body of a named type. -/
namespace Llir.Props.C16
open Llir Llir.Types

theorem equal_reflexive (t : Ty) : equal t t = true := equal_refl t
theorem equal_symmetric (t u : Ty) : equal t u = equal u t := equal_symm t u
theorem equal_transitive (a b c : Ty) (h₁ : equal a b = true) (h₂ : equal b c = true) : equal a c = true :=
  equal_trans a b c h₁ h₂

/-- identified structs are identified by name only -/
theorem named_by_name (n m : Bytes) : equal (.named n) (.named m) = true ↔ n = m := by
  simp [equal]

/-- a named struct never equals a literal struct, whatever the literal's fields -/
theorem named_ne_literal (n : Bytes) (p : Bool) (fs : TyList) :
    equal (.named n) (.struct p fs) = false ∧ equal (.struct p fs) (.named n) = false := by
  simp [equal]

/-- pointers are equal to nothing but pointers -/
theorem ptr_only_equals_ptr (e : Ty) (as : Nat) (u : Ty) (h : equal (.ptr e as) u = true) : isPtr u = true :=
  (inv_ptr e as u h).2

/-- **The type printer is injective** (the fact `PointerType.Equal`, which compares printed strings,
    silently relies on): two types that print the same text are the same type. Proved by exhibiting a
    reader (`LlirModel/TyParse.lean`) and showing it inverts the printer on every type. -/
theorem printer_injective : StrInj := TyParse.tyString_injective

/-- **Print → parse round trip of types**: the reader returns exactly the type that was printed — every
    kind, width, float kind, length, scalability, address space, packedness, variadicity, name (every
    byte) and nesting depth. -/
theorem print_parse_roundtrip (t : Ty) : TyParse.parse (tyString t) = some t := TyParse.parse_tyString t

/-- **Full statement.** `Equal` holds exactly for structurally identical types, so any difference in
    kind, width, float kind, length, scalability, element/field/parameter/return type, address space,
    packedness or variadicity is distinguished — pointers included. -/
theorem equal_iff_eq (t u : Ty) : equal t u = true ↔ t = u :=
  ⟨eq_of_equal printer_injective t u, fun h => h ▸ equal_refl t⟩

/-- `Equal` agrees with equality of the printed text (LLVM's type identity on uniqued types) -/
theorem equal_iff_same_text (t u : Ty) : equal t u = true ↔ tyString t = tyString u :=
  ⟨fun h => by rw [(equal_iff_eq t u).mp h], fun h => (equal_iff_eq t u).mpr (printer_injective t u h)⟩

/-- concrete distinctions (non-vacuity): scalability, address space, packedness, variadicity -/
example : equal (.vec true 4 (.int 32)) (.vec false 4 (.int 32)) = false := by simp [equal]
example : equal (.struct true (.cons (.int 8) .nil)) (.struct false (.cons (.int 8) .nil)) = false := by simp [equal]
example : equal (.func .void .nil true) (.func .void .nil false) = false := by simp [equal]

end Llir.Props.C16
