import LlirModel.Numbering
import LlirModel.Core3
/-! # C08 — Unnamed values are numbered exactly as LLVM numbers them (property theorems only) -/
namespace Llir.Props.C08
open Llir Llir.Numbering

/-- Whenever numbering succeeds, the result is LLVM's numbering: parameters first, then per block the
    block and each non-void result, void slots and named values consuming no number. -/
theorem result_is_llvm_numbering : ∀ (f : List Slot) (next : Int) (g : List Slot),
    assignFrom next f = .ok g → g = LLVMSpec.numberFrom next f
  | [], _, g, h => by simp [assignFrom] at h; simp [LLVMSpec.numberFrom, h]
  | s :: rest, next, g, h => by
    unfold assignFrom at h
    unfold LLVMSpec.numberFrom
    by_cases hs : (!s.counts || s.named) = true
    · simp only [hs, if_true] at h ⊢
      cases hr : assignFrom next rest with
      | error => simp [hr] at h
      | ok r =>
        simp [hr] at h
        rw [← h, result_is_llvm_numbering rest next r hr]
    · simp only [hs, if_false] at h ⊢
      by_cases he : (s.id != 0 && next != s.id) = true
      · simp [he] at h
      · simp only [he, if_false] at h
        cases hr : assignFrom (next + 1) rest with
        | error => simp [hr] at h
        | ok r =>
          simp [hr] at h
          rw [← h, result_is_llvm_numbering rest (next + 1) r hr]
          simp

/-- A function none of whose unnamed values carries an ID yet (constructed IR, or text with implicit
    numbering) is always numbered, and as LLVM numbers it. -/
theorem fresh_is_numbered : ∀ (f : List Slot) (next : Int),
    (∀ s ∈ f, s.counts = true → s.named = false → s.id = 0) →
    assignFrom next f = .ok (LLVMSpec.numberFrom next f)
  | [], _, _ => by simp [assignFrom, LLVMSpec.numberFrom]
  | s :: rest, next, h => by
    unfold assignFrom LLVMSpec.numberFrom
    have hrest : ∀ n, assignFrom n rest = .ok (LLVMSpec.numberFrom n rest) :=
      fun n => fresh_is_numbered rest n (fun x hx => h x (by simp [hx]))
    by_cases hs : (!s.counts || s.named) = true
    · simp [hs, hrest]
    · simp only [hs, if_false]
      have hc : s.counts = true ∧ s.named = false := by
        cases hcs : s.counts <;> cases hn : s.named <;> simp_all
      have hid := h s (by simp) hc.1 hc.2
      simp [hid, hrest]

/-- Every numbering LLVM accepts (explicit IDs equal to LLVM's own numbering) is accepted, unchanged. -/
theorem llvm_numbering_accepted : ∀ (f : List Slot) (next : Int),
    assignFrom next (LLVMSpec.numberFrom next f) = .ok (LLVMSpec.numberFrom next f)
  | [], _ => by simp [assignFrom, LLVMSpec.numberFrom]
  | s :: rest, next => by
    unfold LLVMSpec.numberFrom
    by_cases hs : (!s.counts || s.named) = true
    · simp only [hs, if_true]
      unfold assignFrom
      simp [hs, llvm_numbering_accepted rest next]
    · simp only [hs, if_false]
      unfold assignFrom
      have : (!({ s with id := next } : Slot).counts || ({ s with id := next } : Slot).named) = false := by
        simpa using hs
      simp [this, llvm_numbering_accepted rest (next + 1)]

/-- Numbering an already numbered function again changes nothing. -/
theorem idempotent (f g : List Slot) (next : Int) (h : assignFrom next f = .ok g) :
    assignFrom next g = .ok g := by
  rw [result_is_llvm_numbering f next g h]
  exact llvm_numbering_accepted f next

/-- The PARSER (asm/local.go createLocals, with the explicit-%0 check) accepts a function exactly when every explicit ID written on an unnamed
    value-producing slot is the number LLVM gives that slot, and then the numbering is LLVM's. In particular a second definition written `%0`
    is an error, not a silent renumbering (it used to be: see known_findings.json, fixed). -/
theorem parser_accepts_exactly_llvm : ∀ (src : List SrcSlot) (next : Int),
    parseAssignFrom next src =
      if LLVMSpec.agreesFrom next src then .ok (LLVMSpec.numberFrom next (src.map SrcSlot.toSlot)) else .error
  | [], next => by simp [parseAssignFrom, assignFrom, zeroKept, LLVMSpec.agreesFrom, LLVMSpec.numberFrom]
  | s :: rest, next => by
    have ih := parser_accepts_exactly_llvm rest
    unfold parseAssignFrom at ih ⊢
    simp only [List.map_cons]
    unfold assignFrom LLVMSpec.agreesFrom LLVMSpec.numberFrom
    by_cases hs : (!s.counts || s.named) = true
    · have hs' : (!(s.toSlot).counts || (s.toSlot).named) = true := by simpa [SrcSlot.toSlot] using hs
      simp only [hs, hs', if_true]
      have h0 : (!(s.written == some 0 && !s.named) || (s.toSlot).id == 0) = true := by
        cases hw : s.written <;> simp [SrcSlot.toSlot, hw]
        omega
      have := ih next
      cases hr : assignFrom next (rest.map SrcSlot.toSlot) with
      | error => simp only [hr] at this ⊢; split at this <;> simp_all
      | ok r =>
        simp only [hr] at this ⊢
        simp only [zeroKept, h0, Bool.true_and]
        by_cases hz : zeroKept rest r = true <;> by_cases ha : LLVMSpec.agreesFrom next rest = true <;> simp_all
    · have hs' : (!(s.toSlot).counts || (s.toSlot).named) = false := by simpa [SrcSlot.toSlot] using hs
      have hn : s.named = false := by cases hn : s.named <;> simp_all
      simp only [hs, hs']
      have := ih (next + 1)
      cases hw : s.written with
      | none =>
        simp only [SrcSlot.toSlot, hw, Option.getD_none]
        cases hr : assignFrom (next + 1) (rest.map SrcSlot.toSlot) with
        | error => simp only [hr] at this ⊢; split at this <;> simp_all
        | ok r =>
          simp only [hr] at this ⊢
          by_cases hz : zeroKept rest r = true <;> by_cases ha : LLVMSpec.agreesFrom (next + 1) rest = true <;>
            simp_all [zeroKept]
      | some k =>
        simp only [SrcSlot.toSlot, hw, Option.getD_some]
        by_cases hk : k = 0
        · subst hk
          cases hr : assignFrom (next + 1) (rest.map SrcSlot.toSlot) with
          | error => simp only [hr] at this ⊢; split at this <;> simp_all
          | ok r =>
            simp only [hr] at this ⊢
            by_cases hz : zeroKept rest r = true <;> by_cases ha : LLVMSpec.agreesFrom (next + 1) rest = true <;>
              by_cases h0 : next = 0 <;> simp_all [zeroKept] <;> omega
        · by_cases hnk : next = k
          · subst hnk
            cases hr : assignFrom (next + 1) (rest.map SrcSlot.toSlot) with
            | error => simp only [hr] at this ⊢; split at this <;> simp_all
            | ok r =>
              simp only [hr] at this ⊢
              by_cases hz : zeroKept rest r = true <;> by_cases ha : LLVMSpec.agreesFrom (next + 1) rest = true <;>
                simp_all [zeroKept]
          · have : (some k == some next) = false := by simp; omega
            simp [hk, hnk, this]

/-- the same as an equivalence for whole functions -/
theorem parser_accepts_iff (src : List SrcSlot) (l : List Slot) :
    parseAssign src = .ok l ↔ (LLVMSpec.agreesFrom 0 src = true ∧ l = LLVMSpec.numbering (src.map SrcSlot.toSlot)) := by
  unfold parseAssign LLVMSpec.numbering
  rw [parser_accepts_exactly_llvm]
  by_cases h : LLVMSpec.agreesFrom 0 src = true <;> simp [h, eq_comm]

/-- the witness that used to be accepted (and renumbered %1): two parameters both written `%0`; and a value-yielding terminator written `%0`
    after six numbered values -/
example : parseAssign [⟨false, some 0, true⟩, ⟨false, some 0, true⟩] = .error := by decide
example : parseAssign [⟨false, some 0, true⟩, ⟨false, none, true⟩, ⟨false, some 2, true⟩, ⟨false, some 0, true⟩] = .error := by decide
/-- non-vacuity: a fully explicit LLVM numbering with named and void slots in between is accepted -/
example : parseAssign [⟨false, some 0, true⟩, ⟨true, none, true⟩, ⟨false, none, false⟩, ⟨false, some 1, true⟩, ⟨false, none, true⟩] =
    .ok [⟨false, 0, true⟩, ⟨true, 0, true⟩, ⟨false, 0, false⟩, ⟨false, 1, true⟩, ⟨false, 2, true⟩] := by decide

/-- **written IDs of unnamed GLOBAL entities** (asm/module.go): the parser accepts a sequence of global definitions exactly when every written `@k` is
    the number LLVM gives the entity (unnamed entities of all four kinds count 0, 1, 2, … in the order they are defined), and then it numbers them as LLVM
    does. A second `@0`, a first `@1`, a gap: errors — none of them is renumbered (they used to be: known_findings.json, fixed) -/
theorem globals_accept_exactly_llvm : ∀ (src : List SrcSlot) (next : Int), (∀ s ∈ src, s.counts = true) →
    indexGlobalsFrom next src =
      if LLVMSpec.agreesFrom next src then .ok (LLVMSpec.numberFrom next (src.map SrcSlot.toSlot)) else .error
  | [], next, _ => by simp [indexGlobalsFrom, LLVMSpec.agreesFrom, LLVMSpec.numberFrom]
  | s :: rest, next, hc => by
    have hcs : s.counts = true := hc s (by simp)
    have ih := fun n => globals_accept_exactly_llvm rest n (fun x hx => hc x (by simp [hx]))
    obtain ⟨nm, wr, ct⟩ := s
    simp only at hcs
    subst hcs
    cases nm with
    | true =>
      simp only [indexGlobalsFrom, LLVMSpec.agreesFrom, LLVMSpec.numberFrom, List.map_cons, SrcSlot.toSlot, if_true, Bool.not_true, Bool.false_or, ih next]
      by_cases hA : LLVMSpec.agreesFrom next rest = true <;> simp [hA]
    | false =>
      simp only [indexGlobalsFrom, LLVMSpec.agreesFrom, LLVMSpec.numberFrom, List.map_cons, SrcSlot.toSlot, Bool.false_eq_true, if_false, Bool.not_true,
        Bool.or_self, ih (next + 1)]
      by_cases hw : (wr == none || wr == some next) = true
      · simp only [hw, if_true, Bool.true_and]
        by_cases hA : LLVMSpec.agreesFrom (next + 1) rest = true <;> simp [hA]
      · have hw' : (wr == none || wr == some next) = false := by
          cases h : (wr == none || wr == some next) with
          | false => rfl
          | true => exact absurd h hw
        simp only [hw', Bool.false_eq_true, if_false, Bool.false_and]

example : indexGlobals [⟨false, some 0, true⟩, ⟨false, some 0, true⟩] = .error := by decide
example : indexGlobals [⟨false, some 5, true⟩] = .error := by decide
/-- non-vacuity: written IDs, the empty name `@""` (no written ID) and named entities in one module -/
example : indexGlobals [⟨false, some 0, true⟩, ⟨true, none, true⟩, ⟨false, none, true⟩, ⟨false, some 2, true⟩] =
    .ok [⟨false, 0, true⟩, ⟨true, 0, true⟩, ⟨false, 1, true⟩, ⟨false, 2, true⟩] := by decide

theorem numberFrom_length : ∀ (f : List Slot) (n : Int), (LLVMSpec.numberFrom n f).length = f.length
  | [], _ => rfl
  | s :: r, n => by unfold LLVMSpec.numberFrom; split <;> simp [numberFrom_length r]

/-- void calls / invokes / callbrs, stores, fences and named values are left untouched and consume no number -/
theorem void_and_named_untouched (s : Slot) (rest : List Slot) (next : Int) (h : s.counts = false ∨ s.named = true) :
    LLVMSpec.numberFrom next (s :: rest) = s :: LLVMSpec.numberFrom next rest := by
  rw [LLVMSpec.numberFrom]
  rcases h with h | h <;> simp [h]

/-! ## unnamed globals -/

/-- Printing never fails on a module the parser produced, whatever the textual interleaving of
    named and unnamed global variables, aliases, ifuncs and functions; and the IDs printed are
    LLVM's numbering of the printed order. -/
theorem print_parsed_never_fails (ents : List GEnt) :
    printParsed ents = .ok (translatedGlobals ents) := by
  unfold printParsed translatedGlobals assignIDs
  exact llvm_numbering_accepted _ 0

/-- the witness that used to fail: an unnamed function textually before an unnamed global variable -/
example : printParsed [⟨.func, false⟩, ⟨.global, false⟩] = .ok [⟨false, 0, true⟩, ⟨false, 1, true⟩] := by decide

/-! ## M-Core-3: the numbering rule on real function bodies -/

/-- the translation of a function body succeeds only when its explicit IDs (parameters, block labels, instruction and terminator results, in
    LLVM's order) are the numbers LLVM gives them -/
theorem core3_accepts_only_llvm_numbering_in (ge : Core3.GEnv) (f g : Core3.Func) (h : Core3.translateIn ge f = some g) :
    LLVMSpec.agreesFrom 0 (Core3.slotsOf f) = true := by
  have h := (Core3.translateIn_core _ _ _ h).1
  unfold Core3.translateCore at h
  have hp := parser_accepts_exactly_llvm (Core3.slotsOf f) 0
  unfold parseAssign at h
  rw [hp] at h
  by_cases ha : LLVMSpec.agreesFrom 0 (Core3.slotsOf f) = true
  · exact ha
  · simp [ha] at h

theorem core3_accepts_only_llvm_numbering (f g : Core3.Func) (h : Core3.translate f = some g) :
    LLVMSpec.agreesFrom 0 (Core3.slotsOf f) = true := core3_accepts_only_llvm_numbering_in _ f g (Core3.translate_some f g h).1

end Llir.Props.C08
