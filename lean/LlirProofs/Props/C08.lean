import LlirModel.Numbering
/-! # C08 — Unnamed values are numbered exactly as LLVM numbers them (property theorems only) -/
namespace Llir.Props.C08
open Llir Llir.Numbering

/-- Whenever numbering succeeds, the result is LLVM's numbering: parameters first, then per block the
    block and each non-void result, void slots and named values consuming no number. -/
theorem result_is_llvm_numbering : ∀ (f : List Slot) (next : Int) (g : List Slot),
    assignFrom next f = .ok g → g = LLVMSpec.numberFrom next f
  | [], _, g, h => by simp [assignFrom] at h; simp [LLVMSpec.numberFrom, h]
  | s :: rest, next, g, h => by
    unfold assignFrom at h
    unfold LLVMSpec.numberFrom
    by_cases hs : (!s.counts || s.named) = true
    · simp only [hs, if_true] at h ⊢
      cases hr : assignFrom next rest with
      | error => simp [hr] at h
      | ok r =>
        simp [hr] at h
        rw [← h, result_is_llvm_numbering rest next r hr]
    · simp only [hs, if_false] at h ⊢
      by_cases he : (s.id != 0 && next != s.id) = true
      · simp [he] at h
      · simp only [he, if_false] at h
        cases hr : assignFrom (next + 1) rest with
        | error => simp [hr] at h
        | ok r =>
          simp [hr] at h
          rw [← h, result_is_llvm_numbering rest (next + 1) r hr]
          simp

/-- A function none of whose unnamed values carries an ID yet (constructed IR, or text with implicit
    numbering) is always numbered, and as LLVM numbers it. -/
theorem fresh_is_numbered : ∀ (f : List Slot) (next : Int),
    (∀ s ∈ f, s.counts = true → s.named = false → s.id = 0) →
    assignFrom next f = .ok (LLVMSpec.numberFrom next f)
  | [], _, _ => by simp [assignFrom, LLVMSpec.numberFrom]
  | s :: rest, next, h => by
    unfold assignFrom LLVMSpec.numberFrom
    have hrest : ∀ n, assignFrom n rest = .ok (LLVMSpec.numberFrom n rest) :=
      fun n => fresh_is_numbered rest n (fun x hx => h x (by simp [hx]))
    by_cases hs : (!s.counts || s.named) = true
    · simp [hs, hrest]
    · simp only [hs, if_false]
      have hc : s.counts = true ∧ s.named = false := by
        cases hcs : s.counts <;> cases hn : s.named <;> simp_all
      have hid := h s (by simp) hc.1 hc.2
      simp [hid, hrest]

/-- Every numbering LLVM accepts (explicit IDs equal to LLVM's own numbering) is accepted, unchanged. -/
theorem llvm_numbering_accepted : ∀ (f : List Slot) (next : Int),
    assignFrom next (LLVMSpec.numberFrom next f) = .ok (LLVMSpec.numberFrom next f)
  | [], _ => by simp [assignFrom, LLVMSpec.numberFrom]
  | s :: rest, next => by
    unfold LLVMSpec.numberFrom
    by_cases hs : (!s.counts || s.named) = true
    · simp only [hs, if_true]
      unfold assignFrom
      simp [hs, llvm_numbering_accepted rest next]
    · simp only [hs, if_false]
      unfold assignFrom
      have : (!({ s with id := next } : Slot).counts || ({ s with id := next } : Slot).named) = false := by
        simpa using hs
      simp [this, llvm_numbering_accepted rest (next + 1)]

/-- Numbering an already numbered function again changes nothing. -/
theorem idempotent (f g : List Slot) (next : Int) (h : assignFrom next f = .ok g) :
    assignFrom next g = .ok g := by
  rw [result_is_llvm_numbering f next g h]
  exact llvm_numbering_accepted f next

theorem numberFrom_length : ∀ (f : List Slot) (n : Int), (LLVMSpec.numberFrom n f).length = f.length
  | [], _ => rfl
  | s :: r, n => by unfold LLVMSpec.numberFrom; split <;> simp [numberFrom_length r]

/-- void calls / invokes / callbrs, stores, fences and named values are left untouched and consume no number -/
theorem void_and_named_untouched (s : Slot) (rest : List Slot) (next : Int) (h : s.counts = false ∨ s.named = true) :
    LLVMSpec.numberFrom next (s :: rest) = s :: LLVMSpec.numberFrom next rest := by
  rw [LLVMSpec.numberFrom]
  rcases h with h | h <;> simp [h]

/-! ## unnamed globals -/

/-- Printing never fails on a module the parser produced, whatever the textual interleaving of
    named and unnamed global variables, aliases, ifuncs and functions; and the IDs printed are
    LLVM's numbering of the printed order. -/
theorem print_parsed_never_fails (ents : List GEnt) :
    printParsed ents = .ok (translatedGlobals ents) := by
  unfold printParsed translatedGlobals assignIDs
  exact llvm_numbering_accepted _ 0

/-- the witness that used to fail: an unnamed function textually before an unnamed global variable -/
example : printParsed [⟨.func, false⟩, ⟨.global, false⟩] = .ok [⟨false, 0, true⟩, ⟨false, 1, true⟩] := by decide

end Llir.Props.C08
