import LlirProofs.Props.C01DI
/-! C17 — distinctness of the specialised metadata nodes: for EVERY text the reader accepts (no hypothesis on the text), the node is distinct exactly when
    the text starts with `distinct `, and the translation keeps kind and distinctness; so printing a parsed node spells `distinct` exactly when the
    input did. -/
namespace Llir.Props.C17
open Llir Llir.DI

theorem di_read_distinct (T : Table) (s : Bytes) (n : Node) (h : readNode T s = some n) : n.distinct = (TyParse.stripPrefix sDistinct s).isSome := by
  unfold readNode at h
  cases hs : TyParse.stripPrefix sDistinct s with
  | none =>
    simp only [hs] at h
    split at h
    · split at h
      · split at h
        · simp at h; rw [← h]; rfl
        · split at h
          · simp at h; rw [← h]; rfl
          · cases h
      · cases h
    · cases h
  | some r =>
    simp only [hs] at h
    split at h
    · split at h
      · split at h
        · simp at h; rw [← h]; rfl
        · split at h
          · simp at h; rw [← h]; rfl
          · cases h
      · cases h
    · cases h

theorem di_translate_keeps_distinct (T : Table) (n m : Node) (h : translate T n = some m) : m.distinct = n.distinct ∧ m.kind = n.kind := by
  simp only [translate] at h
  by_cases hc : translatable (T.getD n.kind default) n.fields = true
  · simp only [hc, if_true, Option.some.injEq] at h; rw [← h]; exact ⟨rfl, rfl⟩
  · simp only [hc, Bool.false_eq_true, if_false] at h; cases h

/-- every accepted node text: the parsed node is distinct exactly when the text says `distinct` -/
theorem di_distinct_preserved (s : Bytes) (m : Node) (h : parse Generated.diTable s = some m) :
    m.distinct = (TyParse.stripPrefix sDistinct s).isSome := by
  unfold parse at h
  cases hr : readNode Generated.diTable s with
  | none => rw [hr] at h; cases h
  | some n =>
    rw [hr] at h
    simp only [Option.bind_some] at h
    rw [(di_translate_keeps_distinct _ n m h).1]
    exact di_read_distinct _ s n hr

end Llir.Props.C17
