import LlirModel.Conc
/-! # C13 — A module can be printed from many goroutines at once (property theorems only)

Protocol model of LlirModel/Conc.lean; the locking/writing discipline is regenerated from the source. -/
namespace Llir.Props.C13
open Llir Llir.Conc Llir.Generated

/-- the discipline the theorem needs, decided on the facts extracted from the CURRENT source:
    the three ID-assigning functions take the lock first and release it by defer, the local and global
    passes write an ID only when it changes, metadata IDs are written only for unassigned nodes,
    no other function of package ir calls SetID, and every Type()/Succs() cache write is guarded. -/
theorem source_discipline :
    Facts.AssignIDs_locked = true ∧ Facts.AssignGlobalIDs_locked = true ∧ Facts.AssignMetadataIDs_locked = true ∧
    Facts.AssignIDs_setIDGuarded = Facts.AssignIDs_setIDCalls ∧
    Facts.AssignGlobalIDs_setIDGuarded = Facts.AssignGlobalIDs_setIDCalls ∧
    Facts.otherSetIDCallers = 0 ∧ Facts.cacheWritersUnguarded = 0 := by decide

theorem policy_is_conditional : alwaysWriteFromFacts = false := by decide

/-- No function of the printing packages (ir, ir/types, ir/constant, ir/metadata, ir/enum, ir/value, internal/enc,
    internal/natsort, internal/gep) writes a package-level variable (assignment, index or field assignment, increment or decrement): the
    printers, which run unlocked on any number of goroutines, share no global mutable state such as memo tables.
    The fact is REGENERATED from the source on every run (go/ast). -/
theorem no_package_level_writes : Facts.globalWrites = [] := by decide

/-- Race freedom for ANY number of concurrent print calls, ANY interleaving and BOTH start states
    (never printed / already printed): with conditional writes every conflicting pair of accesses is
    ordered by happens-before. -/
theorem race_free (initNumbered : Bool) (tr : List Ev) (hwf : WF tr) (i j : Nat)
    (hc : Conflict false initNumbered tr i j) : HB tr i j ∨ HB tr j i := by
  obtain ⟨⟨⟨ci, hi⟩, hw⟩, a, b, ha, hb, hne⟩ := hc
  rcases hw with hw | ⟨_, hfirst⟩
  · cases hw
  · rw [hi] at ha; injection ha with ha; subst ha
    have hij : i ≠ j := by
      intro h; subst h; rw [hi] at hb; injection hb with hb; subst hb; exact hne rfl
    cases b with
    | cs cj =>
      -- two critical sections: i is the first one, so i < j
      have hlt : i < j := by
        rcases Nat.lt_or_gt_of_ne hij with h | h
        · exact h
        · exact absurd hb (hfirst j h cj)
      left
      exact .edge ⟨hlt, _, _, hi, hb, Or.inr ⟨rfl, rfl⟩⟩
    | u cj l =>
      obtain ⟨k, hkj, hk⟩ := hwf j cj l hb
      have hki : k ≠ i := by
        intro h; subst h; rw [hi] at hk; injection hk with hk; injection hk with hk
        subst hk; exact hne rfl
      have hik : i < k := by
        rcases Nat.lt_or_gt_of_ne hki with h | h
        · exact absurd hk (hfirst k h cj)
        · exact h
      left
      exact .trans (.edge ⟨hik, _, _, hi, hk, Or.inr ⟨rfl, rfl⟩⟩) (.edge ⟨hkj, _, _, hk, hb, Or.inl rfl⟩)

/-- corollary for the code as it is (policy taken from the regenerated facts) -/
theorem race_free_current_source (initNumbered : Bool) (tr : List Ev) (hwf : WF tr) (i j : Nat)
    (hc : Conflict alwaysWriteFromFacts initNumbered tr i j) : HB tr i j ∨ HB tr j i := by
  rw [policy_is_conditional] at hc
  exact race_free initNumbered tr hwf i j hc

/-- every edge goes forward in the run -/
theorem hb_lt (tr : List Ev) (i j : Nat) (h : HB tr i j) : i < j := by
  induction h with
  | edge e => exact e.1
  | trans _ _ ih1 ih2 => omega

/-- Why the write policy matters: with UNCONDITIONAL writes (the code before the fix) the run
    `cs 0; u 0 l; cs 1` has a race — call 1's locked write is unordered with call 0's unlocked read. -/
theorem unconditional_writes_race :
    let tr := [Ev.cs 0, Ev.u 0 7, Ev.cs 1]
    WF tr ∧ Conflict true true tr 2 1 ∧ ¬ HB tr 2 1 ∧ ¬ HB tr 1 2 := by
  intro tr
  refine ⟨?_, ?_, ?_, ?_⟩
  · intro j c l h
    match j, h with
    | 1, h => exact ⟨0, by omega, by simp [tr] at h ⊢; exact h.1.symm ▸ rfl⟩
    | 0, h => simp [tr] at h
    | 2, h => simp [tr] at h
    | n+3, h => simp [tr] at h
  · exact ⟨⟨⟨1, rfl⟩, Or.inl rfl⟩, _, _, rfl, rfl, by decide⟩
  · intro h; have := hb_lt _ _ _ h; omega
  · intro h
    -- any path out of position 1 (an unlocked read of call 0) stays within call 0; position 2 is call 1
    have key : ∀ i j, HB tr i j → i = 1 → False := by
      intro i j h
      induction h with
      | edge e =>
        intro hi; subst hi
        obtain ⟨hlt, a, b, ha, hb, hab⟩ := e
        simp [tr] at ha; subst ha
        rename_i j'
        match j', hlt, hb with
        | 2, _, hb => simp [tr] at hb; subst hb; simp [Ev.call, Ev.isCS] at hab
        | n+3, _, hb => simp [tr] at hb
      | trans h1 _ ih1 _ => intro hi; exact ih1 hi
    exact key 1 2 h rfl

/-- Printing methods do not store into the objects they print (fact REGENERATED from the source on every run; the same table as C14's
    `observers_do_not_store`): the only receiver stores outside setters, constructors, the locked numbering passes and the audited lazily
    filled `Typ` caches are `Succs()` refreshing `Successors` and the byte counter of the private writer. Any other store would be an
    unlocked write racing with concurrent printers — the hypothesis `source_discipline` cannot see (it looks at the numbering passes only). -/
theorem printers_do_not_store :
    Llir.Generated.Facts.observerWrites.all (fun r => (r.2.2.1 == "Succs" && r.2.2.2 == "Successors") || r.2.1 == "fmtWriter") = true := by
  decide +kernel

end Llir.Props.C13
