import LlirProofs.MetaMain
/-! # C17 — metadata IDs are unique and references share node identity: every section the parser accepts (M-Meta) -/
namespace Llir.Props.C17
open Llir Llir.Meta

/-- in every accepted metadata section the definitions are in strictly ascending order of their IDs: no ID is carried by two definitions -/
theorem meta_ids_unique (ls : List Bytes) (s : Sec) (h : parse ls = .ok s) : sortedIds s.defs = true := by
  unfold parse at h
  cases hr : readLines ls with
  | none => simp [hr] at h
  | some rs =>
    simp only [hr] at h
    obtain ⟨hd, _, rfl⟩ := translate_ok rs s h
    exact sortDefs_sortedIds _ hd

theorem sorted_same_id : ∀ (l : List Def), sortedIds l = true → ∀ e ∈ l, ∀ d ∈ l, e.id = d.id → e = d
  | [], _, e, he, _, _, _ => by simp at he
  | x :: r, hs, e, he, d, hd, heq => by
    have hlt := sortedIds_lt x r hs
    simp only [List.mem_cons] at he hd
    rcases he with he | he <;> rcases hd with hd | hd
    · rw [he, hd]
    · subst he; have := hlt d hd; omega
    · subst hd; have := hlt e he; omega
    · exact sorted_same_id r (sortedIds_tail x r hs) e he d hd heq

/-- **references share node identity**: every reference of an accepted section — a field at any depth of any definition, a node of a named
    metadata definition — denotes exactly ONE definition of that section (node identity is the ID: two definitions with the referenced ID are the
    same definition) -/
theorem meta_refs_resolve (ls : List Bytes) (s : Sec) (h : parse ls = .ok s) :
    ∀ n ∈ s.defs.flatMap (fun d => fieldsRefs d.fields) ++ s.named.flatMap (·.ids),
      ∃ d ∈ s.defs, d.id = n ∧ ∀ e ∈ s.defs, e.id = n → e = d := by
  have hsorted := meta_ids_unique ls s h
  unfold parse at h
  cases hr : readLines ls with
  | none => simp [hr] at h
  | some rs =>
    simp only [hr] at h
    obtain ⟨_, hrefs, rfl⟩ := translate_ok rs s h
    intro n hn
    have hn' : n ∈ (rawDefs rs).flatMap (fun d => fieldsRefs d.fields) ++ (rawNamed rs).flatMap (·.ids) := by
      simp only [List.mem_append] at hn ⊢
      rcases hn with hn | hn
      · left
        simp only [List.mem_flatMap] at hn ⊢
        obtain ⟨d, hd, hk⟩ := hn
        exact ⟨d, (sortDefs_mem d _).mp hd, hk⟩
      · right
        exact mergeNamed_ids n _ ((sortNamed_ids n _).mp hn)
    have hc := hrefs n hn'
    simp only [List.contains_eq_any_beq, List.any_map, List.any_eq_true, Function.comp, beq_iff_eq] at hc
    obtain ⟨d, hd, hid⟩ := hc
    refine ⟨d, (sortDefs_mem d _).mpr hd, hid.symm, ?_⟩
    intro e he heq
    exact sorted_same_id _ hsorted e he d ((sortDefs_mem d _).mpr hd) (by omega)

end Llir.Props.C17
