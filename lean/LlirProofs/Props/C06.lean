import LlirModel.Typing
/-! # C06 — Result types agree with LLVM's typing rules, in parser and IR alike (property theorems only)

`resultIR` transliterates the `Type()` methods, `resultAsm` the parser's `newXxxInst` functions,
`LLVMSpec.resultType` is the LangRef rule (trusted transcription). -/
namespace Llir.Props.C06
open Llir Llir.Types Llir.Typing

theorem agg_agrees : ∀ (idx : List Nat) (x t : Ty), LLVMSpec.aggTy x idx = some t → aggregateElemType x idx = .ok t
  | [], x, t, h => by simp [LLVMSpec.aggTy] at h; simp [aggregateElemType, h]
  | i :: is, x, t, h => by
    cases x <;> simp [LLVMSpec.aggTy] at h
    case arr n e => simp [aggregateElemType]; exact agg_agrees is e t h
    case struct p fs =>
      simp only [aggregateElemType]
      cases hf : fs.get? i with
      | none => simp [hf] at h
      | some f => simp [hf] at h; simp; exact agg_agrees is f t h

/-- The type the IR library computes equals LLVM's result type, for every kind and every
    well-typed operand tuple (scalable vectors included). -/
theorem ir_agrees_with_llvm (k : Kind) (ops : List Ty) (t : Ty)
    (hw : LLVMSpec.wellTyped k ops = true) (h : LLVMSpec.resultType k ops = some t) :
    resultIR k ops = .ok t := by
  cases k
  case extractvalue idx =>
    match ops, h with
    | [x], h =>
      cases idx with
      | nil => simp [LLVMSpec.resultType] at h
      | cons i is => simp [LLVMSpec.resultType] at h; simp [resultIR]; exact agg_agrees _ _ _ h
    | [], h => simp [LLVMSpec.resultType] at h
    | _ :: _ :: _, h => simp [LLVMSpec.resultType] at h
  case icmp =>
    match ops, h, hw with
    | [x, y], h, hw =>
      simp [LLVMSpec.resultType] at h; subst h
      cases x <;> simp [LLVMSpec.wellTyped, LLVMSpec.isIntOrPtr] at hw <;> simp [resultIR, cmpResult, LLVMSpec.cmpTy]
    | [], h, _ => simp [LLVMSpec.resultType] at h
    | [_], h, _ => simp [LLVMSpec.resultType] at h
    | _ :: _ :: _ :: _, h, _ => simp [LLVMSpec.resultType] at h
  case fcmp =>
    match ops, h, hw with
    | [x, y], h, hw =>
      simp [LLVMSpec.resultType] at h; subst h
      cases x <;> simp [LLVMSpec.wellTyped, LLVMSpec.isFloat] at hw <;> simp [resultIR, cmpResult, LLVMSpec.cmpTy]
    | [], h, _ => simp [LLVMSpec.resultType] at h
    | [_], h, _ => simp [LLVMSpec.resultType] at h
    | _ :: _ :: _ :: _, h, _ => simp [LLVMSpec.resultType] at h
  case call =>
    match ops, h with
    | [], h => simp [LLVMSpec.resultType] at h
    | c :: rest, h =>
      cases c <;> simp [LLVMSpec.resultType] at h
      case ptr e as =>
        cases e <;> simp at h
        case func r ps v => subst h; simp [resultIR, sigRet]
  case invoke =>
    match ops, h with
    | [], h => simp [LLVMSpec.resultType] at h
    | c :: rest, h =>
      cases c <;> simp [LLVMSpec.resultType] at h
      case ptr e as =>
        cases e <;> simp at h
        case func r ps v => subst h; simp [resultIR, sigRet]
  case callbr =>
    match ops, h with
    | [], h => simp [LLVMSpec.resultType] at h
    | c :: rest, h =>
      cases c <;> simp [LLVMSpec.resultType] at h
      case ptr e as =>
        cases e <;> simp at h
        case func r ps v => subst h; simp [resultIR, sigRet]
  all_goals
    (first
      | (match ops, h with
          | [], h => first | (simp [LLVMSpec.resultType] at h; done) | (simp [LLVMSpec.resultType] at h; subst h; simp [resultIR])
          | [a], h => first | (simp [LLVMSpec.resultType] at h; done) | (simp [LLVMSpec.resultType] at h; subst h; simp [resultIR]) | (cases a <;> simp [LLVMSpec.resultType] at h <;> (try subst h) <;> simp_all [resultIR, sigRet])
          | [a, b], h => first | (simp [LLVMSpec.resultType] at h; done) | (simp [LLVMSpec.resultType] at h; subst h; simp [resultIR]) | (cases a <;> simp [LLVMSpec.resultType] at h <;> (try subst h) <;> simp_all [resultIR, sigRet])
          | [a, b, c], h => first | (simp [LLVMSpec.resultType] at h; done) | (simp [LLVMSpec.resultType] at h; subst h; simp [resultIR]) | (cases a <;> cases c <;> simp [LLVMSpec.resultType] at h <;> (try subst h) <;> simp_all [resultIR, sigRet])
          | a :: b :: c :: d :: r, h => first | (simp [LLVMSpec.resultType] at h; done) | (simp [LLVMSpec.resultType] at h; subst h; simp [resultIR]) | (cases a <;> simp [LLVMSpec.resultType] at h <;> (try subst h) <;> simp_all [resultIR, sigRet])))

end Llir.Props.C06

namespace Llir.Props.C06
open Llir Llir.Types Llir.Typing

/-- The type the parser attaches while reading text and the type the IR library computes by itself
    from the same operand types are always equal (every kind, every operand tuple, well-typed or not). -/
theorem parser_agrees_with_ir (k : Kind) (ops : List Ty) : resultAsm k ops = resultIR k ops := by
  cases k <;> first | rfl | (cases ops <;> rfl)

theorem parser_agrees_with_llvm (k : Kind) (ops : List Ty) (t : Ty)
    (hw : LLVMSpec.wellTyped k ops = true) (h : LLVMSpec.resultType k ops = some t) :
    resultAsm k ops = .ok t := by
  rw [parser_agrees_with_ir]; exact ir_agrees_with_llvm k ops t hw h

/-- the named clauses of the property, as instances -/
theorem cmp_of_scalable_vector (n : Nat) (w : Nat) :
    resultIR .icmp [.vec true n (.int w), .vec true n (.int w)] = .ok (.vec true n (.int 1)) := rfl
theorem cmpxchg_pair (p c new : Ty) :
    resultIR .cmpxchg [p, c, new] = .ok (.struct false (.cons new (.cons (.int 1) .nil))) := rfl
theorem call_returns_callee_ret (r : Ty) (ps : TyList) (v : Bool) (as : Nat) (args : List Ty) :
    resultIR .call (.ptr (.func r ps v) as :: args) = .ok r := rfl
theorem cast_yields_target (a b : Ty) : resultIR .cast [a, b] = .ok b := rfl
theorem shuffle_takes_mask_length (s ms : Bool) (n m : Nat) (e me : Ty) :
    resultIR .shufflevector [.vec s n e, .vec s n e, .vec ms m me] = .ok (.vec ms m e) := rfl

/-- non-vacuity: a well-typed tuple for which the rule is not the identity -/
example : LLVMSpec.wellTyped (.extractvalue [1, 0]) [.struct false (.cons (.int 8) (.cons (.arr 2 (.int 16)) .nil))] = true := by decide

end Llir.Props.C06
