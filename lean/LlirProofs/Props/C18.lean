import LlirProofs.FlagLemmas
/-! # C18 — Every enumerated keyword maps back to the value that printed it (property theorems only)

`Enums.all` is REGENERATED on every run from /repo: each constant of each enumerated type is
evaluated by a generated Go program (value, `String()`, and the parser's `XFromString(String())`).
The table is the complete graph of the two finite functions, so deciding it is deciding the property. -/
namespace Llir.Props.C18
open Llir Llir.Generated Llir.Flags

def rowsOK (t : List Enums.Row) : Bool := t.all fun r => r.2.2 == some r.1
def kwInjective (t : List Enums.Row) : Bool :=
  t.all fun r => t.all fun r' => r.2.1 != r'.2.1 || r.1 == r'.1

/-- every defined value of every enumerated type prints to a keyword the parser maps back to it -/
theorem keywords_roundtrip_table : Enums.all.all (fun p => rowsOK p.2) = true := by decide +kernel

/-- no two values of one type share a keyword -/
theorem keywords_injective_table : Enums.all.all (fun p => kwInjective p.2) = true := by decide +kernel

theorem keywords_roundtrip (ty : String) (rows : List Enums.Row) (h : (ty, rows) ∈ Enums.all)
    (r : Enums.Row) (hr : r ∈ rows) : r.2.2 = some r.1 := by
  have := List.all_eq_true.mp keywords_roundtrip_table (ty, rows) h
  have := List.all_eq_true.mp this r hr
  simpa using this

theorem keywords_injective (ty : String) (rows : List Enums.Row) (h : (ty, rows) ∈ Enums.all)
    (r r' : Enums.Row) (hr : r ∈ rows) (hr' : r' ∈ rows) (hk : r.2.1 = r'.2.1) : r.1 = r'.1 := by
  have := List.all_eq_true.mp keywords_injective_table (ty, rows) h
  have := List.all_eq_true.mp (List.all_eq_true.mp this r hr) r' hr'
  simp [hk] at this; exact this

/-- the table is not empty and covers the expected families (non-vacuity) -/
theorem table_covers : Enums.all.length ≥ 35 ∧ (Enums.all.map (fun p => p.2.length)).sum ≥ 600 := by decide +kernel

/-! ## flag sets -/

/-- bit positions of the defined single-bit members of a flag type -/
def definedIdx (t : List Enums.Row) : List Nat := (List.range 64).filter fun j => t.any fun r => r.1 == (2 ^ j : Nat)

def inRange (first last : Nat) (t : List Enums.Row) : Bool :=
  (definedIdx t).all fun j => decide (Flags.log2 first ≤ j) && decide (j ≤ Flags.log2 last)

/-- every defined single-bit member is visited by the printer's mask loop, and its keyword parses back to its mask -/
theorem disp_members_in_range : inRange Enums.DISPFlagFirst Enums.DISPFlagLast Enums.DISPFlag = true := by decide +kernel
/-- DIFlag: bits 0 and 1 form the accessibility field, printed separately; all other defined bits are in the loop's range -/
theorem di_members_in_range :
    ((definedIdx Enums.DIFlag).filter (fun j => decide (2 ≤ j))).all
      (fun j => decide (Flags.log2 Enums.DIFlagFirst ≤ j) && decide (j ≤ Flags.log2 Enums.DIFlagLast)) = true := by decide +kernel
theorem alloc_members_in_range : inRange Enums.AllocKindFirst Enums.AllocKindLast Enums.AllocKind = true := by decide +kernel

theorem flags_roundtrip_of_inRange (first last : Nat) (t : List Enums.Row) (hr : inRange first last t = true)
    (flags : Nat) (h : ∀ j, flags.testBit j = true → j ∈ definedIdx t) :
    orPows (setBits first last flags) = flags := by
  apply orPows_setBits
  intro j hj
  have := List.all_eq_true.mp hr j (h j hj)
  simpa using this

/-- DISPFlag: every set of defined flags prints as members that OR back to the same set -/
theorem disp_flags_roundtrip (flags : Nat) (h : ∀ j, flags.testBit j = true → j ∈ definedIdx Enums.DISPFlag) :
    parseDisp flags = flags :=
  flags_roundtrip_of_inRange _ _ _ disp_members_in_range flags h

theorem alloc_flags_roundtrip (flags : Nat) (h : ∀ j, flags.testBit j = true → j ∈ definedIdx Enums.AllocKind) :
    parseAlloc flags = flags :=
  flags_roundtrip_of_inRange _ _ _ alloc_members_in_range flags h

/-- DIFlag: the two accessibility bits are printed as one member (Private/Protected/Public), all
    other defined bits by the mask loop. -/
theorem di_flags_roundtrip (flags : Nat)
    (h : ∀ j, flags.testBit j = true → j < 2 ∨ j ∈ definedIdx Enums.DIFlag) :
    parseDI flags = flags := by
  unfold parseDI
  apply Nat.eq_of_testBit_eq
  intro j
  rw [Nat.testBit_or, Nat.testBit_and, testBit_orPows]
  cases hb : flags.testBit j with
  | false =>
    have hm : ¬ j ∈ setBits Enums.DIFlagFirst Enums.DIFlagLast flags := fun hm => by
      have := setBits_sound _ _ _ _ hm; rw [hb] at this; cases this
    simp [hm]
  | true =>
    by_cases hlt : j < 2
    · have : Nat.testBit 3 j = true := by
        have : j = 0 ∨ j = 1 := by omega
        rcases this with rfl | rfl <;> decide
      simp [this]
    · have hdef : j ∈ definedIdx Enums.DIFlag := by
        rcases h j hb with h' | h'
        · exact absurd h' hlt
        · exact h'
      have hr := List.all_eq_true.mp di_members_in_range j (by
        rw [List.mem_filter]; exact ⟨hdef, by simpa using Nat.le_of_not_lt hlt⟩)
      simp only [Bool.and_eq_true, decide_eq_true_eq] at hr
      have hm : j ∈ setBits Enums.DIFlagFirst Enums.DIFlagLast flags :=
        (mem_setBits _ _ _ _).mpr ⟨⟨hr.1, by omega⟩, hb⟩
      simp [hm]

/-- printed members are members: nothing is invented -/
theorem members_sound (first last flags j : Nat) (h : j ∈ setBits first last flags) : flags.testBit j = true :=
  setBits_sound first last flags j h

/-- non-vacuity: DISPFlagDefinition | DISPFlagDeleted | DISPFlagObjCDirect -/
example : parseDisp (8 ||| 512 ||| 2048) = (8 ||| 512 ||| 2048) := by decide +kernel

end Llir.Props.C18
