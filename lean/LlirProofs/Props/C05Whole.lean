import LlirProofs.WholeMain
/-! # C05 — whole modules (M-Whole): what every ACCEPTED module satisfies (property theorems only) -/
namespace Llir.Props.C05
open Llir Llir.Whole

/-- the parts of an accepted module, as the parser of the fragment produced them -/
theorem whole_parse_shape (ls : List Bytes) (m : Module) (h : parse ls = some m) :
    ∃ t c2 raws, readTop (ls.length + 1) ls = some t ∧
      (mergeTypedefs [] t.lines).bind Core2.translateTok = some c2 ∧
      Meta.readLines t.md = some raws ∧ Meta.translate raws = .ok m.md ∧
      m.globals = c2.globals ∧
      Core2.hasDup (c2.globals.map (·.name) ++ m.funcs.map (·.name)) = false ∧ gleadsOK c2.globals = true := by
  unfold parse at h
  cases hr : readTop (ls.length + 1) ls with
  | none => simp [hr] at h
  | some t =>
    simp only [hr, Option.bind] at h
    unfold translate at h
    cases hc : (mergeTypedefs [] t.lines).bind Core2.translateTok with
    | none => simp [hc] at h
    | some c2 =>
      simp only [hc] at h
      cases hf : mapM' (Core3.translateIn (genvOf c2.globals t.funcs)) t.funcs with
      | none => simp [hf] at h
      | some fs =>
        cases hm : Meta.readLines t.md with
        | none => simp [hf, hm] at h
        | some raws =>
          simp only [hf, hm] at h
          cases ht : Meta.translate raws with
          | error => simp [ht] at h
          | ok md =>
            simp only [ht] at h
            split at h
            · cases h
            · rename_i hd
              split at h
              · cases h
              · rename_i hgl
                split at h
                · injection h with h
                  subst h
                  exact ⟨t, c2, raws, rfl, hc, hm, ht, rfl, by simpa using hd, by simpa using hgl⟩
                · cases h

/-- **no name is defined twice**: in every accepted module the global variables and the functions (definitions and declarations) have pairwise
    different names — a text that defines a global or a function twice, or a function named like a global variable, is rejected -/
theorem whole_global_names_unique (ls : List Bytes) (m : Module) (h : parse ls = some m) :
    (m.globals.map (·.name) ++ m.funcs.map (·.name)).Nodup := by
  obtain ⟨_, c2, _, _, _, _, _, hg, hd, _⟩ := whole_parse_shape ls m h
  rw [hg]
  exact (Core2.hasDup_false_iff_nodup _).mp hd

/-- **the keywords of a global variable are checked**: in every accepted module every global variable carries at most one keyword of each family (linkage,
    preemption, visibility, DLL storage class, thread-local model, unnamed_addr, externally_initialized), the families in the order of the grammar — a text
    with a repeated or misplaced keyword is rejected, none is silently dropped or reordered -/
theorem whole_global_keywords_checked (ls : List Bytes) (m : Module) (h : parse ls = some m) : gleadsOK m.globals = true := by
  obtain ⟨_, c2, _, _, _, _, _, hg, _, hgl⟩ := whole_parse_shape ls m h
  rw [hg]; exact hgl

example : gleadOK [3, 3] = false ∧ gleadOK [9, 3] = false ∧ gleadOK [16, 17] = false ∧ gleadOK [3, 9, 12, 14, 17, 20, 22] = true ∧ gleadOK [23] = false := by decide

end Llir.Props.C05
