import LlirProofs.WholeMain
import LlirProofs.Props.C01
import LlirProofs.Props.C01Meta
/-! # C01 — parse then print preserves meaning: whole modules (M-Whole; property theorems only) -/
namespace Llir.Props.C01
open Llir Llir.Whole

/-- **Whole modules round-trip**: a module made of identified-struct type definitions, global variables with nested aggregate constants,
    function definitions (any number of parameters and blocks, the 82 instruction rows) and a metadata section, printed as ONE text the way
    `Module.String()` prints it, is split into its top-level entities, read and translated back to the module itself — provided each part is in
    its fragment (`Core2.WF`, type definitions already in natural-sort order, `Core3.wfIn`, `Meta.wf`, the keywords of every global variable one of each family in the grammar's order: `gleadsOK`; alignments within 64 bits: `gtailsOK`) and the cross-fragment conditions hold
    (`crossOK`: no name shared by two globals / functions, every named type a function mentions is defined; `Core3.wfIn (genvOf …)`: every `@name`
    operand of a function body is a global variable or a function of the module and is written at the type of a reference to it). -/
theorem whole_roundtrip (useHex : Int → Bool) (m : Module)
    (h2 : Core2.WF ⟨m.typedefs, m.globals⟩) (hs : Core2.sortDefs m.typedefs = m.typedefs)
    (h3 : ∀ f ∈ m.funcs, Core3.wfIn (genvOf m.globals m.funcs) f = true) (h3m : ∀ f ∈ m.funcs, Core3.mdWF useHex f = true)
    (hm : Meta.wf m.md = true) (hx : crossOK m = true) (hgl : gleadsOK m.globals = true) (hgt : gtailsOK m.globals = true) :
    parse (printModule useHex m) = some m :=
  parse_print useHex m h2 hs h3 h3m hm hx hgl hgt

/-- and the printed text is a fixpoint -/
theorem whole_fixpoint (useHex : Int → Bool) (m : Module)
    (h2 : Core2.WF ⟨m.typedefs, m.globals⟩) (hs : Core2.sortDefs m.typedefs = m.typedefs)
    (h3 : ∀ f ∈ m.funcs, Core3.wfIn (genvOf m.globals m.funcs) f = true) (h3m : ∀ f ∈ m.funcs, Core3.mdWF useHex f = true)
    (hm : Meta.wf m.md = true) (hx : crossOK m = true) (hgl : gleadsOK m.globals = true) (hgt : gtailsOK m.globals = true) :
    (parse (printModule useHex m)).map (printModule useHex) = some (printModule useHex m) := by
  rw [parse_print useHex m h2 hs h3 h3m hm hx hgl hgt]; rfl

/-- non-vacuity: the samples of the three fragments put together — a recursive struct type `%N`, a packed constant global `@g`, a global
    `@c = global i32 5`, the function `@f` of `core3Sample`, a function `@h` whose body loads from and stores to `@c` (the load carries the attachments `!dbg !7, !\31a !4294967296`, the `ret` carries `!x !0`), converts the address of the
    function `@f`, calls it and calls the declared function `@ext`, the declaration `declare void @ext(i32 %0)`, and the metadata section `metaSample` — form a module that meets every hypothesis -/
def hSample : Core3.Func :=
  ⟨.int 32, [104], [],
   [⟨.id 0, [⟨some (.id 1), 23, [.flags [1], .ty (.int 32), .tyval (.ptr (.int 32) 0) (.glob [99]), .okw none, .align (some 4)], .none, [([100, 98, 103], 7), ([49, 97], 4294967296)]⟩,
            ⟨some (.id 2), 39, [.tyval (.ptr (.func (.int 32) (.cons (.int 32) (.cons (.int 32) .nil)) false) 0) (.glob [102]), .ty (.int 64)], .none, []⟩,
            ⟨none, 24, [.flags [1], .tyval (.int 32) (.loc (.id 1)), .tyval (.ptr (.int 32) 0) (.glob [99]), .okw none, .align none], .none, []⟩,
            ⟨some (.id 3), 75, [.ty (.int 32), .val (.glob [102]), .tyvals [(.int 32, .loc (.id 1)), (.int 32, .const (.int 7))]], .none, []⟩,
            ⟨none, 74, [.val (.glob [101, 120, 116]), .tyvals [(.int 32, .loc (.id 3))]], .none, []⟩],
      ⟨none, 26, [.retv (some (.int 32, .loc (.id 1)))], .none, [([120], 0)]⟩⟩], [], {}, [], false⟩

/-- `declare extern_weak default void @ext(i32 zeroext %0) local_unnamed_addr readnone partition "p"` -/
def extSample : Core3.Func := ⟨.void, [101, 120, 116], [(.int 32, .id 0)], [], [9, 13], { unnamed := some 1, attrs := [37], partition := [112] }, [[16]], false⟩

/-- a VARIADIC declaration: `declare i32 @vf(i8* nocapture %0, ...)`, and one without parameters: `declare void @v0(...)` -/
def varSample : Core3.Func := ⟨.int 32, [118, 102], [(.ptr (.int 8) 0, .id 0)], [], [], {}, [[4]], true⟩
def var0Sample : Core3.Func := ⟨.void, [118, 48], [], [], [], {}, [], true⟩

def wholeSample : Module := ⟨sample.typedefs, sample.globals ++ [⟨[99], false, .int 32, .int 5, [3, 9, 12, 14, 17, 20, 22], { sect := [46, 100, 34, 97], partition := [112], align := 8 }⟩], [core3Sample, hSample, extSample, varSample, var0Sample], metaSample⟩

example : Core2.WF ⟨wholeSample.typedefs, wholeSample.globals⟩ := by
  refine ⟨?_, ?_, ?_, by decide, by decide, by decide⟩
  · intro d hd; simp [wholeSample, sample] at hd; subst hd; exact ⟨by simp, by decide⟩
  · intro g hg; simp [wholeSample, sample] at hg; rcases hg with rfl | rfl <;> simp
  · intro g hg; simp [wholeSample, sample] at hg
    rcases hg with rfl | rfl
    · exact ⟨by decide, by simp [Core2.cwf, Core2.clwf, Core2.firstNoBrace, Types.tyString]⟩
    · exact ⟨by decide, by simp [Core2.cwf]⟩
example : Core2.sortDefs wholeSample.typedefs = wholeSample.typedefs := by
  simp [wholeSample, sample, Core2.sortDefs, Natsort.sort, Natsort.insert]
example : ∀ f ∈ wholeSample.funcs, Core3.wfIn (genvOf wholeSample.globals wholeSample.funcs) f = true := by
  intro f hf; simp [wholeSample] at hf; rcases hf with rfl | rfl | rfl | rfl | rfl <;> decide +kernel
example : ∀ f ∈ wholeSample.funcs, Core3.mdWF IntLit.hexChoice f = true := by
  intro f hf; simp [wholeSample] at hf; rcases hf with rfl | rfl | rfl | rfl | rfl <;> decide +kernel
example : Meta.wf wholeSample.md = true := by decide +kernel
example : crossOK wholeSample = true := by decide +kernel
/-- (`@c = internal dso_local hidden dllexport thread_local(initialexec) unnamed_addr externally_initialized global i32 5`) -/
example : gleadsOK wholeSample.globals = true := by decide +kernel
/-- (… `global i32 5, section ".d\22a", partition "p", align 8`) -/
example : gtailsOK wholeSample.globals = true := by decide +kernel

/-- and an attachment that names a metadata ID the module does not define is rejected: `ret i32 %1, !x !0` without the definition `!0` -/
example : parse (printModule (fun _ => false) { wholeSample with md := ⟨[], [⟨7, true, .nil⟩, ⟨4294967296, false, .nil⟩]⟩ }) = none := by decide +kernel

/-- and a function body that mentions a global the module does not define is rejected: `@h` without the global `@c` -/
example : parse (printModule (fun _ => false) { wholeSample with globals := sample.globals }) = none := by decide +kernel

end Llir.Props.C01

namespace Llir.Props.C01
open Llir Llir.Whole

/-- a switch and an invoke whose attachments stand at the end of their LAST line (`], !x !0`; `to label %2 unwind label %2, !dbg !0, !y !0`) -/
def extMdSample : Module :=
  ⟨[], [],
   [⟨.void, [115], [(.int 32, .id 0)],
     [⟨.id 1, [], ⟨none, 82, [.tyval (.int 32) (.loc (.id 0)), .lab (.id 2)], .cases [(.int 32, .int 1, .id 2)], [([120], 0)]⟩⟩,
      ⟨.id 2, [], ⟨none, 83, [.val (.glob [115]), .tyvals [(.int 32, .loc (.id 0))]], .dests (.id 2) (.id 2), [([100, 98, 103], 0), ([121], 0)]⟩⟩], [], {}, [[]], false⟩],
   ⟨[], [⟨0, false, .nil⟩]⟩⟩

/-- non-vacuity of the round trip with attachments on continuation lines: the printed text ends its switch with `<tab>], !x !0` and its invoke with
    `…unwind label %2, !dbg !0, !y !0`, and is read back as the module -/
example : (printModule (fun _ => false) extMdSample).filter (fun l => l.take 2 == [9, 93] || l.take 3 == [9, 9, 116]) =
    [[9, 93, 44, 32, 33, 120, 32, 33, 48],
     [9, 9, 116, 111, 32, 108, 97, 98, 101, 108, 32, 37, 50, 32, 117, 110, 119, 105, 110, 100, 32, 108, 97, 98, 101, 108, 32, 37, 50,
      44, 32, 33, 100, 98, 103, 32, 33, 48, 44, 32, 33, 121, 32, 33, 48]] ∧
    (parse (printModule (fun _ => false) extMdSample)).map (fun m => m.funcs.flatMap Core3.mdUses) = some [0, 0, 0] ∧
    (parse (printModule (fun _ => false) extMdSample)).map (fun m => printModule (fun _ => false) m) = some (printModule (fun _ => false) extMdSample) := by
  decide +kernel

/-- …and with the attachment on the FIRST line of the switch the text is rejected (the grammar has it after the closing bracket only) -/
example : parse ((printModule (fun _ => false) extMdSample).map fun l =>
    if l.take 7 == [9, 115, 119, 105, 116, 99, 104] then l ++ [44, 32, 33, 120, 32, 33, 48] else l) = none := by
  decide +kernel

end Llir.Props.C01
