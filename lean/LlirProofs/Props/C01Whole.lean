import LlirProofs.WholeMain
import LlirProofs.Props.C01
import LlirProofs.Props.C01Meta
/-! # C01 — parse then print preserves meaning: whole modules (M-Whole; property theorems only) -/
namespace Llir.Props.C01
open Llir Llir.Whole

/-- **Whole modules round-trip**: a module made of identified-struct type definitions, global variables with nested aggregate constants,
    function definitions (any number of parameters and blocks, the 74 instruction rows) and a metadata section, printed as ONE text the way
    `Module.String()` prints it, is split into its top-level entities, read and translated back to the module itself — provided each part is in
    its fragment (`Core2.WF`, type definitions already in natural-sort order, `Core3.wf`, `Meta.wf`) and the cross-fragment conditions hold
    (`crossOK`: no name shared by two globals / functions, every named type a function mentions is defined). -/
theorem whole_roundtrip (useHex : Int → Bool) (m : Module)
    (h2 : Core2.WF ⟨m.typedefs, m.globals⟩) (hs : Core2.sortDefs m.typedefs = m.typedefs)
    (h3 : ∀ f ∈ m.funcs, Core3.wf f = true) (hm : Meta.wf m.md = true) (hx : crossOK m = true) :
    parse (printModule useHex m) = some m :=
  parse_print useHex m h2 hs h3 hm hx

/-- and the printed text is a fixpoint -/
theorem whole_fixpoint (useHex : Int → Bool) (m : Module)
    (h2 : Core2.WF ⟨m.typedefs, m.globals⟩) (hs : Core2.sortDefs m.typedefs = m.typedefs)
    (h3 : ∀ f ∈ m.funcs, Core3.wf f = true) (hm : Meta.wf m.md = true) (hx : crossOK m = true) :
    (parse (printModule useHex m)).map (printModule useHex) = some (printModule useHex m) := by
  rw [parse_print useHex m h2 hs h3 hm hx]; rfl

/-- non-vacuity: the samples of the three fragments put together — a recursive struct type `%N`, a packed constant global, the function `@f` of
    `core3Sample` and the metadata section `metaSample` — form a module that meets every hypothesis -/
def wholeSample : Module := ⟨sample.typedefs, sample.globals, [core3Sample], metaSample⟩

example : Core2.WF ⟨wholeSample.typedefs, wholeSample.globals⟩ := by
  refine ⟨?_, ?_, ?_, by decide, by decide, by decide⟩
  · intro d hd; simp [wholeSample, sample] at hd; subst hd; exact ⟨by simp, by decide⟩
  · intro g hg; simp [wholeSample, sample] at hg; subst hg; simp
  · intro g hg; simp [wholeSample, sample] at hg; subst hg
    exact ⟨by decide, by simp [Core2.cwf, Core2.clwf, Core2.firstNoBrace, Types.tyString]⟩
example : Core2.sortDefs wholeSample.typedefs = wholeSample.typedefs := by
  simp [wholeSample, sample, Core2.sortDefs, Natsort.sort, Natsort.insert]
example : ∀ f ∈ wholeSample.funcs, Core3.wf f = true := by
  intro f hf; simp [wholeSample] at hf; subst hf; decide +kernel
example : Meta.wf wholeSample.md = true := by decide +kernel
example : crossOK wholeSample = true := by decide +kernel

end Llir.Props.C01
