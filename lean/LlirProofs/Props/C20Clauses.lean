import LlirModel.Whole
/-! # C20 / C12 — the clauses behind the initializer of a global variable: their ORDER in the input does not matter (property theorems only)

The real grammar takes `, section "s"`, `, partition "p"`, `, align N` in any order; the translation (`Whole.applyG`, asm/global.go irGlobal) lets every clause
overwrite its field. When no kind of clause is written twice, every permutation of the clauses gives the same global variable — the printed text (which has the
printer's fixed order) does not depend on the order chosen in the input. -/
namespace Llir.Props.C20
open Llir Llir.Whole

/-- the kind of a clause -/
def gkind : GItem → Nat
  | .sect _ => 0
  | .part _ => 1
  | .align _ => 2

/-- clauses of different kinds commute -/
theorem applyG_comm (t : Core2.GTail) (a b : GItem) (h : gkind a ≠ gkind b) :
    (applyG t a).bind (fun u => applyG u b) = (applyG t b).bind (fun u => applyG u a) := by
  cases a with
  | sect x =>
    cases b with
    | sect y => simp [gkind] at h
    | part y => simp [applyG, Option.bind]
    | align n => by_cases hn : n < 2 ^ 64 <;> simp [applyG, Option.bind, hn]
  | part x =>
    cases b with
    | sect y => simp [applyG, Option.bind]
    | part y => simp [gkind] at h
    | align n => by_cases hn : n < 2 ^ 64 <;> simp [applyG, Option.bind, hn]
  | align m =>
    cases b with
    | sect y => by_cases hm : m < 2 ^ 64 <;> simp [applyG, Option.bind, hm]
    | part y => by_cases hm : m < 2 ^ 64 <;> simp [applyG, Option.bind, hm]
    | align n => simp [gkind] at h

/-- **order independence**: clauses of pairwise different kinds, written in any order, are translated to the same fields (from every starting state) -/
theorem gtail_clauses_order_independent {l1 l2 : List GItem} (hp : l1.Perm l2) : (l1.map gkind).Nodup → ∀ t : Core2.GTail, l1.foldlM applyG t = l2.foldlM applyG t := by
  induction hp with
  | nil => intro _ _; rfl
  | cons x _ ih =>
    intro hd t
    simp only [List.map_cons, List.nodup_cons] at hd
    simp only [List.foldlM_cons]
    cases applyG t x with
    | none => rfl
    | some u => exact ih hd.2 u
  | swap x y l =>
    intro hd t
    simp only [List.map_cons, List.nodup_cons, List.mem_cons, not_or] at hd
    have hne : gkind y ≠ gkind x := hd.1.1
    have := applyG_comm t y x hne
    simp only [List.foldlM_cons]
    cases hy : applyG t y with
    | none =>
      simp only [hy, Option.bind] at this
      cases hx : applyG t x with
      | none => rfl
      | some u => simp only [hx] at this; simp only [Option.bind_eq_bind, Option.bind]; rw [← this]
    | some v =>
      simp only [hy, Option.bind] at this
      cases hx : applyG t x with
      | none => simp only [hx] at this; simp only [Option.bind_eq_bind, Option.bind]; rw [this]
      | some u =>
        simp only [hx] at this
        simp only [Option.bind_eq_bind, Option.bind]
        rw [this]
  | trans h1 _ ih1 ih2 =>
    intro hd t
    have hd2 := (h1.map gkind).nodup_iff.mp hd
    rw [ih1 hd t, ih2 hd2 t]

/-- non-vacuity: the three clauses in two orders -/
example : [GItem.align 8, .sect [97], .part [112]].foldlM applyG {} = [GItem.sect [97], .part [112], .align 8].foldlM applyG {} := by decide

/-- …while a REPEATED clause is order-sensitive by design (the last one wins) -/
example : [GItem.align 8, .align 4].foldlM applyG {} ≠ [GItem.align 4, .align 8].foldlM applyG {} := by decide

end Llir.Props.C20
