import LlirProofs.CoreLemmas
import LlirProofs.Props.C06
import LlirModel.CallSite
import LlirProofs.TyParseMain
import LlirProofs.Core2Mod
import LlirProofs.Props.C01
import LlirModel.Generated.Facts
/-! # C03 — IR built through the constructors prints to valid, faithful LLVM assembly (property theorems only)

PARTIAL: the printing/re-parsing theorem covers constructor images inside M-Core (modules built with
Module.NewTypeDef(opaque struct) and Module.NewGlobalDef(name, constant.NewInt(iW, x))); "a well-typed
construction is never rejected" is the C06 statement that the constructor-computed type is defined and
equals LLVM's on every well-typed operand tuple. -/
namespace Llir.Props.C03
open Llir Llir.Core

/-- what the constructors build (insertion order is kept by the module) -/
def build (typedefs : List Bytes) (globals : List GlobalDef) : CoreMod := ⟨typedefs, globals⟩

/-- A constructed M-Core module prints to tokens the parser accepts, and re-parsing gives back exactly what
    was constructed (same names, widths, values; type definitions in the parser's canonical order). -/
theorem constructed_prints_faithfully (useHex : Int → Bool) (ts : List Bytes) (gs : List GlobalDef)
    (ht : ∀ n ∈ ts, TypeNameOK n) (hg : ∀ g ∈ gs, GlobalOK g) :
    translateTok (printTok useHex (build ts gs)) = some ⟨Natsort.sort ts, gs⟩ := by
  unfold translateTok build
  rw [collect_print useHex ts gs ht hg]; rfl

/-- well-typed constructions are never rejected by the constructors' own type computation -/
theorem constructor_accepts_well_typed (k : Typing.Kind) (ops : List Types.Ty) (t : Types.Ty)
    (hw : Typing.LLVMSpec.wellTyped k ops = true) (h : Typing.LLVMSpec.resultType k ops = some t) :
    Typing.resultIR k ops = .ok t := Props.C06.ir_agrees_with_llvm k ops t hw h

/-- Constructed modules of the second fragment (Module.NewTypeDef with a struct body, Module.NewGlobalDef with
    nested constant.NewStruct / NewArray / NewVector / NewInt / NewNull / NewUndef / NewZeroInitializer values)
    print to a text the parser maps back to exactly what was constructed. -/
theorem constructed_prints_faithfully2 (useHex : Int → Bool) (m : Core2.Mod) (h : Core2.WF m) :
    Core2.translateTok (Core2.printTok useHex m) = some ⟨Core2.sortDefs m.typedefs, m.globals⟩ :=
  Core2.core2_roundtrip useHex m h

/-! ## the block builder methods are the free constructors -/

/-- Every `(*ir.Block).NewX`, `(*ir.Func).NewBlock` and `(*ir.Module).NewX` method (the fact is REGENERATED from the source on every run)
    is the pure delegation `v := NewX(params…); [v.Parent = receiver;] insert v into the receiver; return v`: the parameters reach the free
    constructor unchanged and in order, so what C06 and the printing theorems say about the constructors holds for the builder methods too
    (Module.NewTypeDef has no free constructor and is not in the table). -/
theorem block_builders_delegate : Generated.Facts.blockBuilders.all (fun r => r.2) = true := by decide +kernel

theorem container_builders_listed : ["Func.NewBlock", "Module.NewAlias", "Module.NewFunc", "Module.NewGlobal", "Module.NewGlobalDef", "Module.NewIFunc"].all
    (fun n => Generated.Facts.blockBuilders.any (fun r => r.1 == n)) = true := by decide +kernel

theorem block_builders_counted : Generated.Facts.blockBuilders.length ≥ 71 := by decide +kernel

/-! ## call sites denote the callee they were constructed with -/

def isFunc : Types.Ty → Bool
  | .func _ _ _ => true
  | _ => false

/-- For every callee signature (any return type that is not itself a function type — LLVM has no such
    functions —, any parameter list, variadic or not): LLVM reads the type spelled at a printed call /
    invoke / callbr site, together with the types of the actual arguments, back as EXACTLY the callee's
    signature. For a non-variadic callee the arguments are its parameters; for a variadic callee the
    signature is spelled in full, whatever extra arguments follow. -/
theorem call_site_denotes_callee (r : Types.Ty) (ps : Types.TyList) (v : Bool) (args : Types.TyList)
    (hr : isFunc r = false) (hargs : v = false → args = ps) :
    CallSite.LLVMSpec.calleeSig (CallSite.callSiteType (.func r ps v)) args = some (.func r ps v) := by
  unfold CallSite.callSiteType CallSite.LLVMSpec.calleeSig
  cases v with
  | true => simp [TyParse.parse_tyString]
  | false =>
    simp only [Bool.false_eq_true, if_false, TyParse.parse_tyString]
    rw [hargs rfl]
    cases r <;> simp_all [isFunc]

/-- the spelling is needed: dropping the signature of a variadic callee changes the callee LLVM reads
    (`i32 (i8*, ...)` invoked with one argument would be read as `i32 (i8*)`) -/
example : CallSite.LLVMSpec.calleeSig (Types.tyString (.int 32)) (.cons (.ptr (.int 8) 0) .nil)
    ≠ some (.func (.int 32) (.cons (.ptr (.int 8) 0) .nil) true) := by
  have h : TyParse.parse (Types.tyString (.int 32)) = some (.int 32) := TyParse.parse_tyString _
  simp [CallSite.LLVMSpec.calleeSig, h]

/-! ## M-Core-3: function definitions -/

/-- a constructed function (any well-formed value of the function model) prints text that the parser reads back as that very function: the
    printed assembly is accepted and faithful -/
theorem core3_constructed_prints_faithfully (useHex : Int → Bool) (f : Core3.Func) (h : Core3.wf f = true) (hmd : Core3.mdWF useHex f = true) :
    Core3.parse (Core3.printFunc useHex f) = some f := C01.core3_roundtrip useHex f h hmd

end Llir.Props.C03
