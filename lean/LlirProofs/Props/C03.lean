import LlirProofs.CoreLemmas
import LlirProofs.Props.C06
/-! # C03 — IR built through the constructors prints to valid, faithful LLVM assembly (property theorems only)

PARTIAL: the printing/re-parsing theorem covers constructor images inside M-Core (modules built with
Module.NewTypeDef(opaque struct) and Module.NewGlobalDef(name, constant.NewInt(iW, x))); "a well-typed
construction is never rejected" is the C06 statement that the constructor-computed type is defined and
equals LLVM's on every well-typed operand tuple. -/
namespace Llir.Props.C03
open Llir Llir.Core

/-- what the constructors build (insertion order is kept by the module) -/
def build (typedefs : List Bytes) (globals : List GlobalDef) : CoreMod := ⟨typedefs, globals⟩

/-- A constructed M-Core module prints to tokens the parser accepts, and re-parsing gives back exactly what
    was constructed (same names, widths, values; type definitions in the parser's canonical order). -/
theorem constructed_prints_faithfully (useHex : Int → Bool) (ts : List Bytes) (gs : List GlobalDef)
    (ht : ∀ n ∈ ts, TypeNameOK n) (hg : ∀ g ∈ gs, GlobalOK g) :
    translateTok (printTok useHex (build ts gs)) = some ⟨Natsort.sort ts, gs⟩ := by
  unfold translateTok build
  rw [collect_print useHex ts gs ht hg]; rfl

/-- well-typed constructions are never rejected by the constructors' own type computation -/
theorem constructor_accepts_well_typed (k : Typing.Kind) (ops : List Types.Ty) (t : Types.Ty)
    (hw : Typing.LLVMSpec.wellTyped k ops = true) (h : Typing.LLVMSpec.resultType k ops = some t) :
    Typing.resultIR k ops = .ok t := Props.C06.ir_agrees_with_llvm k ops t hw h

end Llir.Props.C03
