import LlirProofs.Props.C20
import LlirModel.Generated.Facts
/-! # C20 — the part decided on facts REGENERATED from the source (kept apart from the order theorems, which other properties' proofs use) -/
namespace Llir.Props.C20
open Llir

/-- Which comparison orders each list of definitions, decided on facts REGENERATED from the current source
    (go/ast over asm/translate.go and ir/module.go WriteTo): type definitions, comdats and named metadata by
    natural sort, attribute groups and metadata definitions by `<` on their IDs, global entities in textual order. -/
theorem sort_calls :
    Generated.Facts.sort_addTypeDefsToModule = "natsort" ∧ Generated.Facts.sort_addComdatDefsToModule = "natsort" ∧
    Generated.Facts.sort_namedMetadataInWriteTo = "natsort" ∧
    Generated.Facts.sort_addAttrGroupDefsToModule = "sort.Slice<" ∧ Generated.Facts.sort_addMetadataDefsToModule = "sort.Slice<" ∧
    Generated.Facts.sort_addGlobalEntitiesToModule = "textual-order" := by decide

end Llir.Props.C20
