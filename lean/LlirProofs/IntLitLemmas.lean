import LlirProofs.DigitLemmas
namespace Llir.IntLit
open Llir Llir.Digits

theorem setString_of_head (base : Nat) (c : UInt8) (r : Bytes) (h1 : c ≠ 45) (h2 : c ≠ 43) :
    setString base (c :: r) = (parseNat base (c :: r)).map Int.ofNat := by
  unfold setString
  split
  · rename_i heq; injection heq with a _; exact absurd a h1
  · rename_i heq; injection heq with a _; exact absurd a h2
  · rfl

theorem digitChar_not_sign : ∀ d, d < 16 → digitChar d ≠ 45 ∧ digitChar d ≠ 43 := by decide
theorem digitChar10_not_kw : ∀ d, d < 10 → digitChar d ≠ 116 ∧ digitChar d ≠ 102 ∧ digitChar d ≠ 117 ∧ digitChar d ≠ 115 := by decide
theorem digitCharUpper_not_sign : ∀ d, d < 16 → digitCharUpper d ≠ 45 ∧ digitCharUpper d ≠ 43 := by decide

theorem setString_natText (base : Nat) (hb : 2 ≤ base) (ch : Nat → UInt8)
    (hch : ∀ d, d < base → digitVal base (ch d) = some d)
    (hs : ∀ d, d < base → ch d ≠ 45 ∧ ch d ≠ 43) (n : Nat) :
    setString base ((digitsRev base n).reverse.map ch) = some (Int.ofNat n) := by
  obtain ⟨d, r, hd, heq⟩ := render_head base hb ch n
  have hp := parseNat_render base hb ch hch n
  rw [heq] at hp ⊢
  rw [setString_of_head base _ _ (hs d hd).1 (hs d hd).2, hp]; rfl

theorem setString10_natText (n : Nat) : setString 10 (natText 10 n) = some (Int.ofNat n) :=
  setString_natText 10 (by omega) digitChar digitVal10_lower
    (fun d hd => digitChar_not_sign d (by omega)) n
theorem setString16_natText (n : Nat) : setString 16 (natText 16 n) = some (Int.ofNat n) :=
  setString_natText 16 (by omega) digitChar digitVal16_lower
    digitChar_not_sign n
theorem setString16_natTextUpper (n : Nat) : setString 16 (natTextUpper 16 n) = some (Int.ofNat n) :=
  setString_natText 16 (by omega) digitCharUpper digitVal16_upper digitCharUpper_not_sign n

theorem setString10_intText (z : Int) : setString 10 (intText 10 z) = some z := by
  unfold intText
  by_cases hz : z < 0
  · simp only [hz, if_true, setString]
    rw [parseNat_natText10]
    simp only [Option.map_some, Int.ofNat_eq_natCast]
    congr 1; omega
  · simp only [hz, if_false]
    rw [setString10_natText]; simp only [Int.ofNat_eq_natCast]; congr 1; omega

/-- the decimal text starts with '-' or a decimal digit -/
theorem intText10_head (z : Int) : ∃ c r, intText 10 z = c :: r ∧ c ≠ 116 ∧ c ≠ 102 ∧ c ≠ 117 ∧ c ≠ 115 := by
  unfold intText
  by_cases hz : z < 0
  · exact ⟨45, natText 10 z.natAbs, by simp [hz], by decide, by decide, by decide, by decide⟩
  · obtain ⟨d, r, hd, heq⟩ := render_head 10 (by omega) digitChar z.natAbs
    have h := digitChar10_not_kw d hd
    exact ⟨digitChar d, r, by simp [hz, natText, heq], h.1, h.2.1, h.2.2.1, h.2.2.2⟩

theorem beq_true_of_head (c : UInt8) (r : Bytes) (h : c ≠ 116) : ((c :: r) == pfxTrue) = false := by
  simp [pfxTrue, h]
theorem beq_false_of_head (c : UInt8) (r : Bytes) (h : c ≠ 102) : ((c :: r) == pfxFalse) = false := by
  simp [pfxFalse, h]
theorem u0x_prefix_of_head (c : UInt8) (r : Bytes) (h : c ≠ 117) : pfxU0x.isPrefixOf (c :: r) = false := by
  simp [pfxU0x, List.isPrefixOf, h]; intro h'; exact absurd h'.symm h
theorem s0x_prefix_of_head (c : UInt8) (r : Bytes) (h : c ≠ 115) : pfxS0x.isPrefixOf (c :: r) = false := by
  simp [pfxS0x, List.isPrefixOf, h]; intro h'; exact absurd h'.symm h

theorem parse_decimal (w : Nat) (z : Int) : newIntFromString w (intText 10 z) = .ok z := by
  obtain ⟨c, r, heq, h1, h2, h3, h4⟩ := intText10_head z
  unfold newIntFromString
  have hs := setString10_intText z
  rw [heq] at hs ⊢
  rw [beq_true_of_head c r h1, beq_false_of_head c r h2, u0x_prefix_of_head c r h3, s0x_prefix_of_head c r h4]
  simp [hs]

theorem parse_u0x_gen (w : Nat) (body : Bytes) (n : Nat) (h : setString 16 body = some (Int.ofNat n)) :
    newIntFromString w (pfxU0x ++ body) = .ok (Int.ofNat n) := by
  unfold newIntFromString
  have e1 : ((pfxU0x ++ body) == pfxTrue) = false := by simp [pfxU0x, pfxTrue]
  have e2 : ((pfxU0x ++ body) == pfxFalse) = false := by simp [pfxU0x, pfxFalse]
  have e3 : pfxU0x.isPrefixOf (pfxU0x ++ body) = true := by simp [pfxU0x, List.isPrefixOf]
  have e4 : (pfxU0x ++ body).drop 3 = body := by simp [pfxU0x]
  rw [e1, e2, e3, e4, h]; simp

theorem parse_s0x_gen (w : Nat) (body : Bytes) (n : Nat) (h : setString 16 body = some (Int.ofNat n)) :
    newIntFromString w (pfxS0x ++ body) =
      .ok (if bigBit (Int.ofNat n) (w - 1) then Int.ofNat n - 2 ^ w else Int.ofNat n) := by
  unfold newIntFromString
  have e1 : ((pfxS0x ++ body) == pfxTrue) = false := by simp [pfxS0x, pfxTrue]
  have e2 : ((pfxS0x ++ body) == pfxFalse) = false := by simp [pfxS0x, pfxFalse]
  have e3 : pfxU0x.isPrefixOf (pfxS0x ++ body) = false := by simp [pfxS0x, pfxU0x, List.isPrefixOf]
  have e3' : pfxS0x.isPrefixOf (pfxS0x ++ body) = true := by simp [pfxS0x, List.isPrefixOf]
  have e4 : (pfxS0x ++ body).drop 3 = body := by simp [pfxS0x]
  rw [e1, e2, e3, e3', e4, h]
  simp only [Bool.false_eq_true, if_false, if_true]
  split <;> rfl

end Llir.IntLit
