import LlirModel.Core3
import LlirProofs.Core2Mod
import LlirProofs.EncTokens
import LlirProofs.MdNameLemmas
import LlirProofs.Props.C11
/-! M-Core-3: the line readers invert the printers (helper lemmas). -/
namespace Llir.Core3
open Llir Llir.Types Llir.Core2 Llir.Enc

/-! ### identifiers -/

theorem digit_val : ∀ d, d < 10 → (digitChar d).toNat - 48 = d := by decide

theorem decVal_map (l : List Nat) (hl : ∀ d ∈ l, d < 10) (acc : Nat) :
    (l.map digitChar).foldl (fun a b => a * 10 + (b.toNat - 48)) acc = l.foldl (fun a d => a * 10 + d) acc := by
  induction l generalizing acc with
  | nil => rfl
  | cons d ds ih =>
    simp only [List.map_cons, List.foldl_cons]
    rw [digit_val d (hl d (by simp))]
    exact ih (fun x hx => hl x (by simp [hx])) _

theorem decVal_natDec (n : Nat) : decVal (natDec n) = n := by
  unfold decVal natDec
  rw [decVal_map _ (fun d hd => Digits.digitsRev_lt 10 (by omega) n d (by simpa using hd))]
  rw [List.foldl_reverse]
  have := Digits.foldr_eq_ofDigitsRev 10 (digitsRev 10 n)
  rw [Digits.ofDigitsRev_digitsRev 10 (by omega)] at this
  simpa using this

theorem natDec_all_digits (k : Nat) : (natDec k).all isDigit = true := by
  rw [List.all_eq_true]; exact natDec_digits k

theorem parseUint63_natDec (k : Nat) (hk : k < 2 ^ 63) : parseUint63 (natDec k) = some k := by
  unfold parseUint63
  have hne : (natDec k).isEmpty = false := by
    cases h : natDec k with
    | nil => exact absurd h (natDec_ne_nil k)
    | cons a r => rfl
  simp [hne, natDec_all_digits, decVal_natDec, hk]

/-- what may follow an identifier: nothing, or a byte that is not a name character -/
def identEnd (r : Bytes) : Bool :=
  match r with
  | [] => true
  | c :: _ => !inTail c

theorem identEnd_head (r : Bytes) (h : identEnd r = true) : ∀ c ∈ r.head?, inTail c = false := by
  intro c hc
  cases r with
  | nil => simp at hc
  | cons a r => simp at hc; subst hc; simpa [identEnd] using h

theorem digit_inTail (c : UInt8) (h : isDigit c = true) : inTail c = true := by simp [inTail, h]

theorem takeBody_natDec (k : Nat) (r : Bytes) (hr : identEnd r = true) : takeBody (natDec k ++ r) = some (natDec k, r) := by
  have hall : ∀ x ∈ natDec k, inTail x = true := fun x hx => digit_inTail x (natDec_digits k x hx)
  obtain ⟨h1, h2⟩ := TyParse.takeWhile_append_stop inTail (natDec k) r hall (identEnd_head r hr)
  obtain ⟨d, ds, hd, hdig⟩ := TyParse.natDec_head k
  have hq : d ≠ 34 := by intro h; subst h; simp [isDigit] at hdig
  unfold takeBody
  rw [hd] at h1 h2 ⊢
  simp only [List.cons_append] at h1 h2 ⊢
  split
  · rename_i r' heq; injection heq with ha _; exact absurd ha hq
  · simp [h1, h2]

theorem takeBody_quoted (body r : Bytes) (hb : ∀ x ∈ body, x ≠ 34) :
    takeBody (34 :: (body ++ [34]) ++ r) = some (34 :: (body ++ [34]), r) := by
  have hnq : ∀ x ∈ body, (x != 34) = true := fun x hx => by simpa using hb x hx
  obtain ⟨h1, h2⟩ := TyParse.takeWhile_append_stop (· != 34) body (34 :: r) hnq (by simp)
  have e : 34 :: (body ++ [34]) ++ r = 34 :: (body ++ 34 :: r) := by simp
  rw [e]
  simp only [takeBody, h1, h2]

theorem takeBody_nameBody (n r : Bytes) (hne : n ≠ []) (hr : identEnd r = true) :
    takeBody (nameBody n ++ r) = some (nameBody n, r) := by
  unfold nameBody
  by_cases hd : allDigits n = true
  · simp only [hd, if_true]
    have hdig : ∀ x ∈ n, x ≠ 34 := by
      intro x hx hc
      have : n.all isDigit = true := by simp only [allDigits, Bool.and_eq_true] at hd; exact hd.2
      have := List.all_eq_true.mp this x hx
      subst hc; simp [isDigit] at this
    exact takeBody_quoted n r hdig
  · simp only [hd, Bool.false_eq_true, if_false]
    unfold escapeIdent
    by_cases hb : (n.all inTail && !digitLedJunk n) = true
    · simp only [hb, if_true]
      have hall : ∀ x ∈ n, inTail x = true := by
        simp only [Bool.and_eq_true] at hb; exact List.all_eq_true.mp hb.1
      obtain ⟨h1, h2⟩ := TyParse.takeWhile_append_stop inTail n r hall (identEnd_head r hr)
      cases n with
      | nil => exact absurd rfl hne
      | cons a n' =>
        have ha : a ≠ 34 := by
          intro h; have := hall a (by simp); subst h; exact absurd this (by decide)
        unfold takeBody
        simp only [List.cons_append] at h1 h2 ⊢
        split
        · rename_i r' heq; injection heq with h _; exact absurd h ha
        · simp [h1, h2]
    · simp only [hb, Bool.false_eq_true, if_false]
      exact takeBody_quoted _ r (TyParse.escape_no_quote inQuotedIdent (by decide) n)

/-- well-formed identifiers: names are non-empty, IDs fit the parser's 63 bits -/
def identOK : Ident → Prop
  | .name n => n ≠ []
  | .id k => k < 2 ^ 63
  | .anon => False

theorem decode_natDec (k : Nat) (hk : k < 2 ^ 63) : decodeIdentBody (natDec k) = .id (Int.ofNat k) := by
  unfold decodeIdentBody; rw [parseUint63_natDec k hk]

theorem readIdent_identString (i : Ident) (r : Bytes) (hi : identOK i) (hr : identEnd r = true) :
    readIdent (identString i ++ r) = some (i, r) := by
  cases i with
  | name n =>
    have hne : n ≠ [] := hi
    simp only [identString, localName_eq, List.cons_append, readIdent, takeBody_nameBody n r hne hr, decode_nameBody n hne, ofEnc]
  | id k =>
    have hk : k < 2 ^ 63 := hi
    simp [identString, readIdent, takeBody_natDec k r hr, decode_natDec k hk, ofEnc]
  | anon => exact absurd hi (by simp [identOK])

theorem labelName_eq (n : Bytes) : labelName n = nameBody n ++ [58] := by
  unfold labelName nameBody; cases allDigits n <;> simp

theorem readLabel_labelString (i : Ident) (hi : identOK i) : readLabel (labelString i) = some i := by
  cases i with
  | name n =>
    have hne : n ≠ [] := hi
    simp only [labelString, labelName_eq, readLabel, takeBody_nameBody n [58] hne (by decide), decode_nameBody n hne, ofEnc]
  | id k =>
    have hk : k < 2 ^ 63 := hi
    simp [labelString, readLabel, takeBody_natDec k [58] (by decide), decode_natDec k hk, ofEnc]
  | anon => exact absurd hi (by simp [identOK])


/-! ### operands -/

theorem const_head37 (useHex : Int → Bool) (t : Ty) (c : Const) :
    ∃ h rest, constIdent useHex t c = h :: rest ∧ h ≠ 37 ∧ h ≠ 97 ∧ h ≠ 40 ∧ h ≠ 64 := by
  cases c with
  | int x =>
    obtain ⟨h, rest, heq, hh⟩ := lit_head _ (intLit_shape useHex (intWidth t) x)
    refine ⟨h, rest, by simp [constIdent, heq], ?_, ?_, ?_, ?_⟩ <;> (intro e; subst e; simp [litHead, isDigit] at hh)
  | zero => exact ⟨_, _, rfl, by decide, by decide, by decide, by decide⟩
  | null => exact ⟨_, _, rfl, by decide, by decide, by decide, by decide⟩
  | undef => exact ⟨_, _, rfl, by decide, by decide, by decide, by decide⟩
  | struct p fs =>
    cases fs with
    | nil => cases p <;> exact ⟨_, _, rfl, by decide, by decide, by decide, by decide⟩
    | cons t1 c1 rest =>
      cases p
      · exact ⟨123, 32 :: (clistString useHex (.cons t1 c1 rest) ++ [32, 125]), by simp [constIdent], by decide, by decide, by decide, by decide⟩
      · exact ⟨60, 123 :: 32 :: (clistString useHex (.cons t1 c1 rest) ++ [32, 125, 62]), by simp [constIdent], by decide, by decide, by decide, by decide⟩
  | arr es => exact ⟨91, clistString useHex es ++ [93], by simp [constIdent], by decide, by decide, by decide, by decide⟩
  | vec es => exact ⟨60, clistString useHex es ++ [62], by simp [constIdent], by decide, by decide, by decide, by decide⟩

/-- what may follow a label reference: nothing, or the comma of the next literal -/
def endOK (r : Bytes) : Bool :=
  match r with
  | [] => true
  | c :: _ => c == 44

/-- what may follow an operand: nothing, a comma, or ` t…` (the ` to ` of a conversion) -/
def opEnd (r : Bytes) : Bool :=
  match r with
  | [] => true
  | 44 :: _ => true
  | 32 :: _ => true
  | _ => false

/-- what may follow a stand-alone type: nothing, a comma, ` [` (the incoming list of a phi), or ` %` / ` @` (the callee of a call) -/
def tyEnd (r : Bytes) : Bool :=
  match r with
  | [] => true
  | 44 :: _ => true
  | 32 :: 91 :: _ => true
  | 32 :: 37 :: _ => true
  | 32 :: 64 :: _ => true
  | _ => false

theorem endOK_identEnd (r : Bytes) (h : endOK r = true) : identEnd r = true := by
  cases r with
  | nil => rfl
  | cons c r => simp [endOK] at h; subst h; simp [identEnd, inTail, inHead, isAlpha, isUpper, isLower, isDigit]

theorem opEnd_identEnd (r : Bytes) (h : opEnd r = true) : identEnd r = true := by
  unfold opEnd at h
  split at h
  · rfl
  · simp [identEnd, inTail, inHead, isAlpha, isUpper, isLower, isDigit]
  · simp [identEnd, inTail, inHead, isAlpha, isUpper, isLower, isDigit]
  · cases h

theorem opEnd_stopC (r : Bytes) (h : opEnd r = true) : stopC r = true := by
  unfold opEnd at h
  split at h
  · rfl
  · simp [stopC]
  · simp [stopC]
  · cases h

def operandOK : Operand → Prop
  | .loc i => identOK i
  | .const c => cwf c = true
  | .glob n => n ≠ []

theorem readGlobal_globalName (n r : Bytes) (hne : n ≠ []) (hr : identEnd r = true) :
    readGlobal (Enc.globalName n ++ r) = some (n, r) := by
  simp only [globalName_eq, List.cons_append, readGlobal, takeBody_nameBody n r hne hr, decode_nameBody n hne]

theorem identString_head (i : Ident) (hi : identOK i) : ∃ rest, identString i = 37 :: rest := by
  cases i with
  | name n => exact ⟨nameBody n, localName_eq n⟩
  | id k => exact ⟨natDec k, rfl⟩
  | anon => exact absurd hi (by simp [identOK])

theorem readOperand_operandString (useHex : Int → Bool) (t : Ty) (o : Operand) (r : Bytes) (ho : operandOK o) (hr : opEnd r = true) :
    readOperand t (operandString useHex t o ++ r) = some (o, r) := by
  cases o with
  | loc i =>
    obtain ⟨rest, hh⟩ := identString_head i ho
    have hd : (identString i ++ r).head? = some 37 := by rw [hh]; rfl
    simp only [operandString, readOperand, hd, beq_self_eq_true, if_true, readIdent_identString i r ho (opEnd_identEnd r hr)]
  | const c =>
    obtain ⟨h, rest, heq, h37, _, _, h64⟩ := const_head37 useHex t c
    have hd : ((constIdent useHex t c ++ r).head? == some 37) = false := by
      rw [heq]; simp [h37]
    have hf : csize c ≤ (constIdent useHex t c ++ r).length + 1 := by
      have := csize_le_len useHex t c; simp only [List.length_append]; omega
    have hd2 : ((constIdent useHex t c ++ r).head? == some 64) = false := by
      rw [heq]; simp [h64]
    simp only [operandString, readOperand, hd, hd2, Bool.false_eq_true, if_false,
      read_const useHex c _ t r (opEnd_stopC r hr) hf ho]
  | glob n =>
    have hd : ((Enc.globalName n ++ r).head? == some 37) = false := by rw [globalName_eq]; rfl
    have hd2 : ((Enc.globalName n ++ r).head? == some 64) = true := by rw [globalName_eq]; rfl
    simp only [operandString, readOperand, hd, hd2, Bool.false_eq_true, if_false, if_true,
      readGlobal_globalName n r ho (opEnd_identEnd r hr)]

/-- a type followed by ` ` and an operand -/
theorem tyval_step (useHex : Int → Bool) (t : Ty) (o : Operand) (tail : Bytes) (ho : operandOK o) :
    TyParse.parseTy (tyFuel (tyString t ++ 32 :: (operandString useHex t o ++ tail))) (tyString t ++ 32 :: (operandString useHex t o ++ tail))
      = some (t, 32 :: (operandString useHex t o ++ tail)) := by
  have hh : ∃ h rest, operandString useHex t o ++ tail = h :: rest ∧ h ≠ 97 ∧ h ≠ 40 := by
    cases o with
    | loc i =>
      obtain ⟨rest, hh⟩ := identString_head i ho
      exact ⟨37, rest ++ tail, by simp [operandString, hh], by decide, by decide⟩
    | const c =>
      obtain ⟨h, rest, heq, _, h97, h40, _⟩ := const_head37 useHex t c
      exact ⟨h, rest ++ tail, by simp [operandString, heq], h97, h40⟩
    | glob n => exact ⟨64, nameBody n ++ tail, by simp [operandString, globalName_eq], by decide, by decide⟩
  obtain ⟨h, rest, heq, h97, h40⟩ := hh
  apply TyParse.parseTy_tyString_gen
  · simp [TyParse.cont]
  · rw [heq]; simp [TyParse.stopG, h97, h40]
  · have := TyParse.w_le_len t
    unfold tyFuel; simp only [List.length_append]; omega

/-- a stand-alone type followed by nothing, a comma or ` [` -/
theorem ty_step (t : Ty) (tail : Bytes) (hr : tyEnd tail = true) :
    TyParse.parseTy (tyFuel (tyString t ++ tail)) (tyString t ++ tail) = some (t, tail) := by
  apply TyParse.parseTy_tyString_gen
  · unfold tyEnd at hr
    split at hr
    · rfl
    · simp [TyParse.cont]
    · simp [TyParse.cont]
    · simp [TyParse.cont]
    · simp [TyParse.cont]
    · cases hr
  · unfold tyEnd at hr
    split at hr
    · rfl
    · simp [TyParse.stopG]
    · simp [TyParse.stopG]
    · simp [TyParse.stopG]
    · simp [TyParse.stopG]
    · cases hr
  · have := TyParse.w_le_len t
    unfold tyFuel; simp only [List.length_append]; omega

/-! ### phi incoming lists -/

def incOK (p : Operand × Ident) : Prop := operandOK p.1 ∧ identOK p.2

theorem readPhis_print (useHex : Int → Bool) (cur : Ty) : ∀ (incs : List (Operand × Ident)), incs ≠ [] → (∀ p ∈ incs, incOK p) →
    ∀ f, incs.length ≤ f → readPhis f cur (phisString useHex cur incs) = some (incs, [])
  | [], h, _, _, _ => absurd rfl h
  | [(o, b)], _, hp, f, hf => by
    obtain ⟨f', rfl⟩ : ∃ f', f = f' + 1 := ⟨f - 1, by simp at hf; omega⟩
    have ho := hp (o, b) (by simp)
    have e : phisString useHex cur [(o, b)] = sPhiOpen ++ (operandString useHex cur o ++ (sComma ++ (identString b ++ sPhiClose))) := by
      simp [phisString]
    rw [e, readPhis, TyParse.stripPrefix_append]
    have hro := readOperand_operandString useHex cur o (sComma ++ (identString b ++ sPhiClose)) ho.1 (by simp [sComma, opEnd])
    simp only [hro]
    simp only [sComma, List.cons_append, List.nil_append]
    simp only [readIdent_identString b sPhiClose ho.2 (by simp [sPhiClose, identEnd, inTail, inHead, isAlpha, isUpper, isLower, isDigit])]
    simp [sPhiClose]
  | (o, b) :: q :: ps, _, hp, f, hf => by
    obtain ⟨f', rfl⟩ : ∃ f', f = f' + 1 := ⟨f - 1, by simp at hf; omega⟩
    have ho := hp (o, b) (by simp)
    have ih := readPhis_print useHex cur (q :: ps) (by simp) (fun x hx => hp x (by simp [hx])) f' (by simp at hf ⊢; omega)
    have e : phisString useHex cur ((o, b) :: q :: ps) =
        sPhiOpen ++ (operandString useHex cur o ++ (sComma ++ (identString b ++ (sPhiClose ++ (sComma ++ phisString useHex cur (q :: ps)))))) := by
      simp [phisString]
    rw [e, readPhis, TyParse.stripPrefix_append]
    have hro := readOperand_operandString useHex cur o (sComma ++ (identString b ++ (sPhiClose ++ (sComma ++ phisString useHex cur (q :: ps))))) ho.1 (by simp [sComma, opEnd])
    simp only [hro]
    simp only [sComma, List.cons_append, List.nil_append]
    have hri := readIdent_identString b (sPhiClose ++ (44 :: 32 :: phisString useHex cur (q :: ps))) ho.2
      (by simp [sPhiClose, identEnd, inTail, inHead, isAlpha, isUpper, isLower, isDigit])
    simp only [hri]
    simp [sPhiClose, ih]

theorem phisString_len : ∀ (incs : List (Operand × Ident)), incs.length ≤ (phisString useHex cur incs).length
  | [] => by simp
  | [(o, b)] => by simp [phisString, sPhiOpen]
  | (o, b) :: q :: ps => by
    have := phisString_len (useHex := useHex) (cur := cur) (q :: ps)
    simp only [phisString, List.length_append, List.length_cons, sPhiOpen] at this ⊢
    omega

theorem phisString_head (useHex : Int → Bool) (cur : Ty) (p : Operand × Ident) (ps : List (Operand × Ident)) :
    (phisString useHex cur (p :: ps)).head? = some 91 := by
  obtain ⟨o, b⟩ := p
  cases ps with
  | nil => simp [phisString, sPhiOpen]
  | cons q qs => simp [phisString, sPhiOpen]

/-! ### rows: the generic reader inverts the generic printer -/

def argOK : Arg → Prop
  | .ty _ => True
  | .tyval _ o => operandOK o
  | .val o => operandOK o
  | .lab i => identOK i
  | .retv none => True
  | .retv (some (t, o)) => operandOK o ∧ t ≠ .void
  | .phis incs => incs ≠ [] ∧ ∀ p ∈ incs, incOK p
  | .nums ks => ∀ k ∈ ks, k < 2 ^ 63
  | .align a => ∀ n ∈ a, n < 2 ^ 63
  | .tyvals ixs => ∀ p ∈ ixs, operandOK p.2
  | .flags _ => True
  | .kw _ => True
  | .okw _ => True
  | .loc i => identOK i
  | .pad p => ∀ i ∈ p, identOK i
  | .labs l => ∀ i ∈ l, identOK i
  | .unwind u => ∀ i ∈ u, identOK i

/-- a local or a global (not a constant) -/
def isRef : Operand → Bool
  | .const _ => false
  | _ => true

/-- the arguments fill the non-literal slots, in order -/
inductive Matches : List Slot → List Arg → Prop
  | nil : Matches [] []
  | lit (s : Bytes) {fs : List Slot} {as : List Arg} : Matches fs as → Matches (.lit s :: fs) as
  | ty (t : Ty) {fs : List Slot} {as : List Arg} : Matches fs as → Matches (.ty :: fs) (.ty t :: as)
  | tyval (t : Ty) (o : Operand) {fs : List Slot} {as : List Arg} : Matches fs as → Matches (.tyval :: fs) (.tyval t o :: as)
  | val (o : Operand) {fs : List Slot} {as : List Arg} : Matches fs as → Matches (.val :: fs) (.val o :: as)
  | lab (i : Ident) {fs : List Slot} {as : List Arg} : Matches fs as → Matches (.lab :: fs) (.lab i :: as)
  | retv (v : Option (Ty × Operand)) {fs : List Slot} {as : List Arg} : Matches fs as → Matches (.retv :: fs) (.retv v :: as)
  | phis (incs : List (Operand × Ident)) {fs : List Slot} {as : List Arg} : Matches fs as → Matches (.phis :: fs) (.phis incs :: as)
  | nums (ks : List Nat) {fs : List Slot} {as : List Arg} : Matches fs as → Matches (.nums :: fs) (.nums ks :: as)
  | align (a : Option Nat) {fs : List Slot} {as : List Arg} : Matches fs as → Matches (.align :: fs) (.align a :: as)
  | tyvals (ixs : List (Ty × Operand)) {fs : List Slot} {as : List Arg} : Matches fs as → Matches (.tyvals :: fs) (.tyvals ixs :: as)
  | callee (o : Operand) (h : isRef o = true) {fs : List Slot} {as : List Arg} : Matches fs as → Matches (.callee :: fs) (.val o :: as)
  | cargs (ixs : List (Ty × Operand)) {fs : List Slot} {as : List Arg} : Matches fs as → Matches (.cargs :: fs) (.tyvals ixs :: as)
  | flags (ks : List Bytes) (xs : List Nat) (t : Ty) (o : Operand) (hb : ∀ i ∈ xs, i < ks.length) (hty : flagTyOK ks t = true)
      {fs : List Slot} {as : List Arg} : Matches fs as → Matches (.flags ks :: .tyval :: fs) (.flags xs :: .tyval t o :: as)
  | flagsTy (ks : List Bytes) (xs : List Nat) (t : Ty) (hb : ∀ i ∈ xs, i < ks.length) (hty : flagTyCommaOK ks t = true)
      {fs : List Slot} {as : List Arg} : Matches fs as → Matches (.flags ks :: .ty :: fs) (.flags xs :: .ty t :: as)
  | flagsKw (ks : List Bytes) (xs : List Nat) (ks2 : List Bytes) (i : Nat) (hb : ∀ i ∈ xs, i < ks.length) (hi : i < ks2.length)
      {fs : List Slot} {as : List Arg} : Matches fs as → Matches (.flags ks :: .kw ks2 :: fs) (.flags xs :: .kw i :: as)
  | kw (ks : List Bytes) (i : Nat) (hi : i < ks.length) {fs : List Slot} {as : List Arg} : Matches fs as → Matches (.kw ks :: fs) (.kw i :: as)
  | okw (ks : List Bytes) (o : Option Nat) (ho : ∀ i ∈ o, i < ks.length) {fs : List Slot} {as : List Arg} :
      Matches fs as → Matches (.okw ks :: fs) (.okw o :: as)
  | loc (i : Ident) {fs : List Slot} {as : List Arg} : Matches fs as → Matches (.loc :: fs) (.loc i :: as)
  | pad (p : Option Ident) {fs : List Slot} {as : List Arg} : Matches fs as → Matches (.pad :: fs) (.pad p :: as)
  | labs (l : List Ident) {fs : List Slot} {as : List Arg} : Matches fs as → Matches (.labs :: fs) (.labs l :: as)
  | unwind (u : Option Ident) {fs : List Slot} {as : List Arg} : Matches fs as → Matches (.unwind :: fs) (.unwind u :: as)
  | eargs (ixs : List (Ty × Operand)) {fs : List Slot} {as : List Arg} : Matches fs as → Matches (.eargs :: fs) (.tyvals ixs :: as)

theorem matches_nil (as : List Arg) (h : Matches [] as) : as = [] := by cases h; rfl

def startsComma : List Slot → Bool
  | [] => true
  | .lit (44 :: _) :: _ => true
  | _ => false

/-- what may follow a label: nothing, the comma of the next literal, or ` [` (the bracket that opens the cases of a switch) -/
def labFollow : List Slot → Bool
  | [] => true
  | .lit (44 :: _) :: _ => true
  | .lit (32 :: _) :: _ => true
  | _ => false

/-- every keyword starts with a space -/
def startSp (ks : List Bytes) : Bool := ks.all fun k => k.head? == some 32

def opFollow : List Slot → Bool
  | [] => true
  | .lit (44 :: _) :: _ => true
  | .lit (32 :: 116 :: _) :: _ => true
  | [.nums] => true
  | [.align] => true
  | [.tyvals] => true
  | .kw ks :: _ => startSp ks
  | [.okw ks, .align] => startSp ks
  | _ => false

def tyFollow : List Slot → Bool
  | [] => true
  | .lit (44 :: _) :: _ => true
  | .lit [32] :: .phis :: _ => true
  | .lit [32] :: .callee :: _ => true
  | [.align] => true
  | _ => false

/-- two byte strings differ at a position both have -/
def diverge : Bytes → Bytes → Bool
  | a :: p, b :: q => a != b || diverge p q
  | _, _ => false

theorem stripPrefix_diverge : ∀ (p q rest : Bytes), diverge p q = true → TyParse.stripPrefix p (q ++ rest) = none
  | [], _, _, h => by simp [diverge] at h
  | _ :: _, [], _, h => by simp [diverge] at h
  | a :: p, b :: q, rest, h => by
    simp only [diverge, Bool.or_eq_true, bne_iff_ne, ne_eq] at h
    simp only [List.cons_append, TyParse.stripPrefix]
    by_cases hab : a = b
    · subst hab
      simp only [beq_self_eq_true, if_true]
      exact stripPrefix_diverge p q rest (by rcases h with h | h; exact absurd rfl h; exact h)
    · simp [hab]

theorem stripPrefix_both : ∀ (p a b : Bytes), TyParse.stripPrefix (p ++ a) (p ++ b) = TyParse.stripPrefix a b
  | [], a, b => rfl
  | c :: p, a, b => by simp [TyParse.stripPrefix, stripPrefix_both p a b]

theorem stripPrefix_extend : ∀ (p A X : Bytes), TyParse.stripPrefix p A = none → (TyParse.stripPrefix p (A ++ X)).isSome = true →
    ∃ q, q ≠ [] ∧ p = A ++ q
  | [], A, X, h, _ => by simp [TyParse.stripPrefix] at h
  | c :: p, [], X, _, _ => ⟨c :: p, by simp, rfl⟩
  | c :: p, a :: A, X, h, h2 => by
    simp only [TyParse.stripPrefix, List.cons_append] at h h2
    by_cases hca : (c == a) = true
    · simp only [hca, if_true] at h h2
      obtain ⟨q, hq, hp⟩ := stripPrefix_extend p A X h h2
      have : c = a := by simpa using hca
      exact ⟨q, hq, by rw [hp, this]; rfl⟩
    · simp [hca] at h2

/-- a text that ends with a space and does not start with the keyword `k` followed by a space does not start with it whatever is appended -/
theorem stripPrefix_key_append (k A X : Bytes) (hk : (32 : UInt8) ∉ k) (hl : A.getLast? = some 32)
    (h : TyParse.stripPrefix (k ++ [32]) A = none) : TyParse.stripPrefix (k ++ [32]) (A ++ X) = none := by
  cases hs : TyParse.stripPrefix (k ++ [32]) (A ++ X) with
  | none => rfl
  | some r =>
    exfalso
    obtain ⟨q, hq, hp⟩ := stripPrefix_extend (k ++ [32]) A X h (by rw [hs]; rfl)
    have hq' : q = q.dropLast ++ [q.getLast hq] := (List.dropLast_concat_getLast hq).symm
    rw [hq', ← List.append_assoc] at hp
    obtain ⟨h1, _⟩ := List.append_inj' hp (by simp)
    have hmem : (32 : UInt8) ∈ A := List.mem_of_getLast? hl
    exact hk (by rw [h1]; simp [hmem])

/-- flag keywords: non-empty, without a space, and (each followed by a space) diverging from every later one -/
def keysDiverge : List Bytes → Bool
  | [] => true
  | k :: ks => ks.all (fun q => diverge (k ++ [32]) (q ++ [32])) && keysDiverge ks

def keysOK (ks : List Bytes) : Bool := ks.all (fun k => !k.contains 32) && keysDiverge ks

/-- keywords that are matched as they stand: each diverges from every later one -/
def kwsDiverge : List Bytes → Bool
  | [] => true
  | k :: ks => ks.all (fun q => diverge k q) && kwsDiverge ks

/-- none of the flag keywords (followed by a space) starts one of the keywords `ks2`, each of which ends with a space -/
def flagsKwOK (ks ks2 : List Bytes) : Bool :=
  ks2.all fun q => q.getLast? == some 32 && ks.all fun k => !(TyParse.stripPrefix (k ++ [32]) q).isSome

/-- shape of a row: what follows each kind of slot; the two list-like slots end the row -/
def fmtOK : List Slot → Bool
  | [] => true
  | .lit _ :: fs => fmtOK fs
  | .ty :: fs => tyFollow fs && fmtOK fs
  | .tyval :: fs => opFollow fs && fmtOK fs
  | .val :: fs => opFollow fs && fmtOK fs
  | .lab :: fs => labFollow fs && fmtOK fs
  | .retv :: fs => fs.isEmpty
  | .phis :: fs => fs.isEmpty
  | .nums :: fs => fs.isEmpty
  | .align :: fs => fs.isEmpty
  | .tyvals :: fs => fs.isEmpty
  | .callee :: fs => (match fs with | [.cargs] => true | _ => false)
  | .cargs :: fs => fs.isEmpty
  | .flags ks :: fs => keysOK ks && (match fs with | .tyval :: _ => true | .ty :: .lit (44 :: 32 :: _) :: _ => true | .kw ks2 :: _ => flagsKwOK ks ks2 | _ => false) && fmtOK fs
  | .kw ks :: fs => kwsDiverge ks && fmtOK fs
  | .okw ks :: fs => kwsDiverge ks && startSp ks && (match fs with | [.align] => true | _ => false)
  | .loc :: fs => labFollow fs && fmtOK fs
  | .pad :: fs => labFollow fs && fmtOK fs
  | .labs :: fs => (match fs with | .lit (93 :: _) :: _ => true | _ => false) && fmtOK fs
  | .unwind :: fs => fs.isEmpty
  | .eargs :: fs => fs.isEmpty

theorem endOK_print (useHex : Int → Bool) (cur : Ty) (fs : List Slot) (as : List Arg)
    (hs : startsComma fs = true) : endOK (printSlots useHex cur fs as) = true := by
  unfold startsComma at hs
  split at hs
  · simp [printSlots, endOK]
  · simp [printSlots, endOK]
  · cases hs

theorem labEnd_print (useHex : Int → Bool) (cur : Ty) (fs : List Slot) (as : List Arg)
    (hs : labFollow fs = true) : identEnd (printSlots useHex cur fs as) = true := by
  unfold labFollow at hs
  split at hs
  · simp [printSlots, identEnd]
  · simp [printSlots, identEnd, inTail, inHead, isAlpha, isUpper, isLower, isDigit]
  · simp [printSlots, identEnd, inTail, inHead, isAlpha, isUpper, isLower, isDigit]
  · cases hs

theorem startSp_getD (ks : List Bytes) (i : Nat) (hi : i < ks.length) (h : startSp ks = true) : ∃ r, ks.getD i [] = 32 :: r := by
  have hk : ks.getD i [] = ks[i] := by simp [List.getD, List.getElem?_eq_getElem hi]
  have hm : ks[i] ∈ ks := List.getElem_mem hi
  have := List.all_eq_true.mp h _ hm
  rw [hk]
  cases hx : ks[i] with
  | nil => rw [hx] at this; simp at this
  | cons c r => rw [hx] at this; simp at this; exact ⟨r, by rw [this]⟩

theorem opEnd_print (useHex : Int → Bool) (cur : Ty) (fs : List Slot) (as : List Arg)
    (hs : opFollow fs = true) (hm : Matches fs as) : opEnd (printSlots useHex cur fs as) = true := by
  unfold opFollow at hs
  split at hs
  · simp [printSlots, opEnd]
  · simp [printSlots, opEnd]
  · simp [printSlots, opEnd]
  · cases as with
    | nil => simp [printSlots, opEnd]
    | cons a as' =>
      cases a <;> try (simp [printSlots, opEnd])
      rename_i ks
      cases ks with
      | nil => simp [numsString, printSlots, opEnd]
      | cons k ks' => simp [numsString, sComma, opEnd]
  · cases as with
    | nil => simp [printSlots, opEnd]
    | cons a as' =>
      cases a <;> try (simp [printSlots, opEnd])
      rename_i al
      cases al with
      | none => simp [alignString, printSlots, opEnd]
      | some n => simp [alignString, sAlign, opEnd]
  · cases as with
    | nil => simp [printSlots, opEnd]
    | cons a as' =>
      cases a <;> try (simp [printSlots, opEnd])
      rename_i ixs
      cases ixs with
      | nil => simp [tyvalsString, printSlots, opEnd]
      | cons p ps => obtain ⟨t, o⟩ := p; simp [tyvalsString, sComma, opEnd]
  · cases hm with
    | kw _ i hi hm' =>
      obtain ⟨r, hr⟩ := startSp_getD _ i hi hs
      simp only [printSlots]; rw [hr]; simp [opEnd]
  · cases hm with
    | okw _ o ho hm' =>
      cases hm' with
      | align a hm'' =>
        have := matches_nil _ hm''; subst this
        cases o with
        | none =>
          cases a with
          | none => simp [printSlots, alignString, opEnd]
          | some n => simp [printSlots, alignString, sAlign, opEnd]
        | some i =>
          obtain ⟨r, hr⟩ := startSp_getD _ i (ho i rfl) hs
          simp only [printSlots]; rw [hr]; simp [opEnd]
  · cases hs

theorem tyEnd_print (useHex : Int → Bool) (cur : Ty) (fs : List Slot) (as : List Arg)
    (hs : tyFollow fs = true) (hm : Matches fs as) (ha : ∀ a ∈ as, argOK a) : tyEnd (printSlots useHex cur fs as) = true := by
  unfold tyFollow at hs
  split at hs
  · simp [printSlots, tyEnd]
  · simp [printSlots, tyEnd]
  · rename_i rest
    cases hm with
    | lit s hm' =>
      cases hm' with
      | phis incs hm'' =>
        have := ha (.phis incs) (by simp)
        obtain ⟨hne, _⟩ := this
        cases incs with
        | nil => exact absurd rfl hne
        | cons p ps =>
          have hh := phisString_head useHex cur p ps
          cases hps : phisString useHex cur (p :: ps) with
          | nil => rw [hps] at hh; simp at hh
          | cons c r => rw [hps] at hh; simp at hh; subst hh; simp [printSlots, hps, tyEnd]
  · rename_i rest
    cases hm with
    | lit s hm' =>
      cases hm' with
      | callee o hr hm'' =>
        have ho : operandOK o := ha (.val o) (by simp)
        cases o with
        | const c => simp [isRef] at hr
        | loc i =>
          obtain ⟨r, hh⟩ := identString_head i ho
          simp [printSlots, operandString, hh, tyEnd]
        | glob n => simp [printSlots, operandString, globalName_eq, tyEnd]
  · cases hm with
    | align a hm' =>
      have := matches_nil _ hm'; subst this
      cases a with
      | none => simp [printSlots, alignString, tyEnd]
      | some n => simp [printSlots, alignString, sAlign, tyEnd]
  · cases hs


theorem readNums_print : ∀ (ks : List Nat) (f : Nat), (∀ k ∈ ks, k < 2 ^ 63) → ks.length + 1 ≤ f → readNums f (numsString ks) = some ks
  | [], f, _, hf => by
    obtain ⟨f', rfl⟩ : ∃ f', f = f' + 1 := ⟨f - 1, by simp at hf; omega⟩
    simp [numsString, readNums]
  | k :: ks, f, hk, hf => by
    obtain ⟨f', rfl⟩ : ∃ f', f = f' + 1 := ⟨f - 1, by simp at hf; omega⟩
    have ih := readNums_print ks f' (fun x hx => hk x (by simp [hx])) (by simp at hf ⊢; omega)
    have hstop : ∀ c ∈ (numsString ks).head?, isDigit c = false := by
      cases ks with
      | nil => simp [numsString]
      | cons a r => simp [numsString, sComma, isDigit]
    obtain ⟨h1, h2⟩ := TyParse.takeWhile_append_stop isDigit (natDec k) (numsString ks) (natDec_digits k) hstop
    have hs : numsString (k :: ks) = 44 :: 32 :: (natDec k ++ numsString ks) := by simp [numsString, sComma]
    have hsp : TyParse.stripPrefix sComma (44 :: 32 :: (natDec k ++ numsString ks)) = some (natDec k ++ numsString ks) := by
      simp [sComma, TyParse.stripPrefix]
    rw [hs]
    simp only [readNums, hsp, h1, h2, parseUint63_natDec k (hk k (by simp)), ih, Option.map_some]

theorem readTyvals_print (useHex : Int → Bool) : ∀ (ixs : List (Ty × Operand)) (f : Nat), (∀ p ∈ ixs, operandOK p.2) → ixs.length + 1 ≤ f →
    readTyvals f (tyvalsString useHex ixs) = some ixs
  | [], f, _, hf => by
    obtain ⟨f', rfl⟩ : ∃ f', f = f' + 1 := ⟨f - 1, by simp at hf; omega⟩
    simp [tyvalsString, readTyvals]
  | (t, o) :: r, f, hk, hf => by
    obtain ⟨f', rfl⟩ : ∃ f', f = f' + 1 := ⟨f - 1, by simp at hf; omega⟩
    have ho : operandOK o := hk (t, o) (by simp)
    have ih := readTyvals_print useHex r f' (fun x hx => hk x (by simp [hx])) (by simp at hf ⊢; omega)
    have hend : opEnd (tyvalsString useHex r) = true := by
      cases r with
      | nil => simp [tyvalsString, opEnd]
      | cons q qs => obtain ⟨t', o'⟩ := q; simp [tyvalsString, sComma, opEnd]
    have hs : tyvalsString useHex ((t, o) :: r) = 44 :: 32 :: (tyString t ++ 32 :: (operandString useHex t o ++ tyvalsString useHex r)) := by
      simp [tyvalsString, sComma]
    have hsp : TyParse.stripPrefix sComma (44 :: 32 :: (tyString t ++ 32 :: (operandString useHex t o ++ tyvalsString useHex r)))
        = some (tyString t ++ 32 :: (operandString useHex t o ++ tyvalsString useHex r)) := by
      simp [sComma, TyParse.stripPrefix]
    rw [hs]
    simp only [readTyvals, hsp, tyval_step useHex t o _ ho, readOperand_operandString useHex t o _ ho hend, ih, Option.map_some]

theorem tyvalsString_len (useHex : Int → Bool) : ∀ (ixs : List (Ty × Operand)), ixs.length ≤ (tyvalsString useHex ixs).length
  | [] => by simp [tyvalsString]
  | (t, o) :: r => by have := tyvalsString_len useHex r; simp [tyvalsString, sComma]; omega

theorem numsString_len : ∀ (ks : List Nat), ks.length ≤ (numsString ks).length
  | [] => by simp [numsString]
  | k :: ks => by have := numsString_len ks; simp [numsString, sComma]; omega

theorem readAlign_print (a : Option Nat) (h : ∀ n ∈ a, n < 2 ^ 63) : readAlign (alignString a) = some a := by
  cases a with
  | none => simp [alignString, readAlign]
  | some n =>
    have hn := h n (by simp)
    have hs : alignString (some n) = 44 :: ([32, 97, 108, 105, 103, 110, 32] ++ natDec n) := by simp [alignString, sAlign]
    have hsp : TyParse.stripPrefix sAlign (44 :: ([32, 97, 108, 105, 103, 110, 32] ++ natDec n)) = some (natDec n) := by
      simp [sAlign, TyParse.stripPrefix]
    rw [hs]
    simp only [readAlign, hsp, parseUint63_natDec n hn]

theorem findFlag_spec : ∀ (ks : List Bytes) (i0 i : Nat) (k rest : Bytes), keysDiverge ks = true → ks[i]? = some k →
    findFlag i0 ks (k ++ [32] ++ rest) = some (i0 + i, rest)
  | [], _, _, _, _, _, h => by simp at h
  | q :: ks, i0, 0, k, rest, _, h => by
    simp at h; subst h
    have e : q ++ [32] ++ rest = (q ++ [32]) ++ rest := rfl
    simp only [findFlag, e, TyParse.stripPrefix_append, Nat.add_zero]
  | q :: ks, i0, i + 1, k, rest, hd, h => by
    simp only [keysDiverge, Bool.and_eq_true, List.all_eq_true] at hd
    have hr : ks[i]? = some k := by simpa using h
    have hmem : k ∈ ks := List.mem_of_getElem? hr
    have : TyParse.stripPrefix (q ++ [32]) (k ++ [32] ++ rest) = none :=
      stripPrefix_diverge (q ++ [32]) (k ++ [32]) rest (hd.1 k hmem)
    simp only [findFlag, this]
    rw [findFlag_spec ks (i0 + 1) i k rest hd.2 hr]
    simp; omega

theorem findFlag_none : ∀ (ks : List Bytes) (i0 : Nat) (s : Bytes), (∀ k ∈ ks, TyParse.stripPrefix (k ++ [32]) s = none) → findFlag i0 ks s = none
  | [], _, _, _ => rfl
  | k :: ks, i0, s, h => by
    simp only [findFlag, h k (by simp)]
    exact findFlag_none ks (i0 + 1) s (fun q hq => h q (by simp [hq]))

theorem readFlags_print (ks : List Bytes) (rest : Bytes) (hd : keysDiverge ks = true)
    (hrest : ∀ k ∈ ks, TyParse.stripPrefix (k ++ [32]) rest = none) :
    ∀ (xs : List Nat) (f : Nat), (∀ i ∈ xs, i < ks.length) → xs.length + 1 ≤ f → readFlags f ks (flagsString ks xs ++ rest) = (xs, rest)
  | [], f, _, hf => by
    obtain ⟨f', rfl⟩ : ∃ f', f = f' + 1 := ⟨f - 1, by simp at hf; omega⟩
    simp [flagsString, readFlags, findFlag_none ks 0 rest hrest]
  | i :: xs, f, hb, hf => by
    obtain ⟨f', rfl⟩ : ∃ f', f = f' + 1 := ⟨f - 1, by simp at hf; omega⟩
    have hi : i < ks.length := hb i (by simp)
    have hk : ks[i]? = some (ks.getD i []) := by
      simp [List.getD, List.getElem?_eq_getElem hi]
    have ih := readFlags_print ks rest hd hrest xs f' (fun j hj => hb j (by simp [hj])) (by simp at hf ⊢; omega)
    have e : flagsString ks (i :: xs) ++ rest = ks.getD i [] ++ [32] ++ (flagsString ks xs ++ rest) := by
      simp [flagsString]
    rw [e]
    simp only [readFlags, findFlag_spec ks 0 i (ks.getD i []) _ hd hk, Nat.zero_add, ih]

theorem findKw_spec : ∀ (ks : List Bytes) (i0 i : Nat) (k rest : Bytes), kwsDiverge ks = true → ks[i]? = some k →
    findKw i0 ks (k ++ rest) = some (i0 + i, rest)
  | [], _, _, _, _, _, h => by simp at h
  | q :: ks, i0, 0, k, rest, _, h => by
    simp at h; subst h
    simp only [findKw, TyParse.stripPrefix_append, Nat.add_zero]
  | q :: ks, i0, i + 1, k, rest, hd, h => by
    simp only [kwsDiverge, Bool.and_eq_true, List.all_eq_true] at hd
    have hr : ks[i]? = some k := by simpa using h
    have hmem : k ∈ ks := List.mem_of_getElem? hr
    have : TyParse.stripPrefix q (k ++ rest) = none := stripPrefix_diverge q k rest (hd.1 k hmem)
    simp only [findKw, this]
    rw [findKw_spec ks (i0 + 1) i k rest hd.2 hr]
    simp; omega

theorem findKw_none : ∀ (ks : List Bytes) (i0 : Nat) (s : Bytes), (∀ k ∈ ks, TyParse.stripPrefix k s = none) → findKw i0 ks s = none
  | [], _, _, _ => rfl
  | k :: ks, i0, s, h => by
    simp only [findKw, h k (by simp)]
    exact findKw_none ks (i0 + 1) s (fun q hq => h q (by simp [hq]))

/-- a keyword that starts with a space is no prefix of the empty text or of a text that starts with a comma -/
theorem stripPrefix_sp_none (k s : Bytes) (hk : k.head? = some 32) (hs : s = [] ∨ s.head? = some 44) : TyParse.stripPrefix k s = none := by
  cases k with
  | nil => simp at hk
  | cons c k' =>
    simp at hk; subst hk
    rcases hs with hs | hs
    · subst hs; simp [TyParse.stripPrefix]
    · cases s with
      | nil => simp at hs
      | cons d s' => simp at hs; subst hs; simp [TyParse.stripPrefix]

theorem getD_getElem? (ks : List Bytes) (i : Nat) (hi : i < ks.length) : ks[i]? = some (ks.getD i []) := by
  simp [List.getD, List.getElem?_eq_getElem hi]

theorem flagsString_len (ks : List Bytes) : ∀ (xs : List Nat), xs.length ≤ (flagsString ks xs).length
  | [] => by simp [flagsString]
  | i :: xs => by have := flagsString_len ks xs; simp [flagsString]; omega

theorem readCallee_print (useHex : Int → Bool) (o : Operand) (r : Bytes) (hr : isRef o = true) (ho : operandOK o) (he : identEnd r = true) :
    readCallee (operandString useHex calleeTy o ++ r) = some (o, r) := by
  cases o with
  | const c => simp [isRef] at hr
  | loc i =>
    obtain ⟨rest, hh⟩ := identString_head i ho
    have hd : (identString i ++ r).head? = some 37 := by rw [hh]; rfl
    simp only [operandString, readCallee, hd, beq_self_eq_true, if_true, readIdent_identString i r ho he]
  | glob n =>
    have hd : ((Enc.globalName n ++ r).head? == some 37) = false := by rw [globalName_eq]; rfl
    have hd2 : ((Enc.globalName n ++ r).head? == some 64) = true := by rw [globalName_eq]; rfl
    simp only [operandString, readCallee, hd, hd2, Bool.false_eq_true, if_false, if_true, readGlobal_globalName n r ho he]

theorem readCargs_print (useHex : Int → Bool) (ixs : List (Ty × Operand)) (hk : ∀ p ∈ ixs, operandOK p.2) :
    readCargs (cargsString useHex ixs) = some ixs := by
  cases ixs with
  | nil => simp [cargsString, tyvalsString, readCargs]
  | cons p rest =>
    obtain ⟨t, o⟩ := p
    have hs : tyvalsString useHex ((t, o) :: rest) = sComma ++ (tyString t ++ 32 :: (operandString useHex t o ++ tyvalsString useHex rest)) := by
      simp [tyvalsString]
    obtain ⟨c, cs, hc⟩ : ∃ c cs, tyString t ++ 32 :: (operandString useHex t o ++ tyvalsString useHex rest) = c :: cs := by
      cases h : tyString t ++ 32 :: (operandString useHex t o ++ tyvalsString useHex rest) with
      | nil => simp at h
      | cons c cs => exact ⟨c, cs, rfl⟩
    have hlen := tyvalsString_len useHex ((t, o) :: rest)
    have hx : cargsString useHex ((t, o) :: rest) = 40 :: ((c :: cs) ++ [41]) := by
      simp only [cargsString, hs, hc, sComma]; rfl
    have hne : ((c :: cs) ++ [41] == [41]) = false := by
      cases cs <;> simp
    have hl : ((c :: cs) ++ [41]).getLast? = some 41 := by
      rw [List.getLast?_append]; simp
    have hd : ((c :: cs) ++ [41]).dropLast = c :: cs := List.dropLast_concat
    have hfuel : ((t, o) :: rest).length + 1 ≤ ((c :: cs) ++ [41]).length + 2 := by
      rw [hs, hc] at hlen
      simp only [List.length_append, List.length_cons, sComma, List.length_nil] at hlen ⊢
      omega
    have hrt := readTyvals_print useHex ((t, o) :: rest) _ hk hfuel
    rw [hs, hc] at hrt
    rw [hx]
    simp only [readCargs, hne, Bool.false_eq_true, if_false, hl, beq_self_eq_true, if_true, hd]
    exact hrt

theorem readEargs_print (useHex : Int → Bool) (ixs : List (Ty × Operand)) (hk : ∀ p ∈ ixs, operandOK p.2) :
    readEargs (eargsString useHex ixs) = some ixs := by
  cases ixs with
  | nil => simp [eargsString, tyvalsString, readEargs]
  | cons p rest =>
    obtain ⟨t, o⟩ := p
    have hs : tyvalsString useHex ((t, o) :: rest) = sComma ++ (tyString t ++ 32 :: (operandString useHex t o ++ tyvalsString useHex rest)) := by
      simp [tyvalsString]
    obtain ⟨c, cs, hc⟩ : ∃ c cs, tyString t ++ 32 :: (operandString useHex t o ++ tyvalsString useHex rest) = c :: cs := by
      cases h : tyString t ++ 32 :: (operandString useHex t o ++ tyvalsString useHex rest) with
      | nil => simp at h
      | cons c cs => exact ⟨c, cs, rfl⟩
    have hlen := tyvalsString_len useHex ((t, o) :: rest)
    have hx : eargsString useHex ((t, o) :: rest) = 91 :: ((c :: cs) ++ [93]) := by
      simp only [eargsString, hs, hc, sComma]; rfl
    have hne : ((c :: cs) ++ [93] == [93]) = false := by
      cases cs <;> simp
    have hl : ((c :: cs) ++ [93]).getLast? = some 93 := by
      rw [List.getLast?_append]; simp
    have hd : ((c :: cs) ++ [93]).dropLast = c :: cs := List.dropLast_concat
    have hfuel : ((t, o) :: rest).length + 1 ≤ ((c :: cs) ++ [93]).length + 2 := by
      rw [hs, hc] at hlen
      simp only [List.length_append, List.length_cons, sComma, List.length_nil] at hlen ⊢
      omega
    have hrt := readTyvals_print useHex ((t, o) :: rest) _ hk hfuel
    rw [hs, hc] at hrt
    rw [hx]
    simp only [readEargs, hne, Bool.false_eq_true, if_false, hl, beq_self_eq_true, if_true, hd]
    exact hrt

theorem readPad_print (p : Option Ident) (r : Bytes) (hp : ∀ i ∈ p, identOK i) (hr : identEnd r = true) :
    readPad (padString p ++ r) = some (p, r) := by
  cases p with
  | none => simp [padString, readPad, sNone, TyParse.stripPrefix]
  | some i =>
    have hi := hp i rfl
    obtain ⟨rest, hh⟩ := identString_head i hi
    have hd : (identString i ++ r).head? = some 37 := by rw [hh]; rfl
    simp only [padString, readPad, hd, beq_self_eq_true, if_true, readIdent_identString i r hi hr]

theorem labsString_head (i : Ident) (l : List Ident) : ∃ rest, labsString (i :: l) = sLabel ++ rest := by
  cases l with
  | nil => exact ⟨identString i, rfl⟩
  | cons j r => exact ⟨identString i ++ sComma ++ labsString (j :: r), by simp [labsString]⟩

theorem readLabs_print : ∀ (l : List Ident) (r : Bytes) (f : Nat), (∀ i ∈ l, identOK i) → r.head? = some 93 → l.length + 1 ≤ f →
    readLabs f (labsString l ++ r) = some (l, r)
  | [], r, f, _, hr, hf => by
    obtain ⟨f', rfl⟩ : ∃ f', f = f' + 1 := ⟨f - 1, by simp at hf; omega⟩
    cases r with
    | nil => simp at hr
    | cons c r' => simp at hr; subst hr; simp [labsString, readLabs, sLabel, TyParse.stripPrefix]
  | [i], r, f, hl, hr, hf => by
    obtain ⟨f', rfl⟩ : ∃ f', f = f' + 1 := ⟨f - 1, by simp at hf; omega⟩
    have hi := hl i (by simp)
    cases r with
    | nil => simp at hr
    | cons c r' =>
      simp at hr; subst hr
      have he : identEnd (93 :: r') = true := by simp [identEnd, inTail, inHead, isAlpha, isUpper, isLower, isDigit]
      have e : labsString [i] ++ 93 :: r' = sLabel ++ (identString i ++ 93 :: r') := by simp [labsString]
      rw [e]
      simp only [readLabs, TyParse.stripPrefix_append, readIdent_identString i _ hi he]
      rfl
  | i :: j :: l, r, f, hl, hr, hf => by
    obtain ⟨f', rfl⟩ : ∃ f', f = f' + 1 := ⟨f - 1, by simp at hf; omega⟩
    have hi := hl i (by simp)
    have ih := readLabs_print (j :: l) r f' (fun x hx => hl x (by simp [hx])) hr (by simp at hf ⊢; omega)
    obtain ⟨rest, hrest⟩ := labsString_head j l
    have he : identEnd (44 :: 32 :: (labsString (j :: l) ++ r)) = true := by simp [identEnd, inTail, inHead, isAlpha, isUpper, isLower, isDigit]
    have e : labsString (i :: j :: l) ++ r = sLabel ++ (identString i ++ 44 :: 32 :: (labsString (j :: l) ++ r)) := by
      simp [labsString, sComma]
    rw [e]
    simp only [readLabs, TyParse.stripPrefix_append, readIdent_identString i _ hi he]
    have hsp : TyParse.stripPrefix sLabel (labsString (j :: l) ++ r) = some (rest ++ r) := by
      rw [hrest, List.append_assoc, TyParse.stripPrefix_append]
    simp only [hsp, ih]

theorem readUnwind_print (u : Option Ident) (hu : ∀ i ∈ u, identOK i) : readUnwind (unwindString u) = some u := by
  cases u with
  | none => simp [unwindString, readUnwind]
  | some i =>
    have hi := hu i rfl
    have hne : (sLabel ++ identString i == sToCaller) = false := by simp [sLabel, sToCaller]
    have hr := readIdent_identString i [] hi rfl
    simp only [List.append_nil] at hr
    simp only [unwindString, readUnwind, hne, Bool.false_eq_true, if_false, TyParse.stripPrefix_append, hr]

theorem labsString_len : ∀ (l : List Ident), l.length ≤ (labsString l).length
  | [] => by simp [labsString]
  | [i] => by simp [labsString, sLabel]
  | i :: j :: l => by have := labsString_len (j :: l); simp [labsString, sLabel] at this ⊢; omega

theorem read_print_slots (useHex : Int → Bool) (fs : List Slot) (as : List Arg) (hm : Matches fs as) :
    ∀ (cur : Ty), fmtOK fs = true → (∀ a ∈ as, argOK a) →
      readSlots cur fs (printSlots useHex cur fs as) = some (as, []) := by
  induction hm with
  | nil => intro cur _ _; simp [readSlots, printSlots]
  | lit s hm ih =>
    intro cur hf ha
    simp only [fmtOK] at hf
    simp only [printSlots, readSlots, TyParse.stripPrefix_append]
    exact ih cur hf ha
  | @ty t fs' as' hm ih =>
    intro cur hf ha
    simp only [fmtOK, Bool.and_eq_true] at hf
    have ha' : ∀ a ∈ as', argOK a := fun a h => ha a (by simp [h])
    simp only [printSlots, readSlots]
    rw [ty_step t _ (tyEnd_print useHex t fs' as' hf.1 hm ha')]
    simp only [ih t hf.2 ha']
  | @tyval t o fs' as' hm ih =>
    intro cur hf ha
    simp only [fmtOK, Bool.and_eq_true] at hf
    have ho : operandOK o := ha (.tyval t o) (by simp)
    have ha' : ∀ a ∈ as', argOK a := fun a h => ha a (by simp [h])
    simp only [printSlots, readSlots, List.append_assoc, List.cons_append, List.nil_append]
    rw [tyval_step useHex t o _ ho]
    simp only [readOperand_operandString useHex t o _ ho (opEnd_print useHex t fs' as' hf.1 hm)]
    simp only [ih t hf.2 ha']
  | @val o fs' as' hm ih =>
    intro cur hf ha
    simp only [fmtOK, Bool.and_eq_true] at hf
    have ho : operandOK o := ha (.val o) (by simp)
    have ha' : ∀ a ∈ as', argOK a := fun a h => ha a (by simp [h])
    simp only [printSlots, readSlots]
    simp only [readOperand_operandString useHex cur o _ ho (opEnd_print useHex cur fs' as' hf.1 hm)]
    simp only [ih cur hf.2 ha']
  | @lab i fs' as' hm ih =>
    intro cur hf ha
    simp only [fmtOK, Bool.and_eq_true] at hf
    have hi : identOK i := ha (.lab i) (by simp)
    have ha' : ∀ a ∈ as', argOK a := fun a h => ha a (by simp [h])
    simp only [printSlots, readSlots]
    simp only [readIdent_identString i _ hi (labEnd_print useHex cur fs' as' hf.1)]
    simp only [ih cur hf.2 ha']
  | @retv v fs' as' hm ih =>
    intro cur hf ha
    simp only [fmtOK, List.isEmpty_iff] at hf
    subst hf
    have := matches_nil as' hm; subst this
    cases v with
    | none =>
      simp only [printSlots, readSlots, List.append_nil]
      have := ty_step .void [] rfl
      simp only [tyString, List.append_nil] at this
      rw [this]
    | some p =>
      obtain ⟨t, o⟩ := p
      have hao : operandOK o ∧ t ≠ .void := ha (.retv (some (t, o))) (by simp)
      simp only [printSlots, readSlots, List.append_assoc, List.cons_append, List.nil_append, List.append_nil]
      have hts := tyval_step useHex t o [] hao.1
      simp only [List.append_nil] at hts
      rw [hts]
      have hro := readOperand_operandString useHex t o [] hao.1 rfl
      simp only [List.append_nil] at hro
      cases t <;> first | exact absurd rfl hao.2 | simp only [hro]
  | @phis incs fs' as' hm ih =>
    intro cur hf ha
    simp only [fmtOK, List.isEmpty_iff] at hf
    subst hf
    have := matches_nil as' hm; subst this
    have hp : incs ≠ [] ∧ ∀ p ∈ incs, incOK p := ha (.phis incs) (by simp)
    simp only [printSlots, readSlots, List.append_nil]
    rw [readPhis_print useHex cur incs hp.1 hp.2 _ (by have := phisString_len (useHex := useHex) (cur := cur) incs; omega)]
  | @nums ks fs' as' hm ih =>
    intro cur hf ha
    simp only [fmtOK, List.isEmpty_iff] at hf
    subst hf
    have := matches_nil as' hm; subst this
    have hk : ∀ k ∈ ks, k < 2 ^ 63 := ha (.nums ks) (by simp)
    simp only [printSlots, readSlots, List.append_nil]
    rw [readNums_print ks _ hk (by have := numsString_len ks; omega)]
  | @tyvals ixs fs' as' hm ih =>
    intro cur hf ha
    simp only [fmtOK, List.isEmpty_iff] at hf
    subst hf
    have := matches_nil as' hm; subst this
    have hk : ∀ p ∈ ixs, operandOK p.2 := ha (.tyvals ixs) (by simp)
    simp only [printSlots, readSlots, List.append_nil]
    rw [readTyvals_print useHex ixs _ hk (by have := tyvalsString_len useHex ixs; omega)]
  | @align a fs' as' hm ih =>
    intro cur hf ha
    simp only [fmtOK, List.isEmpty_iff] at hf
    subst hf
    have := matches_nil as' hm; subst this
    have hk : ∀ n ∈ a, n < 2 ^ 63 := ha (.align a) (by simp)
    simp only [printSlots, readSlots, List.append_nil]
    rw [readAlign_print a hk]
  | @callee o hr fs' as' hm ih =>
    intro cur hf ha
    have ho : operandOK o := ha (.val o) (by simp)
    have ha' : ∀ a ∈ as', argOK a := fun a h => ha a (by simp [h])
    have hfs : fs' = [.cargs] := by
      simp only [fmtOK] at hf
      split at hf
      · rfl
      · cases hf
    subst hfs
    cases hm with
    | cargs ixs hm' =>
      have := matches_nil _ hm'; subst this
      have hk : ∀ p ∈ ixs, operandOK p.2 := ha (.tyvals ixs) (by simp)
      have hend : identEnd (cargsString useHex ixs) = true := by
        simp [cargsString, identEnd, inTail, inHead, isAlpha, isUpper, isLower, isDigit]
      simp only [printSlots, readSlots, List.append_nil]
      rw [readCallee_print useHex o _ hr ho hend]
      simp only [readCargs_print useHex ixs hk]
  | @flags ks xs t o hb hty fs' as' hm ih =>
    intro cur hf ha
    simp only [fmtOK, Bool.and_eq_true] at hf
    obtain ⟨⟨hkeys, _⟩, hf2⟩ := hf
    simp only [keysOK, Bool.and_eq_true, List.all_eq_true] at hkeys
    have ho : operandOK o := ha (.tyval t o) (by simp)
    have ha' : ∀ a ∈ as', argOK a := fun a h => ha a (by simp [h])
    -- what follows the flags starts with the type, which starts with none of the keywords
    have hrest : ∀ k ∈ ks, TyParse.stripPrefix (k ++ [32])
        (tyString t ++ [32] ++ operandString useHex t o ++ printSlots useHex t fs' as') = none := by
      intro k hk
      have h1 : TyParse.stripPrefix (k ++ [32]) (tyString t ++ [32]) = none := by
        have := List.all_eq_true.mp hty k hk
        cases h' : TyParse.stripPrefix (k ++ [32]) (tyString t ++ [32]) with
        | none => rfl
        | some x => rw [h'] at this; simp at this
      have hk32 : (32 : UInt8) ∉ k := by
        have := hkeys.1 k hk
        simpa using this
      have := stripPrefix_key_append k (tyString t ++ [32]) (operandString useHex t o ++ printSlots useHex t fs' as') hk32 (by simp) h1
      simpa [List.append_assoc] using this
    have hrf := readFlags_print ks _ hkeys.2 hrest xs
      ((flagsString ks xs ++ (tyString t ++ [32] ++ operandString useHex t o ++ printSlots useHex t fs' as')).length + 1) hb
      (by have := flagsString_len ks xs; simp only [List.length_append] at this ⊢; omega)
    simp only [printSlots, readSlots, List.append_assoc, List.cons_append, List.nil_append] at hrf ⊢
    rw [hrf]
    simp only
    rw [tyval_step useHex t o _ ho]
    simp only [readOperand_operandString useHex t o _ ho (opEnd_print useHex t fs' as' hf2.1 hm)]
    simp only [ih t hf2.2 ha']
  | @flagsTy ks xs t hb hty fs' as' hm ih =>
    intro cur hf ha
    simp only [fmtOK, Bool.and_eq_true] at hf
    obtain ⟨⟨hkeys, hshape⟩, hf2⟩ := hf
    simp only [keysOK, Bool.and_eq_true, List.all_eq_true] at hkeys
    have ha' : ∀ a ∈ as', argOK a := fun a h => ha a (by simp [h])
    -- the slot after the type is the literal `, …`
    obtain ⟨l, fs'', hfs⟩ : ∃ l fs'', fs' = .lit (44 :: 32 :: l) :: fs'' := by
      split at hshape
      · rename_i h; cases h
      · rename_i h; injection h with _ h2; exact ⟨_, _, h2⟩
      · rename_i h; cases h
      · cases hshape
    subst hfs
    have hrest : ∀ k ∈ ks, TyParse.stripPrefix (k ++ [32])
        (tyString t ++ printSlots useHex t (.lit (44 :: 32 :: l) :: fs'') as') = none := by
      intro k hk
      have h1 : TyParse.stripPrefix (k ++ [32]) (tyString t ++ sComma) = none := by
        have := List.all_eq_true.mp hty k hk
        cases h' : TyParse.stripPrefix (k ++ [32]) (tyString t ++ sComma) with
        | none => rfl
        | some x => rw [h'] at this; simp at this
      have hk32 : (32 : UInt8) ∉ k := by
        have := hkeys.1 k hk
        simpa using this
      have := stripPrefix_key_append k (tyString t ++ sComma) (l ++ printSlots useHex t fs'' as') hk32 (by simp [sComma]) h1
      simpa [printSlots, sComma, List.append_assoc] using this
    have hrf := readFlags_print ks _ hkeys.2 hrest xs
      ((flagsString ks xs ++ (tyString t ++ printSlots useHex t (.lit (44 :: 32 :: l) :: fs'') as')).length + 1) hb
      (by have := flagsString_len ks xs; simp only [List.length_append] at this ⊢; omega)
    have hm' := hm
    simp only [printSlots, readSlots, List.append_assoc] at hrf ⊢
    rw [hrf]
    simp only
    have hte : tyEnd (printSlots useHex t (.lit (44 :: 32 :: l) :: fs'') as') = true := by simp [printSlots, tyEnd]
    have := ty_step t _ hte
    simp only [printSlots] at this
    rw [this]
    have h3 := ih t hf2.2 ha'
    simp only [printSlots, readSlots] at h3
    simp only [h3]
  | @cargs ixs fs' as' hm ih =>
    intro cur hf ha
    simp only [fmtOK, List.isEmpty_iff] at hf
    subst hf
    have := matches_nil as' hm; subst this
    have hk : ∀ p ∈ ixs, operandOK p.2 := ha (.tyvals ixs) (by simp)
    simp only [printSlots, readSlots, List.append_nil]
    rw [readCargs_print useHex ixs hk]
  | @kw ks i hi fs' as' hm ih =>
    intro cur hf ha
    simp only [fmtOK, Bool.and_eq_true] at hf
    have ha' : ∀ a ∈ as', argOK a := fun a h => ha a (by simp [h])
    simp only [printSlots, readSlots]
    rw [findKw_spec ks 0 i (ks.getD i []) _ hf.1 (getD_getElem? ks i hi)]
    simp only [Nat.zero_add, ih cur hf.2 ha']
  | @okw ks o ho fs' as' hm ih =>
    intro cur hf ha
    simp only [fmtOK, Bool.and_eq_true] at hf
    obtain ⟨⟨hdv, hsp⟩, hshape⟩ := hf
    have hfs : fs' = [.align] := by
      split at hshape
      · rfl
      · cases hshape
    subst hfs
    have ha' : ∀ a ∈ as', argOK a := fun a h => ha a (by simp [h])
    have hfmt : fmtOK [Slot.align] = true := by simp [fmtOK]
    cases hm with
    | align a hm' =>
    have := matches_nil _ hm'; subst this
    cases o with
    | some i =>
      have hi := ih cur hfmt ha'
      simp only [printSlots, readSlots] at hi ⊢
      rw [findKw_spec ks 0 i (ks.getD i []) _ hdv (getD_getElem? ks i (ho i rfl))]
      simp only [Nat.zero_add, hi]
    | none =>
        have hnone : findKw 0 ks (printSlots useHex cur [Slot.align] [Arg.align a]) = none := by
          apply findKw_none
          intro k hk
          have hk32 : k.head? = some 32 := by
            have := List.all_eq_true.mp hsp k hk
            simpa using this
          apply stripPrefix_sp_none k _ hk32
          cases a with
          | none => left; simp [printSlots, alignString]
          | some n => right; simp [printSlots, alignString, sAlign]
        simp only [printSlots, readSlots] at hnone ⊢
        rw [hnone]
        have := ih cur hfmt ha'
        simp only [printSlots, readSlots] at this
        simp only [this]
  | @loc i fs' as' hm ih =>
    intro cur hf ha
    simp only [fmtOK, Bool.and_eq_true] at hf
    have hi : identOK i := ha (.loc i) (by simp)
    have ha' : ∀ a ∈ as', argOK a := fun a h => ha a (by simp [h])
    simp only [printSlots, readSlots]
    simp only [readIdent_identString i _ hi (labEnd_print useHex cur fs' as' hf.1)]
    simp only [ih cur hf.2 ha']
  | @pad p fs' as' hm ih =>
    intro cur hf ha
    simp only [fmtOK, Bool.and_eq_true] at hf
    have hp : ∀ i ∈ p, identOK i := ha (.pad p) (by simp)
    have ha' : ∀ a ∈ as', argOK a := fun a h => ha a (by simp [h])
    simp only [printSlots, readSlots]
    simp only [readPad_print p _ hp (labEnd_print useHex cur fs' as' hf.1)]
    simp only [ih cur hf.2 ha']
  | @labs l fs' as' hm ih =>
    intro cur hf ha
    simp only [fmtOK, Bool.and_eq_true] at hf
    obtain ⟨hshape, hf2⟩ := hf
    have hl : ∀ i ∈ l, identOK i := ha (.labs l) (by simp)
    have ha' : ∀ a ∈ as', argOK a := fun a h => ha a (by simp [h])
    obtain ⟨lt, fs'', hfs⟩ : ∃ lt fs'', fs' = .lit (93 :: lt) :: fs'' := by
      split at hshape
      · exact ⟨_, _, rfl⟩
      · cases hshape
    subst hfs
    have hhead : (printSlots useHex cur (.lit (93 :: lt) :: fs'') as').head? = some 93 := by simp [printSlots]
    have hrl := readLabs_print l _ ((labsString l ++ printSlots useHex cur (.lit (93 :: lt) :: fs'') as').length + 1) hl hhead
      (by have := labsString_len l; simp only [List.length_append]; omega)
    simp only [printSlots, readSlots] at hrl ⊢
    rw [hrl]
    have := ih cur hf2 ha'
    simp only [printSlots, readSlots] at this
    simp only [this]
  | @unwind u fs' as' hm ih =>
    intro cur hf ha
    simp only [fmtOK, List.isEmpty_iff] at hf
    subst hf
    have := matches_nil as' hm; subst this
    have hu : ∀ i ∈ u, identOK i := ha (.unwind u) (by simp)
    simp only [printSlots, readSlots, List.append_nil]
    rw [readUnwind_print u hu]
  | @eargs ixs fs' as' hm ih =>
    intro cur hf ha
    simp only [fmtOK, List.isEmpty_iff] at hf
    subst hf
    have := matches_nil as' hm; subst this
    have hk : ∀ p ∈ ixs, operandOK p.2 := ha (.tyvals ixs) (by simp)
    simp only [printSlots, readSlots, List.append_nil]
    rw [readEargs_print useHex ixs hk]
  | @flagsKw ks xs ks2 i hb hi fs' as' hm ih =>
    intro cur hf ha
    simp only [fmtOK, Bool.and_eq_true] at hf
    obtain ⟨⟨hkeys, hshape⟩, hdv2, hf2⟩ := hf
    simp only [keysOK, Bool.and_eq_true, List.all_eq_true] at hkeys
    have ha' : ∀ a ∈ as', argOK a := fun a h => ha a (by simp [h])
    -- what follows the flags starts with the keyword, which ends with a space and starts with none of the flag keywords
    have hq : ks2.getD i [] ∈ ks2 := by
      have : ks2.getD i [] = ks2[i] := by simp [List.getD, List.getElem?_eq_getElem hi]
      rw [this]; exact List.getElem_mem hi
    have hqq := List.all_eq_true.mp hshape _ hq
    simp only [Bool.and_eq_true, beq_iff_eq, List.all_eq_true, Bool.not_eq_true'] at hqq
    have hrest : ∀ k ∈ ks, TyParse.stripPrefix (k ++ [32]) (ks2.getD i [] ++ printSlots useHex cur fs' as') = none := by
      intro k hk
      have h1 : TyParse.stripPrefix (k ++ [32]) (ks2.getD i []) = none := by
        have := hqq.2 k hk
        cases h' : TyParse.stripPrefix (k ++ [32]) (ks2.getD i []) with
        | none => rfl
        | some x => rw [h'] at this; simp at this
      have hk32 : (32 : UInt8) ∉ k := by
        have := hkeys.1 k hk
        simpa using this
      exact stripPrefix_key_append k _ _ hk32 hqq.1 h1
    have hrf := readFlags_print ks _ hkeys.2 hrest xs
      ((flagsString ks xs ++ (ks2.getD i [] ++ printSlots useHex cur fs' as')).length + 1) hb
      (by have := flagsString_len ks xs; simp only [List.length_append] at this ⊢; omega)
    simp only [printSlots, readSlots] at hrf ⊢
    rw [hrf]
    simp only
    rw [findKw_spec ks2 0 i (ks2.getD i []) _ hdv2 (getD_getElem? ks2 i hi)]
    simp only [Nat.zero_add, ih cur hf2 ha']

/-! ### the row table -/


/-- a text that ends with a space and does not start with `void ` does not start with it whatever follows -/
theorem startsVoid_append (A X : Bytes) (hl : A.getLast? = some 32) (h : startsVoid A = false) : startsVoid (A ++ X) = false := by
  unfold startsVoid at *
  cases hs : TyParse.stripPrefix sVoidSp (A ++ X) with
  | none => rfl
  | some r =>
    have hn : TyParse.stripPrefix sVoidSp A = none := by
      cases h' : TyParse.stripPrefix sVoidSp A with
      | none => rfl
      | some x => rw [h'] at h; simp at h
    obtain ⟨q, hq, hp⟩ := stripPrefix_extend sVoidSp A X hn (by rw [hs]; rfl)
    exfalso
    unfold sVoidSp at hp
    rcases A with _ | ⟨a, _ | ⟨b, _ | ⟨c, _ | ⟨d, _ | ⟨e, A⟩⟩⟩⟩⟩
    · simp at hl
    · simp at hl hp; simp_all
    · simp at hl hp; simp_all
    · simp at hl hp; simp_all
    · simp at hl hp; simp_all
    · simp at hp; exact hq hp.2.2.2.2.2.2

/-- an earlier row's keyword diverges from a later one's, or is the later one's followed by `void ` (`call void ` before `call `) -/
def divergeOrVoid (q r : Row) : Bool := diverge q.pre r.pre || (q.pre == r.pre ++ sVoidSp)

def allDiverge : List Row → Bool
  | [] => true
  | r :: rs => rs.all (fun q => divergeOrVoid r q) && allDiverge rs

theorem findRow_spec : ∀ (rs : List Row) (k0 i : Nat) (r : Row) (rest : Bytes),
    allDiverge rs = true → rs[i]? = some r → (∀ q ∈ rs, q.pre = r.pre ++ sVoidSp → startsVoid rest = false) →
    findRow k0 rs (r.pre ++ rest) = some (k0 + i, r, rest)
  | [], _, _, _, _, _, h, _ => by simp at h
  | q :: rs, k0, 0, r, rest, _, h, _ => by
    simp at h; subst h
    simp [findRow, TyParse.stripPrefix_append]
  | q :: rs, k0, i + 1, r, rest, hd, h, hv => by
    simp only [allDiverge, Bool.and_eq_true, List.all_eq_true] at hd
    have hr : rs[i]? = some r := by simpa using h
    have hmem : r ∈ rs := List.mem_of_getElem? hr
    have : TyParse.stripPrefix q.pre (r.pre ++ rest) = none := by
      have hq := hd.1 r hmem
      simp only [divergeOrVoid, Bool.or_eq_true, beq_iff_eq] at hq
      rcases hq with hq | hq
      · exact stripPrefix_diverge q.pre r.pre rest hq
      · rw [hq, stripPrefix_both]
        have := hv q (by simp) hq
        unfold startsVoid at this
        cases h' : TyParse.stripPrefix sVoidSp rest with
        | none => rfl
        | some x => rw [h'] at this; simp at this
    simp only [findRow, this]
    rw [findRow_spec rs (k0 + 1) i r rest hd.2 hr (fun q' hq' => hv q' (by simp [hq']))]
    simp; omega

theorem rows_diverge : allDiverge rows = true := by decide +kernel
/-- only the value calls have a keyword that another row extends with `void ` -/
theorem rows_void : (List.range rows.length).all (fun k => match rows[k]? with
    | some r => rows.all (fun q => !(q.pre == r.pre ++ sVoidSp)) || valueCallRows.contains k
    | none => true) = true := by decide +kernel
/-- and they all have the slots `T callee(args)` -/
theorem rows_valuecall : valueCallRows.all (fun k => match rows[k]? with
    | some r => decide (r.slots = [.ty, .lit [32], .callee, .cargs])
    | none => false) = true := by decide +kernel
theorem rows_fmt : rows.all (fun r => fmtOK r.slots) = true := by decide +kernel
/-- no row starts with `%` (an instruction line that starts with `%` carries a result) and none is empty -/
theorem rows_head : rows.all (fun r => match r.pre with | [] => false | c :: _ => c != 37 && c != 9) = true := by decide +kernel

/-- the continuation lines are those of the row, with well-formed identifiers and constants -/
def extOK (row : Nat) : Ext → Prop
  | .none => row ≠ swRow ∧ row ∉ invRows ∧ row ≠ lpRow
  | .cases cs => row = swRow ∧ ∀ c ∈ cs, cwf c.2.1 = true ∧ identOK c.2.2
  | .dests n u => row ∈ invRows ∧ identOK n ∧ identOK u
  | .clauses _ cs => row = lpRow ∧ ∀ c ∈ cs, operandOK c.2.2

def instOK (i : Inst) : Prop :=
  ∃ r, rows[i.row]? = some r ∧ Matches r.slots i.args ∧ (∀ a ∈ i.args, argOK a) ∧ r.hasRes = i.res.isSome ∧ (∀ id ∈ i.res, identOK id) ∧
    callTyOK i = true ∧ extOK i.row i.ext

theorem call_void_ok (useHex : Int → Bool) (i : Inst) (r : Row) (hr : rows[i.row]? = some r) (hm : Matches r.slots i.args)
    (hc : callTyOK i = true) : ∀ q ∈ rows, q.pre = r.pre ++ sVoidSp → startsVoid (printSlots useHex r.cur0 r.slots i.args) = false := by
  obtain ⟨ires, irow, iargs, iext⟩ := i
  simp only at hr hm hc ⊢
  intro q hq he
  have hk : irow < rows.length := by
    cases h : rows[irow]? with
    | none => rw [h] at hr; cases hr
    | some x => exact (List.getElem?_eq_some_iff.mp h).1
  have := List.all_eq_true.mp rows_void irow (by simpa using hk)
  simp only [hr, Bool.or_eq_true, List.all_eq_true, Bool.not_eq_true', beq_iff_eq] at this
  rcases this with h | h
  · have := h q hq; simp [he] at this
  · have hsl : r.slots = [.ty, .lit [32], .callee, .cargs] := by
      have := List.all_eq_true.mp rows_valuecall irow (by simpa using h)
      simp only [hr, decide_eq_true_eq] at this
      exact this
    obtain ⟨rh, rp, rc, rs, rr, rt⟩ := r
    simp only at hsl hm he ⊢
    subst hsl
    cases hm with
    | ty t hm1 => cases hm1 with
      | lit _ hm2 => cases hm2 with
        | callee o ho hm3 => cases hm3 with
          | cargs ixs hm4 =>
            have := matches_nil _ hm4; subst this
            simp only [callTyOK, h, Bool.not_true, Bool.false_or, Bool.not_eq_true'] at hc
            simp only [printSlots, List.append_nil]
            have e : tyString t ++ ([32] ++ (operandString useHex calleeTy o ++ cargsString useHex ixs))
                = (tyString t ++ [32]) ++ (operandString useHex calleeTy o ++ cargsString useHex ixs) := by simp
            rw [e]
            exact startsVoid_append _ _ (by simp) hc

theorem readBody_print (useHex : Int → Bool) (i : Inst) (r : Row) (hr : rows[i.row]? = some r) (hm : Matches r.slots i.args)
    (ha : ∀ a ∈ i.args, argOK a) (hres : r.hasRes = i.res.isSome) (hc : callTyOK i = true) :
    readBody i.res (r.pre ++ printSlots useHex r.cur0 r.slots i.args) = some { i with ext := .none, md := [] } := by
  unfold readBody
  have hf := findRow_spec rows 0 i.row r (printSlots useHex r.cur0 r.slots i.args) rows_diverge hr (call_void_ok useHex i r hr hm hc)
  simp only [Nat.zero_add] at hf
  rw [hf]
  have hfmt : fmtOK r.slots = true := by
    have := List.all_eq_true.mp rows_fmt r (List.mem_of_getElem? hr)
    simpa using this
  have hs := read_print_slots useHex r.slots i.args hm r.cur0 hfmt ha
  simp only [hs]
  obtain ⟨ires, irow, iargs, iext, imd⟩ := i
  cases ires <;> simp_all

theorem readInst_print (useHex : Int → Bool) (i : Inst) (hi : instOK i) : readInst (instString useHex i) = some { i with ext := .none, md := [] } := by
  obtain ⟨r, hr, hm, ha, hres, hid, hcall, _⟩ := hi
  unfold instString
  rw [hr]
  cases hres' : i.res with
  | none =>
    have hb := readBody_print useHex i r hr hm ha hres hcall
    rw [hres'] at hb
    have hh : r.pre ≠ [] ∧ r.pre.head? ≠ some 37 := by
      have := List.all_eq_true.mp rows_head r (List.mem_of_getElem? hr)
      cases hp : r.pre with
      | nil => simp [hp] at this
      | cons c p => simp [hp] at this; simp [this]
    have hd : ((r.pre ++ printSlots useHex r.cur0 r.slots i.args).head? == some 37) = false := by
      cases hp : r.pre with
      | nil => exact absurd hp hh.1
      | cons c p =>
        have := hh.2; rw [hp] at this
        simp at this; simp [this]
    simp only [List.nil_append]
    unfold readInst
    rw [hd]
    simpa using hb
  | some id =>
    have hb := readBody_print useHex i r hr hm ha hres hcall
    rw [hres'] at hb
    have hidok : identOK id := hid id (by simp [hres'])
    obtain ⟨rest, hh⟩ := identString_head id hidok
    have hd : ((identString id ++ sEq ++ r.pre ++ printSlots useHex r.cur0 r.slots i.args).head? == some 37) = true := by
      rw [hh]; rfl
    have hri := readIdent_identString id (sEq ++ (r.pre ++ printSlots useHex r.cur0 r.slots i.args)) hidok (by simp [sEq, identEnd, inTail, inHead, isAlpha, isUpper, isLower, isDigit])
    unfold readInst
    simp only [List.append_assoc] at hd ⊢
    rw [hd]
    simp only [if_true, hri, TyParse.stripPrefix_append, hb]


/-! ### metadata attachments -/

/-- the attachments are well-formed and the instruction text itself contains no `, !` outside a quoted name (decidable; evaluated on the instance) -/
def mdOK (useHex : Int → Bool) (i : Inst) : Prop :=
  (∀ a ∈ i.md, a.1 ≠ [] ∧ a.2 < 2 ^ 63) ∧ scanMd false (instString useHex i) = some false ∧ (i.md = [] ∨ noMdRows.contains i.row = false) ∧
  (∀ l ∈ (extLines useHex i.ext).getLast?, scanMd false l = some false)

theorem startsMd_append (b R : Bytes) (hb : b ≠ []) (h : startsMd b = false) (hR : R = [] ∨ R.head? = some 44) : startsMd (b ++ R) = false := by
  rcases hR with hR | hR
  · subst hR; simpa using h
  · cases R with
    | nil => simp at hR
    | cons x R' =>
      simp at hR; subst hR
      match b, hb, h with
      | [c], _, _ => simp [startsMd]
      | [c, d], _, _ => simp [startsMd]
      | c :: d :: e :: r, _, h => simpa [startsMd] using h

theorem splitMd_scan : ∀ (body : Bytes) (inq q : Bool) (R : Bytes), scanMd inq body = some q → (R = [] ∨ R.head? = some 44) →
    splitMd inq (body ++ R) = (body ++ (splitMd q R).1, (splitMd q R).2)
  | [], inq, q, R, h, _ => by
    simp only [scanMd, Option.some.injEq] at h; subst h; simp
  | c :: r, inq, q, R, h, hR => by
    unfold scanMd at h
    by_cases hc : (!inq && startsMd (c :: r)) = true
    · simp [hc] at h
    · simp only [hc, Bool.false_eq_true, if_false] at h
      have hc' : (!inq && startsMd (c :: (r ++ R))) = false := by
        cases inq with
        | true => rfl
        | false =>
          have : startsMd (c :: r) = false := by simpa using hc
          have := startsMd_append (c :: r) R (by simp) this hR
          simpa using this
      have ih := splitMd_scan r (if c == 34 then !inq else inq) q R h hR
      simp only [List.cons_append, splitMd, hc', Bool.false_eq_true, if_false, ih]

theorem mdString_head (md : List (Bytes × Nat)) : mdString md = [] ∨ (mdString md).head? = some 44 := by
  cases md with
  | nil => left; rfl
  | cons a r => obtain ⟨n, k⟩ := a; right; simp [mdString, sComma]

theorem splitMd_mdString (md : List (Bytes × Nat)) (hm : ∀ a ∈ md, a.1 ≠ []) : splitMd false (mdString md) = ([], mdString md) := by
  cases md with
  | nil => rfl
  | cons a r =>
    obtain ⟨n, k⟩ := a
    obtain ⟨body, hb, _⟩ := mdName_shape n (hm (n, k) (by simp))
    simp [mdString, sComma, hb, splitMd, startsMd]

theorem readMds_print : ∀ (md : List (Bytes × Nat)) (f : Nat), (∀ a ∈ md, a.1 ≠ [] ∧ a.2 < 2 ^ 63) → md.length + 1 ≤ f →
    readMds f (mdString md) = some md
  | [], f, _, hf => by
    obtain ⟨f', rfl⟩ : ∃ f', f = f' + 1 := ⟨f - 1, by simp at hf; omega⟩
    simp [mdString, readMds]
  | (n, k) :: r, f, hm, hf => by
    obtain ⟨f', rfl⟩ : ∃ f', f = f' + 1 := ⟨f - 1, by simp at hf; omega⟩
    have hnk := hm (n, k) (by simp)
    have ih := readMds_print r f' (fun a ha => hm a (by simp [ha])) (by simp at hf ⊢; omega)
    obtain ⟨body, hb, hbne, hbd, hbc, hbu⟩ := mdName_shape n hnk.1
    have hs : mdString ((n, k) :: r) = 44 :: 32 :: 33 :: (body ++ 32 :: 33 :: (natDec k ++ mdString r)) := by
      simp [mdString, sComma, hb, mdID]
    obtain ⟨h1, h2⟩ := TyParse.takeWhile_append_stop isMdNameChar body (32 :: 33 :: (natDec k ++ mdString r)) hbc
      (by simp [isMdNameChar, Enc.isLetter, isAlpha, isUpper, isLower, isDigit])
    have hstop : ∀ c ∈ (mdString r).head?, isDigit c = false := by
      rcases mdString_head r with h | h
      · rw [h]; simp
      · intro c hc; rw [h] at hc; simp at hc; subst hc; decide
    obtain ⟨h3, h4⟩ := TyParse.takeWhile_append_stop isDigit (natDec k) (mdString r) (Types.natDec_digits k) hstop
    have hemp : body.isEmpty = false := by cases body with | nil => exact absurd rfl hbne | cons a as => rfl
    rw [hs]
    simp only [readMds, h1, h2, hemp, hbd, Bool.or_self, Bool.false_eq_true, if_false, h3, h4, parseUint63_natDec k hnk.2, ih, Option.map_some, hbu]

theorem mdString_len : ∀ (md : List (Bytes × Nat)), md.length ≤ (mdString md).length
  | [] => by simp [mdString]
  | (n, k) :: r => by have := mdString_len r; simp [mdString, sComma]; omega

theorem readInstMd_print (useHex : Int → Bool) (i : Inst) (hi : instOK i) (hm : mdOK useHex i) :
    readInstMd (instString useHex i ++ mdString i.md) = some { i with ext := .none } := by
  obtain ⟨hmd, hscan, hrow, _⟩ := hm
  have hsp := splitMd_scan (instString useHex i) false false (mdString i.md) hscan (mdString_head i.md)
  rw [splitMd_mdString i.md (fun a ha => (hmd a ha).1)] at hsp
  simp only [List.append_nil] at hsp
  have hr := readMds_print i.md ((mdString i.md).length + 1) hmd (by have := mdString_len i.md; omega)
  have hc : (noMdRows.contains i.row && !i.md.isEmpty) = false := by
    rcases hrow with h | h
    · simp [h]
    · rw [h]; rfl
  simp only [readInstMd, hsp, readInst_print useHex i hi, hr, hc, Bool.false_eq_true, if_false]

/-! ### blocks -/

def blockOK (b : Block) : Prop :=
  identOK b.label ∧ (∀ i ∈ b.insts, instOK i ∧ isTerm i = false) ∧ instOK b.term ∧ isTerm b.term = true

theorem labelString_last (i : Ident) (hi : identOK i) : (labelString i).getLast? = some 58 := by
  cases i with
  | name n => simp [labelString, labelName_eq]
  | id k => simp [labelString]
  | anon => exact absurd hi (by simp [identOK])

theorem labelString_ne_close (i : Ident) (hi : identOK i) : (labelString i == [125]) = false := by
  cases h : labelString i == [125] with
  | false => rfl
  | true =>
    have e : labelString i = [125] := by simpa using h
    have := labelString_last i hi
    rw [e] at this; simp at this

theorem labelString_ne_nil (i : Ident) (hi : identOK i) : (labelString i).isEmpty = false := by
  cases h : labelString i with
  | nil => have := labelString_last i hi; rw [h] at this; simp at this
  | cons a r => rfl

theorem nameBody_head_ne_tab (n : Bytes) (hne : n ≠ []) : (nameBody n).head? ≠ some 9 := by
  have := nameBody_is_token n hne
  intro h
  cases hb : nameBody n with
  | nil => rw [hb] at h; simp at h
  | cons c r =>
    rw [hb] at h this; simp at h; subst h
    simp [isIdentBody, isNameBody, isQuotedBody, isIdBody, isLetter, isAlpha, isUpper, isLower, isDigit] at this

/-- a label line never looks like an instruction line (it does not start with a tab) -/
theorem labelString_not_inst (i : Ident) (hi : identOK i) : isInstLine (labelString i) = false := by
  cases i with
  | name n =>
    have hne : n ≠ [] := hi
    have := nameBody_head_ne_tab n hne
    simp only [labelString, labelName_eq, isInstLine]
    cases hb : nameBody n with
    | nil => rw [hb] at this; simp
    | cons c r => rw [hb] at this; simp at this; simp [this]
  | id k =>
    obtain ⟨d, ds, hd, hdig⟩ := TyParse.natDec_head k
    have : d ≠ 9 := by intro e; subst e; simp [isDigit] at hdig
    simp [labelString, isInstLine, hd, this]
  | anon => exact absurd hi (by simp [identOK])

theorem isTerm_ext (i : Inst) (x : Ext) : isTerm { i with ext := x } = isTerm i := rfl

theorem readCaseLine_print (useHex : Int → Bool) (c : Ty × Const × Ident) (hc : cwf c.2.1 = true) (hb : identOK c.2.2) :
    readCaseLine (caseLine useHex c) = some c := by
  obtain ⟨t, k, b⟩ := c
  simp only at hc hb
  have e : caseLine useHex (t, k, b) = [9, 9] ++ (tyString t ++ 32 :: (operandString useHex t (.const k) ++ (sCommaLabel ++ identString b))) := by
    simp [caseLine, operandString]
  have hstep := tyval_step useHex t (.const k) (sCommaLabel ++ identString b) hc
  have hf : csize k ≤ (constIdent useHex t k ++ (sCommaLabel ++ identString b)).length + 1 := by
    have := csize_le_len useHex t k; simp only [List.length_append]; omega
  have hrc := read_const useHex k _ t (sCommaLabel ++ identString b) (by simp [sCommaLabel, stopC]) hf hc
  have hri := readIdent_identString b [] hb rfl
  simp only [List.append_nil] at hri
  rw [e]
  unfold readCaseLine
  simp only [TyParse.stripPrefix_append, hstep]
  simp only [operandString, hrc, TyParse.stripPrefix_append, hri]

theorem caseLine_ne_close (useHex : Int → Bool) (c : Ty × Const × Ident) : (caseLine useHex c == sCloseCases) = false := by
  simp [caseLine, sCloseCases]

theorem readCaseLines_print (useHex : Int → Bool) (tl : List Bytes) : ∀ (cs : List (Ty × Const × Ident)),
    (∀ c ∈ cs, cwf c.2.1 = true ∧ identOK c.2.2) → readCaseLines (cs.map (caseLine useHex) ++ sCloseCases :: tl) = some (cs, tl)
  | [], _ => by simp [readCaseLines]
  | c :: cs, h => by
    have ih := readCaseLines_print useHex tl cs (fun x hx => h x (by simp [hx]))
    have hc := h c (by simp)
    simp only [List.map_cons, List.cons_append, readCaseLines, caseLine_ne_close, Bool.false_eq_true, if_false,
      readCaseLine_print useHex c hc.1 hc.2, ih]

theorem readDests_print (n u : Ident) (hn : identOK n) (hu : identOK u) : readDests (destsLine n u) = some (n, u) := by
  have h1 := readIdent_identString n (sUnwindLabel ++ identString u) hn
    (by simp [sUnwindLabel, identEnd, inTail, inHead, isAlpha, isUpper, isLower, isDigit])
  have h2 := readIdent_identString u [] hu rfl
  simp only [List.append_nil] at h2
  have e : destsLine n u = sToLabel ++ (identString n ++ (sUnwindLabel ++ identString u)) := by simp [destsLine]
  rw [e]
  unfold readDests
  simp only [TyParse.stripPrefix_append, h1, h2]

/-- a line that does not continue an instruction: it does not start with two tabs -/
def notCont (l : Bytes) : Bool := !(TyParse.stripPrefix [9, 9] l).isSome

theorem readClauseBody_print (useHex : Int → Bool) (fl : Bool) (t : Ty) (o : Operand) (ho : operandOK o) :
    readClauseBody fl (tyString t ++ [32] ++ operandString useHex t o) = some (fl, t, o) := by
  have hstep := tyval_step useHex t o [] ho
  have hro := readOperand_operandString useHex t o [] ho rfl
  simp only [List.append_nil] at hstep hro
  have e : tyString t ++ [32] ++ operandString useHex t o = tyString t ++ 32 :: operandString useHex t o := by simp
  rw [e]
  unfold readClauseBody
  simp only [hstep, hro]

theorem clauseLine_cont (useHex : Int → Bool) (c : Bool × Ty × Operand) : (TyParse.stripPrefix [9, 9] (clauseLine useHex c)).isSome = true := by
  obtain ⟨fl, t, o⟩ := c
  cases fl <;> simp [clauseLine, sCatch, sFilter, TyParse.stripPrefix]

theorem clauseLine_ne_cleanup (useHex : Int → Bool) (c : Bool × Ty × Operand) : (clauseLine useHex c == sCleanup) = false := by
  obtain ⟨fl, t, o⟩ := c
  cases fl <;> simp [clauseLine, sCatch, sFilter, sCleanup]

theorem readClauses_print (useHex : Int → Bool) (tl : List Bytes) (htl : ∀ l ∈ tl.head?, notCont l = true) :
    ∀ (cs : List (Bool × Ty × Operand)), (∀ c ∈ cs, operandOK c.2.2) → readClauses (cs.map (clauseLine useHex) ++ tl) = some (cs, tl)
  | [], _ => by
    cases tl with
    | nil => simp [readClauses]
    | cons l tl' =>
      have := htl l (by simp)
      simp only [notCont, Bool.not_eq_true'] at this
      simp [readClauses, this]
  | c :: cs, h => by
    have ih := readClauses_print useHex tl htl cs (fun x hx => h x (by simp [hx]))
    have hc := h c (by simp)
    obtain ⟨fl, t, o⟩ := c
    have hbody := readClauseBody_print useHex fl t o hc
    simp only [List.map_cons, List.cons_append, readClauses, clauseLine_cont, if_true, ih]
    cases fl
    · have e : clauseLine useHex (false, t, o) = sCatch ++ (tyString t ++ [32] ++ operandString useHex t o) := by simp [clauseLine]
      simp only [e, TyParse.stripPrefix_append, hbody]
    · have e : clauseLine useHex (true, t, o) = sFilter ++ (tyString t ++ [32] ++ operandString useHex t o) := by simp [clauseLine]
      have hn : TyParse.stripPrefix sCatch (sFilter ++ (tyString t ++ [32] ++ operandString useHex t o)) = none :=
        stripPrefix_diverge sCatch sFilter _ (by decide)
      simp only [e, hn, TyParse.stripPrefix_append, hbody]

theorem readExt_print (useHex : Int → Bool) (row : Nat) (x : Ext) (hx : extOK row x) (tl : List Bytes)
    (htl : ∀ l ∈ tl.head?, notCont l = true) : readExt row (extLines useHex x ++ tl) = some (x, tl) := by
  cases x with
  | none =>
    obtain ⟨h1, h2, h3⟩ := hx
    have b1 : (row == swRow) = false := by simpa using h1
    have b2 : invRows.contains row = false := by simpa using h2
    have b3 : (row == lpRow) = false := by simpa using h3
    simp [readExt, extLines, b1, b3, h2]
  | cases cs =>
    obtain ⟨h1, h2⟩ := hx
    subst h1
    have := readCaseLines_print useHex tl cs h2
    simp only [readExt, extLines, beq_self_eq_true, if_true, List.append_assoc, List.singleton_append, this]
  | dests n u =>
    obtain ⟨h1, h2, h3⟩ := hx
    have b1 : (row == swRow) = false := by
      simp only [invRows, List.mem_cons, List.not_mem_nil, or_false] at h1
      rcases h1 with h | h <;> subst h <;> rfl
    have b2 : invRows.contains row = true := by simpa using h1
    simp only [readExt, extLines, b1, b2, Bool.false_eq_true, if_false, if_true, List.singleton_append, List.cons_append, List.nil_append,
      readDests_print n u h2 h3]
  | clauses cl cs =>
    obtain ⟨h1, h2⟩ := hx
    subst h1
    have b1 : (lpRow == swRow) = false := rfl
    have b2 : invRows.contains lpRow = false := rfl
    have hrc := readClauses_print useHex tl htl cs h2
    cases cl with
    | true =>
      simp only [readExt, extLines, b1, b2, Bool.false_eq_true, if_false, beq_self_eq_true, if_true, List.singleton_append, List.cons_append,
        List.nil_append, hrc]
    | false =>
      simp only [readExt, extLines, b1, b2, Bool.false_eq_true, if_false, beq_self_eq_true, if_true, List.nil_append]
      cases cs with
      | nil =>
        cases tl with
        | nil => simp
        | cons l tl' =>
          have hnc := htl l (by simp)
          have hne : (l == sCleanup) = false := by
            cases hl : l == sCleanup with
            | false => rfl
            | true =>
              have : l = sCleanup := by simpa using hl
              subst this; simp [notCont, sCleanup, TyParse.stripPrefix] at hnc
          simp only [List.map_nil, List.nil_append] at hrc ⊢
          simp only [hne, Bool.false_eq_true, if_false, hrc]
      | cons c cs' =>
        simp only [List.map_cons, List.cons_append] at hrc ⊢
        simp only [clauseLine_ne_cleanup, Bool.false_eq_true, if_false, hrc]

/-- the first line of an instruction never continues another one -/
theorem instLine_notCont (useHex : Int → Bool) (i : Inst) (hi : instOK i) (x : Bytes) : notCont (9 :: (instString useHex i ++ x)) = true := by
  obtain ⟨r, hr, _, _, _, hid, _⟩ := hi
  have hh := List.all_eq_true.mp rows_head r (List.mem_of_getElem? hr)
  unfold instString
  rw [hr]
  cases hres : i.res with
  | some id =>
    obtain ⟨rest, hh'⟩ := identString_head id (hid id (by simp [hres]))
    simp [notCont, hh', TyParse.stripPrefix]
  | none =>
    cases hp : r.pre with
    | nil => simp [hp] at hh
    | cons c p =>
      simp only [hp, Bool.and_eq_true, bne_iff_ne, ne_eq] at hh
      simp only [notCont, TyParse.stripPrefix, hp, List.nil_append, List.cons_append, beq_self_eq_true, if_true]
      have : (9 == c) = false := by simpa using fun e : (9 : UInt8) = c => hh.2 e.symm
      simp [this]

/-! ### the attachments on the last line of the instruction -/

theorem appendLast_drop : ∀ (E : List Bytes) (m : Bytes) (tl : List Bytes) (hne : E ≠ []),
    (appendLast E m ++ tl).drop (E.length - 1) = (E.getLast hne ++ m) :: tl
  | [], _, _, hne => absurd rfl hne
  | [l], m, tl, _ => by simp [appendLast]
  | l :: k :: ls, m, tl, _ => by
    have ih := appendLast_drop (k :: ls) m tl (by simp)
    simp only [appendLast, List.cons_append, List.length_cons, Nat.add_sub_cancel] at ih ⊢
    simpa using ih

theorem appendLast_take : ∀ (E : List Bytes) (m : Bytes) (tl : List Bytes) (hne : E ≠ []),
    (appendLast E m ++ tl).take (E.length - 1) ++ E.getLast hne :: tl = E ++ tl
  | [], _, _, hne => absurd rfl hne
  | [l], m, tl, _ => by simp [appendLast]
  | l :: k :: ls, m, tl, _ => by
    have ih := appendLast_take (k :: ls) m tl (by simp)
    simp only [appendLast, List.cons_append, List.length_cons, Nat.add_sub_cancel] at ih ⊢
    simpa using ih

theorem appendLast_length : ∀ (E : List Bytes) (m : Bytes), (appendLast E m).length = E.length
  | [], _ => rfl
  | [_], _ => rfl
  | _ :: k :: ls, m => by have := appendLast_length (k :: ls) m; simp only [appendLast, List.length_cons] at this ⊢; omega

/-- the lines of `appendLast` keep the prefix of each line -/
theorem appendLast_prefix (p : Bytes → Bool) (hp : ∀ l s, p l = true → p (l ++ s) = true) :
    ∀ (E : List Bytes) (m : Bytes), (∀ l ∈ E, p l = true) → ∀ l ∈ appendLast E m, p l = true
  | [], _, _ => by simp [appendLast]
  | [l], m, h => by
    intro x hx; simp only [appendLast, List.mem_singleton] at hx; subst hx; exact hp l m (h l (by simp))
  | l :: k :: ls, m, h => by
    intro x hx
    simp only [appendLast, List.mem_cons] at hx
    rcases hx with rfl | hx
    · exact h _ (by simp)
    · exact appendLast_prefix p hp (k :: ls) m (fun y hy => h y (by simp [hy])) x (by simpa using hx)

theorem stripPrefix_append_some (p l s : Bytes) (h : (TyParse.stripPrefix p l).isSome = true) : (TyParse.stripPrefix p (l ++ s)).isSome = true := by
  induction p generalizing l with
  | nil => simp [TyParse.stripPrefix]
  | cons c p ih =>
    cases l with
    | nil => simp [TyParse.stripPrefix] at h
    | cons d l =>
      simp only [TyParse.stripPrefix, List.cons_append] at h ⊢
      split at h
      · rename_i hc; simp only [hc, if_true]; exact ih l h
      · simp at h

theorem takeWhile_all_append (p : Bytes → Bool) : ∀ (E tl : List Bytes), (∀ l ∈ E, p l = true) → (∀ l ∈ tl.head?, p l = false) →
    (E ++ tl).takeWhile p = E
  | [], tl, _, htl => by
    cases tl with
    | nil => rfl
    | cons t ts => simp [List.takeWhile, htl t (by simp)]
  | e :: es, tl, h, htl => by
    simp only [List.cons_append, List.takeWhile, h e (by simp)]
    congr 1
    exact takeWhile_all_append p es tl (fun l hl => h l (by simp [hl])) htl

theorem caseLine_tabs (useHex : Int → Bool) (c : Ty × Const × Ident) : (TyParse.stripPrefix [9, 9] (caseLine useHex c)).isSome = true := by
  simp [caseLine, TyParse.stripPrefix]

theorem clauseLine_tabs (useHex : Int → Bool) (c : Bool × Ty × Operand) : (TyParse.stripPrefix [9, 9] (clauseLine useHex c)).isSome = true := by
  obtain ⟨f, t, o⟩ := c
  cases f <;> simp [clauseLine, sFilter, sCatch, TyParse.stripPrefix]

theorem tabs_not_close (l : Bytes) (h : (TyParse.stripPrefix [9, 9] l).isSome = true) : (TyParse.stripPrefix sCloseCases l).isSome = false := by
  cases l with
  | nil => simp [TyParse.stripPrefix] at h
  | cons a r =>
    cases r with
    | nil =>
      simp only [TyParse.stripPrefix] at h
      split at h <;> simp at h
    | cons b r' =>
      simp only [TyParse.stripPrefix, sCloseCases] at h ⊢
      split at h
      · rename_i ha
        split at h
        · rename_i hb
          have ha' : a = 9 := by have h := ha; simp at h; exact h.symm
          have hb' : b = 9 := by have h := hb; simp at h; exact h.symm
          subst ha' hb'; simp
        · simp at h
      · simp at h

theorem appendLast_snoc : ∀ (L : List Bytes) (c m : Bytes), appendLast (L ++ [c]) m = L ++ [c ++ m]
  | [], _, _ => rfl
  | [_], _, _ => rfl
  | l :: k :: ls, c, m => by
    have := appendLast_snoc (k :: ls) c m
    simp only [List.cons_append, appendLast] at this ⊢
    rw [this]

/-- the number of continuation lines is read off the printed lines -/
theorem extCount_print (useHex : Int → Bool) (row : Nat) (x : Ext) (hx : extOK row x) (m : Bytes) (tl : List Bytes)
    (htl : ∀ l ∈ tl.head?, notCont l = true) (hne : extLines useHex x ≠ []) :
    extCount row (appendLast (extLines useHex x) m ++ tl) = (extLines useHex x).length := by
  cases x with
  | none => simp [extLines] at hne
  | cases cs =>
    obtain ⟨h1, _⟩ := hx
    subst h1
    -- the case lines do not start with `<tab>]`, the closing line does
    have hE : appendLast (cs.map (caseLine useHex) ++ [sCloseCases]) m = cs.map (caseLine useHex) ++ [sCloseCases ++ m] := appendLast_snoc _ _ _
    simp only [extCount, beq_self_eq_true, if_true, extLines, hE, List.append_assoc, List.singleton_append, List.length_append, List.length_map,
      List.length_singleton]
    have : ((cs.map (caseLine useHex)) ++ (sCloseCases ++ m) :: tl).takeWhile (fun l => !(TyParse.stripPrefix sCloseCases l).isSome) = cs.map (caseLine useHex) := by
      apply takeWhile_all_append
      · intro l hl
        obtain ⟨c, _, rfl⟩ := List.mem_map.mp hl
        simp [tabs_not_close _ (caseLine_tabs useHex c)]
      · intro l hl
        simp only [List.head?_cons, Option.mem_def, Option.some.injEq] at hl
        subst hl
        have := stripPrefix_append_some sCloseCases sCloseCases m (by simp [sCloseCases, TyParse.stripPrefix])
        simp [this]
    rw [this]; simp
  | dests n u =>
    obtain ⟨h1, _, _⟩ := hx
    have b1 : (row == swRow) = false := by
      simp only [invRows, List.mem_cons, List.not_mem_nil, or_false] at h1
      rcases h1 with h | h <;> subst h <;> rfl
    have b2 : invRows.contains row = true := by simpa using h1
    simp only [extCount, b1, b2, Bool.false_eq_true, if_false, if_true, extLines, List.length_singleton]
  | clauses cl cs =>
    obtain ⟨h1, _⟩ := hx
    subst h1
    have b1 : (lpRow == swRow) = false := rfl
    have b2 : invRows.contains lpRow = false := rfl
    simp only [extCount, b1, b2, Bool.false_eq_true, if_false, beq_self_eq_true, if_true]
    have hall : ∀ l ∈ extLines useHex (.clauses cl cs), (TyParse.stripPrefix [9, 9] l).isSome = true := by
      intro l hl
      simp only [extLines, List.mem_append, List.mem_map] at hl
      rcases hl with hl | ⟨c, _, rfl⟩
      · cases cl with
        | true => simp at hl; subst hl; simp [sCleanup, TyParse.stripPrefix]
        | false => simp at hl
      · exact clauseLine_tabs useHex c
    have := takeWhile_all_append (fun l => (TyParse.stripPrefix [9, 9] l).isSome) (appendLast (extLines useHex (.clauses cl cs)) m) tl
      (appendLast_prefix _ (fun l s h => stripPrefix_append_some [9, 9] l s h) _ m hall)
      (fun l hl => by have := htl l hl; simpa [notCont] using this)
    rw [this, appendLast_length]

/-- an instruction without continuation lines has none to count -/
theorem extCount_nil (useHex : Int → Bool) (row : Nat) (x : Ext) (hx : extOK row x) (tl : List Bytes)
    (htl : ∀ l ∈ tl.head?, notCont l = true) (he : extLines useHex x = []) : extCount row tl = 0 := by
  cases x with
  | none =>
    obtain ⟨h1, h2, h3⟩ := hx
    have b1 : (row == swRow) = false := by simpa using h1
    have b2 : invRows.contains row = false := by simpa using h2
    have b3 : (row == lpRow) = false := by simpa using h3
    simp only [extCount, b1, b2, b3, Bool.false_eq_true, if_false]
  | cases cs => simp [extLines] at he
  | dests n u => simp [extLines] at he
  | clauses cl cs =>
    obtain ⟨h1, _⟩ := hx
    subst h1
    have b1 : (lpRow == swRow) = false := rfl
    have b2 : invRows.contains lpRow = false := rfl
    simp only [extCount, b1, b2, Bool.false_eq_true, if_false, beq_self_eq_true, if_true]
    have := takeWhile_all_append (fun l => (TyParse.stripPrefix [9, 9] l).isSome) [] tl (by simp)
      (fun l hl => by have := htl l hl; simpa [notCont] using this)
    simp only [List.nil_append] at this
    rw [this]; rfl

theorem splitExtMd_print (E : List Bytes) (hne : E ≠ []) (md : List (Bytes × Nat)) (tl : List Bytes)
    (hscan : scanMd false (E.getLast hne) = some false) (hmd : ∀ a ∈ md, a.1 ≠ [] ∧ a.2 < 2 ^ 63) :
    splitExtMd E.length (appendLast E (mdString md) ++ tl) = some (md, E ++ tl) := by
  have hsp := splitMd_scan (E.getLast hne) false false (mdString md) hscan (mdString_head md)
  rw [splitMd_mdString md (fun a ha => (hmd a ha).1)] at hsp
  simp only [List.append_nil] at hsp
  have hr := readMds_print md ((mdString md).length + 1) hmd (by have := mdString_len md; omega)
  simp only [splitExtMd, appendLast_drop E (mdString md) tl hne, hsp, hr, appendLast_take E (mdString md) tl hne]

/-- the lines of an instruction are read back as that instruction: its first line, the attachments (from the first line when there is no other, from the last
    line otherwise), the continuation lines -/
theorem inst_lines (useHex : Int → Bool) (i : Inst) (hi : instOK i) (hmd : mdOK useHex i) (tl : List Bytes) (htl : ∀ l ∈ tl.head?, notCont l = true) :
    ∃ (first : Bytes) (rest : List Bytes) (i0 : Inst), instLines useHex i ++ tl = (9 :: first) :: rest ∧ readInstMd first = some i0 ∧
      i0.row = i.row ∧ ({ i0 with ext := i.ext, md := i.md } : Inst) = i ∧
      (if extCount i.row rest == 0 then some (i0.md, rest) else if !i0.md.isEmpty then none else splitExtMd (extCount i.row rest) rest) =
        some (i.md, extLines useHex i.ext ++ tl) ∧
      readExt i.row (extLines useHex i.ext ++ tl) = some (i.ext, tl) := by
  have hx : extOK i.row i.ext := by obtain ⟨_, _, _, _, _, _, _, hx⟩ := hi; exact hx
  have hre := readExt_print useHex i.row i.ext hx tl htl
  cases hE : extLines useHex i.ext with
  | nil =>
    refine ⟨instString useHex i ++ mdString i.md, tl, { i with ext := .none }, ?_, readInstMd_print useHex i hi hmd, rfl, by cases i; rfl, ?_, by rw [← hE]; exact hre⟩
    · simp [instLines, hE]
    · have := extCount_nil useHex i.row i.ext hx tl htl hE
      simp [this]
  | cons e es =>
    have hne : extLines useHex i.ext ≠ [] := by rw [hE]; simp
    -- the first line carries no attachment
    have hi' : instOK ({ i with md := [] } : Inst) := hi
    have hmd' : mdOK useHex ({ i with md := [] } : Inst) := ⟨by intro a ha; simp at ha, hmd.2.1, Or.inl rfl, hmd.2.2.2⟩
    have hr := readInstMd_print useHex ({ i with md := [] } : Inst) hi' hmd'
    have hs : instString useHex ({ i with md := [] } : Inst) = instString useHex i := rfl
    simp only [hs, mdString, List.append_nil] at hr
    refine ⟨instString useHex i, appendLast (e :: es) (mdString i.md) ++ tl, { i with ext := .none, md := [] }, ?_, hr, rfl, by cases i; rfl, ?_, by rw [← hE]; exact hre⟩
    · simp [instLines, hE]
    · have hc := extCount_print useHex i.row i.ext hx (mdString i.md) tl htl hne
      rw [hE] at hc
      have hlast : scanMd false ((e :: es).getLast (by simp)) = some false := by
        have := hmd.2.2.2 ((e :: es).getLast (by simp)) (by rw [hE]; simp [List.getLast?_eq_some_getLast])
        exact this
      have hsplit := splitExtMd_print (e :: es) (by simp) i.md tl hlast hmd.1
      simp only [hc, List.length_cons] at hsplit ⊢
      simp [hsplit]

/-- the instruction lines of a block are read up to and including the terminator -/
theorem readBody_lines (useHex : Int → Bool) (t : Inst) (ht : instOK t) (htm : mdOK useHex t) (htt : isTerm t = true) (tl : List Bytes)
    (htl : ∀ l ∈ tl.head?, notCont l = true) :
    ∀ (is : List Inst), (∀ i ∈ is, instOK i ∧ isTerm i = false) → (∀ i ∈ is, mdOK useHex i) → ∀ f, is.length + 1 ≤ f →
      readBody' f (is.flatMap (instLines useHex) ++ (instLines useHex t ++ tl)) = some (is, t, tl)
  | [], _, _, f, hf => by
    obtain ⟨f', rfl⟩ : ∃ f', f = f' + 1 := ⟨f - 1, by simp at hf; omega⟩
    obtain ⟨first, rest, i0, hl, h1, hrow, hi0, h2, h3⟩ := inst_lines useHex t ht htm tl htl
    have e : ({ res := i0.res, row := t.row, args := i0.args, ext := t.ext, md := t.md } : Inst) = t := by rw [← hrow]; exact hi0
    simp only [List.flatMap_nil, List.nil_append, hl, readBody', isInstLine, List.head?_cons, beq_self_eq_true,
      Bool.not_true, Bool.false_eq_true, if_false, List.tail_cons, h1, hrow, h2, h3, e, htt, if_true]
  | i :: is, hi, him, f, hf => by
    obtain ⟨f', rfl⟩ : ∃ f', f = f' + 1 := ⟨f - 1, by simp at hf; omega⟩
    have ih := readBody_lines useHex t ht htm htt tl htl is (fun x hx => hi x (by simp [hx])) (fun x hx => him x (by simp [hx])) f' (by simp at hf ⊢; omega)
    have h1 := hi i (by simp)
    -- the line after the lines of `i` is the first line of an instruction
    have hfirst : ∀ (j : Inst), instOK j → ∀ l ∈ (instLines useHex j).head?, notCont l = true := by
      intro j hj l hl
      cases hE : extLines useHex j.ext with
      | nil => simp [instLines, hE] at hl; subst hl; exact instLine_notCont useHex j hj _
      | cons e es =>
        simp [instLines, hE] at hl; subst hl
        have := instLine_notCont useHex j hj []
        simpa using this
    have hnext : ∀ l ∈ (is.flatMap (instLines useHex) ++ (instLines useHex t ++ tl)).head?, notCont l = true := by
      intro l hl
      cases is with
      | nil =>
        simp only [List.flatMap_nil, List.nil_append] at hl
        have hne : instLines useHex t ≠ [] := by unfold instLines; split <;> simp
        cases hL : instLines useHex t with
        | nil => exact absurd hL hne
        | cons a r => rw [hL] at hl; simp at hl; subst hl; exact hfirst t ht a (by rw [hL]; simp)
      | cons j js =>
        have hne : instLines useHex j ≠ [] := by unfold instLines; split <;> simp
        cases hL : instLines useHex j with
        | nil => exact absurd hL hne
        | cons a r =>
          simp only [List.flatMap_cons, hL, List.cons_append, List.head?_cons, Option.mem_def, Option.some.injEq] at hl
          subst hl; exact hfirst j (hi j (by simp)).1 a (by rw [hL]; simp)
    obtain ⟨first, rest, i0, hl, h2, hrow, hi0, h3, h4⟩ := inst_lines useHex i h1.1 (him i (by simp)) _ hnext
    have e : ({ res := i0.res, row := i.row, args := i0.args, ext := i.ext, md := i.md } : Inst) = i := by rw [← hrow]; exact hi0
    simp only [List.flatMap_cons, List.append_assoc, hl, readBody', isInstLine, List.head?_cons, beq_self_eq_true,
      Bool.not_true, Bool.false_eq_true, if_false, List.tail_cons, h2, hrow, h3, h4, e, h1.2, ih]

theorem instLines_len (useHex : Int → Bool) (t : Inst) : 1 ≤ (instLines useHex t).length := by unfold instLines; split <;> simp

/-- the attachments of every instruction of the block are well-formed -/
def blockMdOK (useHex : Int → Bool) (b : Block) : Prop := (∀ i ∈ b.insts, mdOK useHex i) ∧ mdOK useHex b.term

theorem block_step (useHex : Int → Bool) (b : Block) (hb : blockOK b) (hbm : blockMdOK useHex b) (tl : List Bytes) (bs : List Block) (f : Nat)
    (htl : ∀ l ∈ tl.head?, notCont l = true) (ht : readBlocks f tl = some bs) :
    readBlocks (f + 1) (blockLines useHex b ++ tl) = some (b :: bs) := by
  obtain ⟨hl, hi, htm, htt⟩ := hb
  have hbody := readBody_lines useHex b.term htm hbm.2 htt tl htl b.insts hi hbm.1
    ((b.insts.flatMap (instLines useHex) ++ (instLines useHex b.term ++ tl)).length + 1) (by
      have : b.insts.length ≤ (b.insts.flatMap (instLines useHex)).length := by
        induction b.insts with
        | nil => simp
        | cons i is ih => have := instLines_len useHex i; simp only [List.flatMap_cons, List.length_append, List.length_cons]; omega
      simp only [List.length_append]; omega)
  simp only [blockLines, List.cons_append, readBlocks, labelString_ne_close b.label hl, labelString_ne_nil b.label hl,
    labelString_not_inst b.label hl, Bool.false_eq_true, if_false, readLabel_labelString b.label hl, List.append_assoc,
    List.singleton_append, List.nil_append]
  rw [hbody]
  simp [ht]

theorem sep_step (tl : List Bytes) (f : Nat) : readBlocks (f + 1) ([] :: tl) = readBlocks f tl := by
  simp [readBlocks]

theorem readBlocks_print (useHex : Int → Bool) : ∀ (bs : List Block), bs ≠ [] → (∀ b ∈ bs, blockOK b) → (∀ b ∈ bs, blockMdOK useHex b) →
    ∀ f, (blocksLines useHex bs ++ [[125]]).length ≤ f → readBlocks f (blocksLines useHex bs ++ [[125]]) = some bs
  | [], h, _, _, _, _ => absurd rfl h
  | [b], _, hb, hbm, f, hf => by
    obtain ⟨f', rfl⟩ : ∃ f', f = f' + 1 + 1 := ⟨f - 2, by simp [blocksLines, blockLines] at hf; omega⟩
    simp only [blocksLines]
    exact block_step useHex b (hb b (by simp)) (hbm b (by simp)) [[125]] [] (f' + 1) (by simp [notCont, TyParse.stripPrefix]) (by simp [readBlocks])
  | b :: c :: bs, _, hb, hbm, f, hf => by
    simp only [blocksLines, List.append_assoc, List.length_append, List.length_cons, List.length_nil] at hf
    obtain ⟨f', rfl⟩ : ∃ f', f = f' + 1 + 1 := ⟨f - 2, by simp [blockLines] at hf; omega⟩
    have ih := readBlocks_print useHex (c :: bs) (by simp) (fun x hx => hb x (by simp [hx])) (fun x hx => hbm x (by simp [hx])) f' (by
      simp only [List.length_append, List.length_cons, List.length_nil]
      simp [blockLines] at hf; omega)
    simp only [blocksLines, List.append_assoc]
    apply block_step useHex b (hb b (by simp)) (hbm b (by simp)) _ (c :: bs) (f' + 1)
    · simp [notCont, TyParse.stripPrefix]
    · simp only [List.singleton_append, sep_step]; exact ih

/-! ### the header -/

theorem sOpen_identEnd : identEnd (sOpen ++ r) = true := by simp [sOpen, identEnd, inTail, inHead, isAlpha, isUpper, isLower, isDigit]

/-- the attribute keywords of a parameter are pairwise divergent, and none starts with `a`, `(` (what a type may go on with) or `%` (an identifier) -/
theorem kParamAttr_diverge : keysDiverge kParamAttr = true := by decide +kernel
theorem kParamAttr_heads : kParamAttr.all (fun k => match k with | c :: _ => c != 97 && c != 40 && c != 37 | [] => false) = true := by decide

theorem kParamAttr_head (j : Nat) (hj : j < kParamAttr.length) : ∃ c r, kParamAttr.getD j [] = c :: r ∧ c ≠ 97 ∧ c ≠ 40 ∧ c ≠ 37 := by
  have hm : kParamAttr.getD j [] ∈ kParamAttr := by
    have : kParamAttr.getD j [] = kParamAttr[j] := by simp [List.getD, List.getElem?_eq_getElem hj]
    rw [this]; exact List.getElem_mem hj
  have := List.all_eq_true.mp kParamAttr_heads _ hm
  cases hk : kParamAttr.getD j [] with
  | nil => rw [hk] at this; simp at this
  | cons c r =>
    rw [hk] at this
    simp only [Bool.and_eq_true, bne_iff_ne, ne_eq] at this
    exact ⟨c, r, rfl, this.1.1, this.1.2, this.2⟩

/-- a parameter is well-formed: an identifier, attribute positions within the list -/
def pattrOK (p : (Ty × Ident) × List Nat) : Prop := identOK p.1.2 ∧ ∀ j ∈ p.2, j < kParamAttr.length

/-- what follows the type of a parameter starts neither with `a` nor with `(` -/
theorem pattr_follow (a : List Nat) (i : Ident) (tail : Bytes) (ha : ∀ j ∈ a, j < kParamAttr.length) (hi : identOK i) :
    ∃ h rest, flagsString kParamAttr a ++ (identString i ++ tail) = h :: rest ∧ h ≠ 97 ∧ h ≠ 40 := by
  cases a with
  | nil =>
    obtain ⟨rest, hh⟩ := identString_head i hi
    exact ⟨37, rest ++ tail, by simp [flagsString, hh], by decide, by decide⟩
  | cons j a' =>
    obtain ⟨c, r, hk, h97, h40, _⟩ := kParamAttr_head j (ha j (by simp))
    exact ⟨c, r ++ [32] ++ (flagsString kParamAttr a' ++ (identString i ++ tail)), by simp only [flagsString, hk]; simp, h97, h40⟩

theorem param_ty_step (t : Ty) (a : List Nat) (i : Ident) (tail : Bytes) (ha : ∀ j ∈ a, j < kParamAttr.length) (hi : identOK i) :
    TyParse.parseTy (tyFuel (tyString t ++ 32 :: (flagsString kParamAttr a ++ (identString i ++ tail)))) (tyString t ++ 32 :: (flagsString kParamAttr a ++ (identString i ++ tail)))
      = some (t, 32 :: (flagsString kParamAttr a ++ (identString i ++ tail))) := by
  obtain ⟨h, rest, heq, h97, h40⟩ := pattr_follow a i tail ha hi
  rw [heq]
  apply TyParse.parseTy_tyString_gen
  · simp [TyParse.cont]
  · unfold TyParse.stopG
    split
    · rename_i e; simp at e
    · rename_i e; simp at e; exact absurd e.1 h97
    · rename_i e; simp at e; exact absurd e.1 h40
    · rfl
  · have := TyParse.w_le_len t
    unfold tyFuel; simp only [List.length_append]; omega

/-- no attribute keyword starts an identifier -/
theorem pattr_rest (i : Ident) (tail : Bytes) (hi : identOK i) : ∀ k ∈ kParamAttr, TyParse.stripPrefix (k ++ [32]) (identString i ++ tail) = none := by
  intro k hk
  obtain ⟨rest, hh⟩ := identString_head i hi
  have := List.all_eq_true.mp kParamAttr_heads k hk
  cases k with
  | nil => simp at this
  | cons c r =>
    simp only [Bool.and_eq_true, bne_iff_ne, ne_eq] at this
    rw [hh]
    simp [TyParse.stripPrefix, this.2]

/-- what may follow the parameters: the closing parenthesis, or the marker of a variadic function and the closing parenthesis -/
def paramsEnd (F R : Bytes) : Prop := F = 41 :: R ∨ F = sCommaDots ++ 41 :: R

theorem paramsEnd_identEnd (F R : Bytes) (h : paramsEnd F R) : identEnd F = true := by
  rcases h with rfl | rfl <;> simp [sCommaDots, identEnd, inTail, inHead, isAlpha, isUpper, isLower, isDigit]

theorem tyString_not_dots (t : Ty) (rest : Bytes) : ((tyString t ++ rest).take 3 == sDots) = false := by
  obtain ⟨c, r, h, hc⟩ := TyParse.tyString_head t
  have h46 : c ≠ 46 := by
    intro e; subst e; simp [TyParse.tyStart] at hc
  rw [h]
  simp only [List.cons_append, sDots]
  cases hr : (r ++ rest) with
  | nil => simp [List.take]
  | cons x xs =>
    simp only [List.take, beq_eq_false_iff_ne, ne_eq, List.cons.injEq, not_and]
    intro e; exact absurd e h46

theorem readParams_print : ∀ (ps : List ((Ty × Ident) × List Nat)), ps ≠ [] → (∀ p ∈ ps, pattrOK p) → ∀ (F R : Bytes) f, paramsEnd F R → ps.length ≤ f →
    readParams f (paramsString ps ++ F) = some (ps, F)
  | [], h, _, _, _, _, _, _ => absurd rfl h
  | [((t, i), a)], _, hp, F, R, f, hF, hf => by
    obtain ⟨f', rfl⟩ : ∃ f', f = f' + 1 := ⟨f - 1, by simp at hf; omega⟩
    obtain ⟨hi, ha⟩ := hp ((t, i), a) (by simp)
    have e : paramsString [((t, i), a)] ++ F = tyString t ++ 32 :: (flagsString kParamAttr a ++ (identString i ++ F)) := by simp [paramsString]
    rw [e, readParams, param_ty_step t a i F ha hi]
    have hfl := readFlags_print kParamAttr (identString i ++ F) kParamAttr_diverge (pattr_rest i F hi) a
      ((flagsString kParamAttr a ++ (identString i ++ F)).length + 1) ha (by
        have := flagsString_len kParamAttr a; simp only [List.length_append]; omega)
    simp only [hfl, readIdent_identString i F hi (paramsEnd_identEnd F R hF)]
    rcases hF with rfl | rfl
    · rfl
    · simp [sCommaDots, sDots]
  | ((t, i), a) :: q :: ps, _, hp, F, R, f, hF, hf => by
    obtain ⟨f', rfl⟩ : ∃ f', f = f' + 1 := ⟨f - 1, by simp at hf; omega⟩
    obtain ⟨hi, ha⟩ := hp ((t, i), a) (by simp)
    have e : paramsString (((t, i), a) :: q :: ps) ++ F
        = tyString t ++ 32 :: (flagsString kParamAttr a ++ (identString i ++ (sComma ++ (paramsString (q :: ps) ++ F)))) := by
      simp [paramsString]
    have ih := readParams_print (q :: ps) (by simp) (fun x hx => hp x (by simp [hx])) F R f' hF (by simp at hf ⊢; omega)
    rw [e, readParams, param_ty_step t a i _ ha hi]
    have hfl := readFlags_print kParamAttr (identString i ++ (sComma ++ (paramsString (q :: ps) ++ F))) kParamAttr_diverge (pattr_rest i _ hi) a
      ((flagsString kParamAttr a ++ (identString i ++ (sComma ++ (paramsString (q :: ps) ++ F)))).length + 1) ha (by
        have := flagsString_len kParamAttr a; simp only [List.length_append]; omega)
    have hri := readIdent_identString i (sComma ++ (paramsString (q :: ps) ++ F)) hi
      (by simp [sComma, identEnd, inTail, inHead, isAlpha, isUpper, isLower, isDigit])
    have hnd : ((paramsString (q :: ps) ++ F).take 3 == sDots) = false := by
      obtain ⟨⟨tq, iq⟩, aq⟩ := q
      cases ps with
      | nil => simp only [paramsString, List.append_assoc]; exact tyString_not_dots tq _
      | cons q' ps' => simp only [paramsString, List.append_assoc]; exact tyString_not_dots tq _
    simp only [hfl, hri]
    simp only [sComma, List.cons_append, List.nil_append, hnd, Bool.false_eq_true, if_false, ih]

theorem paramsString_len : ∀ (ps : List ((Ty × Ident) × List Nat)), ps.length ≤ (paramsString ps).length
  | [] => by simp
  | [((t, i), a)] => by
    obtain ⟨c, rest, h, _⟩ := TyParse.tyString_head t
    simp [paramsString, h]
  | ((t, i), a) :: q :: ps => by
    have := paramsString_len (q :: ps)
    obtain ⟨c, rest, h, _⟩ := TyParse.tyString_head t
    simp only [paramsString, List.length_append, List.length_cons, h] at this ⊢
    omega

theorem paramsString_head (p : (Ty × Ident) × List Nat) (ps : List ((Ty × Ident) × List Nat)) :
    ∃ c rest, paramsString (p :: ps) = c :: rest ∧ c ≠ 41 := by
  obtain ⟨⟨t, i⟩, a⟩ := p
  obtain ⟨c, rest, h, hc⟩ := TyParse.tyString_head t
  have h41 : c ≠ 41 := by
    intro e; subst e; simp [TyParse.tyStart] at hc
  cases ps with
  | nil => exact ⟨c, rest ++ ([32] ++ flagsString kParamAttr a ++ identString i), by simp [paramsString, h], h41⟩
  | cons q qs => exact ⟨c, rest ++ ([32] ++ flagsString kParamAttr a ++ identString i ++ sComma ++ paramsString (q :: qs)), by simp [paramsString, h], h41⟩

/-- the parameters zipped with their attributes are well-formed when both lists are -/
theorem zipA_ok : ∀ (ps : List (Ty × Ident)) (as : List (List Nat)), (∀ p ∈ ps, identOK p.2) → (∀ a ∈ as, ∀ j ∈ a, j < kParamAttr.length) →
    ∀ p ∈ zipA ps as, pattrOK p
  | [], _, _, _ => by simp [zipA]
  | p :: ps, [], hp, ha => by
    intro x hx
    simp only [zipA, List.mem_cons] at hx
    rcases hx with rfl | hx
    · exact ⟨hp p (by simp), by simp⟩
    · exact zipA_ok ps [] (fun y hy => hp y (by simp [hy])) (by simp) x hx
  | p :: ps, a :: as, hp, ha => by
    intro x hx
    simp only [zipA, List.mem_cons] at hx
    rcases hx with rfl | hx
    · exact ⟨hp p (by simp), ha a (by simp)⟩
    · exact zipA_ok ps as (fun y hy => hp y (by simp [hy])) (fun b hb => ha b (by simp [hb])) x hx

theorem zipA_fst : ∀ (ps : List (Ty × Ident)) (as : List (List Nat)), (zipA ps as).map (·.1) = ps
  | [], _ => by simp [zipA]
  | p :: ps, [] => by simp [zipA, zipA_fst ps []]
  | p :: ps, a :: as => by simp [zipA, zipA_fst ps as]

theorem zipA_snd : ∀ (ps : List (Ty × Ident)) (as : List (List Nat)), as.length = ps.length → (zipA ps as).map (·.2) = as
  | [], [], _ => by simp [zipA]
  | [], _ :: _, h => by simp at h
  | _ :: _, [], h => by simp at h
  | p :: ps, a :: as, h => by simp [zipA, zipA_snd ps as (by simpa using h)]

theorem zipA_nil_iff (ps : List (Ty × Ident)) (as : List (List Nat)) : zipA ps as = [] ↔ ps = [] := by
  cases ps with
  | nil => simp [zipA]
  | cons p ps => cases as <;> simp [zipA]

/-! ### the clauses behind the parameter list -/

theorem kTail_diverge : keysDiverge kTail = true := by decide +kernel

/-- no clause keyword followed by a space starts one of the other clause openers; the openers diverge from each other -/
theorem kTail_vs_openers : kTail.all (fun k => diverge (k ++ [32]) sAddrspaceOpen && diverge (k ++ [32]) sAlignSp &&
    kStr.all (fun q => diverge (k ++ [32]) (q ++ [32, 34]))) = true := by decide +kernel
theorem openers_diverge : diverge sAddrspaceOpen sAlignSp = true ∧ kStr.all (fun q => diverge sAddrspaceOpen (q ++ [32, 34]) && diverge sAlignSp (q ++ [32, 34])) = true := by
  decide +kernel

def itemOK : HItem → Prop
  | .kw i => i < kTail.length
  | .addrspace _ => True
  | .str w _ => w < kStr.length
  | .align _ => True

theorem findFlag_kTail_none (L x : Bytes) (h : kTail.all (fun k => diverge (k ++ [32]) L) = true) : findFlag 0 kTail (L ++ x) = none := by
  apply findFlag_none
  intro k hk
  exact stripPrefix_diverge _ _ _ (List.all_eq_true.mp h k hk)

theorem quote_split' (s r : Bytes) :
    (Enc.escapeString s ++ 34 :: r).dropWhile (· != 34) = 34 :: r ∧ (Enc.escapeString s ++ 34 :: r).takeWhile (· != 34) = Enc.escapeString s := by
  have hq : ∀ b ∈ Enc.escapeString s, b ≠ 34 := TyParse.escape_no_quote Enc.validString (by decide) s
  have := TyParse.takeWhile_append_stop (· != 34) (Enc.escapeString s) (34 :: r) (fun x hx => by simpa using hq x hx) (by simp)
  exact ⟨this.2, this.1⟩

theorem readStrItem_print (s rest : Bytes) : ∀ (ks : List Bytes) (w0 w : Nat) (k : Bytes), ks[w]? = some k →
    (∀ j q, j < w → ks[j]? = some q → diverge (q ++ [32, 34]) (k ++ [32, 34]) = true) →
    readStrItem w0 ks (k ++ [32] ++ Enc.quote s ++ [32] ++ rest) = some (.str (w0 + w) s, rest)
  | [], _, _, _, h, _ => by simp at h
  | q :: ks, w0, 0, k, h, _ => by
    simp at h; subst h
    have e : q ++ [32] ++ Enc.quote s ++ [32] ++ rest = (q ++ [32, 34]) ++ (Enc.escapeString s ++ 34 :: 32 :: rest) := by simp [Enc.quote]
    obtain ⟨h1, h2⟩ := quote_split' s (32 :: rest)
    simp only [readStrItem, e, TyParse.stripPrefix_append, h1, h2, Props.C11.unescape_escapeString, Nat.add_zero]
  | q :: ks, w0, w + 1, k, h, hd => by
    have hq := hd 0 q (by omega) (by simp)
    have e : k ++ [32] ++ Enc.quote s ++ [32] ++ rest = (k ++ [32, 34]) ++ (Enc.escapeString s ++ 34 :: 32 :: rest) := by simp [Enc.quote]
    have hn : TyParse.stripPrefix (q ++ [32, 34]) (k ++ [32] ++ Enc.quote s ++ [32] ++ rest) = none := by
      rw [e]; exact stripPrefix_diverge _ _ _ hq
    have ih := readStrItem_print s rest ks (w0 + 1) w k (by simpa using h) (fun j q' hj hq' => hd (j + 1) q' (by omega) (by simpa using hq'))
    simp only [readStrItem, hn, ih]
    have : w0 + 1 + w = w0 + (w + 1) := by omega
    rw [this]

theorem kStr_diverge : ∀ (w : Nat) (k : Bytes), kStr[w]? = some k → ∀ j q, j < w → kStr[j]? = some q → diverge (q ++ [32, 34]) (k ++ [32, 34]) = true := by
  intro w k hk j q hj hq
  have hw : w < 3 := by
    have := List.getElem?_eq_some_iff.mp hk
    obtain ⟨h, _⟩ := this; simpa [kStr] using h
  have : w = 1 ∨ w = 2 := by omega
  rcases this with rfl | rfl
  · have : j = 0 := by omega
    subst this; simp [kStr] at hk hq; subst hk hq; decide
  · have : j = 0 ∨ j = 1 := by omega
    rcases this with rfl | rfl <;> (simp [kStr] at hk hq; subst hk hq; decide)

/-- one clause and the space behind it, read back -/
theorem readItem_print (it : HItem) (hi : itemOK it) (rest : Bytes) : readItem (itemString it ++ [32] ++ rest) = some (it, rest) := by
  cases it with
  | kw i =>
    have hk : kTail[i]? = some (kTail.getD i []) := by simp [List.getD, List.getElem?_eq_getElem (show i < kTail.length from hi)]
    have := findFlag_spec kTail 0 i (kTail.getD i []) rest kTail_diverge hk
    simp only [readItem, itemString, this, Nat.zero_add]
  | addrspace n =>
    have e : itemString (.addrspace n) ++ [32] ++ rest = sAddrspaceOpen ++ (natDec n ++ 41 :: 32 :: rest) := by simp [itemString]
    have hf := findFlag_kTail_none sAddrspaceOpen (natDec n ++ 41 :: 32 :: rest) (by
      have := kTail_vs_openers; simp only [List.all_eq_true, Bool.and_eq_true] at this ⊢; exact fun k hk => (this k hk).1.1)
    rw [e]
    simp only [readItem, hf, TyParse.stripPrefix_append, TyParse.readNat_natDec n (41 :: 32 :: rest) (by simp [isDigit])]
  | align n =>
    have e : itemString (.align n) ++ [32] ++ rest = sAlignSp ++ (natDec n ++ 32 :: rest) := by simp [itemString]
    have hf := findFlag_kTail_none sAlignSp (natDec n ++ 32 :: rest) (by
      have := kTail_vs_openers; simp only [List.all_eq_true, Bool.and_eq_true] at this ⊢; exact fun k hk => (this k hk).1.2)
    have ha : TyParse.stripPrefix sAddrspaceOpen (sAlignSp ++ (natDec n ++ 32 :: rest)) = none := stripPrefix_diverge _ _ _ openers_diverge.1
    rw [e]
    simp only [readItem, hf, ha, TyParse.stripPrefix_append, TyParse.readNat_natDec n (32 :: rest) (by simp [isDigit])]
  | str w s =>
    have hw : w < kStr.length := hi
    have hk : kStr[w]? = some (kStr.getD w []) := by simp [List.getD, List.getElem?_eq_getElem hw]
    have e : itemString (.str w s) ++ [32] ++ rest = (kStr.getD w [] ++ [32, 34]) ++ (Enc.escapeString s ++ 34 :: 32 :: rest) := by simp [itemString, Enc.quote]
    have hmem : kStr.getD w [] ∈ kStr := List.mem_of_getElem? hk
    have hf : findFlag 0 kTail (itemString (.str w s) ++ [32] ++ rest) = none := by
      rw [e]
      apply findFlag_kTail_none
      have := kTail_vs_openers
      simp only [List.all_eq_true, Bool.and_eq_true] at this ⊢
      exact fun k hk' => (this k hk').2 _ hmem
    have hop := openers_diverge.2
    simp only [List.all_eq_true, Bool.and_eq_true] at hop
    have ha : TyParse.stripPrefix sAddrspaceOpen (itemString (.str w s) ++ [32] ++ rest) = none := by rw [e]; exact stripPrefix_diverge _ _ _ (hop _ hmem).1
    have hl : TyParse.stripPrefix sAlignSp (itemString (.str w s) ++ [32] ++ rest) = none := by rw [e]; exact stripPrefix_diverge _ _ _ (hop _ hmem).2
    have hs := readStrItem_print s rest kStr 0 w (kStr.getD w []) hk (kStr_diverge w _ hk)
    have e2 : itemString (.str w s) ++ [32] ++ rest = kStr.getD w [] ++ [32] ++ Enc.quote s ++ [32] ++ rest := by simp [itemString]
    simp only [readItem, hf, ha, hl]
    rw [e2, hs]; simp

theorem itemString_head (it : HItem) (hi : itemOK it) (rest : Bytes) : (itemString it ++ [32] ++ rest).head? ≠ some 123 := by
  cases it with
  | kw i =>
    have hk : kTail.getD i [] ∈ kTail := by
      have : kTail[i]? = some (kTail.getD i []) := by simp [List.getD, List.getElem?_eq_getElem (show i < kTail.length from hi)]
      exact List.mem_of_getElem? this
    have hall : kTail.all (fun k => (k ++ [32]).head? != some 123) = true := by decide +kernel
    have := List.all_eq_true.mp hall _ hk
    intro h
    cases hkk : kTail.getD i [] with
    | nil =>
      have e : itemString (.kw i) = [] := by simp only [itemString]; exact hkk
      rw [e] at h; simp at h
    | cons c r =>
      have e : itemString (.kw i) = c :: r := by simp only [itemString]; exact hkk
      rw [e] at h
      rw [hkk] at this
      simp at h this
      exact this h
  | addrspace n => simp [itemString, sAddrspaceOpen]
  | align n => simp [itemString, sAlignSp]
  | str w s =>
    have hw : w < kStr.length := hi
    have : w = 0 ∨ w = 1 ∨ w = 2 := by simp [kStr] at hw; omega
    rcases this with rfl | rfl | rfl <;> simp [itemString, kStr, List.getD]

theorem itemsString_len : ∀ (its : List HItem), its.length ≤ (itemsString its).length
  | [] => by simp [itemsString]
  | it :: its => by have := itemsString_len its; simp only [itemsString, List.length_append, List.length_cons, List.length_nil]; omega

theorem readItems_print : ∀ (its : List HItem), (∀ it ∈ its, itemOK it) → ∀ (rest : Bytes) (f : Nat), its.length + 1 ≤ f →
    readItems f (itemsString its ++ 123 :: rest) = some (its, 123 :: rest)
  | [], _, rest, f, hf => by
    obtain ⟨f', rfl⟩ : ∃ f', f = f' + 1 := ⟨f - 1, by simp at hf; omega⟩
    simp [itemsString, readItems]
  | it :: its, h, rest, f, hf => by
    obtain ⟨f', rfl⟩ : ∃ f', f = f' + 1 := ⟨f - 1, by simp at hf; omega⟩
    have ih := readItems_print its (fun x hx => h x (by simp [hx])) rest f' (by simp at hf ⊢; omega)
    have hi := h it (by simp)
    have e : itemsString (it :: its) ++ 123 :: rest = itemString it ++ [32] ++ (itemsString its ++ 123 :: rest) := by simp [itemsString]
    have hh := itemString_head it hi (itemsString its ++ 123 :: rest)
    rw [e]
    have hb : ((itemString it ++ [32] ++ (itemsString its ++ 123 :: rest)).head? == some 123) = false := by
      cases hx : (itemString it ++ [32] ++ (itemsString its ++ 123 :: rest)).head? == some 123 with
      | false => rfl
      | true => exact absurd (by simpa using hx) hh
    simp only [readItems, hb, Bool.false_eq_true, if_false, readItem_print it hi, ih]

/-! the translation of the clauses (`foldItems`) gives the fields back -/

def tailFieldsOK (t : HTail) : Prop :=
  (∀ i ∈ t.unnamed, i < 2) ∧ t.addrspace < 2 ^ 64 ∧ (∀ i ∈ t.attrs, i < kFuncAttr.length) ∧ t.align < 2 ^ 64

theorem foldlM_attrs : ∀ (as : List Nat) (ph : Nat) (t : HTail), (∀ i ∈ as, i < kFuncAttr.length) →
    ∃ ph', (as.map (fun i => HItem.kw (i + 2))).foldlM applyItem (ph, t) = some (ph', { t with attrs := t.attrs ++ as })
  | [], ph, t, _ => ⟨ph, by simp⟩
  | a :: as, ph, t, h => by
    have ha : a < kFuncAttr.length := h a (by simp)
    have h1 : ¬ (a + 2 < 2) := by omega
    have h2 : a + 2 < kTail.length := by
      have : kTail.length = 2 + kFuncAttr.length := by simp [kTail, kUnnamed]; omega
      omega
    obtain ⟨ph', hf⟩ := foldlM_attrs as 2 { t with attrs := t.attrs ++ [a] } (fun i hi => h i (by simp [hi]))
    refine ⟨ph', ?_⟩
    simp only [List.map_cons, List.foldlM_cons, applyItem, h1, if_false, h2, if_true, Nat.add_sub_cancel, Option.bind_eq_bind, Option.bind_some]
    rw [hf]; simp [List.append_assoc]

theorem foldlM_rest (ph : Nat) (t : HTail) (sect part gc : Bytes) (al : Nat) (hal : al < 2 ^ 64)
    (h0 : t.sect = [] ∧ t.partition = [] ∧ t.align = 0 ∧ t.gc = []) :
    ∃ ph', (optItem sect.isEmpty (.str 0 sect) ++ (optItem part.isEmpty (.str 1 part) ++ (optItem (al == 0) (.align al) ++ optItem gc.isEmpty (.str 2 gc)))).foldlM
        applyItem (ph, t) = some (ph', { t with sect := sect, partition := part, align := al, gc := gc }) := by
  obtain ⟨tu, ta, tat, ts, tp, tal, tg⟩ := t
  simp only at h0
  obtain ⟨rfl, rfl, rfl, rfl⟩ := h0
  by_cases hs : sect = [] <;> by_cases hp : part = [] <;> by_cases hz : al = 0 <;> by_cases hg : gc = [] <;>
    simp [optItem, hs, hp, hz, hg, applyItem, hal, List.isEmpty_iff]

theorem foldItems_itemsOf (t : HTail) (h : tailFieldsOK t) : foldItems (itemsOf t) = some t := by
  obtain ⟨hu, ha, hattr, hal⟩ := h
  obtain ⟨u, asp, attrs, sect, part, al, gc⟩ := t
  simp only at hu ha hattr hal
  unfold foldItems itemsOf
  simp only
  -- unnamed_addr
  have s1 : ∃ ph, ph ≤ 1 ∧ (unnamedItems u).foldlM applyItem (0, ({} : HTail)) = some (ph, ({ unnamed := u } : HTail)) := by
    cases u with
    | none => exact ⟨0, by omega, rfl⟩
    | some i =>
      have : i < 2 := hu i (by simp)
      exact ⟨1, by omega, by simp [unnamedItems, applyItem, this]⟩
  obtain ⟨p1, hp1, e1⟩ := s1
  -- addrspace
  have s2 : ∃ ph, (optItem (asp == 0) (.addrspace asp)).foldlM applyItem (p1, ({ unnamed := u } : HTail)) =
      some (ph, ({ unnamed := u, addrspace := asp } : HTail)) := by
    by_cases hz : asp = 0
    · subst hz; exact ⟨p1, by simp [optItem]⟩
    · have hz' : (asp == 0) = false := by simpa using hz
      refine ⟨2, ?_⟩
      simp [optItem, hz', applyItem, hp1, ha]
  obtain ⟨p2, e2⟩ := s2
  obtain ⟨p3, e3⟩ := foldlM_attrs attrs p2 ({ unnamed := u, addrspace := asp } : HTail) hattr
  obtain ⟨p4, e4⟩ := foldlM_rest p3 ({ unnamed := u, addrspace := asp, attrs := [] ++ attrs } : HTail) sect part gc al hal ⟨rfl, rfl, rfl, rfl⟩
  simp only [List.nil_append] at e3 e4
  rw [List.foldlM_append, e1]
  simp only [Option.bind_eq_bind, Option.bind_some]
  rw [List.foldlM_append, e2]
  simp only [Option.bind_eq_bind, Option.bind_some]
  rw [List.foldlM_append, e3]
  simp only [Option.bind_eq_bind, Option.bind_some]
  rw [e4]
  rfl

theorem itemsOf_ok (t : HTail) (h : tailFieldsOK t) : ∀ it ∈ itemsOf t, itemOK it := by
  obtain ⟨hu, _, hattr, _⟩ := h
  intro it hit
  simp only [itemsOf, List.mem_append, List.mem_map] at hit
  have hlen : kTail.length = 2 + kFuncAttr.length := by simp [kTail, kUnnamed]; omega
  have hopt : ∀ (c : Bool) (x : HItem), it ∈ optItem c x → it = x := by
    intro c x hx; unfold optItem at hx; split at hx <;> simp at hx; exact hx
  rcases hit with hit | hit | ⟨i, hi, rfl⟩ | hit | hit | hit | hit
  · cases hu' : t.unnamed with
    | none => simp [hu', unnamedItems] at hit
    | some i =>
      simp [hu', unnamedItems] at hit; subst hit
      have := hu i (by simp [hu'])
      show i < kTail.length; omega
  · rw [hopt _ _ hit]; trivial
  · show i + 2 < kTail.length; have := hattr i hi; omega
  · rw [hopt _ _ hit]; show 0 < kStr.length; decide
  · rw [hopt _ _ hit]; show 1 < kStr.length; decide
  · rw [hopt _ _ hit]; trivial
  · rw [hopt _ _ hit]; show 2 < kStr.length; decide

theorem readTail_print (t : HTail) (h : tailFieldsOK t) : readTail (41 :: 32 :: (itemsString (itemsOf t) ++ [123])) = some t := by
  have hr := readItems_print (itemsOf t) (itemsOf_ok t h) [] ((itemsString (itemsOf t) ++ [123]).length + 1) (by
    have := itemsString_len (itemsOf t); simp only [List.length_append]; omega)
  simp only [readTail, hr, foldItems_itemsOf t h]

def headerOK (f : Func) : Prop :=
  f.name ≠ [] ∧ (∀ p ∈ zipA f.params f.pattrs, pattrOK p) ∧ (∀ i ∈ f.lead, i < kLead.length) ∧
    (∀ k ∈ kLead, TyParse.stripPrefix (k ++ [32]) (headerRest f) = none) ∧ tailFieldsOK f.tail

/-- the keywords of a function header are pairwise divergent: the reader of the keyword list finds each of them (decided on the list) -/
theorem kLead_diverge : keysDiverge kLead = true := by decide +kernel

/-- the header from the return type on, read back -/
theorem readHeaderRest_print (f : Func) (hn : f.name ≠ []) (hp : ∀ p ∈ zipA f.params f.pattrs, pattrOK p) (ht : tailFieldsOK f.tail) (lead : List Nat) :
    (match TyParse.parseTy (tyFuel (headerRest f)) (headerRest f) with
     | some (rt, 32 :: 64 :: r1) =>
       (match takeBody r1 with
        | some (tok, 40 :: r2) =>
          (match Enc.decodeIdentBody tok with
           | .name n =>
             if r2.head? == some 41 then (match readTail r2 with | some tl => some (lead, rt, n, [], false, tl) | none => none)
             else match TyParse.stripPrefix sDots r2 with
             | some r3 => (match readTail r3 with | some tl => some (lead, rt, n, [], true, tl) | none => none)
             | none =>
               (match readParams (r2.length + 1) r2 with
                | some (ps, r3) =>
                  (match TyParse.stripPrefix sCommaDots r3 with
                   | some r4 => (match readTail r4 with | some tl => some (lead, rt, n, ps, true, tl) | none => none)
                   | none => (match readTail r3 with | some tl => some (lead, rt, n, ps, false, tl) | none => none))
                | none => none)
           | .id _ => none)
        | _ => none)
     | _ => none) = some (lead, f.ret, f.name, zipA f.params f.pattrs, f.variadic, f.tail) := by
  unfold headerRest
  simp only [List.append_assoc, globalName_eq, List.cons_append, List.singleton_append, List.nil_append]
  generalize hR : 41 :: 32 :: (itemsString (itemsOf f.tail) ++ [123]) = R
  have hrt : readTail R = some f.tail := by rw [← hR]; exact readTail_print f.tail ht
  generalize hV : varString f.params.isEmpty f.variadic ++ R = VR
  have hty : TyParse.parseTy (tyFuel (tyString f.ret ++ 32 :: 64 :: (nameBody f.name ++ 40 :: (paramsString (zipA f.params f.pattrs) ++ VR))))
      (tyString f.ret ++ 32 :: 64 :: (nameBody f.name ++ 40 :: (paramsString (zipA f.params f.pattrs) ++ VR)))
      = some (f.ret, 32 :: 64 :: (nameBody f.name ++ 40 :: (paramsString (zipA f.params f.pattrs) ++ VR))) := by
    apply TyParse.parseTy_tyString_gen
    · simp [TyParse.cont]
    · simp [TyParse.stopG]
    · have := TyParse.w_le_len f.ret
      unfold tyFuel; simp only [List.length_append]; omega
  rw [hty]
  have htb := takeBody_nameBody f.name (40 :: (paramsString (zipA f.params f.pattrs) ++ VR)) hn (by simp [identEnd, inTail, inHead, isAlpha, isUpper, isLower, isDigit])
  simp only [htb, decode_nameBody f.name hn]
  cases hps : zipA f.params f.pattrs with
  | nil =>
    have hemp : f.params.isEmpty = true := by
      have := (zipA_nil_iff f.params f.pattrs).mp hps; simp [this]
    rw [hemp] at hV
    cases hv : f.variadic with
    | false =>
      rw [hv] at hV; simp only [varString, Bool.false_eq_true, if_false, List.nil_append] at hV
      subst hV; subst hR
      simp only [paramsString, List.nil_append, List.head?_cons, beq_self_eq_true, if_true, hrt]
    | true =>
      rw [hv] at hV; simp only [varString, if_true] at hV
      subst hV
      have hd : ((sDots ++ R).head? == some 41) = false := by simp [sDots]
      simp only [paramsString, List.nil_append, hd, Bool.false_eq_true, if_false, TyParse.stripPrefix_append, hrt]
  | cons p ps =>
    have hne : f.params.isEmpty = false := by
      cases hpp : f.params with
      | nil => rw [hpp] at hps; simp [zipA] at hps
      | cons _ _ => rfl
    rw [hne] at hV
    obtain ⟨c, rest, hh, h41⟩ := paramsString_head p ps
    have hd : ((paramsString (p :: ps) ++ VR).head? == some 41) = false := by rw [hh]; simp [h41]
    have hnd : TyParse.stripPrefix sDots (paramsString (p :: ps) ++ VR) = none := by
      obtain ⟨⟨tq, iq⟩, aq⟩ := p
      obtain ⟨c', r', h', hc'⟩ := TyParse.tyString_head tq
      have h46 : c' ≠ 46 := by intro e; subst e; simp [TyParse.tyStart] at hc'
      cases ps with
      | nil => simp only [paramsString, List.append_assoc, h', List.cons_append, sDots, TyParse.stripPrefix]; simp [Ne.symm h46]
      | cons q' ps' => simp only [paramsString, List.append_assoc, h', List.cons_append, sDots, TyParse.stripPrefix]; simp [Ne.symm h46]
    cases hv : f.variadic with
    | false =>
      rw [hv] at hV; simp only [varString, Bool.false_eq_true, if_false, List.nil_append] at hV
      subst hV
      have hr := readParams_print (p :: ps) (by simp) (by rw [← hps]; exact hp) R (32 :: (itemsString (itemsOf f.tail) ++ [123])) ((paramsString (p :: ps) ++ R).length + 1)
        (Or.inl hR.symm) (by have := paramsString_len (p :: ps); simp only [List.length_append] at this ⊢; omega)
      have hnc : TyParse.stripPrefix sCommaDots R = none := by rw [← hR]; simp [sCommaDots, TyParse.stripPrefix]
      simp only [hd, Bool.false_eq_true, if_false, hnd, hr, hnc, hrt]
    | true =>
      rw [hv] at hV; simp only [varString, if_true, Bool.false_eq_true, if_false] at hV
      subst hV
      have hr := readParams_print (p :: ps) (by simp) (by rw [← hps]; exact hp) (sCommaDots ++ R) (32 :: (itemsString (itemsOf f.tail) ++ [123]))
        ((paramsString (p :: ps) ++ (sCommaDots ++ R)).length + 1)
        (Or.inr (by rw [hR])) (by have := paramsString_len (p :: ps); simp only [List.length_append] at this ⊢; omega)
      simp only [hd, Bool.false_eq_true, if_false, hnd, hr, TyParse.stripPrefix_append, hrt]

theorem readHeader_print (f : Func) (h : headerOK f) : readHeader (headerString f) = some (f.lead, f.ret, f.name, zipA f.params f.pattrs, f.variadic, f.tail) := by
  obtain ⟨hn, hp, hl, hrest, ht⟩ := h
  unfold headerString readHeader
  simp only [List.append_assoc, TyParse.stripPrefix_append]
  have hf := readFlags_print kLead (headerRest f) kLead_diverge hrest f.lead ((flagsString kLead f.lead ++ headerRest f).length + 1) hl (by
    have := flagsString_len kLead f.lead; simp only [List.length_append]; omega)
  simp only [hf]
  exact readHeaderRest_print f hn hp ht f.lead

end Llir.Core3
