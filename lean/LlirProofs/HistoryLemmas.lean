import LlirModel.History
import LlirProofs.Props.C08
namespace Llir.History
open Llir Llir.Numbering

theorem shape_numberFrom : ∀ (f : List Slot) (n : Int), shape (LLVMSpec.numberFrom n f) = shape f
  | [], _ => rfl
  | s :: r, n => by
    unfold LLVMSpec.numberFrom
    split <;> simp [shape, List.map_cons] <;> exact shape_numberFrom r _

theorem shape_assign (f g : List Slot) (n : Int) (h : assignFrom n f = .ok g) : shape g = shape f := by
  rw [Props.C08.result_is_llvm_numbering f n g h]; exact shape_numberFrom f n

theorem shape_assignPartial : ∀ (f : List Slot) (n : Int), shape (assignPartial n f).1 = shape f
  | [], _ => rfl
  | s :: r, n => by
    unfold assignPartial
    split
    · simp [shape, List.map_cons]; exact shape_assignPartial r n
    · split
      · rfl
      · simp [shape, List.map_cons]; exact shape_assignPartial r (n + 1)

/-- the partial pass succeeds exactly when AssignIDs returns no error, and then computes the same result -/
theorem assignPartial_ok : ∀ (f : List Slot) (n : Int), (assignPartial n f).2 = true →
    assignFrom n f = .ok (assignPartial n f).1
  | [], _, _ => by simp [assignPartial, assignFrom]
  | s :: r, n, h => by
    unfold assignPartial at h ⊢
    unfold assignFrom
    by_cases hs : (!s.counts || s.named) = true
    · simp only [hs, if_true] at h ⊢
      rw [assignPartial_ok r n h]
    · simp only [hs, if_false, Bool.false_eq_true] at h ⊢
      by_cases he : (s.id != 0 && n != s.id) = true
      · simp [he] at h
      · simp only [he, if_false, Bool.false_eq_true] at h ⊢
        rw [assignPartial_ok r (n + 1) h]

theorem assignPartial_of_ok : ∀ (f g : List Slot) (n : Int), assignFrom n f = .ok g →
    assignPartial n f = (g, true)
  | [], g, _, h => by simp [assignFrom] at h; simp [assignPartial, h]
  | s :: r, g, n, h => by
    unfold assignFrom at h
    unfold assignPartial
    by_cases hs : (!s.counts || s.named) = true
    · simp only [hs, if_true] at h ⊢
      cases hr : assignFrom n r with
      | error => simp [hr] at h
      | ok r' => simp [hr] at h; rw [assignPartial_of_ok r r' n hr, ← h]
    · simp only [hs, if_false, Bool.false_eq_true] at h ⊢
      by_cases he : (s.id != 0 && n != s.id) = true
      · simp [he] at h
      · simp only [he, if_false, Bool.false_eq_true] at h ⊢
        cases hr : assignFrom (n + 1) r with
        | error => simp [hr] at h
        | ok r' => simp [hr] at h; rw [assignPartial_of_ok r r' (n + 1) hr, ← h]

theorem render_cons_skip (s : Slot) (l : List Slot) (h : s.counts = false) : render (s :: l) = render l := by
  simp [render, List.filter_cons, h]
theorem render_cons_named (s : Slot) (l : List Slot) (hc : s.counts = true) (hn : s.named = true) :
    render (s :: l) = none :: render l := by
  simp [render, List.filter_cons, hc, hn]
theorem render_cons_unnamed (s : Slot) (l : List Slot) (hc : s.counts = true) (hn : s.named = false) :
    render (s :: l) = some s.id :: render l := by
  simp [render, List.filter_cons, hc, hn]

theorem render_numberFrom : ∀ (f g : List Slot) (n : Int), shape f = shape g →
    render (LLVMSpec.numberFrom n f) = render (LLVMSpec.numberFrom n g)
  | [], [], _, _ => rfl
  | [], _ :: _, _, h => by simp [shape] at h
  | _ :: _, [], _, h => by simp [shape] at h
  | s :: r, t :: u, n, h => by
    simp only [shape, List.map_cons, List.cons.injEq, Prod.mk.injEq] at h
    obtain ⟨⟨hn, hc⟩, hr⟩ := h
    rw [LLVMSpec.numberFrom, LLVMSpec.numberFrom]
    cases hcs : s.counts with
    | false =>
      have hct : t.counts = false := by rw [← hc]; exact hcs
      simp only [hcs, hct, Bool.not_false, Bool.true_or, if_true]
      rw [render_cons_skip s _ hcs, render_cons_skip t _ hct]
      exact render_numberFrom r u n hr
    | true =>
      have hct : t.counts = true := by rw [← hc]; exact hcs
      cases hns : s.named with
      | true =>
        have hnt : t.named = true := by rw [← hn]; exact hns
        simp only [hcs, hct, hns, hnt, Bool.not_true, Bool.false_or, if_true]
        rw [render_cons_named s _ hcs hns, render_cons_named t _ hct hnt]
        rw [render_numberFrom r u n hr]
      | false =>
        have hnt : t.named = false := by rw [← hn]; exact hns
        simp only [hcs, hct, hns, hnt, Bool.not_true, Bool.or_self, Bool.false_eq_true, if_false]
        rw [render_cons_unnamed _ _ (by simpa using hcs) (by simpa using hns),
            render_cons_unnamed _ _ (by simpa using hct) (by simpa using hnt)]
        rw [render_numberFrom r u (n + 1) hr]

theorem shape_insertAt (l : List Slot) (pos : Nat) (s : Slot) :
    shape (insertAt l pos s) = (shape l).take pos ++ [(s.named, s.counts)] ++ (shape l).drop pos := by
  simp [shape, insertAt, List.map_take, List.map_drop]
theorem shape_removeAt (l : List Slot) (pos : Nat) :
    shape (removeAt l pos) = (shape l).take pos ++ (shape l).drop (pos + 1) := by
  simp [shape, removeAt, List.map_take, List.map_drop]

theorem shape_getElem? (l₁ l₂ : List Slot) (h : shape l₁ = shape l₂) (pos : Nat) :
    (l₁[pos]?).map (fun s => (s.named, s.counts)) = (l₂[pos]?).map (fun s => (s.named, s.counts)) := by
  have : (shape l₁)[pos]? = (shape l₂)[pos]? := by rw [h]
  simpa [shape, List.getElem?_map] using this

theorem shape_renameAt (l₁ l₂ : List Slot) (h : shape l₁ = shape l₂) (pos : Nat) (named : Bool) :
    shape (renameAt l₁ pos named) = shape (renameAt l₂ pos named) := by
  have hg := shape_getElem? l₁ l₂ h pos
  unfold renameAt
  simp only [shape, List.map_append, List.map_take, List.map_drop] at *
  rw [show List.map (fun s => (s.named, s.counts)) l₁ = List.map (fun s => (s.named, s.counts)) l₂ from h]
  congr 2
  cases h1 : l₁[pos]? <;> cases h2 : l₂[pos]? <;> simp [h1, h2] at hg ⊢
  exact hg.2

/-- editing steps act on shapes; observers leave the shape alone -/
theorem shape_step (st₁ st₂ : List Slot) (h : shape st₁ = shape st₂) (op : Op) :
    shape (step st₁ op).1 = if op.isObserver then shape st₁ else shape (step st₂ op).1 := by
  cases op with
  | insert pos named counts => simp [step, Op.isObserver, shape_insertAt, h]
  | remove pos => simp [step, Op.isObserver, shape_removeAt, h]
  | rename pos named => simp only [step, Op.isObserver]; exact shape_renameAt st₁ st₂ h pos named
  | query => simp [step, Op.isObserver]
  | print =>
    simp only [step, Op.isObserver, if_true]
    split <;> exact shape_assignPartial st₁ 0

theorem shape_run_erase : ∀ (h : List Op) (st₁ st₂ : List Slot), shape st₁ = shape st₂ →
    shape (run st₁ h) = shape (run st₂ (erase h))
  | [], _, _, hs => by simpa [run, erase] using hs
  | op :: rest, st₁, st₂, hs => by
    have hstep := shape_step st₁ st₂ hs op
    by_cases ho : op.isObserver = true
    · have : erase (op :: rest) = erase rest := by simp [erase, List.filter_cons, ho]
      rw [this]; simp only [run]
      apply shape_run_erase rest
      rw [hstep]; simp [ho, hs]
    · have : erase (op :: rest) = op :: erase rest := by simp [erase, List.filter_cons, ho]
      rw [this]; simp only [run]
      apply shape_run_erase rest
      rw [hstep]; simp [ho]

def Fresh (l : List Slot) : Prop := ∀ s ∈ l, s.counts = true → s.named = false → s.id = 0

theorem fresh_step (st : List Slot) (hf : Fresh st) (op : Op) (hno : op.isObserver = false) : Fresh (step st op).1 := by
  cases op with
  | insert pos named counts =>
    intro s hs
    simp only [step, insertAt, List.mem_append, List.mem_cons, List.mem_nil_iff, or_false] at hs
    rcases hs with (hs | hs) | hs
    · exact hf s (List.mem_of_mem_take hs)
    · subst hs; intros; rfl
    · exact hf s (List.mem_of_mem_drop hs)
  | remove pos =>
    intro s hs
    simp only [step, removeAt, List.mem_append] at hs
    rcases hs with hs | hs
    · exact hf s (List.mem_of_mem_take hs)
    · exact hf s (List.mem_of_mem_drop hs)
  | rename pos named =>
    intro s hs
    simp only [step, renameAt, List.mem_append] at hs
    rcases hs with (hs | hs) | hs
    · exact hf s (List.mem_of_mem_take hs)
    · cases hp : st[pos]? with
      | none => simp [hp] at hs
      | some t => simp [hp] at hs; subst hs; intros; rfl
    · exact hf s (List.mem_of_mem_drop hs)
  | query => simp [Op.isObserver] at hno
  | print => simp [Op.isObserver] at hno

theorem fresh_run_erase : ∀ (h : List Op) (st : List Slot), Fresh st → Fresh (run st (erase h))
  | [], st, hf => by simpa [run, erase] using hf
  | op :: rest, st, hf => by
    by_cases ho : op.isObserver = true
    · have : erase (op :: rest) = erase rest := by simp [erase, List.filter_cons, ho]
      rw [this]; exact fresh_run_erase rest st hf
    · have : erase (op :: rest) = op :: erase rest := by simp [erase, List.filter_cons, ho]
      rw [this]; simp only [run]
      exact fresh_run_erase rest _ (fresh_step st hf op (by simpa using ho))

end Llir.History
