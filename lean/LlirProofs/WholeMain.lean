import LlirModel.Whole
import LlirProofs.MetaMain
import LlirProofs.Core3Main
/-! M-Whole: the top-level splitter inverts the module printer, and the four fragment theorems compose. -/
namespace Llir.Whole
open Llir Llir.Types Llir.Core3 Llir.TyParse

/-! ### entity lines -/

theorem takeBody_escapeIdent (n r : Bytes) (hne : n ≠ []) (hr : identEnd r = true) :
    takeBody (Enc.escapeIdent n ++ r) = some (Enc.escapeIdent n, r) := by
  unfold Enc.escapeIdent
  by_cases hb : (n.all Enc.inTail && !Enc.digitLedJunk n) = true
  · simp only [hb, if_true]
    have hall : ∀ x ∈ n, Enc.inTail x = true := by
      simp only [Bool.and_eq_true] at hb; exact List.all_eq_true.mp hb.1
    obtain ⟨h1, h2⟩ := TyParse.takeWhile_append_stop Enc.inTail n r hall (identEnd_head r hr)
    cases n with
    | nil => exact absurd rfl hne
    | cons a n' =>
      have ha : a ≠ 34 := by
        intro h; have := hall a (by simp); subst h; exact absurd this (by decide)
      unfold takeBody
      simp only [List.cons_append] at h1 h2 ⊢
      split
      · rename_i r' heq; injection heq with h _; exact absurd h ha
      · simp [h1, h2]
  · simp only [hb, Bool.false_eq_true, if_false]
    exact takeBody_quoted _ r (Enc.escape_no_quote Enc.inQuotedIdent (by decide) n)

theorem sType_identEnd (x : Bytes) : identEnd (Core2.sType ++ x) = true := by
  simp [Core2.sType, identEnd, Enc.inTail, Enc.inHead, isAlpha, isUpper, isLower, isDigit]
theorem sGlobal_identEnd (x : Bytes) : identEnd (Core2.sGlobal ++ x) = true := by
  simp [Core2.sGlobal, identEnd, Enc.inTail, Enc.inHead, isAlpha, isUpper, isLower, isDigit]
theorem sConstant_identEnd (x : Bytes) : identEnd (Core2.sConstant ++ x) = true := by
  simp [Core2.sConstant, identEnd, Enc.inTail, Enc.inHead, isAlpha, isUpper, isLower, isDigit]

theorem readEntityLine_typedef (d : Core2.TypeDef) (hne : d.name ≠ []) :
    readEntityLine (typedefLine d) = some (.typedef (Enc.typeName d.name) (Core2.bodyString d.body)) := by
  have h := takeBody_escapeIdent d.name (Core2.sType ++ Core2.bodyString d.body) hne (sType_identEnd _)
  simp only [typedefLine, Enc.typeName, List.cons_append, List.append_assoc, readEntityLine, h, stripPrefix, TyParse.stripPrefix_append]

theorem sEqSp_identEnd (x : Bytes) : identEnd (sEqSp ++ x) = true := by
  simp [sEqSp, identEnd, Enc.inTail, Enc.inHead, isAlpha, isUpper, isLower, isDigit]

theorem stripPrefix_global_constant (x : Bytes) : TyParse.stripPrefix sGlobalKw (sConstantKw ++ x) = none := by
  simp [sGlobalKw, sConstantKw, TyParse.stripPrefix]

/-- the keywords of a global variable are pairwise divergent, and none of them followed by a space starts `global ` or `constant ` -/
theorem kGLead_diverge : Core3.keysDiverge kGLead = true := by decide +kernel
theorem kGLead_vs_kw : kGLead.all (fun k => Core3.diverge (k ++ [32]) sGlobalKw && Core3.diverge (k ++ [32]) sConstantKw) = true := by decide +kernel

theorem kGLead_rest (isConst : Bool) (z : Bytes) : ∀ k ∈ kGLead, TyParse.stripPrefix (k ++ [32]) ((if isConst then sConstantKw else sGlobalKw) ++ z) = none := by
  intro k hk
  have := List.all_eq_true.mp kGLead_vs_kw k hk
  simp only [Bool.and_eq_true] at this
  cases isConst
  · exact Core3.stripPrefix_diverge _ _ _ this.1
  · exact Core3.stripPrefix_diverge _ _ _ this.2

theorem readQuoted_quote (s R : Bytes) : readQuoted (Enc.quote s ++ R) = some (s, R) := by
  obtain ⟨h1, h2⟩ := Core3.quote_split' s R
  have e : Enc.quote s ++ R = 34 :: (Enc.escapeString s ++ 34 :: R) := by simp [Enc.quote]
  rw [e]
  simp only [readQuoted, h1, h2, Props.C11.unescape_escapeString]

theorem readGItems_sect (f : Nat) (x R : Bytes) : readGItems (f + 1) (sCommaSection ++ Enc.quote x ++ R) = (readGItems f R).map (GItem.sect x :: ·) := by
  have e : sCommaSection ++ Enc.quote x ++ R = 44 :: 32 :: 115 :: ([101, 99, 116, 105, 111, 110, 32] ++ (Enc.quote x ++ R)) := by simp [sCommaSection]
  have hs : TyParse.stripPrefix sCommaSection (sCommaSection ++ (Enc.quote x ++ R)) = some (Enc.quote x ++ R) := TyParse.stripPrefix_append _ _
  rw [e]
  simp only [readGItems]
  rw [← e, List.append_assoc, hs]
  simp only [readQuoted_quote]

theorem readGItems_part (f : Nat) (x R : Bytes) : readGItems (f + 1) (sCommaPartition ++ Enc.quote x ++ R) = (readGItems f R).map (GItem.part x :: ·) := by
  have e : sCommaPartition ++ Enc.quote x ++ R = 44 :: 32 :: 112 :: ([97, 114, 116, 105, 116, 105, 111, 110, 32] ++ (Enc.quote x ++ R)) := by simp [sCommaPartition]
  have hn : TyParse.stripPrefix sCommaSection (sCommaPartition ++ (Enc.quote x ++ R)) = none := by simp [sCommaSection, sCommaPartition, TyParse.stripPrefix]
  have hs : TyParse.stripPrefix sCommaPartition (sCommaPartition ++ (Enc.quote x ++ R)) = some (Enc.quote x ++ R) := TyParse.stripPrefix_append _ _
  rw [e]
  simp only [readGItems]
  rw [← e, List.append_assoc, hn, hs]
  simp only [readQuoted_quote]

theorem readGItems_align (f n : Nat) : readGItems (f + 1 + 1) (sCommaAlign ++ natDec n) = some [GItem.align n] := by
  have e : sCommaAlign ++ natDec n = 44 :: 32 :: 97 :: ([108, 105, 103, 110, 32] ++ natDec n) := by simp [sCommaAlign]
  have hn1 : TyParse.stripPrefix sCommaSection (sCommaAlign ++ natDec n) = none := by simp [sCommaSection, sCommaAlign, TyParse.stripPrefix]
  have hn2 : TyParse.stripPrefix sCommaPartition (sCommaAlign ++ natDec n) = none := by simp [sCommaPartition, sCommaAlign, TyParse.stripPrefix]
  have hs : TyParse.stripPrefix sCommaAlign (sCommaAlign ++ natDec n) = some (natDec n) := TyParse.stripPrefix_append _ _
  have hr := TyParse.readNat_natDec n [] (by simp)
  rw [e]
  simp only [readGItems]
  rw [← e, hn1, hn2, hs]
  simp only [List.append_nil] at hr
  simp only [hr, readGItems, Option.map_some]

/-- the clauses the printer writes are read back as written -/
theorem readGItems_print (t : Core2.GTail) (f : Nat) : readGItems (f + 4) (gtailString t) = some (gitemsOf t) := by
  obtain ⟨sc, pt, al⟩ := t
  unfold gtailString gitemsOf
  by_cases hs : sc.isEmpty = true <;> by_cases hp : pt.isEmpty = true <;> by_cases ha : (al == 0) = true <;>
    simp only [hs, hp, ha, if_true, Bool.false_eq_true, if_false, List.nil_append, List.append_nil]
  · simp [readGItems]
  · exact readGItems_align (f + 2) al
  · have := readGItems_part (f + 3) pt []
    simp only [List.append_nil] at this
    rw [this]; simp [readGItems]
  · have := readGItems_part (f + 3) pt (sCommaAlign ++ natDec al)
    simp only [List.append_assoc] at this ⊢
    rw [this, readGItems_align (f + 1) al]; rfl
  · have := readGItems_sect (f + 3) sc []
    simp only [List.append_nil] at this
    rw [this]; simp [readGItems]
  · have := readGItems_sect (f + 3) sc (sCommaAlign ++ natDec al)
    simp only [List.append_assoc] at this ⊢
    rw [this, readGItems_align (f + 1) al]; rfl
  · have h1 := readGItems_sect (f + 3) sc (sCommaPartition ++ Enc.quote pt)
    have h2 := readGItems_part (f + 2) pt []
    simp only [List.append_nil, List.append_assoc] at h1 h2 ⊢
    rw [h1, h2]; simp [readGItems]
  · have h1 := readGItems_sect (f + 3) sc (sCommaPartition ++ Enc.quote pt ++ (sCommaAlign ++ natDec al))
    have h2 := readGItems_part (f + 2) pt (sCommaAlign ++ natDec al)
    simp only [List.append_assoc] at h1 h2 ⊢
    rw [h1, h2, readGItems_align f al]; rfl

/-- …and translated back to the fields -/
theorem foldG_gitemsOf (t : Core2.GTail) (ha : t.align < 2 ^ 64) : (gitemsOf t).foldlM applyG {} = some t := by
  obtain ⟨sc, pt, al⟩ := t
  simp only at ha
  unfold gitemsOf
  by_cases hs : sc.isEmpty = true <;> by_cases hp : pt.isEmpty = true <;> by_cases h0 : (al == 0) = true <;>
    simp only [hs, hp, h0, if_true, Bool.false_eq_true, if_false, List.nil_append, List.append_nil, List.foldlM, applyG, ha, List.cons_append, List.singleton_append, Option.bind_eq_bind, Option.bind, pure] <;>
    simp_all

/-- the clauses behind the initializer, read back -/
theorem readGTail_print (t : Core2.GTail) (ha : t.align < 2 ^ 64) : readGTail (gtailString t) = some t := by
  unfold readGTail
  rw [readGItems_print t (gtailString t).length]
  simp only [Option.bind]
  exact foldG_gitemsOf t ha

theorem stopC_gtail (t : Core2.GTail) : Core2.stopC (gtailString t) = true := by
  unfold gtailString
  split <;> split <;> split <;> simp [Core2.stopC, sCommaSection, sCommaPartition, sCommaAlign]

/-- the initializer is split from the clauses behind it -/
theorem splitInit_print (useHex : Int → Bool) (ty : Ty) (init : Core2.Const) (t : Core2.GTail) (hw : Core2.cwf init = true) :
    splitInit (tyString ty ++ [32] ++ Core2.constIdent useHex ty init ++ gtailString t) = some (tyString ty ++ [32] ++ Core2.constIdent useHex ty init, gtailString t) := by
  have e : tyString ty ++ [32] ++ Core2.constIdent useHex ty init ++ gtailString t = tyString ty ++ 32 :: (Core2.constIdent useHex ty init ++ gtailString t) := by simp
  have hp := Core2.elem_step useHex ty init (gtailString t)
  have hc := Core2.read_const useHex init ((Core2.constIdent useHex ty init ++ gtailString t).length + 1) ty (gtailString t) (stopC_gtail t)
    (by have := Core2.csize_le_len useHex ty init; simp only [List.length_append]; omega) hw
  rw [e]
  unfold splitInit
  rw [hp]
  simp only [hc]
  congr 2
  have : (tyString ty ++ 32 :: (Core2.constIdent useHex ty init ++ gtailString t)).length - (gtailString t).length = (tyString ty ++ [32] ++ Core2.constIdent useHex ty init).length := by
    simp only [List.length_append, List.length_cons, List.length_nil]; omega
  rw [this]
  have e2 : tyString ty ++ 32 :: (Core2.constIdent useHex ty init ++ gtailString t) = (tyString ty ++ [32] ++ Core2.constIdent useHex ty init) ++ gtailString t := by simp
  rw [e2, List.take_left']
  rfl

theorem readEntityLine_global (useHex : Int → Bool) (g : Core2.Global) (hne : g.name ≠ []) (hl : ∀ i ∈ g.lead, i < kGLead.length)
    (hw : Core2.cwf g.init = true) (ha : g.tail.align < 2 ^ 64) :
    readEntityLine (globalLine useHex g) =
      some (.global (Enc.globalName g.name) g.isConst (tyString g.ty ++ [32] ++ Core2.constIdent useHex g.ty g.init) g.lead g.tail) := by
  obtain ⟨name, isConst, ty, init, lead, tl⟩ := g
  simp only at hne hl hw ha
  have hsp := splitInit_print useHex ty init tl hw
  have hgt := readGTail_print tl ha
  cases isConst
  · have h := takeBody_nameBody name (sEqSp ++ (Core3.flagsString kGLead lead ++ (sGlobalKw ++ (tyString ty ++ [32] ++ Core2.constIdent useHex ty init ++ gtailString tl)))) hne (sEqSp_identEnd _)
    have hf := Core3.readFlags_print kGLead (sGlobalKw ++ (tyString ty ++ [32] ++ Core2.constIdent useHex ty init ++ gtailString tl)) kGLead_diverge
      (kGLead_rest false _) lead
      ((Core3.flagsString kGLead lead ++ (sGlobalKw ++ (tyString ty ++ [32] ++ Core2.constIdent useHex ty init ++ gtailString tl))).length + 1) hl (by
        have := Core3.flagsString_len kGLead lead; simp only [List.length_append] at this ⊢; omega)
    simp only [globalLine, Enc.globalName_eq, List.cons_append, List.append_assoc, readEntityLine, stripPrefix, Bool.false_eq_true, if_false] at h hf hsp ⊢
    simp only [h, TyParse.stripPrefix_append, hf, hsp, hgt]
  · have h := takeBody_nameBody name (sEqSp ++ (Core3.flagsString kGLead lead ++ (sConstantKw ++ (tyString ty ++ [32] ++ Core2.constIdent useHex ty init ++ gtailString tl)))) hne (sEqSp_identEnd _)
    have hf := Core3.readFlags_print kGLead (sConstantKw ++ (tyString ty ++ [32] ++ Core2.constIdent useHex ty init ++ gtailString tl)) kGLead_diverge
      (kGLead_rest true _) lead
      ((Core3.flagsString kGLead lead ++ (sConstantKw ++ (tyString ty ++ [32] ++ Core2.constIdent useHex ty init ++ gtailString tl))).length + 1) hl (by
        have := Core3.flagsString_len kGLead lead; simp only [List.length_append] at this ⊢; omega)
    simp only [globalLine, Enc.globalName_eq, List.cons_append, List.append_assoc, readEntityLine, stripPrefix, if_true] at h hf hsp ⊢
    simp only [h, TyParse.stripPrefix_append, hf, stripPrefix_global_constant, hsp, hgt]

/-! ### composable reading -/

def Top.app (a b : Top) : Top := ⟨a.lines ++ b.lines, a.funcs ++ b.funcs, a.md ++ b.md⟩
def Top.empty : Top := ⟨[], [], []⟩

theorem Top.empty_app (t : Top) : Top.app Top.empty t = t := by cases t; rfl
theorem Top.app_assoc (a b c : Top) : Top.app (Top.app a b) c = Top.app a (Top.app b c) := by
  simp [Top.app, List.append_assoc]

/-- `ls` is read as `T` in front of anything readable -/
def Good (ls : List Bytes) (T : Top) : Prop :=
  ∀ (rest : List Bytes) (T' : Top), (∀ f, rest.length + 1 ≤ f → readTop f rest = some T') →
    ∀ f, (ls ++ rest).length + 1 ≤ f → readTop f (ls ++ rest) = some (Top.app T T')

theorem good_nil : Good [] Top.empty := by
  intro rest T' h f hf
  simpa [Top.empty_app] using h f (by simpa using hf)

theorem good_append (a b : List Bytes) (Ta Tb : Top) (ha : Good a Ta) (hb : Good b Tb) : Good (a ++ b) (Top.app Ta Tb) := by
  intro rest T' h f hf
  rw [List.append_assoc, Top.app_assoc]
  apply ha (b ++ rest) (Top.app Tb T')
  · intro f' hf'; exact hb rest T' h f' hf'
  · simpa [List.append_assoc] using hf

theorem readTop_end : ∀ f, ([] : List Bytes).length + 1 ≤ f → readTop f [] = some Top.empty := by
  intro f hf
  obtain ⟨f', rfl⟩ : ∃ f', f = f' + 1 := ⟨f - 1, by simp at hf; omega⟩
  rfl

theorem good_blank : Good [[]] Top.empty := by
  intro rest T' h f hf
  obtain ⟨f', rfl⟩ : ∃ f', f = f' + 1 := ⟨f - 1, by omega⟩
  simp only [List.singleton_append, readTop, Top.empty_app]
  exact h f' (by simp at hf; omega)

theorem good_entity (l : Bytes) (e : Core2.Line) (c : UInt8) (r : Bytes) (hl : l = c :: r) (hc : c = 37 ∨ c = 64)
    (he : readEntityLine l = some e) : Good [l] ⟨[e], [], []⟩ := by
  intro rest T' h f hf
  obtain ⟨f', rfl⟩ : ∃ f', f = f' + 1 := ⟨f - 1, by omega⟩
  have hr := h f' (by simp at hf; omega)
  subst hl
  simp only [List.singleton_append]
  unfold readTop
  rcases hc with hc | hc <;> subst hc <;> simp [he, hr, Top.app]

theorem good_md (l : Bytes) (r : Bytes) (hl : l = 33 :: r) : Good [l] ⟨[], [], [l]⟩ := by
  intro rest T' h f hf
  obtain ⟨f', rfl⟩ : ∃ f', f = f' + 1 := ⟨f - 1, by omega⟩
  have hr := h f' (by simp at hf; omega)
  subst hl
  simp only [List.singleton_append, readTop, hr, Option.map_some, Top.app, List.nil_append, List.cons_append]

theorem good_mds : ∀ (ls : List Bytes), (∀ l ∈ ls, l = [] ∨ ∃ r, l = 33 :: r) → Good ls ⟨[], [], ls.filter (fun l => !l.isEmpty)⟩
  | [], _ => good_nil
  | l :: ls, h => by
    have ih := good_mds ls (fun x hx => h x (by simp [hx]))
    rcases h l (by simp) with hl | ⟨r, hl⟩
    · subst hl
      have := good_append [[]] ls _ _ good_blank ih
      simpa [Top.app, Top.empty] using this
    · have := good_append [l] ls _ _ (good_md l r hl) ih
      subst hl
      simpa [Top.app] using this

/-! ### function definitions -/

theorem splitAtClose_append : ∀ (a : List Bytes) (rest : List Bytes), (∀ l ∈ a, (l == [125]) = false) →
    splitAtClose (a ++ [125] :: rest) = some (a ++ [[125]], rest)
  | [], rest, _ => by simp [splitAtClose]
  | l :: a, rest, h => by
    have hl := h l (by simp)
    have ih := splitAtClose_append a rest (fun x hx => h x (by simp [hx]))
    simp [splitAtClose, hl, ih]

theorem extLines_head (useHex : Int → Bool) (x : Ext) : ∀ l ∈ extLines useHex x, (l.head? == some 9) = true := by
  intro l hl
  cases x with
  | none => simp [extLines] at hl
  | cases cs =>
    simp only [extLines, List.mem_append, List.mem_map, List.mem_singleton] at hl
    rcases hl with ⟨c, _, hl⟩ | hl
    · subst hl; simp [caseLine]
    · subst hl; decide
  | dests n u =>
    simp only [extLines, List.mem_singleton] at hl
    subst hl; simp [destsLine, sToLabel]
  | clauses cl cs =>
    simp only [extLines, List.mem_append, List.mem_map] at hl
    rcases hl with hl | ⟨c, _, hl⟩
    · cases cl
      · simp at hl
      · simp at hl; subst hl; decide
    · subst hl
      obtain ⟨fl, t, o⟩ := c
      cases fl <;> simp [clauseLine, sCatch, sFilter]

theorem instLines_no_close (useHex : Int → Bool) (i : Inst) : ∀ l ∈ instLines useHex i, (l == [125]) = false := by
  intro l hl
  have hh : (l.head? == some 9) = true := by
    unfold instLines at hl
    split at hl
    · simp only [List.mem_singleton] at hl; subst hl; simp
    · rename_i e es hE
      simp only [List.mem_cons] at hl
      rcases hl with hl | hl
      · subst hl; simp
      · have hl' : l ∈ appendLast (e :: es) (mdString i.md) := by simpa using hl
        exact appendLast_prefix (fun l => l.head? == some 9) (fun l s h => by cases l <;> simp_all) (e :: es) _
          (fun y hy => extLines_head useHex i.ext y (by rw [hE]; exact hy)) l hl'
  cases l with
  | nil => simp at hh
  | cons c r =>
    simp only [List.head?_cons, beq_iff_eq, Option.some.injEq] at hh
    subst hh; simp

theorem blockLines_no_close (useHex : Int → Bool) (b : Block) (hb : identOK b.label) : ∀ l ∈ blockLines useHex b, (l == [125]) = false := by
  intro l hl
  simp only [blockLines, List.mem_cons, List.mem_append, List.mem_flatMap] at hl
  rcases hl with (hl | ⟨i, _, hl⟩) | hl
  · subst hl; exact labelString_ne_close b.label hb
  · exact instLines_no_close useHex i l hl
  · exact instLines_no_close useHex b.term l hl

theorem blocksLines_no_close (useHex : Int → Bool) : ∀ (bs : List Block), (∀ b ∈ bs, identOK b.label) →
    ∀ l ∈ blocksLines useHex bs, (l == [125]) = false
  | [], _, l, hl => by simp [blocksLines] at hl
  | [b], h, l, hl => blockLines_no_close useHex b (h b (by simp)) l (by simpa [blocksLines] using hl)
  | b :: c :: bs, h, l, hl => by
    simp only [blocksLines, List.mem_append, List.mem_singleton] at hl
    rcases hl with (hl | hl) | hl
    · exact blockLines_no_close useHex b (h b (by simp)) l hl
    · subst hl; rfl
    · exact blocksLines_no_close useHex (c :: bs) (fun x hx => h x (by simp [hx])) l hl

theorem headerString_head (f : Func) : ∃ r, headerString f = 100 :: r ∧ r ≠ [] := by
  refine ⟨_, rfl, ?_⟩
  simp [Core3.sDefine]

theorem printFunc_ne_nil (useHex : Int → Bool) (f : Func) : printFunc useHex f ≠ [] := by
  unfold printFunc; split <;> simp

theorem headerString_not_declare (f : Func) : (stripPrefix Core3.sDeclare (headerString f)).isSome = false := by
  have e : headerString f = Core3.sDefine ++ (flagsString kLead f.lead ++ headerRest f) := by
    simp [headerString]
  rw [e, stripPrefix, Core3.stripPrefix_diverge Core3.sDeclare Core3.sDefine _ (by decide)]
  rfl

theorem good_func (useHex : Int → Bool) (fn : Func) (h : wfSyn fn = true) (hmd : Core3.mdWF useHex fn = true) : Good (printFunc useHex fn) ⟨[], [fn], []⟩ := by
  intro rest T' hT f hf
  obtain ⟨f', rfl⟩ : ∃ f', f = f' + 1 := ⟨f - 1, by omega⟩
  have hrf := readFunc_print useHex fn h hmd
  have h' := h
  simp only [wfSyn, wfSyn0, Bool.and_eq_true, List.all_eq_true] at h'
  have hlab : ∀ b ∈ fn.blocks, identOK b.label := fun b hb => (blockOKB_sound b (h'.1.1.1.1.2 b hb)).1
  by_cases hbl : fn.blocks = []
  · -- a declaration: one line
    have hp : printFunc useHex fn = [declString fn] := by simp [printFunc, hbl]
    rw [hp] at hrf hf ⊢
    have hrest := hT f' (by simp only [List.length_append, List.length_cons, List.length_nil] at hf; omega)
    obtain ⟨tl, hd⟩ : ∃ tl, declString fn = 100 :: tl := ⟨_, by simp [declString, Core3.sDeclare]; rfl⟩
    have hs : (stripPrefix Core3.sDeclare (declString fn)).isSome = true := by
      have e : declString fn = Core3.sDeclare ++ (flagsString kLead fn.lead ++ tyString fn.ret ++ [32] ++ Enc.globalName fn.name ++ [40] ++ paramsString (zipA fn.params fn.pattrs) ++ varString fn.params.isEmpty fn.variadic ++ [41] ++ tailDecl (itemsOf fn.tail)) := by
        simp [declString]
      rw [e, stripPrefix, TyParse.stripPrefix_append]; rfl
    simp only [List.singleton_append]
    rw [hd] at hs hrf ⊢
    unfold readTop
    simp only [hs, if_true, hrf, hrest, Top.app, List.nil_append, List.cons_append]
  · have hemp : fn.blocks.isEmpty = false := by simpa using hbl
    have hp : printFunc useHex fn = headerString fn :: blocksLines useHex fn.blocks ++ [[125]] := by simp [printFunc, hemp]
    obtain ⟨hr, hhd, hne⟩ := headerString_head fn
    have hsplit : splitAtClose (printFunc useHex fn ++ rest) = some (printFunc useHex fn, rest) := by
      have : printFunc useHex fn ++ rest = (headerString fn :: blocksLines useHex fn.blocks) ++ [125] :: rest := by
        simp [hp]
      rw [this]
      have hnc : ∀ l ∈ headerString fn :: blocksLines useHex fn.blocks, (l == [125]) = false := by
        intro l hl
        simp only [List.mem_cons] at hl
        rcases hl with hl | hl
        · subst hl; rw [hhd]
          cases hr with
          | nil => exact absurd rfl hne
          | cons a t => simp
        · exact blocksLines_no_close useHex fn.blocks hlab l hl
      rw [splitAtClose_append _ rest hnc]
      simp [hp]
    have hrest := hT f' (by
      have : 1 ≤ (printFunc useHex fn).length := by simp [hp]
      simp only [List.length_append] at hf; omega)
    have hnd := headerString_not_declare fn
    have e : printFunc useHex fn ++ rest = (100 :: hr) :: (blocksLines useHex fn.blocks ++ [[125]] ++ rest) := by
      simp [hp, hhd]
    rw [hhd] at hnd
    rw [e] at hsplit ⊢
    unfold readTop
    simp only [hnd, Bool.false_eq_true, if_false, hsplit]
    simp only [hrf, hrest, Top.app, List.nil_append, List.cons_append]

theorem good_funcs (useHex : Int → Bool) : ∀ (fs : List Func), (∀ f ∈ fs, wfSyn f = true ∧ Core3.mdWF useHex f = true) → Good (funcsLines useHex fs) ⟨[], fs, []⟩
  | [], _ => good_nil
  | [f], h => good_func useHex f (h f (by simp)).1 (h f (by simp)).2
  | f :: g :: r, h => by
    have h1 := good_func useHex f (h f (by simp)).1 (h f (by simp)).2
    have h2 := good_funcs useHex (g :: r) (fun x hx => h x (by simp [hx]))
    have := good_append _ _ _ _ h1 (good_append _ _ _ _ good_blank h2)
    simpa [funcsLines, Top.app, Top.empty] using this

/-! ### groups -/

def foldTops : List (List Bytes × Top) → Top
  | [] => Top.empty
  | p :: ps => Top.app p.2 (foldTops ps)

theorem Top.app_empty (t : Top) : Top.app t Top.empty = t := by cases t; simp [Top.app, Top.empty]

theorem joinGroups_nil : ∀ (gs : List (List Bytes × Top)), (∀ p ∈ gs, p.1 = [] → p.2 = Top.empty) →
    joinGroups (gs.map (·.1)) = [] → foldTops gs = Top.empty
  | [], _, _ => rfl
  | p :: ps, h, hj => by
    simp only [List.map_cons, joinGroups] at hj
    by_cases he : p.1.isEmpty = true
    · simp only [he, if_true] at hj
      have hp : p.1 = [] := by simpa using he
      simp [foldTops, h p (by simp) hp, Top.empty_app, joinGroups_nil ps (fun q hq => h q (by simp [hq])) hj]
    · simp only [he, Bool.false_eq_true, if_false] at hj
      split at hj
      · exact absurd (by simpa using hj : p.1 = []) (by simpa using he)
      · simp at hj

theorem good_groups : ∀ (gs : List (List Bytes × Top)), (∀ p ∈ gs, Good p.1 p.2 ∧ (p.1 = [] → p.2 = Top.empty)) →
    Good (joinGroups (gs.map (·.1))) (foldTops gs)
  | [], _ => good_nil
  | p :: ps, h => by
    have ih := good_groups ps (fun q hq => h q (by simp [hq]))
    have hp := h p (by simp)
    simp only [List.map_cons, joinGroups]
    by_cases he : p.1.isEmpty = true
    · simp only [he, if_true]
      have : p.1 = [] := by simpa using he
      simpa [foldTops, hp.2 this, Top.empty_app] using ih
    · simp only [he, Bool.false_eq_true, if_false]
      cases hj : joinGroups (ps.map (·.1)) with
      | nil =>
        have := joinGroups_nil ps (fun q hq => (h q (by simp [hq])).2) hj
        simpa [foldTops, this, Top.app_empty] using hp.1
      | cons a r =>
        rw [hj] at ih
        have := good_append _ _ _ _ hp.1 (good_append _ _ _ _ good_blank ih)
        simpa [foldTops, Top.empty_app, List.append_assoc] using this

/-! ### the groups of a module -/

def typedefTok (d : Core2.TypeDef) : Core2.Line := .typedef (Enc.typeName d.name) (Core2.bodyString d.body)
def globalTok (useHex : Int → Bool) (g : Core2.Global) : Core2.Line :=
  .global (Enc.globalName g.name) g.isConst (tyString g.ty ++ [32] ++ Core2.constIdent useHex g.ty g.init) g.lead g.tail

theorem good_typedefs : ∀ (ds : List Core2.TypeDef), (∀ d ∈ ds, d.name ≠ []) → Good (ds.map typedefLine) ⟨ds.map typedefTok, [], []⟩
  | [], _ => good_nil
  | d :: ds, h => by
    have ih := good_typedefs ds (fun x hx => h x (by simp [hx]))
    have h1 : Good [typedefLine d] ⟨[typedefTok d], [], []⟩ :=
      good_entity _ _ 37 (Enc.escapeIdent d.name ++ Core2.sType ++ Core2.bodyString d.body)
        (by simp [typedefLine, Enc.typeName]) (Or.inl rfl) (readEntityLine_typedef d (h d (by simp)))
    have := good_append _ _ _ _ h1 ih
    simpa [Top.app] using this

theorem good_globals (useHex : Int → Bool) : ∀ (gs : List Core2.Global), (∀ g ∈ gs, g.name ≠ []) → (∀ g ∈ gs, ∀ i ∈ g.lead, i < kGLead.length) →
    (∀ g ∈ gs, Core2.cwf g.init = true ∧ g.tail.align < 2 ^ 64) →
    Good (gs.map (globalLine useHex)) ⟨gs.map (globalTok useHex), [], []⟩
  | [], _, _, _ => good_nil
  | g :: gs, h, hl, hw => by
    have ih := good_globals useHex gs (fun x hx => h x (by simp [hx])) (fun x hx => hl x (by simp [hx])) (fun x hx => hw x (by simp [hx]))
    have h1 : Good [globalLine useHex g] ⟨[globalTok useHex g], [], []⟩ :=
      good_entity _ _ 64 _ (by rw [globalLine, Enc.globalName_eq]; rfl) (Or.inr rfl) (readEntityLine_global useHex g (h g (by simp)) (hl g (by simp)) (hw g (by simp)).1 (hw g (by simp)).2)
    have := good_append _ _ _ _ h1 ih
    simpa [Top.app] using this

theorem namedString_head (n : Meta.Named) (hne : n.name ≠ []) : ∃ r, Meta.namedString n = 33 :: r := by
  obtain ⟨body, hb, _⟩ := Core3.mdName_shape n.name hne
  exact ⟨_, by rw [Meta.namedString, hb]; rfl⟩

theorem defString_head (useHex : Int → Bool) (d : Meta.Def) : ∃ r, Meta.defString useHex d = 33 :: r :=
  ⟨_, by rw [Meta.defString, Meta.mdID]; rfl⟩

theorem printSec_lines (useHex : Int → Bool) (s : Meta.Sec) (hn : ∀ n ∈ s.named, n.name ≠ []) :
    (∀ l ∈ Meta.printSec useHex s, l = [] ∨ ∃ r, l = 33 :: r) ∧
    (Meta.printSec useHex s).filter (fun l => !l.isEmpty) = s.named.map Meta.namedString ++ s.defs.map (Meta.defString useHex) := by
  have f1 : (s.named.map Meta.namedString).filter (fun l => !l.isEmpty) = s.named.map Meta.namedString := by
    apply List.filter_eq_self.mpr
    intro l hl
    simp only [List.mem_map] at hl
    obtain ⟨n, hn', rfl⟩ := hl
    obtain ⟨r, hr⟩ := namedString_head n (hn n hn')
    simp [hr]
  have f2 : (s.defs.map (Meta.defString useHex)).filter (fun l => !l.isEmpty) = s.defs.map (Meta.defString useHex) := by
    apply List.filter_eq_self.mpr
    intro l hl
    simp only [List.mem_map] at hl
    obtain ⟨d, _, rfl⟩ := hl
    obtain ⟨r, hr⟩ := defString_head useHex d
    simp [hr]
  constructor
  · intro l hl
    simp only [Meta.printSec, List.mem_append, List.mem_map] at hl
    rcases hl with (⟨n, hn', rfl⟩ | hl) | ⟨d, _, rfl⟩
    · exact Or.inr (namedString_head n (hn n hn'))
    · split at hl
      · simp at hl
      · simp at hl; exact Or.inl hl
    · exact Or.inr (defString_head useHex d)
  · simp only [Meta.printSec, List.filter_append, f1, f2]
    split <;> simp

theorem mapM'_translate (ge : Core3.GEnv) : ∀ (fs : List Func), (∀ f ∈ fs, Core3.wfIn ge f = true) → mapM' (Core3.translateIn ge) fs = some fs
  | [], _ => rfl
  | f :: fs, h => by
    have hf := h f (by simp)
    simp only [Core3.wfIn, Bool.and_eq_true] at hf
    simp [mapM', translateIn_wf ge f hf.1 hf.2, mapM'_translate ge fs (fun x hx => h x (by simp [hx]))]

/-- the metadata lines without the separating blank line translate to the section as well -/
theorem meta_lines (useHex : Int → Bool) (s : Meta.Sec) (h : Meta.wf s = true) :
    ∃ raws, Meta.readLines (s.named.map Meta.namedString ++ s.defs.map (Meta.defString useHex)) = some raws ∧ Meta.translate raws = .ok s := by
  have h' := h
  simp only [Meta.wf, Bool.and_eq_true, List.all_eq_true, decide_eq_true_eq, Bool.not_eq_true', List.isEmpty_eq_false_iff] at h'
  obtain ⟨⟨⟨⟨⟨hdefs, hnamed⟩, hsi⟩, hsn⟩, hdn⟩, hrefs⟩ := h'
  have h1 := Meta.readLines_named s.named (fun n hn => ⟨(hnamed n hn).1, (hnamed n hn).2⟩)
  have h2 := Meta.readLines_defs useHex s.defs (fun d hd => hdefs d hd)
  refine ⟨_, Meta.readLines_append _ _ _ _ h1 h2, ?_⟩
  have hd : Meta.rawDefs (s.named.map .named ++ s.defs.map .def_) = s.defs := by
    rw [Meta.rawDefs_append, Meta.rawDefs_named, Meta.rawDefs_defs]; simp
  have hn : Meta.rawNamed (s.named.map .named ++ s.defs.map .def_) = s.named := by
    rw [Meta.rawNamed_append, Meta.rawNamed_named, Meta.rawNamed_defs]; simp
  have hrefs' : ((s.defs.flatMap (fun d => Meta.fieldsRefs d.fields) ++ s.named.flatMap (·.ids)).all (fun n => (s.defs.map (·.id)).contains n)) = true := by
    simp only [Meta.wf, Bool.and_eq_true] at h; exact h.2
  unfold Meta.translate
  simp only [hd, hn, Meta.hasDupN_sorted s.defs hsi, Bool.false_eq_true, if_false, hrefs', Bool.not_true,
    Meta.mergeNamed_distinct s.named hdn, Meta.sortNamed_sorted s.named hsn, Meta.sortDefs_sorted s.defs hsi]

/-! ### redefinition of opaque types: nothing to merge when the names are pairwise different -/

theorem mergeTypedefs_nodup : ∀ (rest kept : List Core2.Line), ((kept ++ rest).filterMap lineName).Nodup →
    mergeTypedefs kept rest = some (kept ++ rest)
  | [], kept, _ => by simp [mergeTypedefs]
  | l :: rest, kept, h => by
    have hstep : mergeTypedefs (kept ++ [l]) rest = some (kept ++ l :: rest) := by
      have := mergeTypedefs_nodup rest (kept ++ [l]) (by simpa [List.append_assoc] using h)
      simpa [List.append_assoc] using this
    unfold mergeTypedefs
    cases hn : lineName l with
    | none => simpa using hstep
    | some nm =>
      have hnone : kept.find? (fun k => lineName k == some nm) = none := by
        apply List.find?_eq_none.mpr
        intro k hk hc
        have hkn : lineName k = some nm := by simpa using hc
        rw [List.filterMap_append, List.filterMap_cons, hn, List.nodup_append] at h
        have h1 : nm ∈ kept.filterMap lineName := List.mem_filterMap.mpr ⟨k, hk, hkn⟩
        exact h.2.2 nm h1 nm (by simp) rfl
      simp only [hnone]
      exact hstep

theorem typedef_names : ∀ (ds : List Core2.TypeDef), (∀ d ∈ ds, Core.TypeNameOK d.name) →
    (ds.map (fun d => Core2.Line.typedef (Enc.typeName d.name) (Core2.bodyString d.body))).filterMap lineName = ds.map (·.name)
  | [], _ => rfl
  | d :: ds, h => by
    simp only [List.map_cons, List.filterMap_cons, lineName, Core2.decodeTypedefName_typeName d.name (h d (by simp))]
    rw [typedef_names ds (fun x hx => h x (by simp [hx]))]

theorem printTok_names (useHex : Int → Bool) (m : Core2.Mod) (h : ∀ d ∈ m.typedefs, Core.TypeNameOK d.name) :
    (Core2.printTok useHex m).filterMap lineName = m.typedefs.map (·.name) := by
  unfold Core2.printTok
  rw [List.filterMap_append]
  have h2 : (m.globals.map (fun g => Core2.Line.global (Enc.globalName g.name) g.isConst
      (tyString g.ty ++ [32] ++ Core2.constIdent useHex g.ty g.init) g.lead g.tail)).filterMap lineName = [] := by
    apply List.filterMap_eq_nil_iff.mpr
    intro l hl; simp only [List.mem_map] at hl; obtain ⟨g, _, rfl⟩ := hl; rfl
  rw [h2, List.append_nil, typedef_names m.typedefs h]

/-- **a whole module round-trips**: type definitions, global variables, function definitions and the metadata section printed as one text are
    split, read and translated back to the module itself -/
theorem parse_print (useHex : Int → Bool) (m : Module)
    (h2 : Core2.WF ⟨m.typedefs, m.globals⟩) (hs : Core2.sortDefs m.typedefs = m.typedefs)
    (h3 : ∀ f ∈ m.funcs, Core3.wfIn (genvOf m.globals m.funcs) f = true) (h3m : ∀ f ∈ m.funcs, Core3.mdWF useHex f = true)
    (hm : Meta.wf m.md = true) (hx : crossOK m = true) (hgl : gleadsOK m.globals = true) (hgt : gtailsOK m.globals = true) :
    parse (printModule useHex m) = some m := by
  have hgt' : ∀ g ∈ m.globals, Core2.cwf g.init = true ∧ g.tail.align < 2 ^ 64 := by
    intro g hg
    have := List.all_eq_true.mp hgt g hg
    exact ⟨(h2.typed g hg).2, by simpa using this⟩
  have hgl' : ∀ g ∈ m.globals, ∀ i ∈ g.lead, i < kGLead.length := by
    intro g hg
    have := List.all_eq_true.mp hgl g hg
    simp only [gleadOK, Bool.and_eq_true, List.all_eq_true, decide_eq_true_eq] at this
    exact this.1
  have hmn : ∀ n ∈ m.md.named, n.name ≠ [] := by
    have h' := hm
    simp only [Meta.wf, Bool.and_eq_true, List.all_eq_true, Bool.not_eq_true', List.isEmpty_eq_false_iff] at h'
    intro n hn; exact (h'.1.1.1.1.2 n hn).1
  obtain ⟨hml, hmf⟩ := printSec_lines useHex m.md hmn
  have hsyn : ∀ f ∈ m.funcs, wfSyn f = true := fun f hf => by
    have := h3 f hf; simp only [Core3.wfIn, Bool.and_eq_true] at this; exact this.1
  let groups : List (List Bytes × Top) := [
    (m.typedefs.map typedefLine, ⟨m.typedefs.map typedefTok, [], []⟩),
    (m.globals.map (globalLine useHex), ⟨m.globals.map (globalTok useHex), [], []⟩),
    (funcsLines useHex m.funcs, ⟨[], m.funcs, []⟩),
    (Meta.printSec useHex m.md, ⟨[], [], (Meta.printSec useHex m.md).filter (fun l => !l.isEmpty)⟩)]
  have hg : ∀ p ∈ groups, Good p.1 p.2 ∧ (p.1 = [] → p.2 = Top.empty) := by
    intro p hp
    simp only [groups, List.mem_cons, List.mem_nil_iff, or_false] at hp
    rcases hp with rfl | rfl | rfl | rfl
    · exact ⟨good_typedefs _ (fun d hd => (h2.tnames d hd).1), fun e => by
        have : m.typedefs = [] := by simpa using e
        simp [this, Top.empty]⟩
    · exact ⟨good_globals useHex _ (fun g hg => h2.gnames g hg) hgl' hgt', fun e => by
        have : m.globals = [] := by simpa using e
        simp [this, Top.empty]⟩
    · exact ⟨good_funcs useHex _ (fun f hf => ⟨hsyn f hf, h3m f hf⟩), fun e => by
        cases hf : m.funcs with
        | nil => simp [Top.empty]
        | cons f r =>
          rw [hf] at e
          cases r with
          | nil => exact absurd e (by simp only [funcsLines]; exact printFunc_ne_nil useHex f)
          | cons g r' => simp [funcsLines] at e⟩
    · exact ⟨good_mds _ hml, fun e => by
        have e' : Meta.printSec useHex m.md = [] := e
        simp [e', Top.empty]⟩
  have hgood := good_groups groups hg [] Top.empty readTop_end ((printModule useHex m).length + 1) (by
    simp [printModule, groups])
  have hT : foldTops groups = ⟨Core2.printTok useHex ⟨m.typedefs, m.globals⟩, m.funcs,
      m.md.named.map Meta.namedString ++ m.md.defs.map (Meta.defString useHex)⟩ := by
    have e1 : m.typedefs.map typedefTok = m.typedefs.map (fun d => Core2.Line.typedef (Enc.typeName d.name) (Core2.bodyString d.body)) := rfl
    have e2 : m.globals.map (globalTok useHex) = m.globals.map (fun g => Core2.Line.global (Enc.globalName g.name) g.isConst
        (tyString g.ty ++ [32] ++ Core2.constIdent useHex g.ty g.init) g.lead g.tail) := rfl
    simp only [foldTops, groups, Top.app, Top.empty, Core2.printTok, hmf, e1, e2, List.append_nil, List.nil_append]
  have hread : readTop ((printModule useHex m).length + 1) (printModule useHex m) = some (foldTops groups) := by
    have := hgood
    simpa [printModule, groups, Top.app_empty] using this
  obtain ⟨raws, hrl, htr⟩ := meta_lines useHex m.md hm
  have hc2 := Core2.core2_roundtrip useHex ⟨m.typedefs, m.globals⟩ h2
  have hmt : mergeTypedefs [] (Core2.printTok useHex ⟨m.typedefs, m.globals⟩) = some (Core2.printTok useHex ⟨m.typedefs, m.globals⟩) := by
    have := mergeTypedefs_nodup (Core2.printTok useHex ⟨m.typedefs, m.globals⟩) [] (by
      rw [List.nil_append, printTok_names useHex _ h2.tnames]
      exact (Core2.hasDup_false_iff_nodup _).mp h2.nodupT)
    simpa using this
  simp only [crossOK, Bool.and_eq_true, Bool.not_eq_true'] at hx
  unfold parse
  rw [hread, hT]
  simp only [Option.bind, translate, hmt, hc2, Core2.canon, hs, mapM'_translate _ m.funcs h3, hrl, htr, Core2.canon, hs, hx.1.1, Bool.false_eq_true, if_false, hx.1.2, hx.2, Bool.and_self, if_true, hgl, Bool.not_true]

end Llir.Whole
