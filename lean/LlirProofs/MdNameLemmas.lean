import LlirModel.Core3
import LlirProofs.EncTokens
import LlirProofs.TyParseLemmas
/-! The printed form of a metadata name (shared by M-Meta and the attachments of M-Core-3). -/
namespace Llir.Core3
open Llir Llir.Types Llir.Core2 Llir.TyParse

/-! ### metadata names -/

theorem hex_mdNameChar : ∀ b : UInt8, isMdNameChar (Enc.hexDigit (b >>> 4)) = true ∧ isMdNameChar (Enc.hexDigit (b &&& 15)) = true := by
  apply forall_byte; decide +kernel

theorem inTail_mdNameChar (c : UInt8) (h : Enc.inTail c = true) : isMdNameChar c = true := by
  simp only [Enc.inTail, Enc.inHead, Bool.or_eq_true] at h
  simp only [isMdNameChar, Enc.isLetter, Bool.or_eq_true]
  rcases h with h | h
  · left; left; simpa using h
  · left; right; exact h

theorem escape_mdNameChars : ∀ (s : Bytes), ∀ c ∈ Enc.escape Enc.inTail s, isMdNameChar c = true
  | [] => by simp [Enc.escape]
  | b :: bs => by
    intro c hc
    unfold Enc.escape at hc
    by_cases hb : Enc.inTail b = true
    · simp only [hb, if_true, List.mem_cons] at hc
      rcases hc with hc | hc
      · subst hc; exact inTail_mdNameChar _ hb
      · exact escape_mdNameChars bs c hc
    · simp only [hb, Bool.false_eq_true, if_false, List.mem_cons] at hc
      rcases hc with hc | hc | hc | hc
      · subst hc; decide
      · subst hc; exact (hex_mdNameChar b).1
      · subst hc; exact (hex_mdNameChar b).2
      · exact escape_mdNameChars bs c hc

theorem digit_hex : ∀ b : UInt8, isDigit b = true → Enc.hexDigit (b >>> 4) = 51 ∧ Enc.hexDigit (b &&& 15) = b := by
  apply forall_byte; decide +kernel

/-- the printed name: `!` + a body of name characters that does not start with a digit and decodes to the name -/
theorem mdName_shape (name : Bytes) (hne : name ≠ []) :
    ∃ body, mdName name = 33 :: body ∧ body ≠ [] ∧ (body.head?.map isDigit).getD false = false ∧
      (∀ c ∈ body, isMdNameChar c = true) ∧ Enc.unescape body = name := by
  cases name with
  | nil => exact absurd rfl hne
  | cons b rest =>
    by_cases hd : isDigit b = true
    · refine ⟨92 :: 51 :: b :: Enc.escape Enc.inTail rest, by simp [mdName, Enc.metadataName, hd], by simp, by simp [isDigit], ?_, ?_⟩
      · intro c hc
        simp only [List.mem_cons] at hc
        rcases hc with hc | hc | hc | hc
        · subst hc; decide
        · subst hc; decide
        · subst hc; simp [isMdNameChar, hd]
        · exact escape_mdNameChars rest c hc
      · have := Enc.unescape_esc b (Enc.escape Enc.inTail rest)
        rw [(digit_hex b hd).1, (digit_hex b hd).2] at this
        rw [this, Enc.unescape_escape Enc.inTail (by decide) rest]
    · have hd' : isDigit b = false := by simpa using hd
      refine ⟨Enc.escape Enc.inTail (b :: rest), by simp [mdName, Enc.metadataName, hd'], ?_, ?_, escape_mdNameChars (b :: rest),
        Enc.unescape_escape Enc.inTail (by decide) (b :: rest)⟩
      · unfold Enc.escape; split <;> simp
      · unfold Enc.escape
        split
        · simp [hd']
        · simp [isDigit]


end Llir.Core3
