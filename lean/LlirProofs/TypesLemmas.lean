import LlirModel.Types
import LlirProofs.DigitLemmas
namespace Llir.Types
open Llir

/-! ## last byte of a printed type: `*` exactly for pointers -/

theorem getLast?_append_singleton (l : Bytes) (b : UInt8) : (l ++ [b]).getLast? = some b := by simp

theorem natDec_digits (n : Nat) : ∀ c ∈ natDec n, isDigit c = true := by
  intro c hc
  unfold natDec at hc
  simp only [List.mem_map, List.mem_reverse] at hc
  obtain ⟨d, hd, rfl⟩ := hc
  have := Digits.digitsRev_lt 10 (by omega) n d hd
  have : ∀ d, d < 10 → isDigit (digitChar d) = true := by decide
  exact this d (by omega)

theorem natDec_ne_nil (n : Nat) : natDec n ≠ [] := by
  unfold natDec
  intro h
  simp at h
  exact Digits.digitsRev_ne_nil 10 n h

theorem getLast?_natDec (n : Nat) : ∃ c, (natDec n).getLast? = some c ∧ isDigit c = true := by
  cases h : (natDec n).getLast? with
  | none => exact absurd (List.getLast?_eq_none_iff.mp h) (natDec_ne_nil n)
  | some c => exact ⟨c, rfl, natDec_digits n c (List.mem_of_getLast? h)⟩

theorem getLast?_cons_of_ne_nil (a : UInt8) (l : Bytes) (h : l ≠ []) : (a :: l).getLast? = l.getLast? := by
  cases l with
  | nil => exact absurd rfl h
  | cons b r => simp [List.getLast?_cons_cons]

theorem typeName_last (n : Bytes) : (Enc.typeName n).getLast? ≠ some 42 := by
  unfold Enc.typeName Enc.escapeIdent
  by_cases h : (n.all Enc.inTail && !Enc.digitLedJunk n) = true
  · simp only [h, if_true]
    have h' : n.all Enc.inTail = true := by
      simp only [Bool.and_eq_true] at h; exact h.1
    cases hn : n with
    | nil => simp
    | cons a r =>
      rw [getLast?_cons_of_ne_nil _ _ (by simp)]
      intro hl
      have hm := List.mem_of_getLast? hl
      rw [hn] at h'
      have := List.all_eq_true.mp h' 42 hm
      exact absurd this (by decide)
  · simp only [h, if_false, Bool.false_eq_true]
    rw [getLast?_cons_of_ne_nil _ _ (by simp)]
    rw [← List.cons_append, getLast?_append_singleton]
    decide

theorem floatKindName_last (k : Nat) : (floatKindName k).getLast? ≠ some 42 := by
  unfold floatKindName
  split <;> first | decide | (rw [getLast?_append_singleton]; decide)

def isPtr : Ty → Bool
  | .ptr _ _ => true
  | _ => false

theorem tyString_ptr_last (e : Ty) (as : Nat) : (tyString (.ptr e as)).getLast? = some 42 := by
  unfold tyString; rw [getLast?_append_singleton]

theorem tyString_nonptr_last (t : Ty) (h : isPtr t = false) : (tyString t).getLast? ≠ some 42 := by
  cases t with
  | void => unfold tyString; decide
  | mmx => unfold tyString; decide
  | label => unfold tyString; decide
  | token => unfold tyString; decide
  | metadata => unfold tyString; decide
  | int w =>
    unfold tyString
    rw [getLast?_cons_of_ne_nil _ _ (natDec_ne_nil w)]
    obtain ⟨c, hc, hd⟩ := getLast?_natDec w
    rw [hc]; intro h'; injection h' with h'; subst h'; exact absurd hd (by decide)
  | float k => unfold tyString; exact floatKindName_last k
  | ptr e as => simp [isPtr] at h
  | vec s n e => unfold tyString; rw [getLast?_append_singleton]; decide
  | arr n e => unfold tyString; rw [getLast?_append_singleton]; decide
  | struct p fs =>
    unfold tyString
    cases fs with
    | nil => cases p <;> decide
    | cons a r =>
      cases p
      · simp only [Bool.false_eq_true, if_false, List.append_nil, List.nil_append]
        rw [show ([123, 32] ++ tyListString (.cons a r) ++ [32, 125] : Bytes) = ([123, 32] ++ tyListString (.cons a r) ++ [32]) ++ [125] by simp]
        rw [getLast?_append_singleton]; decide
      · simp only [if_true]
        rw [getLast?_append_singleton]; decide
  | named n => unfold tyString; exact typeName_last n
  | func r ps v => unfold tyString; rw [getLast?_append_singleton]; decide

theorem tyString_ne_of_ptr_nonptr (e : Ty) (as : Nat) (u : Ty) (h : isPtr u = false) :
    tyString (.ptr e as) ≠ tyString u := by
  intro heq
  have := tyString_ptr_last e as
  rw [heq] at this
  exact tyString_nonptr_last u h this

end Llir.Types
