import LlirProofs.ByteLemmas
namespace Llir.Enc

theorem unescape_cons_ne (b : UInt8) (r : Bytes) (h : b ≠ 92) : unescape (b :: r) = b :: unescape r := by
  rw [unescape.eq_def]; simp [h]

theorem unescape_esc (b : UInt8) (r : Bytes) :
    unescape (92 :: hexDigit (b >>> 4) :: hexDigit (b &&& 15) :: r) = b :: unescape r := by
  rw [unescape.eq_def]
  simp [hexDigit_hi_ne, unhex_hi, unhex_lo, nibbles]

/-- Lossless escaping: for ANY `valid` predicate that rejects backslash. -/
theorem unescape_escape (valid : UInt8 → Bool) (hv : valid 92 = false) (s : Bytes) :
    unescape (escape valid s) = s := by
  induction s with
  | nil => simp [escape, unescape]
  | cons b bs ih =>
    unfold escape
    by_cases hb : valid b = true
    · have hne : b ≠ 92 := by intro h; subst h; simp [hv] at hb
      simp [hb, unescape_cons_ne _ _ hne, ih]
    · simp [hb, unescape_esc, ih]

end Llir.Enc
