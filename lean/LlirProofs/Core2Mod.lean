import LlirProofs.Core2Lemmas
import LlirProofs.CoreLemmas
import LlirProofs.Props.C20
/-! M-Core-2: print → parse round trip of whole modules. -/
namespace Llir.Core2
open Llir Llir.Types
open Llir.Core (TypeNameOK)

theorem respell_ok (n : Bytes) (h : TypeNameOK n) : respell n = n := by
  obtain ⟨hne, hp⟩ := h
  unfold respell Enc.getTypeName
  cases n with
  | nil => exact absurd rfl hne
  | cons a r => simp [hp]

mutual
theorem respellTy_id : ∀ (t : Ty), (∀ n ∈ tyNames t, TypeNameOK n) → respellTy t = t
  | .void, _ | .mmx, _ | .label, _ | .token, _ | .metadata, _ | .int _, _ | .float _, _ => by simp [respellTy]
  | .ptr e as, h => by simp [respellTy, respellTy_id e (by simpa [tyNames] using h)]
  | .vec s n e, h => by simp [respellTy, respellTy_id e (by simpa [tyNames] using h)]
  | .arr n e, h => by simp [respellTy, respellTy_id e (by simpa [tyNames] using h)]
  | .struct p fs, h => by simp [respellTy, respellTys_id fs (by simpa [tyNames] using h)]
  | .named n, h => by simp [respellTy, respell_ok n (h n (by simp [tyNames]))]
  | .func r ps v, h => by
    have h1 : ∀ n ∈ tyNames r, TypeNameOK n := fun n hn => h n (by simp [tyNames, hn])
    have h2 : ∀ n ∈ tysNames ps, TypeNameOK n := fun n hn => h n (by simp [tyNames, hn])
    simp [respellTy, respellTy_id r h1, respellTys_id ps h2]
theorem respellTys_id : ∀ (ts : TyList), (∀ n ∈ tysNames ts, TypeNameOK n) → respellTys ts = ts
  | .nil, _ => by simp [respellTys]
  | .cons t ts, h => by
    have h1 : ∀ n ∈ tyNames t, TypeNameOK n := fun n hn => h n (by simp [tysNames, hn])
    have h2 : ∀ n ∈ tysNames ts, TypeNameOK n := fun n hn => h n (by simp [tysNames, hn])
    simp [respellTys, respellTy_id t h1, respellTys_id ts h2]
end

mutual
theorem respellConst_id : ∀ (c : Const), (∀ n ∈ constNames c, TypeNameOK n) → respellConst c = c
  | .int _, _ | .zero, _ | .null, _ | .undef, _ => by simp [respellConst]
  | .struct p fs, h => by simp [respellConst, respellCList_id fs (by simpa [constNames] using h)]
  | .arr es, h => by simp [respellConst, respellCList_id es (by simpa [constNames] using h)]
  | .vec es, h => by simp [respellConst, respellCList_id es (by simpa [constNames] using h)]
theorem respellCList_id : ∀ (cl : CList), (∀ n ∈ clistNames cl, TypeNameOK n) → respellCList cl = cl
  | .nil, _ => by simp [respellCList]
  | .cons t c rest, h => by
    have h1 : ∀ n ∈ tyNames t, TypeNameOK n := fun n hn => h n (by simp [clistNames, hn])
    have h2 : ∀ n ∈ constNames c, TypeNameOK n := fun n hn => h n (by simp [clistNames, hn])
    have h3 : ∀ n ∈ clistNames rest, TypeNameOK n := fun n hn => h n (by simp [clistNames, hn])
    simp [respellCList, respellTy_id t h1, respellConst_id c h2, respellCList_id rest h3]
end

theorem intLit_ne_nil (useHex : Int → Bool) (w : Nat) (x : Int) : 1 ≤ (intLit useHex w x).length := by
  obtain ⟨c, r, heq, _⟩ := lit_head _ (intLit_shape useHex w x)
  rw [heq]; simp

mutual
theorem csize_le_len (useHex : Int → Bool) : ∀ (t : Ty) (c : Const), csize c ≤ (constIdent useHex t c).length
  | t, .int x => by simpa [csize, constIdent] using intLit_ne_nil useHex (intWidth t) x
  | _, .zero => by simp [csize, constIdent, sZero]
  | _, .null => by simp [csize, constIdent, sNull]
  | _, .undef => by simp [csize, constIdent, sUndef]
  | _, .struct p .nil => by cases p <;> simp [csize, clsize, constIdent]
  | _, .struct p (.cons t1 c1 rest) => by
    have := clsize_le_len useHex (.cons t1 c1 rest)
    cases p <;> simp [csize, constIdent] <;> omega
  | _, .arr es => by have := clsize_le_len useHex es; simp [csize, constIdent]; omega
  | _, .vec es => by have := clsize_le_len useHex es; simp [csize, constIdent]; omega
theorem clsize_le_len (useHex : Int → Bool) : ∀ (cl : CList), clsize cl ≤ (clistString useHex cl).length + 1
  | .nil => by simp [clsize]
  | .cons t c .nil => by have := csize_le_len useHex t c; simp [clsize, clistString]; omega
  | .cons t c (.cons t' c' rest) => by
    have := csize_le_len useHex t c
    have := clsize_le_len useHex (.cons t' c' rest)
    simp [clsize, clistString, sComma] at *; omega
end


theorem decodeTypedefName_typeName (n : Bytes) (h : TypeNameOK n) : decodeTypedefName (Enc.typeName n) = some n :=
  Core.decodeTypedef_typeName n h

theorem decodeBody_bodyString (b : Body) (h : ∀ n ∈ bodyNames b, TypeNameOK n) : decodeBody (bodyString b) = some b := by
  cases b with
  | opaq => simp [decodeBody, bodyString]
  | struct p fs =>
    have hne : (tyString (.struct p fs) == sOpaque) = false := by
      obtain ⟨c, rest, heq, hc⟩ := TyParse.tyString_head (.struct p fs)
      have : c = 123 ∨ c = 60 := by
        have : (tyString (.struct p fs)).head? = some c := by rw [heq]; rfl
        unfold tyString at this
        cases fs with
        | nil => cases p <;> simp at this <;> simp [← this]
        | cons a r => cases p <;> simp at this <;> simp [← this]
      rw [heq]
      rcases this with rfl | rfl <;> simp [sOpaque]
    unfold decodeBody bodyString
    simp only [hne, Bool.false_eq_true, if_false, TyParse.parse_tyString]
    rw [respellTys_id fs (by simpa [bodyNames] using h)]

theorem decodeGlobal_print (useHex : Int → Bool) (g : Global) (hn : g.name ≠ [])
    (hty : constTyOK g.ty g.init = true) (hwf : cwf g.init = true)
    (hnames : ∀ n ∈ tyNames g.ty ++ constNames g.init, TypeNameOK n) :
    decodeGlobal (Enc.globalName g.name) g.isConst (tyString g.ty ++ [32] ++ constIdent useHex g.ty g.init) g.lead g.tail = some g := by
  have e : tyString g.ty ++ [32] ++ constIdent useHex g.ty g.init = tyString g.ty ++ 32 :: (constIdent useHex g.ty g.init ++ []) := by simp
  have hp := elem_step useHex g.ty g.init []
  have hc := read_const useHex g.init ((constIdent useHex g.ty g.init ++ []).length + 1) g.ty [] rfl
    (by have := csize_le_len useHex g.ty g.init; simp; omega) hwf
  unfold decodeGlobal
  rw [Enc.globalIdent_globalName g.name hn, e, hp]
  simp only [hc, hty, if_true]
  rw [respellTy_id g.ty (fun n h => hnames n (by simp [h])), respellConst_id g.init (fun n h => hnames n (by simp [h]))]

/-- well-formed modules of the fragment -/
structure WF (m : Mod) : Prop where
  tnames : ∀ d ∈ m.typedefs, TypeNameOK d.name
  gnames : ∀ g ∈ m.globals, g.name ≠ []
  typed : ∀ g ∈ m.globals, constTyOK g.ty g.init = true ∧ cwf g.init = true
  defined : (usedNames m.typedefs m.globals).all (fun n => (m.typedefs.map (·.name)).contains n) = true
  nodupT : hasDup (m.typedefs.map (·.name)) = false
  nodupG : hasDup (m.globals.map (·.name)) = false

theorem used_ok (m : Mod) (h : WF m) : ∀ n ∈ usedNames m.typedefs m.globals, TypeNameOK n := by
  intro n hn
  have := List.all_eq_true.mp h.defined n hn
  simp only [List.contains_eq_mem, List.mem_map, decide_eq_true_eq] at this
  obtain ⟨d, hd, rfl⟩ := this
  exact h.tnames d hd

theorem collect_print (useHex : Int → Bool) (ts : List TypeDef) (gs : List Global)
    (ht : ∀ d ∈ ts, TypeNameOK d.name ∧ ∀ n ∈ bodyNames d.body, TypeNameOK n)
    (hg : ∀ g ∈ gs, g.name ≠ [] ∧ constTyOK g.ty g.init = true ∧ cwf g.init = true ∧
      ∀ n ∈ tyNames g.ty ++ constNames g.init, TypeNameOK n) :
    collect (printTok useHex ⟨ts, gs⟩) = some (ts, gs) := by
  unfold printTok
  simp only
  induction ts with
  | nil =>
    simp only [List.map_nil, List.nil_append]
    induction gs with
    | nil => rfl
    | cons g gs ih =>
      obtain ⟨h1, h2, h3, h4⟩ := hg g (by simp)
      simp only [List.map_cons, collect]
      rw [decodeGlobal_print useHex g h1 h2 h3 h4, ih (fun x hx => hg x (by simp [hx]))]
  | cons d ts ih =>
    obtain ⟨h1, h2⟩ := ht d (by simp)
    simp only [List.map_cons, List.cons_append, collect]
    rw [decodeTypedefName_typeName d.name h1, decodeBody_bodyString d.body h2, ih (fun x hx => ht x (by simp [hx]))]

/-- **M-Core-2 round trip**: parsing what the printer printed gives back the same module up to the
    printer's canonical order of type definitions — every name (every byte), every type (any nesting),
    every constant (integers of any width, zeroinitializer, null, undef, nested struct / packed struct /
    array / vector constants), the global/constant flag; nothing dropped, nothing invented. -/
theorem core2_roundtrip (useHex : Int → Bool) (m : Mod) (h : WF m) :
    translateTok (printTok useHex m) = some (canon m) := by
  have hu := used_ok m h
  rcases m with ⟨ts, gs⟩
  have hc := collect_print useHex ts gs
    (fun d hd => ⟨h.tnames d hd, fun n hn => hu n (by
      simp only [usedNames, List.mem_append, List.mem_flatMap]; exact Or.inl ⟨d, hd, hn⟩)⟩)
    (fun g hg => ⟨h.gnames g hg, (h.typed g hg).1, (h.typed g hg).2, fun n hn => hu n (by
      simp only [usedNames, List.mem_append, List.mem_flatMap]; exact Or.inr ⟨g, hg, by simpa using hn⟩)⟩)
  unfold translateTok canon
  rw [hc]
  have hT := h.nodupT; have hG := h.nodupG; have hD := h.defined
  simp only at hT hG hD
  simp only [hT, hG, hD, Bool.or_self, Bool.false_eq_true, if_false, if_true]


/-! ### the canonical form is a fixpoint -/

theorem hasDup_false_iff_nodup : ∀ (l : List Bytes), hasDup l = false ↔ l.Nodup
  | [] => by simp [hasDup]
  | x :: xs => by
    simp only [hasDup, Bool.or_eq_false_iff, List.nodup_cons, hasDup_false_iff_nodup xs]
    constructor
    · rintro ⟨h1, h2⟩; exact ⟨by simpa using h1, h2⟩
    · rintro ⟨h1, h2⟩; exact ⟨by simpa using h1, h2⟩

theorem find_name (ts : List TypeDef) (n : Bytes) (h : n ∈ ts.map (·.name)) :
    ∃ d, ts.find? (·.name == n) = some d ∧ d ∈ ts ∧ d.name = n := by
  simp only [List.mem_map] at h
  obtain ⟨d0, hd0, hn0⟩ := h
  cases hf : ts.find? (·.name == n) with
  | none =>
    have := List.find?_eq_none.mp hf d0 hd0
    simp [hn0] at this
  | some d =>
    exact ⟨d, rfl, List.mem_of_find?_eq_some hf, by simpa using List.find?_some hf⟩

theorem unique_by_name (ts : List TypeDef) (hnd : (ts.map (·.name)).Nodup) (d1 d2 : TypeDef) (h1 : d1 ∈ ts) (h2 : d2 ∈ ts)
    (hn : d1.name = d2.name) : d1 = d2 := by
  induction ts with
  | nil => simp at h1
  | cons a r ih =>
    simp only [List.map_cons, List.nodup_cons, List.mem_map, not_exists, not_and] at hnd
    simp only [List.mem_cons] at h1 h2
    rcases h1 with rfl | h1 <;> rcases h2 with rfl | h2
    · rfl
    · exact absurd hn.symm (hnd.1 d2 h2)
    · exact absurd hn (hnd.1 d1 h1)
    · exact ih hnd.2 h1 h2

theorem filterMap_find_map (ts : List TypeDef) : ∀ (ns : List Bytes), (∀ n ∈ ns, n ∈ ts.map (·.name)) →
    (ns.filterMap fun n => ts.find? (·.name == n)).map (·.name) = ns
  | [], _ => rfl
  | n :: ns, h => by
    obtain ⟨d, hf, _, hn⟩ := find_name ts n (h n (by simp))
    simp only [List.filterMap_cons, hf, List.map_cons, hn]
    rw [filterMap_find_map ts ns (fun x hx => h x (by simp [hx]))]

theorem sortDefs_names (ts : List TypeDef) : (sortDefs ts).map (·.name) = Natsort.sort (ts.map (·.name)) :=
  filterMap_find_map ts _ (fun n hn => (Props.C20.sort_perm _).mem_iff.mp hn)

theorem sortDefs_mem (ts : List TypeDef) (d : TypeDef) (h : d ∈ sortDefs ts) : d ∈ ts := by
  unfold sortDefs at h
  simp only [List.mem_filterMap] at h
  obtain ⟨n, _, hf⟩ := h
  exact List.mem_of_find?_eq_some hf

theorem filterMap_congr_find (ts ts' : List TypeDef) : ∀ (ns : List Bytes),
    (∀ n ∈ ns, ts'.find? (·.name == n) = ts.find? (·.name == n)) →
    (ns.filterMap fun n => ts'.find? (·.name == n)) = (ns.filterMap fun n => ts.find? (·.name == n))
  | [], _ => rfl
  | n :: ns, h => by
    simp only [List.filterMap_cons, h n (by simp)]
    rw [filterMap_congr_find ts ts' ns (fun x hx => h x (by simp [hx]))]

theorem sortDefs_idem (ts : List TypeDef) (hnd : (ts.map (·.name)).Nodup) : sortDefs (sortDefs ts) = sortDefs ts := by
  have hs : Natsort.sort ((sortDefs ts).map (·.name)) = Natsort.sort (ts.map (·.name)) := by
    rw [sortDefs_names]
    exact Props.C20.sorted_perm_unique _ _ (Props.C20.sort_perm _) (Props.C20.sort_sorted _) (Props.C20.sort_sorted _)
  show (Natsort.sort ((sortDefs ts).map (·.name))).filterMap _ = (Natsort.sort (ts.map (·.name))).filterMap _
  rw [hs]
  apply filterMap_congr_find
  intro n hn
  have hn' : n ∈ ts.map (·.name) := (Props.C20.sort_perm _).mem_iff.mp hn
  obtain ⟨d, hf, hd, hdn⟩ := find_name ts n hn'
  have hn'' : n ∈ (sortDefs ts).map (·.name) := by rw [sortDefs_names]; exact hn
  obtain ⟨d', hf', hd', hdn'⟩ := find_name (sortDefs ts) n hn''
  rw [hf, hf']
  congr 1
  exact unique_by_name ts hnd d' d (sortDefs_mem ts d' hd') hd (by rw [hdn, hdn'])

theorem canon_idem (m : Mod) (h : (m.typedefs.map (·.name)).Nodup) : canon (canon m) = canon m := by
  unfold canon
  simp only [sortDefs_idem m.typedefs h]

theorem wf_canon (m : Mod) (h : WF m) : WF (canon m) := by
  have hnd := (hasDup_false_iff_nodup _).mp h.nodupT
  refine ⟨?_, h.gnames, h.typed, ?_, ?_, h.nodupG⟩
  · intro d hd; exact h.tnames d (sortDefs_mem _ d hd)
  · show (usedNames (sortDefs m.typedefs) m.globals).all _ = true
    rw [List.all_eq_true]
    intro n hn
    have hin : n ∈ usedNames m.typedefs m.globals := by
      simp only [usedNames, List.mem_append, List.mem_flatMap] at hn ⊢
      rcases hn with ⟨d, hd, hb⟩ | hg
      · exact Or.inl ⟨d, sortDefs_mem _ d hd, hb⟩
      · exact Or.inr hg
    have := List.all_eq_true.mp h.defined n hin
    simp only [List.contains_eq_mem, decide_eq_true_eq] at this ⊢
    show n ∈ (sortDefs m.typedefs).map (·.name)
    rw [sortDefs_names]
    exact (Props.C20.sort_perm _).mem_iff.mpr this
  · show hasDup ((sortDefs m.typedefs).map (·.name)) = false
    rw [sortDefs_names, hasDup_false_iff_nodup]
    exact (Props.C20.sort_perm _).nodup_iff.mpr hnd

/-- **One-step fixpoint on M-Core-2**: the module obtained by one parse prints to a text that parses to
    itself. -/
theorem core2_fixpoint (useHex : Int → Bool) (m : Mod) (h : WF m) :
    translateTok (printTok useHex (canon m)) = some (canon m) := by
  rw [core2_roundtrip useHex (canon m) (wf_canon m h), canon_idem m ((hasDup_false_iff_nodup _).mp h.nodupT)]

end Llir.Core2
