import LlirModel.IntLit
namespace Llir.Digits

theorem ofDigitsRev_digitsRev (b : Nat) (hb : 2 ≤ b) (n : Nat) : ofDigitsRev b (digitsRev b n) = n := by
  induction n using Nat.strongRecOn with
  | _ n ih =>
    rw [digitsRev]
    have : ¬ b < 2 := by omega
    simp only [this, dite_false]
    by_cases h : n < b
    · simp [h, ofDigitsRev]
    · simp only [h, if_false, ofDigitsRev]
      rw [ih (n / b) (Nat.div_lt_self (by omega) (by omega))]
      exact Nat.mod_add_div n b

theorem digitsRev_lt (b : Nat) (hb : 2 ≤ b) (n : Nat) : ∀ d ∈ digitsRev b n, d < b := by
  induction n using Nat.strongRecOn with
  | _ n ih =>
    rw [digitsRev]
    have : ¬ b < 2 := by omega
    simp only [this, dite_false]
    by_cases h : n < b
    · simp [h]
    · simp only [h, if_false, List.mem_cons]
      intro d hd
      rcases hd with rfl | hd
      · exact Nat.mod_lt _ (by omega)
      · exact ih (n / b) (Nat.div_lt_self (by omega) (by omega)) d hd

theorem digitsRev_ne_nil (b n : Nat) : digitsRev b n ≠ [] := by
  rw [digitsRev]; split
  · simp
  · split <;> simp

theorem foldr_eq_ofDigitsRev (b : Nat) (l : List Nat) :
    l.foldr (fun d a => a * b + d) 0 = ofDigitsRev b l := by
  induction l with
  | nil => rfl
  | cons d ds ih =>
    simp only [List.foldr, ofDigitsRev]
    rw [ih, Nat.mul_comm, Nat.add_comm]

/-- parsing a rendered digit list, for any rendering `ch` that `digitVal` inverts on digits < base -/
theorem parseDigits_map (base : Nat) (ch : Nat → UInt8)
    (hch : ∀ d, d < base → digitVal base (ch d) = some d) (l : List Nat) (hl : ∀ d ∈ l, d < base) (acc : Nat) :
    parseDigits base (l.map ch) acc = some (l.foldl (fun a d => a * base + d) acc) := by
  induction l generalizing acc with
  | nil => simp [parseDigits]
  | cons d ds ih =>
    simp only [List.map_cons, parseDigits, List.foldl_cons]
    rw [hch d (hl d (by simp))]
    exact ih (fun x hx => hl x (by simp [hx])) _

theorem parseNat_render (base : Nat) (hb : 2 ≤ base) (ch : Nat → UInt8)
    (hch : ∀ d, d < base → digitVal base (ch d) = some d) (n : Nat) :
    parseNat base ((digitsRev base n).reverse.map ch) = some n := by
  unfold parseNat
  have hne : ((digitsRev base n).reverse.map ch).isEmpty = false := by
    cases h : digitsRev base n with
    | nil => exact absurd h (digitsRev_ne_nil _ _)
    | cons a l => simp
  rw [hne]
  simp only [Bool.false_eq_true, if_false]
  rw [parseDigits_map base ch hch _ (by
    intro d hd; exact digitsRev_lt base hb n d (by simpa using hd))]
  rw [List.foldl_reverse, foldr_eq_ofDigitsRev, ofDigitsRev_digitsRev base hb]

theorem digitVal16_lower : ∀ d, d < 16 → digitVal 16 (digitChar d) = some d := by decide
theorem digitVal16_upper : ∀ d, d < 16 → digitVal 16 (digitCharUpper d) = some d := by decide
theorem digitVal10_lower : ∀ d, d < 10 → digitVal 10 (digitChar d) = some d := by decide

theorem parseNat_natText10 (n : Nat) : parseNat 10 (natText 10 n) = some n :=
  parseNat_render 10 (by omega) digitChar digitVal10_lower n
theorem parseNat_natText16 (n : Nat) : parseNat 16 (natText 16 n) = some n :=
  parseNat_render 16 (by omega) digitChar digitVal16_lower n
theorem parseNat_natTextUpper16 (n : Nat) : parseNat 16 (natTextUpper 16 n) = some n :=
  parseNat_render 16 (by omega) digitCharUpper digitVal16_upper n

/-- first character of a rendered number is a digit character of a digit < base -/
theorem render_head (base : Nat) (hb : 2 ≤ base) (ch : Nat → UInt8) (n : Nat) :
    ∃ d r, d < base ∧ (digitsRev base n).reverse.map ch = ch d :: r := by
  cases h : (digitsRev base n).reverse with
  | nil => exact absurd (by simpa using h) (digitsRev_ne_nil base n)
  | cons a l =>
    refine ⟨a, l.map ch, ?_, by simp⟩
    exact digitsRev_lt base hb n a (by
      have : a ∈ (digitsRev base n).reverse := by rw [h]; simp
      simpa using this)

end Llir.Digits
