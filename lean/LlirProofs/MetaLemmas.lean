import LlirModel.Meta
import LlirProofs.Core3Lemmas
import LlirProofs.Props.C11
import LlirProofs.MdNameLemmas
/-! M-Meta: the field / line readers invert the printers. -/
namespace Llir.Meta
open Llir Llir.Types Llir.Core2 Llir.Core3 Llir.TyParse

/-! ### heads -/

def tyHeadOK (c : UInt8) : Bool := c != 33 && c != 110 && c != 125

theorem tyString_headOK? : ∀ (t : Ty), ∃ c, (tyString t).head? = some c ∧ tyHeadOK c = true
  | .void => ⟨118, rfl, by decide⟩
  | .mmx => ⟨120, rfl, by decide⟩
  | .label => ⟨108, rfl, by decide⟩
  | .token => ⟨116, rfl, by decide⟩
  | .metadata => ⟨109, rfl, by decide⟩
  | .int w => ⟨105, by simp [tyString], by decide⟩
  | .float k => by
    unfold tyString floatKindName
    split <;> first | exact ⟨_, rfl, by decide⟩ | exact ⟨70, by simp, by decide⟩
  | .ptr e as => by
    obtain ⟨c, h, hc⟩ := tyString_headOK? e
    refine ⟨c, ?_, hc⟩
    unfold tyString
    rw [List.append_assoc]
    exact head?_append_of_head? _ _ c h
  | .vec s n e => ⟨60, by simp [tyString], by decide⟩
  | .arr n e => ⟨91, by simp [tyString], by decide⟩
  | .struct p fs => by
    unfold tyString
    cases fs with
    | nil => cases p <;> exact ⟨_, rfl, by decide⟩
    | cons a r => cases p <;> simp <;> decide
  | .named n => ⟨37, by simp [tyString, Enc.typeName], by decide⟩
  | .func r ps v => by
    obtain ⟨c, h, hc⟩ := tyString_headOK? r
    refine ⟨c, ?_, hc⟩
    unfold tyString
    rw [List.append_assoc, List.append_assoc, List.append_assoc]
    exact head?_append_of_head? _ _ c h

theorem tyString_headOK (t : Ty) : ∃ c rest, tyString t = c :: rest ∧ c ≠ 33 ∧ c ≠ 110 ∧ c ≠ 125 := by
  obtain ⟨c, h, hc⟩ := tyString_headOK? t
  cases hs : tyString t with
  | nil => rw [hs] at h; simp at h
  | cons a rest =>
    rw [hs] at h; simp at h; subst h
    simp only [tyHeadOK, Bool.and_eq_true, bne_iff_ne, ne_eq] at hc
    exact ⟨a, rest, rfl, hc.1.1, hc.1.2, hc.2⟩

/-- what may follow a field: nothing, the comma of the separator, or the closing brace -/
def fieldEnd (r : Bytes) : Bool :=
  match r with
  | [] => true
  | c :: _ => c == 44 || c == 125

theorem fieldEnd_not_digit (r : Bytes) (h : fieldEnd r = true) : ∀ c ∈ r.head?, isDigit c = false := by
  intro c hc
  cases r with
  | nil => simp at hc
  | cons a r =>
    simp only [List.head?_cons, Option.mem_def, Option.some.injEq] at hc; subst hc
    simp only [fieldEnd, Bool.or_eq_true, beq_iff_eq] at h
    rcases h with h | h <;> subst h <;> decide

theorem fieldEnd_stopC (r : Bytes) (h : fieldEnd r = true) : stopC r = true := by
  cases r with
  | nil => rfl
  | cons a r =>
    simp only [fieldEnd, Bool.or_eq_true, beq_iff_eq] at h
    rcases h with h | h <;> subst h <;> simp [stopC]

/-! ### sizes (fuel) -/

mutual
def fsize : Field → Nat
  | .tuple fs => fssize fs + 1
  | _ => 1
def fssize : Fields → Nat
  | .nil => 1
  | .cons f r => fsize f + fssize r + 1
end


theorem stripPrefix_head_ne (a b : UInt8) (p s : Bytes) (h : a ≠ b) : stripPrefix (a :: p) (b :: s) = none := by
  simp [stripPrefix, TyParse.stripPrefix, h]

theorem quote_split (s r : Bytes) :
    (Enc.escapeString s ++ 34 :: r).dropWhile (· != 34) = 34 :: r ∧ (Enc.escapeString s ++ 34 :: r).takeWhile (· != 34) = Enc.escapeString s := by
  have hq : ∀ b ∈ Enc.escapeString s, b ≠ 34 := Enc.escape_no_quote Enc.validString (by decide) s
  have := takeWhile_append_stop (· != 34) (Enc.escapeString s) (34 :: r) (fun x hx => by simpa using hq x hx) (by simp)
  exact ⟨this.2, this.1⟩

theorem fieldString_head (useHex : Int → Bool) : ∀ (x : Field), ∃ c rest, fieldString useHex x = c :: rest ∧ c ≠ 125
  | .null => ⟨110, _, rfl, by decide⟩
  | .ref n => ⟨33, _, rfl, by decide⟩
  | .str s => ⟨33, _, rfl, by decide⟩
  | .val t c => by
    obtain ⟨h, rest, heq, _, _, h3⟩ := tyString_headOK t
    exact ⟨h, rest ++ ([32] ++ constIdent useHex t c), by simp [fieldString, heq], h3⟩
  | .tuple fs => ⟨33, _, rfl, by decide⟩

mutual
theorem readField_print (useHex : Int → Bool) : ∀ (x : Field) (f : Nat) (r : Bytes), fieldOK x = true → fieldEnd r = true → fsize x ≤ f →
    readField f (fieldString useHex x ++ r) = some (x, r)
  | .null, f, r, _, _, hf => by
    obtain ⟨f', rfl⟩ : ∃ f', f = f' + 1 := ⟨f - 1, by simp [fsize] at hf; omega⟩
    simp [fieldString, sNull, readField, stripPrefix, TyParse.stripPrefix]
  | .ref n, f, r, hok, hr, hf => by
    obtain ⟨f', rfl⟩ : ∃ f', f = f' + 1 := ⟨f - 1, by simp [fsize] at hf; omega⟩
    obtain ⟨d, ds, hd, hdig⟩ := natDec_head n
    have hn : n < 2 ^ 63 := by simpa [fieldOK] using hok
    obtain ⟨h1, h2⟩ := takeWhile_append_stop isDigit (natDec n) r (natDec_digits n) (fieldEnd_not_digit r hr)
    have h34 : d ≠ 34 := by intro e; subst e; simp [isDigit] at hdig
    have h123 : d ≠ 123 := by intro e; subst e; simp [isDigit] at hdig
    simp only [fieldString, mdID, List.cons_append, readField]
    rw [show natDec n ++ r = d :: (ds ++ r) by rw [hd]; rfl]
    split
    · rename_i heq; simp at heq; exact absurd heq.1 h34
    · rename_i heq; simp at heq; exact absurd heq.1 h123
    · rw [show d :: (ds ++ r) = natDec n ++ r by rw [hd]; rfl, h1, h2, parseUint63_natDec n hn]
  | .str s, f, r, _, _, hf => by
    obtain ⟨f', rfl⟩ : ∃ f', f = f' + 1 := ⟨f - 1, by simp [fsize] at hf; omega⟩
    obtain ⟨h1, h2⟩ := quote_split s r
    simp only [fieldString, Enc.quote, List.cons_append, List.append_assoc, List.nil_append, readField, h1, h2,
      Llir.Props.C11.unescape_escapeString]
  | .val t c, f, r, hok, hr, hf => by
    obtain ⟨f', rfl⟩ : ∃ f', f = f' + 1 := ⟨f - 1, by simp [fsize] at hf; omega⟩
    simp only [fieldOK, Bool.and_eq_true] at hok
    obtain ⟨⟨hcwf, hty⟩, hnn⟩ := hok
    obtain ⟨h, rest, heq, h33, h110, _⟩ := tyString_headOK t
    have hs : fieldString useHex (.val t c) ++ r = tyString t ++ 32 :: (constIdent useHex t c ++ r) := by simp [fieldString]
    rw [hs]
    have hh : tyString t ++ 32 :: (constIdent useHex t c ++ r) = h :: (rest ++ 32 :: (constIdent useHex t c ++ r)) := by rw [heq]; rfl
    obtain ⟨hc, crest, hceq, _, hc97, hc40, _⟩ := const_head37 useHex t c
    have hty' : TyParse.parseTy (tyFuel (tyString t ++ 32 :: (constIdent useHex t c ++ r))) (tyString t ++ 32 :: (constIdent useHex t c ++ r))
        = some (t, 32 :: (constIdent useHex t c ++ r)) := by
      apply TyParse.parseTy_tyString_gen
      · simp [TyParse.cont]
      · rw [hceq]; simp [TyParse.stopG, hc97, hc40]
      · have := TyParse.w_le_len t
        unfold tyFuel; simp only [List.length_append]; omega
    have hcf : csize c ≤ (constIdent useHex t c ++ r).length + 1 := by
      have := csize_le_len useHex t c; simp only [List.length_append]; omega
    unfold readField
    rw [hh]
    split
    · rename_i heq2; simp at heq2; exact absurd heq2.1 h33
    · rw [← hh, show stripPrefix sNull (tyString t ++ 32 :: (constIdent useHex t c ++ r)) = none by
        rw [hh]; exact stripPrefix_head_ne 110 h _ _ (Ne.symm h110)]
      simp only [hty', read_const useHex c _ t r (fieldEnd_stopC r hr) hcf hcwf, hty, hnn, Bool.and_self, if_true]
  | .tuple fs, f, r, hok, _, hf => by
    obtain ⟨f', rfl⟩ : ∃ f', f = f' + 1 := ⟨f - 1, by simp [fsize] at hf; omega⟩
    have ih := readFields_print useHex fs f' r (by simpa [fieldOK] using hok) (by simp [fsize] at hf; omega)
    simp only [fieldString, sOpenT, List.cons_append, List.nil_append, List.append_assoc, List.singleton_append, readField, ih]
theorem readFields_print (useHex : Int → Bool) : ∀ (xs : Fields) (f : Nat) (r : Bytes), fieldsOK xs = true → fssize xs ≤ f →
    readFields f (fieldsString useHex xs ++ 125 :: r) = some (xs, 125 :: r)
  | .nil, f, r, _, hf => by
    obtain ⟨f', rfl⟩ : ∃ f', f = f' + 1 := ⟨f - 1, by simp [fssize] at hf; omega⟩
    simp [fieldsString, readFields]
  | .cons x .nil, f, r, hok, hf => by
    obtain ⟨f', rfl⟩ : ∃ f', f = f' + 1 := ⟨f - 1, by simp [fssize] at hf; omega⟩
    simp only [fieldsOK, Bool.and_eq_true] at hok
    have ih := readField_print useHex x f' (125 :: r) hok.1 (by simp [fieldEnd]) (by simp [fssize] at hf; omega)
    obtain ⟨c, rest, hc, hne⟩ := fieldString_head useHex x
    simp only [fieldsString, readFields]
    rw [hc] at ih ⊢
    simp only [List.cons_append] at ih ⊢
    split
    · rename_i heq; simp at heq; exact absurd heq.1 hne
    · simp [ih]
  | .cons x (.cons y ys), f, r, hok, hf => by
    obtain ⟨f', rfl⟩ : ∃ f', f = f' + 1 := ⟨f - 1, by simp [fssize] at hf; omega⟩
    simp only [fieldsOK, Bool.and_eq_true] at hok
    have hs : fieldsString useHex (.cons x (.cons y ys)) ++ 125 :: r
        = fieldString useHex x ++ (44 :: 32 :: (fieldsString useHex (.cons y ys) ++ 125 :: r)) := by
      simp [fieldsString, sSep]
    have ih1 := readField_print useHex x f' (44 :: 32 :: (fieldsString useHex (.cons y ys) ++ 125 :: r)) hok.1 (by simp [fieldEnd])
      (by simp [fssize] at hf; omega)
    have ih2 := readFields_print useHex (.cons y ys) f' r (by simp [fieldsOK, hok.2]) (by simp [fssize] at hf ⊢; omega)
    obtain ⟨c, rest, hc, hne⟩ := fieldString_head useHex x
    rw [hs]
    unfold readFields
    rw [hc] at ih1 ⊢
    simp only [List.cons_append] at ih1 ⊢
    split
    · rename_i heq; simp at heq; exact absurd heq.1 hne
    · rw [ih1]; simp only [ih2]
end

/-! ### fuel is bounded by the length of the text -/

theorem natDec_len (n : Nat) : 1 ≤ (natDec n).length := by
  obtain ⟨d, ds, hd, _⟩ := natDec_head n
  rw [hd]; simp

mutual
theorem fsize_le (useHex : Int → Bool) : ∀ (x : Field), fsize x + 1 ≤ (fieldString useHex x).length
  | .null => by simp [fsize, fieldString, sNull]
  | .ref n => by have := natDec_len n; simp [fsize, fieldString, mdID]; omega
  | .str s => by simp [fsize, fieldString, Enc.quote]
  | .val t c => by
    obtain ⟨h, rest, heq, _⟩ := tyString_headOK t
    have := csize_le_len useHex t c
    have : 1 ≤ csize c := by cases c <;> simp [csize]
    simp [fsize, fieldString, heq]; omega
  | .tuple fs => by have := fssize_le useHex fs; simp [fsize, fieldString, sOpenT]; omega
theorem fssize_le (useHex : Int → Bool) : ∀ (xs : Fields), fssize xs ≤ (fieldsString useHex xs).length + 1
  | .nil => by simp [fssize, fieldsString]
  | .cons x .nil => by have := fsize_le useHex x; simp [fssize, fieldsString]; omega
  | .cons x (.cons y ys) => by
    have := fsize_le useHex x
    have := fssize_le useHex (.cons y ys)
    simp [fssize, fieldsString, sSep] at *; omega
end

/-! ### lists of IDs (named metadata) -/

theorem readIds_print : ∀ (ns : List Nat) (f : Nat) (r : Bytes), (∀ n ∈ ns, n < 2 ^ 63) → ns.length + 1 ≤ f →
    readIds f (idsString ns ++ 125 :: r) = some (ns, 125 :: r)
  | [], f, r, _, hf => by
    obtain ⟨f', rfl⟩ : ∃ f', f = f' + 1 := ⟨f - 1, by simp at hf; omega⟩
    simp [idsString, readIds]
  | [n], f, r, hn, hf => by
    obtain ⟨f', rfl⟩ : ∃ f', f = f' + 1 := ⟨f - 1, by simp at hf; omega⟩
    obtain ⟨h1, h2⟩ := takeWhile_append_stop isDigit (natDec n) (125 :: r) (natDec_digits n) (by simp [isDigit])
    simp [idsString, mdID, readIds, h1, h2, parseUint63_natDec n (hn n (by simp))]
  | n :: m :: rest, f, r, hn, hf => by
    obtain ⟨f', rfl⟩ : ∃ f', f = f' + 1 := ⟨f - 1, by simp at hf; omega⟩
    have ih := readIds_print (m :: rest) f' r (fun k hk => hn k (by simp [hk])) (by simp at hf ⊢; omega)
    obtain ⟨h1, h2⟩ := takeWhile_append_stop isDigit (natDec n) (44 :: 32 :: (idsString (m :: rest) ++ 125 :: r)) (natDec_digits n) (by simp [isDigit])
    simp [idsString, mdID, sSep, readIds, h1, h2, parseUint63_natDec n (hn n (by simp)), ih]

theorem idsString_len : ∀ (ns : List Nat), ns.length ≤ (idsString ns).length
  | [] => by simp
  | [n] => by simp [idsString, mdID]
  | n :: m :: rest => by have := idsString_len (m :: rest); simp [idsString, mdID, sSep] at *; omega

/-! ### lines -/

theorem stripPrefix_app (p r : Bytes) : stripPrefix p (p ++ r) = some r := TyParse.stripPrefix_append p r

theorem readLine_blank : readLine [] = some .blank := rfl

theorem readLine_def (useHex : Int → Bool) (d : Def) (hid : d.id < 2 ^ 63) (hok : fieldsOK d.fields = true) :
    readLine (defString useHex d) = some (.def_ d) := by
  obtain ⟨id, dist, fs⟩ := d
  simp only at hid hok
  obtain ⟨c, ds, hd, hdig⟩ := natDec_head id
  have hfuel : fssize fs ≤ (fieldsString useHex fs ++ [125]).length + 2 := by
    have := fssize_le useHex fs; simp only [List.length_append, List.length_cons, List.length_nil]; omega
  have hrf := readFields_print useHex fs _ [] hok hfuel
  cases dist
  · -- not distinct
    have hs : defString useHex ⟨id, false, fs⟩ = 33 :: (natDec id ++ (sEq ++ (sOpenT ++ (fieldsString useHex fs ++ [125])))) := by
      simp [defString, mdID]
    obtain ⟨h1, h2⟩ := takeWhile_append_stop isDigit (natDec id) (sEq ++ (sOpenT ++ (fieldsString useHex fs ++ [125]))) (natDec_digits id)
      (by simp [sEq, isDigit])
    have hhead : (((natDec id ++ (sEq ++ (sOpenT ++ (fieldsString useHex fs ++ [125])))).head?.map isDigit).getD false) = true := by
      rw [hd]; simp [hdig]
    have hnd : stripPrefix sDistinct (sOpenT ++ (fieldsString useHex fs ++ [125])) = none := by
      simp only [sDistinct, sOpenT, List.cons_append]; exact stripPrefix_head_ne _ _ _ _ (by decide)
    rw [hs]
    simp only [readLine, hhead, if_true, h1, h2, parseUint63_natDec id hid, stripPrefix_app, hnd, hrf]
  · have hs : defString useHex ⟨id, true, fs⟩ = 33 :: (natDec id ++ (sEq ++ (sDistinct ++ (sOpenT ++ (fieldsString useHex fs ++ [125]))))) := by
      simp [defString, mdID]
    obtain ⟨h1, h2⟩ := takeWhile_append_stop isDigit (natDec id) (sEq ++ (sDistinct ++ (sOpenT ++ (fieldsString useHex fs ++ [125])))) (natDec_digits id)
      (by simp [sEq, isDigit])
    have hhead : (((natDec id ++ (sEq ++ (sDistinct ++ (sOpenT ++ (fieldsString useHex fs ++ [125]))))).head?.map isDigit).getD false) = true := by
      rw [hd]; simp [hdig]
    rw [hs]
    simp only [readLine, hhead, if_true, h1, h2, parseUint63_natDec id hid, stripPrefix_app, hrf]

theorem readLine_named (n : Named) (hne : n.name ≠ []) (hids : ∀ k ∈ n.ids, k < 2 ^ 63) :
    readLine (namedString n) = some (.named n) := by
  obtain ⟨name, ids⟩ := n
  simp only at hne hids
  obtain ⟨body, hb, hbne, hbd, hbc, hbu⟩ := mdName_shape name hne
  have hs : namedString ⟨name, ids⟩ = 33 :: (body ++ ((sEq ++ sOpenT) ++ (idsString ids ++ [125]))) := by
    simp [namedString, hb]
  obtain ⟨h1, h2⟩ := takeWhile_append_stop isMdNameChar body ((sEq ++ sOpenT) ++ (idsString ids ++ [125])) hbc (by simp [sEq, isMdNameChar, Enc.isLetter, isAlpha, isUpper, isLower, isDigit])
  have hhead : (((body ++ ((sEq ++ sOpenT) ++ (idsString ids ++ [125]))).head?.map isDigit).getD false) = false := by
    cases body with
    | nil => exact absurd rfl hbne
    | cons a as => simpa using hbd
  have hfuel : ids.length + 1 ≤ (idsString ids ++ [125]).length + 2 := by
    have := idsString_len ids; simp only [List.length_append, List.length_cons, List.length_nil]; omega
  have hri := readIds_print ids _ [] hids hfuel
  have hemp : body.isEmpty = false := by cases body with | nil => exact absurd rfl hbne | cons a as => rfl
  rw [hs]
  simp only [readLine, hhead, Bool.false_eq_true, if_false, h1, h2, hemp, stripPrefix_app, hri, hbu]

end Llir.Meta
