import LlirProofs.Core3Lemmas
import LlirProofs.Props.C08
import LlirProofs.Props.C16
/-! M-Core-3: function definitions — the decidable well-formedness predicate, the reader round trip and the translation theorem. -/
namespace Llir.Core3
open Llir Llir.Types Llir.Core2 Llir.Enc Llir.Numbering

/-! ### a decidable well-formedness predicate -/

theorem identOKB_sound (i : Ident) (h : identOKB i = true) : identOK i := by
  cases i with
  | name n => simp [identOKB] at h; intro e; subst e; simp at h
  | id k => simpa [identOKB, identOK] using h
  | anon => simp [identOKB] at h

theorem operandOKB_sound (o : Operand) (h : operandOKB o = true) : operandOK o := by
  cases o with
  | loc i => exact identOKB_sound i h
  | const c => exact h
  | glob n => simp [operandOKB] at h; intro e; subst e; simp at h

theorem argOKB_sound (a : Arg) (h : argOKB a = true) : argOK a := by
  cases a with
  | ty t => trivial
  | tyval t o => exact operandOKB_sound o h
  | val o => exact operandOKB_sound o h
  | lab i => exact identOKB_sound i h
  | retv v =>
    cases v with
    | none => trivial
    | some p =>
      obtain ⟨t, o⟩ := p
      simp only [argOKB, Bool.and_eq_true, Bool.not_eq_true'] at h
      exact ⟨operandOKB_sound o h.1, by intro e; subst e; simp [isVoid] at h⟩
  | phis incs =>
    simp only [argOKB, Bool.and_eq_true, Bool.not_eq_true', List.all_eq_true] at h
    refine ⟨by intro e; subst e; simp at h, fun p hp => ?_⟩
    have := h.2 p hp
    exact ⟨operandOKB_sound _ this.1, identOKB_sound _ this.2⟩
  | nums ks =>
    simp only [argOKB, List.all_eq_true, decide_eq_true_eq] at h
    exact h
  | align a =>
    cases a with
    | none => intro n hn; simp at hn
    | some n => intro m hm; simp at hm; subst hm; simpa [argOKB] using h
  | tyvals ixs =>
    simp only [argOKB, List.all_eq_true] at h
    intro p hp; exact operandOKB_sound _ (h p hp)
  | flags xs => trivial
  | kw i => trivial
  | okw o => trivial
  | loc i => exact identOKB_sound i h
  | pad p =>
    cases p with
    | none => intro i hi; simp at hi
    | some j => intro i hi; simp at hi; subst hi; exact identOKB_sound _ h
  | labs l =>
    simp only [argOKB, List.all_eq_true] at h
    intro i hi; exact identOKB_sound i (h i hi)
  | unwind u =>
    cases u with
    | none => intro i hi; simp at hi
    | some j => intro i hi; simp at hi; subst hi; exact identOKB_sound _ h

theorem matchesB_sound : ∀ (fs : List Slot) (as : List Arg), matchesB fs as = true → Matches fs as
  | [], [], _ => .nil
  | [], _ :: _, h => by simp [matchesB] at h
  | .lit s :: fs, as, h => .lit s (matchesB_sound fs as (by simpa [matchesB] using h))
  | .ty :: fs, as, h => by
    cases as with
    | nil => simp [matchesB] at h
    | cons a as => cases a <;> first | exact .ty _ (matchesB_sound fs as (by simpa [matchesB] using h)) | simp [matchesB] at h
  | .tyval :: fs, as, h => by
    cases as with
    | nil => simp [matchesB] at h
    | cons a as => cases a <;> first | exact .tyval _ _ (matchesB_sound fs as (by simpa [matchesB] using h)) | simp [matchesB] at h
  | .val :: fs, as, h => by
    cases as with
    | nil => simp [matchesB] at h
    | cons a as => cases a <;> first | exact .val _ (matchesB_sound fs as (by simpa [matchesB] using h)) | simp [matchesB] at h
  | .lab :: fs, as, h => by
    cases as with
    | nil => simp [matchesB] at h
    | cons a as => cases a <;> first | exact .lab _ (matchesB_sound fs as (by simpa [matchesB] using h)) | simp [matchesB] at h
  | .retv :: fs, as, h => by
    cases as with
    | nil => simp [matchesB] at h
    | cons a as => cases a <;> first | exact .retv _ (matchesB_sound fs as (by simpa [matchesB] using h)) | simp [matchesB] at h
  | .phis :: fs, as, h => by
    cases as with
    | nil => simp [matchesB] at h
    | cons a as => cases a <;> first | exact .phis _ (matchesB_sound fs as (by simpa [matchesB] using h)) | simp [matchesB] at h
  | .nums :: fs, as, h => by
    cases as with
    | nil => simp [matchesB] at h
    | cons a as => cases a <;> first | exact .nums _ (matchesB_sound fs as (by simpa [matchesB] using h)) | simp [matchesB] at h
  | .align :: fs, as, h => by
    cases as with
    | nil => simp [matchesB] at h
    | cons a as => cases a <;> first | exact .align _ (matchesB_sound fs as (by simpa [matchesB] using h)) | simp [matchesB] at h
  | .tyvals :: fs, as, h => by
    cases as with
    | nil => simp [matchesB] at h
    | cons a as => cases a <;> first | exact .tyvals _ (matchesB_sound fs as (by simpa [matchesB] using h)) | simp [matchesB] at h
  | .flags ks :: fs, as, h => by
    cases as with
    | nil => simp [matchesB] at h
    | cons a as =>
      cases a with
      | flags xs =>
        cases fs with
        | nil => simp [matchesB] at h
        | cons f fs' =>
          cases f with
          | tyval =>
            cases as with
            | nil => simp [matchesB] at h
            | cons b as' =>
              cases b with
              | tyval t o =>
                simp only [matchesB, Bool.and_eq_true, List.all_eq_true, decide_eq_true_eq] at h
                exact .flags ks xs t o h.1.1 h.1.2 (matchesB_sound fs' as' h.2)
              | _ => simp [matchesB] at h
          | ty =>
            cases as with
            | nil => simp [matchesB] at h
            | cons b as' =>
              cases b with
              | ty t =>
                simp only [matchesB, Bool.and_eq_true, List.all_eq_true, decide_eq_true_eq] at h
                exact .flagsTy ks xs t h.1.1 h.1.2 (matchesB_sound fs' as' h.2)
              | _ => simp [matchesB] at h
          | kw ks2 =>
            cases as with
            | nil => simp [matchesB] at h
            | cons b as' =>
              cases b with
              | kw i =>
                simp only [matchesB, Bool.and_eq_true, List.all_eq_true, decide_eq_true_eq] at h
                exact .flagsKw ks xs ks2 i h.1.1 h.1.2 (matchesB_sound fs' as' h.2)
              | _ => simp [matchesB] at h
          | _ => simp [matchesB] at h
      | _ => simp [matchesB] at h
  | .kw ks :: fs, as, h => by
    cases as with
    | nil => simp [matchesB] at h
    | cons a as =>
      cases a with
      | kw i =>
        simp only [matchesB, Bool.and_eq_true, decide_eq_true_eq] at h
        exact .kw ks i h.1 (matchesB_sound fs as h.2)
      | _ => simp [matchesB] at h
  | .loc :: fs, as, h => by
    cases as with
    | nil => simp [matchesB] at h
    | cons a as => cases a <;> first | exact .loc _ (matchesB_sound fs as (by simpa [matchesB] using h)) | simp [matchesB] at h
  | .pad :: fs, as, h => by
    cases as with
    | nil => simp [matchesB] at h
    | cons a as => cases a <;> first | exact .pad _ (matchesB_sound fs as (by simpa [matchesB] using h)) | simp [matchesB] at h
  | .labs :: fs, as, h => by
    cases as with
    | nil => simp [matchesB] at h
    | cons a as => cases a <;> first | exact .labs _ (matchesB_sound fs as (by simpa [matchesB] using h)) | simp [matchesB] at h
  | .unwind :: fs, as, h => by
    cases as with
    | nil => simp [matchesB] at h
    | cons a as => cases a <;> first | exact .unwind _ (matchesB_sound fs as (by simpa [matchesB] using h)) | simp [matchesB] at h
  | .eargs :: fs, as, h => by
    cases as with
    | nil => simp [matchesB] at h
    | cons a as => cases a <;> first | exact .eargs _ (matchesB_sound fs as (by simpa [matchesB] using h)) | simp [matchesB] at h
  | .okw ks :: fs, as, h => by
    cases as with
    | nil => simp [matchesB] at h
    | cons a as =>
      cases a with
      | okw o =>
        simp only [matchesB, Bool.and_eq_true] at h
        refine .okw ks o ?_ (matchesB_sound fs as h.2)
        intro i hi
        cases o with
        | none => simp at hi
        | some j => simp at hi; subst hi; simpa using h.1
      | _ => simp [matchesB] at h
  | .cargs :: fs, as, h => by
    cases as with
    | nil => simp [matchesB] at h
    | cons a as => cases a <;> first | exact .cargs _ (matchesB_sound fs as (by simpa [matchesB] using h)) | simp [matchesB] at h
  | .callee :: fs, as, h => by
    cases as with
    | nil => simp [matchesB] at h
    | cons a as =>
      cases a with
      | val o =>
        simp only [matchesB, Bool.and_eq_true] at h
        refine .callee o ?_ (matchesB_sound fs as h.2)
        cases o <;> simp_all [isRef]
      | _ => simp [matchesB] at h

theorem extOKB_sound (row : Nat) (x : Ext) (h : extOKB row x = true) : extOK row x := by
  cases x with
  | none =>
    simp only [extOKB, Bool.and_eq_true, Bool.not_eq_true', beq_eq_false_iff_ne, ne_eq] at h
    exact ⟨h.1.1, by simpa using h.1.2, h.2⟩
  | cases cs =>
    simp only [extOKB, Bool.and_eq_true, beq_iff_eq, List.all_eq_true] at h
    exact ⟨h.1, fun c hc => ⟨(h.2 c hc).1, identOKB_sound _ (h.2 c hc).2⟩⟩
  | dests n u =>
    simp only [extOKB, Bool.and_eq_true] at h
    exact ⟨by simpa using h.1.1, identOKB_sound _ h.1.2, identOKB_sound _ h.2⟩
  | clauses cl cs =>
    simp only [extOKB, Bool.and_eq_true, beq_iff_eq, List.all_eq_true] at h
    exact ⟨h.1, fun c hc => operandOKB_sound _ (h.2 c hc)⟩

theorem instOKB_sound (i : Inst) (h : instOKB i = true) : instOK i := by
  unfold instOKB at h
  cases hr : rows[i.row]? with
  | none => simp [hr] at h
  | some r =>
    simp only [hr, Bool.and_eq_true, List.all_eq_true, beq_iff_eq] at h
    obtain ⟨⟨⟨⟨⟨hm, ha⟩, hres⟩, hid⟩, hcall⟩, hext⟩ := h
    refine ⟨r, hr, matchesB_sound _ _ hm, fun a ha' => argOKB_sound a (ha a ha'), hres, ?_, hcall, extOKB_sound _ _ hext⟩
    intro id hid'
    cases hres' : i.res with
    | none => simp [hres'] at hid'
    | some id' =>
      simp [hres'] at hid' hid; subst hid'; exact identOKB_sound _ hid

theorem blockOKB_sound (b : Block) (h : blockOKB b = true) : blockOK b := by
  simp only [blockOKB, Bool.and_eq_true, List.all_eq_true, Bool.not_eq_true'] at h
  obtain ⟨⟨⟨hl, hi⟩, ht⟩, htt⟩ := h
  exact ⟨identOKB_sound _ hl, fun i hi' => ⟨instOKB_sound i (hi i hi').1, (hi i hi').2⟩, instOKB_sound _ ht, htt⟩

theorem tailDecl_space : ∀ (its : List HItem), tailDecl its ++ [32] = 32 :: itemsString its
  | [] => rfl
  | it :: its => by
    have ih := tailDecl_space its
    simp only [tailDecl, itemsString, List.cons_append, List.append_assoc]
    rw [ih]; simp

/-- the text of a declaration behind `declare `, which is also the text of the header of a definition behind `define ` and in front of ` {` -/
def sigString (f : Func) : Bytes :=
  flagsString kLead f.lead ++ tyString f.ret ++ [32] ++ Enc.globalName f.name ++ [40] ++ paramsString (zipA f.params f.pattrs) ++ varString f.params.isEmpty f.variadic ++ [41] ++ tailDecl (itemsOf f.tail)

theorem headerString_sig (f : Func) : headerString f = sDefine ++ sigString f ++ [32, 123] := by
  have := tailDecl_space (itemsOf f.tail)
  simp only [headerString, headerRest, sigString, List.append_assoc, List.cons_append, List.nil_append, List.singleton_append]
  congr 6
  have e : tailDecl (itemsOf f.tail) ++ [32, 123] = (tailDecl (itemsOf f.tail) ++ [32]) ++ [123] := by simp
  rw [e, this]; simp

theorem readDecl_print (f : Func) (h : headerOK f) : readDecl (declString f) = some (f.lead, f.ret, f.name, zipA f.params f.pattrs, f.variadic, f.tail) := by
  have e : declString f = sDeclare ++ sigString f := by
    simp [declString, sigString]
  rw [readDecl, e, TyParse.stripPrefix_append]
  simp only
  rw [← headerString_sig f]
  exact readHeader_print f h

theorem tailOK_sound (t : HTail) (h : tailOK t = true) : tailFieldsOK t := by
  simp only [tailOK, Bool.and_eq_true, decide_eq_true_eq, List.all_eq_true] at h
  obtain ⟨⟨⟨h1, h2⟩, h3⟩, h4⟩ := h
  refine ⟨?_, h2, h3, h4⟩
  intro i hi
  simp only [Option.mem_def] at hi
  rw [hi] at h1
  simpa using h1

theorem mdInstOKB_sound (useHex : Int → Bool) (i : Inst) (h : mdInstOKB useHex i = true) : mdOK useHex i := by
  simp only [mdInstOKB, Bool.and_eq_true, List.all_eq_true, Bool.not_eq_true', decide_eq_true_eq, beq_iff_eq] at h
  obtain ⟨⟨⟨h1, h2⟩, h3⟩, h4⟩ := h
  refine ⟨fun a ha => ?_, h2, ?_, ?_⟩
  · have := h1 a ha
    exact ⟨by intro e; rw [e] at this; simp at this, this.2⟩
  · cases he : i.md.isEmpty with
    | true => left; simpa using he
    | false =>
      right
      simpa [he] using h3
  · intro l hl
    simp only [Option.mem_def] at hl
    rw [hl] at h4
    simpa using h4

theorem mdWF_sound (useHex : Int → Bool) (f : Func) (h : mdWF useHex f = true) : ∀ b ∈ f.blocks, blockMdOK useHex b := by
  simp only [mdWF, List.all_eq_true] at h
  intro b hb
  have := h b hb
  simp only [instsOf, List.mem_append, List.mem_singleton] at this
  exact ⟨fun i hi => mdInstOKB_sound useHex i (this i (Or.inl hi)), mdInstOKB_sound useHex _ (this _ (Or.inr rfl))⟩

theorem pattrsOKB_sound (f : Func) (h : pattrsOKB f = true) : f.pattrs.length = f.params.length ∧ ∀ a ∈ f.pattrs, ∀ j ∈ a, j < kParamAttr.length := by
  simp only [pattrsOKB, Bool.and_eq_true, beq_iff_eq, List.all_eq_true, decide_eq_true_eq] at h
  exact h

theorem readFunc_print (useHex : Int → Bool) (f : Func) (h : wfSyn f = true) (hmd : mdWF useHex f = true) : readFunc (printFunc useHex f) = some f := by
  simp only [wfSyn, Bool.and_eq_true] at h
  obtain ⟨h, hpa⟩ := h
  obtain ⟨hlen, hpos⟩ := pattrsOKB_sound f hpa
  have htail : tailFieldsOK f.tail := by
    simp only [wfSyn0, Bool.and_eq_true] at h
    exact tailOK_sound f.tail h.2
  simp only [wfSyn0, leadOK, Bool.and_eq_true, Bool.not_eq_true', List.all_eq_true, decide_eq_true_eq, Option.isNone_iff_eq_none] at h
  obtain ⟨⟨⟨⟨⟨hn, hp⟩, hb⟩, hl, _⟩, hrest⟩, _⟩ := h
  have hname : f.name ≠ [] := by intro e; rw [e] at hn; simp at hn
  have hok : headerOK f := ⟨hname, zipA_ok f.params f.pattrs (fun p hp' => identOKB_sound _ (hp p hp')) hpos, hl, hrest, htail⟩
  have hz1 := zipA_fst f.params f.pattrs
  have hz2 := zipA_snd f.params f.pattrs hlen
  by_cases hbl : f.blocks = []
  · -- a declaration
    obtain ⟨fr, fn, fp, fb, fl, ft, fa, fv⟩ := f
    simp only at hbl hz1 hz2
    subst hbl
    simp only [printFunc, List.isEmpty_nil, if_true, readFunc, readDecl_print _ hok, hz1, hz2]
  · have hh := readHeader_print f hok
    have hbs := readBlocks_print useHex f.blocks hbl (fun b hb' => blockOKB_sound b (hb b hb')) (mdWF_sound useHex f hmd)
      ((blocksLines useHex f.blocks ++ [[125]]).length + 1) (by omega)
    have hemp : f.blocks.isEmpty = false := by simpa using hbl
    simp only [printFunc, hemp, Bool.false_eq_true, if_false]
    -- the body has at least the closing line: the two-or-more-lines branch of `readFunc`
    cases hls : blocksLines useHex f.blocks ++ [[125]] with
    | nil => simp at hls
    | cons l ls =>
      rw [hls] at hbs
      have e : headerString f :: blocksLines useHex f.blocks ++ [[125]] = headerString f :: (l :: ls) := by
        rw [List.cons_append, hls]
      rw [e]
      simp only [readFunc, hh, hbs, hz1, hz2]

/-! ### translation -/

theorem hasDupI_false_iff_nodup : ∀ (l : List Ident), hasDupI l = false ↔ l.Nodup
  | [] => by simp [hasDupI]
  | x :: xs => by
    simp only [hasDupI, Bool.or_eq_false_iff, List.nodup_cons, hasDupI_false_iff_nodup xs]
    constructor
    · rintro ⟨h1, h2⟩; exact ⟨by simpa using h1, h2⟩
    · rintro ⟨h1, h2⟩; exact ⟨by simpa using h1, h2⟩

theorem map_id_of_forall {α : Type} (g : α → α) : ∀ (l : List α), (∀ x ∈ l, g x = x) → l.map g = l
  | [], _ => rfl
  | x :: xs, h => by simp [h x (by simp), map_id_of_forall g xs (fun y hy => h y (by simp [hy]))]

theorem retypeOperand_id (ge : GEnv) (e : List (Ident × Ty)) (t : Ty) (o : Operand) (h : consistentOp ge e t o = true) :
    retypeOperand ge e t o = t := by
  cases o with
  | const c => rfl
  | loc i =>
    simp only [consistentOp] at h
    simp only [retypeOperand]
    cases hl : lookup e i with
    | none => simp
    | some t' =>
      rw [hl] at h
      have := (Props.C16.equal_iff_eq t' t).mp h
      simp [this]
  | glob n =>
    simp only [consistentOp] at h
    simp only [retypeOperand]
    cases hl : lookupG ge n with
    | none => simp
    | some t' =>
      rw [hl] at h
      have := (Props.C16.equal_iff_eq t' t).mp h
      simp [this]

theorem retypeArg_id (ge : GEnv) (e : List (Ident × Ty)) (a : Arg) (h : consistentArg ge e a = true) : retypeArg ge e a = a := by
  cases a with
  | ty t => rfl
  | val o => rfl
  | lab i => rfl
  | phis incs => rfl
  | nums ks => rfl
  | align a => rfl
  | flags xs => rfl
  | kw i => rfl
  | okw o => rfl
  | loc i => rfl
  | pad p => rfl
  | labs l => rfl
  | unwind u => rfl
  | tyvals ixs =>
    simp only [consistentArg, List.all_eq_true] at h
    simp only [retypeArg]
    congr 1
    apply map_id_of_forall
    intro p hp
    obtain ⟨t, o⟩ := p
    simp only [retypeOperand_id ge e t o (h (t, o) hp)]
  | tyval t o =>
    simp only [consistentArg] at h
    simp only [retypeArg, retypeOperand_id ge e t o h]
  | retv v =>
    cases v with
    | none => rfl
    | some p =>
      obtain ⟨t, o⟩ := p
      simp only [consistentArg] at h
      simp only [retypeArg, retypeOperand_id ge e t o h]

theorem retypeExt_id (ge : GEnv) (e : List (Ident × Ty)) (x : Ext) (h : consistentExt ge e x = true) : retypeExt ge e x = x := by
  cases x with
  | clauses cl cs =>
    simp only [consistentExt, List.all_eq_true] at h
    simp only [retypeExt]
    congr 1
    apply map_id_of_forall
    intro c hc
    obtain ⟨fl, t, o⟩ := c
    simp only [retypeOperand_id ge e t o (h (fl, t, o) hc)]
  | _ => rfl

theorem retypeInst_id (ge : GEnv) (e : List (Ident × Ty)) (i : Inst)
    (h : (i.args.all (consistentArg ge e) && consistentExt ge e i.ext) = true) : retypeInst ge e i = i := by
  simp only [Bool.and_eq_true] at h
  unfold retypeInst
  rw [map_id_of_forall (retypeArg ge e) i.args (fun a ha => retypeArg_id ge e a (List.all_eq_true.mp h.1 a ha)), retypeExt_id ge e i.ext h.2]

theorem retype_id (ge : GEnv) (f : Func) (h : consistent ge f = true) : retypeIn ge f = f := by
  unfold retypeIn
  simp only [consistent, List.all_eq_true] at h
  have : f.blocks.map (fun b => { b with insts := b.insts.map (retypeInst ge (env f)), term := retypeInst ge (env f) b.term }) = f.blocks := by
    apply map_id_of_forall
    intro b hb
    have hb' := h b hb
    have hi : b.insts.map (retypeInst ge (env f)) = b.insts :=
      map_id_of_forall _ _ (fun i hi => retypeInst_id _ _ i (hb' i (by simp [instsOf, hi])))
    have ht : retypeInst ge (env f) b.term = b.term := retypeInst_id _ _ _ (hb' b.term (by simp [instsOf]))
    rw [hi, ht]
  show { f with blocks := f.blocks.map (fun b => { b with insts := b.insts.map (retypeInst ge (env f)), term := retypeInst ge (env f) b.term }) } = f
  rw [this]

/-! a well-formed function has no nameless definition: numbering leaves it as it is -/

theorem fillIdent_ok (i : Ident) (s : Numbering.Slot) (h : identOKB i = true) : fillIdent i s = i := by
  cases i <;> simp_all [fillIdent, identOKB]

theorem fillParams_id : ∀ (ps : List (Ty × Ident)) (l : List Numbering.Slot), (∀ p ∈ ps, identOKB p.2 = true) → (fillParams ps l).1 = ps
  | [], _, _ => rfl
  | p :: ps, [], _ => rfl
  | (t, i) :: ps, s :: l, h => by
    simp only [fillParams, fillIdent_ok i s (h (t, i) (by simp)), fillParams_id ps l (fun q hq => h q (by simp [hq]))]

theorem fillInsts_id : ∀ (is : List Inst) (l : List Numbering.Slot), (∀ i ∈ is, ∀ id ∈ i.res, identOKB id = true) → (fillInsts is l).1 = is
  | [], _, _ => rfl
  | i :: is, l, h => by
    unfold fillInsts
    cases hr : i.res with
    | none =>
      simp only [fillInsts_id is l (fun x hx => h x (by simp [hx]))]
    | some id =>
      cases l with
      | nil => rfl
      | cons s l1 =>
        have hid := h i (by simp) id (by simp [hr])
        simp only [fillIdent_ok id s hid, fillInsts_id is l1 (fun x hx => h x (by simp [hx]))]
        obtain ⟨ires, irow, iargs, icases⟩ := i
        simp_all

theorem instOKB_res (i : Inst) (h : instOKB i = true) : ∀ id ∈ i.res, identOKB id = true := by
  intro id hid
  unfold instOKB at h
  cases hr : rows[i.row]? with
  | none => simp [hr] at h
  | some r =>
    simp only [hr, Bool.and_eq_true] at h
    cases hres : i.res with
    | none => simp [hres] at hid
    | some id' => simp [hres] at hid h; subst hid; exact h.1.1.2

theorem fillBlocks_id : ∀ (bs : List Block) (l : List Numbering.Slot), (∀ b ∈ bs, blockOKB b = true) → fillBlocks bs l = bs
  | [], _, _ => rfl
  | b :: bs, [], _ => rfl
  | b :: bs, s :: l, h => by
    have hb := h b (by simp)
    simp only [blockOKB, Bool.and_eq_true, List.all_eq_true] at hb
    obtain ⟨⟨⟨hl, hi⟩, ht⟩, _⟩ := hb
    have h1 := fillInsts_id b.insts l (fun i hi' => instOKB_res i (hi i hi').1)
    have h2 := fillInsts_id [b.term] (fillInsts b.insts l).2 (fun i hi' => by simp at hi'; subst hi'; exact instOKB_res _ ht)
    simp only [fillBlocks, fillIdent_ok b.label s hl, h1, h2, List.headD_cons,
      fillBlocks_id bs _ (fun x hx => h x (by simp [hx]))]

theorem fill_id (f : Func) (l : List Numbering.Slot) (h : wfSyn f = true) : fill f l = f := by
  simp only [wfSyn, Bool.and_eq_true] at h
  replace h := h.1
  simp only [wfSyn0, Bool.and_eq_true, List.all_eq_true] at h
  obtain ⟨⟨⟨⟨⟨_, hp⟩, hb⟩, _⟩, _⟩, _⟩ := h
  unfold fill
  simp only [fillParams_id f.params l hp, fillBlocks_id f.blocks _ hb]

theorem translateIn_wf (ge : GEnv) (f : Func) (hs : wfSyn f = true) (h : wfSemIn ge f = true) : translateIn ge f = some f := by
  simp only [wfSemIn, Bool.and_eq_true, Bool.not_eq_true'] at h
  obtain ⟨⟨⟨⟨⟨⟨⟨⟨hd, hu⟩, hl⟩, hn⟩, hc⟩, ht⟩, hg⟩, hcalls⟩, hpads⟩ := h
  have hlead : leadOK f.lead = true := by
    simp only [wfSyn, wfSyn0, Bool.and_eq_true] at hs
    exact hs.1.1.1.2
  simp only [translateIn, hlead, if_true]
  unfold translateCore
  have hp := Props.C08.parser_accepts_exactly_llvm (slotsOf f) 0
  unfold parseAssign
  rw [hp]
  simp only [hn, if_true, fill_id f _ hs, hd, Bool.false_eq_true, if_false, hu, hl, ht, hg, hcalls, hpads, Bool.and_self, retype_id ge f hc]

theorem translate_wf (f : Func) (hs : wfSyn f = true) (h : wfSem f = true) : translate f = some f := by
  simp only [wfSem, Bool.and_eq_true] at h
  simp only [translate, h.2, if_true]
  exact translateIn_wf (selfEnv f) f hs h.1

end Llir.Core3
