import LlirModel.Flags
namespace Llir.Flags

theorem testBit_orPows (l : List Nat) (j : Nat) : (orPows l).testBit j = l.contains j := by
  induction l with
  | nil => simp [orPows]
  | cons i r ih =>
    simp only [orPows, Nat.testBit_or, ih, Nat.testBit_two_pow, List.contains_cons]
    by_cases h : i = j
    · subst h; simp
    · have : (j == i) = false := by simp; exact fun e => h e.symm
      simp [h, this]

theorem mem_setBits (first last flags j : Nat) :
    j ∈ setBits first last flags ↔ (log2 first ≤ j ∧ j < log2 first + (log2 last + 1 - log2 first)) ∧ flags.testBit j = true := by
  unfold setBits
  simp [List.mem_filter, List.mem_range'_1]

/-- If every set bit of `flags` lies in the loop's range, OR-ing the printed members gives `flags` back. -/
theorem orPows_setBits (first last flags : Nat)
    (h : ∀ j, flags.testBit j = true → log2 first ≤ j ∧ j ≤ log2 last) :
    orPows (setBits first last flags) = flags := by
  apply Nat.eq_of_testBit_eq
  intro j
  rw [testBit_orPows]
  cases hb : flags.testBit j with
  | true =>
    have := h j hb
    have hm : j ∈ setBits first last flags := (mem_setBits _ _ _ _).mpr ⟨⟨this.1, by omega⟩, hb⟩
    simpa using hm
  | false =>
    have hm : ¬ j ∈ setBits first last flags := fun hm => by
      have := ((mem_setBits _ _ _ _).mp hm).2; rw [hb] at this; cases this
    simpa using hm

/-- the printed members are exactly the set bits inside the range (nothing invented) -/
theorem setBits_sound (first last flags j : Nat) (h : j ∈ setBits first last flags) : flags.testBit j = true :=
  ((mem_setBits _ _ _ _).mp h).2

end Llir.Flags
