import LlirModel.FloatLit
namespace Llir.FloatLit

theorem bits_decompose (E M b : Nat) :
    b = (b / 2 ^ (E + M)) * 2 ^ (E + M) + expField E M b * 2 ^ M + fracField M b := by
  unfold expField fracField
  have h1 := Nat.div_add_mod b (2 ^ M)
  have h2 := Nat.div_add_mod (b / 2 ^ M) (2 ^ E)
  have h3 : b / 2 ^ M / 2 ^ E = b / 2 ^ (E + M) := by
    rw [Nat.div_div_eq_div_mul, ← Nat.pow_add, Nat.add_comm]
  have h4 : (2 : Nat) ^ (E + M) = 2 ^ E * 2 ^ M := Nat.pow_add 2 E M
  rw [h3] at h2
  calc b = 2 ^ M * (b / 2 ^ M) + b % 2 ^ M := h1.symm
    _ = 2 ^ M * (2 ^ E * (b / 2 ^ (E + M)) + b / 2 ^ M % 2 ^ E) + b % 2 ^ M := by rw [h2]
    _ = (b / 2 ^ (E + M)) * 2 ^ (E + M) + (b / 2 ^ M % 2 ^ E) * 2 ^ M + b % 2 ^ M := by
      rw [h4, Nat.mul_add, ← Nat.mul_assoc]
      rw [Nat.mul_comm (2 ^ M) (2 ^ E), Nat.mul_comm (2 ^ E * 2 ^ M) _, Nat.mul_comm (2 ^ M) (b / 2 ^ M % 2 ^ E)]

theorem signBits_eq (E M b : Nat) (hb : b < 2 ^ (1 + E + M)) :
    signBits E M (signBit E M b) = (b / 2 ^ (E + M)) * 2 ^ (E + M) := by
  have hlt : b / 2 ^ (E + M) < 2 := by
    rw [Nat.div_lt_iff_lt_mul (Nat.pow_pos (by omega))]
    have : (2 : Nat) ^ (1 + E + M) = 2 ^ (E + M) * 2 := by
      rw [Nat.add_assoc, Nat.add_comm 1, Nat.pow_succ]
    omega
  unfold signBits signBit
  generalize b / 2 ^ (E + M) = q at hlt
  have : q = 0 ∨ q = 1 := by omega
  rcases this with rfl | rfl <;> simp

/-- IEEE interchange formats: every non-NaN bit pattern survives parse-then-print-in-hex unchanged. -/
theorem reprint_id (E M b : Nat) (hb : b < 2 ^ (1 + E + M)) (hnan : isNaNBits E M b = false) :
    reprint E M b = b := by
  have hdec := bits_decompose E M b
  have hs := signBits_eq E M b hb
  have hfr : fracField M b < 2 ^ M := Nat.mod_lt _ (Nat.pow_pos (by omega))
  unfold reprint decode
  simp only
  by_cases hmax : expField E M b = 2 ^ E - 1
  · have hfz : fracField M b = 0 := by
      unfold isNaNBits at hnan
      simp [hmax] at hnan; exact hnan
    simp only [hmax, beq_self_eq_true, if_true, hfz]
    simp only [encode]
    rw [hs]; rw [hmax, hfz] at hdec; omega
  · have hmax' : (expField E M b == 2 ^ E - 1) = false := by simpa using hmax
    simp only [hmax', Bool.false_eq_true, if_false]
    by_cases hz : expField E M b = 0
    · simp only [hz, beq_self_eq_true, if_true]
      by_cases hfz : fracField M b = 0
      · simp only [hfz, beq_self_eq_true, if_true]
        simp only [encode]
        rw [hs]; rw [hz, hfz] at hdec; omega
      · have hfz' : (fracField M b == 0) = false := by simpa using hfz
        simp only [hfz', Bool.false_eq_true, if_false]
        simp only [encode, hfr, if_true]
        rw [hs]; rw [hz] at hdec; omega
    · have hz' : (expField E M b == 0) = false := by simpa using hz
      simp only [hz', Bool.false_eq_true, if_false]
      simp only [encode]
      have hge : ¬ (2 ^ M + fracField M b < 2 ^ M) := by omega
      simp only [hge, if_false]
      have hexp : ((expField E M b : Int) - (bias E : Int) - (M : Int) + (bias E : Int) + (M : Int)).toNat = expField E M b := by
        have : ((expField E M b : Int) - (bias E : Int) - (M : Int) + (bias E : Int) + (M : Int)) = (expField E M b : Int) := by omega
        rw [this]; simp
      rw [hexp, hs]
      have : 2 ^ M + fracField M b - 2 ^ M = fracField M b := by omega
      rw [this]
      exact hdec.symm

/-- A NaN keeps its NaN-ness and its sign, nothing else: it is printed as the canonical quiet NaN. -/
theorem reprint_nan (E M b : Nat) (hnan : isNaNBits E M b = true) :
    reprint E M b = signBits E M (signBit E M b) + (2 ^ E - 1) * 2 ^ M + 2 ^ (M - 1) := by
  unfold isNaNBits at hnan
  simp only [Bool.and_eq_true, beq_iff_eq, bne_iff_ne, ne_eq] at hnan
  unfold reprint decode
  simp [hnan.1, hnan.2, encode]

/-- decoding an encoding assembled from a sign, an exponent field and a significand -/
theorem decode80_mk (s : Bool) (e m : Nat) (he : e < 2 ^ 15) :
    decode80 ((if s then 2 ^ 15 else 0) + e) m =
      (if e == 2 ^ 15 - 1 then (if m == 2 ^ 63 then .inf s else .nan s)
       else if e == 0 then (if m == 0 then .zero s else .fin s m (1 - 16383 - 63))
       else if m < 2 ^ 63 then .nan s
       else .fin s m ((e : Int) - 16383 - 63)) := by
  have h1 : ((if s then 2 ^ 15 else 0) + e) % 2 ^ 15 = e := by
    cases s
    · simp only [Bool.false_eq_true, if_false, Nat.zero_add]; exact Nat.mod_eq_of_lt he
    · simp only [if_true]; rw [Nat.add_mod_left]; exact Nat.mod_eq_of_lt he
  have h2 : (((if s then 2 ^ 15 else 0) + e) / 2 ^ 15 % 2 == 1) = s := by
    cases s
    · have : e / 2 ^ 15 = 0 := Nat.div_eq_of_lt he
      simp only [Bool.false_eq_true, if_false, Nat.zero_add, this]; decide
    · have : (2 ^ 15 + e) / 2 ^ 15 = 1 := by
        rw [Nat.add_div_left _ (by decide), Nat.div_eq_of_lt he]
      simp only [if_true, this]; decide
  unfold decode80
  simp only [h1, h2]

/-- **every encoding**: for every 80-bit pattern — canonical or not (pseudo-denormals, unnormals, pseudo-infinities, pseudo-NaNs) — what is printed denotes,
    read again, the value the pattern was read as -/
theorem reprint80_value (se m : Nat) :
    decode80 (encode80 (decode80 se m)).1 (encode80 (decode80 se m)).2 = decode80 se m := by
  have he : se % 2 ^ 15 < 2 ^ 15 := Nat.mod_lt _ (by decide)
  generalize hs : (se / 2 ^ 15 % 2 == 1) = s
  have hd : decode80 se m =
      (if se % 2 ^ 15 == 2 ^ 15 - 1 then (if m == 2 ^ 63 then .inf s else .nan s)
       else if se % 2 ^ 15 == 0 then (if m == 0 then .zero s else .fin s m (1 - 16383 - 63))
       else if m < 2 ^ 63 then .nan s
       else .fin s m (((se % 2 ^ 15 : Nat) : Int) - 16383 - 63)) := by
    unfold decode80; simp only [hs]
  rw [hd]
  generalize se % 2 ^ 15 = e at he
  have hnan : decode80 (encode80 (.nan s)).1 (encode80 (.nan s)).2 = .nan s := by
    simp only [encode80]
    rw [decode80_mk s (2 ^ 15 - 1) _ (by decide)]
    simp
  by_cases h1 : e = 2 ^ 15 - 1
  · subst h1
    simp only [beq_self_eq_true, if_true]
    by_cases h2 : m = 2 ^ 63
    · subst h2
      simp only [beq_self_eq_true, if_true, encode80]
      rw [decode80_mk s (2 ^ 15 - 1) _ (by decide)]
      simp
    · have : (m == 2 ^ 63) = false := by simpa using h2
      simp only [this, Bool.false_eq_true, if_false]
      exact hnan
  · have h1' : (e == 2 ^ 15 - 1) = false := by simpa using h1
    simp only [h1', Bool.false_eq_true, if_false]
    by_cases h3 : e = 0
    · subst h3
      simp only [beq_self_eq_true, if_true]
      by_cases h4 : m = 0
      · subst h4
        simp only [beq_self_eq_true, if_true, encode80]
        have := decode80_mk s 0 0 (by decide)
        simp only [Nat.add_zero] at this
        rw [this]; simp
      · have h4' : (m == 0) = false := by simpa using h4
        simp only [h4', Bool.false_eq_true, if_false, encode80]
        by_cases h5 : m < 2 ^ 63
        · simp only [h5, if_true]
          have := decode80_mk s 0 m (by decide)
          simp only [Nat.add_zero] at this
          rw [this]; simp [h4']
        · simp only [h5, if_false]
          have e1 : ((1 : Int) - 16383 - 63 + 16383 + 63).toNat = 1 := by decide
          rw [e1, decode80_mk s 1 m (by decide)]
          simp [h5]
    · have h3' : (e == 0) = false := by simpa using h3
      simp only [h3', Bool.false_eq_true, if_false]
      by_cases h5 : m < 2 ^ 63
      · simp only [h5, if_true]; exact hnan
      · simp only [h5, if_false, encode80]
        have e2 : (((e : Nat) : Int) - 16383 - 63 + 16383 + 63).toNat = e := by
          have : (((e : Nat) : Int) - 16383 - 63 + 16383 + 63) = ((e : Nat) : Int) := by omega
          rw [this]; exact Int.toNat_natCast _
        rw [e2, decode80_mk s e m he]
        simp [h1', h3', h5]

end Llir.FloatLit

namespace Llir.FloatLit

/-- x86_fp80: every canonical non-NaN encoding survives unchanged. -/
theorem reprint80_id (se m : Nat) (hc : canonical80 se m = true) (hn : isNaN80 se m = false) :
    encode80 (decode80 se m) = (se, m) := by
  unfold canonical80 at hc
  simp only [Bool.and_eq_true, decide_eq_true_eq] at hc
  obtain ⟨⟨hse, hm⟩, hcan⟩ := hc
  have hdiv : se / 2 ^ 15 < 2 := by
    rw [Nat.div_lt_iff_lt_mul (by decide)]; omega
  have hsplit := Nat.div_add_mod se (2 ^ 15)
  have hsign : (if (se / 2 ^ 15 % 2 == 1) = true then 2 ^ 15 else 0) = 2 ^ 15 * (se / 2 ^ 15) := by
    generalize se / 2 ^ 15 = q at hdiv
    have : q = 0 ∨ q = 1 := by omega
    rcases this with rfl | rfl <;> simp
  unfold decode80
  simp only
  by_cases hmax : se % 2 ^ 15 = 2 ^ 15 - 1
  · have hm63 : m = 2 ^ 63 := by
      unfold isNaN80 at hn
      simp [hmax] at hn; exact hn
    simp only [hmax, beq_self_eq_true, if_true, hm63, encode80]
    rw [hsign]; congr 1; omega
  · have hmax' : (se % 2 ^ 15 == 2 ^ 15 - 1) = false := by simpa using hmax
    simp only [hmax', Bool.false_eq_true, if_false] at hcan ⊢
    by_cases hz : se % 2 ^ 15 = 0
    · simp only [hz, beq_self_eq_true, if_true, decide_eq_true_eq] at hcan ⊢
      by_cases hm0 : m = 0
      · simp only [hm0, beq_self_eq_true, if_true, encode80]
        rw [hsign]; congr 1; omega
      · have hm0' : (m == 0) = false := by simpa using hm0
        simp only [hm0', Bool.false_eq_true, if_false, encode80, hcan, if_true]
        rw [hsign]; congr 1; omega
    · have hz' : (se % 2 ^ 15 == 0) = false := by simpa using hz
      simp only [hz', Bool.false_eq_true, if_false, decide_eq_true_eq] at hcan ⊢
      have hge : ¬ m < 2 ^ 63 := by omega
      simp only [encode80, hge, if_false]
      rw [hsign]
      congr 1
      have : (((se % 2 ^ 15 : Nat) : Int) - 16383 - 63 + 16383 + 63).toNat = se % 2 ^ 15 := by
        have : (((se % 2 ^ 15 : Nat) : Int) - 16383 - 63 + 16383 + 63) = ((se % 2 ^ 15 : Nat) : Int) := by omega
        rw [this]; exact Int.toNat_natCast _
      rw [this]; omega

end Llir.FloatLit
