import LlirProofs.NatsortLemmas
namespace Llir.Natsort
open Llir

theorem key_cons_ne_nil (c : UInt8) (r : Bytes) : key (c :: r) ≠ [] := by
  by_cases h : isDigit c = true
  · rw [key_cons_digit c r h]; simp
  · rw [key_cons_nondigit c r h]; simp

theorem lt_irrefl_tok (t : List Nat) : ¬ t < t := List.lt_irrefl t

/-- `Less` is exactly the lexicographic order on token keys. -/
theorem less_iff_key (a b : Bytes) : less a b = true ↔ key a < key b := by
  induction a, b using less.induct with
  | case1 => simp [less, key]
  | case2 c r =>
    cases h : key (c :: r) with
    | nil => exact absurd h (key_cons_ne_nil c r)
    | cons t ts => simp [less, key]
  | case3 c r => simp [less, key]
  | case4 a as b bs hd n1 n2 hlen =>
    rw [less]; simp only [hd, and_self, dite_true]
    simp only [n1, n2] at hlen
    simp only [hlen, if_true, decide_eq_true_eq]
    rw [key_cons_digit a as hd.1, key_cons_digit b bs hd.2, List.cons_lt_cons_iff, tokNum_lt_iff]
    have hne : (splitNum (a :: as)).2.1.length ≠ (splitNum (b :: bs)).2.1.length := by simpa using hlen
    constructor
    · intro h; left; left; exact h
    · rintro ((h | ⟨h, _⟩) | ⟨h, _⟩)
      · exact h
      · exact absurd h hne
      · exact absurd (congrArg List.length (tokNum_inj _ _ _ _ h).1) hne
  | case5 a as b bs hd n1 n2 hlen hds =>
    rw [less]; simp only [hd, and_self, dite_true]
    simp only [n1, n2] at hlen hds
    simp only [hlen, hds, if_true, if_false, Bool.false_eq_true]
    rw [key_cons_digit a as hd.1, key_cons_digit b bs hd.2, List.cons_lt_cons_iff, tokNum_lt_iff, bytesLt_iff]
    have heq : (splitNum (a :: as)).2.1.length = (splitNum (b :: bs)).2.1.length := by simpa using hlen
    have hne : (splitNum (a :: as)).2.1 ≠ (splitNum (b :: bs)).2.1 := by simpa using hds
    constructor
    · intro h; left; right; exact ⟨heq, Or.inl h⟩
    · rintro ((h | ⟨_, h | ⟨h, _⟩⟩) | ⟨h, _⟩)
      · omega
      · exact h
      · exact absurd h hne
      · exact absurd (tokNum_inj _ _ _ _ h).1 hne
  | case6 a as b bs hd n1 n2 hlen hds hz =>
    rw [less]; simp only [hd, and_self, dite_true]
    simp only [n1, n2] at hlen hds hz
    simp only [hlen, hds, hz, if_true, if_false, Bool.false_eq_true, decide_eq_true_eq]
    rw [key_cons_digit a as hd.1, key_cons_digit b bs hd.2, List.cons_lt_cons_iff, tokNum_lt_iff]
    have heq : (splitNum (a :: as)).2.1.length = (splitNum (b :: bs)).2.1.length := by simpa using hlen
    have hde : (splitNum (a :: as)).2.1 = (splitNum (b :: bs)).2.1 := by simpa using hds
    have hzne : (splitNum (a :: as)).1 ≠ (splitNum (b :: bs)).1 := by simpa using hz
    constructor
    · intro h; left; right; exact ⟨heq, Or.inr ⟨hde, h⟩⟩
    · rintro ((h | ⟨_, h | ⟨_, h⟩⟩) | ⟨h, _⟩)
      · omega
      · rw [hde] at h; exact absurd h (List.lt_irrefl _)
      · exact h
      · exact absurd (tokNum_inj _ _ _ _ h).2 hzne
  | case7 a as b bs hd n1 n2 hlen hds hz _ _ ih =>
    rw [less]; simp only [hd, and_self, dite_true]
    simp only [n1, n2] at hlen hds hz ih
    simp only [hlen, hds, hz, if_false, Bool.false_eq_true]
    rw [key_cons_digit a as hd.1, key_cons_digit b bs hd.2]
    have hde : (splitNum (a :: as)).2.1 = (splitNum (b :: bs)).2.1 := by simpa using hds
    have hze : (splitNum (a :: as)).1 = (splitNum (b :: bs)).1 := by simpa using hz
    rw [hde, hze, List.cons_lt_cons_iff]
    rw [ih]
    constructor
    · intro h; right; exact ⟨rfl, h⟩
    · rintro (h | ⟨_, h⟩)
      · exact absurd h (List.lt_irrefl _)
      · exact h
  | case8 a as b bs hd hne =>
    rw [less]; simp only [hd, dite_false, hne, if_true, decide_eq_true_eq]
    have hab : a ≠ b := by simpa using hne
    have habn : a.toNat ≠ b.toNat := fun h => hab (UInt8.toNat_inj.mp h)
    rw [UInt8.lt_iff_toNat_lt]
    by_cases ha : isDigit a = true
    · have hb : ¬ isDigit b = true := fun hb => hd ⟨ha, hb⟩
      rw [key_cons_digit a as ha, key_cons_nondigit b bs hb, List.cons_lt_cons_iff]
      have ha' := (isDigit_iff a).mp ha
      have hb' := mt (isDigit_iff b).mpr hb
      have hb48 : b.toNat ≠ 48 := by omega
      rw [tokNum_lt_single _ _ _ hb48]
      constructor
      · intro h; left; omega
      · rintro (h | ⟨h, _⟩)
        · omega
        · exact absurd h (tokNum_ne_single _ _ _)
    · by_cases hb : isDigit b = true
      · rw [key_cons_nondigit a as ha, key_cons_digit b bs hb, List.cons_lt_cons_iff]
        have hb' := (isDigit_iff b).mp hb
        have ha' := mt (isDigit_iff a).mpr ha
        have ha48 : a.toNat ≠ 48 := by omega
        rw [single_lt_tokNum _ _ _ ha48]
        constructor
        · intro h; left; omega
        · rintro (h | ⟨h, _⟩)
          · omega
          · exact absurd h.symm (tokNum_ne_single _ _ _)
      · rw [key_cons_nondigit a as ha, key_cons_nondigit b bs hb, List.cons_lt_cons_iff]
        simp only [List.cons_lt_cons_iff, List.cons.injEq, and_true]
        constructor
        · intro h; left; left; exact h
        · rintro ((h | ⟨_, h⟩) | ⟨h, _⟩)
          · exact h
          · simp at h
          · exact absurd h habn
  | case9 a as b bs hd heq ih =>
    rw [less]; simp only [hd, dite_false, heq, if_false]
    have hab : a = b := by simpa using heq
    subst hab
    have ha : ¬ isDigit a = true := fun h => hd ⟨h, h⟩
    simp only [Bool.false_eq_true, if_false]
    rw [key_cons_nondigit a as ha, key_cons_nondigit a bs ha, List.cons_lt_cons_iff, ih]
    constructor
    · intro h; right; exact ⟨rfl, h⟩
    · rintro (h | ⟨_, h⟩)
      · exact absurd h (List.lt_irrefl _)
      · exact h

end Llir.Natsort

namespace Llir.Natsort
open Llir

theorem splitNum_spec (s : Bytes) :
    s = List.replicate (splitNum s).1 48 ++ ((splitNum s).2.1 ++ (splitNum s).2.2) := by
  unfold splitNum
  simp only
  rw [List.takeWhile_append_dropWhile]
  have h1 : s.takeWhile isZero = List.replicate (s.takeWhile isZero).length 48 := by
    rw [List.eq_replicate_iff]
    refine ⟨rfl, ?_⟩
    intro b hb
    have hall := List.all_takeWhile (p := isZero) (l := s)
    rw [List.all_eq_true] at hall
    have := hall b hb
    simpa [isZero] using this
  rw [← h1, List.takeWhile_append_dropWhile]

theorem key_inj : ∀ (n : Nat) (a b : Bytes), a.length ≤ n → key a = key b → a = b := by
  intro n
  induction n with
  | zero =>
    intro a b hl h
    have : a = [] := List.length_eq_zero_iff.mp (by omega)
    subst this
    cases b with
    | nil => rfl
    | cons c r => exact absurd h.symm (by simpa [key] using key_cons_ne_nil c r)
  | succ n ih =>
    intro a b hl h
    cases a with
    | nil =>
      cases b with
      | nil => rfl
      | cons c r => exact absurd h.symm (by simpa [key] using key_cons_ne_nil c r)
    | cons c r =>
      cases b with
      | nil => exact absurd h (by simpa [key] using key_cons_ne_nil c r)
      | cons c' r' =>
        by_cases hc : isDigit c = true
        · by_cases hc' : isDigit c' = true
          · rw [key_cons_digit c r hc, key_cons_digit c' r' hc'] at h
            simp only [List.cons.injEq] at h
            obtain ⟨ht, hk⟩ := h
            obtain ⟨hd, hz⟩ := tokNum_inj _ _ _ _ ht
            have hlt := splitNum_rest_lt c r hc
            have hrest := ih _ _ (by simp only [List.length_cons] at hl hlt; omega) hk
            rw [splitNum_spec (c :: r), splitNum_spec (c' :: r'), hd, hz, hrest]
          · rw [key_cons_digit c r hc, key_cons_nondigit c' r' hc'] at h
            simp only [List.cons.injEq] at h
            exact absurd h.1 (tokNum_ne_single _ _ _)
        · by_cases hc' : isDigit c' = true
          · rw [key_cons_nondigit c r hc, key_cons_digit c' r' hc'] at h
            simp only [List.cons.injEq] at h
            exact absurd h.1.symm (tokNum_ne_single _ _ _)
          · rw [key_cons_nondigit c r hc, key_cons_nondigit c' r' hc'] at h
            simp only [List.cons.injEq, and_true] at h
            have h1 : c = c' := UInt8.toNat_inj.mp h.1
            have h2 := ih r r' (by simp only [List.length_cons] at hl; omega) h.2
            rw [h1, h2]

theorem key_injective (a b : Bytes) (h : key a = key b) : a = b := key_inj a.length a b (Nat.le_refl _) h

end Llir.Natsort
