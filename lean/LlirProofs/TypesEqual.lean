import LlirProofs.TypesLemmas
namespace Llir.Types
open Llir

theorem equal_ptr_left (e : Ty) (as : Nat) (u : Ty) : equal (.ptr e as) u = (tyString (.ptr e as) == tyString u) := by
  cases u <;> simp [equal]

theorem equal_ptr_nonptr (e : Ty) (as : Nat) (u : Ty) (h : isPtr u = false) : equal (.ptr e as) u = false := by
  rw [equal_ptr_left]
  have := tyString_ne_of_ptr_nonptr e as u h
  simpa using this

theorem equal_nonptr_ptr (t : Ty) (e : Ty) (as : Nat) (h : isPtr t = false) : equal t (.ptr e as) = false := by
  cases t <;> simp [equal, isPtr] at *

mutual
theorem equal_refl : ∀ t : Ty, equal t t = true
  | .void => by simp [equal]
  | .mmx => by simp [equal]
  | .label => by simp [equal]
  | .token => by simp [equal]
  | .metadata => by simp [equal]
  | .int w => by simp [equal]
  | .float k => by simp [equal]
  | .ptr e as => by rw [equal_ptr_left]; simp
  | .vec s n e => by simp [equal, equal_refl e]
  | .arr n e => by simp [equal, equal_refl e]
  | .struct p fs => by simp [equal, equalList_refl fs]
  | .named n => by simp [equal]
  | .func r ps v => by simp [equal, equal_refl r, equalList_refl ps]
theorem equalList_refl : ∀ ts : TyList, equalList ts ts = true
  | .nil => by simp [equalList]
  | .cons t ts => by simp [equalList, equal_refl t, equalList_refl ts]
end

mutual
theorem equal_symm : ∀ (t u : Ty), equal t u = equal u t
  | .ptr e as, u => by
    cases hu : isPtr u with
    | true =>
      cases u <;> simp [isPtr] at hu
      rw [equal_ptr_left, equal_ptr_left]; exact Bool.beq_comm
    | false => rw [equal_ptr_nonptr e as u hu, equal_nonptr_ptr u e as hu]
  | .void, u => by
    cases u with
    | ptr e' as' => rw [equal_nonptr_ptr _ _ _ rfl, equal_ptr_nonptr _ _ _ rfl]
    | _ => simp [equal]
  | .mmx, u => by
    cases u with
    | ptr e' as' => rw [equal_nonptr_ptr _ _ _ rfl, equal_ptr_nonptr _ _ _ rfl]
    | _ => simp [equal]
  | .label, u => by
    cases u with
    | ptr e' as' => rw [equal_nonptr_ptr _ _ _ rfl, equal_ptr_nonptr _ _ _ rfl]
    | _ => simp [equal]
  | .token, u => by
    cases u with
    | ptr e' as' => rw [equal_nonptr_ptr _ _ _ rfl, equal_ptr_nonptr _ _ _ rfl]
    | _ => simp [equal]
  | .metadata, u => by
    cases u with
    | ptr e' as' => rw [equal_nonptr_ptr _ _ _ rfl, equal_ptr_nonptr _ _ _ rfl]
    | _ => simp [equal]
  | .int w, u => by
    cases u with
    | ptr e' as' => rw [equal_nonptr_ptr _ _ _ rfl, equal_ptr_nonptr _ _ _ rfl]
    | int w' => simp only [equal]; exact Bool.beq_comm
    | _ => simp [equal]
  | .float k, u => by
    cases u with
    | ptr e' as' => rw [equal_nonptr_ptr _ _ _ rfl, equal_ptr_nonptr _ _ _ rfl]
    | float k' => simp only [equal]; exact Bool.beq_comm
    | _ => simp [equal]
  | .named n, u => by
    cases u with
    | ptr e' as' => rw [equal_nonptr_ptr _ _ _ rfl, equal_ptr_nonptr _ _ _ rfl]
    | named n' => simp only [equal]; exact Bool.beq_comm
    | _ => simp [equal]
  | .vec s n e, u => by
    cases u with
    | vec s' n' e' => simp only [equal]; rw [equal_symm e e', Bool.beq_comm (a := s), Bool.beq_comm (a := n)]
    | ptr e' as' => rw [equal_nonptr_ptr _ _ _ rfl, equal_ptr_nonptr _ _ _ rfl]
    | _ => simp [equal]
  | .arr n e, u => by
    cases u with
    | arr n' e' => simp only [equal]; rw [equal_symm e e', Bool.beq_comm (a := n)]
    | ptr e' as' => rw [equal_nonptr_ptr _ _ _ rfl, equal_ptr_nonptr _ _ _ rfl]
    | _ => simp [equal]
  | .struct p fs, u => by
    cases u with
    | struct p' fs' => simp only [equal]; rw [equalList_symm fs fs', Bool.beq_comm (a := p)]
    | ptr e' as' => rw [equal_nonptr_ptr _ _ _ rfl, equal_ptr_nonptr _ _ _ rfl]
    | _ => simp [equal]
  | .func r ps v, u => by
    cases u with
    | func r' ps' v' => simp only [equal]; rw [equal_symm r r', equalList_symm ps ps', Bool.beq_comm (a := v)]
    | ptr e' as' => rw [equal_nonptr_ptr _ _ _ rfl, equal_ptr_nonptr _ _ _ rfl]
    | _ => simp [equal]
theorem equalList_symm : ∀ (ts us : TyList), equalList ts us = equalList us ts
  | .nil, .nil => rfl
  | .nil, .cons _ _ => by simp [equalList]
  | .cons _ _, .nil => by simp [equalList]
  | .cons t ts, .cons u us => by simp only [equalList]; rw [equal_symm t u, equalList_symm ts us]
end

end Llir.Types

namespace Llir.Types
open Llir

theorem inv_void (u : Ty) (h : equal .void u = true) : u = .void := by cases u <;> simp [equal] at h ⊢
theorem inv_mmx (u : Ty) (h : equal .mmx u = true) : u = .mmx := by cases u <;> simp [equal] at h ⊢
theorem inv_label (u : Ty) (h : equal .label u = true) : u = .label := by cases u <;> simp [equal] at h ⊢
theorem inv_token (u : Ty) (h : equal .token u = true) : u = .token := by cases u <;> simp [equal] at h ⊢
theorem inv_metadata (u : Ty) (h : equal .metadata u = true) : u = .metadata := by cases u <;> simp [equal] at h ⊢
theorem inv_int (w : Nat) (u : Ty) (h : equal (.int w) u = true) : u = .int w := by
  cases u <;> simp [equal] at h ⊢; exact h.symm
theorem inv_float (k : Nat) (u : Ty) (h : equal (.float k) u = true) : u = .float k := by
  cases u <;> simp [equal] at h ⊢; exact h.symm
theorem inv_named (n : Bytes) (u : Ty) (h : equal (.named n) u = true) : u = .named n := by
  cases u <;> simp [equal] at h ⊢; exact h.symm
theorem inv_vec (s : Bool) (n : Nat) (e u : Ty) (h : equal (.vec s n e) u = true) :
    ∃ e', u = .vec s n e' ∧ equal e e' = true := by
  cases u <;> simp [equal] at h
  rename_i s' n' e'
  exact ⟨e', by rw [h.1.1, h.1.2], h.2⟩
theorem inv_arr (n : Nat) (e u : Ty) (h : equal (.arr n e) u = true) :
    ∃ e', u = .arr n e' ∧ equal e e' = true := by
  cases u <;> simp [equal] at h
  rename_i n' e'
  exact ⟨e', by rw [h.1], h.2⟩
theorem inv_struct (p : Bool) (fs : TyList) (u : Ty) (h : equal (.struct p fs) u = true) :
    ∃ fs', u = .struct p fs' ∧ equalList fs fs' = true := by
  cases u <;> simp [equal] at h
  rename_i p' fs'
  exact ⟨fs', by rw [h.1], h.2⟩
theorem inv_func (r : Ty) (ps : TyList) (v : Bool) (u : Ty) (h : equal (.func r ps v) u = true) :
    ∃ r' ps', u = .func r' ps' v ∧ equal r r' = true ∧ equalList ps ps' = true := by
  cases u <;> simp [equal] at h
  rename_i r' ps' v'
  exact ⟨r', ps', by rw [h.2], h.1.1, h.1.2⟩
theorem inv_ptr (e : Ty) (as : Nat) (u : Ty) (h : equal (.ptr e as) u = true) :
    tyString (.ptr e as) = tyString u ∧ isPtr u = true := by
  rw [equal_ptr_left] at h
  have hs : tyString (.ptr e as) = tyString u := by simpa using h
  refine ⟨hs, ?_⟩
  cases hp : isPtr u with
  | true => rfl
  | false => exact absurd hs (tyString_ne_of_ptr_nonptr e as u hp)
theorem inv_cons (t : Ty) (ts us : TyList) (h : equalList (.cons t ts) us = true) :
    ∃ u us', us = .cons u us' ∧ equal t u = true ∧ equalList ts us' = true := by
  cases us with
  | nil => simp [equalList] at h
  | cons u us' => simp [equalList] at h; exact ⟨u, us', rfl, h.1, h.2⟩
theorem inv_nil (us : TyList) (h : equalList .nil us = true) : us = .nil := by
  cases us <;> simp [equalList] at h ⊢

mutual
theorem equal_trans : ∀ (a b c : Ty), equal a b = true → equal b c = true → equal a c = true
  | .void, b, c, h₁, h₂ => by rw [inv_void b h₁] at h₂; rw [inv_void c h₂]; exact equal_refl _
  | .mmx, b, c, h₁, h₂ => by rw [inv_mmx b h₁] at h₂; rw [inv_mmx c h₂]; exact equal_refl _
  | .label, b, c, h₁, h₂ => by rw [inv_label b h₁] at h₂; rw [inv_label c h₂]; exact equal_refl _
  | .token, b, c, h₁, h₂ => by rw [inv_token b h₁] at h₂; rw [inv_token c h₂]; exact equal_refl _
  | .metadata, b, c, h₁, h₂ => by rw [inv_metadata b h₁] at h₂; rw [inv_metadata c h₂]; exact equal_refl _
  | .int w, b, c, h₁, h₂ => by rw [inv_int w b h₁] at h₂; rw [inv_int w c h₂]; exact equal_refl _
  | .float k, b, c, h₁, h₂ => by rw [inv_float k b h₁] at h₂; rw [inv_float k c h₂]; exact equal_refl _
  | .named n, b, c, h₁, h₂ => by rw [inv_named n b h₁] at h₂; rw [inv_named n c h₂]; exact equal_refl _
  | .ptr e as, b, c, h₁, h₂ => by
    obtain ⟨hs, hp⟩ := inv_ptr e as b h₁
    cases b <;> simp [isPtr] at hp
    rename_i e' as'
    obtain ⟨hs', _⟩ := inv_ptr e' as' c h₂
    rw [equal_ptr_left, hs, hs']; simp
  | .vec s n e, b, c, h₁, h₂ => by
    obtain ⟨e', rfl, he⟩ := inv_vec s n e b h₁
    obtain ⟨e'', rfl, he'⟩ := inv_vec s n e' c h₂
    simp [equal, equal_trans e e' e'' he he']
  | .arr n e, b, c, h₁, h₂ => by
    obtain ⟨e', rfl, he⟩ := inv_arr n e b h₁
    obtain ⟨e'', rfl, he'⟩ := inv_arr n e' c h₂
    simp [equal, equal_trans e e' e'' he he']
  | .struct p fs, b, c, h₁, h₂ => by
    obtain ⟨fs', rfl, hf⟩ := inv_struct p fs b h₁
    obtain ⟨fs'', rfl, hf'⟩ := inv_struct p fs' c h₂
    simp [equal, equalList_trans fs fs' fs'' hf hf']
  | .func r ps v, b, c, h₁, h₂ => by
    obtain ⟨r', ps', rfl, hr, hp⟩ := inv_func r ps v b h₁
    obtain ⟨r'', ps'', rfl, hr', hp'⟩ := inv_func r' ps' v c h₂
    simp [equal, equal_trans r r' r'' hr hr', equalList_trans ps ps' ps'' hp hp']
theorem equalList_trans : ∀ (a b c : TyList), equalList a b = true → equalList b c = true → equalList a c = true
  | .nil, b, c, h₁, h₂ => by rw [inv_nil b h₁] at h₂; rw [inv_nil c h₂]; rfl
  | .cons t ts, b, c, h₁, h₂ => by
    obtain ⟨u, us, rfl, ht, hts⟩ := inv_cons t ts b h₁
    obtain ⟨w, ws, rfl, hu, hus⟩ := inv_cons u us c h₂
    simp [equalList, equal_trans t u w ht hu, equalList_trans ts us ws hts hus]
end

/-- injectivity of the type printer (the fact `PointerType.Equal` silently relies on) -/
def StrInj : Prop := ∀ a b : Ty, tyString a = tyString b → a = b

mutual
theorem eq_of_equal (hinj : StrInj) : ∀ (t u : Ty), equal t u = true → t = u
  | .void, u, h => (inv_void u h).symm
  | .mmx, u, h => (inv_mmx u h).symm
  | .label, u, h => (inv_label u h).symm
  | .token, u, h => (inv_token u h).symm
  | .metadata, u, h => (inv_metadata u h).symm
  | .int w, u, h => (inv_int w u h).symm
  | .float k, u, h => (inv_float k u h).symm
  | .named n, u, h => (inv_named n u h).symm
  | .ptr e as, u, h => hinj _ _ (inv_ptr e as u h).1
  | .vec s n e, u, h => by
    obtain ⟨e', rfl, he⟩ := inv_vec s n e u h
    rw [eq_of_equal hinj e e' he]
  | .arr n e, u, h => by
    obtain ⟨e', rfl, he⟩ := inv_arr n e u h
    rw [eq_of_equal hinj e e' he]
  | .struct p fs, u, h => by
    obtain ⟨fs', rfl, hf⟩ := inv_struct p fs u h
    rw [eqList_of_equalList hinj fs fs' hf]
  | .func r ps v, u, h => by
    obtain ⟨r', ps', rfl, hr, hp⟩ := inv_func r ps v u h
    rw [eq_of_equal hinj r r' hr, eqList_of_equalList hinj ps ps' hp]
theorem eqList_of_equalList (hinj : StrInj) : ∀ (ts us : TyList), equalList ts us = true → ts = us
  | .nil, us, h => (inv_nil us h).symm
  | .cons t ts, us, h => by
    obtain ⟨u, us', rfl, ht, hts⟩ := inv_cons t ts us h
    rw [eq_of_equal hinj t u ht, eqList_of_equalList hinj ts us' hts]
end

end Llir.Types
