import LlirModel.Core2
import LlirProofs.TyParseMain
import LlirProofs.Props.C09
/-! `parseConst` inverts `constIdent`: helper lemmas and the round-trip theorem. -/
namespace Llir.Core2
open Llir Llir.Types Llir.Digits Llir.IntLit

theorem digitChar10_tok : ∀ d, d < 10 → isTokChar (digitChar d) = true := by decide
theorem digitCharUpper16_tok : ∀ d, d < 16 → isTokChar (digitCharUpper d) = true := by decide

theorem natText10_tok (n : Nat) : ∀ c ∈ natText 10 n, isTokChar c = true := by
  intro c hc
  unfold natText at hc
  simp only [List.mem_map, List.mem_reverse] at hc
  obtain ⟨d, hd, rfl⟩ := hc
  exact digitChar10_tok d (Digits.digitsRev_lt 10 (by omega) n d hd)

theorem natTextUpper16_tok (n : Nat) : ∀ c ∈ natTextUpper 16 n, isTokChar c = true := by
  intro c hc
  unfold natTextUpper at hc
  simp only [List.mem_map, List.mem_reverse] at hc
  obtain ⟨d, hd, rfl⟩ := hc
  exact digitCharUpper16_tok d (Digits.digitsRev_lt 16 (by omega) n d hd)

/-- shape of a printed integer literal -/
inductive LitShape : Bytes → Prop
  | tru : LitShape pfxTrue
  | fls : LitShape pfxFalse
  | hex (n : Nat) : LitShape (pfxU0x ++ natTextUpper 16 n)
  | dec (z : Int) : LitShape (intText 10 z)

theorem intLit_shape (useHex : Int → Bool) (w : Nat) (x : Int) : LitShape (intLit useHex w x) := by
  unfold intLit identIntWith
  by_cases h0 : (w == 1 && x == 0) = true
  · simp only [h0, if_true]; exact .fls
  · simp only [h0, Bool.false_eq_true, if_false]
    by_cases h1 : (w == 1 && x == 1) = true
    · simp only [h1, if_true]; exact .tru
    · simp only [h1, Bool.false_eq_true, if_false]
      by_cases hx : (decide (x ≥ 4096) && useHex x) = true
      · simp only [hx, if_true]; exact .hex _
      · simp only [hx, Bool.false_eq_true, if_false]; exact .dec _

theorem intText10_tok (z : Int) : ∀ c ∈ intText 10 z, isTokChar c = true := by
  intro c hc
  unfold intText at hc
  by_cases hz : z < 0
  · simp only [hz, if_true, List.mem_cons] at hc
    rcases hc with rfl | hc
    · decide
    · exact natText10_tok _ c hc
  · simp only [hz, if_false] at hc
    exact natText10_tok _ c hc

theorem lit_tok (s : Bytes) (h : LitShape s) : ∀ c ∈ s, isTokChar c = true := by
  cases h with
  | tru => decide
  | fls => decide
  | hex n =>
    intro c hc
    simp only [List.mem_append] at hc
    rcases hc with hc | hc
    · revert c; decide
    · exact natTextUpper16_tok n c hc
  | dec z => exact intText10_tok z

/-- first byte of a printed integer literal: a digit, `-`, `u`, `t` or `f` -/
def litHead (c : UInt8) : Bool := isDigit c || c == 45 || c == 117 || c == 116 || c == 102

theorem digitChar10_litHead : ∀ d, d < 10 → litHead (digitChar d) = true := by decide

theorem lit_head (s : Bytes) (h : LitShape s) : ∃ c r, s = c :: r ∧ litHead c = true := by
  cases h with
  | tru => exact ⟨_, _, rfl, by decide⟩
  | fls => exact ⟨_, _, rfl, by decide⟩
  | hex n => exact ⟨117, _, rfl, by decide⟩
  | dec z =>
    unfold intText
    by_cases hz : z < 0
    · exact ⟨45, natText 10 z.natAbs, by simp [hz], by decide⟩
    · obtain ⟨d, r, hd, heq⟩ := render_head 10 (by omega) digitChar z.natAbs
      exact ⟨digitChar d, r, by simp [hz, natText, heq], digitChar10_litHead d hd⟩

theorem lit_ne_keywords (s : Bytes) (h : LitShape s) : (s == sZero) = false ∧ (s == sNull) = false ∧ (s == sUndef) = false := by
  cases h with
  | tru => decide
  | fls => decide
  | hex n => simp [pfxU0x, sZero, sNull, sUndef]
  | dec z =>
    obtain ⟨c, r, heq, hh⟩ := lit_head _ (.dec z)
    have hne : c ≠ 122 ∧ c ≠ 110 ∧ c ≠ 117 := by
      obtain ⟨c', r', heq', h1, h2, h3, h4⟩ := intText10_head z
      rw [heq] at heq'; injection heq' with hc _; subst hc
      refine ⟨?_, ?_, h3⟩
      · intro e; subst e; simp [litHead, isDigit] at hh
      · intro e; subst e; simp [litHead, isDigit] at hh
    rw [heq]
    simp [sZero, sNull, sUndef, hne.1, hne.2.1, hne.2.2]


theorem parseConst_word (f : Nat) (t : Ty) (c : UInt8) (rest : Bytes) (h1 : c ≠ 123) (h2 : c ≠ 91) (h3 : c ≠ 60) :
    parseConst (f + 1) t (c :: rest) = wordBranch t (c :: rest) := by
  simp [parseConst, h1, h2, h3]

/-- continuation after a constant: end of input, newline, `,`, ` }`, `]`, `>` — never a word character -/
def stopC (r : Bytes) : Bool :=
  match r with
  | [] => true
  | c :: _ => c == 10 || c == 44 || c == 32 || c == 93 || c == 62 || c == 125

theorem stopC_not_tok (r : Bytes) (h : stopC r = true) : ∀ c ∈ r.head?, isTokChar c = false := by
  intro c hc
  cases r with
  | nil => simp at hc
  | cons a r =>
    simp only [List.head?_cons, Option.mem_def, Option.some.injEq] at hc; subst hc
    simp only [stopC, Bool.or_eq_true, beq_iff_eq] at h
    rcases h with ((((h | h) | h) | h) | h) | h <;> subst h <;> decide

theorem word_split (tok r : Bytes) (ht : ∀ c ∈ tok, isTokChar c = true) (hr : stopC r = true) :
    (tok ++ r).takeWhile isTokChar = tok ∧ (tok ++ r).dropWhile isTokChar = r :=
  TyParse.takeWhile_append_stop isTokChar tok r ht (stopC_not_tok r hr)

theorem read_int (useHex : Int → Bool) (f : Nat) (t : Ty) (x : Int) (r : Bytes) (hr : stopC r = true) :
    parseConst (f + 1) t (intLit useHex (intWidth t) x ++ r) = some (.int x, r) := by
  have hs := intLit_shape useHex (intWidth t) x
  obtain ⟨c, rest, heq, hh⟩ := lit_head _ hs
  have hne : c ≠ 123 ∧ c ≠ 91 ∧ c ≠ 60 := by
    refine ⟨?_, ?_, ?_⟩ <;> (intro e; subst e; simp [litHead, isDigit] at hh)
  obtain ⟨hk1, hk2, hk3⟩ := lit_ne_keywords _ hs
  obtain ⟨w1, w2⟩ := word_split _ r (lit_tok _ hs) hr
  have hparse : IntLit.newIntFromString (intWidth t) (intLit useHex (intWidth t) x) = .ok x := by
    obtain ⟨s, hs1, hs2⟩ := Props.C09.ident_roundtrip (intWidth t) x (useHex x)
    unfold intLit; rw [hs1]; exact hs2
  have e : intLit useHex (intWidth t) x ++ r = c :: (rest ++ r) := by rw [heq]; rfl
  rw [e, parseConst_word f t c _ hne.1 hne.2.1 hne.2.2, ← e]
  unfold wordBranch
  simp only [w1, w2, hk1, hk2, hk3, Bool.false_eq_true, if_false, hparse]

theorem read_zero (f : Nat) (t : Ty) (r : Bytes) (hr : stopC r = true) :
    parseConst (f + 1) t (sZero ++ r) = some (.zero, r) := by
  obtain ⟨w1, w2⟩ := word_split sZero r (by decide) hr
  have e : sZero ++ r = 122 :: ([101, 114, 111, 105, 110, 105, 116, 105, 97, 108, 105, 122, 101, 114] ++ r) := rfl
  rw [e, parseConst_word f t 122 _ (by decide) (by decide) (by decide), ← e]
  unfold wordBranch
  simp [w1, w2]

theorem read_null (f : Nat) (t : Ty) (r : Bytes) (hr : stopC r = true) :
    parseConst (f + 1) t (sNull ++ r) = some (.null, r) := by
  obtain ⟨w1, w2⟩ := word_split sNull r (by decide) hr
  have e : sNull ++ r = 110 :: ([117, 108, 108] ++ r) := rfl
  rw [e, parseConst_word f t 110 _ (by decide) (by decide) (by decide), ← e]
  unfold wordBranch
  have : (sNull == sZero) = false := by decide
  simp [w1, w2, this]

theorem read_undef (f : Nat) (t : Ty) (r : Bytes) (hr : stopC r = true) :
    parseConst (f + 1) t (sUndef ++ r) = some (.undef, r) := by
  obtain ⟨w1, w2⟩ := word_split sUndef r (by decide) hr
  have e : sUndef ++ r = 117 :: ([110, 100, 101, 102] ++ r) := rfl
  rw [e, parseConst_word f t 117 _ (by decide) (by decide) (by decide), ← e]
  unfold wordBranch
  have h1 : (sUndef == sZero) = false := by decide
  have h2 : (sUndef == sNull) = false := by decide
  simp [w1, w2, h1, h2]


/-! ### aggregates -/

mutual
def csize : Const → Nat
  | .struct _ fs => clsize fs + 1
  | .arr es => clsize es + 1
  | .vec es => clsize es + 1
  | _ => 1
def clsize : CList → Nat
  | .nil => 0
  | .cons _ c rest => csize c + clsize rest + 1
end

theorem const_head (useHex : Int → Bool) (t : Ty) (c : Const) :
    ∃ h rest, constIdent useHex t c = h :: rest ∧ h ≠ 97 ∧ h ≠ 40 := by
  cases c with
  | int x =>
    obtain ⟨h, rest, heq, hh⟩ := lit_head _ (intLit_shape useHex (intWidth t) x)
    refine ⟨h, rest, by simp [constIdent, heq], ?_, ?_⟩ <;> (intro e; subst e; simp [litHead, isDigit] at hh)
  | zero => exact ⟨_, _, rfl, by decide, by decide⟩
  | null => exact ⟨_, _, rfl, by decide, by decide⟩
  | undef => exact ⟨_, _, rfl, by decide, by decide⟩
  | struct p fs =>
    cases fs with
    | nil => cases p <;> exact ⟨_, _, rfl, by decide, by decide⟩
    | cons t1 c1 rest =>
      cases p
      · exact ⟨123, 32 :: (clistString useHex (.cons t1 c1 rest) ++ [32, 125]), by simp [constIdent], by decide, by decide⟩
      · exact ⟨60, 123 :: 32 :: (clistString useHex (.cons t1 c1 rest) ++ [32, 125, 62]), by simp [constIdent], by decide, by decide⟩
  | arr es => exact ⟨91, clistString useHex es ++ [93], by simp [constIdent], by decide, by decide⟩
  | vec es => exact ⟨60, clistString useHex es ++ [62], by simp [constIdent], by decide, by decide⟩

def stopL2 (r : Bytes) : Bool :=
  match r with
  | 32 :: 125 :: _ => true
  | 93 :: _ => true
  | 62 :: _ => true
  | _ => false

theorem stopL2_stopC (r : Bytes) (h : stopL2 r = true) : stopC r = true := by
  unfold stopL2 at h
  split at h <;> simp_all [stopC]

theorem clistString_cons_head (useHex : Int → Bool) (t : Ty) (c : Const) (rest : CList) :
    ∃ h tl, clistString useHex (.cons t c rest) = h :: tl ∧ (tyString t).head? = some h ∧ TyParse.tyStart h = true := by
  obtain ⟨h, tl, heq, hs⟩ := TyParse.tyString_head t
  cases rest with
  | nil => exact ⟨h, tl ++ 32 :: constIdent useHex t c, by simp [clistString, heq], by simp [heq], hs⟩
  | cons t' c' r' => exact ⟨h, tl ++ 32 :: (constIdent useHex t c ++ (sComma ++ clistString useHex (.cons t' c' r'))), by simp [clistString, heq], by simp [heq], hs⟩

/-- one element `T V` followed by `tail` -/
theorem elem_step (useHex : Int → Bool) (t : Ty) (c : Const) (tail : Bytes) :
    TyParse.parseTy (tyFuel (tyString t ++ 32 :: (constIdent useHex t c ++ tail))) (tyString t ++ 32 :: (constIdent useHex t c ++ tail))
      = some (t, 32 :: (constIdent useHex t c ++ tail)) := by
  obtain ⟨h, rest, heq, h97, h40⟩ := const_head useHex t c
  apply TyParse.parseTy_tyString_gen
  · simp [TyParse.cont]
  · rw [heq]; simp [TyParse.stopG, h97, h40]
  · have := TyParse.w_le_len t
    unfold tyFuel; simp only [List.length_append]; omega


theorem clist_last (useHex : Int → Bool) (f : Nat) (t : Ty) (c : Const) (r : Bytes) (hr : stopL2 r = true)
    (hc : parseConst f t (constIdent useHex t c ++ r) = some (c, r)) :
    parseCList (f + 1) (clistString useHex (.cons t c .nil) ++ r) = some (.cons t c .nil, r) := by
  have e : clistString useHex (.cons t c .nil) ++ r = tyString t ++ 32 :: (constIdent useHex t c ++ r) := by
    simp [clistString]
  rw [e, parseCList, elem_step useHex t c r]
  simp only [hc]
  unfold stopL2 at hr
  split at hr <;> first | rfl | cases hr
  all_goals simp_all

theorem clist_more (useHex : Int → Bool) (f : Nat) (t : Ty) (c : Const) (t' : Ty) (c' : Const) (rest : CList) (r : Bytes)
    (hc : parseConst f t (constIdent useHex t c ++ (sComma ++ (clistString useHex (.cons t' c' rest) ++ r)))
      = some (c, sComma ++ (clistString useHex (.cons t' c' rest) ++ r)))
    (hl : parseCList f (clistString useHex (.cons t' c' rest) ++ r) = some (.cons t' c' rest, r)) :
    parseCList (f + 1) (clistString useHex (.cons t c (.cons t' c' rest)) ++ r) = some (.cons t c (.cons t' c' rest), r) := by
  have e : clistString useHex (.cons t c (.cons t' c' rest)) ++ r =
      tyString t ++ 32 :: (constIdent useHex t c ++ (sComma ++ (clistString useHex (.cons t' c' rest) ++ r))) := by
    simp [clistString]
  rw [e, parseCList, elem_step useHex t c _]
  simp only [hc]
  simp [sComma, hl]


theorem tyStart_ne (h : UInt8) (hs : TyParse.tyStart h = true) : h ≠ 93 ∧ h ≠ 62 ∧ h ≠ 125 ∧ h ≠ 32 := by
  simp only [TyParse.tyStart, Bool.and_eq_true, bne_iff_ne, ne_eq] at hs
  exact ⟨hs.1.2, hs.1.1.2, hs.2, hs.1.1.1.1.1.2⟩

mutual
/-- **Round trip of constants**: the reader returns exactly the constant that was printed. -/
theorem read_const (useHex : Int → Bool) : ∀ (c : Const) (f : Nat) (t : Ty) (r : Bytes),
    stopC r = true → csize c ≤ f → cwf c = true → parseConst f t (constIdent useHex t c ++ r) = some (c, r)
  | .int x, f, t, r, hr, hf, _ => by
    obtain ⟨f', rfl⟩ : ∃ f', f = f' + 1 := ⟨f - 1, by simp [csize] at hf; omega⟩
    simpa [constIdent] using read_int useHex f' t x r hr
  | .zero, f, t, r, hr, hf, _ => by
    obtain ⟨f', rfl⟩ : ∃ f', f = f' + 1 := ⟨f - 1, by simp [csize] at hf; omega⟩
    simpa [constIdent] using read_zero f' t r hr
  | .null, f, t, r, hr, hf, _ => by
    obtain ⟨f', rfl⟩ : ∃ f', f = f' + 1 := ⟨f - 1, by simp [csize] at hf; omega⟩
    simpa [constIdent] using read_null f' t r hr
  | .undef, f, t, r, hr, hf, _ => by
    obtain ⟨f', rfl⟩ : ∃ f', f = f' + 1 := ⟨f - 1, by simp [csize] at hf; omega⟩
    simpa [constIdent] using read_undef f' t r hr
  | .struct p .nil, f, t, r, _, hf, _ => by
    obtain ⟨f', rfl⟩ : ∃ f', f = f' + 1 := ⟨f - 1, by simp [csize] at hf; omega⟩
    cases p <;> simp [constIdent, parseConst]
  | .struct p (.cons t1 c1 rest), f, t, r, _, hf, hw => by
    obtain ⟨f', rfl⟩ : ∃ f', f = f' + 1 := ⟨f - 1, by simp [csize] at hf; omega⟩
    have hf' : clsize (.cons t1 c1 rest) ≤ f' := by simp [csize] at hf; omega
    have hw' : clwf (.cons t1 c1 rest) = true := by simpa [cwf] using hw
    cases p with
    | false =>
      have hL := read_clist useHex (.cons t1 c1 rest) f' (32 :: 125 :: r) rfl hf' hw'
      simp only at hL
      simp [constIdent, parseConst, hL]
    | true =>
      have hL := read_clist useHex (.cons t1 c1 rest) f' (32 :: 125 :: 62 :: r) rfl hf' hw'
      simp only at hL
      simp [constIdent, parseConst, hL]
  | .arr .nil, f, t, r, _, hf, _ => by
    obtain ⟨f', rfl⟩ : ∃ f', f = f' + 1 := ⟨f - 1, by simp [csize] at hf; omega⟩
    simp [constIdent, parseConst, clistString]
  | .arr (.cons t1 c1 rest), f, t, r, _, hf, hw => by
    obtain ⟨f', rfl⟩ : ∃ f', f = f' + 1 := ⟨f - 1, by simp [csize] at hf; omega⟩
    have hf' : clsize (.cons t1 c1 rest) ≤ f' := by simp [csize] at hf; omega
    have hw' : clwf (.cons t1 c1 rest) = true := by simpa [cwf] using hw
    have hL := read_clist useHex (.cons t1 c1 rest) f' (93 :: r) rfl hf' hw'
    simp only at hL
    obtain ⟨h, tl, heq, _, hs⟩ := clistString_cons_head useHex t1 c1 rest
    have hne := tyStart_ne h hs
    rw [heq, List.cons_append] at hL
    simp [constIdent, parseConst, heq, hne.1, hL]
  | .vec .nil, f, t, r, _, hf, _ => by
    obtain ⟨f', rfl⟩ : ∃ f', f = f' + 1 := ⟨f - 1, by simp [csize] at hf; omega⟩
    simp [constIdent, parseConst, clistString]
  | .vec (.cons t1 c1 rest), f, t, r, _, hf, hw => by
    obtain ⟨f', rfl⟩ : ∃ f', f = f' + 1 := ⟨f - 1, by simp [csize] at hf; omega⟩
    have hf' : clsize (.cons t1 c1 rest) ≤ f' := by simp [csize] at hf; omega
    have hw1 : firstNoBrace (.cons t1 c1 rest) = true ∧ clwf (.cons t1 c1 rest) = true := by simpa [cwf] using hw
    have hL := read_clist useHex (.cons t1 c1 rest) f' (62 :: r) rfl hf' hw1.2
    simp only at hL
    obtain ⟨h, tl, heq, hhead, hs⟩ := clistString_cons_head useHex t1 c1 rest
    have hne := tyStart_ne h hs
    have h123 : h ≠ 123 := by
      have := hw1.1; simp only [firstNoBrace, hhead, bne_iff_ne, ne_eq, Option.some.injEq] at this; exact this
    rw [heq, List.cons_append] at hL
    simp [constIdent, parseConst, heq, hne.2.1, h123, hL]

theorem read_clist (useHex : Int → Bool) : ∀ (cl : CList) (f : Nat) (r : Bytes),
    stopL2 r = true → clsize cl ≤ f → clwf cl = true →
    (match cl with
     | .nil => True
     | .cons _ _ _ => parseCList f (clistString useHex cl ++ r) = some (cl, r))
  | .nil, _, _, _, _, _ => trivial
  | .cons t c .nil, f, r, hr, hf, hw => by
    obtain ⟨f', rfl⟩ : ∃ f', f = f' + 1 := ⟨f - 1, by simp [clsize] at hf; omega⟩
    have hc := read_const useHex c f' t r (stopL2_stopC r hr) (by simp [clsize] at hf; omega) (by simp [clwf] at hw; exact hw)
    exact clist_last useHex f' t c r hr hc
  | .cons t c (.cons t' c' rest), f, r, hr, hf, hw => by
    obtain ⟨f', rfl⟩ : ∃ f', f = f' + 1 := ⟨f - 1, by simp [clsize] at hf; omega⟩
    have hw2 : cwf c = true ∧ clwf (.cons t' c' rest) = true := by simpa [clwf] using hw
    have hc := read_const useHex c f' t (sComma ++ (clistString useHex (.cons t' c' rest) ++ r)) (by simp [sComma, stopC])
      (by simp [clsize] at hf; omega) hw2.1
    have hl := read_clist useHex (.cons t' c' rest) f' r hr (by simp [clsize] at hf ⊢; omega) hw2.2
    exact clist_more useHex f' t c t' c' rest r hc hl
end

end Llir.Core2
