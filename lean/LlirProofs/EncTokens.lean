import LlirProofs.EncDecode
/-! token validity (C11): the printed identifier is ONE token of the right class of the llir/ll lexer (LexSpec) -/
namespace Llir.Enc
open Llir

theorem hexDigit_ne_quote : ∀ b : UInt8, hexDigit (b >>> 4) ≠ 34 ∧ hexDigit (b &&& 15) ≠ 34 := by
  apply forall_byte; decide +kernel

theorem escape_no_quote (valid : UInt8 → Bool) (hv : valid 34 = false) : ∀ (s : Bytes), ∀ b ∈ escape valid s, b ≠ 34
  | [], b, hb => by simp [escape] at hb
  | c :: r, b, hb => by
    unfold escape at hb
    by_cases hc : valid c = true
    · simp only [hc, if_true, List.mem_cons] at hb
      rcases hb with rfl | hb
      · intro h; subst h; rw [hv] at hc; cases hc
      · exact escape_no_quote valid hv r b hb
    · simp only [hc, if_false, List.mem_cons, Bool.false_eq_true] at hb
      rcases hb with rfl | rfl | rfl | hb
      · decide
      · exact (hexDigit_ne_quote c).1
      · exact (hexDigit_ne_quote c).2
      · exact escape_no_quote valid hv r b hb

theorem isQuotedBody_wrap (s : Bytes) (h : ∀ b ∈ s, b ≠ 34) : isQuotedBody (34 :: (s ++ [34])) = true := by
  unfold isQuotedBody
  have h3 : (34 :: (s ++ [34])).getLast? = some 34 := by
    rw [show (34 :: (s ++ [34]) : Bytes) = (34 :: s) ++ [34] by simp]; exact List.getLast?_concat
  have h4 : ((34 :: (s ++ [34])).drop 1).dropLast = s := by simp
  simp only [h3, h4]
  simp only [List.length_cons, List.length_append, List.length_nil, List.head?_cons, beq_self_eq_true, Bool.and_true]
  have : s.all (fun c => c != 34) = true := by
    rw [List.all_eq_true]; intro b hb; simpa using h b hb
  simp [this]

/-- TOKEN VALIDITY: for EVERY non-empty name the printed identifier body is exactly one
    name / quoted-name / id token body of the lexer. -/
theorem nameBody_is_token (n : Bytes) (hne : n ≠ []) : isIdentBody (nameBody n) = true := by
  unfold nameBody isIdentBody
  cases hu : allDigits n with
  | true =>
    have hd : n.all isDigit = true := by
      simp only [allDigits, Bool.and_eq_true] at hu; exact hu.2
    simp only [if_true]
    rw [isQuotedBody_wrap n (fun b hb hc => by
      have := List.all_eq_true.mp hd b hb; subst hc; simp [isDigit] at this)]
    simp
  | false =>
    simp only [Bool.false_eq_true, if_false]
    unfold escapeIdent
    by_cases ht : (n.all inTail && !digitLedJunk n) = true
    · simp only [ht, if_true]
      simp only [Bool.and_eq_true, Bool.not_eq_true'] at ht
      obtain ⟨ht, hj⟩ := ht
      cases n with
      | nil => exact absurd rfl hne
      | cons b r =>
        by_cases hdig : (b :: r).all isDigit = true
        · have : isIdBody (b :: r) = true := by simp [isIdBody, hdig]
          simp [this]
        · have hb : isDigit b = false := by
            cases hbd : isDigit b with
            | false => rfl
            | true =>
              have hnd : (b :: r).all isDigit = false := by simpa using hdig
              have : digitLedJunk (b :: r) = true := by
                simp only [digitLedJunk, allDigits, hbd, hnd, List.isEmpty_cons]
                rfl
              rw [this] at hj; cases hj
          have hbt : inTail b = true := List.all_eq_true.mp ht b (by simp)
          have hlet : isLetter b = true := by
            simp only [inTail, Bool.or_eq_true] at hbt
            rcases hbt with h | h
            · simpa [isLetter, inHead] using h
            · rw [hb] at h; cases h
          have hrest : r.all (fun c => isLetter c || isDigit c) = true := by
            rw [List.all_eq_true]; intro c hc
            have := List.all_eq_true.mp ht c (by simp [hc])
            simpa [inTail, inHead, isLetter] using this
          have : isNameBody (b :: r) = true := by simp [isNameBody, hlet, hrest]
          simp [this]
    · simp only [ht, if_false, Bool.false_eq_true]
      rw [isQuotedBody_wrap _ (escape_no_quote inQuotedIdent inQuotedIdent_not_quote n)]
      simp

theorem globalName_is_token (n : Bytes) (hne : n ≠ []) : isGlobalTok (globalName n) = true := by
  rw [globalName_eq]; simp [isGlobalTok, nameBody_is_token n hne]
theorem localName_is_token (n : Bytes) (hne : n ≠ []) : isLocalTok (localName n) = true := by
  rw [localName_eq]; simp [isLocalTok, nameBody_is_token n hne]

/-- regression witness of the repaired defect: `1abc` is now quoted and is one token -/
theorem digit_led_name_is_a_token : isGlobalTok (globalName [49, 97, 98, 99]) = true := by decide

end Llir.Enc
