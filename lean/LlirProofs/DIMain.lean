import LlirProofs.DILemmas
/-! M-DI: the translation is the identity on well-formed nodes; the round trip. -/
namespace Llir.DI
open Llir

theorem wfFrom_ge : ∀ (specs : List FieldSpec) (i : Nat) (l : List (Nat × FVal)), wfFrom i specs l = true → ∀ f ∈ l, i ≤ f.1
  | [], i, l, h => by
    simp only [wfFrom, List.isEmpty_iff] at h; subst h; intro f hf; simp at hf
  | spec :: specs, i, [], _ => by intro f hf; simp at hf
  | spec :: specs, i, (j, v) :: r, h => by
    unfold wfFrom at h
    split at h
    · rename_i hji
      have hji : j = i := by simpa using hji
      simp only [Bool.and_eq_true] at h
      have ih := wfFrom_ge specs (i + 1) r h.2
      intro f hf
      simp only [List.mem_cons] at hf
      rcases hf with hf | hf
      · subst hf; simp [hji]
      · have := ih f hf; omega
    · simp only [Bool.and_eq_true] at h
      have ih := wfFrom_ge specs (i + 1) ((j, v) :: r) h.2
      intro f hf
      have := ih f hf; omega

theorem lastOf_none : ∀ (l : List (Nat × FVal)) (i : Nat), (∀ f ∈ l, f.1 ≠ i) → lastOf i l = none
  | [], _, _ => rfl
  | (j, v) :: r, i, h => by
    have hr := lastOf_none r i (fun f hf => h f (by simp [hf]))
    have hj : (j == i) = false := by
      have := h (j, v) (by simp)
      simpa using this
    simp [lastOf, hr, hj]

theorem lastOf_cons_ne (j : Nat) (v : FVal) (r : List (Nat × FVal)) (i : Nat) (h : j ≠ i) : lastOf i ((j, v) :: r) = lastOf i r := by
  have hj : (j == i) = false := by simpa using h
  cases hr : lastOf i r <;> simp [lastOf, hr, hj]

/-- the canonical field list of what was written is the well-formed list itself -/
theorem canonFrom_wf : ∀ (specs : List FieldSpec) (i : Nat) (l W : List (Nat × FVal)), wfFrom i specs l = true →
    (∀ j, i ≤ j → lastOf j W = lastOf j l) → canonFrom W i specs = l
  | [], i, l, W, h, _ => by
    simp only [wfFrom, List.isEmpty_iff] at h; subst h; rfl
  | spec :: specs, i, [], W, h, hW => by
    simp only [wfFrom, Bool.and_eq_true] at h
    have h0 : lastOf i W = none := by rw [hW i (Nat.le_refl i)]; rfl
    have ih := canonFrom_wf specs (i + 1) [] W h.2 (fun j hj => hW j (by omega))
    simp [canonFrom, h0, ih]
  | spec :: specs, i, (j, v) :: r, W, h, hW => by
    unfold wfFrom at h
    split at h
    · rename_i hji
      have hji : j = i := by simpa using hji
      subst hji
      simp only [Bool.and_eq_true, Bool.not_eq_true'] at h
      obtain ⟨⟨⟨_, hom⟩, _⟩, hrest⟩ := h
      have hge := wfFrom_ge specs (j + 1) r hrest
      have hrn : lastOf j r = none := lastOf_none r j (fun f hf => by have := hge f hf; omega)
      have h0 : lastOf j W = some v := by
        rw [hW j (Nat.le_refl j)]
        simp [lastOf, hrn]
      have ih := canonFrom_wf specs (j + 1) r W hrest (fun j' hj' => by
        rw [hW j' (by omega)]
        exact lastOf_cons_ne j v r j' (by omega))
      simp [canonFrom, h0, hom, ih]
    · rename_i hji
      have hji : j ≠ i := by simpa using hji
      simp only [Bool.and_eq_true] at h
      have hge := wfFrom_ge specs (i + 1) ((j, v) :: r) h.2
      have h0 : lastOf i W = none := by
        rw [hW i (Nat.le_refl i)]
        exact lastOf_none _ i (fun f hf => by have := hge f hf; omega)
      have ih := canonFrom_wf specs (i + 1) ((j, v) :: r) W h.2 (fun j' hj' => hW j' (by omega))
      simp [canonFrom, h0, ih]

theorem transFrom_wf : ∀ (specs : List FieldSpec) (i : Nat) (l W : List (Nat × FVal)), wfFrom i specs l = true →
    (∀ j, i ≤ j → lastOf j W = lastOf j l) → transFrom W i specs = true
  | [], _, _, _, _, _ => rfl
  | spec :: specs, i, [], W, h, hW => by
    simp only [wfFrom, Bool.and_eq_true] at h
    have h0 : lastOf i W = none := by rw [hW i (Nat.le_refl i)]; rfl
    have ih := transFrom_wf specs (i + 1) [] W h.2 (fun j hj => hW j (by omega))
    have hc : spec.cond ≠ .always := by simpa using h.1
    simp only [transFrom, h0, ih, Bool.and_true]
    cases hcc : spec.cond <;> simp_all
  | spec :: specs, i, (j, v) :: r, W, h, hW => by
    unfold wfFrom at h
    split at h
    · rename_i hji
      have hji : j = i := by simpa using hji
      subst hji
      simp only [Bool.and_eq_true, Bool.not_eq_true'] at h
      obtain ⟨⟨⟨_, _⟩, hoth⟩, hrest⟩ := h
      have hge := wfFrom_ge specs (j + 1) r hrest
      have hrn : lastOf j r = none := lastOf_none r j (fun f hf => by have := hge f hf; omega)
      have h0 : lastOf j W = some v := by
        rw [hW j (Nat.le_refl j)]
        simp [lastOf, hrn]
      have ih := transFrom_wf specs (j + 1) r W hrest (fun j' hj' => by
        rw [hW j' (by omega)]
        exact lastOf_cons_ne j v r j' (by omega))
      have hc : spec.cond ≠ .other := by simpa using hoth
      simp only [transFrom, h0, ih, Bool.and_true]
      cases hcc : spec.cond <;> simp_all
    · rename_i hji
      have hji : j ≠ i := by simpa using hji
      simp only [Bool.and_eq_true] at h
      have hge := wfFrom_ge specs (i + 1) ((j, v) :: r) h.2
      have h0 : lastOf i W = none := by
        rw [hW i (Nat.le_refl i)]
        exact lastOf_none _ i (fun f hf => by have := hge f hf; omega)
      have ih := transFrom_wf specs (i + 1) ((j, v) :: r) W h.2 (fun j' hj' => hW j' (by omega))
      have hc : spec.cond ≠ .always := by simpa using h.1
      simp only [transFrom, h0, ih, Bool.and_true]
      cases hcc : spec.cond <;> simp_all

/-- every field of a well-formed list names a field of the kind and carries a value of that field's kind -/
theorem wfFrom_valid (all : List FieldSpec) : ∀ (specs : List FieldSpec) (i : Nat) (l : List (Nat × FVal)), wfFrom i specs l = true →
    (∀ m, specs[m]? = all[i + m]?) → ∀ f ∈ l, ∃ spec, all[f.1]? = some spec ∧ valOK spec.vk f.2 = true
  | [], i, l, h, _ => by
    simp only [wfFrom, List.isEmpty_iff] at h; subst h; intro f hf; simp at hf
  | spec :: specs, i, [], _, _ => by intro f hf; simp at hf
  | spec :: specs, i, (j, v) :: r, h, hs => by
    have hs' : ∀ m, specs[m]? = all[i + 1 + m]? := fun m => by
      have := hs (m + 1)
      simp only [List.getElem?_cons_succ] at this
      rw [this]; congr 1; omega
    unfold wfFrom at h
    split at h
    · rename_i hji
      have hji : j = i := by simpa using hji
      subst hji
      simp only [Bool.and_eq_true] at h
      have ih := wfFrom_valid all specs (j + 1) r h.2 hs'
      intro f hf
      simp only [List.mem_cons] at hf
      rcases hf with hf | hf
      · subst hf
        have := hs 0
        simp at this
        exact ⟨spec, this.symm, h.1.1.1⟩
      · exact ih f hf
    · simp only [Bool.and_eq_true] at h
      exact wfFrom_valid all specs (i + 1) ((j, v) :: r) h.2 hs'

theorem translate_wf (T : Table) (n : Node) (h : wf T n = true) : translate T n = some n := by
  unfold wf at h
  split at h
  · cases h
  · rename_i k hk
    have hg : T.getD n.kind default = k := by simp [List.getD, hk]
    have h1 := canonFrom_wf k.fields 0 n.fields n.fields h (fun _ _ => rfl)
    have h2 := transFrom_wf k.fields 0 n.fields n.fields h (fun _ _ => rfl)
    simp only [translate, hg, translatable, canonFields, h1, h2, if_true]

/-- the round trip of the specialised metadata nodes: for EVERY table that meets `tableOK` and every well-formed node of one of its kinds -/
theorem parse_print (T : Table) (hT : tableOK T = true) (n : Node) (h : wf T n = true) : parse T (printNode T n) = some n := by
  have h' := h
  unfold wf at h'
  split at h'
  · cases h'
  · rename_i k hk
    have hv := wfFrom_valid k.fields k.fields 0 n.fields h' (fun m => by simp)
    have hr := readNode_print T hT n k hk (fun x hx => hv x hx)
    simp only [parse, hr, Option.bind_some, translate_wf T n h]

end Llir.DI
