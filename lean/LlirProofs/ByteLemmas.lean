import LlirModel.Enc
/-! Byte-level lemmas, decided by the kernel on all 256 values. -/
namespace Llir

theorem forall_byte (P : UInt8 → Prop) (h : ∀ n, n < 256 → P (UInt8.ofNat n)) : ∀ b, P b := by
  intro b
  have := h b.toNat b.toNat_lt
  simpa using this

namespace Enc

theorem hexDigit_hi_ne (b : UInt8) : hexDigit (b >>> 4) ≠ 92 := by
  revert b; apply forall_byte; decide +kernel
theorem hexDigit_lo_ne (b : UInt8) : hexDigit (b &&& 15) ≠ 92 := by
  revert b; apply forall_byte; decide +kernel
theorem unhex_hi (b : UInt8) : unhex (hexDigit (b >>> 4)) = some (b >>> 4) := by
  revert b; apply forall_byte; decide +kernel
theorem unhex_lo (b : UInt8) : unhex (hexDigit (b &&& 15)) = some (b &&& 15) := by
  revert b; apply forall_byte; decide +kernel
theorem nibbles (b : UInt8) : ((b >>> 4) <<< 4 ||| (b &&& 15)) = b := by
  revert b; apply forall_byte; decide +kernel

theorem validString_bs : validString 92 = false := by decide
theorem inQuotedIdent_bs : inQuotedIdent 92 = false := by decide
theorem inTail_bs : inTail 92 = false := by decide
theorem inQuotedIdent_not_quote : inQuotedIdent 34 = false := by decide
theorem validString_not_quote : validString 34 = false := by decide

end Enc
end Llir
