import LlirModel.Core
import LlirProofs.EncDecode
import LlirProofs.Props.C09
import LlirProofs.Props.C20
namespace Llir.Core
open Llir Llir.Enc

/-- type names the parser keeps verbatim: non-empty and not readable as an integer (see the C11 findings) -/
def TypeNameOK (n : Bytes) : Prop := n ≠ [] ∧ parseInt64 n = none

theorem parseInt64_of_parseUint63 (n : Bytes) (v : Nat) (h : parseUint63 n = some v) : parseInt64 n = some (Int.ofNat v) := by
  unfold parseUint63 at h
  by_cases h1 : n.isEmpty = true
  · simp [h1] at h
  · by_cases h2 : n.all isDigit = true
    · simp only [h1, h2, if_true, Bool.false_eq_true, if_false] at h
      by_cases h3 : decVal n < 2 ^ 63
      · simp only [h3, if_true] at h
        injection h with h; subst h
        cases n with
        | nil => simp at h1
        | cons a r =>
          have ha : isDigit a = true := List.all_eq_true.mp h2 a (by simp)
          have h43 : a ≠ 43 := by intro e; subst e; simp [isDigit] at ha
          have h45 : a ≠ 45 := by intro e; subst e; simp [isDigit] at ha
          unfold parseInt64
          split
          · rename_i heq; cases heq
          · rename_i heq; injection heq with e _; exact absurd e h43
          · rename_i heq; injection heq with e _; exact absurd e h45
          · simp [h2, h3]
      · simp [h3] at h
    · simp [h1, h2] at h

theorem decodeTypedef_typeName (n : Bytes) (h : TypeNameOK n) : decodeTypedef (typeName n) = some n := by
  obtain ⟨hne, hp⟩ := h
  unfold decodeTypedef typeName localIdent
  simp only
  have hbody : decodeIdentBody (escapeIdent n) = .name n := by
    unfold escapeIdent
    by_cases ht : (n.all inTail && !digitLedJunk n) = true
    · simp only [ht, if_true]
      have ht' : n.all inTail = true := by
        simp only [Bool.and_eq_true] at ht; exact ht.1
      unfold decodeIdentBody
      have hq : n.head? ≠ some 34 := by
        cases n with
        | nil => simp
        | cons a r =>
          simp only [List.head?_cons, ne_eq, Option.some.injEq]
          intro ha
          have := List.all_eq_true.mp ht' a (by simp)
          subst ha; simp [inTail, inHead, isAlpha, isUpper, isLower, isDigit] at this
      cases hu : parseUint63 n with
      | none => simp [asmUnquote_plain n hq]
      | some v =>
        have := parseInt64_of_parseUint63 n v hu
        rw [hp] at this; cases this
    · simp only [ht, if_false, Bool.false_eq_true]
      unfold decodeIdentBody
      rw [parseUint63_none_of_quote, asmUnquote_quoted, unescape_escape _ inQuotedIdent_bs]
  rw [hbody]
  cases n with
  | nil => exact absurd rfl hne
  | cons a r => simp [getTypeName, hp]

def GlobalOK (g : GlobalDef) : Prop := g.name ≠ []

theorem decodeGlobal_print (useHex : Int → Bool) (g : GlobalDef) (h : GlobalOK g) :
    decodeGlobal (globalName g.name) g.width (litOf useHex g) = some g := by
  have hne : g.name ≠ [] := h
  obtain ⟨s, hs, hparse⟩ := Props.C09.ident_roundtrip g.width g.value (useHex g.value)
  unfold decodeGlobal litOf
  rw [globalIdent_globalName g.name hne, hs]
  simp only [hparse]

theorem collect_print (useHex : Int → Bool) (ts : List Bytes) (gs : List GlobalDef)
    (ht : ∀ n ∈ ts, TypeNameOK n) (hg : ∀ g ∈ gs, GlobalOK g) :
    collect (printTok useHex ⟨ts, gs⟩) = some (ts, gs) := by
  unfold printTok
  simp only
  induction ts with
  | nil =>
    simp only [List.map_nil, List.nil_append]
    induction gs with
    | nil => rfl
    | cons g gs ih =>
      simp only [List.map_cons, collect]
      rw [decodeGlobal_print useHex g (hg g (by simp)), ih (fun x hx => hg x (by simp [hx]))]
  | cons n ts ih =>
    simp only [List.map_cons, List.cons_append, collect]
    rw [decodeTypedef_typeName n (ht n (by simp)), ih (fun x hx => ht x (by simp [hx]))]

end Llir.Core
