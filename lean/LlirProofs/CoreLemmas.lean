import LlirModel.Core
import LlirProofs.EncDecode
import LlirProofs.Props.C09
import LlirProofs.Props.C20
namespace Llir.Core
open Llir Llir.Enc

/-- type names the parser keeps verbatim: non-empty and not readable as an integer (see the C11 findings) -/
def TypeNameOK (n : Bytes) : Prop := n ≠ [] ∧ parseInt64 n = none

theorem decodeTypedef_typeName (n : Bytes) (h : TypeNameOK n) : decodeTypedef (typeName n) = some n := by
  obtain ⟨hne, hp⟩ := h
  unfold decodeTypedef typeName localIdent
  simp only
  have hbody : decodeIdentBody (escapeIdent n) = .name n := by
    unfold escapeIdent
    by_cases ht : n.all inTail = true
    · simp only [ht, if_true]
      unfold decodeIdentBody
      have hq : n.head? ≠ some 34 := by
        cases n with
        | nil => simp
        | cons a r =>
          simp only [List.head?_cons, ne_eq, Option.some.injEq]
          intro ha
          have := List.all_eq_true.mp ht a (by simp)
          subst ha; simp [inTail, inHead, isAlpha, isUpper, isLower, isDigit] at this
      simp [hp, asmUnquote_plain n hq]
    · simp only [ht, if_false, Bool.false_eq_true]
      unfold decodeIdentBody
      rw [parseInt64_none_of_quote, asmUnquote_quoted, unescape_escape _ inQuotedIdent_bs]
  rw [hbody]
  cases n with
  | nil => exact absurd rfl hne
  | cons a r => simp [getTypeName, hp]

def GlobalOK (g : GlobalDef) : Prop := g.name ≠ [] ∧ ¬ ReadsAsID g.name ∧ g.width ≠ 1

theorem decodeGlobal_print (useHex : Int → Bool) (g : GlobalDef) (h : GlobalOK g) :
    decodeGlobal (globalName g.name) g.width (litOf useHex g) = some g := by
  obtain ⟨hne, hg, hw⟩ := h
  obtain ⟨s, hs, hparse⟩ := Props.C09.ident_roundtrip g.width hw g.value (useHex g.value)
  unfold decodeGlobal litOf
  rw [globalIdent_globalName g.name hne hg, hs]
  simp only [hparse]

theorem collect_print (useHex : Int → Bool) (ts : List Bytes) (gs : List GlobalDef)
    (ht : ∀ n ∈ ts, TypeNameOK n) (hg : ∀ g ∈ gs, GlobalOK g) :
    collect (printTok useHex ⟨ts, gs⟩) = some (ts, gs) := by
  unfold printTok
  simp only
  induction ts with
  | nil =>
    simp only [List.map_nil, List.nil_append]
    induction gs with
    | nil => rfl
    | cons g gs ih =>
      simp only [List.map_cons, collect]
      rw [decodeGlobal_print useHex g (hg g (by simp)), ih (fun x hx => hg x (by simp [hx]))]
  | cons n ts ih =>
    simp only [List.map_cons, List.cons_append, collect]
    rw [decodeTypedef_typeName n (ht n (by simp)), ih (fun x hx => ht x (by simp [hx]))]

end Llir.Core
