import LlirModel.TyParse
import LlirProofs.TypesLemmas
import LlirProofs.EncLemmas
import LlirProofs.ByteLemmas
/-! `parseTy` inverts `tyString`: helper lemmas. -/
namespace Llir.TyParse
open Llir Llir.Types

theorem stripPrefix_append : ∀ (p r : Bytes), stripPrefix p (p ++ r) = some r
  | [], r => by cases r <;> rfl
  | a :: p, r => by simp [stripPrefix, stripPrefix_append p r]

/-- bytes that can follow a printed type: nothing, `*`, space, `,`, `>`, `]`, `)` -/
def cont (r : Bytes) : Bool :=
  match r with
  | [] => true
  | c :: _ => c == 42 || c == 32 || c == 44 || c == 62 || c == 93 || c == 41

theorem cont_not_digit (r : Bytes) (h : cont r = true) : ∀ c ∈ r.head?, isDigit c = false := by
  intro c hc
  cases r with
  | nil => simp at hc
  | cons a r =>
    simp only [List.head?_cons, Option.mem_def, Option.some.injEq] at hc; subst hc
    simp only [cont, Bool.or_eq_true, beq_iff_eq] at h
    rcases h with ((((h | h) | h) | h) | h) | h <;> subst h <;> decide

theorem cont_not_inTail (r : Bytes) (h : cont r = true) : ∀ c ∈ r.head?, Enc.inTail c = false := by
  intro c hc
  cases r with
  | nil => simp at hc
  | cons a r =>
    simp only [List.head?_cons, Option.mem_def, Option.some.injEq] at hc; subst hc
    simp only [cont, Bool.or_eq_true, beq_iff_eq] at h
    rcases h with ((((h | h) | h) | h) | h) | h <;> subst h <;> decide

theorem cont_not_quote (r : Bytes) (h : cont r = true) : r.head? ≠ some 34 := by
  cases r with
  | nil => simp
  | cons a r =>
    simp only [List.head?_cons, ne_eq, Option.some.injEq]
    intro ha; subst ha
    simp [cont] at h

theorem takeWhile_append_stop (p : UInt8 → Bool) (l r : Bytes) (hl : ∀ x ∈ l, p x = true)
    (hr : ∀ c ∈ r.head?, p c = false) : (l ++ r).takeWhile p = l ∧ (l ++ r).dropWhile p = r := by
  induction l with
  | nil =>
    cases r with
    | nil => simp
    | cons a r => simp [List.takeWhile, List.dropWhile, hr a (by simp)]
  | cons a l ih =>
    have ha : p a = true := hl a (by simp)
    have := ih (fun x hx => hl x (by simp [hx]))
    simp [List.takeWhile, List.dropWhile, ha, this.1, this.2]

theorem readNat_natDec (n : Nat) (r : Bytes) (hr : ∀ c ∈ r.head?, isDigit c = false) :
    readNat (natDec n ++ r) = some (n, r) := by
  obtain ⟨h1, h2⟩ := takeWhile_append_stop isDigit (natDec n) r (natDec_digits n) hr
  unfold readNat
  rw [h1, h2]
  have : Digits.parseNat 10 (natDec n) = some n := Digits.parseNat_natText10 n
  rw [this]

theorem hexDigit_hi_ne_quote (b : UInt8) : Enc.hexDigit (b >>> 4) ≠ 34 := by
  revert b; apply forall_byte; decide +kernel
theorem hexDigit_lo_ne_quote (b : UInt8) : Enc.hexDigit (b &&& 15) ≠ 34 := by
  revert b; apply forall_byte; decide +kernel

theorem escape_no_quote (valid : UInt8 → Bool) (hv : valid 34 = false) : ∀ (s : Bytes), ∀ b ∈ Enc.escape valid s, b ≠ 34
  | [], b, hb => by simp [Enc.escape] at hb
  | a :: s, b, hb => by
    unfold Enc.escape at hb
    by_cases ha : valid a = true
    · simp only [ha, if_true, List.mem_cons] at hb
      rcases hb with rfl | hb
      · intro h; rw [h, hv] at ha; cases ha
      · exact escape_no_quote valid hv s b hb
    · simp only [ha, Bool.false_eq_true, if_false, List.mem_cons] at hb
      rcases hb with rfl | rfl | rfl | hb
      · decide
      · exact hexDigit_hi_ne_quote a
      · exact hexDigit_lo_ne_quote a
      · exact escape_no_quote valid hv s b hb


theorem readName_escapeIdent (n r : Bytes) (hr : cont r = true) :
    readName (Enc.escapeIdent n ++ r) = some (n, r) := by
  unfold Enc.escapeIdent
  by_cases hb : (n.all Enc.inTail && !Enc.digitLedJunk n) = true
  · simp only [hb, if_true]
    have hall : ∀ x ∈ n, Enc.inTail x = true := by
      simp only [Bool.and_eq_true] at hb; exact List.all_eq_true.mp hb.1
    obtain ⟨h1, h2⟩ := takeWhile_append_stop Enc.inTail n r hall (cont_not_inTail r hr)
    have hq : (n ++ r).head? ≠ some 34 := by
      cases n with
      | nil => simpa using cont_not_quote r hr
      | cons a n =>
        simp only [List.cons_append, List.head?_cons, ne_eq, Option.some.injEq]
        intro ha; have := hall a (by simp); rw [ha] at this; exact absurd this (by decide)
    unfold readName
    split
    · rename_i r' heq
      rw [heq] at hq; simp at hq
    · rw [h1, h2]
  · simp only [hb, Bool.false_eq_true, if_false]
    have hnq : ∀ x ∈ Enc.escape Enc.inQuotedIdent n, (x != 34) = true := by
      intro x hx; simpa using escape_no_quote Enc.inQuotedIdent (by decide) n x hx
    obtain ⟨h1, h2⟩ := takeWhile_append_stop (· != 34) (Enc.escape Enc.inQuotedIdent n) (34 :: r) hnq (by simp)
    have e : 34 :: (Enc.escape Enc.inQuotedIdent n ++ [34]) ++ r = 34 :: (Enc.escape Enc.inQuotedIdent n ++ 34 :: r) := by simp
    rw [e]
    simp only [readName, h1, h2]
    rw [Enc.unescape_escape _ Enc.inQuotedIdent_bs]

/-- the first byte of a printed type is never `)`, `.`, a space, `*`, `,`, `>`, `]` or `}` -/
def tyStart (c : UInt8) : Bool := c != 41 && c != 46 && c != 32 && c != 42 && c != 44 && c != 62 && c != 93 && c != 125

theorem natDec_head (n : Nat) : ∃ d ds, natDec n = d :: ds ∧ isDigit d = true := by
  cases h : natDec n with
  | nil => exact absurd h (natDec_ne_nil n)
  | cons d ds => exact ⟨d, ds, rfl, natDec_digits n d (by rw [h]; simp)⟩

theorem head?_append_of_head? (l r : Bytes) (c : UInt8) (h : l.head? = some c) : (l ++ r).head? = some c := by
  cases l with
  | nil => simp at h
  | cons a l => simpa using h

theorem tyString_head? : ∀ (t : Ty), ∃ c, (tyString t).head? = some c ∧ tyStart c = true
  | .void => ⟨118, rfl, by decide⟩
  | .mmx => ⟨120, rfl, by decide⟩
  | .label => ⟨108, rfl, by decide⟩
  | .token => ⟨116, rfl, by decide⟩
  | .metadata => ⟨109, rfl, by decide⟩
  | .int w => ⟨105, by simp [tyString], by decide⟩
  | .float k => by
    unfold tyString floatKindName
    split <;> first | exact ⟨_, rfl, by decide⟩ | exact ⟨70, by simp, by decide⟩
  | .ptr e as => by
    obtain ⟨c, h, hc⟩ := tyString_head? e
    refine ⟨c, ?_, hc⟩
    unfold tyString
    rw [List.append_assoc]
    exact head?_append_of_head? _ _ c h
  | .vec s n e => ⟨60, by simp [tyString], by decide⟩
  | .arr n e => ⟨91, by simp [tyString], by decide⟩
  | .struct p fs => by
    unfold tyString
    cases fs with
    | nil => cases p <;> exact ⟨_, rfl, by decide⟩
    | cons a r => cases p <;> simp <;> decide
  | .named n => ⟨37, by simp [tyString, Enc.typeName], by decide⟩
  | .func r ps v => by
    obtain ⟨c, h, hc⟩ := tyString_head? r
    refine ⟨c, ?_, hc⟩
    unfold tyString
    rw [List.append_assoc, List.append_assoc, List.append_assoc]
    exact head?_append_of_head? _ _ c h

theorem tyString_head (t : Ty) : ∃ c rest, tyString t = c :: rest ∧ tyStart c = true := by
  obtain ⟨c, h, hc⟩ := tyString_head? t
  cases hs : tyString t with
  | nil => rw [hs] at h; simp at h
  | cons a l => rw [hs] at h; simp at h; subst h; exact ⟨a, l, rfl, hc⟩

/-- continuations at which a type certainly ends -/
def stop (r : Bytes) : Bool :=
  match r with
  | [] => true
  | 32 :: 125 :: _ => true
  | c :: _ => c == 44 || c == 62 || c == 93 || c == 41

theorem stop_cont (r : Bytes) (h : stop r = true) : cont r = true := by
  unfold stop at h
  split at h
  · rfl
  · simp [cont]
  · rename_i c r' _
    simp only [Bool.or_eq_true, beq_iff_eq] at h
    simp only [cont, Bool.or_eq_true, beq_iff_eq]
    rcases h with ((h | h) | h) | h <;> simp [h]

theorem parsePost_stop (f : Nat) (t : Ty) (r : Bytes) (h : stop r = true) : parsePost (f + 1) t r = some (t, r) := by
  unfold stop at h
  split at h
  · simp [parsePost]
  · simp [parsePost]
  · rename_i c r' hne
    simp only [Bool.or_eq_true, beq_iff_eq] at h
    rcases h with ((h | h) | h) | h <;> subst h <;> simp [parsePost]

end Llir.TyParse
