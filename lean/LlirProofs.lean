import LlirProofs.ByteLemmas
import LlirProofs.EncLemmas
import LlirProofs.Props.C11
