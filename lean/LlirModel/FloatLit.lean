import LlirModel.Bytes
/-! Model of the bit-level paths of /repo/ir/constant/const_float.go: hexadecimal floating-point
    literals are decoded into the value carrier the library uses (`constant.Float{X *big.Float, NaN bool}`:
    a sign, and zero / infinity / a finite dyadic value / "NaN" with NO payload), and encoded back when
    printed in hexadecimal. `decode`/`encode` are the IEEE-754 interchange encodings for an exponent
    width E and a fraction width M (half 5/10, double 11/52, fp128 15/112; `float` literals are double
    bit patterns). big.Float keeps finite values normalised; the decoder's images are already in the
    encoder's normal form. -/
namespace Llir.FloatLit

inductive FVal where
  | zero (neg : Bool)
  | inf (neg : Bool)
  | nan (neg : Bool)                          -- Float{NaN: true}: only the sign survives
  | fin (neg : Bool) (m : Nat) (e : Int)      -- ± m · 2^e, m > 0
  deriving Repr, DecidableEq

def bias (E : Nat) : Nat := 2 ^ (E - 1) - 1

def signBit (E M b : Nat) : Bool := (b / 2 ^ (E + M)) % 2 == 1
def expField (E M b : Nat) : Nat := (b / 2 ^ M) % 2 ^ E
def fracField (M b : Nat) : Nat := b % 2 ^ M

def isNaNBits (E M b : Nat) : Bool := expField E M b == 2 ^ E - 1 && fracField M b != 0

/-- binary16.NewFromBits / math.Float64frombits / binary128.NewFromBits followed by `.Big()` -/
def decode (E M b : Nat) : FVal :=
  let s := signBit E M b
  let ex := expField E M b
  let fr := fracField M b
  if ex == 2 ^ E - 1 then (if fr == 0 then .inf s else .nan s)
  else if ex == 0 then (if fr == 0 then .zero s else .fin s fr (1 - (bias E : Int) - M))
  else .fin s (2 ^ M + fr) ((ex : Int) - bias E - M)

def signBits (E M : Nat) (s : Bool) : Nat := if s then 2 ^ (E + M) else 0

/-- NewFromBig(...).Bits() / math.Float64bits(X.Float64()) on a normalised value; NaN is printed as the
    canonical quiet NaN of its sign (binary16.NaN, 0x7FF8000000000000, binary128.NaN) -/
def encode (E M : Nat) : FVal → Nat
  | .zero s => signBits E M s
  | .inf s => signBits E M s + (2 ^ E - 1) * 2 ^ M
  | .nan s => signBits E M s + (2 ^ E - 1) * 2 ^ M + 2 ^ (M - 1)
  | .fin s m e =>
    if m < 2 ^ M then signBits E M s + m                                        -- subnormal
    else signBits E M s + (e + bias E + M).toNat * 2 ^ M + (m - 2 ^ M)          -- normal

/-- parse a literal of the given bit pattern and print it again in hexadecimal notation -/
def reprint (E M b : Nat) : Nat := encode E M (decode E M b)

/-- the SPELLING of an fp128 value: LLVM writes (and reads) the low 64 bits first — `0xL` + 16 digits of the low word + 16 digits of the high word
    (LLLexer HexToIntPair builds the APInt from the pair in little-endian word order); ir/constant/const_float.go swaps the words when it reads and
    when it prints -/
def swapWords (x : Nat) : Nat := x % 2 ^ 64 * 2 ^ 64 + x / 2 ^ 64 % 2 ^ 64

/-- what is printed for an fp128 literal given by the number its 32 digits spell -/
def reprint128Lit (lit : Nat) : Nat := swapWords (reprint 15 112 (swapWords lit))

/-! ### x86_fp80: 16 bits sign+exponent, 64-bit significand with explicit integer bit -/
def decode80 (se m : Nat) : FVal :=
  let s : Bool := se / 2 ^ 15 % 2 == 1
  let ex : Nat := se % 2 ^ 15
  if ex == 2 ^ 15 - 1 then (if m == 2 ^ 63 then .inf s else .nan s)
  else if ex == 0 then (if m == 0 then .zero s else .fin s m (1 - 16383 - 63))
  -- an UNNORMAL (non-zero exponent, integer bit clear) is not a number: LLVM reads it as a NaN, and so does NewFloatFromString
  else if m < 2 ^ 63 then .nan s
  else .fin s m ((ex : Int) - 16383 - 63)

/-- canonical encodings: integer bit set exactly for normal numbers (and for infinity) -/
def canonical80 (se m : Nat) : Bool :=
  let ex : Nat := se % 2 ^ 15
  se < 2 ^ 16 && m < 2 ^ 64 &&
  (if ex == 2 ^ 15 - 1 then true else if ex == 0 then m < 2 ^ 63 else m ≥ 2 ^ 63)

def isNaN80 (se m : Nat) : Bool := (se % 2 ^ 15 == 2 ^ 15 - 1 && m != 2 ^ 63) || (se % 2 ^ 15 != 0 && se % 2 ^ 15 != 2 ^ 15 - 1 && m < 2 ^ 63)

def encode80 : FVal → Nat × Nat
  | .zero s => ((if s then 2 ^ 15 else 0), 0)
  | .inf s => ((if s then 2 ^ 15 else 0) + (2 ^ 15 - 1), 2 ^ 63)
  | .nan s => ((if s then 2 ^ 15 else 0) + (2 ^ 15 - 1), 0xBFFFFFFFFFFFFFFF)   -- float80x86.NaN
  | .fin s m e =>
    if m < 2 ^ 63 then ((if s then 2 ^ 15 else 0), m)
    else ((if s then 2 ^ 15 else 0) + (e + 16383 + 63).toNat, m)

end Llir.FloatLit
