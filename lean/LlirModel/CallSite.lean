import LlirModel.TyParse
/-! How call, invoke and callbr spell the callee's type (ir/inst_other.go InstCall.LLString,
    ir/terminator.go TermInvoke.LLString / TermCallBr.LLString): the full function signature when the
    callee is variadic, otherwise only the return type — and how LLVM reads that spelling back (LangRef
    call: "this type can be omitted if the function is not varargs"; llvm/lib/AsmParser ParseCall: a
    function type is taken as the callee type, any other type as the return type of a non-variadic callee
    whose parameter types are the types of the actual arguments). -/
namespace Llir.CallSite
open Llir Llir.Types

/-- the `Typ=Type` part of the printed call site -/
def callSiteType (sig : Ty) : Bytes :=
  match sig with
  | .func r _ v => if v then tyString sig else tyString r
  | t => tyString t

namespace LLVMSpec
/-- callee signature LLVM derives from the spelled type and the types of the actual arguments -/
def calleeSig (spelled : Bytes) (argTys : TyList) : Option Ty :=
  match TyParse.parse spelled with
  | some (.func r ps v) => some (.func r ps v)
  | some r => some (.func r argTys false)
  | none => none
end LLVMSpec

end Llir.CallSite
