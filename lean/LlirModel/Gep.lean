import LlirModel.Typing
import LlirModel.IntLit
/-! Model of /repo/internal/gep/gep.go (ResultType) and of the three `getIndex` classifiers:
    ir/inst_memory.go (instruction constructor), ir/constant/expr_memory.go (constant expression,
    also used by the parser for constant gep expressions) and asm/inst_memory.go (parser, instructions). -/
namespace Llir.Gep
open Llir Llir.Types Llir.Typing

structure Index where
  hasVal : Bool
  val : Int
  vectorLen : Nat
  scalable : Bool := false
  deriving Repr, DecidableEq

/-- body of an identified struct (environment) -/
abbrev Env := Bytes → Option TyList

/-- gep.ResultType -/
def resultType (env : Env) (elem src : Ty) (idxs : List Index) : R :=
  let base : Option (Nat × Nat × Bool) :=          -- (addrspace, result vector length, result scalable)
    match src with
    | .ptr _ as => some (as, 0, false)
    | .vec s n (.ptr _ as) => some (as, n, s)
    | _ => none
  match base with
  | none => .panic
  | some (as, rvl0, rsc0) =>
    let rec go (e : Ty) (rvl : Nat) (rsc : Bool) (first : Bool) : List Index → R
      | [] =>
        let p := Ty.ptr e as
        if rvl != 0 then .ok (.vec rsc rvl p) else .ok p
      | ix :: rest =>
        if ix.vectorLen != 0 && rvl != 0 && ix.vectorLen != rvl then .panic
        else
          let widen := rvl == 0 && ix.vectorLen != 0
          let rsc := if widen then ix.scalable else rsc
          let rvl := if widen then ix.vectorLen else rvl
          if first then go e rvl rsc false rest
          else match e with
            | .ptr _ _ => .panic
            | .vec _ _ el => go el rvl rsc false rest
            | .arr _ el => go el rvl rsc false rest
            | .struct _ fs =>
              if !ix.hasVal then .panic
              else if ix.val < 0 then .panic
              else (match fs.get? ix.val.toNat with | some f => go f rvl rsc false rest | none => .panic)
            | .named n => (match env n with
              | some fs =>
                if !ix.hasVal then .panic
                else if ix.val < 0 then .panic
                else (match fs.get? ix.val.toNat with | some f => go f rvl rsc false rest | none => .panic)
              | none => .panic)
            | _ => .panic
    go elem rvl0 rsc0 true idxs

/-- constant index forms -/
inductive IdxConst where
  | int (v : Int)
  | zero
  | vecInts (vs : List Int)
  | vecOther (n : Nat)
  | undef | poison
  | expr (ptrtoint : Bool)
  | inrange (c : IdxConst)
  deriving Repr

structure IdxArg where
  c : Option IdxConst       -- none: a non-constant value
  tyVecLen : Nat            -- vector length of the index's type, 0 if scalar
  tyScalable : Bool
  deriving Repr

def allEq (v : Int) : List Int → Bool
  | [] => true
  | x :: xs => x == v && allEq v xs

/-- getIndex of ir/inst_memory.go and ir/constant/expr_memory.go (identical text) -/
def getIndexIR (c : IdxConst) : Option Index :=
  let c := match c with | .inrange c' => c' | c => c
  match c with
  | .int v => some ⟨true, IntLit.int64Of v, 0, false⟩
  | .zero => some ⟨true, 0, 0, false⟩
  | .vecInts [] => some ⟨false, 0, 0, false⟩
  | .vecInts (v :: vs) =>
    let v64 := IntLit.int64Of v
    if allEq v64 (vs.map IntLit.int64Of) then some ⟨true, v64, vs.length + 1, false⟩ else some ⟨false, 0, vs.length + 1, false⟩
  | .vecOther 0 => some ⟨false, 0, 0, false⟩
  | .vecOther n => some ⟨false, 0, n, false⟩   -- an element that is not an integer literal (undef, poison, an expression): no single value, but the length
  | .undef => some ⟨false, 0, 0, false⟩
  | .poison => some ⟨false, 0, 0, false⟩
  | .expr _ => some ⟨false, 0, 0, false⟩
  | .inrange _ => none                        -- nested inrange: not produced

/-- "Check if index is of vector type": the vector length and scalability of the index's TYPE override
    (a vector type of length 0 leaves VectorLen 0, which is what the model's `tyVecLen = 0` stands for) -/
def withType (a : IdxArg) (ix : Index) : Index :=
  if a.tyVecLen != 0 then { ix with vectorLen := a.tyVecLen, scalable := a.tyScalable } else ix

/-- gepInstType's per-index classification (ir/inst_memory.go) -/
def classifyInst (a : IdxArg) : Option Index :=
  match a.c with
  | some c => (getIndexIR c).map (withType a)
  | none => some (withType a ⟨false, 0, 0, false⟩)

/-- gepExprType's per-index classification (ir/constant/expr_memory.go; constants only) -/
def classifyExpr (a : IdxArg) : Option Index :=
  match a.c with
  | some c => (getIndexIR c).map (withType a)
  | none => none

/-- asm getIndex on AST constants, then the same type check (asm/inst_memory.go) -/
def getIndexAsm : IdxConst → Option Index
  | .int v => some ⟨true, IntLit.int64Of v, 0, false⟩
  | .zero => some ⟨true, 0, 0, false⟩
  | .vecInts vs => getIndexIR (.vecInts vs)
  | .vecOther 0 => some ⟨false, 0, 0, false⟩
  | .vecOther n => some ⟨false, 0, n, false⟩
  | .undef => some ⟨false, 0, 0, false⟩
  | .poison => some ⟨false, 0, 0, false⟩
  | .expr _ => some ⟨false, 0, 0, false⟩
  | .inrange _ => none                        -- instruction indices have no inrange form

def classifyAsm (a : IdxArg) : Option Index :=
  match a.c with
  | none => some (withType a ⟨false, 0, 0, false⟩)
  | some c => (getIndexAsm c).map (withType a)

def mapM? (f : α → Option β) : List α → Option (List β)
  | [] => some []
  | x :: xs => match f x, mapM? f xs with
    | some y, some ys => some (y :: ys)
    | _, _ => none

def gepWith (cl : IdxArg → Option Index) (env : Env) (elem src : Ty) (args : List IdxArg) : R :=
  match mapM? cl args with
  | some idxs => resultType env elem src idxs
  | none => .panic

def gepInst := gepWith classifyInst
def gepExpr := gepWith classifyExpr
def gepAsm := gepWith classifyAsm

namespace LLVMSpec
/-- the constant value of an index usable for struct stepping -/
def constOf : IdxConst → Option Int
  | .int v => some v
  | .zero => some 0
  | .vecInts (v :: vs) => if allEq v vs then some v else none
  | _ => none

def constVal (a : IdxArg) : Option Int :=
  match a.c with
  | some (.inrange c) => constOf c
  | some c => constOf c
  | none => none

def step (env : Env) (e : Ty) (a : IdxArg) : Option Ty :=
  match e with
  | .arr _ el => some el
  | .vec _ _ el => some el
  | .struct _ fs => (constVal a).bind fun v => if v < 0 then none else fs.get? v.toNat
  | .named n => (env n).bind fun fs => (constVal a).bind fun v => if v < 0 then none else fs.get? v.toNat
  | _ => none

def walk (env : Env) : Ty → List IdxArg → Option Ty
  | e, [] => some e
  | e, a :: rest => (step env e a).bind fun e' => walk env e' rest

/-- vector shape of the result: of the base if it is a vector, else of the first vector-typed index -/
def vecShape (src : Ty) (args : List IdxArg) : Option (Bool × Nat) :=
  match src with
  | .vec s n _ => some (s, n)
  | _ => (args.find? (fun a => a.tyVecLen != 0)).map fun a => (a.tyScalable, a.tyVecLen)

/-- LangRef: "all vector arguments should have the same number of elements" (and the same scalability) -/
def vectorOperandsAgree (src : Ty) (args : List IdxArg) : Bool :=
  match vecShape src args with
  | none => true
  | some (s, n) => n != 0 && args.all fun a => a.tyVecLen == 0 || (a.tyVecLen == n && a.tyScalable == s)

def wrap (sh : Option (Bool × Nat)) (as : Nat) (e : Ty) : Ty :=
  match sh with
  | some (s, n) => .vec s n (.ptr e as)
  | none => .ptr e as

/-- address space of the base: of the pointer, or of the pointers in the base vector -/
def baseAS : Ty → Option Nat
  | .ptr _ as => some as
  | .vec _ _ (.ptr _ as) => some as
  | _ => none

/-- LangRef getelementptr: pointer (in the base's address space) to the element reached by the indices
    after the first, widened to a vector of pointers when the base or any index is a vector -/
def gepType (env : Env) (elem src : Ty) (args : List IdxArg) : Option Ty :=
  match baseAS src with
  | none => none
  | some as => (walk env elem args.tail).map (wrap (vecShape src args) as)
end LLVMSpec

end Llir.Gep
