import LlirModel.Typing
import LlirModel.IntLit
/-! Model of /repo/internal/gep/gep.go (ResultType) and of the three `getIndex` classifiers:
    ir/inst_memory.go (instruction constructor), ir/constant/expr_memory.go (constant expression,
    also used by the parser for constant gep expressions) and asm/inst_memory.go (parser, instructions). -/
namespace Llir.Gep
open Llir Llir.Types Llir.Typing

structure Index where
  hasVal : Bool
  val : Int
  vectorLen : Nat
  deriving Repr, DecidableEq

/-- body of an identified struct (environment) -/
abbrev Env := Bytes → Option TyList

/-- gep.ResultType -/
def resultType (env : Env) (elem src : Ty) (idxs : List Index) : R :=
  let base : Option (Nat × Nat) :=          -- (addrspace, result vector length)
    match src with
    | .ptr _ as => some (as, 0)
    | .vec _ n (.ptr _ as) => some (as, n)
    | _ => none
  match base with
  | none => .panic
  | some (as, rvl0) =>
    let rec go (e : Ty) (rvl : Nat) (first : Bool) : List Index → R
      | [] =>
        let p := Ty.ptr e as
        if rvl != 0 then .ok (.vec false rvl p) else .ok p
      | ix :: rest =>
        if ix.vectorLen != 0 && rvl != 0 && ix.vectorLen != rvl then .panic
        else
          let rvl := if rvl == 0 && ix.vectorLen != 0 then ix.vectorLen else rvl
          if first then go e rvl false rest
          else match e with
            | .ptr _ _ => .panic
            | .vec _ _ el => go el rvl false rest
            | .arr _ el => go el rvl false rest
            | .struct _ fs =>
              if !ix.hasVal then .panic
              else if ix.val < 0 then .panic
              else (match fs.get? ix.val.toNat with | some f => go f rvl false rest | none => .panic)
            | .named n => (match env n with
              | some fs =>
                if !ix.hasVal then .panic
                else if ix.val < 0 then .panic
                else (match fs.get? ix.val.toNat with | some f => go f rvl false rest | none => .panic)
              | none => .panic)
            | _ => .panic
    go elem rvl0 true idxs

/-- constant index forms -/
inductive IdxConst where
  | int (v : Int)
  | zero
  | vecInts (vs : List Int)
  | vecOther (n : Nat)
  | undef | poison
  | expr (ptrtoint : Bool)
  | inrange (c : IdxConst)
  deriving Repr

structure IdxArg where
  c : Option IdxConst       -- none: a non-constant value
  tyVecLen : Nat            -- vector length of the index's type, 0 if scalar
  tyScalable : Bool
  deriving Repr

def allEq (v : Int) : List Int → Bool
  | [] => true
  | x :: xs => x == v && allEq v xs

/-- getIndex of ir/inst_memory.go and ir/constant/expr_memory.go (identical text) -/
def getIndexIR (c : IdxConst) : Option Index :=
  let c := match c with | .inrange c' => c' | c => c
  match c with
  | .int v => some ⟨true, IntLit.int64Of v, 0⟩
  | .zero => some ⟨true, 0, 0⟩
  | .vecInts [] => some ⟨false, 0, 0⟩
  | .vecInts (v :: vs) =>
    let v64 := IntLit.int64Of v
    if allEq v64 (vs.map IntLit.int64Of) then some ⟨true, v64, vs.length + 1⟩ else some ⟨false, 0, vs.length + 1⟩
  | .vecOther 0 => some ⟨false, 0, 0⟩
  | .vecOther _ => none                       -- panic: unsupported element
  | .undef => some ⟨false, 0, 0⟩
  | .poison => some ⟨false, 0, 0⟩
  | .expr _ => some ⟨false, 0, 0⟩
  | .inrange _ => none                        -- nested inrange: not produced

/-- gepInstType's per-index classification -/
def classifyInst (a : IdxArg) : Option Index :=
  match a.c with
  | some c => getIndexIR c
  | none => some ⟨false, 0, a.tyVecLen⟩

/-- gepExprType's per-index classification (the vector length of the TYPE overrides) -/
def classifyExpr (a : IdxArg) : Option Index :=
  match a.c with
  | some c => (getIndexIR c).map fun ix => if a.tyVecLen != 0 then { ix with vectorLen := a.tyVecLen } else ix
  | none => none

/-- asm getIndex on AST constants -/
def classifyAsm (a : IdxArg) : Option Index :=
  match a.c with
  | none => some ⟨false, 0, a.tyVecLen⟩
  | some (.int v) => some ⟨true, IntLit.int64Of v, 0⟩
  | some .zero => some ⟨true, 0, 0⟩
  | some (.vecInts vs) => getIndexIR (.vecInts vs)
  | some (.vecOther 0) => some ⟨false, 0, 0⟩
  | some (.vecOther _) => none
  | some .undef => some ⟨false, 0, 0⟩
  | some .poison => some ⟨false, 0, 0⟩
  | some (.expr true) => some ⟨false, 0, 0⟩
  | some (.expr false) => none               -- panic: unsupported constant expression
  | some (.inrange _) => none

def mapM? (f : α → Option β) : List α → Option (List β)
  | [] => some []
  | x :: xs => match f x, mapM? f xs with
    | some y, some ys => some (y :: ys)
    | _, _ => none

def gepWith (cl : IdxArg → Option Index) (env : Env) (elem src : Ty) (args : List IdxArg) : R :=
  match mapM? cl args with
  | some idxs => resultType env elem src idxs
  | none => .panic

def gepInst := gepWith classifyInst
def gepExpr := gepWith classifyExpr
def gepAsm := gepWith classifyAsm

namespace LLVMSpec
/-- the constant value of an index usable for struct stepping -/
def constVal : IdxArg → Option Int
  | ⟨some (.int v), _, _⟩ => some v
  | ⟨some .zero, _, _⟩ => some 0
  | ⟨some (.vecInts (v :: vs)), _, _⟩ => if allEq v vs then some v else none
  | ⟨some (.inrange (.int v)), _, _⟩ => some v
  | _ => none

def step (env : Env) (e : Ty) (a : IdxArg) : Option Ty :=
  match e with
  | .arr _ el => some el
  | .vec _ _ el => some el
  | .struct _ fs => (constVal a).bind fun v => if v < 0 then none else fs.get? v.toNat
  | .named n => (env n).bind fun fs => (constVal a).bind fun v => if v < 0 then none else fs.get? v.toNat
  | _ => none

def walk (env : Env) : Ty → List IdxArg → Option Ty
  | e, [] => some e
  | e, a :: rest => (step env e a).bind fun e' => walk env e' rest

/-- vector shape of the result: of the base if it is a vector, else of the first vector-typed index -/
def vecShape (src : Ty) (args : List IdxArg) : Option (Bool × Nat) :=
  match src with
  | .vec s n _ => some (s, n)
  | _ => (args.find? (fun a => a.tyVecLen != 0)).map fun a => (a.tyScalable, a.tyVecLen)

/-- LangRef getelementptr: pointer (in the base's address space) to the element reached, widened to a
    vector of pointers when the base or any index is a vector -/
def gepType (env : Env) (elem src : Ty) (args : List IdxArg) : Option Ty :=
  let as? : Option Nat := match src with | .ptr _ as => some as | .vec _ _ (.ptr _ as) => some as | _ => none
  match as?, args with
  | some as, _ :: rest =>
    (walk env elem rest).map fun e =>
      match vecShape src args with
      | some (s, n) => .vec s n (.ptr e as)
      | none => .ptr e as
  | some as, [] => some (match vecShape src [] with | some (s, n) => .vec s n (.ptr elem as) | none => .ptr elem as)
  | none, _ => none
end LLVMSpec

end Llir.Gep
