import LlirModel.Core2
import LlirModel.Numbering
import LlirModel.Gep
/-! M-Core, third fragment: FUNCTION DEFINITIONS with bodies — parameters, basic blocks (named or numbered), instructions whose operands are local
    values (names or IDs) or constants of the Core2 fragment, and terminators.

    Printing side: ir/func.go (header, blocks separated by an empty line), ir/block.go (label line, one tab-indented line per instruction),
    the LLString methods of ir/inst_binary.go, inst_bitwise.go, inst_memory.go (load / store), inst_other.go (icmp, select) and ir/terminator.go
    (ret, br, condbr, unreachable); operands print as `T V` with `V` the identifier of a local (`%x`, `%7`) or a constant.
    Parsing side: each line is read by the byte-level readers below (stand-ins for the grammar of llir/ll, compared with the real parser by the
    harness), then translated as asm/local.go does: definitions indexed (duplicates rejected), AssignIDs on the scaffold (`Numbering.parseAssign`),
    uses resolved (undefined names rejected). The type written in front of a LOCAL operand is discarded by the real parser (asm/value.go): the
    operand carries the type of its definition, which is what `retype` does.

    Every instruction kind is a ROW of a table: a fixed prefix and a list of slots (type, typed operand, operand of the current type, label,
    return value); printer and reader are generic over the table, so the round-trip theorem is proved once for all rows. -/
namespace Llir.Core3
open Llir Llir.Types Llir.Core2 Llir.Numbering

inductive Ident where
  | name (n : Bytes)
  | id (k : Nat)
  | anon                  -- no identifier written (a nameless result or an unlabelled block): only ever produced by the READER; numbered by `translate`
  deriving DecidableEq, Repr, Inhabited

/-- `%x` / `%"a b"` / `%7` (ir.LocalIdent.Ident) -/
def identString : Ident → Bytes
  | .name n => Enc.localName n
  | .id k => 37 :: natDec k
  | .anon => []

/-- `x:` / `"a b":` / `7:` (the label line of a block) -/
def labelString : Ident → Bytes
  | .name n => Enc.labelName n
  | .id k => natDec k ++ [58]
  | .anon => []

/-- delimit an identifier body at the head of `s` the way the lexer does: a quoted string up to its closing quote, or a run of name characters -/
def takeBody (s : Bytes) : Option (Bytes × Bytes) :=
  match s with
  | 34 :: r =>
    (match r.dropWhile (· != 34) with
     | 34 :: rest => some (34 :: (r.takeWhile (· != 34) ++ [34]), rest)
     | _ => none)
  | _ =>
    let tok := s.takeWhile Enc.inTail
    if tok.isEmpty then none else some (tok, s.dropWhile Enc.inTail)

def ofEnc : Enc.Ident → Ident
  | .name n => .name n
  | .id k => .id k.toNat

/-- `%` + identifier body, decoded as asm.localIdent decodes it -/
def readIdent (s : Bytes) : Option (Ident × Bytes) :=
  match s with
  | 37 :: r =>
    (match takeBody r with
     | some (tok, rest) => some (ofEnc (Enc.decodeIdentBody tok), rest)
     | none => none)
  | _ => none

/-- a whole label line -/
def readLabel (s : Bytes) : Option Ident :=
  match takeBody s with
  | some (tok, [58]) => some (ofEnc (Enc.decodeIdentBody tok))
  | _ => none

inductive Operand where
  | loc (i : Ident)
  | const (c : Const)
  | glob (n : Bytes)          -- a named global variable or function `@name` (resolved against the module: M-Whole)
  deriving Inhabited

def operandString (useHex : Int → Bool) (t : Ty) : Operand → Bytes
  | .loc i => identString i
  | .const c => constIdent useHex t c
  | .glob n => Enc.globalName n

/-- `@` + identifier body; only NAMED globals are in the fragment -/
def readGlobal (s : Bytes) : Option (Bytes × Bytes) :=
  match s with
  | 64 :: r =>
    (match takeBody r with
     | some (tok, rest) => (match Enc.decodeIdentBody tok with | .name n => some (n, rest) | _ => none)
     | none => none)
  | _ => none

def readOperand (t : Ty) (s : Bytes) : Option (Operand × Bytes) :=
  if s.head? == some 37 then
    (match readIdent s with | some (i, r) => some (.loc i, r) | none => none)
  else if s.head? == some 64 then
    (match readGlobal s with | some (n, r) => some (.glob n, r) | none => none)
  else
    (match parseConst (s.length + 1) t s with | some (c, r) => some (.const c, r) | none => none)

/-! ### metadata names and IDs (shared with M-Meta) -/

/-- `!name` (ir/metadata: enc.MetadataName; the empty name has no spelling) -/
def mdName (name : Bytes) : Bytes :=
  match Enc.metadataName name with
  | .ok s => s
  | .panic => []

def isMdNameChar (c : UInt8) : Bool := Enc.isLetter c || isDigit c || c == 92

def mdID (n : Nat) : Bytes := 33 :: natDec n

/-! ### rows -/

inductive Slot where
  | lit (s : Bytes)      -- fixed text (every literal inside a row starts with a comma)
  | ty                   -- a type; becomes the current type
  | tyval                -- `T V`; T becomes the current type
  | val                  -- an operand of the current type
  | lab                  -- `%b`
  | retv                 -- `void` or `T V`
  | phis                 -- `[ V, %b ], [ V, %b ] ...` (operands of the current type); only as the last slot of a row
  | nums                 -- `, 1, 0` (the index path of extractvalue / insertvalue); only as the last slot of a row
  | align                -- nothing or `, align N`; only as the last slot of a row
  | tyvals               -- `, T V` zero or more times (the indices of getelementptr); only as the last slot of a row
  | callee               -- the callee of a call: a local `%x` or a global `@f` (argument: `.val`); followed by the argument list only
  | cargs                -- `(T V, T V, …)` (the arguments of a call; argument: `.tyvals`); only as the last slot of a row
  | kw (ks : List Bytes)     -- exactly one of the keywords `ks`, printed as it stands (an atomic ordering ` seq_cst`, an atomicrmw operation `add `)
  | okw (ks : List Bytes)    -- nothing or one of the keywords `ks` (the ordering of an atomic load / store); only in front of the final `align` slot
  | loc                  -- `%x`: a local VALUE named without a type (the pad of a catchret / cleanupret, the catchswitch of a catchpad); not a label
  | pad                  -- `none` or `%x` (the parent pad of a catchswitch / cleanuppad)
  | labs                 -- `label %a, label %b` zero or more times (the targets of indirectbr, the handlers of catchswitch); in front of a literal that starts with `]`
  | unwind               -- `to caller` or `label %b` (the unwind target of catchswitch / cleanupret); only as the last slot of a row
  | eargs                -- `[T V, T V, …]` (the arguments of a catchpad / cleanuppad; argument: `.tyvals`); only as the last slot of a row
  | flags (ks : List Bytes)  -- any sequence of the keywords `ks`, each followed by a space (`nuw nsw `, `exact `, fast-math flags, `volatile `); in front of a `tyval` slot or of a `ty` slot followed by `, `
  deriving DecidableEq

inductive Arg where
  | ty (t : Ty)
  | tyval (t : Ty) (o : Operand)
  | val (o : Operand)
  | lab (i : Ident)
  | retv (v : Option (Ty × Operand))
  | phis (incs : List (Operand × Ident))
  | nums (ks : List Nat)
  | align (a : Option Nat)
  | tyvals (ixs : List (Ty × Operand))
  | flags (xs : List Nat)      -- positions in the keyword list of the slot, in the order written
  | kw (i : Nat)               -- position in the keyword list of the slot
  | okw (i : Option Nat)
  | loc (i : Ident)
  | pad (p : Option Ident)
  | labs (l : List Ident)
  | unwind (u : Option Ident)
  deriving Inhabited

/-- how the type of the result is obtained (asm newXxxInst: from the types WRITTEN in the defining instruction) -/
inductive ResKind where
  | none | first | cmp | loadTy | second | lastTy | elem | firstVec | shuffle | ptrOf | aggElem | gep | cmpxchg | pointee | token

structure Row where
  hasRes : Bool
  pre : Bytes
  cur0 : Ty
  slots : List Slot
  res : ResKind
  term : Bool

def sCommaLabel : Bytes := [44, 32, 108, 97, 98, 101, 108, 32]        -- ", label "
def sEq : Bytes := [32, 61, 32]                                          -- " = "
def sTo : Bytes := [32, 116, 111, 32]                                    -- " to "
def sPhiOpen : Bytes := [91, 32]                                         -- "[ "
def sPhiClose : Bytes := [32, 93]                                        -- " ]"

def kOverflow : List Bytes := [[110, 117, 119], [110, 115, 119]]          -- nuw nsw
def kExact : List Bytes := [[101, 120, 97, 99, 116]]                      -- exact
def kInbounds : List Bytes := [[105, 110, 98, 111, 117, 110, 100, 115]]     -- inbounds
def kVolatile : List Bytes := [[118, 111, 108, 97, 116, 105, 108, 101]]   -- volatile
/-- `atomic`, `volatile` (load / store: each at most once, in this order) -/
def kAtomicVolatile : List Bytes := [[97, 116, 111, 109, 105, 99], [118, 111, 108, 97, 116, 105, 108, 101]]
/-- `weak`, `volatile` (cmpxchg: each at most once, in this order) -/
def kWeakVolatile : List Bytes := [[119, 101, 97, 107], [118, 111, 108, 97, 116, 105, 108, 101]]
/-- the atomic orderings, each behind the space that separates it from what precedes: unordered monotonic acquire release acq_rel seq_cst -/
def kOrdSp : List Bytes := [[32, 117, 110, 111, 114, 100, 101, 114, 101, 100], [32, 109, 111, 110, 111, 116, 111, 110, 105, 99], [32, 97, 99, 113, 117, 105, 114, 101],
  [32, 114, 101, 108, 101, 97, 115, 101], [32, 97, 99, 113, 95, 114, 101, 108], [32, 115, 101, 113, 95, 99, 115, 116]]
/-- the atomicrmw operations in the order of enum.AtomicOp, each followed by a space: add and fadd fmax fmin fsub max min nand or sub umax umin xchg xor -/
def kRmwOps : List Bytes := [[97, 100, 100, 32], [97, 110, 100, 32], [102, 97, 100, 100, 32], [102, 109, 97, 120, 32], [102, 109, 105, 110, 32], [102, 115, 117, 98, 32],
  [109, 97, 120, 32], [109, 105, 110, 32], [110, 97, 110, 100, 32], [111, 114, 32], [115, 117, 98, 32], [117, 109, 97, 120, 32], [117, 109, 105, 110, 32],
  [120, 99, 104, 103, 32], [120, 111, 114, 32]]
/-- fast-math flags: nnan ninf nsz arcp contract afn reassoc fast -/
def kFMF : List Bytes := [[110, 110, 97, 110], [110, 105, 110, 102], [110, 115, 122], [97, 114, 99, 112], [99, 111, 110, 116, 114, 97, 99, 116],
  [97, 102, 110], [114, 101, 97, 115, 115, 111, 99], [102, 97, 115, 116]]

def rows : List Row := [
  ⟨true, [97, 100, 100, 32], .void, [.flags kOverflow, .tyval, .lit sComma, .val], .first, false⟩,
  ⟨true, [115, 117, 98, 32], .void, [.flags kOverflow, .tyval, .lit sComma, .val], .first, false⟩,
  ⟨true, [109, 117, 108, 32], .void, [.flags kOverflow, .tyval, .lit sComma, .val], .first, false⟩,
  ⟨true, [117, 100, 105, 118, 32], .void, [.flags kExact, .tyval, .lit sComma, .val], .first, false⟩,
  ⟨true, [115, 100, 105, 118, 32], .void, [.flags kExact, .tyval, .lit sComma, .val], .first, false⟩,
  ⟨true, [117, 114, 101, 109, 32], .void, [.tyval, .lit sComma, .val], .first, false⟩,
  ⟨true, [115, 114, 101, 109, 32], .void, [.tyval, .lit sComma, .val], .first, false⟩,
  ⟨true, [115, 104, 108, 32], .void, [.flags kOverflow, .tyval, .lit sComma, .val], .first, false⟩,
  ⟨true, [108, 115, 104, 114, 32], .void, [.flags kExact, .tyval, .lit sComma, .val], .first, false⟩,
  ⟨true, [97, 115, 104, 114, 32], .void, [.flags kExact, .tyval, .lit sComma, .val], .first, false⟩,
  ⟨true, [97, 110, 100, 32], .void, [.tyval, .lit sComma, .val], .first, false⟩,
  ⟨true, [111, 114, 32], .void, [.tyval, .lit sComma, .val], .first, false⟩,
  ⟨true, [120, 111, 114, 32], .void, [.tyval, .lit sComma, .val], .first, false⟩,
  ⟨true, [105, 99, 109, 112, 32, 101, 113, 32], .void, [.tyval, .lit sComma, .val], .cmp, false⟩,
  ⟨true, [105, 99, 109, 112, 32, 110, 101, 32], .void, [.tyval, .lit sComma, .val], .cmp, false⟩,
  ⟨true, [105, 99, 109, 112, 32, 117, 103, 116, 32], .void, [.tyval, .lit sComma, .val], .cmp, false⟩,
  ⟨true, [105, 99, 109, 112, 32, 117, 103, 101, 32], .void, [.tyval, .lit sComma, .val], .cmp, false⟩,
  ⟨true, [105, 99, 109, 112, 32, 117, 108, 116, 32], .void, [.tyval, .lit sComma, .val], .cmp, false⟩,
  ⟨true, [105, 99, 109, 112, 32, 117, 108, 101, 32], .void, [.tyval, .lit sComma, .val], .cmp, false⟩,
  ⟨true, [105, 99, 109, 112, 32, 115, 103, 116, 32], .void, [.tyval, .lit sComma, .val], .cmp, false⟩,
  ⟨true, [105, 99, 109, 112, 32, 115, 103, 101, 32], .void, [.tyval, .lit sComma, .val], .cmp, false⟩,
  ⟨true, [105, 99, 109, 112, 32, 115, 108, 116, 32], .void, [.tyval, .lit sComma, .val], .cmp, false⟩,
  ⟨true, [105, 99, 109, 112, 32, 115, 108, 101, 32], .void, [.tyval, .lit sComma, .val], .cmp, false⟩,
  ⟨true, [108, 111, 97, 100, 32], .void, [.flags kAtomicVolatile, .ty, .lit sComma, .tyval, .okw kOrdSp, .align], .loadTy, false⟩,
  ⟨false, [115, 116, 111, 114, 101, 32], .void, [.flags kAtomicVolatile, .tyval, .lit sComma, .tyval, .okw kOrdSp, .align], .none, false⟩,
  ⟨true, [115, 101, 108, 101, 99, 116, 32], .void, [.tyval, .lit sComma, .tyval, .lit sComma, .tyval], .second, false⟩,
  ⟨false, [114, 101, 116, 32], .void, [.retv], .none, true⟩,
  ⟨false, [98, 114, 32, 108, 97, 98, 101, 108, 32], .void, [.lab], .none, true⟩,
  ⟨false, [98, 114, 32, 105, 49, 32], .int 1, [.val, .lit sCommaLabel, .lab, .lit sCommaLabel, .lab], .none, true⟩,
  ⟨false, [117, 110, 114, 101, 97, 99, 104, 97, 98, 108, 101], .void, [], .none, true⟩,
  ⟨true, [116, 114, 117, 110, 99, 32], .void, [.tyval, .lit sTo, .ty], .lastTy, false⟩,
  ⟨true, [122, 101, 120, 116, 32], .void, [.tyval, .lit sTo, .ty], .lastTy, false⟩,
  ⟨true, [115, 101, 120, 116, 32], .void, [.tyval, .lit sTo, .ty], .lastTy, false⟩,
  ⟨true, [102, 112, 116, 114, 117, 110, 99, 32], .void, [.tyval, .lit sTo, .ty], .lastTy, false⟩,
  ⟨true, [102, 112, 101, 120, 116, 32], .void, [.tyval, .lit sTo, .ty], .lastTy, false⟩,
  ⟨true, [102, 112, 116, 111, 117, 105, 32], .void, [.tyval, .lit sTo, .ty], .lastTy, false⟩,
  ⟨true, [102, 112, 116, 111, 115, 105, 32], .void, [.tyval, .lit sTo, .ty], .lastTy, false⟩,
  ⟨true, [117, 105, 116, 111, 102, 112, 32], .void, [.tyval, .lit sTo, .ty], .lastTy, false⟩,
  ⟨true, [115, 105, 116, 111, 102, 112, 32], .void, [.tyval, .lit sTo, .ty], .lastTy, false⟩,
  ⟨true, [112, 116, 114, 116, 111, 105, 110, 116, 32], .void, [.tyval, .lit sTo, .ty], .lastTy, false⟩,
  ⟨true, [105, 110, 116, 116, 111, 112, 116, 114, 32], .void, [.tyval, .lit sTo, .ty], .lastTy, false⟩,
  ⟨true, [98, 105, 116, 99, 97, 115, 116, 32], .void, [.tyval, .lit sTo, .ty], .lastTy, false⟩,
  ⟨true, [97, 100, 100, 114, 115, 112, 97, 99, 101, 99, 97, 115, 116, 32], .void, [.tyval, .lit sTo, .ty], .lastTy, false⟩,
  ⟨true, [112, 104, 105, 32], .void, [.ty, .lit [32], .phis], .loadTy, false⟩,
  ⟨true, [102, 114, 101, 101, 122, 101, 32], .void, [.tyval], .first, false⟩,
  -- 45: fneg; 46–50: fadd fsub fmul fdiv frem; 51–66: fcmp (16 predicates); 67–69: extractelement insertelement shufflevector; 70: alloca
  ⟨true, [102, 110, 101, 103, 32], .void, [.flags kFMF, .tyval], .first, false⟩,
  ⟨true, [102, 97, 100, 100, 32], .void, [.flags kFMF, .tyval, .lit sComma, .val], .first, false⟩,
  ⟨true, [102, 115, 117, 98, 32], .void, [.flags kFMF, .tyval, .lit sComma, .val], .first, false⟩,
  ⟨true, [102, 109, 117, 108, 32], .void, [.flags kFMF, .tyval, .lit sComma, .val], .first, false⟩,
  ⟨true, [102, 100, 105, 118, 32], .void, [.flags kFMF, .tyval, .lit sComma, .val], .first, false⟩,
  ⟨true, [102, 114, 101, 109, 32], .void, [.flags kFMF, .tyval, .lit sComma, .val], .first, false⟩,
  ⟨true, [102, 99, 109, 112, 32, 102, 97, 108, 115, 101, 32], .void, [.tyval, .lit sComma, .val], .cmp, false⟩,
  ⟨true, [102, 99, 109, 112, 32, 111, 101, 113, 32], .void, [.tyval, .lit sComma, .val], .cmp, false⟩,
  ⟨true, [102, 99, 109, 112, 32, 111, 103, 116, 32], .void, [.tyval, .lit sComma, .val], .cmp, false⟩,
  ⟨true, [102, 99, 109, 112, 32, 111, 103, 101, 32], .void, [.tyval, .lit sComma, .val], .cmp, false⟩,
  ⟨true, [102, 99, 109, 112, 32, 111, 108, 116, 32], .void, [.tyval, .lit sComma, .val], .cmp, false⟩,
  ⟨true, [102, 99, 109, 112, 32, 111, 108, 101, 32], .void, [.tyval, .lit sComma, .val], .cmp, false⟩,
  ⟨true, [102, 99, 109, 112, 32, 111, 110, 101, 32], .void, [.tyval, .lit sComma, .val], .cmp, false⟩,
  ⟨true, [102, 99, 109, 112, 32, 111, 114, 100, 32], .void, [.tyval, .lit sComma, .val], .cmp, false⟩,
  ⟨true, [102, 99, 109, 112, 32, 117, 101, 113, 32], .void, [.tyval, .lit sComma, .val], .cmp, false⟩,
  ⟨true, [102, 99, 109, 112, 32, 117, 103, 116, 32], .void, [.tyval, .lit sComma, .val], .cmp, false⟩,
  ⟨true, [102, 99, 109, 112, 32, 117, 103, 101, 32], .void, [.tyval, .lit sComma, .val], .cmp, false⟩,
  ⟨true, [102, 99, 109, 112, 32, 117, 108, 116, 32], .void, [.tyval, .lit sComma, .val], .cmp, false⟩,
  ⟨true, [102, 99, 109, 112, 32, 117, 108, 101, 32], .void, [.tyval, .lit sComma, .val], .cmp, false⟩,
  ⟨true, [102, 99, 109, 112, 32, 117, 110, 101, 32], .void, [.tyval, .lit sComma, .val], .cmp, false⟩,
  ⟨true, [102, 99, 109, 112, 32, 117, 110, 111, 32], .void, [.tyval, .lit sComma, .val], .cmp, false⟩,
  ⟨true, [102, 99, 109, 112, 32, 116, 114, 117, 101, 32], .void, [.tyval, .lit sComma, .val], .cmp, false⟩,
  ⟨true, [101, 120, 116, 114, 97, 99, 116, 101, 108, 101, 109, 101, 110, 116, 32], .void, [.tyval, .lit sComma, .tyval], .elem, false⟩,
  ⟨true, [105, 110, 115, 101, 114, 116, 101, 108, 101, 109, 101, 110, 116, 32], .void, [.tyval, .lit sComma, .tyval, .lit sComma, .tyval], .firstVec, false⟩,
  ⟨true, [115, 104, 117, 102, 102, 108, 101, 118, 101, 99, 116, 111, 114, 32], .void, [.tyval, .lit sComma, .tyval, .lit sComma, .tyval], .shuffle, false⟩,
  ⟨true, [97, 108, 108, 111, 99, 97, 32], .void, [.ty, .align], .ptrOf, false⟩,
  -- 71: extractvalue; 72: insertvalue
  ⟨true, [101, 120, 116, 114, 97, 99, 116, 118, 97, 108, 117, 101, 32], .void, [.tyval, .nums], .aggElem, false⟩,
  ⟨true, [105, 110, 115, 101, 114, 116, 118, 97, 108, 117, 101, 32], .void, [.tyval, .lit sComma, .tyval, .nums], .first, false⟩,
  -- 73: getelementptr
  ⟨true, [103, 101, 116, 101, 108, 101, 109, 101, 110, 116, 112, 116, 114, 32], .void, [.flags kInbounds, .ty, .lit sComma, .tyval, .tyvals], .gep, false⟩,
  -- 74: call void (no result); 75: call T (a value; `T` is the return type written in the instruction and is not `void`)
  ⟨false, [99, 97, 108, 108, 32, 118, 111, 105, 100, 32], .void, [.callee, .cargs], .none, false⟩,
  ⟨true, [99, 97, 108, 108, 32], .void, [.ty, .lit [32], .callee, .cargs], .loadTy, false⟩,
  -- 76–81: the same with a tail-call marker in front: `tail call`, `musttail call`, `notail call` (void, value)
  ⟨false, [116, 97, 105, 108, 32, 99, 97, 108, 108, 32, 118, 111, 105, 100, 32], .void, [.callee, .cargs], .none, false⟩,
  ⟨true, [116, 97, 105, 108, 32, 99, 97, 108, 108, 32], .void, [.ty, .lit [32], .callee, .cargs], .loadTy, false⟩,
  ⟨false, [109, 117, 115, 116, 116, 97, 105, 108, 32, 99, 97, 108, 108, 32, 118, 111, 105, 100, 32], .void, [.callee, .cargs], .none, false⟩,
  ⟨true, [109, 117, 115, 116, 116, 97, 105, 108, 32, 99, 97, 108, 108, 32], .void, [.ty, .lit [32], .callee, .cargs], .loadTy, false⟩,
  ⟨false, [110, 111, 116, 97, 105, 108, 32, 99, 97, 108, 108, 32, 118, 111, 105, 100, 32], .void, [.callee, .cargs], .none, false⟩,
  ⟨true, [110, 111, 116, 97, 105, 108, 32, 99, 97, 108, 108, 32], .void, [.ty, .lit [32], .callee, .cargs], .loadTy, false⟩,
  -- 82: switch — the line `switch T V, label %d [`; the cases follow on lines of their own (`Inst.cases`), closed by the line `\t]`
  ⟨false, [115, 119, 105, 116, 99, 104, 32], .void, [.tyval, .lit sCommaLabel, .lab, .lit [32, 91]], .none, true⟩,
  -- 83: invoke void; 84: invoke T (a terminator with a value) — the line `invoke T @f(args)`; the line `<tab><tab>to label %n unwind label %u` follows
  ⟨false, [105, 110, 118, 111, 107, 101, 32, 118, 111, 105, 100, 32], .void, [.callee, .cargs], .none, true⟩,
  ⟨true, [105, 110, 118, 111, 107, 101, 32], .void, [.ty, .lit [32], .callee, .cargs], .loadTy, true⟩,
  -- 85: landingpad — the line `landingpad T`; `cleanup` and the clauses follow on lines of their own
  ⟨true, [108, 97, 110, 100, 105, 110, 103, 112, 97, 100, 32], .void, [.ty], .loadTy, false⟩,
  -- 86: resume; 87: va_arg
  ⟨false, [114, 101, 115, 117, 109, 101, 32], .void, [.tyval], .none, true⟩,
  ⟨true, [118, 97, 95, 97, 114, 103, 32], .void, [.tyval, .lit sComma, .ty], .lastTy, false⟩,
  -- 88: fence (the ordering keyword carries its leading space); 89: cmpxchg; 90: atomicrmw
  ⟨false, [102, 101, 110, 99, 101], .void, [.kw kOrdSp], .none, false⟩,
  ⟨true, [99, 109, 112, 120, 99, 104, 103, 32], .void, [.flags kWeakVolatile, .tyval, .lit sComma, .tyval, .lit sComma, .tyval, .kw kOrdSp, .kw kOrdSp, .align], .cmpxchg, false⟩,
  ⟨true, [97, 116, 111, 109, 105, 99, 114, 109, 119, 32], .void, [.flags kVolatile, .kw kRmwOps, .tyval, .lit sComma, .tyval, .kw kOrdSp, .align], .pointee, false⟩,
  -- 91: indirectbr T V, [label %a, label %b]
  ⟨false, [105, 110, 100, 105, 114, 101, 99, 116, 98, 114, 32], .void, [.tyval, .lit [44, 32, 91], .labs, .lit [93]], .none, true⟩,
  -- 92: catchswitch within P [label %h, …] unwind U (a terminator with a result of type token)
  ⟨true, [99, 97, 116, 99, 104, 115, 119, 105, 116, 99, 104, 32, 119, 105, 116, 104, 105, 110, 32], .void,
    [.pad, .lit [32, 91], .labs, .lit [93, 32, 117, 110, 119, 105, 110, 100, 32], .unwind], .token, true⟩,
  -- 93: catchret from %pad to label %b; 94: cleanupret from %pad unwind U
  ⟨false, [99, 97, 116, 99, 104, 114, 101, 116, 32, 102, 114, 111, 109, 32], .void, [.loc, .lit [32, 116, 111, 32, 108, 97, 98, 101, 108, 32], .lab], .none, true⟩,
  ⟨false, [99, 108, 101, 97, 110, 117, 112, 114, 101, 116, 32, 102, 114, 111, 109, 32], .void, [.loc, .lit [32, 117, 110, 119, 105, 110, 100, 32], .unwind], .none, true⟩,
  -- 95: catchpad within %cs [args]; 96: cleanuppad within P [args]
  ⟨true, [99, 97, 116, 99, 104, 112, 97, 100, 32, 119, 105, 116, 104, 105, 110, 32], .void, [.loc, .lit [32], .eargs], .token, false⟩,
  ⟨true, [99, 108, 101, 97, 110, 117, 112, 112, 97, 100, 32, 119, 105, 116, 104, 105, 110, 32], .void, [.pad, .lit [32], .eargs], .token, false⟩
]

/-- the row of `switch` -/
def swRow : Nat := 82
/-- the rows of `invoke` -/
def invRows : List Nat := [83, 84]
/-- the row of `landingpad` -/
def lpRow : Nat := 85

def phisString (useHex : Int → Bool) (cur : Ty) : List (Operand × Ident) → Bytes
  | [] => []
  | [(o, b)] => sPhiOpen ++ operandString useHex cur o ++ sComma ++ identString b ++ sPhiClose
  | (o, b) :: p :: ps => sPhiOpen ++ operandString useHex cur o ++ sComma ++ identString b ++ sPhiClose ++ sComma ++ phisString useHex cur (p :: ps)

def sAlign : Bytes := [44, 32, 97, 108, 105, 103, 110, 32]          -- ", align "

/-- `, k` for every index -/
def numsString : List Nat → Bytes
  | [] => []
  | k :: ks => sComma ++ natDec k ++ numsString ks

def alignString : Option Nat → Bytes
  | none => []
  | some n => sAlign ++ natDec n

/-- `, T V` for every index -/
def tyvalsString (useHex : Int → Bool) : List (Ty × Operand) → Bytes
  | [] => []
  | (t, o) :: r => sComma ++ tyString t ++ [32] ++ operandString useHex t o ++ tyvalsString useHex r

/-- the type at which the callee of a call is read: a pointer (the callee is never a constant in the fragment, so its pointee does not matter) -/
def calleeTy : Ty := .ptr (.int 8) 0

/-- `(T V, T V, …)`: the list `, T V…` without its first separator, in parentheses -/
def cargsString (useHex : Int → Bool) (as : List (Ty × Operand)) : Bytes := [40] ++ (tyvalsString useHex as).drop 2 ++ [41]

/-- `[T V, T V, …]`: the arguments of a catchpad / cleanuppad -/
def eargsString (useHex : Int → Bool) (as : List (Ty × Operand)) : Bytes := [91] ++ (tyvalsString useHex as).drop 2 ++ [93]

def sNone : Bytes := [110, 111, 110, 101]                                 -- "none"
def sLabel : Bytes := [108, 97, 98, 101, 108, 32]                          -- "label "
def sToCaller : Bytes := [116, 111, 32, 99, 97, 108, 108, 101, 114]      -- "to caller"

def padString : Option Ident → Bytes
  | none => sNone
  | some i => identString i

/-- `label %a, label %b` -/
def labsString : List Ident → Bytes
  | [] => []
  | [i] => sLabel ++ identString i
  | i :: j :: r => sLabel ++ identString i ++ sComma ++ labsString (j :: r)

def unwindString : Option Ident → Bytes
  | none => sToCaller
  | some i => sLabel ++ identString i

/-- the keywords at the given positions, each followed by a space -/
def flagsString (ks : List Bytes) : List Nat → Bytes
  | [] => []
  | i :: xs => ks.getD i [] ++ [32] ++ flagsString ks xs

def printSlots (useHex : Int → Bool) : Ty → List Slot → List Arg → Bytes
  | _, [], _ => []
  | cur, .lit s :: fs, as => s ++ printSlots useHex cur fs as
  | _, .ty :: fs, .ty t :: as => tyString t ++ printSlots useHex t fs as
  | _, .tyval :: fs, .tyval t o :: as => tyString t ++ [32] ++ operandString useHex t o ++ printSlots useHex t fs as
  | cur, .val :: fs, .val o :: as => operandString useHex cur o ++ printSlots useHex cur fs as
  | cur, .lab :: fs, .lab i :: as => identString i ++ printSlots useHex cur fs as
  | cur, .retv :: fs, .retv none :: as => sVoid ++ printSlots useHex cur fs as
  | cur, .retv :: fs, .retv (some (t, o)) :: as => tyString t ++ [32] ++ operandString useHex t o ++ printSlots useHex cur fs as
  | cur, .phis :: fs, .phis incs :: as => phisString useHex cur incs ++ printSlots useHex cur fs as
  | cur, .nums :: fs, .nums ks :: as => numsString ks ++ printSlots useHex cur fs as
  | cur, .align :: fs, .align a :: as => alignString a ++ printSlots useHex cur fs as
  | cur, .tyvals :: fs, .tyvals ixs :: as => tyvalsString useHex ixs ++ printSlots useHex cur fs as
  | cur, .callee :: fs, .val o :: as => operandString useHex calleeTy o ++ printSlots useHex cur fs as
  | cur, .cargs :: fs, .tyvals ixs :: as => cargsString useHex ixs ++ printSlots useHex cur fs as
  | cur, .flags ks :: fs, .flags xs :: as => flagsString ks xs ++ printSlots useHex cur fs as
  | cur, .kw ks :: fs, .kw i :: as => ks.getD i [] ++ printSlots useHex cur fs as
  | cur, .okw _ :: fs, .okw none :: as => printSlots useHex cur fs as
  | cur, .okw ks :: fs, .okw (some i) :: as => ks.getD i [] ++ printSlots useHex cur fs as
  | cur, .loc :: fs, .loc i :: as => identString i ++ printSlots useHex cur fs as
  | cur, .pad :: fs, .pad p :: as => padString p ++ printSlots useHex cur fs as
  | cur, .labs :: fs, .labs l :: as => labsString l ++ printSlots useHex cur fs as
  | cur, .unwind :: fs, .unwind u :: as => unwindString u ++ printSlots useHex cur fs as
  | cur, .eargs :: fs, .tyvals ixs :: as => eargsString useHex ixs ++ printSlots useHex cur fs as
  | _, _, _ => []

/-- `[ V, %b ]` groups separated by `, ` -/
def readPhis : Nat → Ty → Bytes → Option (List (Operand × Ident) × Bytes)
  | 0, _, _ => none
  | f + 1, cur, s =>
    match TyParse.stripPrefix sPhiOpen s with
    | none => none
    | some r0 =>
      match readOperand cur r0 with
      | some (o, 44 :: 32 :: r1) =>
        (match readIdent r1 with
         | some (b, 32 :: 93 :: 44 :: 32 :: r2) =>
           (match readPhis f cur r2 with
            | some (ps, r3) => some ((o, b) :: ps, r3)
            | none => none)
         | some (b, 32 :: 93 :: r2) => some ([(o, b)], r2)
         | _ => none)
      | _ => none

/-- `, k, k …` up to the end of the line -/
def readNums : Nat → Bytes → Option (List Nat)
  | 0, _ => none
  | _ + 1, [] => some []
  | f + 1, s =>
    match TyParse.stripPrefix sComma s with
    | none => none
    | some r =>
      match parseUint63 (r.takeWhile isDigit) with
      | some k => (readNums f (r.dropWhile isDigit)).map fun ks => k :: ks
      | none => none

/-- nothing, or `, align N` up to the end of the line -/
def readAlign (s : Bytes) : Option (Option Nat) :=
  match s with
  | [] => some none
  | _ =>
    match TyParse.stripPrefix sAlign s with
    | none => none
    | some r =>
      match parseUint63 r with
      | some n => some (some n)
      | none => none

/-- `, T V` … up to the end of the line -/
def readTyvals : Nat → Bytes → Option (List (Ty × Operand))
  | 0, _ => none
  | _ + 1, [] => some []
  | f + 1, s =>
    match TyParse.stripPrefix sComma s with
    | none => none
    | some r =>
      match TyParse.parseTy (tyFuel r) r with
      | some (t, 32 :: r1) =>
        (match readOperand t r1 with
         | some (o, r2) => (readTyvals f r2).map fun l => (t, o) :: l
         | none => none)
      | _ => none

/-- the callee of a call: `%x` or `@f` -/
def readCallee (s : Bytes) : Option (Operand × Bytes) :=
  if s.head? == some 37 then
    (match readIdent s with | some (i, r) => some (.loc i, r) | none => none)
  else if s.head? == some 64 then
    (match readGlobal s with | some (n, r) => some (.glob n, r) | none => none)
  else none

/-- `(T V, T V, …)` up to the end of the line -/
def readCargs (s : Bytes) : Option (List (Ty × Operand)) :=
  match s with
  | 40 :: r =>
    if r == [41] then some []
    else if r.getLast? == some 41 then readTyvals (r.length + 2) (sComma ++ r.dropLast)
    else none
  | _ => none

/-- `[T V, T V, …]` up to the end of the line -/
def readEargs (s : Bytes) : Option (List (Ty × Operand)) :=
  match s with
  | 91 :: r =>
    if r == [93] then some []
    else if r.getLast? == some 93 then readTyvals (r.length + 2) (sComma ++ r.dropLast)
    else none
  | _ => none

/-- `none` or `%x` -/
def readPad (s : Bytes) : Option (Option Ident × Bytes) :=
  if s.head? == some 37 then
    (match readIdent s with | some (i, r) => some (some i, r) | none => none)
  else
    (match TyParse.stripPrefix sNone s with | some r => some (none, r) | none => none)

/-- `label %a, label %b` as long as the text goes on with `label ` -/
def readLabs : Nat → Bytes → Option (List Ident × Bytes)
  | 0, _ => none
  | f + 1, s =>
    match TyParse.stripPrefix sLabel s with
    | none => some ([], s)
    | some r =>
      match readIdent r with
      | some (i, 44 :: 32 :: r1) =>
        (match TyParse.stripPrefix sLabel r1 with
         | some _ => (match readLabs f r1 with | some (l, r2) => some (i :: l, r2) | none => none)
         | none => none)
      | some (i, r1) => some ([i], r1)
      | none => none

/-- `to caller` or `label %b` up to the end of the line -/
def readUnwind (s : Bytes) : Option (Option Ident) :=
  if s == sToCaller then some none
  else match TyParse.stripPrefix sLabel s with
    | some r => (match readIdent r with | some (i, []) => some (some i) | _ => none)
    | none => none

/-- the first keyword of the list that the text starts with (followed by a space) -/
def findFlag : Nat → List Bytes → Bytes → Option (Nat × Bytes)
  | _, [], _ => none
  | i, k :: ks, s =>
    match TyParse.stripPrefix (k ++ [32]) s with
    | some r => some (i, r)
    | none => findFlag (i + 1) ks s

/-- the first keyword of the list that the text starts with -/
def findKw : Nat → List Bytes → Bytes → Option (Nat × Bytes)
  | _, [], _ => none
  | i, k :: ks, s =>
    match TyParse.stripPrefix k s with
    | some r => some (i, r)
    | none => findKw (i + 1) ks s

/-- keywords of the list as long as there are any -/
def readFlags : Nat → List Bytes → Bytes → List Nat × Bytes
  | 0, _, s => ([], s)
  | f + 1, ks, s =>
    match findFlag 0 ks s with
    | some (i, r) => let (xs, r') := readFlags f ks r; (i :: xs, r')
    | none => ([], s)

def readSlots : Ty → List Slot → Bytes → Option (List Arg × Bytes)
  | _, [], s => some ([], s)
  | cur, .lit l :: fs, s =>
    (match TyParse.stripPrefix l s with
     | some r => readSlots cur fs r
     | none => none)
  | _, .ty :: fs, s =>
    (match TyParse.parseTy (tyFuel s) s with
     | some (t, r) =>
       (match readSlots t fs r with
        | some (as, r') => some (.ty t :: as, r')
        | none => none)
     | none => none)
  | _, .tyval :: fs, s =>
    (match TyParse.parseTy (tyFuel s) s with
     | some (t, 32 :: r) =>
       (match readOperand t r with
        | some (o, r') =>
          (match readSlots t fs r' with
           | some (as, r'') => some (.tyval t o :: as, r'')
           | none => none)
        | none => none)
     | _ => none)
  | cur, .val :: fs, s =>
    (match readOperand cur s with
     | some (o, r) =>
       (match readSlots cur fs r with
        | some (as, r') => some (.val o :: as, r')
        | none => none)
     | none => none)
  | cur, .lab :: fs, s =>
    (match readIdent s with
     | some (i, r) =>
       (match readSlots cur fs r with
        | some (as, r') => some (.lab i :: as, r')
        | none => none)
     | none => none)
  | cur, .phis :: fs, s =>
    (match readPhis (s.length + 1) cur s with
     | some (incs, r) =>
       (match readSlots cur fs r with
        | some (as, r') => some (.phis incs :: as, r')
        | none => none)
     | none => none)
  | cur, .nums :: fs, s =>
    (match readNums (s.length + 1) s with
     | some ks =>
       (match readSlots cur fs [] with
        | some (as, r') => some (.nums ks :: as, r')
        | none => none)
     | none => none)
  | cur, .tyvals :: fs, s =>
    (match readTyvals (s.length + 1) s with
     | some ixs =>
       (match readSlots cur fs [] with
        | some (as, r') => some (.tyvals ixs :: as, r')
        | none => none)
     | none => none)
  | cur, .callee :: fs, s =>
    (match readCallee s with
     | some (o, r) =>
       (match readSlots cur fs r with
        | some (as, r') => some (.val o :: as, r')
        | none => none)
     | none => none)
  | cur, .cargs :: fs, s =>
    (match readCargs s with
     | some ixs =>
       (match readSlots cur fs [] with
        | some (as, r') => some (.tyvals ixs :: as, r')
        | none => none)
     | none => none)
  | cur, .flags ks :: fs, s =>
    let (xs, r) := readFlags (s.length + 1) ks s
    (match readSlots cur fs r with
     | some (as, r') => some (.flags xs :: as, r')
     | none => none)
  | cur, .kw ks :: fs, s =>
    (match findKw 0 ks s with
     | some (i, r) =>
       (match readSlots cur fs r with
        | some (as, r') => some (.kw i :: as, r')
        | none => none)
     | none => none)
  | cur, .okw ks :: fs, s =>
    (match findKw 0 ks s with
     | some (i, r) =>
       (match readSlots cur fs r with
        | some (as, r') => some (.okw (some i) :: as, r')
        | none => none)
     | none =>
       (match readSlots cur fs s with
        | some (as, r') => some (.okw none :: as, r')
        | none => none))
  | cur, .loc :: fs, s =>
    (match readIdent s with
     | some (i, r) =>
       (match readSlots cur fs r with
        | some (as, r') => some (.loc i :: as, r')
        | none => none)
     | none => none)
  | cur, .pad :: fs, s =>
    (match readPad s with
     | some (p, r) =>
       (match readSlots cur fs r with
        | some (as, r') => some (.pad p :: as, r')
        | none => none)
     | none => none)
  | cur, .labs :: fs, s =>
    (match readLabs (s.length + 1) s with
     | some (l, r) =>
       (match readSlots cur fs r with
        | some (as, r') => some (.labs l :: as, r')
        | none => none)
     | none => none)
  | cur, .unwind :: fs, s =>
    (match readUnwind s with
     | some u =>
       (match readSlots cur fs [] with
        | some (as, r') => some (.unwind u :: as, r')
        | none => none)
     | none => none)
  | cur, .eargs :: fs, s =>
    (match readEargs s with
     | some ixs =>
       (match readSlots cur fs [] with
        | some (as, r') => some (.tyvals ixs :: as, r')
        | none => none)
     | none => none)
  | cur, .align :: fs, s =>
    (match readAlign s with
     | some a =>
       (match readSlots cur fs [] with
        | some (as, r') => some (.align a :: as, r')
        | none => none)
     | none => none)
  | cur, .retv :: fs, s =>
    (match TyParse.parseTy (tyFuel s) s with
     | some (.void, r) =>
       (match readSlots cur fs r with
        | some (as, r') => some (.retv none :: as, r')
        | none => none)
     | some (t, 32 :: r) =>
       (match readOperand t r with
        | some (o, r') =>
          (match readSlots cur fs r' with
           | some (as, r'') => some (.retv (some (t, o)) :: as, r'')
           | none => none)
        | none => none)
     | _ => none)

/-- what an instruction prints on lines of its own after its first line -/
inductive Ext where
  | none
  | cases (cs : List (Ty × Const × Ident))                        -- switch: `T c, label %b` per line, then the line `<tab>]`
  | dests (normal unwind : Ident)                                  -- invoke: `to label %n unwind label %u`
  | clauses (cleanup : Bool) (cs : List (Bool × Ty × Operand))     -- landingpad: `cleanup`, then `catch T V` (false) / `filter T V` (true) per line
  deriving Inhabited

structure Inst where
  res : Option Ident
  row : Nat
  args : List Arg
  /-- the continuation lines of a `switch`, `invoke` or `landingpad`; `.none` for every other instruction -/
  ext : Ext := .none
  /-- the metadata attachments `, !name !N` at the end of the line (ir: `Metadata`), in the order written; only on instructions without continuation
      lines (a switch / invoke / landingpad prints them after its LAST line) -/
  md : List (Bytes × Nat) := []
  deriving Inhabited

/-- one instruction / terminator without the leading tab -/
def instString (useHex : Int → Bool) (i : Inst) : Bytes :=
  match rows[i.row]? with
  | none => []
  | some r =>
    (match i.res with | some id => identString id ++ sEq | none => []) ++ r.pre ++ printSlots useHex r.cur0 r.slots i.args

/-- the first row whose prefix starts the text (prefixes are pairwise incomparable: at most one matches) -/
def findRow : Nat → List Row → Bytes → Option (Nat × Row × Bytes)
  | _, [], _ => none
  | k, r :: rs, s =>
    match TyParse.stripPrefix r.pre s with
    | some rest => some (k, r, rest)
    | none => findRow (k + 1) rs s

def readBody (res : Option Ident) (s : Bytes) : Option Inst :=
  match findRow 0 rows s with
  | some (k, r, rest) =>
    if !r.hasRes && res.isSome then none          -- `%x = store ...`
    else (match readSlots r.cur0 r.slots rest with
          | some (as, []) => some ⟨if r.hasRes && res.isNone then some .anon else res, k, as, .none, []⟩      -- a value without `%x =` is nameless
          | _ => none)
  | none => none

def readInst (s : Bytes) : Option Inst :=
  if s.head? == some 37 then
    (match readIdent s with
     | some (i, r) =>
       (match TyParse.stripPrefix sEq r with
        | some body => readBody (some i) body
        | none => none)
     | none => none)
  else readBody none s

/-! ### metadata attachments -/

/-- `, !name !N` for every attachment (ir/inst_*.go: `for _, md := range inst.Metadata { fmt.Fprintf(buf, ", %s", md) }`) -/
def mdString : List (Bytes × Nat) → Bytes
  | [] => []
  | (n, k) :: r => sComma ++ mdName n ++ [32] ++ mdID k ++ mdString r

def startsMd (s : Bytes) : Bool := s.take 3 == [44, 32, 33]

/-- the text up to the first `, !` outside a quoted name, and the rest (`!` occurs nowhere else in an instruction) -/
def splitMd (inq : Bool) : Bytes → Bytes × Bytes
  | [] => ([], [])
  | c :: r =>
    if !inq && startsMd (c :: r) then ([], c :: r)
    else let (a, b) := splitMd (if c == 34 then !inq else inq) r; (c :: a, b)

/-- the state of the scan after a text without attachments: `some false` when no `, !` occurs outside quotes and the quotes are balanced -/
def scanMd (inq : Bool) : Bytes → Option Bool
  | [] => some inq
  | c :: r => if !inq && startsMd (c :: r) then none else scanMd (if c == 34 then !inq else inq) r

/-- `, !name !N …` up to the end of the line -/
def readMds : Nat → Bytes → Option (List (Bytes × Nat))
  | 0, _ => none
  | _ + 1, [] => some []
  | f + 1, s =>
    match s with
    | 44 :: 32 :: 33 :: r =>
      let tok := r.takeWhile isMdNameChar
      if tok.isEmpty || (tok.head?.map isDigit).getD false then none else
      (match r.dropWhile isMdNameChar with
       | 32 :: 33 :: r1 =>
         (match parseUint63 (r1.takeWhile isDigit) with
          | some k => (readMds f (r1.dropWhile isDigit)).map fun l => (Enc.unescape tok, k) :: l
          | none => none)
       | _ => none)
    | _ => none

/-- the instruction is printed on ONE line (no continuation lines: also a landingpad without `cleanup` and without clauses) -/
def extIsNone : Ext → Bool
  | .none => true
  | .clauses false [] => true
  | _ => false

/-- rows whose grammar production (llir/ll, `FreezeInst`) has NO metadata attachments: the printer writes `Metadata` of such an instruction, the parser
    rejects the text (recorded finding C01-freeze-attachment-rejected) -/
def noMdRows : List Nat := [44]

/-- one instruction line (without the leading tab): the instruction, then its attachments -/
def readInstMd (s : Bytes) : Option Inst :=
  let (body, rest) := splitMd false s
  match readInst body, readMds (rest.length + 1) rest with
  | some i, some md => if noMdRows.contains i.row && !md.isEmpty then none else some { i with md := md }
  | _, _ => none

/-! ### blocks and functions -/

structure Block where
  label : Ident
  insts : List Inst
  term : Inst
  deriving Inhabited

/-! the keywords a function header may carry in front of its return type, family by family in the order the grammar fixes (ir/func.go LLString; the spellings are
    those of the regenerated enum table: `Props/C18Header.lean` checks that) -/
/-- enum.Linkage -/
def kLinkage : List Bytes :=
  [[97, 112, 112, 101, 110, 100, 105, 110, 103],
   [97, 118, 97, 105, 108, 97, 98, 108, 101, 95, 101, 120, 116, 101, 114, 110, 97, 108, 108, 121],
   [99, 111, 109, 109, 111, 110],
   [105, 110, 116, 101, 114, 110, 97, 108],
   [108, 105, 110, 107, 111, 110, 99, 101],
   [108, 105, 110, 107, 111, 110, 99, 101, 95, 111, 100, 114],
   [112, 114, 105, 118, 97, 116, 101],
   [119, 101, 97, 107],
   [119, 101, 97, 107, 95, 111, 100, 114],
   [101, 120, 116, 101, 114, 110, 97, 108],
   [101, 120, 116, 101, 114, 110, 95, 119, 101, 97, 107]]
/-- enum.Preemption -/
def kPreemption : List Bytes :=
  [[100, 115, 111, 95, 108, 111, 99, 97, 108],
   [100, 115, 111, 95, 112, 114, 101, 101, 109, 112, 116, 97, 98, 108, 101]]
/-- enum.Visibility -/
def kVisibility : List Bytes :=
  [[100, 101, 102, 97, 117, 108, 116],
   [104, 105, 100, 100, 101, 110],
   [112, 114, 111, 116, 101, 99, 116, 101, 100]]
/-- enum.DLLStorageClass -/
def kDLL : List Bytes :=
  [[100, 108, 108, 101, 120, 112, 111, 114, 116],
   [100, 108, 108, 105, 109, 112, 111, 114, 116]]
/-- enum.CallingConv: the conventions that have a keyword (`cc <n>` is outside the fragment) -/
def kCallingConv : List Bytes :=
  [[99, 99, 99],
   [102, 97, 115, 116, 99, 99],
   [99, 111, 108, 100, 99, 99],
   [103, 104, 99, 99, 99],
   [119, 101, 98, 107, 105, 116, 95, 106, 115, 99, 99],
   [97, 110, 121, 114, 101, 103, 99, 99],
   [112, 114, 101, 115, 101, 114, 118, 101, 95, 109, 111, 115, 116, 99, 99],
   [112, 114, 101, 115, 101, 114, 118, 101, 95, 97, 108, 108, 99, 99],
   [115, 119, 105, 102, 116, 99, 99],
   [99, 120, 120, 95, 102, 97, 115, 116, 95, 116, 108, 115, 99, 99],
   [116, 97, 105, 108, 99, 99],
   [99, 102, 103, 117, 97, 114, 100, 95, 99, 104, 101, 99, 107, 99, 99],
   [115, 119, 105, 102, 116, 116, 97, 105, 108, 99, 99],
   [120, 56, 54, 95, 115, 116, 100, 99, 97, 108, 108, 99, 99],
   [120, 56, 54, 95, 102, 97, 115, 116, 99, 97, 108, 108, 99, 99],
   [97, 114, 109, 95, 97, 112, 99, 115, 99, 99],
   [97, 114, 109, 95, 97, 97, 112, 99, 115, 99, 99],
   [97, 114, 109, 95, 97, 97, 112, 99, 115, 95, 118, 102, 112, 99, 99],
   [109, 115, 112, 52, 51, 48, 95, 105, 110, 116, 114, 99, 99],
   [120, 56, 54, 95, 116, 104, 105, 115, 99, 97, 108, 108, 99, 99],
   [112, 116, 120, 95, 107, 101, 114, 110, 101, 108],
   [112, 116, 120, 95, 100, 101, 118, 105, 99, 101],
   [115, 112, 105, 114, 95, 102, 117, 110, 99],
   [115, 112, 105, 114, 95, 107, 101, 114, 110, 101, 108],
   [105, 110, 116, 101, 108, 95, 111, 99, 108, 95, 98, 105, 99, 99],
   [120, 56, 54, 95, 54, 52, 95, 115, 121, 115, 118, 99, 99],
   [119, 105, 110, 54, 52, 99, 99],
   [120, 56, 54, 95, 118, 101, 99, 116, 111, 114, 99, 97, 108, 108, 99, 99],
   [104, 104, 118, 109, 99, 99],
   [104, 104, 118, 109, 95, 99, 99, 99],
   [120, 56, 54, 95, 105, 110, 116, 114, 99, 99],
   [97, 118, 114, 95, 105, 110, 116, 114, 99, 99],
   [97, 118, 114, 95, 115, 105, 103, 110, 97, 108, 99, 99],
   [97, 109, 100, 103, 112, 117, 95, 118, 115],
   [97, 109, 100, 103, 112, 117, 95, 103, 115],
   [97, 109, 100, 103, 112, 117, 95, 112, 115],
   [97, 109, 100, 103, 112, 117, 95, 99, 115],
   [97, 109, 100, 103, 112, 117, 95, 107, 101, 114, 110, 101, 108],
   [120, 56, 54, 95, 114, 101, 103, 99, 97, 108, 108, 99, 99],
   [97, 109, 100, 103, 112, 117, 95, 104, 115],
   [97, 109, 100, 103, 112, 117, 95, 108, 115],
   [97, 109, 100, 103, 112, 117, 95, 101, 115],
   [97, 97, 114, 99, 104, 54, 52, 95, 118, 101, 99, 116, 111, 114, 95, 112, 99, 115],
   [97, 97, 114, 99, 104, 54, 52, 95, 115, 118, 101, 95, 118, 101, 99, 116, 111, 114, 95, 112, 99, 115],
   [97, 109, 100, 103, 112, 117, 95, 103, 102, 120]]

/-- enum.ReturnAttr: the return attributes that are bare keywords (`define noundef signext i32 @f()`; ir.Func.ReturnAttrs, a LIST: repeats and any order are kept) -/
def kRetAttr : List Bytes :=
  [[105, 110, 114, 101, 103],
   [110, 111, 97, 108, 105, 97, 115],
   [110, 111, 110, 110, 117, 108, 108],
   [110, 111, 117, 110, 100, 101, 102],
   [115, 105, 103, 110, 101, 120, 116],
   [122, 101, 114, 111, 101, 120, 116]]

/-- enum.ParamAttr: the parameter attributes that are bare keywords (`i8* nocapture readonly %p`; ir.Param.Attrs, a LIST: repeats and any order are kept). `allocalign` and
    `allocptr` are outside the fragment: behind a type the reader of types takes ` a` for the start of ` addrspace(` -/
def kParamAttr : List Bytes :=
  [[105, 109, 109, 97, 114, 103],
   [105, 110, 114, 101, 103],
   [110, 101, 115, 116],
   [110, 111, 97, 108, 105, 97, 115],
   [110, 111, 99, 97, 112, 116, 117, 114, 101],
   [110, 111, 102, 114, 101, 101],
   [110, 111, 110, 110, 117, 108, 108],
   [110, 111, 117, 110, 100, 101, 102],
   [114, 101, 97, 100, 110, 111, 110, 101],
   [114, 101, 97, 100, 111, 110, 108, 121],
   [114, 101, 116, 117, 114, 110, 101, 100],
   [115, 105, 103, 110, 101, 120, 116],
   [115, 119, 105, 102, 116, 97, 115, 121, 110, 99],
   [115, 119, 105, 102, 116, 101, 114, 114, 111, 114],
   [115, 119, 105, 102, 116, 115, 101, 108, 102],
   [119, 114, 105, 116, 101, 111, 110, 108, 121],
   [122, 101, 114, 111, 101, 120, 116]]

def kLead : List Bytes := kLinkage ++ kPreemption ++ kVisibility ++ kDLL ++ kCallingConv ++ kRetAttr

/-! the clauses of a function header BEHIND the parameter list (ir/func.go headerString): `unnamed_addr` / `local_unnamed_addr`, `addrspace(N)`, the function attributes
    that are bare keywords, `section "s"`, `partition "p"`, `align N`, `gc "g"` — each preceded by one space -/

/-- enum.UnnamedAddr -/
def kUnnamed : List Bytes := [[117, 110, 110, 97, 109, 101, 100, 95, 97, 100, 100, 114], [108, 111, 99, 97, 108, 95, 117, 110, 110, 97, 109, 101, 100, 95, 97, 100, 100, 114]]
/-- enum.FuncAttr: the function attributes that are bare keywords -/
def kFuncAttr : List Bytes :=
  [[97, 108, 119, 97, 121, 115, 105, 110, 108, 105, 110, 101],
   [97, 114, 103, 109, 101, 109, 111, 110, 108, 121],
   [98, 117, 105, 108, 116, 105, 110],
   [99, 111, 108, 100],
   [99, 111, 110, 118, 101, 114, 103, 101, 110, 116],
   [100, 105, 115, 97, 98, 108, 101, 95, 115, 97, 110, 105, 116, 105, 122, 101, 114, 95, 105, 110, 115, 116, 114, 117, 109, 101, 110, 116, 97, 116, 105, 111, 110],
   [102, 110, 95, 114, 101, 116, 95, 116, 104, 117, 110, 107, 95, 101, 120, 116, 101, 114, 110],
   [104, 111, 116],
   [105, 110, 97, 99, 99, 101, 115, 115, 105, 98, 108, 101, 109, 101, 109, 111, 110, 108, 121],
   [105, 110, 97, 99, 99, 101, 115, 115, 105, 98, 108, 101, 109, 101, 109, 95, 111, 114, 95, 97, 114, 103, 109, 101, 109, 111, 110, 108, 121],
   [105, 110, 108, 105, 110, 101, 104, 105, 110, 116],
   [106, 117, 109, 112, 116, 97, 98, 108, 101],
   [109, 105, 110, 115, 105, 122, 101],
   [109, 117, 115, 116, 112, 114, 111, 103, 114, 101, 115, 115],
   [110, 97, 107, 101, 100],
   [110, 111, 98, 117, 105, 108, 116, 105, 110],
   [110, 111, 99, 102, 95, 99, 104, 101, 99, 107],
   [110, 111, 99, 97, 108, 108, 98, 97, 99, 107],
   [110, 111, 100, 117, 112, 108, 105, 99, 97, 116, 101],
   [110, 111, 102, 114, 101, 101],
   [110, 111, 105, 109, 112, 108, 105, 99, 105, 116, 102, 108, 111, 97, 116],
   [110, 111, 105, 110, 108, 105, 110, 101],
   [110, 111, 109, 101, 114, 103, 101],
   [110, 111, 112, 114, 111, 102, 105, 108, 101],
   [110, 111, 114, 101, 99, 117, 114, 115, 101],
   [110, 111, 114, 101, 100, 122, 111, 110, 101],
   [110, 111, 114, 101, 116, 117, 114, 110],
   [110, 111, 115, 97, 110, 105, 116, 105, 122, 101, 95, 98, 111, 117, 110, 100, 115],
   [110, 111, 115, 97, 110, 105, 116, 105, 122, 101, 95, 99, 111, 118, 101, 114, 97, 103, 101],
   [110, 111, 115, 121, 110, 99],
   [110, 111, 117, 110, 119, 105, 110, 100],
   [110, 111, 110, 108, 97, 122, 121, 98, 105, 110, 100],
   [110, 117, 108, 108, 95, 112, 111, 105, 110, 116, 101, 114, 95, 105, 115, 95, 118, 97, 108, 105, 100],
   [111, 112, 116, 102, 111, 114, 102, 117, 122, 122, 105, 110, 103],
   [111, 112, 116, 110, 111, 110, 101],
   [111, 112, 116, 115, 105, 122, 101],
   [112, 114, 101, 115, 112, 108, 105, 116, 99, 111, 114, 111, 117, 116, 105, 110, 101],
   [114, 101, 97, 100, 110, 111, 110, 101],
   [114, 101, 97, 100, 111, 110, 108, 121],
   [114, 101, 116, 117, 114, 110, 115, 95, 116, 119, 105, 99, 101],
   [115, 115, 112],
   [115, 115, 112, 114, 101, 113],
   [115, 115, 112, 115, 116, 114, 111, 110, 103],
   [115, 97, 102, 101, 115, 116, 97, 99, 107],
   [115, 97, 110, 105, 116, 105, 122, 101, 95, 97, 100, 100, 114, 101, 115, 115],
   [115, 97, 110, 105, 116, 105, 122, 101, 95, 104, 119, 97, 100, 100, 114, 101, 115, 115],
   [115, 97, 110, 105, 116, 105, 122, 101, 95, 109, 101, 109, 116, 97, 103],
   [115, 97, 110, 105, 116, 105, 122, 101, 95, 109, 101, 109, 111, 114, 121],
   [115, 97, 110, 105, 116, 105, 122, 101, 95, 116, 104, 114, 101, 97, 100],
   [115, 104, 97, 100, 111, 119, 99, 97, 108, 108, 115, 116, 97, 99, 107],
   [115, 112, 101, 99, 117, 108, 97, 116, 97, 98, 108, 101],
   [115, 112, 101, 99, 117, 108, 97, 116, 105, 118, 101, 95, 108, 111, 97, 100, 95, 104, 97, 114, 100, 101, 110, 105, 110, 103],
   [115, 116, 114, 105, 99, 116, 102, 112],
   [117, 119, 116, 97, 98, 108, 101],
   [119, 105, 108, 108, 114, 101, 116, 117, 114, 110],
   [119, 114, 105, 116, 101, 111, 110, 108, 121]]
def kTail : List Bytes := kUnnamed ++ kFuncAttr
/-- the clauses that carry a quoted string -/
def kStr : List Bytes := [[115, 101, 99, 116, 105, 111, 110], [112, 97, 114, 116, 105, 116, 105, 111, 110], [103, 99]]
def sAddrspaceOpen : Bytes := [97, 100, 100, 114, 115, 112, 97, 99, 101, 40]
def sAlignSp : Bytes := [97, 108, 105, 103, 110, 32]

inductive HItem where
  | kw (i : Nat)                       -- position in `kTail`
  | addrspace (n : Nat)
  | str (which : Nat) (s : Bytes)      -- position in `kStr`, the string
  | align (n : Nat)
  deriving DecidableEq, Repr, Inhabited

def itemString : HItem → Bytes
  | .kw i => kTail.getD i []
  | .addrspace n => sAddrspaceOpen ++ natDec n ++ [41]
  | .str w s => kStr.getD w [] ++ [32] ++ Enc.quote s
  | .align n => sAlignSp ++ natDec n

/-- every clause followed by one space (the first one is preceded by the space behind the closing parenthesis) -/
def itemsString : List HItem → Bytes
  | [] => []
  | it :: its => itemString it ++ [32] ++ itemsString its

/-- the clauses as the IR holds them (the fields of ir.Func): `unnamed` = position in `kUnnamed`; `attrs` = positions in `kFuncAttr`, in the order written; an
    address space / alignment of 0 and an empty string are not printed -/
structure HTail where
  unnamed : Option Nat := none
  addrspace : Nat := 0
  attrs : List Nat := []
  sect : Bytes := []
  partition : Bytes := []
  align : Nat := 0
  gc : Bytes := []
  deriving DecidableEq, Repr, Inhabited

/-- the clauses in the order the printer writes them (ir/func.go headerString) -/
def unnamedItems : Option Nat → List HItem
  | some i => [.kw i]
  | none => []
/-- a clause that is printed unless its field has the zero value -/
def optItem (absent : Bool) (it : HItem) : List HItem := if absent then [] else [it]

def itemsOf (t : HTail) : List HItem :=
  unnamedItems t.unnamed ++ (optItem (t.addrspace == 0) (.addrspace t.addrspace) ++ (t.attrs.map (fun i => .kw (i + 2)) ++
    (optItem t.sect.isEmpty (.str 0 t.sect) ++ (optItem t.partition.isEmpty (.str 1 t.partition) ++ (optItem (t.align == 0) (.align t.align) ++
      optItem t.gc.isEmpty (.str 2 t.gc))))))

/-- one clause as the translation takes it (asm/global.go irFuncHeader; the grammar has `unnamed_addr` and `addrspace(N)` first, in this order and at most once;
    the other clauses come in any order and a repeated `section` / `partition` / `align` / `gc` overwrites the earlier one): (phase, fields so far) -/
def applyItem (st : Nat × HTail) (it : HItem) : Option (Nat × HTail) :=
  match it with
  | .kw i =>
    if i < 2 then (if st.1 == 0 then some (1, { st.2 with unnamed := some i }) else none)
    else if i < kTail.length then some (2, { st.2 with attrs := st.2.attrs ++ [i - 2] })
    else none
  | .addrspace n => if st.1 ≤ 1 && decide (n < 2 ^ 64) then some (2, { st.2 with addrspace := n }) else none
  | .str 0 s => some (2, { st.2 with sect := s })
  | .str 1 s => some (2, { st.2 with partition := s })
  | .str 2 s => some (2, { st.2 with gc := s })
  | .str _ _ => none
  | .align n => if n < 2 ^ 64 then some (2, { st.2 with align := n }) else none

def foldItems (its : List HItem) : Option HTail := (its.foldlM applyItem (0, {})).map (·.2)

structure Func where
  ret : Ty
  name : Bytes
  params : List (Ty × Ident)
  blocks : List Block
  /-- the optional keywords in front of the return type (`define internal dso_local hidden fastcc T @f(…)`), as positions in `kLead`, in the order written -/
  lead : List Nat := []
  /-- the clauses behind the parameter list (`… @f(…) unnamed_addr addrspace(1) nounwind section "s" align 8 gc "g" {`), in the order written -/
  tail : HTail := {}
  /-- the attributes of each parameter (`i8* nocapture readonly %p`), as positions in `kParamAttr`, in the order written; one list per parameter -/
  pattrs : List (List Nat) := params.map (fun _ => [])
  /-- a variadic function: `...` behind the last parameter (`declare i32 @printf(i8* %0, ...)`) -/
  variadic : Bool := false

/-- the parameters with their attributes -/
def zipA : List (Ty × Ident) → List (List Nat) → List ((Ty × Ident) × List Nat)
  | [], _ => []
  | p :: ps, [] => (p, []) :: zipA ps []
  | p :: ps, a :: as => (p, a) :: zipA ps as


/-- the family a position of `kLead` belongs to: linkage 0, preemption 1, visibility 2, DLL storage class 3, calling convention 4, return attribute 5 -/
def leadFamily (i : Nat) : Nat :=
  if i < kLinkage.length then 0
  else if i < kLinkage.length + kPreemption.length then 1
  else if i < kLinkage.length + kPreemption.length + kVisibility.length then 2
  else if i < kLinkage.length + kPreemption.length + kVisibility.length + kDLL.length then 3
  else if i < kLinkage.length + kPreemption.length + kVisibility.length + kDLL.length + kCallingConv.length then 4
  else 5

def sDefine : Bytes := [100, 101, 102, 105, 110, 101, 32]     -- "define "
def sOpen : Bytes := [41, 32, 123]                             -- ") {"

/-- `T [attributes] %x` for every parameter (ir/helper.go Param.LLString) -/
def paramsString : List ((Ty × Ident) × List Nat) → Bytes
  | [] => []
  | [(p, a)] => tyString p.1 ++ [32] ++ flagsString kParamAttr a ++ identString p.2
  | (p, a) :: q :: ps => tyString p.1 ++ [32] ++ flagsString kParamAttr a ++ identString p.2 ++ sComma ++ paramsString (q :: ps)

def sDots : Bytes := [46, 46, 46]                  -- "..."
def sCommaDots : Bytes := [44, 32, 46, 46, 46]     -- ", ..."

/-- the marker of a variadic function behind the parameters (ir/func.go headerString: `...` alone, `, ...` behind a parameter) -/
def varString (noParams : Bool) (v : Bool) : Bytes := if v then (if noParams then sDots else sCommaDots) else []

/-- the header from the return type on -/
def headerRest (f : Func) : Bytes :=
  tyString f.ret ++ [32] ++ Enc.globalName f.name ++ [40] ++ paramsString (zipA f.params f.pattrs) ++ varString f.params.isEmpty f.variadic ++ [41, 32] ++ itemsString (itemsOf f.tail) ++ [123]

def headerString (f : Func) : Bytes := sDefine ++ flagsString kLead f.lead ++ headerRest f

/-- one case of a switch on a line of its own: two tabs, `T c, label %b` (ir/terminator.go TermSwitch.LLString) -/
def caseLine (useHex : Int → Bool) (c : Ty × Const × Ident) : Bytes :=
  [9, 9] ++ tyString c.1 ++ [32] ++ constIdent useHex c.1 c.2.1 ++ sCommaLabel ++ identString c.2.2

def sCloseCases : Bytes := [9, 93]          -- tab `]`

def sToLabel : Bytes := [9, 9, 116, 111, 32, 108, 97, 98, 101, 108, 32]                                -- tab tab `to label `
def sUnwindLabel : Bytes := [32, 117, 110, 119, 105, 110, 100, 32, 108, 97, 98, 101, 108, 32]          -- ` unwind label `
def sCleanup : Bytes := [9, 9, 99, 108, 101, 97, 110, 117, 112]                                        -- tab tab `cleanup`
def sCatch : Bytes := [9, 9, 99, 97, 116, 99, 104, 32]                                                 -- tab tab `catch `
def sFilter : Bytes := [9, 9, 102, 105, 108, 116, 101, 114, 32]                                        -- tab tab `filter `

def destsLine (n u : Ident) : Bytes := sToLabel ++ identString n ++ sUnwindLabel ++ identString u

def clauseLine (useHex : Int → Bool) (c : Bool × Ty × Operand) : Bytes :=
  (if c.1 then sFilter else sCatch) ++ tyString c.2.1 ++ [32] ++ operandString useHex c.2.1 c.2.2

/-- the continuation lines (ir/terminator.go TermSwitch.LLString, TermInvoke.LLString; ir/inst_other.go InstLandingPad.LLString) -/
def extLines (useHex : Int → Bool) : Ext → List Bytes
  | .none => []
  | .cases cs => cs.map (caseLine useHex) ++ [sCloseCases]
  | .dests n u => [destsLine n u]
  | .clauses cl cs => (if cl then [sCleanup] else []) ++ cs.map (clauseLine useHex)

/-- `s` appended to the LAST line -/
def appendLast : List Bytes → Bytes → List Bytes
  | [], _ => []
  | [l], s => [l ++ s]
  | l :: m :: ls, s => l :: appendLast (m :: ls) s

/-- the lines of an instruction or terminator: its first line and the continuation lines; the attachments stand at the end of the LAST line (`], !dbg !0`; `to label %a unwind label %b, !dbg !0`; after the last clause) -/
def instLines (useHex : Int → Bool) (i : Inst) : List Bytes :=
  match extLines useHex i.ext with
  | [] => [9 :: (instString useHex i ++ mdString i.md)]
  | e :: es => (9 :: instString useHex i) :: appendLast (e :: es) (mdString i.md)

def blockLines (useHex : Int → Bool) (b : Block) : List Bytes :=
  labelString b.label :: (b.insts.flatMap (instLines useHex)) ++ instLines useHex b.term

/-- blocks are separated by an empty line -/
def blocksLines (useHex : Int → Bool) : List Block → List Bytes
  | [] => []
  | [b] => blockLines useHex b
  | b :: c :: bs => blockLines useHex b ++ [[]] ++ blocksLines useHex (c :: bs)

def sDeclare : Bytes := [100, 101, 99, 108, 97, 114, 101, 32]     -- "declare "

/-- the clauses of a declaration: each preceded by a space, nothing behind the last one -/
def tailDecl : List HItem → Bytes
  | [] => []
  | it :: its => 32 :: itemString it ++ tailDecl its

/-- a function without blocks is a declaration (ir/func.go LLString): one line, the parameters with their names -/
def declString (f : Func) : Bytes :=
  sDeclare ++ flagsString kLead f.lead ++ tyString f.ret ++ [32] ++ Enc.globalName f.name ++ [40] ++ paramsString (zipA f.params f.pattrs) ++ varString f.params.isEmpty f.variadic ++ [41] ++ tailDecl (itemsOf f.tail)

def printFunc (useHex : Int → Bool) (f : Func) : List Bytes :=
  if f.blocks.isEmpty then [declString f]
  else headerString f :: blocksLines useHex f.blocks ++ [[125]]

/-- the text of the function as `Func.LLString()` returns it (lines joined by a line feed) -/
def flatten : List Bytes → Bytes
  | [] => []
  | [l] => l
  | l :: m :: ls => l ++ [10] ++ flatten (m :: ls)

/-! readers -/

def readParams : Nat → Bytes → Option (List ((Ty × Ident) × List Nat) × Bytes)
  | 0, _ => none
  | f + 1, s =>
    match TyParse.parseTy (tyFuel s) s with
    | some (t, 32 :: r0) =>
      let (a, r) := readFlags (r0.length + 1) kParamAttr r0
      (match readIdent r with
       | some (i, 44 :: 32 :: r') =>
         -- (`, ...` behind the last parameter is the marker of a variadic function, read by the caller)
         if r'.take 3 == sDots then some ([((t, i), a)], 44 :: 32 :: r')
         else (match readParams f r' with
          | some (ps, r'') => some (((t, i), a) :: ps, r'')
          | none => none)
       | some (i, r') => some ([((t, i), a)], r')
       | none => none)
    | _ => none

/-- a clause that carries a quoted string: `section "…"`, `partition "…"`, `gc "…"` followed by a space -/
def readStrItem : Nat → List Bytes → Bytes → Option (HItem × Bytes)
  | _, [], _ => none
  | w, k :: ks, s =>
    match TyParse.stripPrefix (k ++ [32, 34]) s with
    | some q =>
      (match q.dropWhile (· != 34) with
       | 34 :: 32 :: r => some (.str w (Enc.unescape (q.takeWhile (· != 34))), r)
       | _ => none)
    | none => readStrItem (w + 1) ks s

/-- one clause and the space behind it -/
def readItem (s : Bytes) : Option (HItem × Bytes) :=
  match findFlag 0 kTail s with
  | some (i, r) => some (.kw i, r)
  | none =>
    match TyParse.stripPrefix sAddrspaceOpen s with
    | some r => (match TyParse.readNat r with | some (n, 41 :: 32 :: r') => some (.addrspace n, r') | _ => none)
    | none =>
      match TyParse.stripPrefix sAlignSp s with
      | some r => (match TyParse.readNat r with | some (n, 32 :: r') => some (.align n, r') | _ => none)
      | none => readStrItem 0 kStr s

/-- the clauses up to the opening brace -/
def readItems : Nat → Bytes → Option (List HItem × Bytes)
  | 0, _ => none
  | f + 1, s =>
    if s.head? == some 123 then some ([], s)
    else match readItem s with
      | some (it, r) => (match readItems f r with | some (its, r') => some (it :: its, r') | none => none)
      | none => none

/-- `) clauses {` behind the parameters -/
def readTail (s : Bytes) : Option HTail :=
  match s with
  | 41 :: 32 :: r => (match readItems (r.length + 1) r with | some (its, [123]) => foldItems its | _ => none)
  | _ => none

/-- `define [keywords] T @name(params) [clauses] {`: (keywords as written, return type, name, parameters, clauses as written) -/
def readHeader (s : Bytes) : Option (List Nat × Ty × Bytes × List ((Ty × Ident) × List Nat) × Bool × HTail) :=
  match TyParse.stripPrefix sDefine s with
  | none => none
  | some r00 =>
    let (lead, r0) := readFlags (r00.length + 1) kLead r00
    match TyParse.parseTy (tyFuel r0) r0 with
    | some (rt, 32 :: 64 :: r1) =>
      (match takeBody r1 with
       | some (tok, 40 :: r2) =>
         (match Enc.decodeIdentBody tok with
          | .name n =>
            if r2.head? == some 41 then (match readTail r2 with | some tl => some (lead, rt, n, [], false, tl) | none => none)
            else match TyParse.stripPrefix sDots r2 with
            | some r3 => (match readTail r3 with | some tl => some (lead, rt, n, [], true, tl) | none => none)
            | none =>
              (match readParams (r2.length + 1) r2 with
               | some (ps, r3) =>
                 (match TyParse.stripPrefix sCommaDots r3 with
                  | some r4 => (match readTail r4 with | some tl => some (lead, rt, n, ps, true, tl) | none => none)
                  | none => (match readTail r3 with | some tl => some (lead, rt, n, ps, false, tl) | none => none))
               | none => none)
          | .id _ => none)
       | _ => none)
    | _ => none

def isInstLine (l : Bytes) : Bool := l.head? == some 9

def isTerm (i : Inst) : Bool := match rows[i.row]? with | some r => r.term | none => false

/-- `<tab><tab>T c, label %b` -/
def readCaseLine (l : Bytes) : Option (Ty × Const × Ident) :=
  match TyParse.stripPrefix [9, 9] l with
  | none => none
  | some r =>
    match TyParse.parseTy (tyFuel r) r with
    | some (t, 32 :: r1) =>
      (match parseConst (r1.length + 1) t r1 with
       | some (c, r2) =>
         (match TyParse.stripPrefix sCommaLabel r2 with
          | some r3 => (match readIdent r3 with | some (b, []) => some (t, c, b) | _ => none)
          | none => none)
       | none => none)
    | _ => none

/-- the case lines of a switch up to the line that closes the list -/
def readCaseLines : List Bytes → Option (List (Ty × Const × Ident) × List Bytes)
  | [] => none
  | l :: ls =>
    if l == sCloseCases then some ([], ls)
    else match readCaseLine l, readCaseLines ls with
      | some c, some (cs, rest) => some (c :: cs, rest)
      | _, _ => none

/-- `<tab><tab>to label %n unwind label %u` -/
def readDests (l : Bytes) : Option (Ident × Ident) :=
  match TyParse.stripPrefix sToLabel l with
  | none => none
  | some r =>
    match readIdent r with
    | some (n, r1) =>
      (match TyParse.stripPrefix sUnwindLabel r1 with
       | some r2 => (match readIdent r2 with | some (u, []) => some (n, u) | _ => none)
       | none => none)
    | none => none

/-- `T V` to the end of the line -/
def readClauseBody (filter : Bool) (r : Bytes) : Option (Bool × Ty × Operand) :=
  match TyParse.parseTy (tyFuel r) r with
  | some (t, 32 :: r1) => (match readOperand t r1 with | some (o, []) => some (filter, t, o) | _ => none)
  | _ => none

/-- clause lines as long as there are any: a line that starts with two tabs belongs to the instruction -/
def readClauses : List Bytes → Option (List (Bool × Ty × Operand) × List Bytes)
  | [] => some ([], [])
  | l :: ls =>
    if (TyParse.stripPrefix [9, 9] l).isSome then
      (match (match TyParse.stripPrefix sCatch l with
              | some r => readClauseBody false r
              | none => (match TyParse.stripPrefix sFilter l with | some r => readClauseBody true r | none => none)),
             readClauses ls with
       | some c, some (cs, rest) => some (c :: cs, rest)
       | _, _ => none)
    else some ([], l :: ls)

/-- the continuation lines of the instruction of this row -/
def readExt (row : Nat) (ls : List Bytes) : Option (Ext × List Bytes) :=
  if row == swRow then
    (match readCaseLines ls with | some (cs, rest) => some (.cases cs, rest) | none => none)
  else if invRows.contains row then
    (match ls with
     | l :: rest => (match readDests l with | some (n, u) => some (.dests n u, rest) | none => none)
     | [] => none)
  else if row == lpRow then
    (match ls with
     | l :: rest =>
       if l == sCleanup then (match readClauses rest with | some (cs, rest') => some (.clauses true cs, rest') | none => none)
       else (match readClauses ls with | some (cs, rest') => some (.clauses false cs, rest') | none => none)
     | [] => some (.clauses false [], []))
  else some (.none, ls)

/-- how many continuation lines the instruction of this row has at the head of `ls`: a switch up to and including the line that starts with `<tab>]`, an invoke
    one, a landingpad as many as start with two tabs -/
def extCount (row : Nat) (ls : List Bytes) : Nat :=
  if row == swRow then (ls.takeWhile fun l => !(TyParse.stripPrefix sCloseCases l).isSome).length + 1
  else if invRows.contains row then 1
  else if row == lpRow then (ls.takeWhile fun l => (TyParse.stripPrefix [9, 9] l).isSome).length
  else 0

/-- the continuation lines with the attachments taken off the last of them: (attachments, lines) -/
def splitExtMd (n : Nat) (ls : List Bytes) : Option (List (Bytes × Nat) × List Bytes) :=
  match ls.drop (n - 1) with
  | [] => none
  | last :: rest =>
    let (body, mdtxt) := splitMd false last
    match readMds (mdtxt.length + 1) mdtxt with
    | some md => some (md, ls.take (n - 1) ++ body :: rest)
    | none => none

/-- the instruction lines of one block: up to and including the first terminator -/
def readBody' : Nat → List Bytes → Option (List Inst × Inst × List Bytes)
  | 0, _ => none
  | _ + 1, [] => none
  | f + 1, l :: ls =>
    if !isInstLine l then none
    else match readInstMd l.tail with
      | none => none
      | some i0 =>
        let n := extCount i0.row ls
        -- a switch / invoke / landingpad with continuation lines carries its attachments at the end of its LAST line: on the first line they are a syntax error
        match (if n == 0 then some (i0.md, ls) else if !i0.md.isEmpty then none else splitExtMd n ls) with
        | none => none
        | some (md, ls) =>
        match readExt i0.row ls with
        | none => none
        | some (x, ls) =>
        let i : Inst := { i0 with ext := x, md := md }
        if isTerm i then some ([], i, ls)
        else match readBody' f ls with
          | some (is, t, rest) => some (i :: is, t, rest)
          | none => none

/-- blocks until the closing brace; empty lines are skipped; a block that starts with an instruction line has no label -/
def readBlocks : Nat → List Bytes → Option (List Block)
  | 0, _ => none
  | _ + 1, [] => none
  | f + 1, l :: ls =>
    if l == [125] then (if ls.isEmpty then some [] else none)
    else if l.isEmpty then readBlocks f ls
    else
      let (lab, body) := if isInstLine l then (some Ident.anon, l :: ls) else (readLabel l, ls)
      match lab with
      | none => none
      | some lab =>
        match readBody' (body.length + 1) body with
        | none => none
        | some (is, t, rest) =>
          (match readBlocks f rest with
           | some bs => some (⟨lab, is, t⟩ :: bs)
           | none => none)

/-- `declare T @f(params)`: read as the header of a definition -/
def readDecl (s : Bytes) : Option (List Nat × Ty × Bytes × List ((Ty × Ident) × List Nat) × Bool × HTail) :=
  match TyParse.stripPrefix sDeclare s with
  | some r => readHeader (sDefine ++ r ++ [32, 123])
  | none => none

def readFunc (ls : List Bytes) : Option Func :=
  match ls with
  | [] => none
  | [h] => (match readDecl h with | some (lead, rt, n, ps, v, tl) => some ⟨rt, n, ps.map (·.1), [], lead, tl, ps.map (·.2), v⟩ | none => none)
  | h :: rest =>
    match readHeader h, readBlocks (rest.length + 1) rest with
    | some (lead, rt, n, ps, v, tl), some bs => some ⟨rt, n, ps.map (·.1), bs, lead, tl, ps.map (·.2), v⟩
    | _, _ => none

/-! ### translation (asm/local.go) -/

def instsOf (b : Block) : List Inst := b.insts ++ [b.term]

/-- definitions in LLVM's numbering order: parameters, then per block the block and the results of its instructions and terminator -/
def defs (f : Func) : List Ident :=
  f.params.map (·.2) ++ f.blocks.flatMap fun b => b.label :: (instsOf b).filterMap (·.res)

def operandUses : Operand → List Ident
  | .loc i => [i]
  | _ => []

def operandGlobs : Operand → List Bytes
  | .glob n => [n]
  | _ => []

def argGlobs : Arg → List Bytes
  | .tyval _ o => operandGlobs o
  | .val o => operandGlobs o
  | .retv (some (_, o)) => operandGlobs o
  | .phis incs => incs.flatMap fun p => operandGlobs p.1
  | .tyvals ixs => ixs.flatMap fun p => operandGlobs p.2
  | _ => []

def argUses : Arg → List Ident
  | .ty _ => []
  | .tyval _ o => operandUses o
  | .val o => operandUses o
  | .lab i => [i]
  | .retv none => []
  | .retv (some (_, o)) => operandUses o
  | .phis incs => incs.flatMap fun p => operandUses p.1 ++ [p.2]
  | .nums _ => []
  | .align _ => []
  | .tyvals ixs => ixs.flatMap fun p => operandUses p.2
  | .flags _ => []
  | .kw _ => []
  | .okw _ => []
  | .loc i => [i]
  | .pad p => p.toList
  | .labs l => l
  | .unwind u => u.toList

/-- the locals (values and blocks) an instruction refers to -/
def extLabs : Ext → List Ident
  | .cases cs => cs.map (·.2.2)
  | .dests n u => [n, u]
  | _ => []

def extUses : Ext → List Ident
  | .clauses _ cs => cs.flatMap fun c => operandUses c.2.2
  | x => extLabs x

def extGlobs : Ext → List Bytes
  | .clauses _ cs => cs.flatMap fun c => operandGlobs c.2.2
  | _ => []

def instUses (i : Inst) : List Ident := i.args.flatMap argUses ++ extUses i.ext

def uses (f : Func) : List Ident :=
  f.blocks.flatMap fun b => (instsOf b).flatMap instUses

def cmpTy : Ty → Ty
  | .vec s n _ => .vec s n (.int 1)
  | _ => .int 1

def firstTyval : List Arg → Option Ty
  | [] => none
  | .tyval t _ :: _ => some t
  | _ :: as => firstTyval as

def secondTyval : List Arg → Option Ty
  | [] => none
  | .tyval _ _ :: as => firstTyval as
  | _ :: as => secondTyval as

def thirdTyval : List Arg → Option Ty
  | [] => none
  | .tyval _ _ :: as => secondTyval as
  | _ :: as => thirdTyval as

def firstTy : List Arg → Option Ty
  | [] => none
  | .ty t :: _ => some t
  | _ :: as => firstTy as

def lastTy : List Arg → Option Ty
  | [] => none
  | .ty t :: as => (match lastTy as with | some u => some u | none => some t)
  | _ :: as => lastTy as

/-- the type the parser gives the result when it creates the scaffold (from the types written in the defining instruction) -/
def numsOf : List Arg → List Nat
  | [] => []
  | .nums ks :: _ => ks
  | _ :: as => numsOf as

def nthTy : TyList → Nat → Option Ty
  | .nil, _ => none
  | .cons t _, 0 => some t
  | .cons _ ts, k + 1 => nthTy ts k

/-- asm/inst_aggregate.go aggregateElemType: arrays are stepped into without a bound check, struct fields by index -/
def aggElem : Ty → List Nat → Option Ty
  | t, [] => some t
  | .arr _ e, _ :: ks => aggElem e ks
  | .struct _ fs, k :: ks => (nthTy fs k).bind fun t => aggElem t ks
  | _, _ :: _ => none
termination_by t ks => ks.length

def tyvalsOf : List Arg → List (Ty × Operand)
  | [] => []
  | .tyvals l :: _ => l
  | _ :: as => tyvalsOf as

def constInts : CList → Option (List Int)
  | .nil => some []
  | .cons _ (.int v) r => (constInts r).map fun l => v :: l
  | .cons _ _ _ => none

/-- the index as asm/inst_memory.go getIndex classifies it -/
def idxArg (p : Ty × Operand) : Gep.IdxArg :=
  let (vl, sc) := match p.1 with | .vec s n _ => (n, s) | _ => (0, false)
  let c : Option Gep.IdxConst := match p.2 with
    | .loc _ => none
    | .const (.int v) => some (.int v)
    | .const .zero => some .zero
    | .const .undef => some .undef
    | .const (.vec es) => (match constInts es with | some vs => some (.vecInts vs) | none => some (.vecOther vl))
    | .const _ => some (.vecOther 1)
    | .glob _ => some (.vecOther 1)
  ⟨c, vl, sc⟩

def defTy (i : Inst) : Option Ty :=
  match rows[i.row]? with
  | none => none
  | some r =>
    match r.res with
    | .none => none
    | .first => firstTyval i.args
    | .cmp => (firstTyval i.args).map cmpTy
    | .loadTy => firstTy i.args
    | .second => secondTyval i.args
    | .lastTy => lastTy i.args
    | .elem => (match firstTyval i.args with | some (.vec _ _ e) => some e | _ => none)
    | .firstVec => (match firstTyval i.args with | some (.vec s n e) => some (.vec s n e) | _ => none)
    | .shuffle => (match firstTyval i.args, thirdTyval i.args with | some (.vec _ _ e), some (.vec s m _) => some (.vec s m e) | _, _ => none)
    | .ptrOf => (firstTy i.args).map fun t => .ptr t 0
    | .aggElem => (firstTyval i.args).bind fun t => aggElem t (numsOf i.args)
    | .gep => (match firstTy i.args, firstTyval i.args with
      | some e, some src => (match Gep.gepAsm (fun _ => none) e src ((tyvalsOf i.args).map idxArg) with | .ok t => some t | _ => none)
      | _, _ => none)
    -- asm/inst_memory.go newCmpXchgInst: `{ T, i1 }` with T the type written in front of the NEW value (the third operand)
    | .cmpxchg => (thirdTyval i.args).map fun t => .struct false (.cons t (.cons (.int 1) .nil))
    -- newAtomicRMWInst: the pointee of the type written in front of the destination (the parser panics when that is not a pointer type)
    | .pointee => (match firstTyval i.args with | some (.ptr e _) => some e | _ => none)
    | .token => some .token

def env (f : Func) : List (Ident × Ty) :=
  f.params.map (fun p => (p.2, p.1)) ++
    f.blocks.flatMap fun b => (b.label, Ty.label) :: (instsOf b).filterMap fun i =>
      match i.res, defTy i with
      | some id, some t => some (id, t)
      | _, _ => none

def lookup (e : List (Ident × Ty)) (i : Ident) : Option Ty := (e.find? (·.1 == i)).map (·.2)

/-- the global variables and functions of the module with the type of a reference to them (empty for a function definition on its own) -/
abbrev GEnv := List (Bytes × Ty)

def lookupG (ge : GEnv) (n : Bytes) : Option Ty := (ge.find? (·.1 == n)).map (·.2)

def retypeOperand (ge : GEnv) (e : List (Ident × Ty)) (t : Ty) : Operand → Ty
  | .loc i => (lookup e i).getD t
  | .const _ => t
  | .glob n => (lookupG ge n).getD t

/-- asm/value.go irValue: the type written in front of a local or global operand is discarded; the operand prints at the type of its definition -/
def retypeArg (ge : GEnv) (e : List (Ident × Ty)) : Arg → Arg
  | .tyval t o => .tyval (retypeOperand ge e t o) o
  | .retv (some (t, o)) => .retv (some (retypeOperand ge e t o, o))
  | .tyvals ixs => .tyvals (ixs.map fun p => (retypeOperand ge e p.1 p.2, p.2))
  | a => a

def retypeExt (ge : GEnv) (e : List (Ident × Ty)) : Ext → Ext
  | .clauses cl cs => .clauses cl (cs.map fun c => (c.1, retypeOperand ge e c.2.1 c.2.2, c.2.2))
  | x => x

def retypeInst (ge : GEnv) (e : List (Ident × Ty)) (i : Inst) : Inst :=
  { i with args := i.args.map (retypeArg ge e), ext := retypeExt ge e i.ext }

def retypeIn (ge : GEnv) (f : Func) : Func :=
  let e := env f
  { f with blocks := f.blocks.map fun b => { b with insts := b.insts.map (retypeInst ge e), term := retypeInst ge e b.term } }

def instGlobs (i : Inst) : List Bytes := i.args.flatMap argGlobs ++ extGlobs i.ext

def globUses (f : Func) : List Bytes :=
  f.blocks.flatMap fun b => (instsOf b).flatMap instGlobs

def hasDupI : List Ident → Bool
  | [] => false
  | x :: xs => xs.contains x || hasDupI xs

def identSlot : Ident → Numbering.SrcSlot
  | .name _ => ⟨true, none, true⟩
  | .id k => ⟨false, some (Int.ofNat k), true⟩
  | .anon => ⟨false, none, true⟩

def slotsOf (f : Func) : List Numbering.SrcSlot := (defs f).map identSlot

/-- a nameless definition takes the number AssignIDs gave it -/
def fillIdent (i : Ident) (s : Numbering.Slot) : Ident :=
  match i with
  | .anon => .id s.id.toNat
  | i => i

def fillParams : List (Ty × Ident) → List Numbering.Slot → List (Ty × Ident) × List Numbering.Slot
  | [], l => ([], l)
  | p :: ps, [] => (p :: ps, [])
  | (t, i) :: ps, s :: l => let (ps', l') := fillParams ps l; ((t, fillIdent i s) :: ps', l')

def fillInsts : List Inst → List Numbering.Slot → List Inst × List Numbering.Slot
  | [], l => ([], l)
  | i :: is, l =>
    match i.res, l with
    | some id, s :: l1 => let (is', l') := fillInsts is l1; ({ i with res := some (fillIdent id s) } :: is', l')
    | some _, [] => (i :: is, [])
    | none, l => let (is', l') := fillInsts is l; (i :: is', l')

def fillBlocks : List Block → List Numbering.Slot → List Block
  | [], _ => []
  | b :: bs, [] => b :: bs
  | b :: bs, s :: l =>
    let (is', l1) := fillInsts b.insts l
    let (t', l2) := fillInsts [b.term] l1
    ⟨fillIdent b.label s, is', t'.headD b.term⟩ :: fillBlocks bs l2

def fill (f : Func) (l : List Numbering.Slot) : Func :=
  let (ps, l1) := fillParams f.params l
  { f with params := ps, blocks := fillBlocks f.blocks l1 }

def blockDefs (f : Func) : List Ident := f.blocks.map (·.label)

def argLabs : Arg → List Ident
  | .lab i => [i]
  | .phis incs => incs.map (·.2)
  | .labs l => l
  | .unwind u => u.toList
  | _ => []

def instLabs (i : Inst) : List Ident := i.args.flatMap argLabs ++ extLabs i.ext

def labUses (f : Func) : List Ident :=
  f.blocks.flatMap fun b => (instsOf b).flatMap instLabs

/-- every value-yielding instruction gets a type when its scaffold is created (the vector instructions demand a vector first operand: the parser panics otherwise) -/
def flagsOf (i : Inst) : List Nat :=
  match i.args with
  | .flags xs :: _ => xs
  | _ => []

/-- rows whose flag is a single optional keyword in the grammar (`exact`, `volatile`: a boolean field of the instruction): a repeated keyword is a syntax error -/
def boolFlagRows : List Nat := [3, 4, 8, 9, 73, 90]

/-- rows whose flag keywords are optional keywords of the grammar in a FIXED order (`atomic` before `volatile`, `weak` before `volatile`): the positions
    written are strictly ascending -/
def ascFlagRows : List Nat := [23, 24, 89]

def strictAsc : List Nat → Bool
  | [] => true
  | [_] => true
  | a :: b :: r => decide (a < b) && strictAsc (b :: r)

/-- the optional ordering keyword of a load / store -/
def okwOf (i : Inst) : Option (Option Nat) :=
  i.args.findSome? fun a => match a with | .okw o => some o | _ => none

/-- load / store: `atomic` is written exactly when an ordering is (the two productions of the grammar) -/
def atomicOK (i : Inst) : Bool :=
  match okwOf i with
  | some o => (flagsOf i).contains 0 == o.isSome
  | none => true

def typed (f : Func) : Bool :=
  f.blocks.all fun b => (instsOf b).all fun i =>
    (match rows[i.row]? with
     | some r => !r.hasRes || (defTy i).isSome
     | none => true) &&
    (!boolFlagRows.contains i.row || (flagsOf i).length ≤ 1) &&
    (!ascFlagRows.contains i.row || strictAsc (flagsOf i)) && atomicOK i

/-- the call rows: `call void` / `call T`, plain and with a tail-call marker -/
def callRows : List Nat := [74, 75, 76, 77, 78, 79, 80, 81, 83, 84]
/-- those that yield a value (their keyword is extended by `void ` in the row before) -/
def valueCallRows : List Nat := [75, 77, 79, 81, 84]

def calleeOf (i : Inst) : Option Operand :=
  i.args.findSome? fun a => match a with | .val o => some o | _ => none

def isFuncPtr : Ty → Bool
  | .ptr (.func _ _ false) _ => true
  | _ => false

/-- ir/inst_other.go InstCall.Sig: the callee of a call is a pointer to a function (printing panics otherwise); a variadic callee (its signature
    is printed instead of the return type) is outside the fragment -/
def callsOK (ge : GEnv) (f : Func) : Bool :=
  let e := env f
  f.blocks.all fun b => (instsOf b).all fun i =>
    if callRows.contains i.row then
      match calleeOf i with
      | some (.loc x) => (match lookup e x with | some t => isFuncPtr t | none => true)
      | some (.glob n) => (match lookupG ge n with | some t => isFuncPtr t | none => true)
      | _ => true
    else true

/-- the row of the instruction that defines a local value -/
def defRow (f : Func) (x : Ident) : Option Nat :=
  (f.blocks.flatMap instsOf).findSome? fun i => if i.res == some x then some i.row else none

def locOf (i : Inst) : Option Ident :=
  i.args.findSome? fun a => match a with | .loc x => some x | _ => none

/-- the rows whose bare local operand must be defined by an instruction of a particular row: catchret `from` a catchpad (95), cleanupret `from` a
    cleanuppad (96), catchpad `within` a catchswitch (92) (asm/term.go irCatchRetTerm, irCleanupRetTerm; asm/inst_other.go irCatchPadInst) -/
def padRows : List (Nat × Nat) := [(93, 95), (94, 96), (95, 92)]

def padsOK (f : Func) : Bool :=
  f.blocks.all fun b => (instsOf b).all fun i =>
    match padRows.find? (·.1 == i.row), locOf i with
    | some (_, want), some x => (match defRow f x with | some r => r == want | none => false)
    | _, _ => true

/-- the families in the order of the grammar; at most one keyword of each of the families 0–4, any number of return attributes (family 5: `ReturnAttrs=ReturnAttribute*`) -/
def leadAsc : List Nat → Bool
  | [] => true
  | [_] => true
  | a :: b :: r => (decide (a < b) || (a == 5 && b == 5)) && leadAsc (b :: r)

/-- at most one keyword of each family but the return attributes, the families in the order of the grammar (a repeated or misplaced keyword is a syntax error) -/
def leadOK (xs : List Nat) : Bool := xs.all (fun i => decide (i < kLead.length)) && leadAsc (xs.map leadFamily)

/-- the parser on a function definition (asm/local.go): scaffold and AssignIDs (nameless values are numbered, written IDs validated), duplicate
    definitions, undefined uses, label operands that are not blocks (asm/helper.go irBlock); then the operand types -/
def translateCore (ge : GEnv) (f : Func) : Option Func :=
  match Numbering.parseAssign (slotsOf f) with
  | .error => none
  | .ok l =>
    let g := fill f l
    if hasDupI (defs g) then none
    else if (uses g).all (fun u => (defs g).contains u) && (labUses g).all (fun u => (blockDefs g).contains u) && typed g &&
        (globUses g).all (fun n => (ge.map (·.1)).contains n) && callsOK ge g && padsOK g then some (retypeIn ge g) else none

/-- …after the header keywords were checked (one of each family, in the order of the grammar) -/
def translateIn (ge : GEnv) (f : Func) : Option Func := if leadOK f.lead then translateCore ge f else none

theorem translateIn_core (ge : GEnv) (f g : Func) (h : translateIn ge f = some g) : translateCore ge f = some g ∧ leadOK f.lead = true := by
  unfold translateIn at h
  by_cases hc : leadOK f.lead = true
  · simp only [hc, if_true] at h; exact ⟨h, hc⟩
  · simp only [hc, Bool.false_eq_true, if_false] at h; cases h

theorem translateIn_none_of_core (ge : GEnv) (f : Func) (h : translateCore ge f = none) : translateIn ge f = none := by
  unfold translateIn; split <;> simp [h]

/-- the type of a reference to a function: pointer to its signature in the address space of the function (ir/func.go Type) -/
def funcRefTy (f : Func) : Ty := .ptr (.func f.ret (TyList.ofList (f.params.map (·.1))) f.variadic) f.tail.addrspace

/-- a function definition on its own: the only global is the function itself -/
def selfEnv (f : Func) : GEnv := [(f.name, funcRefTy f)]

/-- the metadata IDs the attachments of the function refer to -/
def mdUses (f : Func) : List Nat :=
  f.blocks.flatMap fun b => (instsOf b).flatMap fun i => i.md.map (·.2)

/-- a function definition on its own defines no metadata: an attachment refers to an undefined ID (asm/metadata.go irMetadataAttachment) -/
def translate (f : Func) : Option Func := if (mdUses f).isEmpty then translateIn (selfEnv f) f else none

theorem translate_some (f g : Func) (h : translate f = some g) : translateIn (selfEnv f) f = some g ∧ (mdUses f).isEmpty = true := by
  unfold translate at h
  by_cases hc : (mdUses f).isEmpty = true
  · simp only [hc, if_true] at h; exact ⟨h, hc⟩
  · simp only [hc, Bool.false_eq_true, if_false] at h; cases h

def parse (ls : List Bytes) : Option Func := (readFunc ls).bind translate

/-! ### the decidable well-formedness predicate (hypothesis of the round-trip theorem; evaluated by the driver on every generated function) -/

def identOKB : Ident → Bool
  | .name n => !n.isEmpty
  | .id k => decide (k < 2 ^ 63)
  | .anon => false

def operandOKB : Operand → Bool
  | .loc i => identOKB i
  | .const c => cwf c
  | .glob n => !n.isEmpty

def isVoid : Ty → Bool
  | .void => true
  | _ => false

def argOKB : Arg → Bool
  | .ty _ => true
  | .tyval _ o => operandOKB o
  | .val o => operandOKB o
  | .lab i => identOKB i
  | .retv none => true
  | .retv (some (t, o)) => operandOKB o && !isVoid t
  | .phis incs => !incs.isEmpty && incs.all fun p => operandOKB p.1 && identOKB p.2
  | .nums ks => ks.all fun k => decide (k < 2 ^ 63)
  | .align a => (match a with | some n => decide (n < 2 ^ 63) | none => true)
  | .tyvals ixs => ixs.all fun p => operandOKB p.2
  | .flags _ => true
  | .kw _ => true
  | .okw _ => true
  | .loc i => identOKB i
  | .pad p => (match p with | some i => identOKB i | none => true)
  | .labs l => l.all identOKB
  | .unwind u => (match u with | some i => identOKB i | none => true)

/-- the type after a flag list does not start with one of its keywords (no type does; decidable instance by instance) -/
def flagTyOK (ks : List Bytes) (t : Ty) : Bool :=
  ks.all fun k => !(TyParse.stripPrefix (k ++ [32]) (tyString t ++ [32])).isSome

/-- the same for a type that is followed by `, ` -/
def flagTyCommaOK (ks : List Bytes) (t : Ty) : Bool :=
  ks.all fun k => !(TyParse.stripPrefix (k ++ [32]) (tyString t ++ sComma)).isSome

def matchesB : List Slot → List Arg → Bool
  | [], [] => true
  | .lit _ :: fs, as => matchesB fs as
  | .ty :: fs, .ty _ :: as => matchesB fs as
  | .tyval :: fs, .tyval _ _ :: as => matchesB fs as
  | .val :: fs, .val _ :: as => matchesB fs as
  | .lab :: fs, .lab _ :: as => matchesB fs as
  | .retv :: fs, .retv _ :: as => matchesB fs as
  | .phis :: fs, .phis _ :: as => matchesB fs as
  | .nums :: fs, .nums _ :: as => matchesB fs as
  | .align :: fs, .align _ :: as => matchesB fs as
  | .tyvals :: fs, .tyvals _ :: as => matchesB fs as
  | .callee :: fs, .val o :: as => (match o with | .const _ => false | _ => true) && matchesB fs as
  | .cargs :: fs, .tyvals _ :: as => matchesB fs as
  | .flags ks :: .tyval :: fs, .flags xs :: .tyval t _ :: as => xs.all (fun i => decide (i < ks.length)) && flagTyOK ks t && matchesB fs as
  | .flags ks :: .ty :: fs, .flags xs :: .ty t :: as => xs.all (fun i => decide (i < ks.length)) && flagTyCommaOK ks t && matchesB fs as
  | .flags ks :: .kw ks2 :: fs, .flags xs :: .kw i :: as => xs.all (fun i => decide (i < ks.length)) && decide (i < ks2.length) && matchesB fs as
  | .kw ks :: fs, .kw i :: as => decide (i < ks.length) && matchesB fs as
  | .okw ks :: fs, .okw o :: as => (match o with | some i => decide (i < ks.length) | none => true) && matchesB fs as
  | .loc :: fs, .loc _ :: as => matchesB fs as
  | .pad :: fs, .pad _ :: as => matchesB fs as
  | .labs :: fs, .labs _ :: as => matchesB fs as
  | .unwind :: fs, .unwind _ :: as => matchesB fs as
  | .eargs :: fs, .tyvals _ :: as => matchesB fs as
  | _, _ => false

def sVoidSp : Bytes := [118, 111, 105, 100, 32]        -- "void "
def startsVoid (s : Bytes) : Bool := (TyParse.stripPrefix sVoidSp s).isSome

/-- the return type written in a value call does not start with `void ` (`call void …` is row 74; a type such as `void ()*` would be read as that row) -/
def callTyOK (i : Inst) : Bool :=
  !valueCallRows.contains i.row || (match i.args with | .ty t :: _ => !startsVoid (tyString t ++ [32]) | _ => false)

/-- the continuation lines are those of the row, with well-formed identifiers and constants -/
def extOKB (row : Nat) : Ext → Bool
  | .none => !(row == swRow) && !invRows.contains row && !(row == lpRow)
  | .cases cs => row == swRow && cs.all (fun c => cwf c.2.1 && identOKB c.2.2)
  | .dests n u => invRows.contains row && identOKB n && identOKB u
  | .clauses _ cs => row == lpRow && cs.all (fun c => operandOKB c.2.2)

def instOKB (i : Inst) : Bool :=
  match rows[i.row]? with
  | none => false
  | some r => matchesB r.slots i.args && i.args.all argOKB && (r.hasRes == i.res.isSome) &&
      (match i.res with | some id => identOKB id | none => true) && callTyOK i &&
      extOKB i.row i.ext

def blockOKB (b : Block) : Bool :=
  identOKB b.label && b.insts.all (fun i => instOKB i && !isTerm i) && instOKB b.term && isTerm b.term

/-- the clause fields are within the parser's ranges -/
def tailOK (t : HTail) : Bool :=
  (match t.unnamed with | some i => decide (i < 2) | none => true) && decide (t.addrspace < 2 ^ 64) && t.attrs.all (fun i => decide (i < kFuncAttr.length)) &&
    decide (t.align < 2 ^ 64)

/-- syntactic well-formedness: non-empty names, IDs within the parser's range, arguments matching the rows, one terminator per block (last) -/
def wfSyn0 (f : Func) : Bool :=
  !f.name.isEmpty && f.params.all (fun p => identOKB p.2) && f.blocks.all blockOKB && leadOK f.lead &&
  -- (no header keyword followed by a space starts the text of the return type: decidable side condition of the reader of the keywords)
  kLead.all (fun k => (TyParse.stripPrefix (k ++ [32]) (headerRest f)).isNone) && tailOK f.tail

/-- one list of attribute positions per parameter, the positions within `kParamAttr` -/
def pattrsOKB (f : Func) : Bool :=
  f.pattrs.length == f.params.length && f.pattrs.all (fun a => a.all (fun i => decide (i < kParamAttr.length)))

def wfSyn (f : Func) : Bool := wfSyn0 f && pattrsOKB f

/-- the type written in front of every local operand is the type of that operand's definition -/
def consistentOp (ge : GEnv) (e : List (Ident × Ty)) (t : Ty) : Operand → Bool
  | .loc i => (match lookup e i with | some t' => equal t' t | none => true)
  | .glob n => (match lookupG ge n with | some t' => equal t' t | none => true)
  | .const _ => true

def consistentArg (ge : GEnv) (e : List (Ident × Ty)) : Arg → Bool
  | .tyval t o => consistentOp ge e t o
  | .retv (some (t, o)) => consistentOp ge e t o
  | .tyvals ixs => ixs.all fun p => consistentOp ge e p.1 p.2
  | _ => true

def consistentExt (ge : GEnv) (e : List (Ident × Ty)) : Ext → Bool
  | .clauses _ cs => cs.all fun c => consistentOp ge e c.2.1 c.2.2
  | _ => true

def consistent (ge : GEnv) (f : Func) : Bool :=
  f.blocks.all fun b => (instsOf b).all fun i => i.args.all (consistentArg ge (env f)) && consistentExt ge (env f) i.ext

/-- semantic well-formedness: every identifier defined once, every use defined, unnamed values numbered as LLVM numbers them, operand types
    consistent with the definitions -/
def wfSemIn (ge : GEnv) (f : Func) : Bool :=
  !hasDupI (defs f) && (uses f).all (fun u => (defs f).contains u) && (labUses f).all (fun u => (blockDefs f).contains u) &&
    LLVMSpec.agreesFrom 0 (slotsOf f) && consistent ge f && typed f && (globUses f).all (fun n => (ge.map (·.1)).contains n) && callsOK ge f && padsOK f

def wfSem (f : Func) : Bool := wfSemIn (selfEnv f) f && (mdUses f).isEmpty

/-- the attachments: non-empty names, IDs within the parser's range, only on instructions without continuation lines, and the text of the instruction
    itself free of `, !` outside quoted names (decidable; evaluated by the driver on every generated function) -/
def mdInstOKB (useHex : Int → Bool) (i : Inst) : Bool :=
  i.md.all (fun a => !a.1.isEmpty && decide (a.2 < 2 ^ 63)) && scanMd false (instString useHex i) == some false &&
    (i.md.isEmpty || !noMdRows.contains i.row) &&
    -- (the last continuation line, where the attachments of a switch / invoke / landingpad stand, has no `, !` of its own outside quoted names)
    (match (extLines useHex i.ext).getLast? with | some l => scanMd false l == some false | none => true)

def mdWF (useHex : Int → Bool) (f : Func) : Bool := f.blocks.all fun b => (instsOf b).all (mdInstOKB useHex)

def wfIn (ge : GEnv) (f : Func) : Bool := wfSyn f && wfSemIn ge f
def wf (f : Func) : Bool := wfSyn f && wfSem f


end Llir.Core3
