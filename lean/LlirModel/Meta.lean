import LlirModel.Core3
/-! M-Meta: the metadata section of a module at byte level — numbered definitions `!N = [distinct] !{fields}` whose fields are `null`, a
    reference `!M`, a string `!"…"`, a typed constant `T V` (M-Core-2 constants) or an inline tuple `!{…}` (arbitrarily nested), and named
    metadata `!name = !{!1, !2}`.

    Printing side: ir/module.go (named metadata in natural-sort order of their names, then the numbered definitions in the order of their IDs),
    ir/metadata (Tuple.String / Tuple.LLString, String.String, Value.String, enc.MetadataID, enc.MetadataName).
    Parsing side: asm/module.go (indexTopLevelEntities: a second definition of an ID is an error, named metadata of one name are MERGED in source order;
    createMetadataDefs / translateMetadataDefs; metadataDefFromID: a reference to an ID nothing defines is an error), asm/translate.go
    (addMetadataDefsToModule: sorted by ID; addNamedMetadataDefsToModule). The line readers stand in for the external grammar (compared with the real
    parser by the harness, also on mutants). In the model, node identity is the ID: a reference `ref n` denotes the one definition with ID `n`. -/
namespace Llir.Meta
open Llir Llir.Types Llir.Core2
export Llir.Core3 (mdName isMdNameChar mdID)

mutual
inductive Field where
  | null
  | ref (id : Nat)
  | str (s : Bytes)
  | val (t : Ty) (c : Const)
  | tuple (fs : Fields)
inductive Fields where
  | nil
  | cons (f : Field) (rest : Fields)
end

instance : Inhabited Field := ⟨.null⟩
instance : Inhabited Fields := ⟨.nil⟩

structure Def where
  id : Nat
  distinct : Bool
  fields : Fields
  deriving Inhabited

structure Named where
  name : Bytes
  ids : List Nat
  deriving Inhabited

structure Sec where
  named : List Named
  defs : List Def
  deriving Inhabited

/-! ### printing -/

def sSep : Bytes := [44, 32]                                         -- ", "
def sEq : Bytes := [32, 61, 32]                                      -- " = "
def sDistinct : Bytes := [100, 105, 115, 116, 105, 110, 99, 116, 32] -- "distinct "
def sOpenT : Bytes := [33, 123]                                      -- "!{"


mutual
def fieldString (useHex : Int → Bool) : Field → Bytes
  | .null => sNull
  | .ref n => mdID n
  | .str s => 33 :: Enc.quote s
  | .val t c => tyString t ++ [32] ++ constIdent useHex t c
  | .tuple fs => sOpenT ++ fieldsString useHex fs ++ [125]
def fieldsString (useHex : Int → Bool) : Fields → Bytes
  | .nil => []
  | .cons f .nil => fieldString useHex f
  | .cons f (.cons g r) => fieldString useHex f ++ sSep ++ fieldsString useHex (.cons g r)
end

def defString (useHex : Int → Bool) (d : Def) : Bytes :=
  mdID d.id ++ sEq ++ (if d.distinct then sDistinct else []) ++ sOpenT ++ fieldsString useHex d.fields ++ [125]

def idsString : List Nat → Bytes
  | [] => []
  | [n] => mdID n
  | n :: m :: r => mdID n ++ sSep ++ idsString (m :: r)


def namedString (n : Named) : Bytes := mdName n.name ++ sEq ++ sOpenT ++ idsString n.ids ++ [125]

/-- the lines of the metadata part of `Module.String()` (the blank line separates the two groups) -/
def printSec (useHex : Int → Bool) (s : Sec) : List Bytes :=
  s.named.map namedString ++ (if s.named.isEmpty || s.defs.isEmpty then [] else [[]]) ++ s.defs.map (defString useHex)

/-! ### line readers -/

def noNames (t : Ty) (c : Const) : Bool := (tyNames t).isEmpty && (constNames c).isEmpty

def stripPrefix := @TyParse.stripPrefix

mutual
def readField : Nat → Bytes → Option (Field × Bytes)
  | 0, _ => none
  | f + 1, s =>
    match s with
    | 33 :: r =>
      (match r with
       | 34 :: q =>
         (match q.dropWhile (· != 34) with
          | 34 :: rest => some (.str (Enc.unescape (q.takeWhile (· != 34))), rest)
          | _ => none)
       | 123 :: q =>
         (match readFields f q with
          | some (fs, 125 :: rest) => some (.tuple fs, rest)
          | _ => none)
       | _ =>
         (match parseUint63 (r.takeWhile isDigit) with
          | some n => some (.ref n, r.dropWhile isDigit)
          | none => none))
    | _ =>
      (match stripPrefix sNull s with
       | some r => some (.null, r)
       | none =>
         (match TyParse.parseTy (tyFuel s) s with
          | some (t, 32 :: r1) =>
            (match parseConst (r1.length + 1) t r1 with
             | some (c, r2) => if constTyOK t c && noNames t c then some (.val t c, r2) else none
             | none => none)
          | _ => none))
def readFields : Nat → Bytes → Option (Fields × Bytes)
  | 0, _ => none
  | f + 1, s =>
    match s with
    | 125 :: _ => some (.nil, s)
    | _ =>
      (match readField f s with
       | some (x, 44 :: 32 :: r) =>
         (match readFields f r with
          | some (.nil, _) => none
          | some (xs, r') => some (.cons x xs, r')
          | none => none)
       | some (x, r) => some (.cons x .nil, r)
       | none => none)
end

/-- `!1, !2, …` up to the closing brace -/
def readIds : Nat → Bytes → Option (List Nat × Bytes)
  | 0, _ => none
  | f + 1, s =>
    match s with
    | 125 :: _ => some ([], s)
    | 33 :: r =>
      (match parseUint63 (r.takeWhile isDigit) with
       | some n =>
         (match r.dropWhile isDigit with
          | 44 :: 32 :: r' =>
            (match readIds f r' with
             | some ([], _) => none
             | some (ns, r'') => some (n :: ns, r'')
             | none => none)
          | r' => some ([n], r'))
       | none => none)
    | _ => none

inductive Raw where
  | def_ (d : Def)
  | named (n : Named)
  | blank
  deriving Inhabited


/-- one line of the metadata section -/
def readLine (s : Bytes) : Option Raw :=
  match s with
  | [] => some .blank
  | 33 :: r =>
    if (r.head?.map isDigit).getD false then
      -- numbered definition
      (match parseUint63 (r.takeWhile isDigit) with
       | some n =>
         (match stripPrefix sEq (r.dropWhile isDigit) with
          | some r1 =>
            let (dist, r2) := match stripPrefix sDistinct r1 with | some r2 => (true, r2) | none => (false, r1)
            (match stripPrefix sOpenT r2 with
             | some r3 =>
               (match readFields (r3.length + 2) r3 with
                | some (fs, [125]) => some (.def_ ⟨n, dist, fs⟩)
                | _ => none)
             | none => none)
          | none => none)
       | none => none)
    else
      let tok := r.takeWhile isMdNameChar
      if tok.isEmpty then none else
      (match stripPrefix (sEq ++ sOpenT) (r.dropWhile isMdNameChar) with
       | some r1 =>
         (match readIds (r1.length + 2) r1 with
          | some (ns, [125]) => some (.named ⟨Enc.unescape tok, ns⟩)
          | _ => none)
       | none => none)
  | _ => none

def readLines : List Bytes → Option (List Raw)
  | [] => some []
  | l :: ls =>
    match readLine l, readLines ls with
    | some r, some rs => some (r :: rs)
    | _, _ => none

/-! ### translation -/

mutual
def fieldRefs : Field → List Nat
  | .ref n => [n]
  | .tuple fs => fieldsRefs fs
  | _ => []
def fieldsRefs : Fields → List Nat
  | .nil => []
  | .cons f r => fieldRefs f ++ fieldsRefs r
end

def hasDupN : List Nat → Bool
  | [] => false
  | x :: xs => xs.contains x || hasDupN xs

def insertDef (d : Def) : List Def → List Def
  | [] => [d]
  | e :: es => if d.id < e.id then d :: e :: es else e :: insertDef d es
/-- asm/translate.go addMetadataDefsToModule: by ID -/
def sortDefs (ds : List Def) : List Def := ds.foldr insertDef []

def insertNamed (n : Named) : List Named → List Named
  | [] => [n]
  | e :: es => if Natsort.less n.name e.name then n :: e :: es else e :: insertNamed n es
def sortNamed (ns : List Named) : List Named := ns.foldr insertNamed []

/-- the names in the order of their first occurrence -/
def namesInOrder : List Named → List Bytes
  | [] => []
  | n :: r => n.name :: (namesInOrder r).filter (fun m => !(m == n.name))

/-- definitions of one name are merged, nodes appended in source order (asm/module.go indexTopLevelEntities) -/
def mergeNamed (l : List Named) : List Named :=
  (namesInOrder l).map fun nm => ⟨nm, ((l.filter (·.name == nm)).map (·.ids)).flatten⟩

inductive Res (α : Type) where
  | ok : α → Res α
  | error : Res α
  deriving Inhabited

def rawDefs : List Raw → List Def
  | [] => []
  | .def_ d :: r => d :: rawDefs r
  | _ :: r => rawDefs r
def rawNamed : List Raw → List Named
  | [] => []
  | .named n :: r => n :: rawNamed r
  | _ :: r => rawNamed r

def translate (rs : List Raw) : Res Sec :=
  let ds := rawDefs rs
  let ns := rawNamed rs
  let ids := ds.map (·.id)
  if hasDupN ids then .error
  else if !((ds.flatMap (fun d => fieldsRefs d.fields) ++ ns.flatMap (·.ids)).all (fun n => ids.contains n)) then .error
  else .ok ⟨sortNamed (mergeNamed ns), sortDefs ds⟩

def parse (ls : List Bytes) : Res Sec :=
  match readLines ls with
  | some rs => translate rs
  | none => .error

/-! ### the fragment (decidable) -/

mutual
def fieldOK : Field → Bool
  | .null => true
  | .ref n => decide (n < 2 ^ 63)
  | .str _ => true
  | .val t c => cwf c && constTyOK t c && noNames t c
  | .tuple fs => fieldsOK fs
def fieldsOK : Fields → Bool
  | .nil => true
  | .cons f r => fieldOK f && fieldsOK r
end

def sortedIds : List Def → Bool
  | [] => true
  | [_] => true
  | d :: e :: r => decide (d.id < e.id) && sortedIds (e :: r)

def sortedNames : List Named → Bool
  | [] => true
  | [_] => true
  | a :: b :: r => Natsort.less a.name b.name && sortedNames (b :: r)

def distinctNames : List Named → Bool
  | [] => true
  | n :: r => r.all (fun m => !(m.name == n.name)) && distinctNames r

def wf (s : Sec) : Bool :=
  s.defs.all (fun d => decide (d.id < 2 ^ 63) && fieldsOK d.fields) &&
  s.named.all (fun n => !n.name.isEmpty && n.ids.all (fun k => decide (k < 2 ^ 63))) &&
  sortedIds s.defs && sortedNames s.named && distinctNames s.named &&
  (s.defs.flatMap (fun d => fieldsRefs d.fields) ++ s.named.flatMap (·.ids)).all (fun n => (s.defs.map (·.id)).contains n)

end Llir.Meta
