import LlirModel.Types
import LlirModel.Digits
/-! A recursive-descent reader for the text `Type.String()` prints (LlirModel/Types.lean `tyString`).

It is the inverse the round-trip / injectivity theorems of C16 are stated against
(`LlirProofs/TyParseLemmas.lean`: `parseTy f (tyString t ++ r) = some (t, r)` for every type `t`, every
continuation `r` that cannot extend a type, and every `f ≥ size t`), and it is run against the real
parser by the `ty.parse` operation of the harness. Fuel makes it structurally recursive; `parse` supplies
enough fuel for any input. -/
namespace Llir.TyParse
open Llir Llir.Types

def stripPrefix : Bytes → Bytes → Option Bytes
  | [], s => some s
  | _ :: _, [] => none
  | p :: ps, c :: cs => if p == c then stripPrefix ps cs else none

/-- a run of decimal digits, as a number -/
def readNat (s : Bytes) : Option (Nat × Bytes) :=
  match Digits.parseNat 10 (s.takeWhile isDigit) with
  | some n => some (n, s.dropWhile isDigit)
  | none => none

/-- the name after `%`: a quoted string (up to the next `"`; the printer escapes `"` inside) or a run of
    identifier characters; returned unquoted and unescaped -/
def readName (s : Bytes) : Option (Bytes × Bytes) :=
  match s with
  | 34 :: r =>
    let body := r.takeWhile (· != 34)
    match r.dropWhile (· != 34) with
    | 34 :: rest => some (Enc.unescape body, rest)
    | _ => none
  | _ => some (s.takeWhile Enc.inTail, s.dropWhile Enc.inTail)

def sHalf : Bytes := [104, 97, 108, 102]
def sFloat : Bytes := [102, 108, 111, 97, 116]
def sDouble : Bytes := [100, 111, 117, 98, 108, 101]
def sFp128 : Bytes := [102, 112, 49, 50, 56]
def sX86fp80 : Bytes := [120, 56, 54, 95, 102, 112, 56, 48]
def sPpc : Bytes := [112, 112, 99, 95, 102, 112, 49, 50, 56]
def sFloatKind : Bytes := [70, 108, 111, 97, 116, 75, 105, 110, 100, 40]

mutual
/-- a type: a base form followed by any number of postfix forms (`*`, ` addrspace(N)*`, ` (params)`) -/
def parseTy : Nat → Bytes → Option (Ty × Bytes)
  | 0, _ => none
  | f + 1, s =>
    match parseBase f s with
    | some (b, r) => parsePost f b r
    | none => none

def parseBase : Nat → Bytes → Option (Ty × Bytes)
  | 0, _ => none
  | f + 1, s =>
    match s with
    | 105 :: r =>                                   -- iN
      (match readNat r with | some (w, r') => some (.int w, r') | none => none)
    | 37 :: r =>                                    -- %name
      (match readName r with | some (n, r') => some (.named n, r') | none => none)
    | 91 :: r =>                                    -- [N x T]
      (match readNat r with
       | some (n, r1) =>
         (match stripPrefix sX r1 with
          | some r2 =>
            (match parseTy f r2 with
             | some (e, 93 :: r3) => some (.arr n e, r3)
             | _ => none)
          | none => none)
       | none => none)
    | 123 :: 125 :: r => some (.struct false .nil, r)             -- {}
    | 123 :: 32 :: r =>                                           -- { fields }
      (match parseList f r with
       | some (fs, 32 :: 125 :: r') => some (.struct false fs, r')
       | _ => none)
    | 60 :: r =>
      if r.head? == some 123 then                                 -- <{}> / <{ fields }>
        (match r.tail with
         | 125 :: 62 :: r' => some (.struct true .nil, r')
         | 32 :: r' =>
           (match parseList f r' with
            | some (fs, 32 :: 125 :: 62 :: r'') => some (.struct true fs, r'')
            | _ => none)
         | _ => none)
      else if r.head? == some 118 then                            -- <vscale x N x T>
        (match stripPrefix sVscale r with
         | some r0 =>
           (match readNat r0 with
            | some (n, r1) =>
              (match stripPrefix sX r1 with
               | some r2 =>
                 (match parseTy f r2 with
                  | some (e, 62 :: r3) => some (.vec true n e, r3)
                  | _ => none)
               | none => none)
            | none => none)
         | none => none)
      else                                                        -- <N x T>
        (match readNat r with
         | some (n, r1) =>
           (match stripPrefix sX r1 with
            | some r2 =>
              (match parseTy f r2 with
               | some (e, 62 :: r3) => some (.vec false n e, r3)
               | _ => none)
            | none => none)
         | none => none)
    | _ =>
      match stripPrefix sVoid s with
      | some r => some (.void, r)
      | none =>
      match stripPrefix sMMX s with
      | some r => some (.mmx, r)
      | none =>
      match stripPrefix sLabel s with
      | some r => some (.label, r)
      | none =>
      match stripPrefix sToken s with
      | some r => some (.token, r)
      | none =>
      match stripPrefix sMetadata s with
      | some r => some (.metadata, r)
      | none =>
      match stripPrefix sHalf s with
      | some r => some (.float 0, r)
      | none =>
      match stripPrefix sFloat s with
      | some r => some (.float 1, r)
      | none =>
      match stripPrefix sDouble s with
      | some r => some (.float 2, r)
      | none =>
      match stripPrefix sFp128 s with
      | some r => some (.float 3, r)
      | none =>
      match stripPrefix sX86fp80 s with
      | some r => some (.float 4, r)
      | none =>
      match stripPrefix sPpc s with
      | some r => some (.float 5, r)
      | none =>
      match stripPrefix sFloatKind s with
      | some r =>
        (match readNat r with
         | some (k, 41 :: r') => if k ≥ 6 then some (.float k, r') else none
         | _ => none)
      | none => none

/-- postfix forms applied to the type read so far -/
def parsePost : Nat → Ty → Bytes → Option (Ty × Bytes)
  | 0, _, _ => none
  | f + 1, t, s =>
    match s with
    | 42 :: r => parsePost f (.ptr t 0) r                          -- *
    | 32 :: 97 :: r =>                                             -- " addrspace(N)*"
      (match stripPrefix sAddrspace (32 :: 97 :: r) with
       | some r1 =>
         (match readNat r1 with
          | some (as, 41 :: 42 :: r2) => if as != 0 then parsePost f (.ptr t as) r2 else none
          | _ => none)
       | none => none)
    | 32 :: 40 :: r =>                                             -- " (params)"
      if r.head? == some 41 then parsePost f (.func t .nil false) r.tail          -- " ()"
      else if r.head? == some 46 then                                               -- " (...)"
        (match stripPrefix [46, 46, 46, 41] r with
         | some r' => parsePost f (.func t .nil true) r'
         | none => none)
      else
        (match parseList f r with
         | some (ps, 41 :: r') => parsePost f (.func t ps false) r'
         | some (ps, 44 :: 32 :: 46 :: 46 :: 46 :: 41 :: r') => parsePost f (.func t ps true) r'
         | _ => none)
    | _ => some (t, s)

/-- one or more types separated by `, ` (stops before `, ...`) -/
def parseList : Nat → Bytes → Option (TyList × Bytes)
  | 0, _ => none
  | f + 1, s =>
    match parseTy f s with
    | some (t, 44 :: 32 :: r) =>
      if r.head? == some 46 then some (.cons t .nil, 44 :: 32 :: r)
      else
        (match parseList f r with
         | some (ts, r') => some (.cons t ts, r')
         | none => none)
    | some (t, r) => some (.cons t .nil, r)
    | none => none
end

/-- the whole string must be one type -/
def parse (s : Bytes) : Option Ty :=
  match parseTy (2 * s.length + 2) s with
  | some (t, []) => some t
  | _ => none

end Llir.TyParse
