import LlirModel.Enc
/-! Model of /repo/ir/types/types.go in the universe the property fixes: type names are unique and
    only struct types are named, so an identified struct is the leaf `named n` (its body is never
    consulted by `Equal` or `String`). -/
namespace Llir.Types
open Llir

mutual
inductive Ty where
  | void | mmx | label | token | metadata
  | int (w : Nat)
  | float (k : Nat)                     -- FloatKind: 0 half,1 float,2 double,3 fp128,4 x86_fp80,5 ppc_fp128
  | ptr (elem : Ty) (as : Nat)
  | vec (scalable : Bool) (len : Nat) (elem : Ty)
  | arr (len : Nat) (elem : Ty)
  | struct (packed : Bool) (fields : TyList)
  | named (name : Bytes)
  | func (ret : Ty) (params : TyList) (variadic : Bool)
inductive TyList where
  | nil
  | cons (t : Ty) (ts : TyList)
end

def TyList.toList : TyList → List Ty
  | .nil => []
  | .cons t ts => t :: ts.toList
def TyList.ofList : List Ty → TyList
  | [] => .nil
  | t :: ts => .cons t (TyList.ofList ts)
def TyList.length : TyList → Nat
  | .nil => 0
  | .cons _ ts => ts.length + 1
def TyList.get? : TyList → Nat → Option Ty
  | .nil, _ => none
  | .cons t _, 0 => some t
  | .cons _ ts, n+1 => ts.get? n

def floatKindName (k : Nat) : Bytes :=
  match k with
  | 0 => [104, 97, 108, 102] | 1 => [102, 108, 111, 97, 116] | 2 => [100, 111, 117, 98, 108, 101]
  | 3 => [102, 112, 49, 50, 56] | 4 => [120, 56, 54, 95, 102, 112, 56, 48] | 5 => [112, 112, 99, 95, 102, 112, 49, 50, 56]
  | n => [70, 108, 111, 97, 116, 75, 105, 110, 100, 40] ++ natDec n ++ [41]

def sVoid : Bytes := [118, 111, 105, 100]
def sMMX : Bytes := [120, 56, 54, 95, 109, 109, 120]
def sLabel : Bytes := [108, 97, 98, 101, 108]
def sToken : Bytes := [116, 111, 107, 101, 110]
def sMetadata : Bytes := [109, 101, 116, 97, 100, 97, 116, 97]
def sAddrspace : Bytes := [32, 97, 100, 100, 114, 115, 112, 97, 99, 101, 40]   -- " addrspace("
def sVscale : Bytes := [118, 115, 99, 97, 108, 101, 32, 120, 32]               -- "vscale x "
def sX : Bytes := [32, 120, 32]                                                -- " x "
def sComma : Bytes := [44, 32]
def sDots : Bytes := [46, 46, 46]

mutual
/-- `Type.String()` -/
def tyString : Ty → Bytes
  | .void => sVoid
  | .mmx => sMMX
  | .label => sLabel
  | .token => sToken
  | .metadata => sMetadata
  | .int w => 105 :: natDec w
  | .float k => floatKindName k
  | .ptr e as => tyString e ++ (if as != 0 then sAddrspace ++ natDec as ++ [41] else []) ++ [42]
  | .vec s n e => [60] ++ (if s then sVscale else []) ++ natDec n ++ sX ++ tyString e ++ [62]
  | .arr n e => [91] ++ natDec n ++ sX ++ tyString e ++ [93]
  | .struct p fs =>
    match fs with
    | .nil => if p then [60, 123, 125, 62] else [123, 125]
    | .cons _ _ => (if p then [60] else []) ++ [123, 32] ++ tyListString fs ++ [32, 125] ++ (if p then [62] else [])
  | .named n => Enc.typeName n
  | .func r ps v =>
    tyString r ++ [32, 40] ++ tyListString ps ++
      (if v then (match ps with | .nil => sDots | .cons _ _ => sComma ++ sDots) else []) ++ [41]
/-- comma-separated -/
def tyListString : TyList → Bytes
  | .nil => []
  | .cons t .nil => tyString t
  | .cons t (.cons u us) => tyString t ++ sComma ++ tyListString (.cons u us)
end

mutual
/-- `t.Equal(u)`: structural, except that a pointer compares the two printed strings. -/
def equal : Ty → Ty → Bool
  | .void, .void => true
  | .mmx, .mmx => true
  | .label, .label => true
  | .token, .token => true
  | .metadata, .metadata => true
  | .int w, .int w' => w == w'
  | .float k, .float k' => k == k'
  | .ptr e as, u => tyString (.ptr e as) == tyString u
  | .vec s n e, .vec s' n' e' => s == s' && n == n' && equal e e'
  | .arr n e, .arr n' e' => n == n' && equal e e'
  | .struct p fs, .struct p' fs' => p == p' && equalList fs fs'
  | .named n, .named n' => n == n'
  | .func r ps v, .func r' ps' v' => equal r r' && equalList ps ps' && v == v'
  | _, _ => false
def equalList : TyList → TyList → Bool
  | .nil, .nil => true
  | .cons t ts, .cons u us => equal t u && equalList ts us
  | _, _ => false
end

end Llir.Types
