import LlirModel.Digits
/-! Model of /repo/ir/constant/const_int.go: NewIntFromString and (*Int).Ident. -/
namespace Llir.IntLit
open Llir Llir.Digits

inductive R (α : Type) where
  | ok : α → R α
  | error : R α
  | panic : R α
  deriving Repr, DecidableEq

def pfxTrue : Bytes := [116, 114, 117, 101]
def pfxFalse : Bytes := [102, 97, 108, 115, 101]
def pfxU0x : Bytes := [117, 48, 120]
def pfxS0x : Bytes := [115, 48, 120]

/-- `x.Bit(i)` of math/big (two's complement for negative x) -/
def bigBit (x : Int) (i : Nat) : Bool := (x >>> i) % 2 == 1

/-- constant.NewIntFromString(typ = iW, s) -/
def newIntFromString (w : Nat) (s : Bytes) : R Int :=
  if s == pfxTrue then (if w == 1 then .ok 1 else .error)
  else if s == pfxFalse then (if w == 1 then .ok 0 else .error)
  else if pfxU0x.isPrefixOf s then
    match setString 16 (s.drop 3) with
    | some x => .ok x
    | none => .error
  else if pfxS0x.isPrefixOf s then
    match setString 16 (s.drop 3) with
    | some x => if bigBit x (w - 1) then .ok (x - 2 ^ w) else .ok x
    | none => .error
  else match setString 10 s with
    | some x => .ok x
    | none => .error

/-- big.Int.Int64(): low 64 bits of the magnitude, sign applied, wrapped -/
def int64Of (x : Int) : Int :=
  let m : Nat := x.natAbs % 2 ^ 64
  let v : Int := if x < 0 then - (Int.ofNat m) else Int.ofNat m
  ((v + 2 ^ 63) % 2 ^ 64) - 2 ^ 63

/-- Ident with the hex/decimal decision abstracted: the theorems quantify over `useHex`. -/
def identIntWith (useHex : Bool) (w : Nat) (x : Int) : R Bytes :=
  if w == 1 && x == 0 then .ok pfxFalse
  else if w == 1 && x == 1 then .ok pfxTrue
  else if x ≥ 4096 && useHex then .ok (pfxU0x ++ natTextUpper 16 x.natAbs)
  else .ok (intText 10 x)

/-! ### the entropy heuristic (IEEE double, as in Go) -/

def calcMaxHexEntropy (length : Nat) : Float :=
  let length := if length > 16 then 16 else length
  if length < 4 then 0.0
  else if length ≤ 6 then 2.0 / Float.ofNat length
  else if length ≤ 10 then 3.0 / Float.ofNat length
  else 4.0 / Float.ofNat length

def intEntropy (x : Int) (base : Nat) : Float :=
  let ds := digitsRev base x.natAbs
  let uniq := (List.range base).countP (fun d => ds.contains d)
  let len := (intText base x).length
  let len := if len > base then base else len
  Float.ofNat uniq / Float.ofNat len

def hexChoice (x : Int) : Bool :=
  let hexLength := (intText 16 x).length
  let maxHex := calcMaxHexEntropy hexLength
  if x ≥ 4096 then
    let he := intEntropy x 16
    let de := intEntropy x 10
    he ≤ maxHex + 0.01 && de ≥ he + 0.2
  else false

def identInt (w : Nat) (x : Int) : R Bytes := identIntWith (hexChoice x) w x

end Llir.IntLit
