import LlirModel.Natsort
/-! M-Resolve: model of the parser's name resolution (asm/module.go indexTopLevelEntities,
    createTopLevelEntities, translateTopLevelEntities; asm/local.go; asm/translate.go addDefsToModule)
    on module SKELETONS: the ordered list of top-level entities, each with its namespace, key and the
    references it contains (and, for function definitions, its local definitions and local uses).
    Objects are identified by the position of their defining entity (the scaffold allocated for it). -/
namespace Llir.Resolve
open Llir

inductive NS where
  | ty | comdat | global | alias | ifunc | func | attrgroup | namedmd | md
  | uselist                 -- a module-level `uselistorder` directive (defines nothing)
  deriving Repr, DecidableEq

/-- the four kinds of global entities share one namespace -/
def NS.space : NS → NS
  | .alias => .global | .ifunc => .global | .func => .global
  | n => n

structure Ent where
  ns : NS
  key : String             -- "#" for an unnamed global entity (never referenced by the generator)
  isOpaque : Bool := false   -- `%T = type opaque`
  refs : List (NS × String) := []
  ldefs : List String := []
  lrefs : List String := []
  brefs : List (String × String) := []   -- `blockaddress(@f, %l)` constants inside the entity: (function key, label)
  deriving Repr

inductive Err where
  | duplicate (ns : NS) (key : String)
  | undefined (ns : NS) (key : String)
  | dupLocal (key : String)
  | undefLocal (key : String)
  deriving Repr

inductive Outcome (α : Type) where
  | ok : α → Outcome α
  | error : Err → Outcome α

def Outcome.isOk : Outcome α → Bool | .ok _ => true | .error _ => false

def dupIn (l : List String) : Option String :=
  match l with
  | [] => none
  | x :: xs => if xs.contains x then some x else dupIn xs

/-- keys defined in a namespace (named entities only) -/
def defsIn (ents : List Ent) (space : NS) : List String :=
  (ents.filter fun e => e.ns.space == space && e.key != "#").map (·.key)

/-- step 1: duplicate definitions. Types: a redefinition is allowed when the PREVIOUS definition is opaque;
    attribute groups and named metadata are merged, never an error. -/
def dupErr (ents : List Ent) : Option Err :=
  let rec tyDup (seen : List (String × Bool)) : List Ent → Option Err
    | [] => none
    | e :: rest =>
      if e.ns == .ty then
        match seen.find? (·.1 == e.key) with
        | some (_, prevOpaque) => if prevOpaque then tyDup ((e.key, e.isOpaque) :: seen.filter (·.1 != e.key)) rest
                                  else some (.duplicate .ty e.key)
        | none => tyDup ((e.key, e.isOpaque) :: seen) rest
      else tyDup seen rest
  match tyDup [] ents with
  | some e => some e
  | none =>
    match dupIn (defsIn ents .comdat) with
    | some k => some (.duplicate .comdat k)
    | none =>
    match dupIn (defsIn ents .global) with
    | some k => some (.duplicate .global k)
    | none =>
    match dupIn (defsIn ents .md) with
    | some k => some (.duplicate .md k)
    | none => none

/-- object identity: position (in `ents`) of the LAST entity defining (space, key) — the scaffold the index maps the key to -/
def lookup (ents : List Ent) (space : NS) (key : String) : Option Nat :=
  let idx := (List.range ents.length).filter fun i =>
    match ents[i]? with
    | some e => e.ns.space == space && e.key == key
    | none => false
  idx.getLast?

/-- `blockaddress(@f, %l)`: `@f` must denote a FUNCTION and `%l` one of its locally defined blocks
    (asm/const.go irBlockAddressConst + asm/helper.go fixBlockAddressConst / findBlock) -/
def blockOK (ents : List Ent) (b : String × String) : Bool :=
  match lookup ents .global b.1 with
  | some i =>
    match ents[i]? with
    | some f => f.ns == .func && f.ldefs.contains b.2
    | none => false
  | none => false

/-- step 2 for one entity: every reference must resolve; undefined attribute groups are materialised (no error) -/
def entErr (ents : List Ent) (e : Ent) : Option Err :=
  match e.refs.find? (fun r => r.1 != .attrgroup && (lookup ents r.1.space r.2).isNone) with
  | some r => some (.undefined r.1 r.2)
  | none =>
    match dupIn e.ldefs with
    | some k => some (.dupLocal k)
    | none =>
      match e.lrefs.find? (fun k => !e.ldefs.contains k) with
      | some k => some (.undefLocal k)
      | none =>
        match e.brefs.find? (fun b => !blockOK ents b) with
        | some b => some (.undefLocal b.2)
        | none => none

/-- the resolved module: for each entity (by position) the objects its references denote -/
structure Resolved where
  edges : List (Nat × List (NS × String × Option Nat))

/-- `order` is the order in which the translator happens to visit the entities (Go map iteration);
    it must be a permutation of `ents`. The FIRST error met is reported. -/
def translate (ents order : List Ent) : Outcome Resolved :=
  match dupErr ents with
  | some e => .error e
  | none =>
    match order.findSome? (entErr ents) with
    | some e => .error e
    | none => .ok ⟨(List.range ents.length).map fun i =>
        match ents[i]? with
        | some e => (i, e.refs.map fun r => (r.1, r.2, lookup ents r.1.space r.2))
        | none => (i, [])⟩

/-! ### assembly order of the module's definition lists (asm/translate.go addDefsToModule) -/

def strBytes' (s : String) : Bytes := s.toUTF8.toList

def keysOf (ents : List Ent) (ns : NS) : List String := (ents.filter (·.ns == ns)).map (·.key)

def dedup (l : List String) : List String := l.foldl (fun acc x => if acc.contains x then acc else acc ++ [x]) []

def typeDefOrder (ents : List Ent) : List Bytes := Natsort.sort ((dedup (keysOf ents .ty)).map strBytes')
def comdatOrder (ents : List Ent) : List Bytes := Natsort.sort ((keysOf ents .comdat).map strBytes')

def insertNat (x : Nat) : List Nat → List Nat
  | [] => [x]
  | y :: ys => if x < y then x :: y :: ys else if x == y then y :: ys else y :: insertNat x ys
def sortNat (l : List Nat) : List Nat := l.foldr insertNat []
def numericOrder (ents : List Ent) (ns : NS) : List Nat := sortNat ((keysOf ents ns).map String.toNat!)

end Llir.Resolve
