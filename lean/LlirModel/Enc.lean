import LlirModel.Bytes
/-! Model of /repo/internal/enc/enc.go and the identifier decoders of /repo/asm/helper.go.
    Transliteration of the Go as it is. -/
namespace Llir.Enc
open Llir

/-- `strings.IndexByte(tail, b) != -1` with tail = alpha ++ "$-._" ++ decimal -/
def inHead (b : UInt8) : Bool := isAlpha b || b == 36 || b == 45 || b == 46 || b == 95
def inTail (b : UInt8) : Bool := inHead b || isDigit b
/-- membership in the `quotedIdent` constant: 0x20..0x7E except `"` and `\`. -/
def inQuotedIdent (b : UInt8) : Bool := 32 ≤ b && b ≤ 126 && b != 34 && b != 92
/-- the `valid` closure of EscapeString -/
def validString (b : UInt8) : Bool := 32 ≤ b && b ≤ 126 && b != 34 && b != 92

/-- hextable[n] for n < 16 -/
def hexDigit (n : UInt8) : UInt8 := if n < 10 then 48 + n else 55 + n

def escape (valid : UInt8 → Bool) : Bytes → Bytes
  | [] => []
  | b :: bs =>
    if valid b then b :: escape valid bs
    else 92 :: hexDigit (b >>> 4) :: hexDigit (b &&& 15) :: escape valid bs

def unhex (b : UInt8) : Option UInt8 :=
  if 48 ≤ b && b ≤ 57 then some (b - 48)
  else if 97 ≤ b && b ≤ 102 then some (b - 97 + 10)
  else if 65 ≤ b && b ≤ 70 then some (b - 65 + 10)
  else none

def unescape : Bytes → Bytes
  | [] => []
  | b :: rest =>
    if b = 92 then
      match rest with
      | [] => [92]
      | [c] => if c = 92 then [92] else 92 :: unescape [c]
      | c :: d :: rest' =>
        if c = 92 then 92 :: unescape (d :: rest')
        else match unhex c, unhex d with
          | some x1, some x2 => (x1 <<< 4 ||| x2) :: unescape rest'
          | _, _ => 92 :: unescape (c :: d :: rest')
    else b :: unescape rest

def escapeString (s : Bytes) : Bytes := escape validString s
def quote (s : Bytes) : Bytes := 34 :: (escapeString s ++ [34])

/-- `allDigits`: non-empty, decimal digits only -/
def allDigits (s : Bytes) : Bool := !s.isEmpty && s.all isDigit

/-- starts with a digit but is not a number: not a valid bare identifier -/
def digitLedJunk (s : Bytes) : Bool :=
  (match s with | b :: _ => isDigit b | [] => false) && !allDigits s

def escapeIdent (s : Bytes) : Bytes :=
  if s.all inTail && !digitLedJunk s then s else 34 :: (escape inQuotedIdent s ++ [34])

/-- result of a Go call that may panic -/
inductive Res (α : Type) where
  | ok : α → Res α
  | panic : Res α
  deriving Repr, DecidableEq

/-- enc.Unquote: panics unless len ≥ 2 and surrounded by quotes -/
def encUnquote (s : Bytes) : Res Bytes :=
  if s.length < 2 then .panic
  else if s.head? != some 34 then .panic
  else if s.getLast? != some 34 then .panic
  else .ok (unescape ((s.drop 1).dropLast))

/-- asm.unquote: unquote if quoted, else identity -/
def asmUnquote (s : Bytes) : Bytes :=
  if s.length ≥ 2 && s.head? == some 34 && s.getLast? == some 34 then
    unescape ((s.drop 1).dropLast)
  else s

def globalName (name : Bytes) : Bytes :=
  if allDigits name then 64 :: 34 :: (name ++ [34]) else 64 :: escapeIdent name

def localName (name : Bytes) : Bytes :=
  if allDigits name then 37 :: 34 :: (name ++ [34]) else 37 :: escapeIdent name

def labelName (name : Bytes) : Bytes :=
  if allDigits name then 34 :: (name ++ [34, 58]) else escapeIdent name ++ [58]

def typeName (name : Bytes) : Bytes := 37 :: escapeIdent name
def comdatName (name : Bytes) : Bytes :=
  if name.isEmpty || allDigits name then 36 :: 34 :: (name ++ [34]) else 36 :: escapeIdent name

/-- enc.MetadataName; panics (index out of range) on the empty name -/
def metadataName (name : Bytes) : Res Bytes :=
  match name with
  | [] => .panic
  | b :: rest =>
    if isDigit b then .ok (33 :: 92 :: 51 :: b :: escape inTail rest)
    else .ok (33 :: escape inTail name)

def globalID (id : Int) : Res Bytes := if id < 0 then .panic else .ok (64 :: intDec id)
def localID (id : Int) : Res Bytes := if id < 0 then .panic else .ok (37 :: intDec id)
def labelID (id : Int) : Res Bytes := if id < 0 then .panic else .ok (intDec id ++ [58])
def attrGroupID (id : Int) : Bytes := 35 :: intDec id
def metadataID (id : Int) : Bytes := 33 :: intDec id

/-- decoded identifier: name or numeric ID -/
inductive Ident where
  | name : Bytes → Ident
  | id : Int → Ident
  deriving Repr, DecidableEq

/-- shared tail of asm.globalIdent / localIdent / labelIdent after stripping the sigil -/
def decodeIdentBody (ident : Bytes) : Ident :=
  match parseUint63 ident with
  | some id => .id (Int.ofNat id)
  | none => .name (asmUnquote ident)

def globalIdent (tok : Bytes) : Res Ident :=
  match tok with
  | 64 :: r => .ok (decodeIdentBody r)
  | _ => .panic

def localIdent (tok : Bytes) : Res Ident :=
  match tok with
  | 37 :: r => .ok (decodeIdentBody r)
  | _ => .panic

def labelIdent (tok : Bytes) : Res Ident :=
  if tok.getLast? == some 58 then .ok (decodeIdentBody tok.dropLast) else .panic

def comdatNameDec (tok : Bytes) : Res Bytes :=
  match tok with
  | 36 :: r => .ok (asmUnquote r)
  | _ => .panic

def metadataNameDec (tok : Bytes) : Res Bytes :=
  match tok with
  | 33 :: r => .ok (unescape r)
  | _ => .panic

/-- asm.getTypeName applied to a decoded local identifier -/
def getTypeName (i : Ident) : Bytes :=
  match i with
  | .id n => intDec n
  | .name [] => intDec 0      -- IsUnnamed() holds for the empty name: FormatInt(LocalID = 0)
  | .name s => match parseInt64 s with
    | some x => 34 :: (intDec x ++ [34])
    | none => s

/-! ## Lexer spec (token classes of github.com/llir/ll, reconstructed; validated against the real lexer) -/

def isLetter (b : UInt8) : Bool := isAlpha b || b == 36 || b == 45 || b == 46 || b == 95

/-- `_name = _letter (_letter | _digit)*` -/
def isNameBody (s : Bytes) : Bool :=
  match s with
  | [] => false
  | b :: r => isLetter b && r.all (fun c => isLetter c || isDigit c)

/-- `_quoted_name = '"' [^"]* '"'` -/
def isQuotedBody (s : Bytes) : Bool :=
  s.length ≥ 2 && s.head? == some 34 && s.getLast? == some 34 &&
    ((s.drop 1).dropLast).all (fun c => c != 34)

def isIdBody (s : Bytes) : Bool := !s.isEmpty && s.all isDigit

/-- a global/local identifier body: name, quoted name or id -/
def isIdentBody (s : Bytes) : Bool := isNameBody s || isQuotedBody s || isIdBody s

def isGlobalTok (t : Bytes) : Bool := match t with | 64 :: r => isIdentBody r | _ => false
def isLocalTok (t : Bytes) : Bool := match t with | 37 :: r => isIdentBody r | _ => false
/-- `label_ident = (_letter | _digit)+ ':' | _quoted_name ':'` -/
def isLabelTok (t : Bytes) : Bool :=
  t.getLast? == some 58 &&
    (let b := t.dropLast; (!b.isEmpty && b.all (fun c => isLetter c || isDigit c)) || isQuotedBody b)
def isComdatTok (t : Bytes) : Bool := match t with | 36 :: r => isNameBody r || isQuotedBody r | _ => false

end Llir.Enc

namespace Llir.Enc
/-- `metadata_name = '!' (_letter | '\') (_letter | _digit | '\')*`  (backslash is an ordinary member) -/
def isMdNameTok (t : Bytes) : Bool :=
  match t with
  | 33 :: b :: r => (isLetter b || b == 92) && r.all (fun c => isLetter c || isDigit c || c == 92)
  | _ => false
def isMdIdTok (t : Bytes) : Bool := match t with | 33 :: r => isIdBody r | _ => false
def isAttrGroupTok (t : Bytes) : Bool := match t with | 35 :: r => isIdBody r | _ => false
/-- `string_lit = '"' [^"]* '"'` -/
def isStringTok (t : Bytes) : Bool := isQuotedBody t

/-- class of a text that is exactly one identifier-like token, as the real lexer reports it -/
def lexClass (t : Bytes) : String :=
  if isGlobalTok t then "GLOBAL_IDENT"
  else if isLabelTok t then "LABEL_IDENT"
  else if isLocalTok t then "LOCAL_IDENT"
  else if isComdatTok t then "COMDAT_NAME"
  else if isMdNameTok t then "METADATA_NAME"
  else if isMdIdTok t then "METADATA_ID"
  else if isAttrGroupTok t then "ATTR_GROUP_ID"
  else if isStringTok t then "STRING_LIT"
  else "other"
end Llir.Enc
