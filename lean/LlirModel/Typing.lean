import LlirModel.Types
/-! Model of result-type computation: `Type()` methods of ir/inst_*.go + terminator.go (resultIR),
    the parser's `newXxxInst` functions of asm/inst_*.go + term.go (resultAsm), and LLVM's rules
    transcribed from the LangRef (LLVMSpec.resultType). Operands are given by their types. -/
namespace Llir.Typing
open Llir Llir.Types

inductive Kind where
  | fneg | binop | extractelement | insertelement | shufflevector
  | extractvalue (idx : List Nat) | insertvalue (idx : List Nat)
  | alloca (as : Nat) | load | cmpxchg | atomicrmw
  | cast | icmp | fcmp | phi | select | freeze
  | call | vaarg | landingpad | catchpad | cleanuppad | invoke | callbr | catchswitch
  deriving Repr

inductive R where
  | ok (t : Ty)
  | panic
  | none       -- operand list does not have the kind's shape (not a modelled input)

def i1 : Ty := .int 1

/-- aggregateElemType (ir/inst_aggregate.go and asm/inst_aggregate.go use the same helper logic) -/
def aggregateElemType : Ty → List Nat → R
  | t, [] => .ok t
  | .arr _ e, _ :: is => aggregateElemType e is
  | .struct _ fs, i :: is => match fs.get? i with
    | some f => aggregateElemType f is
    | none => .panic            -- index out of range
  | .ptr e _, _ :: is => aggregateElemType e is
  | _, _ :: _ => .panic

/-- callee operand type `ptr (func ret ps v)` → ret -/
def sigRet : Ty → R
  | .ptr (.func r _ _) _ => .ok r
  | _ => .panic

/-- comparison result as the code computes it. `keepScalable` = whether the site copies the operand's scalability. -/
def cmpResult (intOrPtrOK : Bool) (x : Ty) : R :=
  match x with
  | .int _ => if intOrPtrOK then .ok i1 else .panic
  | .ptr _ _ => if intOrPtrOK then .ok i1 else .panic
  | .float _ => if intOrPtrOK then .panic else .ok i1
  | .vec s n _ => .ok (.vec s n i1)
  | _ => .panic

/-- `inst.Type()` of the IR library, from the operands' types -/
def resultIR : Kind → List Ty → R
  | .fneg, [x] => .ok x
  | .binop, [x, _] => .ok x
  | .extractelement, [x, _] => (match x with | .vec _ _ e => .ok e | _ => .panic)
  | .insertelement, [x, _, _] => (match x with | .vec _ _ _ => .ok x | _ => .panic)
  | .shufflevector, [x, _, m] => (match x, m with
      | .vec _ _ e, .vec ms mn _ => .ok (.vec ms mn e)
      | _, _ => .panic)
  | .extractvalue idx, [x] => aggregateElemType x idx
  | .insertvalue _, [x, _] => .ok x
  | .alloca as, [e] => .ok (.ptr e as)
  | .load, [e, _] => .ok e
  | .cmpxchg, [_, _, new] => .ok (.struct false (.cons new (.cons i1 .nil)))
  | .atomicrmw, [dst, _] => (match dst with | .ptr e _ => .ok e | _ => .panic)
  | .cast, [_, to] => .ok to
  | .icmp, [x, _] => cmpResult true x
  | .fcmp, [x, _] => cmpResult false x
  | .phi, [t] => .ok t
  | .select, [_, a, _] => .ok a
  | .freeze, [x] => .ok x
  | .call, callee :: _ => sigRet callee
  | .invoke, callee :: _ => sigRet callee
  | .callbr, callee :: _ => sigRet callee
  | .vaarg, [_, t] => .ok t
  | .landingpad, [t] => .ok t
  | .catchpad, _ => .ok .token
  | .cleanuppad, _ => .ok .token
  | .catchswitch, _ => .ok .token
  | _, _ => .none

/-- the type the parser attaches (asm/newXxxInst), from the SYNTACTIC types in the text.
    For call/invoke/callbr the text carries either the return type or the full function type. -/
def resultAsm : Kind → List Ty → R
  | .call, callee :: _ => sigRet callee
  | .invoke, callee :: _ => sigRet callee
  | .callbr, callee :: _ => sigRet callee
  | k, ops => resultIR k ops

namespace LLVMSpec
/-- LangRef: result type of each instruction kind on well-typed operands -/
def cmpTy : Ty → Ty
  | .vec s n _ => .vec s n i1
  | _ => i1

def aggTy : Ty → List Nat → Option Ty
  | t, [] => some t
  | .arr _ e, _ :: is => aggTy e is
  | .struct _ fs, i :: is => (fs.get? i).bind (fun f => aggTy f is)
  | _, _ => none

def resultType : Kind → List Ty → Option Ty
  | .fneg, [x] => some x
  | .binop, [x, _] => some x
  | .extractelement, [.vec _ _ e, _] => some e
  | .insertelement, [.vec s n e, _, _] => some (.vec s n e)
  | .shufflevector, [.vec _ _ e, _, .vec ms mn _] => some (.vec ms mn e)
  | .extractvalue idx, [x] => (match idx with | [] => none | _ => aggTy x idx)
  | .insertvalue _, [x, _] => some x
  | .alloca as, [e] => some (.ptr e as)
  | .load, [e, _] => some e
  | .cmpxchg, [_, _, new] => some (.struct false (.cons new (.cons i1 .nil)))
  | .atomicrmw, [.ptr e _, _] => some e
  | .cast, [_, to] => some to
  | .icmp, [x, _] => some (cmpTy x)
  | .fcmp, [x, _] => some (cmpTy x)
  | .phi, [t] => some t
  | .select, [_, a, _] => some a
  | .freeze, [x] => some x
  | .call, (.ptr (.func r _ _) _) :: _ => some r
  | .invoke, (.ptr (.func r _ _) _) :: _ => some r
  | .callbr, (.ptr (.func r _ _) _) :: _ => some r
  | .vaarg, [_, t] => some t
  | .landingpad, [t] => some t
  | .catchpad, _ => some .token
  | .cleanuppad, _ => some .token
  | .catchswitch, _ => some .token
  | _, _ => none

def isIntOrPtr : Ty → Bool | .int _ => true | .ptr _ _ => true | _ => false
def isFloat : Ty → Bool | .float _ => true | _ => false

/-- operand shapes LLVM accepts for the kinds whose rule looks at the operand's kind -/
def wellTyped : Kind → List Ty → Bool
  | .icmp, [x, _] => (match x with | .vec _ _ e => isIntOrPtr e | t => isIntOrPtr t)
  | .fcmp, [x, _] => (match x with | .vec _ _ e => isFloat e | t => isFloat t)
  | k, ops => (resultType k ops).isSome
end LLVMSpec

end Llir.Typing
