import LlirModel.Bytes
/-! Model of ir.Func.AssignIDs / ir.Module.AssignGlobalIDs (ir/func.go, ir/module.go) and of the
    parser's global numbering (asm/module.go giveUnnamedIdentID).  A function is the flat list of its
    value slots in the order the Go loops visit them: parameters, then per block the block itself,
    its instructions and its terminator. -/
namespace Llir.Numbering
open Llir

structure Slot where
  named : Bool          -- has a name (IsUnnamed() = false)
  id : Int              -- LocalID / GlobalID field (0 when never set)
  counts : Bool         -- false: not a namedVar or void-typed (store, fence, void call/invoke/callbr, ret, br ...)
  deriving Repr, DecidableEq

inductive Res (α : Type) where
  | ok : α → Res α
  | error : Res α
  deriving Repr, DecidableEq

/-- the `setName` closure threaded through the loops of AssignIDs / AssignGlobalIDs -/
def assignFrom : Int → List Slot → Res (List Slot)
  | _, [] => .ok []
  | next, s :: rest =>
    if !s.counts || s.named then
      match assignFrom next rest with
      | .ok r => .ok (s :: r)
      | .error => .error
    else if s.id != 0 && next != s.id then .error
    else match assignFrom (next + 1) rest with
      | .ok r => .ok ({ s with id := next } :: r)
      | .error => .error

def assignIDs (f : List Slot) : Res (List Slot) := assignFrom 0 f

/-! ### the parser (asm/local.go createLocals): explicit IDs as WRITTEN in the source -/

/-- a value slot as written in the source: `written = some k` for an explicit `%k` (or label `k:`), `none` when no identifier is written
    (or the identifier is a name) -/
structure SrcSlot where
  named : Bool
  written : Option Int
  counts : Bool
  deriving Repr, DecidableEq

/-- the scaffold the parser hands to AssignIDs: the written ID goes into the ID field, where 0 doubles as "not yet assigned" -/
def SrcSlot.toSlot (s : SrcSlot) : Slot := ⟨s.named, s.written.getD 0, s.counts⟩

/-- asm/local.go explicitZeroIDs + the loop after AssignIDs: a local written `%0` must still have ID 0 -/
def zeroKept : List SrcSlot → List Slot → Bool
  | s :: ss, r :: rs => (!(s.written == some 0 && !s.named) || r.id == 0) && zeroKept ss rs
  | _, _ => true

/-- asm/local.go createLocals: scaffold, AssignIDs, then the explicit-%0 check -/
def parseAssignFrom (next : Int) (src : List SrcSlot) : Res (List Slot) :=
  match assignFrom next (src.map SrcSlot.toSlot) with
  | .error => .error
  | .ok l => if zeroKept src l then .ok l else .error

def parseAssign (src : List SrcSlot) : Res (List Slot) := parseAssignFrom 0 src

namespace LLVMSpec
/-- what LLVM's own parser demands of explicit IDs: each unnamed value-producing slot that carries a written ID carries exactly its number -/
def agreesFrom : Int → List SrcSlot → Bool
  | _, [] => true
  | next, s :: rest =>
    if !s.counts || s.named then agreesFrom next rest
    else (s.written == none || s.written == some next) && agreesFrom (next + 1) rest
end LLVMSpec

namespace LLVMSpec
/-- LLVM's numbering: unnamed value slots get 0, 1, 2, ... in order; everything else is untouched -/
def numberFrom : Int → List Slot → List Slot
  | _, [] => []
  | next, s :: rest =>
    if !s.counts || s.named then s :: numberFrom next rest
    else { s with id := next } :: numberFrom (next + 1) rest
def numbering (f : List Slot) : List Slot := numberFrom 0 f
end LLVMSpec

/-! ### module level -/
inductive GKind where | global | alias | ifunc | func
  deriving Repr, DecidableEq

structure GEnt where
  kind : GKind
  named : Bool
  deriving Repr, DecidableEq

/-- the parser numbers unnamed global entities in TEXTUAL order over all four kinds -/
def parserNumberFrom : Int → List GEnt → List (GEnt × Slot)
  | _, [] => []
  | next, g :: rest =>
    if g.named then (g, ⟨true, 0, true⟩) :: parserNumberFrom next rest
    else (g, ⟨false, next, true⟩) :: parserNumberFrom (next + 1) rest

/-- the module stores them per kind (textual order within a kind); AssignGlobalIDs visits globals, aliases, ifuncs, funcs -/
def groupOrder (l : List (GEnt × Slot)) : List Slot :=
  ((l.filter (·.1.kind == .global)) ++ (l.filter (·.1.kind == .alias)) ++
   (l.filter (·.1.kind == .ifunc)) ++ (l.filter (·.1.kind == .func))).map (·.2)

/-- asm/translate.go addGlobalEntitiesToModule: after filling the per-kind lists the translator
    renumbers the unnamed entities in the printer's order -/
def translatedGlobals (ents : List GEnt) : List Slot :=
  LLVMSpec.numberFrom 0 (groupOrder (parserNumberFrom 0 ents))

/-- asm/module.go indexTopLevelEntities / giveUnnamedIdentID on the identifiers AS WRITTEN: unnamed global entities (a written `@k`, or the empty name `@""`:
    `written = none`) get 0, 1, 2, … in the order they are defined, whatever their kind; a written ID must be the very number the entity gets -/
def indexGlobalsFrom : Int → List SrcSlot → Res (List Slot)
  | _, [] => .ok []
  | next, s :: rest =>
    if s.named then
      (match indexGlobalsFrom next rest with
       | .ok r => .ok (s.toSlot :: r)
       | .error => .error)
    else if s.written == none || s.written == some next then
      (match indexGlobalsFrom (next + 1) rest with
       | .ok r => .ok (⟨false, next, s.counts⟩ :: r)
       | .error => .error)
    else .error

def indexGlobals (src : List SrcSlot) : Res (List Slot) := indexGlobalsFrom 0 src

/-- `m.String()` on a freshly parsed module: AssignGlobalIDs over the grouped slots (an error there is a panic in WriteTo) -/
def printParsed (ents : List GEnt) : Res (List Slot) := assignIDs (translatedGlobals ents)

end Llir.Numbering
