import LlirModel.Generated.Enums
/-! Model of the bit-flag printers (ir/metadata/helper.go diFlagsString / dispFlagsString,
    ir/helper.go allocKindString) and of the parser's OR-fold over the printed members
    (asm/specialized_metadata.go irDIFlags / irDISPFlags, asm/helper.go AllocKind). -/
namespace Llir.Flags
open Llir.Generated

/-- position of the single set bit of a mask (First/Last are single-bit masks below 2^64) -/
def log2 (n : Nat) : Nat := ((List.range 64).find? (fun i => 2 ^ i == n)).getD 0

/-- bit positions visited by `for mask := First; mask <= Last; mask <<= 1` that are set in `flags` -/
def setBits (first last flags : Nat) : List Nat :=
  (List.range' (log2 first) (log2 last + 1 - log2 first)).filter (fun i => flags.testBit i)

/-- OR of the single-bit masks 2^i -/
def orPows : List Nat → Nat
  | [] => 0
  | i :: r => 2 ^ i ||| orPows r

def nameOf (names : List (Int × String)) (ty : String) (v : Nat) : String :=
  match names.find? (fun p => p.1 == (v : Int)) with
  | some p => p.2
  | none => s!"{ty}({v})"        -- stringer's fallback for a value without a name

/-- dispFlagsString -/
def dispFlagsString (flags : Nat) : String :=
  if flags == 0 then nameOf Enums.DISPFlag_names "DISPFlag" 0
  else " | ".intercalate ((setBits Enums.DISPFlagFirst Enums.DISPFlagLast flags).map
      (fun i => nameOf Enums.DISPFlag_names "DISPFlag" (2 ^ i)))

/-- diFlagsString: the 2-bit accessibility field first, then the single-bit masks -/
def diFlagsString (flags : Nat) : String :=
  if flags == 0 then nameOf Enums.DIFlag_names "DIFlag" 0
  else
    let acc := flags &&& 3
    let pre := if acc != 0 then [nameOf Enums.DIFlag_names "DIFlag" acc] else []
    " | ".intercalate (pre ++ (setBits Enums.DIFlagFirst Enums.DIFlagLast flags).map
      (fun i => nameOf Enums.DIFlag_names "DIFlag" (2 ^ i)))

/-- allocKindString -/
def allocKindString (flags : Nat) : String :=
  ",".intercalate ((setBits Enums.AllocKindFirst Enums.AllocKindLast flags).map
      (fun i => nameOf Enums.AllocKind_names "AllocKind" (2 ^ i)))

/-- what the parser computes from the printed members: OR of the values of the member masks -/
def parseDisp (flags : Nat) : Nat := orPows (setBits Enums.DISPFlagFirst Enums.DISPFlagLast flags)
def parseDI (flags : Nat) : Nat := (flags &&& 3) ||| orPows (setBits Enums.DIFlagFirst Enums.DIFlagLast flags)
def parseAlloc (flags : Nat) : Nat := orPows (setBits Enums.AllocKindFirst Enums.AllocKindLast flags)

end Llir.Flags
