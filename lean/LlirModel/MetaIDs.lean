import LlirModel.Bytes
/-! Model of ir.Module.AssignMetadataIDs (/repo/ir/module.go). A module's metadata definitions are
    abstracted to the list of their ID fields (-1 = unassigned). -/
namespace Llir.MetaIDs

inductive Res (α : Type) where
  | ok : α → Res α
  | error : Res α
  deriving Repr, DecidableEq

def hasDup : List Int → Bool
  | [] => false
  | x :: xs => xs.contains x || hasDup xs

theorem filter_length_mono (l : List Int) (p q : Int → Bool) (h : ∀ x, p x = true → q x = true) :
    (l.filter p).length ≤ (l.filter q).length := by
  induction l with
  | nil => simp
  | cons a r ih =>
    simp only [List.filter_cons]
    by_cases hp : p a = true
    · simp [hp, h a hp]; exact ih
    · by_cases hq : q a = true
      · simp [hp, hq]; omega
      · simp [hp, hq]; exact ih

theorem filter_gt_lt (used : List Int) (cur : Int) (h : used.contains (cur + 1) = true) :
    (used.filter (fun x => decide (x > cur + 1))).length < (used.filter (fun x => decide (x > cur))).length := by
  induction used with
  | nil => simp at h
  | cons a r ih =>
    simp only [List.filter_cons]
    by_cases ha : a = cur + 1
    · subst ha
      have h1 : decide (cur + 1 > cur + 1) = false := by simp
      have h2 : decide (cur + 1 > cur) = true := by simp; omega
      rw [h1, h2]
      simp only [Bool.false_eq_true, if_false, if_true, List.length_cons]
      have : (r.filter (fun x => decide (x > cur + 1))).length ≤ (r.filter (fun x => decide (x > cur))).length :=
        filter_length_mono r _ _ (fun x hx => by simp at hx ⊢; omega)
      omega
    · have hr : r.contains (cur + 1) = true := by
        simp only [List.contains_cons, Bool.or_eq_true, beq_iff_eq] at h
        rcases h with h | h
        · exact absurd h.symm ha
        · exact h
      have := ih hr
      by_cases h1 : a > cur + 1
      · have h2 : a > cur := by omega
        simp [h1, h2]; omega
      · by_cases h2 : a > cur
        · simp [h1, h2]; omega
        · simp [h1, h2]; omega

/-- the `nextID` closure: smallest unused ID above `cur` (the Go loop `for { curID++; if !used[curID] { return } }`).
    Termination is a proof obligation: each iteration that continues removes `cur+1` from the used IDs above `cur`. -/
def nextFree (used : List Int) (cur : Int) : Int :=
  if h : used.contains (cur + 1) = true then
    have := filter_gt_lt used cur h
    nextFree used (cur + 1)
  else cur + 1
termination_by (used.filter (fun x => decide (x > cur))).length

def go (used : List Int) : Int → List Int → List Int
  | _, [] => []
  | cur, id :: rest =>
    if id != -1 then id :: go used cur rest
    else let n := nextFree used cur; n :: go used n rest

def assignMd (ids : List Int) : Res (List Int) :=
  let used := ids.filter (· != -1)
  if hasDup used then .error else .ok (go used (-1) ids)

end Llir.MetaIDs
