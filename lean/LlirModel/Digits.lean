import LlirModel.Bytes
/-! Positional digit strings (math/big `Text`/`SetString`, strconv `FormatInt`) -/
namespace Llir.Digits
open Llir
export Llir (digitsRev digitChar)

def ofDigitsRev (b : Nat) : List Nat → Nat
  | [] => 0
  | d :: ds => d + b * ofDigitsRev b ds

/-- upper-case (strings.ToUpper of the hex text) -/
def digitCharUpper (d : Nat) : UInt8 := if d < 10 then UInt8.ofNat (48 + d) else UInt8.ofNat (55 + d)

/-- value of a digit character in the given base (both cases accepted, as big.Int.SetString does) -/
def digitVal (base : Nat) (c : UInt8) : Option Nat :=
  let v : Option Nat :=
    if 48 ≤ c && c ≤ 57 then some (c.toNat - 48)
    else if 97 ≤ c && c ≤ 122 then some (c.toNat - 87)
    else if 65 ≤ c && c ≤ 90 then some (c.toNat - 55)
    else none
  match v with
  | some d => if d < base then some d else none
  | none => none

/-- big.Int.Text(base) for a natural number -/
def natText (base n : Nat) : Bytes := (digitsRev base n).reverse.map digitChar
def natTextUpper (base n : Nat) : Bytes := (digitsRev base n).reverse.map digitCharUpper
/-- big.Int.Text(base) -/
def intText (base : Nat) (z : Int) : Bytes :=
  if z < 0 then 45 :: natText base z.natAbs else natText base z.natAbs

def parseDigits (base : Nat) : Bytes → Nat → Option Nat
  | [], acc => some acc
  | c :: cs, acc => match digitVal base c with
    | some d => parseDigits base cs (acc * base + d)
    | none => none

/-- digits only, non-empty -/
def parseNat (base : Nat) (s : Bytes) : Option Nat :=
  if s.isEmpty then none else parseDigits base s 0

/-- big.Int.SetString(s, base) for base 10 or 16: optional sign, non-empty digits, whole string. -/
def setString (base : Nat) (s : Bytes) : Option Int :=
  match s with
  | 45 :: r => (parseNat base r).map (fun n => - Int.ofNat n)
  | 43 :: r => (parseNat base r).map Int.ofNat
  | _ => (parseNat base s).map Int.ofNat

end Llir.Digits
