import LlirModel.Bytes
/-! Model of /repo/internal/natsort/natsort.go (`Less`).  The Go loop keeps two indices into the
    strings; it only continues while the consumed prefixes are byte-for-byte equal, so the state is
    modelled by the two remaining suffixes. -/
namespace Llir.Natsort
open Llir

/-- Go string `<` on byte strings -/
def bytesLt : Bytes → Bytes → Bool
  | [], [] => false
  | [], _ :: _ => true
  | _ :: _, [] => false
  | a :: as, b :: bs => if a < b then true else if b < a then false else bytesLt as bs

def isZero (b : UInt8) : Bool := b == 48

/-- split a suffix that starts a digit run: (number of leading zeros, remaining digits, rest) -/
def splitNum (s : Bytes) : Nat × Bytes × Bytes :=
  let s' := s.dropWhile isZero
  ((s.takeWhile isZero).length, s'.takeWhile isDigit, s'.dropWhile isDigit)

theorem splitNum_rest_lt (c : UInt8) (r : Bytes) (h : isDigit c = true) :
    (splitNum (c :: r)).2.2.length < (c :: r).length := by
  unfold splitNum
  simp only
  by_cases hz : isZero c = true
  · have : ((c :: r).dropWhile isZero).length ≤ r.length := by
      rw [List.dropWhile_cons_of_pos hz]
      exact (List.dropWhile_sublist _).length_le
    have h2 := (List.dropWhile_sublist (l := (c :: r).dropWhile isZero) isDigit).length_le
    simp only [List.length_cons]; omega
  · have hz' : isZero c = false := by simpa using hz
    rw [List.dropWhile_cons_of_neg (by simp [hz'])]
    rw [List.dropWhile_cons_of_pos h]
    have := (List.dropWhile_sublist (l := r) isDigit).length_le
    simp only [List.length_cons]; omega

def less (a b : Bytes) : Bool :=
  match a, b with
  | [], [] => false
  | [], _ :: _ => true
  | _ :: _, [] => false
  | c1 :: r1, c2 :: r2 =>
    if h : isDigit c1 = true ∧ isDigit c2 = true then
      let n1 := splitNum (c1 :: r1)
      let n2 := splitNum (c2 :: r2)
      if n1.2.1.length != n2.2.1.length then decide (n1.2.1.length < n2.2.1.length)
      else if n1.2.1 != n2.2.1 then bytesLt n1.2.1 n2.2.1
      else if n1.1 != n2.1 then decide (n1.1 < n2.1)
      else
        have := splitNum_rest_lt c1 r1 h.1
        have := splitNum_rest_lt c2 r2 h.2
        less n1.2.2 n2.2.2
    else if c1 != c2 then decide (c1 < c2)
    else less r1 r2
termination_by a.length + b.length
decreasing_by
  all_goals (simp only [List.length_cons] at *; omega)

/-- insertion sort with `less` — stands for "any sorting routine" in the correspondence (the theorems
    only use that the result is a sorted permutation). -/
def insert (x : Bytes) : List Bytes → List Bytes
  | [] => [x]
  | y :: ys => if less x y then x :: y :: ys else y :: insert x ys
def sort (l : List Bytes) : List Bytes := l.foldr insert []

/-! ### the order of the definitions of a printed module (asm/translate.go steps 8a–8e: `natsort.Strings` over the names of the type definitions, comdats and
    named metadata, `sort.Slice` by ID over attribute groups and metadata definitions; ir/module.go prints the five lists in the order stored) -/

def insertId (x : Nat) : List Nat → List Nat
  | [] => [x]
  | y :: ys => if x ≤ y then x :: y :: ys else y :: insertId x ys
def sortIds (l : List Nat) : List Nat := l.foldr insertId []

structure DefLists where
  types : List Bytes
  comdats : List Bytes
  named : List Bytes
  attrs : List Nat
  mds : List Nat
  deriving DecidableEq, Repr

/-- the order in which the printed module lists the definitions written in the order `d` -/
def printedOrder (d : DefLists) : DefLists := ⟨sort d.types, sort d.comdats, sort d.named, sortIds d.attrs, sortIds d.mds⟩

end Llir.Natsort
