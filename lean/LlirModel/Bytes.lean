/-! Byte strings and small helpers shared by all models (core Lean only). -/
namespace Llir

abbrev Bytes := List UInt8

def isDigit (b : UInt8) : Bool := 48 ≤ b && b ≤ 57
def isUpper (b : UInt8) : Bool := 65 ≤ b && b ≤ 90
def isLower (b : UInt8) : Bool := 97 ≤ b && b ≤ 122
def isAlpha (b : UInt8) : Bool := isUpper b || isLower b

def strBytes (s : String) : Bytes := s.toUTF8.toList

/-- digits of `n` in base `b`, least significant first; `[0]` for 0. -/
def digitsRev (b : Nat) (n : Nat) : List Nat :=
  if _h : b < 2 then [n] else
  if n < b then [n] else (n % b) :: digitsRev b (n / b)
termination_by n
decreasing_by
  have : 2 ≤ b := by omega
  have : 0 < n := by omega
  exact Nat.div_lt_self (by omega) (by omega)

/-- lower-case digit character (big.Int.Text, strconv.FormatInt) -/
def digitChar (d : Nat) : UInt8 := if d < 10 then UInt8.ofNat (48 + d) else UInt8.ofNat (87 + d)

/-- decimal rendering of a natural number as ASCII bytes (`strconv.FormatInt` for n ≥ 0). -/
def natDec (n : Nat) : Bytes := (digitsRev 10 n).reverse.map digitChar

def intDec (z : Int) : Bytes :=
  if z < 0 then 45 :: natDec z.natAbs else natDec z.natAbs

/-- value of a list of ASCII decimal digits (no validation). -/
def decVal (bs : Bytes) : Nat := bs.foldl (fun acc b => acc * 10 + (b.toNat - 48)) 0

/-- `strconv.ParseUint(s, 10, 64)`: non-empty, digits only, value < 2^64. -/
def parseUint64 (s : Bytes) : Option Nat :=
  if s.isEmpty then none
  else if s.all isDigit then
    let v := decVal s
    if v < 2^64 then some v else none
  else none

/-- `strconv.ParseUint(s, 10, 63)`: non-empty, digits only (no sign), value < 2^63. -/
def parseUint63 (s : Bytes) : Option Nat :=
  if s.isEmpty then none
  else if s.all isDigit then
    let v := decVal s
    if v < 2^63 then some v else none
  else none

/-- `strconv.ParseInt(s, 10, 64)`: optional sign, non-empty digits, range check. -/
def parseInt64 (s : Bytes) : Option Int :=
  match s with
  | [] => none
  | 43 :: r => if r.isEmpty then none else if r.all isDigit then
      let v := decVal r; if v < 2^63 then some (Int.ofNat v) else none else none
  | 45 :: r => if r.isEmpty then none else if r.all isDigit then
      let v := decVal r; if v ≤ 2^63 then some (- Int.ofNat v) else none else none
  | _ => if s.all isDigit then
      let v := decVal s; if v < 2^63 then some (Int.ofNat v) else none else none

/-- hex encoding for the line protocol -/
def hexNib (n : UInt8) : UInt8 := if n < 10 then 48 + n else 87 + n
def toHex (bs : Bytes) : String :=
  String.ofList (bs.flatMap fun (b : UInt8) => [Char.ofNat (hexNib (b >>> (4:UInt8))).toNat, Char.ofNat (hexNib (b &&& (15:UInt8))).toNat])

def unhexNib (c : Char) : Option UInt8 :=
  let n := c.toNat
  if 48 ≤ n && n ≤ 57 then some (UInt8.ofNat (n - 48))
  else if 97 ≤ n && n ≤ 102 then some (UInt8.ofNat (n - 87))
  else if 65 ≤ n && n ≤ 70 then some (UInt8.ofNat (n - 55))
  else none

def fromHexAux : List Char → Option Bytes
  | [] => some []
  | [_] => none
  | a :: b :: r => do
    let x ← unhexNib a
    let y ← unhexNib b
    let rest ← fromHexAux r
    pure ((x <<< 4 ||| y) :: rest)

/-- "-" denotes the empty string in the protocol. -/
def fromHex (s : String) : Option Bytes :=
  if s = "-" then some [] else fromHexAux s.toList

def hexField (bs : Bytes) : String := if bs.isEmpty then "-" else toHex bs

def bytesToString (bs : Bytes) : String := String.ofList (bs.map fun (b : UInt8) => Char.ofNat b.toNat)

end Llir
