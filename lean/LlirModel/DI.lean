import LlirModel.Enc
import LlirModel.Core2
/-! M-DI: the SPECIALISED METADATA NODES (`!DIBasicType(tag: …, name: "…", size: 32)` and the 25 other node kinds whose text is a list of
    `keyword: value` fields — ir/metadata/specialized_metadata.go) at byte level.

    The node kinds are not written down here: the TABLE of kinds (name, fields in printed order, kind of value, condition under which the field is
    printed) is REGENERATED on every run from the `LLString` methods of /repo by go/ast (`harness facts`, `Generated/DITable.lean`); printer, reader
    and translation below are generic over the table, so the theorems hold for whatever the source says now, provided the decidable conditions
    `tableOK` hold of the regenerated table (an obligation re-checked by `decide`).

    A node of the model carries the fields that ARE PRINTED, in printed order (index into the kind's field list, value): the Go struct holds every
    field, the printer omits those at their zero value; `wf` says which lists are images of a struct (ascending indices, every unconditionally
    printed field present, no field at the value that is omitted). Printing side: `[distinct ]!Kind(kw: v, kw: v)`. Parsing side: the fields are
    read in ANY order (asm/specialized_metadata.go loops over the fields and assigns), a repeated field overwrites the earlier one, a field written
    at the value the printer omits disappears, an unknown keyword is an error. Values: integers (`%d`), quoted strings (`quote`), booleans (`%t`)
    and WORDS — enum keywords, flag sets `A | B`, references `!7` — which the model treats as opaque tokens (the enum tables are C18's). -/
namespace Llir.DI
open Llir

inductive VK where
  | int | str | bool | word
  deriving DecidableEq, Repr, Inhabited

/-- when the printer prints the field: `md.F != nil`, `md.F != 0`, `len(md.F) > 0`, `md.F`, `!md.F`, unconditionally, or a condition of another shape -/
inductive Cond where
  | nonnil | nonzero | nonempty | tru | fls | always | other
  deriving DecidableEq, Repr, Inhabited

structure FieldSpec where
  kw : Bytes
  vk : VK
  cond : Cond
  deriving DecidableEq, Repr, Inhabited

structure KindSpec where
  name : Bytes
  fields : List FieldSpec
  deriving Repr, Inhabited

abbrev Table := List KindSpec

inductive FVal where
  | int (v : Int)
  | str (s : Bytes)
  | bool (b : Bool)
  | word (w : Bytes)
  deriving DecidableEq, Repr, Inhabited

structure Node where
  kind : Nat
  distinct : Bool
  fields : List (Nat × FVal)
  deriving DecidableEq, Repr, Inhabited

def sTrue : Bytes := [116, 114, 117, 101]
def sFalse : Bytes := [102, 97, 108, 115, 101]
def sDistinct : Bytes := [100, 105, 115, 116, 105, 110, 99, 116, 32]    -- "distinct "
def sColon : Bytes := [58, 32]                                            -- ": "
def sSep : Bytes := [44, 32]                                              -- ", "

def intDec (v : Int) : Bytes :=
  match v with
  | .ofNat n => natDec n
  | .negSucc n => 45 :: natDec (n + 1)

def valString : FVal → Bytes
  | .int v => intDec v
  | .str s => Enc.quote s
  | .bool b => if b then sTrue else sFalse
  | .word w => w

def fieldString (k : KindSpec) (f : Nat × FVal) : Bytes :=
  (k.fields.getD f.1 default).kw ++ sColon ++ valString f.2

def fieldsString (k : KindSpec) : List (Nat × FVal) → Bytes
  | [] => []
  | [f] => fieldString k f
  | f :: g :: r => fieldString k f ++ sSep ++ fieldsString k (g :: r)

/-- `[distinct ]!Kind(kw: v, kw: v)` (every `LLString` of ir/metadata/specialized_metadata.go) -/
def printNode (T : Table) (n : Node) : Bytes :=
  let k := T.getD n.kind default
  (if n.distinct then sDistinct else []) ++ [33] ++ k.name ++ [40] ++ fieldsString k n.fields ++ [41]

/-! ### reading -/

def isWordEnd (s : Bytes) : Bool :=
  match s with
  | 44 :: _ => true
  | 41 :: _ => true
  | [] => true
  | _ => false

/-- a word (enum keyword, number, flag set `A | B`, reference `!7`): non-empty, up to the next `,` or `)`, without `:` (a dropped comma would otherwise
    swallow the next field) and without `"` -/
def wordOK (w : Bytes) : Bool := !w.isEmpty && w.all fun c => c != 44 && c != 41 && c != 58 && c != 34

/-- an integer: an optional `-` and decimal digits -/
def readInt (s : Bytes) : Option (Int × Bytes) :=
  match s with
  | 45 :: r =>
    let ds := r.takeWhile isDigit
    if ds.isEmpty then none else
      (match decVal ds with
       | 0 => none                                   -- (`-0` is not printed)
       | n + 1 => some (Int.negSucc n, r.dropWhile isDigit))
  | _ =>
    let ds := s.takeWhile isDigit
    if ds.isEmpty then none else some (Int.ofNat (decVal ds), s.dropWhile isDigit)

def readVal (vk : VK) (s : Bytes) : Option (FVal × Bytes) :=
  match vk with
  | .int => (readInt s).map fun p => (.int p.1, p.2)
  | .str =>
    (match s with
     | 34 :: q =>
       (match q.dropWhile (· != 34) with
        | 34 :: rest => some (.str (Enc.unescape (q.takeWhile (· != 34))), rest)
        | _ => none)
     | _ => none)
  | .bool =>
    (match TyParse.stripPrefix sTrue s with
     | some r => some (.bool true, r)
     | none => (match TyParse.stripPrefix sFalse s with | some r => some (.bool false, r) | none => none))
  | .word =>
    let w := s.takeWhile fun c => c != 44 && c != 41
    if wordOK w then some (.word w, s.dropWhile fun c => c != 44 && c != 41) else none

/-- the position of the keyword in the kind's field list -/
def findField : Nat → List FieldSpec → Bytes → Option (Nat × FieldSpec)
  | _, [], _ => none
  | i, f :: fs, kw => if f.kw == kw then some (i, f) else findField (i + 1) fs kw

/-- `kw: v, kw: v …` up to the closing parenthesis -/
def readFields (k : KindSpec) : Nat → Bytes → Option (List (Nat × FVal) × Bytes)
  | 0, _ => none
  | f + 1, s =>
    let kw := s.takeWhile (· != 58)
    match s.dropWhile (· != 58) with
    | 58 :: 32 :: r =>
      (match findField 0 k.fields kw with
       | none => none
       | some (i, spec) =>
         (match readVal spec.vk r with
          | some (v, 44 :: 32 :: r1) =>
            (match readFields k f r1 with
             | some (l, r2) => some ((i, v) :: l, r2)
             | none => none)
          | some (v, r1) => some ([(i, v)], r1)
          | none => none))
    | _ => none

def findKind : Nat → Table → Bytes → Option (Nat × KindSpec)
  | _, [], _ => none
  | i, k :: ks, nm => if k.name == nm then some (i, k) else findKind (i + 1) ks nm

/-- the node as written: fields in the order of the text -/
def readNode (T : Table) (s : Bytes) : Option Node :=
  let (d, s1) := match TyParse.stripPrefix sDistinct s with | some r => (true, r) | none => (false, s)
  match s1 with
  | 33 :: r =>
    let nm := r.takeWhile (· != 40)
    (match r.dropWhile (· != 40), findKind 0 T nm with
     | 40 :: r1, some (ki, k) =>
       if r1 == [41] then some ⟨ki, d, []⟩
       else (match readFields k (r1.length + 1) r1 with
             | some (l, [41]) => some ⟨ki, d, l⟩
             | _ => none)
     | _, _ => none)
  | _ => none

/-! ### translation (asm/specialized_metadata.go): every field is assigned in the order written; the struct is then printed in table order -/

/-- the value the printer omits (the zero value of the struct field; `tru` / `fls`: the boolean the condition excludes) -/
def omitted (spec : FieldSpec) (v : FVal) : Bool :=
  match spec.cond, v with
  | .nonzero, .int 0 => true
  | .nonempty, .str [] => true
  | .tru, .bool false => true
  | .fls, .bool true => true
  | _, _ => false

/-- the last value written for field `i` -/
def lastOf (i : Nat) : List (Nat × FVal) → Option FVal
  | [] => none
  | (j, v) :: r => (match lastOf i r with | some w => some w | none => if j == i then some v else none)

/-- the printed fields of the struct after all assignments: table order, omitted values dropped -/
def canonFrom (written : List (Nat × FVal)) : Nat → List FieldSpec → List (Nat × FVal)
  | _, [] => []
  | i, spec :: specs =>
    (match lastOf i written with
     | some v => if omitted spec v then [] else [(i, v)]
     | none => []) ++ canonFrom written (i + 1) specs

def canonFields (k : KindSpec) (written : List (Nat × FVal)) : List (Nat × FVal) := canonFrom written 0 k.fields

/-- every unconditionally printed field was written (a missing one prints the zero value of the struct — `%!s(<nil>)` for a reference —, which
    is outside the model) and no field with a condition of another shape occurs -/
def transFrom (written : List (Nat × FVal)) : Nat → List FieldSpec → Bool
  | _, [] => true
  | i, spec :: specs =>
    (match spec.cond with
     | .always => (lastOf i written).isSome
     | .other => (lastOf i written).isNone
     | _ => true) && transFrom written (i + 1) specs

def translatable (k : KindSpec) (written : List (Nat × FVal)) : Bool := transFrom written 0 k.fields

def translate (T : Table) (n : Node) : Option Node :=
  let k := T.getD n.kind default
  if translatable k n.fields then some { n with fields := canonFields k n.fields } else none

def parse (T : Table) (s : Bytes) : Option Node := (readNode T s).bind (translate T)

/-! ### well-formedness (decidable; evaluated by the driver on every generated node) -/

def valOK (vk : VK) : FVal → Bool
  | .int _ => vk == .int
  | .str _ => vk == .str
  | .bool _ => vk == .bool
  | .word w => vk == .word && wordOK w

/-- the field list is the image of a struct, field by field in table order: a field that is present has a value of its kind other than the omitted
    one (and its condition is of a modelled shape), a field that is absent is not printed unconditionally; nothing is left over -/
def wfFrom : Nat → List FieldSpec → List (Nat × FVal) → Bool
  | _, [], l => l.isEmpty
  | i, spec :: specs, [] => spec.cond != .always && wfFrom (i + 1) specs []
  | i, spec :: specs, (j, v) :: r =>
    if j == i then valOK spec.vk v && !omitted spec v && spec.cond != .other && wfFrom (i + 1) specs r
    else spec.cond != .always && wfFrom (i + 1) specs ((j, v) :: r)

def wf (T : Table) (n : Node) : Bool :=
  match T[n.kind]? with
  | none => false
  | some k => wfFrom 0 k.fields n.fields

/-- conditions on the (regenerated) table under which the reader inverts the printer: within a kind the keywords are pairwise different,
    non-empty and without `:`; the kind names are pairwise different, non-empty and without `(` -/
def kwOK (kw : Bytes) : Bool := !kw.isEmpty && kw.all fun c => c != 58

def distinctB : List Bytes → Bool
  | [] => true
  | x :: xs => !xs.contains x && distinctB xs

def kindOK (k : KindSpec) : Bool :=
  !k.name.isEmpty && k.name.all (fun c => c != 40) && (k.fields.map (·.kw)).all kwOK && distinctB (k.fields.map (·.kw))

def tableOK (T : Table) : Bool := T.all kindOK && distinctB (T.map (·.name))

end Llir.DI
