import LlirModel.Enc
import LlirModel.IntLit
import LlirModel.Natsort
/-! M-Core (first fragment): modules made of opaque type definitions and integer global variables.
    `printTok` transliterates the printers (ir/module.go WriteTo section order, types.go, global.go,
    const_int.go, enc.go) down to TOKENS; `flatten` inserts the separators the printers insert, so that
    `flatten (printTok m)` must equal `m.String()` byte for byte; `translateTok` transliterates the
    parser's decoding of those tokens (asm/helper.go, asm/type.go getTypeName, const_int.go) and the
    assembly step (type definitions in natural-sort order). The external lexer/parser is trusted to
    deliver exactly these tokens. -/
namespace Llir.Core
open Llir

structure GlobalDef where
  name : Bytes
  width : Nat
  value : Int
  deriving Repr, DecidableEq

structure CoreMod where
  typedefs : List Bytes
  globals : List GlobalDef
  deriving Repr, DecidableEq

inductive Line where
  | typedef (tok : Bytes)                          -- `%name = type opaque`
  | global (tok : Bytes) (w : Nat) (lit : Bytes)   -- `@name = global iW LIT`
  deriving Repr, DecidableEq

def litOf (useHex : Int → Bool) (g : GlobalDef) : Bytes :=
  match IntLit.identIntWith (useHex g.value) g.width g.value with
  | .ok s => s
  | _ => []

def printTok (useHex : Int → Bool) (m : CoreMod) : List Line :=
  m.typedefs.map (fun n => Line.typedef (Enc.typeName n)) ++
  m.globals.map (fun g => Line.global (Enc.globalName g.name) g.width (litOf useHex g))

def decodeTypedef (tok : Bytes) : Option Bytes :=
  match Enc.localIdent tok with
  | .ok i => some (Enc.getTypeName i)
  | .panic => none

def decodeGlobal (tok : Bytes) (w : Nat) (lit : Bytes) : Option GlobalDef :=
  match Enc.globalIdent tok, IntLit.newIntFromString w lit with
  | .ok (.name n), .ok x => some ⟨n, w, x⟩
  | _, _ => none

def collect : List Line → Option (List Bytes × List GlobalDef)
  | [] => some ([], [])
  | .typedef tok :: rest =>
    match decodeTypedef tok, collect rest with
    | some n, some (ts, gs) => some (n :: ts, gs)
    | _, _ => none
  | .global tok w lit :: rest =>
    match decodeGlobal tok w lit, collect rest with
    | some g, some (ts, gs) => some (ts, g :: gs)
    | _, _ => none

/-- the parser: decode every line, then assemble (type definitions in natural order, globals in textual order) -/
def translateTok (ls : List Line) : Option CoreMod :=
  (collect ls).map fun (ts, gs) => ⟨Natsort.sort ts, gs⟩

/-- what one parse+print step normalises -/
def canon (m : CoreMod) : CoreMod := ⟨Natsort.sort m.typedefs, m.globals⟩

def sTypeOpaque : Bytes := [32, 61, 32, 116, 121, 112, 101, 32, 111, 112, 97, 113, 117, 101, 10]   -- " = type opaque\n"
def sGlobalI : Bytes := [32, 61, 32, 103, 108, 111, 98, 97, 108, 32, 105]                          -- " = global i"

def flattenLine : Line → Bytes
  | .typedef tok => tok ++ sTypeOpaque
  | .global tok w lit => tok ++ sGlobalI ++ natDec w ++ [32] ++ lit ++ [10]

/-- WriteTo: sections in the fixed order, a blank line between non-empty sections -/
def flatten (ls : List Line) : Bytes :=
  let tys := ls.filter (fun l => match l with | .typedef _ => true | _ => false)
  let gls := ls.filter (fun l => match l with | .global _ _ _ => true | _ => false)
  let a := (tys.map flattenLine).flatten
  let b := (gls.map flattenLine).flatten
  if a.isEmpty || b.isEmpty then a ++ b else a ++ [10] ++ b

end Llir.Core
