import LlirModel.Numbering
/-! M-History: a function under construction as the flat list of its slots (C08 model), edited by
    structural operations and observed by printing (`print` runs AssignIDs: an error there is a panic
    of String()/LLString()) and by pure queries (Type/Ident/Operands/Succs: no ID is touched). -/
namespace Llir.History
open Llir Llir.Numbering

inductive Op where
  | insert (pos : Nat) (named : Bool) (counts : Bool)   -- a freshly constructed value (ID 0)
  | remove (pos : Nat)
  | rename (pos : Nat) (named : Bool)                    -- SetName: sets the name and resets the ID to 0
  | print                                                -- String / WriteTo / Func.LLString: runs the numbering pass
  | query                                                -- Type / Ident / Operands / Succs / inst.LLString
  deriving Repr, DecidableEq

def Op.isObserver : Op → Bool
  | .print => true
  | .query => true
  | _ => false

inductive Out where
  | none
  | text (ids : List (Option Int))     -- what a print shows for the value slots: name (none) or %N
  | panic
  deriving Repr, DecidableEq

def insertAt (l : List Slot) (pos : Nat) (s : Slot) : List Slot := l.take pos ++ [s] ++ l.drop pos
def removeAt (l : List Slot) (pos : Nat) : List Slot := l.take pos ++ l.drop (pos + 1)
def renameAt (l : List Slot) (pos : Nat) (named : Bool) : List Slot :=
  l.take pos ++ (match l[pos]? with | some s => [{ s with named := named, id := 0 }] | none => []) ++ l.drop (pos + 1)

def render (l : List Slot) : List (Option Int) :=
  (l.filter (·.counts)).map fun s => if s.named then none else some s.id

/-- AssignIDs as it really runs: IDs are written slot by slot, so when the pass stops with an error the
    slots BEFORE the offending one have already been renumbered -/
def assignPartial : Int → List Slot → List Slot × Bool
  | _, [] => ([], true)
  | next, s :: rest =>
    if !s.counts || s.named then
      let r := assignPartial next rest
      (s :: r.1, r.2)
    else if s.id != 0 && next != s.id then (s :: rest, false)
    else
      let r := assignPartial (next + 1) rest
      ({ s with id := next } :: r.1, r.2)

def step (st : List Slot) : Op → List Slot × Out
  | .insert pos named counts => (insertAt st pos ⟨named, 0, counts⟩, .none)
  | .remove pos => (removeAt st pos, .none)
  | .rename pos named => (renameAt st pos named, .none)
  | .query => (st, .none)
  | .print =>
    let r := assignPartial 0 st
    if r.2 then (r.1, .text (render r.1)) else (r.1, .panic)

def run (st : List Slot) : List Op → List Slot
  | [] => st
  | op :: rest => run (step st op).1 rest

def finalPrint (st : List Slot) (h : List Op) : Out := (step (run st h) .print).2

def erase (h : List Op) : List Op := h.filter (fun o => !o.isObserver)

/-- the part of the state that editing depends on and printing shows: everything but the ID fields -/
def shape (l : List Slot) : List (Bool × Bool) := l.map fun s => (s.named, s.counts)

end Llir.History
