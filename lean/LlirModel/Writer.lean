import LlirModel.Bytes
/-! Model of `fmtWriter` (/repo/ir/helper.go) and of `Module.WriteTo`'s use of it (/repo/ir/module.go):
    WriteTo is a sequence of `fw.Fprint*` calls, each of which hands ONE byte chunk to the underlying
    writer unless an error is latched. The chunk sequence is an input of the model. -/
namespace Llir.Writer
open Llir

/-- an `io.Writer` as a state machine: `write st p = (st', n, err?)` -/
structure IOWriter (σ : Type) where
  write : σ → Bytes → σ × Nat × Option String

/-- state of WriteTo: the underlying writer's state, fmtWriter.size, fmtWriter.err, and two ghost
    fields: the bytes the writer accepted so far and the number of Write calls made after the first error. -/
structure St (σ : Type) where
  w : σ
  size : Nat
  err : Option String
  accepted : Bytes
  callsAfterErr : Nat
  calls : Nat

def init (s : σ) : St σ := { w := s, size := 0, err := none, accepted := [], callsAfterErr := 0, calls := 0 }

/-- one `fw.Fprint/Fprintf/Fprintln` call producing chunk `p` -/
def step (W : IOWriter σ) (st : St σ) (p : Bytes) : St σ :=
  match st.err with
  | some _ => st                     -- "early return if a previous error has been encountered"
  | none =>
    let (w', n, e) := W.write st.w p
    { w := w', size := st.size + n, err := e, accepted := st.accepted ++ p.take n,
      callsAfterErr := st.callsAfterErr, calls := st.calls + 1 }

def run (W : IOWriter σ) (s : σ) (chunks : List Bytes) : St σ := chunks.foldl (step W) (init s)

/-- a writer that accepts bytes until `k` bytes in total were accepted, then fails (short write + error) -/
def failAfter (k : Nat) : IOWriter Nat where
  write sofar p :=
    let room := k - sofar
    if p.length ≤ room then (sofar + p.length, p.length, none)
    else (sofar + room, room, some "fail")

/-- a writer that never fails -/
def okWriter : IOWriter Nat where
  write sofar p := (sofar + p.length, p.length, none)

/-- a writer that reports an error but claims to have written everything once `k` bytes passed -/
def errFullAfter (k : Nat) : IOWriter Nat where
  write sofar p := (sofar + p.length, p.length, if sofar + p.length > k then some "late" else none)

end Llir.Writer
