import LlirModel.TyParse
import LlirModel.IntLit
import LlirModel.Natsort
/-! M-Core, second fragment: modules made of identified-struct type definitions (opaque or with a body)
    and global variables of ANY type whose initialiser is an integer, `zeroinitializer`, `null`, `undef`
    or an arbitrarily nested struct / packed struct / array / vector constant.

    Printing side: ir/module.go (sections), ir/types (type definitions: `%T = type <body>`), ir/global.go
    (`@g = global|constant T V`), ir/constant/const_{int,struct,array,vector,null,undef,zeroinitializer}.go
    (`Ident()`; aggregate elements are printed as `T V`).
    Parsing side: the text after `type ` and after `global ` / `constant ` is read by the readers below
    (`TyParse.parseTy`, `parseConst`: stand-ins for the external grammar of llir/ll, compared with the real
    parser by the harness) and translated as asm/type.go, asm/global.go, asm/const.go do: names decoded,
    named types resolved against the module's definitions, the constant checked against its type
    (integer ↔ IntType, null ↔ PointerType, struct ↔ StructType, array ↔ ArrayType, vector ↔ VectorType). -/
namespace Llir.Core2
open Llir Llir.Types

mutual
inductive Const where
  | int (x : Int)
  | zero | null | undef
  | struct (packed : Bool) (fs : CList)
  | arr (es : CList)
  | vec (es : CList)
inductive CList where
  | nil
  | cons (t : Ty) (c : Const) (rest : CList)
end

def sZero : Bytes := [122, 101, 114, 111, 105, 110, 105, 116, 105, 97, 108, 105, 122, 101, 114]   -- zeroinitializer
def sNull : Bytes := [110, 117, 108, 108]
def sUndef : Bytes := [117, 110, 100, 101, 102]

def intWidth : Ty → Nat
  | .int w => w
  | _ => 0

/-- (*constant.Int).Ident() -/
def intLit (useHex : Int → Bool) (w : Nat) (x : Int) : Bytes :=
  match IntLit.identIntWith (useHex x) w x with
  | .ok s => s
  | _ => []

mutual
/-- `c.Ident()` for a constant of type `t` -/
def constIdent (useHex : Int → Bool) : Ty → Const → Bytes
  | t, .int x => intLit useHex (intWidth t) x
  | _, .zero => sZero
  | _, .null => sNull
  | _, .undef => sUndef
  | _, .struct p .nil => if p then [60, 123, 125, 62] else [123, 125]
  | _, .struct p (.cons t c rest) =>
    (if p then [60] else []) ++ [123, 32] ++ clistString useHex (.cons t c rest) ++ [32, 125] ++ (if p then [62] else [])
  | _, .arr es => [91] ++ clistString useHex es ++ [93]
  | _, .vec es => [60] ++ clistString useHex es ++ [62]
/-- elements `T V` separated by `, ` -/
def clistString (useHex : Int → Bool) : CList → Bytes
  | .nil => []
  | .cons t c .nil => tyString t ++ [32] ++ constIdent useHex t c
  | .cons t c (.cons t' c' rest) => tyString t ++ [32] ++ constIdent useHex t c ++ sComma ++ clistString useHex (.cons t' c' rest)
end

/-! ### reader -/

/-- characters of the word-like constant tokens: integer literals (`-12`, `u0x1F`, `true`) and keywords -/
def isTokChar (c : UInt8) : Bool := isDigit c || isAlpha c || c == 45

/-- fuel for the type reader on the text `s` (enough for any type printed at the head of `s`) -/
def tyFuel (s : Bytes) : Nat := 2 * s.length + 2

/-- word-like constants: `zeroinitializer`, `null`, `undef`, integer literals -/
def wordBranch (t : Ty) (s : Bytes) : Option (Const × Bytes) :=
  let tok := s.takeWhile isTokChar
  let rest := s.dropWhile isTokChar
  if tok == sZero then some (.zero, rest)
  else if tok == sNull then some (.null, rest)
  else if tok == sUndef then some (.undef, rest)
  else
    match IntLit.newIntFromString (intWidth t) tok with
    | .ok x => some (.int x, rest)
    | _ => none

mutual
def parseConst : Nat → Ty → Bytes → Option (Const × Bytes)
  | 0, _, _ => none
  | f + 1, t, s =>
    if s.head? == some 123 then                       -- {} / { fields }
      (match s.tail with
       | 125 :: r => some (.struct false .nil, r)
       | 32 :: r =>
         (match parseCList f r with
          | some (.cons t1 c1 rest, 32 :: 125 :: r') => some (.struct false (.cons t1 c1 rest), r')
          | _ => none)
       | _ => none)
    else if s.head? == some 91 then                   -- [] / [ elems ]
      (if s.tail.head? == some 93 then some (.arr .nil, s.tail.tail)
       else
         (match parseCList f s.tail with
          | some (es, 93 :: r') => some (.arr es, r')
          | _ => none))
    else if s.head? == some 60 then                   -- <{...}> / <> / < elems >
      (if s.tail.head? == some 123 then
         (match s.tail.tail with
          | 125 :: 62 :: r' => some (.struct true .nil, r')
          | 32 :: r' =>
            (match parseCList f r' with
             | some (.cons t1 c1 rest, 32 :: 125 :: 62 :: r'') => some (.struct true (.cons t1 c1 rest), r'')
             | _ => none)
          | _ => none)
       else if s.tail.head? == some 62 then some (.vec .nil, s.tail.tail)
       else
         (match parseCList f s.tail with
          | some (es, 62 :: r') => some (.vec es, r')
          | _ => none))
    else wordBranch t s
def parseCList : Nat → Bytes → Option (CList × Bytes)
  | 0, _ => none
  | f + 1, s =>
    match TyParse.parseTy (tyFuel s) s with
    | some (t, 32 :: r) =>
      (match parseConst f t r with
       | some (c, 44 :: 32 :: r') =>
         (match parseCList f r' with
          | some (rest, r'') => some (.cons t c rest, r'')
          | none => none)
       | some (c, r') => some (.cons t c .nil, r')
       | none => none)
    | _ => none
end

/-! ### what asm/const.go checks: the constant against the type it is given -/

mutual
def constTyOK : Ty → Const → Bool
  | t, .int _ => (match t with | .int _ => true | _ => false)
  | _, .zero => true
  | _, .undef => true
  | t, .null => (match t with | .ptr _ _ => true | _ => false)
  | t, .struct _ fs => (match t with | .struct _ _ => true | .named _ => true | _ => false) && clistTyOK fs
  | t, .arr es => (match t with | .arr n _ => (match es with | .nil => n == 0 | _ => true) | _ => false) && clistTyOK es
  | t, .vec es => (match t with | .vec _ _ _ => (match es with | .nil => false | _ => true) | _ => false) && clistTyOK es
def clistTyOK : CList → Bool
  | .nil => true
  | .cons t c rest => constTyOK t c && clistTyOK rest
end

end Llir.Core2
