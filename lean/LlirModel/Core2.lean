import LlirModel.TyParse
import LlirModel.IntLit
import LlirModel.Natsort
/-! M-Core, second fragment: modules made of identified-struct type definitions (opaque or with a body)
    and global variables of ANY type whose initialiser is an integer, `zeroinitializer`, `null`, `undef`
    or an arbitrarily nested struct / packed struct / array / vector constant.

    Printing side: ir/module.go (sections), ir/types (type definitions: `%T = type <body>`), ir/global.go
    (`@g = global|constant T V`), ir/constant/const_{int,struct,array,vector,null,undef,zeroinitializer}.go
    (`Ident()`; aggregate elements are printed as `T V`).
    Parsing side: the text after `type ` and after `global ` / `constant ` is read by the readers below
    (`TyParse.parseTy`, `parseConst`: stand-ins for the external grammar of llir/ll, compared with the real
    parser by the harness) and translated as asm/type.go, asm/global.go, asm/const.go do: names decoded,
    named types resolved against the module's definitions, the constant checked against its type
    (integer ↔ IntType, null ↔ PointerType, struct ↔ StructType, array ↔ ArrayType, vector ↔ VectorType). -/
namespace Llir.Core2
open Llir Llir.Types

mutual
inductive Const where
  | int (x : Int)
  | zero | null | undef
  | struct (packed : Bool) (fs : CList)
  | arr (es : CList)
  | vec (es : CList)
inductive CList where
  | nil
  | cons (t : Ty) (c : Const) (rest : CList)
end

def sZero : Bytes := [122, 101, 114, 111, 105, 110, 105, 116, 105, 97, 108, 105, 122, 101, 114]   -- zeroinitializer
def sNull : Bytes := [110, 117, 108, 108]
def sUndef : Bytes := [117, 110, 100, 101, 102]

def intWidth : Ty → Nat
  | .int w => w
  | _ => 0

/-- (*constant.Int).Ident() -/
def intLit (useHex : Int → Bool) (w : Nat) (x : Int) : Bytes :=
  match IntLit.identIntWith (useHex x) w x with
  | .ok s => s
  | _ => []

mutual
/-- `c.Ident()` for a constant of type `t` -/
def constIdent (useHex : Int → Bool) : Ty → Const → Bytes
  | t, .int x => intLit useHex (intWidth t) x
  | _, .zero => sZero
  | _, .null => sNull
  | _, .undef => sUndef
  | _, .struct p .nil => if p then [60, 123, 125, 62] else [123, 125]
  | _, .struct p (.cons t c rest) =>
    (if p then [60] else []) ++ [123, 32] ++ clistString useHex (.cons t c rest) ++ [32, 125] ++ (if p then [62] else [])
  | _, .arr es => [91] ++ clistString useHex es ++ [93]
  | _, .vec es => [60] ++ clistString useHex es ++ [62]
/-- elements `T V` separated by `, ` -/
def clistString (useHex : Int → Bool) : CList → Bytes
  | .nil => []
  | .cons t c .nil => tyString t ++ [32] ++ constIdent useHex t c
  | .cons t c (.cons t' c' rest) => tyString t ++ [32] ++ constIdent useHex t c ++ sComma ++ clistString useHex (.cons t' c' rest)
end

/-! ### reader -/

/-- characters of the word-like constant tokens: integer literals (`-12`, `u0x1F`, `true`) and keywords -/
def isTokChar (c : UInt8) : Bool := isDigit c || isAlpha c || c == 45

/-- fuel for the type reader on the text `s` (enough for any type printed at the head of `s`) -/
def tyFuel (s : Bytes) : Nat := 2 * s.length + 2

/-- word-like constants: `zeroinitializer`, `null`, `undef`, integer literals -/
def wordBranch (t : Ty) (s : Bytes) : Option (Const × Bytes) :=
  let tok := s.takeWhile isTokChar
  let rest := s.dropWhile isTokChar
  if tok == sZero then some (.zero, rest)
  else if tok == sNull then some (.null, rest)
  else if tok == sUndef then some (.undef, rest)
  else
    match IntLit.newIntFromString (intWidth t) tok with
    | .ok x => some (.int x, rest)
    | _ => none

mutual
def parseConst : Nat → Ty → Bytes → Option (Const × Bytes)
  | 0, _, _ => none
  | f + 1, t, s =>
    if s.head? == some 123 then                       -- {} / { fields }
      (match s.tail with
       | 125 :: r => some (.struct false .nil, r)
       | 32 :: r =>
         (match parseCList f r with
          | some (.cons t1 c1 rest, 32 :: 125 :: r') => some (.struct false (.cons t1 c1 rest), r')
          | _ => none)
       | _ => none)
    else if s.head? == some 91 then                   -- [] / [ elems ]
      (if s.tail.head? == some 93 then some (.arr .nil, s.tail.tail)
       else
         (match parseCList f s.tail with
          | some (es, 93 :: r') => some (.arr es, r')
          | _ => none))
    else if s.head? == some 60 then                   -- <{...}> / <> / < elems >
      (if s.tail.head? == some 123 then
         (match s.tail.tail with
          | 125 :: 62 :: r' => some (.struct true .nil, r')
          | 32 :: r' =>
            (match parseCList f r' with
             | some (.cons t1 c1 rest, 32 :: 125 :: 62 :: r'') => some (.struct true (.cons t1 c1 rest), r'')
             | _ => none)
          | _ => none)
       else if s.tail.head? == some 62 then some (.vec .nil, s.tail.tail)
       else
         (match parseCList f s.tail with
          | some (es, 62 :: r') => some (.vec es, r')
          | _ => none))
    else wordBranch t s
def parseCList : Nat → Bytes → Option (CList × Bytes)
  | 0, _ => none
  | f + 1, s =>
    match TyParse.parseTy (tyFuel s) s with
    | some (t, 32 :: r) =>
      (match parseConst f t r with
       | some (c, 44 :: 32 :: r') =>
         (match parseCList f r' with
          | some (rest, r'') => some (.cons t c rest, r'')
          | none => none)
       | some (c, r') => some (.cons t c .nil, r')
       | none => none)
    | _ => none
end

/-! ### what asm/const.go checks: the constant against the type it is given -/

mutual
def constTyOK : Ty → Const → Bool
  | t, .int _ => (match t with | .int _ => true | _ => false)
  | _, .zero => true
  | _, .undef => true
  | t, .null => (match t with | .ptr _ _ => true | _ => false)
  | t, .struct _ fs => (match t with | .struct _ _ => true | .named _ => true | _ => false) && clistTyOK fs
  | t, .arr es => (match t with | .arr n _ => (match es with | .nil => n == 0 | _ => true) | _ => false) && clistTyOK es
  | t, .vec es => (match t with | .vec _ _ _ => (match es with | .nil => false | _ => true) | _ => false) && clistTyOK es
def clistTyOK : CList → Bool
  | .nil => true
  | .cons t c rest => constTyOK t c && clistTyOK rest
end


/-! ### well-formedness of constants (hypothesis of the reader theorems) -/

/-- the only textual ambiguity of the constant syntax: a vector constant whose first element's type is
    spelled with a leading `{` would read as a packed struct (LLVM's own parser has the same rule) -/
def firstNoBrace : CList → Bool
  | .nil => true
  | .cons t _ _ => (tyString t).head? != some 123

mutual
def cwf : Const → Bool
  | .struct _ fs => clwf fs
  | .arr es => clwf es
  | .vec es => firstNoBrace es && clwf es
  | _ => true
def clwf : CList → Bool
  | .nil => true
  | .cons _ c rest => cwf c && clwf rest
end


/-! ### modules -/

inductive Body where
  | opaq
  | struct (packed : Bool) (fs : TyList)
  deriving Inhabited

structure TypeDef where
  name : Bytes
  body : Body

/-- the clauses behind the initializer of a global variable (`, section "s", partition "p", align 8`; read and printed by M-Whole, no meaning in this file): an empty
    string / a zero alignment is not printed -/
structure GTail where
  sect : Bytes := []
  partition : Bytes := []
  align : Nat := 0
  deriving DecidableEq, Repr, Inhabited

structure Global where
  name : Bytes
  isConst : Bool            -- `constant` instead of `global`
  ty : Ty
  init : Const
  /-- the optional keywords between `=` and `global` / `constant` (linkage, preemption, visibility, DLL storage class, thread-local model, unnamed_addr,
      externally_initialized), as positions in the keyword list of M-Whole (`Whole.kGLead`), in the order written; no meaning in this file -/
  lead : List Nat := []
  tail : GTail := {}

structure Mod where
  typedefs : List TypeDef
  globals : List Global

/-- what the external lexer/grammar delivers per top-level entity: the identifier token and the text of the
    parts that are read by the readers of this file -/
inductive Line where
  | typedef (tok : Bytes) (body : Bytes)                      -- `tok = type body`
  | global (tok : Bytes) (isConst : Bool) (rest : Bytes) (lead : List Nat := []) (tail : GTail := {})      -- `tok = [keywords] global|constant rest`, rest = `T V`; the keywords as positions (M-Whole)

def sOpaque : Bytes := [111, 112, 97, 113, 117, 101]

def bodyString : Body → Bytes
  | .opaq => sOpaque
  | .struct p fs => tyString (.struct p fs)

def printTok (useHex : Int → Bool) (m : Mod) : List Line :=
  m.typedefs.map (fun d => Line.typedef (Enc.typeName d.name) (bodyString d.body)) ++
  m.globals.map (fun g => Line.global (Enc.globalName g.name) g.isConst (tyString g.ty ++ [32] ++ constIdent useHex g.ty g.init) g.lead g.tail)

/-- asm/type.go getTypeName on the name read after `%` (see LlirModel/Enc.lean) -/
def respell (n : Bytes) : Bytes := Enc.getTypeName (.name n)

mutual
def respellTy : Ty → Ty
  | .ptr e as => .ptr (respellTy e) as
  | .vec s n e => .vec s n (respellTy e)
  | .arr n e => .arr n (respellTy e)
  | .struct p fs => .struct p (respellTys fs)
  | .named n => .named (respell n)
  | .func r ps v => .func (respellTy r) (respellTys ps) v
  | t => t
def respellTys : TyList → TyList
  | .nil => .nil
  | .cons t ts => .cons (respellTy t) (respellTys ts)
end

mutual
def respellConst : Const → Const
  | .struct p fs => .struct p (respellCList fs)
  | .arr es => .arr (respellCList es)
  | .vec es => .vec (respellCList es)
  | c => c
def respellCList : CList → CList
  | .nil => .nil
  | .cons t c rest => .cons (respellTy t) (respellConst c) (respellCList rest)
end

def decodeTypedefName (tok : Bytes) : Option Bytes :=
  match Enc.localIdent tok with
  | .ok i => some (Enc.getTypeName i)
  | .panic => none

def decodeBody (s : Bytes) : Option Body :=
  if s == sOpaque then some .opaq
  else match TyParse.parse s with
    | some (.struct p fs) => some (.struct p (respellTys fs))
    | _ => none                       -- other bodies (type aliases) are outside this fragment

def decodeGlobal (tok : Bytes) (isConst : Bool) (rest : Bytes) (lead : List Nat := []) (tail : GTail := {}) : Option Global :=
  match Enc.globalIdent tok with
  | .ok (.name n) =>
    (match TyParse.parseTy (tyFuel rest) rest with
     | some (t, 32 :: r1) =>
       (match parseConst (r1.length + 1) t r1 with
        | some (c, []) => if constTyOK t c then some ⟨n, isConst, respellTy t, respellConst c, lead, tail⟩ else none
        | _ => none)
     | _ => none)
  | _ => none

def collect : List Line → Option (List TypeDef × List Global)
  | [] => some ([], [])
  | .typedef tok body :: rest =>
    match decodeTypedefName tok, decodeBody body, collect rest with
    | some n, some b, some (ts, gs) => some (⟨n, b⟩ :: ts, gs)
    | _, _, _ => none
  | .global tok k r ld tl :: rest =>
    match decodeGlobal tok k r ld tl, collect rest with
    | some g, some (ts, gs) => some (ts, g :: gs)
    | _, _ => none

/-! named types used anywhere must be defined by the module -/
mutual
def tyNames : Ty → List Bytes
  | .ptr e _ => tyNames e
  | .vec _ _ e => tyNames e
  | .arr _ e => tyNames e
  | .struct _ fs => tysNames fs
  | .named n => [n]
  | .func r ps _ => tyNames r ++ tysNames ps
  | _ => []
def tysNames : TyList → List Bytes
  | .nil => []
  | .cons t ts => tyNames t ++ tysNames ts
end

mutual
def constNames : Const → List Bytes
  | .struct _ fs => clistNames fs
  | .arr es => clistNames es
  | .vec es => clistNames es
  | _ => []
def clistNames : CList → List Bytes
  | .nil => []
  | .cons t c rest => tyNames t ++ constNames c ++ clistNames rest
end

def bodyNames : Body → List Bytes
  | .opaq => []
  | .struct _ fs => tysNames fs

def usedNames (ts : List TypeDef) (gs : List Global) : List Bytes :=
  ts.flatMap (fun d => bodyNames d.body) ++ gs.flatMap (fun g => tyNames g.ty ++ constNames g.init)

def hasDup : List Bytes → Bool
  | [] => false
  | x :: xs => xs.contains x || hasDup xs

/-- type definitions in natural-sort order of their names (asm/translate.go) -/
def sortDefs (ts : List TypeDef) : List TypeDef :=
  (Natsort.sort (ts.map (·.name))).filterMap fun n => ts.find? (·.name == n)

/-- the parser: decode every line, reject duplicate and undefined names, assemble -/
def translateTok (ls : List Line) : Option Mod :=
  match collect ls with
  | none => none
  | some (ts, gs) =>
    if hasDup (ts.map (·.name)) || hasDup (gs.map (·.name)) then none
    else if (usedNames ts gs).all (fun n => (ts.map (·.name)).contains n) then some ⟨sortDefs ts, gs⟩
    else none

def canon (m : Mod) : Mod := ⟨sortDefs m.typedefs, m.globals⟩

/-! ### text (byte-exact with `Module.String()`) -/

def sType : Bytes := [32, 61, 32, 116, 121, 112, 101, 32]                     -- " = type "
def sGlobal : Bytes := [32, 61, 32, 103, 108, 111, 98, 97, 108, 32]           -- " = global "
def sConstant : Bytes := [32, 61, 32, 99, 111, 110, 115, 116, 97, 110, 116, 32]   -- " = constant "

def flattenLine : Line → Bytes
  | .typedef tok body => tok ++ sType ++ body ++ [10]
  | .global tok k rest _ _ => tok ++ (if k then sConstant else sGlobal) ++ rest ++ [10]

def flatten (ls : List Line) : Bytes :=
  let tys := ls.filter (fun l => match l with | .typedef _ _ => true | _ => false)
  let gls := ls.filter (fun l => match l with | .global _ _ _ _ _ => true | _ => false)
  let a := (tys.map flattenLine).flatten
  let b := (gls.map flattenLine).flatten
  if a.isEmpty || b.isEmpty then a ++ b else a ++ [10] ++ b

end Llir.Core2
