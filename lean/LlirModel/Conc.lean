import LlirModel.Generated.Facts
/-! Model of concurrent printing (ir/module.go, ir/func.go): every print call `c` first runs an
    ID-assignment critical section under a mutex (`cs c`), then reads the IDs outside the lock
    (`u c l`). Critical sections are mutually exclusive, so a run is a sequence of such events in which
    each call's critical section precedes its own unlocked reads.  A critical section reads every ID
    location; it WRITES them only according to the policy extracted from the source
    (`alwaysWrite` = SetID unconditional; otherwise only when an ID changes, i.e. only in the first
    critical section of a not-yet-numbered object — the numbering pass is idempotent, C08/C17). -/
namespace Llir.Conc

inductive Ev where
  | cs (c : Nat)            -- critical section of print call c
  | u (c : Nat) (l : Nat)   -- unlocked read of location l by print call c
  deriving Repr, DecidableEq

def Ev.call : Ev → Nat
  | .cs c => c
  | .u c _ => c
def Ev.isCS : Ev → Bool
  | .cs _ => true
  | .u _ _ => false

/-- well-formed run: an unlocked read of call c is preceded by c's critical section -/
def WF (tr : List Ev) : Prop :=
  ∀ (j c l : Nat), tr[j]? = some (Ev.u c l) → ∃ k : Nat, k < j ∧ tr[k]? = some (Ev.cs c)

/-- does the critical section at position i perform writes? -/
def writesAt (alwaysWrite initNumbered : Bool) (tr : List Ev) (i : Nat) : Prop :=
  (∃ c : Nat, tr[i]? = some (Ev.cs c)) ∧
  (alwaysWrite = true ∨ (initNumbered = false ∧ ∀ k : Nat, k < i → ∀ c : Nat, tr[k]? ≠ some (Ev.cs c)))

/-- one happens-before edge: program order within a call, or lock hand-over between critical sections -/
def Edge (tr : List Ev) (i j : Nat) : Prop :=
  i < j ∧ ∃ a b, tr[i]? = some a ∧ tr[j]? = some b ∧ (a.call = b.call ∨ (a.isCS = true ∧ b.isCS = true))

inductive HB (tr : List Ev) : Nat → Nat → Prop where
  | edge {i j} : Edge tr i j → HB tr i j
  | trans {i j k} : HB tr i j → HB tr j k → HB tr i k

/-- a conflict: position i is a writing critical section, position j an access of a different call
    (a critical section reads every location, an unlocked read reads one) -/
def Conflict (alwaysWrite initNumbered : Bool) (tr : List Ev) (i j : Nat) : Prop :=
  writesAt alwaysWrite initNumbered tr i ∧ ∃ a b, tr[i]? = some a ∧ tr[j]? = some b ∧ a.call ≠ b.call

/-- the write policy as extracted from the current source -/
def alwaysWriteFromFacts : Bool :=
  !(Generated.Facts.AssignIDs_setIDCalls == Generated.Facts.AssignIDs_setIDGuarded &&
    Generated.Facts.AssignGlobalIDs_setIDCalls == Generated.Facts.AssignGlobalIDs_setIDGuarded)

end Llir.Conc
