import LlirModel.Meta
/-! M-Whole: a whole module at byte level — the four fragments in one text. Identified-struct type definitions and global variables (M-Core-2),
    function definitions (M-Core-3) and the metadata section (M-Meta), printed as `Module.String()` prints them (ir/module.go WriteTo: type
    definitions, global variables, functions — separated from each other by an empty line —, named metadata, metadata definitions; groups
    separated by an empty line) and read back: the top-level splitter below stands in for the external grammar's `TopLevelEntity*`
    (a function definition extends to the line `}`), the fragments are translated by their own models, and asm/module.go's cross-fragment
    checks are added: a global variable and a function, or two functions, of one name are an error (`indexTopLevelEntities`), and a named type used
    by a function must be defined (`irType`). -/
namespace Llir.Whole
open Llir Llir.Types

structure Module where
  typedefs : List Core2.TypeDef
  globals : List Core2.Global
  funcs : List Core3.Func
  md : Meta.Sec
  deriving Inhabited

/-! ### the optional keywords of a global variable (`@g = internal dso_local hidden dllexport thread_local(initialexec) unnamed_addr externally_initialized constant T V`) -/

/-- the thread-local models (ir/helper.go tlsModelString): generic, initialexec, localdynamic, localexec -/
def kTLS : List Bytes := [[116, 104, 114, 101, 97, 100, 95, 108, 111, 99, 97, 108],
  [116, 104, 114, 101, 97, 100, 95, 108, 111, 99, 97, 108, 40, 105, 110, 105, 116, 105, 97, 108, 101, 120, 101, 99, 41],
  [116, 104, 114, 101, 97, 100, 95, 108, 111, 99, 97, 108, 40, 108, 111, 99, 97, 108, 100, 121, 110, 97, 109, 105, 99, 41],
  [116, 104, 114, 101, 97, 100, 95, 108, 111, 99, 97, 108, 40, 108, 111, 99, 97, 108, 101, 120, 101, 99, 41]]
def kExtInit : List Bytes := [[101, 120, 116, 101, 114, 110, 97, 108, 108, 121, 95, 105, 110, 105, 116, 105, 97, 108, 105, 122, 101, 100]]

/-- linkage of a DEFINITION (the nine keywords that are not `external` / `extern_weak`: a global variable of the fragment has an initializer), preemption, visibility,
    DLL storage class, thread-local model, unnamed_addr, externally_initialized — in the order of the grammar and of the printer (ir/global.go LLString) -/
def kGLead : List Bytes := Core3.kLinkage.take 9 ++ Core3.kPreemption ++ Core3.kVisibility ++ Core3.kDLL ++ kTLS ++ Core3.kUnnamed ++ kExtInit

/-- the family of a position of `kGLead` -/
def gleadFamily (i : Nat) : Nat :=
  if i < 9 then 0 else if i < 11 then 1 else if i < 14 then 2 else if i < 16 then 3 else if i < 20 then 4 else if i < 22 then 5 else 6

/-- at most one keyword of each family, the families in the order of the grammar (a repeated or misplaced keyword is a syntax error) -/
def gleadOK (xs : List Nat) : Bool := xs.all (fun i => decide (i < kGLead.length)) && Core3.strictAsc (xs.map gleadFamily)

def gleadsOK (gs : List Core2.Global) : Bool := gs.all fun g => gleadOK g.lead

def sEqSp : Bytes := [32, 61, 32]                                         -- " = "
def sGlobalKw : Bytes := [103, 108, 111, 98, 97, 108, 32]                 -- "global "
def sConstantKw : Bytes := [99, 111, 110, 115, 116, 97, 110, 116, 32]     -- "constant "

def sCommaSection : Bytes := [44, 32, 115, 101, 99, 116, 105, 111, 110, 32]        -- ", section "
def sCommaPartition : Bytes := [44, 32, 112, 97, 114, 116, 105, 116, 105, 111, 110, 32]    -- ", partition "
def sCommaAlign : Bytes := [44, 32, 97, 108, 105, 103, 110, 32]            -- ", align "

/-- the clauses behind the initializer, in the order of the grammar and of the printer (ir/global.go LLString) -/
def gtailString (t : Core2.GTail) : Bytes :=
  (if t.sect.isEmpty then [] else sCommaSection ++ Enc.quote t.sect) ++
  ((if t.partition.isEmpty then [] else sCommaPartition ++ Enc.quote t.partition) ++
   (if t.align == 0 then [] else sCommaAlign ++ natDec t.align))

def gtailsOK (gs : List Core2.Global) : Bool := gs.all fun g => decide (g.tail.align < 2 ^ 64)

/-- a quoted string up to its closing quote, decoded -/
def readQuoted (s : Bytes) : Option (Bytes × Bytes) :=
  match s with
  | 34 :: q => (match q.dropWhile (· != 34) with | 34 :: r => some (Enc.unescape (q.takeWhile (· != 34)), r) | _ => none)
  | _ => none

inductive GItem where
  | sect (s : Bytes)
  | part (s : Bytes)
  | align (n : Nat)
  deriving DecidableEq, Repr

/-- the clauses behind the initializer up to the end of the line, as written: the real grammar takes them in ANY order and any number of times -/
def readGItems : Nat → Bytes → Option (List GItem)
  | 0, _ => none
  | _ + 1, [] => some []
  | f + 1, s =>
    match TyParse.stripPrefix sCommaSection s with
    | some q => (match readQuoted q with | some (x, r) => (readGItems f r).map (GItem.sect x :: ·) | none => none)
    | none =>
      match TyParse.stripPrefix sCommaPartition s with
      | some q => (match readQuoted q with | some (x, r) => (readGItems f r).map (GItem.part x :: ·) | none => none)
      | none =>
        match TyParse.stripPrefix sCommaAlign s with
        | some q => (match TyParse.readNat q with | some (n, r) => (readGItems f r).map (GItem.align n :: ·) | none => none)
        | none => none

/-- asm/global.go irGlobal: every clause overwrites the field (the LAST one written wins); an alignment beyond 64 bits is rejected (the real parser panics on it) -/
def applyG (t : Core2.GTail) : GItem → Option Core2.GTail
  | .sect s => some { t with sect := s }
  | .part s => some { t with partition := s }
  | .align n => if n < 2 ^ 64 then some { t with align := n } else none

def readGTail (s : Bytes) : Option Core2.GTail := (readGItems (s.length + 4) s).bind (·.foldlM applyG {})

/-- the clauses the printer writes, in its order -/
def gitemsOf (t : Core2.GTail) : List GItem :=
  (if t.sect.isEmpty then [] else [.sect t.sect]) ++ ((if t.partition.isEmpty then [] else [.part t.partition]) ++ (if t.align == 0 then [] else [.align t.align]))

/-- `T V` at the head of the text behind `global ` / `constant `, and what follows the constant -/
def splitInit (x : Bytes) : Option (Bytes × Bytes) :=
  match TyParse.parseTy (Core2.tyFuel x) x with
  | some (t, 32 :: r1) =>
    (match Core2.parseConst (r1.length + 1) t r1 with
     | some (_, r2) => some (x.take (x.length - r2.length), r2)
     | none => none)
  | _ => none

/-! ### printing -/

def typedefLine (d : Core2.TypeDef) : Bytes := Enc.typeName d.name ++ Core2.sType ++ Core2.bodyString d.body

def globalLine (useHex : Int → Bool) (g : Core2.Global) : Bytes :=
  Enc.globalName g.name ++ sEqSp ++ Core3.flagsString kGLead g.lead ++ (if g.isConst then sConstantKw else sGlobalKw) ++ tyString g.ty ++ [32] ++ Core2.constIdent useHex g.ty g.init ++ gtailString g.tail

/-- function definitions are separated by an empty line -/
def funcsLines (useHex : Int → Bool) : List Core3.Func → List Bytes
  | [] => []
  | [f] => Core3.printFunc useHex f
  | f :: g :: r => Core3.printFunc useHex f ++ [[]] ++ funcsLines useHex (g :: r)

/-- non-empty groups of lines, separated by an empty line -/
def joinGroups : List (List Bytes) → List Bytes
  | [] => []
  | g :: gs =>
    if g.isEmpty then joinGroups gs
    else match joinGroups gs with
      | [] => g
      | r => g ++ [[]] ++ r

def printModule (useHex : Int → Bool) (m : Module) : List Bytes :=
  joinGroups [m.typedefs.map typedefLine, m.globals.map (globalLine useHex), funcsLines useHex m.funcs, Meta.printSec useHex m.md]

/-! ### the top-level splitter -/

def stripPrefix := @TyParse.stripPrefix

/-- `%name = type body` / `@name = global|constant T V` as the token and the text the fragment readers take -/
def readEntityLine (s : Bytes) : Option Core2.Line :=
  match s with
  | 37 :: r =>
    (match Core3.takeBody r with
     | some (tok, rest) =>
       (match stripPrefix Core2.sType rest with
        | some body => some (.typedef (37 :: tok) body)
        | none => none)
     | none => none)
  | 64 :: r =>
    (match Core3.takeBody r with
     | some (tok, rest) =>
       (match stripPrefix sEqSp rest with
        | some r0 =>
          let (lead, r1) := Core3.readFlags (r0.length + 1) kGLead r0
          let fin (k : Bool) (x : Bytes) : Option Core2.Line :=
            match splitInit x with
            | some (tv, r2) => (match readGTail r2 with | some tl => some (.global (64 :: tok) k tv lead tl) | none => none)
            | none => none
          (match stripPrefix sGlobalKw r1 with
           | some x => fin false x
           | none =>
             (match stripPrefix sConstantKw r1 with
              | some x => fin true x
              | none => none))
        | none => none)
     | none => none)
  | _ => none

/-- the lines of a function definition: up to and including the line `}` -/
def splitAtClose : List Bytes → Option (List Bytes × List Bytes)
  | [] => none
  | l :: rest =>
    if l == [125] then some ([l], rest)
    else match splitAtClose rest with
      | some (a, b) => some (l :: a, b)
      | none => none

structure Top where
  lines : List Core2.Line
  funcs : List Core3.Func
  md : List Bytes

def sDefine : Bytes := [100, 101, 102, 105, 110, 101, 32]

/-- classify the top-level entities of the text -/
def readTop : Nat → List Bytes → Option Top
  | 0, _ => none
  | _ + 1, [] => some ⟨[], [], []⟩
  | f + 1, l :: rest =>
    match l with
    | [] => readTop f rest
    | 33 :: _ => (readTop f rest).map fun t => { t with md := l :: t.md }
    | 100 :: _ =>
      if (stripPrefix Core3.sDeclare l).isSome then
        (match Core3.readFunc [l], readTop f rest with
         | some fn, some t => some { t with funcs := fn :: t.funcs }
         | _, _ => none)
      else
      (match splitAtClose (l :: rest) with
       | some (fl, rest') =>
         (match Core3.readFunc fl, readTop f rest' with
          | some fn, some t => some { t with funcs := fn :: t.funcs }
          | _, _ => none)
       | none => none)
    | _ =>
      (match readEntityLine l, readTop f rest with
       | some e, some t => some { t with lines := e :: t.lines }
       | _, _ => none)

/-! ### translation -/

def mapM' {α β : Type} (f : α → Option β) : List α → Option (List β)
  | [] => some []
  | a :: as => match f a, mapM' f as with
    | some b, some bs => some (b :: bs)
    | _, _ => none

def argNames : Core3.Arg → List Bytes
  | .ty t => Core2.tyNames t
  | .tyval t (.const c) => Core2.tyNames t ++ Core2.constNames c
  | .tyval t _ => Core2.tyNames t
  | .val (.const c) => Core2.constNames c
  | .retv (some (t, .const c)) => Core2.tyNames t ++ Core2.constNames c
  | .retv (some (t, _)) => Core2.tyNames t
  | .phis incs => incs.flatMap fun p => match p.1 with | .const c => Core2.constNames c | _ => []
  | .tyvals ixs => ixs.flatMap fun p => Core2.tyNames p.1 ++ (match p.2 with | .const c => Core2.constNames c | _ => [])
  | _ => []

def extNames : Core3.Ext → List Bytes
  | .cases cs => cs.flatMap fun c => Core2.tyNames c.1 ++ Core2.constNames c.2.1
  | .clauses _ cs => cs.flatMap fun c => Core2.tyNames c.2.1 ++ (match c.2.2 with | .const k => Core2.constNames k | _ => [])
  | _ => []

/-- the named types a function definition mentions -/
def funcNames (f : Core3.Func) : List Bytes :=
  Core2.tyNames f.ret ++ f.params.flatMap (fun p => Core2.tyNames p.1) ++
    f.blocks.flatMap fun b => (Core3.instsOf b).flatMap fun i =>
      i.args.flatMap argNames ++ extNames i.ext

def lineName : Core2.Line → Option Bytes
  | .typedef tok _ => Core2.decodeTypedefName tok
  | _ => none

def isOpaqueLine : Core2.Line → Bool
  | .typedef _ body => body == Core2.sOpaque
  | _ => false

/-- asm/module.go indexTopLevelEntities: a type may be defined again as long as its latest definition is `opaque`; the new definition replaces it
    (`kept`: the definitions accepted so far, in order) -/
def mergeTypedefs : List Core2.Line → List Core2.Line → Option (List Core2.Line)
  | kept, [] => some kept
  | kept, l :: rest =>
    match lineName l with
    | none => mergeTypedefs (kept ++ [l]) rest
    | some nm =>
      match kept.find? (fun k => lineName k == some nm) with
      | none => mergeTypedefs (kept ++ [l]) rest
      | some k =>
        if isOpaqueLine k then mergeTypedefs (kept.filter (fun k => !(lineName k == some nm)) ++ [l]) rest
        else none

/-- the global variables and functions a function body may refer to, with the type of the reference (ir/global.go Type: pointer to the content type) -/
def genvOf (globals : List Core2.Global) (funcs : List Core3.Func) : Core3.GEnv :=
  globals.map (fun g => (g.name, Ty.ptr g.ty 0)) ++ funcs.map (fun f => (f.name, Core3.funcRefTy f))

def translate (t : Top) : Option Module :=
  match (mergeTypedefs [] t.lines).bind Core2.translateTok with
  | none => none
  | some c2 =>
  match mapM' (Core3.translateIn (genvOf c2.globals t.funcs)) t.funcs, Meta.readLines t.md with
  | some fs, some raws =>
    (match Meta.translate raws with
     | .ok md =>
       if Core2.hasDup (c2.globals.map (·.name) ++ fs.map (·.name)) then none
       -- (the keywords of a global variable: one of each family, in the order of the grammar)
       else if !gleadsOK c2.globals then none
       else if (t.funcs.flatMap funcNames).all (fun n => (c2.typedefs.map (·.name)).contains n) &&
          -- every metadata attachment of an instruction names a definition of the metadata section (asm/metadata.go irMetadataAttachment)
          (fs.flatMap Core3.mdUses).all (fun k => (md.defs.map (·.id)).contains k) then some ⟨c2.typedefs, c2.globals, fs, md⟩
       else none
     | .error => none)
  | _, _ => none

def parse (ls : List Bytes) : Option Module := (readTop (ls.length + 1) ls).bind translate

/-! ### the fragment (hypotheses of the round-trip theorem are stated in LlirProofs/WholeMain.lean; the decidable parts are here) -/

def crossOK (m : Module) : Bool :=
  !Core2.hasDup (m.globals.map (·.name) ++ m.funcs.map (·.name)) &&
  (m.funcs.flatMap funcNames).all (fun n => (m.typedefs.map (·.name)).contains n) &&
  (m.funcs.flatMap Core3.mdUses).all (fun k => (m.md.defs.map (·.id)).contains k)

end Llir.Whole
