import LlirModel.Meta
/-! M-Whole: a whole module at byte level — the four fragments in one text. Identified-struct type definitions and global variables (M-Core-2),
    function definitions (M-Core-3) and the metadata section (M-Meta), printed as `Module.String()` prints them (ir/module.go WriteTo: type
    definitions, global variables, functions — separated from each other by an empty line —, named metadata, metadata definitions; groups
    separated by an empty line) and read back: the top-level splitter below stands in for the external grammar's `TopLevelEntity*`
    (a function definition extends to the line `}`), the fragments are translated by their own models, and asm/module.go's cross-fragment
    checks are added: a global variable and a function, or two functions, of one name are an error (`indexTopLevelEntities`), and a named type used
    by a function must be defined (`irType`). -/
namespace Llir.Whole
open Llir Llir.Types

structure Module where
  typedefs : List Core2.TypeDef
  globals : List Core2.Global
  funcs : List Core3.Func
  md : Meta.Sec
  deriving Inhabited

/-! ### the optional keywords of a global variable (`@g = internal dso_local hidden dllexport thread_local(initialexec) unnamed_addr externally_initialized constant T V`) -/

/-- the thread-local models (ir/helper.go tlsModelString): generic, initialexec, localdynamic, localexec -/
def kTLS : List Bytes := [[116, 104, 114, 101, 97, 100, 95, 108, 111, 99, 97, 108],
  [116, 104, 114, 101, 97, 100, 95, 108, 111, 99, 97, 108, 40, 105, 110, 105, 116, 105, 97, 108, 101, 120, 101, 99, 41],
  [116, 104, 114, 101, 97, 100, 95, 108, 111, 99, 97, 108, 40, 108, 111, 99, 97, 108, 100, 121, 110, 97, 109, 105, 99, 41],
  [116, 104, 114, 101, 97, 100, 95, 108, 111, 99, 97, 108, 40, 108, 111, 99, 97, 108, 101, 120, 101, 99, 41]]
def kExtInit : List Bytes := [[101, 120, 116, 101, 114, 110, 97, 108, 108, 121, 95, 105, 110, 105, 116, 105, 97, 108, 105, 122, 101, 100]]

/-- linkage of a DEFINITION (the nine keywords that are not `external` / `extern_weak`: a global variable of the fragment has an initializer), preemption, visibility,
    DLL storage class, thread-local model, unnamed_addr, externally_initialized — in the order of the grammar and of the printer (ir/global.go LLString) -/
def kGLead : List Bytes := Core3.kLinkage.take 9 ++ Core3.kPreemption ++ Core3.kVisibility ++ Core3.kDLL ++ kTLS ++ Core3.kUnnamed ++ kExtInit

/-- the family of a position of `kGLead` -/
def gleadFamily (i : Nat) : Nat :=
  if i < 9 then 0 else if i < 11 then 1 else if i < 14 then 2 else if i < 16 then 3 else if i < 20 then 4 else if i < 22 then 5 else 6

/-- at most one keyword of each family, the families in the order of the grammar (a repeated or misplaced keyword is a syntax error) -/
def gleadOK (xs : List Nat) : Bool := xs.all (fun i => decide (i < kGLead.length)) && Core3.strictAsc (xs.map gleadFamily)

def gleadsOK (gs : List Core2.Global) : Bool := gs.all fun g => gleadOK g.lead

def sEqSp : Bytes := [32, 61, 32]                                         -- " = "
def sGlobalKw : Bytes := [103, 108, 111, 98, 97, 108, 32]                 -- "global "
def sConstantKw : Bytes := [99, 111, 110, 115, 116, 97, 110, 116, 32]     -- "constant "

/-! ### printing -/

def typedefLine (d : Core2.TypeDef) : Bytes := Enc.typeName d.name ++ Core2.sType ++ Core2.bodyString d.body

def globalLine (useHex : Int → Bool) (g : Core2.Global) : Bytes :=
  Enc.globalName g.name ++ sEqSp ++ Core3.flagsString kGLead g.lead ++ (if g.isConst then sConstantKw else sGlobalKw) ++ tyString g.ty ++ [32] ++ Core2.constIdent useHex g.ty g.init

/-- function definitions are separated by an empty line -/
def funcsLines (useHex : Int → Bool) : List Core3.Func → List Bytes
  | [] => []
  | [f] => Core3.printFunc useHex f
  | f :: g :: r => Core3.printFunc useHex f ++ [[]] ++ funcsLines useHex (g :: r)

/-- non-empty groups of lines, separated by an empty line -/
def joinGroups : List (List Bytes) → List Bytes
  | [] => []
  | g :: gs =>
    if g.isEmpty then joinGroups gs
    else match joinGroups gs with
      | [] => g
      | r => g ++ [[]] ++ r

def printModule (useHex : Int → Bool) (m : Module) : List Bytes :=
  joinGroups [m.typedefs.map typedefLine, m.globals.map (globalLine useHex), funcsLines useHex m.funcs, Meta.printSec useHex m.md]

/-! ### the top-level splitter -/

def stripPrefix := @TyParse.stripPrefix

/-- `%name = type body` / `@name = global|constant T V` as the token and the text the fragment readers take -/
def readEntityLine (s : Bytes) : Option Core2.Line :=
  match s with
  | 37 :: r =>
    (match Core3.takeBody r with
     | some (tok, rest) =>
       (match stripPrefix Core2.sType rest with
        | some body => some (.typedef (37 :: tok) body)
        | none => none)
     | none => none)
  | 64 :: r =>
    (match Core3.takeBody r with
     | some (tok, rest) =>
       (match stripPrefix sEqSp rest with
        | some r0 =>
          let (lead, r1) := Core3.readFlags (r0.length + 1) kGLead r0
          (match stripPrefix sGlobalKw r1 with
           | some x => some (.global (64 :: tok) false x lead)
           | none =>
             (match stripPrefix sConstantKw r1 with
              | some x => some (.global (64 :: tok) true x lead)
              | none => none))
        | none => none)
     | none => none)
  | _ => none

/-- the lines of a function definition: up to and including the line `}` -/
def splitAtClose : List Bytes → Option (List Bytes × List Bytes)
  | [] => none
  | l :: rest =>
    if l == [125] then some ([l], rest)
    else match splitAtClose rest with
      | some (a, b) => some (l :: a, b)
      | none => none

structure Top where
  lines : List Core2.Line
  funcs : List Core3.Func
  md : List Bytes

def sDefine : Bytes := [100, 101, 102, 105, 110, 101, 32]

/-- classify the top-level entities of the text -/
def readTop : Nat → List Bytes → Option Top
  | 0, _ => none
  | _ + 1, [] => some ⟨[], [], []⟩
  | f + 1, l :: rest =>
    match l with
    | [] => readTop f rest
    | 33 :: _ => (readTop f rest).map fun t => { t with md := l :: t.md }
    | 100 :: _ =>
      if (stripPrefix Core3.sDeclare l).isSome then
        (match Core3.readFunc [l], readTop f rest with
         | some fn, some t => some { t with funcs := fn :: t.funcs }
         | _, _ => none)
      else
      (match splitAtClose (l :: rest) with
       | some (fl, rest') =>
         (match Core3.readFunc fl, readTop f rest' with
          | some fn, some t => some { t with funcs := fn :: t.funcs }
          | _, _ => none)
       | none => none)
    | _ =>
      (match readEntityLine l, readTop f rest with
       | some e, some t => some { t with lines := e :: t.lines }
       | _, _ => none)

/-! ### translation -/

def mapM' {α β : Type} (f : α → Option β) : List α → Option (List β)
  | [] => some []
  | a :: as => match f a, mapM' f as with
    | some b, some bs => some (b :: bs)
    | _, _ => none

def argNames : Core3.Arg → List Bytes
  | .ty t => Core2.tyNames t
  | .tyval t (.const c) => Core2.tyNames t ++ Core2.constNames c
  | .tyval t _ => Core2.tyNames t
  | .val (.const c) => Core2.constNames c
  | .retv (some (t, .const c)) => Core2.tyNames t ++ Core2.constNames c
  | .retv (some (t, _)) => Core2.tyNames t
  | .phis incs => incs.flatMap fun p => match p.1 with | .const c => Core2.constNames c | _ => []
  | .tyvals ixs => ixs.flatMap fun p => Core2.tyNames p.1 ++ (match p.2 with | .const c => Core2.constNames c | _ => [])
  | _ => []

def extNames : Core3.Ext → List Bytes
  | .cases cs => cs.flatMap fun c => Core2.tyNames c.1 ++ Core2.constNames c.2.1
  | .clauses _ cs => cs.flatMap fun c => Core2.tyNames c.2.1 ++ (match c.2.2 with | .const k => Core2.constNames k | _ => [])
  | _ => []

/-- the named types a function definition mentions -/
def funcNames (f : Core3.Func) : List Bytes :=
  Core2.tyNames f.ret ++ f.params.flatMap (fun p => Core2.tyNames p.1) ++
    f.blocks.flatMap fun b => (Core3.instsOf b).flatMap fun i =>
      i.args.flatMap argNames ++ extNames i.ext

def lineName : Core2.Line → Option Bytes
  | .typedef tok _ => Core2.decodeTypedefName tok
  | _ => none

def isOpaqueLine : Core2.Line → Bool
  | .typedef _ body => body == Core2.sOpaque
  | _ => false

/-- asm/module.go indexTopLevelEntities: a type may be defined again as long as its latest definition is `opaque`; the new definition replaces it
    (`kept`: the definitions accepted so far, in order) -/
def mergeTypedefs : List Core2.Line → List Core2.Line → Option (List Core2.Line)
  | kept, [] => some kept
  | kept, l :: rest =>
    match lineName l with
    | none => mergeTypedefs (kept ++ [l]) rest
    | some nm =>
      match kept.find? (fun k => lineName k == some nm) with
      | none => mergeTypedefs (kept ++ [l]) rest
      | some k =>
        if isOpaqueLine k then mergeTypedefs (kept.filter (fun k => !(lineName k == some nm)) ++ [l]) rest
        else none

/-- the global variables and functions a function body may refer to, with the type of the reference (ir/global.go Type: pointer to the content type) -/
def genvOf (globals : List Core2.Global) (funcs : List Core3.Func) : Core3.GEnv :=
  globals.map (fun g => (g.name, Ty.ptr g.ty 0)) ++ funcs.map (fun f => (f.name, Core3.funcRefTy f))

def translate (t : Top) : Option Module :=
  match (mergeTypedefs [] t.lines).bind Core2.translateTok with
  | none => none
  | some c2 =>
  match mapM' (Core3.translateIn (genvOf c2.globals t.funcs)) t.funcs, Meta.readLines t.md with
  | some fs, some raws =>
    (match Meta.translate raws with
     | .ok md =>
       if Core2.hasDup (c2.globals.map (·.name) ++ fs.map (·.name)) then none
       -- (the keywords of a global variable: one of each family, in the order of the grammar)
       else if !gleadsOK c2.globals then none
       else if (t.funcs.flatMap funcNames).all (fun n => (c2.typedefs.map (·.name)).contains n) &&
          -- every metadata attachment of an instruction names a definition of the metadata section (asm/metadata.go irMetadataAttachment)
          (fs.flatMap Core3.mdUses).all (fun k => (md.defs.map (·.id)).contains k) then some ⟨c2.typedefs, c2.globals, fs, md⟩
       else none
     | .error => none)
  | _, _ => none

def parse (ls : List Bytes) : Option Module := (readTop (ls.length + 1) ls).bind translate

/-! ### the fragment (hypotheses of the round-trip theorem are stated in LlirProofs/WholeMain.lean; the decidable parts are here) -/

def crossOK (m : Module) : Bool :=
  !Core2.hasDup (m.globals.map (·.name) ++ m.funcs.map (·.name)) &&
  (m.funcs.flatMap funcNames).all (fun n => (m.typedefs.map (·.name)).contains n) &&
  (m.funcs.flatMap Core3.mdUses).all (fun k => (m.md.defs.map (·.id)).contains k)

end Llir.Whole
