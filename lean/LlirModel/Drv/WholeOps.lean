import LlirModel.Whole
import LlirModel.Drv.MetaOps
/-! Line-protocol descriptors of M-Whole modules:
    `whole.print <typedefs> <globals> <named md> <md defs> <n> (<ret> <hexname> <params> <blocks>)*n`  (M-Core-2, M-Meta and M-Core-3 descriptors) -/
namespace Llir.Drv
open Llir Llir.Types Llir.Whole

def chunks4 : List String → Option (List (String × String × String × String))
  | [] => some []
  | a :: b :: c :: d :: r => (chunks4 r).map fun l => (a, b, c, d) :: l
  | _ => none

def parseWholeD (a : List String) : Option Module :=
  match a with
  | ts :: gs :: ns :: ds :: n :: rest =>
    (match parseMod2 ts gs, parseSecD ns ds, chunks4 rest with
     | some m2, some md, some fl =>
       if n.toNat? != some fl.length then none else
       (fl.mapM fun (rt, nm, ps, bs) => parseFuncD rt nm ps bs).map fun fs => ⟨m2.typedefs, m2.globals, fs, md⟩
     | _, _, _ => none)
  | _ => none

def wholeText (m : Module) : Bytes :=
  match printModule IntLit.hexChoice m with
  | [] => []
  | ls => Core3.flatten ls ++ [10]

def wholeOps (op : String) (a : List String) : Option String :=
  match op, a with
  | "whole.print", a => (parseWholeD a).map fun m => outHex (wholeText m)
  | "whole.rt", _ => some "ok"
  | "whole.parse", [x] =>
      let ls := splitLines (argHex x)
      some (if textRisky ls || headerRisky ls then "skip" else match readTop (ls.length + 1) ls with
        | none => "error"
        | some t =>
          let ge := match (mergeTypedefs [] t.lines).bind Core2.translateTok with
            | some c2 => genvOf c2.globals t.funcs
            | none => []
          if t.funcs.any (riskyIn ge) then "skip" else
          match Whole.translate t with
          | none => "error"
          | some m => "ok " ++ outHex (wholeText m))
  | _, _ => none

end Llir.Drv
