import LlirModel.Flags
import LlirModel.Drv.Util
namespace Llir.Drv
open Llir Llir.Flags Llir.Generated

def strHex (s : String) : String := outHex s.toUTF8.toList

/-- the oracle's verdict predicted by the model: the flag set round-trips iff OR of the printed members is the set -/
def flagsRt (ty : String) (v : Nat) : String :=
  let ok := match ty with
    | "disp" => v == 0 || (parseDisp v == v && !((dispFlagsString v).contains '('))
    | "di" => v == 0 || (parseDI v == v && !((diFlagsString v).contains '('))
    | "alloc" => parseAlloc v == v && !((allocKindString v).contains '(')
    | _ => false
  if ok then "ok" else "FAIL:undefined-flag-bits"

def enumOps (op : String) (a : List String) : Option String :=
  match op, a with
  | "flags.disp", [n] => let v := n.toNat!; some (strHex (if v == 0 then "<absent>" else dispFlagsString v))
  | "flags.di", [n] => let v := n.toNat!; some (strHex (if v == 0 then "<absent>" else diFlagsString v))
  | "flags.alloc", [n] => some (strHex (allocKindString n.toNat!))
  | "kw.floathist", [_, _] => some "ok"
  | "flags.rt", [ty, n] => some (flagsRt ty n.toNat!)
  | _, _ => none
end Llir.Drv
