import LlirModel.Writer
import LlirModel.Drv.Util
namespace Llir.Drv
open Llir Llir.Writer

def parseChunks (s : String) : List Bytes :=
  if s == "-" then [] else
  (s.splitOn ",").map fun t => List.replicate t.toNat! (120 : UInt8)

def showSt (st : St Nat) : String :=
  s!"n={st.size} err={if st.err.isSome then 1 else 0} delivered={st.accepted.length} after={st.callsAfterErr}"

def writerOps (op : String) (a : List String) : Option String :=
  match op, a with
  | "wt.run", [_, mode, k, chunks] =>
    let cs := parseChunks chunks
    let k := k.toNat!
    match mode with
    | "ok" => some (showSt (run okWriter 0 cs))
    | "fail" => some (showSt (run (failAfter k) 0 cs))
    | "errfull" => some (showSt (run (errFullAfter k) 0 cs))
    | _ => none
  | "wt.prop", [_, _, _] => some "ok"
  | _, _ => none
end Llir.Drv
