import LlirModel.DI
import LlirModel.Generated.DITable
import LlirModel.Drv.Core2Ops
/-! Line-protocol descriptors of M-DI nodes (the table is the regenerated one).
    `di.print <kind index> <0|1: distinct> <fields>`;  fields: `-` or `<field index>=<value>` joined by `;`;
    value: `i<decimal>` | `s<hex>` | `b0` / `b1` | `w<hex>` (a word: enum keyword, flag set, reference)
    `di.parse <hex text of one node> <hex text of the definitions it refers to>` (the second argument is for the real parser only) -/
namespace Llir.Drv
open Llir Llir.DI

def parseDIVal (s : String) : Option FVal :=
  match s.toList with
  | 'i' :: r => (String.ofList r).toInt?.map .int
  | 's' :: r => some (.str (argHex (String.ofList r)))
  | ['b', '0'] => some (.bool false)
  | ['b', '1'] => some (.bool true)
  | 'w' :: r => some (.word (argHex (String.ofList r)))
  | _ => none

def parseDIField (s : String) : Option (Nat × FVal) :=
  match s.splitOn "=" with
  | [i, v] => (match i.toNat?, parseDIVal v with | some i, some v => some (i, v) | _, _ => none)
  | _ => none

def parseDINode (k d fs : String) : Option Node :=
  let fields := if fs == "-" then some [] else (fs.splitOn ";").mapM parseDIField
  match k.toNat?, fields with
  | some k, some l => some ⟨k, d == "1", l⟩
  | _, _ => none

def diOps (op : String) (a : List String) : Option String :=
  match op, a with
  | "di.print", [k, d, fs] => (parseDINode k d fs).map fun n => outHex (printNode Generated.diTable n)
  | "di.wf", [k, d, fs] => (parseDINode k d fs).map fun n => toString (wf Generated.diTable n)
  | "di.rt", [_, _, _, _] => some "ok"
  | "di.kinds", [] => some (String.intercalate "," (Generated.diTable.map fun k => String.ofList (k.name.map fun b => Char.ofNat b.toNat)))
  | "di.parse", [x, _] =>
      some (match readNode Generated.diTable (argHex x) with
        | none => "error"
        | some n =>
          match translate Generated.diTable n with
          | none => "skip"
          | some m =>
            -- a kind with a printing condition of an unmodelled shape (DISubprogram: `isDefinition` is also printed when the node is not distinct) is
            -- compared on distinct nodes only
            if !m.distinct && ((Generated.diTable.getD m.kind default).fields.any fun f => f.cond == .other) then "skip"
            else "ok " ++ outHex (printNode Generated.diTable m))
  | _, _ => none

end Llir.Drv
