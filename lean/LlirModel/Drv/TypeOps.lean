import LlirModel.Types
import LlirModel.TyParse
import LlirModel.Drv.Util
/-! Compact type descriptors of the line protocol and the type ops. -/
namespace Llir.Drv
open Llir Llir.Types

def takeDigits : List Char → List Char × List Char
  | c :: r => if c.isDigit then let (d, rest) := takeDigits r; (c :: d, rest) else ([], c :: r)
  | [] => ([], [])

def takeHexName : List Char → List Char × List Char
  | c :: r => if c.isDigit || ('a' ≤ c && c ≤ 'f') || c == '-' then let (d, rest) := takeHexName r; (c :: d, rest) else ([], c :: r)
  | [] => ([], [])

def numOf (cs : List Char) : Nat := (String.ofList cs).toNat!

mutual
def parseTy : Nat → List Char → Option (Ty × List Char)
  | 0, _ => none
  | fuel+1, cs =>
    match cs with
    | 'v' :: r => some (.void, r)
    | 'm' :: r => some (.mmx, r)
    | 'l' :: r => some (.label, r)
    | 't' :: r => some (.token, r)
    | 'M' :: r => some (.metadata, r)
    | 'i' :: r => let (d, rest) := takeDigits r; some (.int (numOf d), rest)
    | 'f' :: r => let (d, rest) := takeDigits r; some (.float (numOf d), rest)
    | 'n' :: r => let (d, rest) := takeHexName r; some (.named (argHex (String.ofList d)), rest)
    | 'N' :: r =>
      -- a type under a name of its own: typing looks through the name
      let (_, rest) := takeHexName r
      (match rest with
       | '(' :: rest => match parseTy fuel rest with
         | some (t, ')' :: rest') => some (t, rest')
         | _ => none
       | _ => none)
    | 'p' :: r =>
      let (d, rest) := takeDigits r
      match rest with
      | '(' :: rest => match parseTy fuel rest with
        | some (e, ')' :: rest') => some (.ptr e (numOf d), rest')
        | _ => none
      | _ => none
    | 'V' :: r => parseWrap fuel r (fun n e => .vec false n e)
    | 'S' :: r => parseWrap fuel r (fun n e => .vec true n e)
    | 'a' :: r => parseWrap fuel r (fun n e => .arr n e)
    | 's' :: '(' :: r => match parseTys fuel r with
      | some (ts, rest) => some (.struct false ts, rest)
      | none => none
    | 'P' :: '(' :: r => match parseTys fuel r with
      | some (ts, rest) => some (.struct true ts, rest)
      | none => none
    | 'F' :: '(' :: r => parseFn fuel r false
    | 'G' :: '(' :: r => parseFn fuel r true
    | _ => none
def parseWrap : Nat → List Char → (Nat → Ty → Ty) → Option (Ty × List Char)
  | 0, _, _ => none
  | fuel+1, r, mk =>
    let (d, rest) := takeDigits r
    match rest with
    | '(' :: rest => match parseTy fuel rest with
      | some (e, ')' :: rest') => some (mk (numOf d) e, rest')
      | _ => none
    | _ => none
def parseFn : Nat → List Char → Bool → Option (Ty × List Char)
  | 0, _, _ => none
  | fuel+1, r, v =>
    match parseTy fuel r with
    | some (ret, ';' :: rest) => match parseTys fuel rest with
      | some (ts, rest') => some (.func ret ts v, rest')
      | none => none
    | _ => none
/-- comma separated list terminated by ')' -/
def parseTys : Nat → List Char → Option (TyList × List Char)
  | 0, _ => none
  | fuel+1, cs =>
    match cs with
    | ')' :: r => some (.nil, r)
    | _ => match parseTy fuel cs with
      | some (t, ',' :: rest) => match parseTys fuel rest with
        | some (ts, rest') => some (.cons t ts, rest')
        | none => none
      | some (t, ')' :: rest) => some (.cons t .nil, rest)
      | _ => none
end

def tyArg (s : String) : Option Ty :=
  match parseTy (s.length + 2) s.toList with
  | some (t, []) => some t
  | _ => none

def typeOps (op : String) (a : List String) : Option String :=
  match op, a with
  | "ty.string", [x] => (tyArg x).map fun t => outHex (tyString t)
  | "ty.equal", [x, y] => match tyArg x, tyArg y with
    | some t, some u => some (toString (equal t u))
    | _, _ => none
  | "ty.staged", [x, y] => match tyArg x, tyArg y with
    | some t, some u => some (toString (equal t u) ++ " " ++ toString (equal u t) ++ " " ++ outHex (tyString t))
    | _, _ => none
  | "ty.laws", [_, _, _] => some "ok"
  | "ty.inj", [_, _] => some "ok"
  | "ty.rt", [_] => some "ok"
  | "ty.parse", [x] => some (match TyParse.parse (argHex x) with | some t => outHex (tyString t) | none => "error")
  | _, _ => none

end Llir.Drv
