import LlirModel.History
import LlirModel.Drv.Util
namespace Llir.Drv
open Llir Llir.Numbering Llir.History

def parseHistOp (t : String) : Option Op :=
  if t == "p" then some .print
  else if t == "q" then some .query
  else if t.startsWith "i" then
    match ((t.drop 1).toString).splitOn ":" with
    | [p, "u"] => some (.insert p.toNat! false true)
    | [p, "n"] => some (.insert p.toNat! true true)
    | [p, _] => some (.insert p.toNat! false false)
    | _ => none
  else if t.startsWith "r" then some (.remove ((t.drop 1).toString.toNat!))
  else if t.startsWith "n" then
    match ((t.drop 1).toString).splitOn ":" with
    | [p, f] => some (.rename p.toNat! (f == "1"))
    | _ => none
  else none

def showOut : Out → String
  | .none => ""
  | .panic => "panic"
  | .text ids => "[" ++ ",".intercalate (ids.map fun o => match o with | none => "n" | some i => toString i) ++ "]"

/-- outputs of every print of the history, then of the final print -/
def histOutputs (ops : List Op) : List String :=
  let rec go (st : List Slot) (acc : List String) : List Op → List String
    | [] => acc ++ [showOut (step st .print).2]
    | op :: rest =>
      let (st', out) := step st op
      go st' (if op == .print then acc ++ [showOut out] else acc) rest
  go [] [] ops

def histOps (op : String) (a : List String) : Option String :=
  match op with
  | "hist.fobs" => some "ok"
  | "hist.twice" => some "ok"
  | "hist.qobs" => some "ok"       -- oracle on the implementation: non-print observers before an edit do not change the printed result
  | "md.replace" => some "ok"
  | "md.prepend" => some "ok"      -- oracle on the implementation (recorded finding: the IDs stored by a print survive a later edit of the list)      -- oracle on the implementation: metadata definitions replaced between prints are numbered and referred to by ID      -- oracle on the implementation: a constructed module prints the same text twice, and the text is accepted
  | "hist.run" => some ("|".intercalate (histOutputs (a.filterMap parseHistOp)))
  | "hist.obs" =>
    let ops := a.filterMap parseHistOp
    some (if finalPrint [] ops == finalPrint [] (erase ops) then "ok" else "FAIL:print-then-edit-renumbering")
  | _ => none
end Llir.Drv
