import LlirModel.Meta
import LlirModel.Drv.Core3Ops
/-! Line-protocol descriptors of M-Meta sections.
    `meta.print <named> <defs>`;  named: `-` or `<hexname>:<id>,<id>…` joined by `|`;  defs: `-` or `<id>:<d|n>:<fields>` joined by `|`;
    fields: `-` or field,field…;  field: `n` | `r<id>` | `s<hex>.` | `v<ty>=<const>` | `t(<fields>)` -/
namespace Llir.Drv
open Llir Llir.Types Llir.Core2 Llir.Meta

def takeDigs : List Char → List Char × List Char
  | c :: r => if c.isDigit then let (d, rest) := takeDigs r; (c :: d, rest) else ([], c :: r)
  | [] => ([], [])

def takeUntilDot : List Char → List Char × List Char
  | '.' :: r => ([], r)
  | c :: r => let (d, rest) := takeUntilDot r; (c :: d, rest)
  | [] => ([], [])

mutual
def parseFieldD : Nat → List Char → Option (Field × List Char)
  | 0, _ => none
  | f + 1, cs =>
    match cs with
    | 'n' :: r => some (.null, r)
    | 'r' :: r => let (d, rest) := takeDigs r; (String.ofList d).toNat?.map fun n => (.ref n, rest)
    | 's' :: r => let (h, rest) := takeUntilDot r; some (.str (argHex (String.ofList h)), rest)
    | 'v' :: r =>
      (match parseTy (r.length + 2) r with
       | some (t, '=' :: r1) => (parseConstD (r1.length + 2) r1).map fun (c, r2) => (.val t c, r2)
       | _ => none)
    | 't' :: '(' :: r =>
      (match parseFieldsD f r with
       | some (fs, ')' :: rest) => some (.tuple fs, rest)
       | _ => none)
    | _ => none
def parseFieldsD : Nat → List Char → Option (Fields × List Char)
  | 0, _ => none
  | f + 1, cs =>
    match cs with
    | [] => some (.nil, [])
    | ')' :: _ => some (.nil, cs)
    | '-' :: r => some (.nil, r)
    | _ =>
      (match parseFieldD f cs with
       | some (x, ',' :: r) => (parseFieldsD f r).map fun (xs, r') => (.cons x xs, r')
       | some (x, r) => some (.cons x .nil, r)
       | none => none)
end

def parseDefD (s : String) : Option Def :=
  match s.splitOn ":" with
  | [i, k, fs] =>
    (match i.toNat?, parseFieldsD (fs.length + 2) fs.toList with
     | some n, some (fl, []) => some ⟨n, k == "d", fl⟩
     | _, _ => none)
  | _ => none

def parseNamedD (s : String) : Option Named :=
  match s.splitOn ":" with
  | [n, ids] => (if ids == "" then some [] else (ids.splitOn ",").mapM (·.toNat?)).map fun l => ⟨argHex n, l⟩
  | _ => none

def parseSecD (ns ds : String) : Option Sec :=
  let nl := if ns == "-" then some [] else (ns.splitOn "|").mapM parseNamedD
  let dl := if ds == "-" then some [] else (ds.splitOn "|").mapM parseDefD
  match nl, dl with
  | some n, some d => some ⟨n, d⟩
  | _, _ => none

def secText (s : Sec) : Bytes :=
  match printSec IntLit.hexChoice s with
  | [] => []
  | ls => Core3.flatten ls ++ [10]

def metaOps (op : String) (a : List String) : Option String :=
  match op, a with
  | "meta.print", [ns, ds] => (parseSecD ns ds).map fun s => outHex (secText s)
  | "meta.rt", [_, _] => some "ok"
  | "meta.wf", [ns, ds] => (parseSecD ns ds).map fun s => toString (Meta.wf s)
  | "meta.parse", [x] =>
      some (match Meta.parse (splitLines (argHex x)) with
        | .error => "error"
        | .ok s => "ok " ++ outHex (secText s))
  | _, _ => none

end Llir.Drv
