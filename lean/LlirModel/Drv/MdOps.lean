import LlirModel.MetaIDs
import LlirModel.Drv.Util
namespace Llir.Drv
open Llir Llir.MetaIDs

def parseIds (s : String) : List Int := if s == "-" || s == "" then [] else (s.splitOn ",").map String.toInt!

def mdOps (op : String) (a : List String) : Option String :=
  match op, a with
  | "md.assign", [ids] => some (match assignMd (parseIds ids) with
      | .ok r => "ok " ++ ",".intercalate (r.map toString)
      | .error => "error")
  | "md.uniq", [ids] => some (match assignMd (parseIds ids) with | .ok _ => "ok" | .error => "FAIL:duplicate-explicit-ids")
  | "md.graph", _ => some "ok"
  | _, _ => none
end Llir.Drv
