import LlirModel.Bytes
namespace Llir.Drv
open Llir

def argHex (s : String) : Bytes := (fromHex s).getD []
def outHex (b : Bytes) : String := hexField b
def argInt (s : String) : Int := s.toInt?.getD 0

end Llir.Drv
