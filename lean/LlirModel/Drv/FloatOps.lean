import LlirModel.FloatLit
import LlirModel.Drv.Util
namespace Llir.Drv
open Llir Llir.FloatLit

def hexVal (s : String) : Nat := s.toList.foldl (fun acc c => acc * 16 + (match unhexNib c with | some v => v.toNat | none => 0)) 0

def hexUpper (n : Nat) : String :=
  String.ofList ((Nat.toDigits 16 n).map Char.toUpper)

def padHex (width n : Nat) : String :=
  let s := hexUpper n
  String.ofList (List.replicate (width - s.length) '0') ++ s

/-- what the printer shows in hexadecimal for the value read from the hex spelling, `skip` where the model does not apply -/
def fltCanon (kind hex : String) : String :=
  let b := hexVal hex
  match kind with
  | "double" => hexUpper (reprint 11 52 b)
  | "float" => if b % 2 ^ 29 != 0 then "skip" else hexUpper (reprint 11 52 b)
  | "half" => if b < 2 ^ 16 then padHex 4 (reprint 5 10 b) else "skip"
  | "fp128" => padHex 32 (reprint128Lit b)
  | "x86_fp80" =>
    let se := b / 2 ^ 64
    let m := b % 2 ^ 64
    -- every encoding, canonical or not (pseudo-denormals are printed normalised, unnormals / pseudo-infinities / pseudo-NaNs as the NaN of their sign)
    if se < 2 ^ 16 then
      let r := encode80 (decode80 se m)
      padHex 4 r.1 ++ padHex 16 r.2
    else "skip"
  | _ => "skip"

def fltRt (kind hex : String) : String :=
  let b := hexVal hex
  let nan := match kind with
    | "double" => isNaNBits 11 52 b
    | "float" => isNaNBits 11 52 b
    | "half" => isNaNBits 5 10 b
    | "fp128" => isNaNBits 15 112 (swapWords b)
    | "x86_fp80" => isNaN80 (b / 2 ^ 64) (b % 2 ^ 64)
    -- (a double-double is a NaN when one of its two doubles is; what is printed for it is the NaN of the float dependency with the sign of the high double)
    | "ppc_fp128" => isNaNBits 11 52 (b / 2 ^ 64) || isNaNBits 11 52 (b % 2 ^ 64)
    | _ => false
  if nan && fltCanon kind hex != (if kind == "double" || kind == "float" then hexUpper b else hex.toUpper) then "FAIL:nan-payload-lost" else "ok"

def floatOps (op : String) (a : List String) : Option String :=
  match op, a with
  | "flt.canon", [k, h] => some (fltCanon k h)
  | "flt.rt", [k, h] => some (fltRt k h)
  | "flt.dec", [_, _] => some "ok"
  | "flt.decround", [_, _] => some "ok"
  | "flt.spell16", [_, _, _] => some "ok"
  | "flt.short", [_, _] => some "ok"      -- oracle on the implementation: a short literal is its LLVM-split full spelling
  | _, _ => none
end Llir.Drv
