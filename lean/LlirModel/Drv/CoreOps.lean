import LlirModel.Core
import LlirModel.Drv.Util
namespace Llir.Drv
open Llir Llir.Core

def parseNames (s : String) : List Bytes := if s == "-" then [] else (s.splitOn ",").map fun h => argHex h
def parseGlobals (s : String) : List GlobalDef :=
  if s == "-" then [] else (s.splitOn ",").filterMap fun t =>
    match t.splitOn ":" with
    | [n, w, x] => some ⟨argHex n, w.toNat!, x.toInt!⟩
    | _ => none

def coreOps (op : String) (a : List String) : Option String :=
  match op, a with
  | "core.print", [ts, gs] =>
    let m : CoreMod := ⟨parseNames ts, parseGlobals gs⟩
    some (outHex (flatten (printTok IntLit.hexChoice m)))
  | "core.reparse", [ts, gs] =>
    let m : CoreMod := ⟨parseNames ts, parseGlobals gs⟩
    some (match translateTok (printTok IntLit.hexChoice m) with
      | some m' => outHex (flatten (printTok IntLit.hexChoice m'))
      | none => "error")
  | "core.rt", [_, _] => some "ok"
  | _, _ => none
end Llir.Drv
