import LlirModel.Numbering
import LlirModel.Drv.Util
namespace Llir.Drv
open Llir Llir.Numbering

def parseSlot (s : String) : Slot :=
  let parts := s.splitOn ":"
  let kind := parts.head!
  let counts := kind == "P" || kind == "B" || kind == "V" || kind == "CV" || kind == "I" || kind == "K" || kind == "CB"
  match parts.getD 1 "" with
  | "n" => ⟨true, 0, counts⟩
  | "i" => ⟨false, 0, counts⟩
  | m => if m.startsWith "e" then ⟨false, (m.drop 1).toString.toInt!, counts⟩ else ⟨false, 0, counts⟩

def parseSrcSlot (s : String) : SrcSlot :=
  let parts := s.splitOn ":"
  let kind := parts.head!
  let counts := kind == "P" || kind == "B" || kind == "V" || kind == "CV" || kind == "I" || kind == "K" || kind == "CB"
  match parts.getD 1 "" with
  | "n" => ⟨true, none, counts⟩
  | "i" => ⟨false, none, counts⟩
  | m => if m.startsWith "e" then ⟨false, some (m.drop 1).toString.toInt!, counts⟩ else ⟨false, none, counts⟩

def showSlots (l : List Slot) : String :=
  ",".intercalate ((l.filter (·.counts)).map fun s => if s.named then "n" else toString s.id)

def parseGEnt (s : String) : GEnt :=
  let parts := s.splitOn ":"
  let k := match parts.head! with | "G" => GKind.global | "A" => .alias | "I" => .ifunc | _ => .func
  ⟨k, parts.getD 1 "" == "n"⟩

/-- the harness adds a named global `@base` first and a named declaration `@resolver` last -/
def modEnts (a : List String) : List GEnt :=
  -- tokens `X:<kind>` are top-level entities of OTHER namespaces (attribute group, metadata, type, comdat definitions) written between the global
  -- entities: they take no part in the numbering of unnamed globals
  ⟨.global, true⟩ :: ((a.filter (fun t => !t.startsWith "X")).map parseGEnt ++ [⟨.func, true⟩])

def numOps (op : String) (a : List String) : Option String :=
  match op, a with
  | "num.api", ts => some (match assignIDs (ts.map parseSlot) with | .ok l => "ok " ++ showSlots l | .error => "error")
  | "num.parse", ts => some (match parseAssign (ts.map parseSrcSlot) with | .ok l => "ok " ++ showSlots l | .error => "error")
  | "num.check", _ => some "ok"
  | "num.mod", ts => some (match printParsed (modEnts ts) with | .ok l => "ok " ++ showSlots l | .error => "panic")
  | "num.modapi", ts => some (match printParsed (modEnts ts) with | .ok l => "ok " ++ showSlots l | .error => "panic")
  -- global entities with the identifier AS WRITTEN (`K:n` named, `K:q` the empty name `@""`, `K:e<k>` a written `@k`): the parser's verdict and numbering,
  -- then the print of the parsed module
  | "num.gsrc", ts =>
      let src : List SrcSlot := ⟨true, none, true⟩ :: ((ts.map fun t => match (t.splitOn ":").getD 1 "" with
        | "n" => (⟨true, none, true⟩ : SrcSlot)
        | "q" => ⟨false, none, true⟩
        | m => ⟨false, some (m.drop 1).toString.toInt!, true⟩) ++ [⟨true, none, true⟩])
      some (match indexGlobals src with
        | .error => "error"
        | .ok _ => (match printParsed (modEnts (ts.map fun t => (t.splitOn ":").head! ++ ":" ++ (if (t.splitOn ":").getD 1 "" == "n" then "n" else "u"))) with
                    | .ok l => "ok " ++ showSlots l
                    | .error => "panic"))
  | "num.apiok", ts => some (match printParsed (modEnts ts) with | .ok _ => "ok" | .error => "FAIL:unclassified")
  | "num.modok", ts => some (match printParsed (modEnts ts) with | .ok _ => "ok" | .error => "FAIL:unclassified")
  | _, _ => none
end Llir.Drv
