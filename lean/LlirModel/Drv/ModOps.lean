import LlirModel.Resolve
import LlirModel.Drv.Util
namespace Llir.Drv
open Llir Llir.Resolve

def nsOfLetter : String → Option NS
  | "T" => some .ty | "C" => some .comdat | "G" => some .global | "L" => some .alias | "I" => some .ifunc
  | "F" => some .func | "A" => some .attrgroup | "N" => some .namedmd | "M" => some .md | "U" => some .uselist
  | _ => none

def words (s : String) : List String := (s.splitOn " ").filter (· ≠ "")

def parseRef (s : String) : Option (NS × String) :=
  match s.splitOn "=" with
  | [l, k] => (nsOfLetter l).map fun n => (n, k)
  | _ => none

def parseEnt (s : String) : Option Ent :=
  match s.splitOn "|" with
  | l :: key :: rest =>
    match nsOfLetter l with
    | none => none
    | some ns =>
      let refsS := rest.getD 0 ""
      let isOp := refsS == "!opaque"
      let refs := if isOp then [] else (words refsS).filterMap parseRef
      let brefs := (words (rest.getD 3 "")).filterMap fun w => match w.splitOn ":" with | [f, l] => some (f, l) | _ => none
      some { ns := ns, key := key, isOpaque := isOp, refs := refs, ldefs := words (rest.getD 1 ""), lrefs := words (rest.getD 2 ""), brefs := brefs }
  | _ => none

def parseSkel (hex : String) : List Ent :=
  let s := bytesToString (argHex hex)
  ((s.splitOn ";").filter (· ≠ "")).filterMap parseEnt

def hexName (s : String) : String := outHex s.toUTF8.toList

/-- names of a global-entity list, unnamed ones numbered in the printer's group order -/
def globalLists (ents : List Ent) : String :=
  let groups := [NS.global, .alias, .ifunc, .func]
  let tags := ["G", "A", "I", "F"]
  let rec go (gs : List NS) (ts : List String) (next : Nat) (acc : String) : String :=
    match gs, ts with
    | g :: gs', t :: ts' =>
      let ks := keysOf ents g
      let (strs, next') := ks.foldl (fun (p : List String × Nat) k =>
        if k == "#" then (p.1 ++ [s!"#{p.2}"], p.2 + 1) else (p.1 ++ [hexName k], p.2)) ([], next)
      go gs' ts' next' (acc ++ s!" {t}=" ++ String.join (strs.map (· ++ ",")))
    | _, _ => acc
  go groups tags 0 ""

def listsOut (ents : List Ent) : String :=
  "T=" ++ String.join ((typeDefOrder ents).map (fun b => outHex b ++ ",")) ++
  " C=" ++ String.join ((comdatOrder ents).map (fun b => outHex b ++ ",")) ++
  globalLists ents ++
  " AG=" ++ String.join ((numericOrder ents .attrgroup).map (fun n => toString n ++ ",")) ++
  " MD=" ++ String.join ((numericOrder ents .md).map (fun n => toString n ++ ","))

/-- name-level resolution of the comdat and attribute-group references of global variables and functions: for the i-th entity of its kind (textual
    order) the comdat names and attribute-group IDs its definition mentions -/
def refsOut (ents : List Ent) : String :=
  let one (tag : String) (ns : NS) : List String :=
    ((ents.filter (·.ns == ns)).zipIdx).map fun (e, i) =>
      let cs := (e.refs.filter (·.1 == .comdat)).map (fun r => hexName r.2)
      let ags := (e.refs.filter (·.1 == .attrgroup)).map (·.2)
      s!"{tag}{i}:C=" ++ String.intercalate "," cs ++ ";A=" ++ String.intercalate "," ags
  String.intercalate " " (one "G" .global ++ one "F" .func)

def modOps (op : String) (a : List String) : Option String :=
  match op, a with
  | "mod.outcome", [sk, _] => let e := parseSkel sk; some (if (translate e e).isOk then "ok" else "error")
  | "mod.lists", [sk, _] => let e := parseSkel sk; some (if (translate e e).isOk then "ok " ++ listsOut e else "error")
  | "mod.refs", [sk, _] => let e := parseSkel sk; some (if (translate e e).isOk then "ok " ++ refsOut e else "error")
  | "mod.closure", [sk, _] => let e := parseSkel sk; some (if (translate e e).isOk then "ok" else "FAIL:model-rejects")
  | "mod.closure2", [_, _] => some "ok"
  | "mod.mustfail", ["-", _] => some "ok"       -- no skeleton: the property's oracle alone (vlib/refsites.py)
  | "mod.mustfail", [sk, _] => let e := parseSkel sk; some (if (translate e e).isOk then "FAIL:model-accepts" else "ok")
  | "mod.accept", [sk, _] => let e := parseSkel sk; some (if (translate e e).isOk then "ok" else "FAIL:model-rejects")
  | "conc.readonly", [_] => some "ok"
  | "mod.keeps", [_, _] => some "ok"
  | "mod.pollute", [_, _] => some "ok"
  | "mod.fix", [_, _] => some "ok"
  | "mod.stable", [_, _] => some "ok"
  | "mod.det", [_, _] => some "ok"
  | "mod.canon", [_, _, _] => some "ok"
  | _, _ => none
end Llir.Drv
