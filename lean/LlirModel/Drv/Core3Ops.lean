import LlirModel.Core3
import LlirModel.Drv.Core2Ops
/-! Line-protocol descriptors of M-Core-3 functions.
    `core3.print <ret ty> <hexname> <params> <blocks>`
    ident: `N<hex>` | `I<num>`;  params: `-` or `<ty>~<ident>` joined by `|`;  blocks joined by `/`, a block is `<ident>^<inst>^...^<term>`;
    inst: `<ident or _>:<row>:<args>` (switch, invoke, landingpad: `…:<args>:<continuation lines>`, see parseExtD; metadata attachments: `…:<args>:M<hexname>=<id>&…`) with args joined by `!` (or `-`): `T<ty>` | `P<ty>=<operand>` | `V<operand>` | `L<ident>` | `R` | `R<ty>=<operand>` | `H<operand>~<ident>&...` (phi incoming list) | `K<n>,<n>…` (index path) | `A` / `A<n>` (no / an alignment) | `F<i>,<i>…` (flag keywords by position in the row's list) | `W<i>` (the keyword of a `kw` slot by position: atomic ordering, atomicrmw operation) | `O` / `O<i>` (no / an optional keyword: the ordering of an atomic load / store) | `X<ident>` (a bare local value) | `Y` / `Y<ident>` (parent pad `none` / a local) | `B<ident>,<ident>…` (label list) | `U` / `U<ident>` (unwind to caller / to a label) | `G<ty>=<operand>&…` (typed index list);
    operand: `%<ident>` | `#<const descriptor>` | `@<hexname>` (a global variable or function of the module: M-Whole only) -/
namespace Llir.Drv
open Llir Llir.Types Llir.Core2 Llir.Core3

def parseIdentD (s : String) : Option Core3.Ident :=
  match s.toList with
  | 'N' :: r => some (.name (argHex (String.ofList r)))
  | 'I' :: r => (String.ofList r).toNat?.map .id
  | _ => none

def parseOperandD (s : String) : Option Operand :=
  match s.toList with
  | '%' :: r => (parseIdentD (String.ofList r)).map .loc
  | '#' :: r => (match parseConstD (r.length + 2) r with | some (c, []) => some (.const c) | _ => none)
  | '@' :: r => some (.glob (argHex (String.ofList r)))
  | _ => none

def parseTyOperand (s : String) : Option (Ty × Operand) :=
  let cs := s.toList
  match parseTy (cs.length + 2) cs with
  | some (t, '=' :: r) => (parseOperandD (String.ofList r)).map fun o => (t, o)
  | _ => none

def parseArgD (s : String) : Option Arg :=
  match s.toList with
  | 'T' :: r => (tyArg (String.ofList r)).map .ty
  | 'P' :: r => (parseTyOperand (String.ofList r)).map fun p => .tyval p.1 p.2
  | 'V' :: r => (parseOperandD (String.ofList r)).map .val
  | 'L' :: r => (parseIdentD (String.ofList r)).map .lab
  | ['R'] => some (.retv none)
  | 'R' :: r => (parseTyOperand (String.ofList r)).map fun p => .retv (some p)
  | 'K' :: r => (if r.isEmpty then some [] else ((String.ofList r).splitOn ",").mapM (·.toNat?)).map .nums
  | ['G'] => some (.tyvals [])
  | 'G' :: r => ((String.ofList r).splitOn "&").mapM (fun (it : String) => parseTyOperand it) |>.map .tyvals
  | ['F'] => some (.flags [])
  | 'F' :: r => ((String.ofList r).splitOn ",").mapM (fun (x : String) => x.toNat?) |>.map .flags
  | 'X' :: r => (parseIdentD (String.ofList r)).map .loc
  | ['Y'] => some (.pad none)
  | 'Y' :: r => (parseIdentD (String.ofList r)).map fun i => .pad (some i)
  | ['B'] => some (.labs [])
  | 'B' :: r => ((String.ofList r).splitOn ",").mapM (fun (x : String) => parseIdentD x) |>.map .labs
  | ['U'] => some (.unwind none)
  | 'U' :: r => (parseIdentD (String.ofList r)).map fun i => .unwind (some i)
  | 'W' :: r => (String.ofList r).toNat?.map .kw
  | ['O'] => some (.okw none)
  | 'O' :: r => (String.ofList r).toNat?.map fun n => .okw (some n)
  | ['A'] => some (.align none)
  | 'A' :: r => (String.ofList r).toNat?.map fun n => .align (some n)
  | 'H' :: r =>
    ((String.ofList r).splitOn "&").mapM (fun (it : String) =>
      match it.splitOn "~" with
      | [o, b] => (match parseOperandD o, parseIdentD b with | some o, some b => some (o, b) | _, _ => none)
      | _ => none) |>.map .phis
  | _ => none

def parseCaseD (s : String) : Option (Ty × Const × Core3.Ident) :=
  match s.splitOn "~" with
  | [tv, b] =>
    (match parseTyOperand tv, parseIdentD b with
     | some (t, .const c), some b => some (t, c, b)
     | _, _ => none)
  | _ => none

def parseClauseD (s : String) : Option (Bool × Ty × Operand) :=
  match s.toList with
  | 'c' :: r => (parseTyOperand (String.ofList r)).map fun p => (false, p.1, p.2)
  | 'f' :: r => (parseTyOperand (String.ofList r)).map fun p => (true, p.1, p.2)
  | _ => none

/-- the continuation lines: `S-` / `S<ty>=#<const>~<ident>&…` (cases of a switch), `D<ident>~<ident>` (normal and unwind destination of an invoke),
    `C<0|1>` / `C<0|1>&c<ty>=<operand>&f<ty>=<operand>…` (cleanup flag and catch / filter clauses of a landingpad) -/
def parseExtD (s : String) : Option Ext :=
  match s.toList with
  | ['S', '-'] => some (.cases [])
  | 'S' :: r => ((String.ofList r).splitOn "&").mapM parseCaseD |>.map .cases
  | 'D' :: r =>
    (match (String.ofList r).splitOn "~" with
     | [n, u] => (match parseIdentD n, parseIdentD u with | some n, some u => some (.dests n u) | _, _ => none)
     | _ => none)
  | 'C' :: c :: r =>
    let cl := c == '1'
    (match r with
     | [] => some (.clauses cl [])
     | '&' :: r' => ((String.ofList r').splitOn "&").mapM parseClauseD |>.map (.clauses cl)
     | _ => none)
  | _ => none

/-- the attachments: `M<hexname>=<id>&<hexname>=<id>…` -/
def parseMdD (s : String) : Option (List (Bytes × Nat)) :=
  match s.toList with
  | 'M' :: r => ((String.ofList r).splitOn "&").mapM fun (it : String) =>
      match it.splitOn "=" with
      | [n, k] => k.toNat?.map fun k => (argHex n, k)
      | _ => none
  | _ => none

def parseInstD (s : String) : Option Inst :=
  let go (r k as : String) (x : Option Ext) (md : Option (List (Bytes × Nat))) : Option Inst :=
    let res := if r == "_" then some none else (parseIdentD r).map some
    let args := if as == "-" then some [] else (as.splitOn "!").mapM parseArgD
    match res, k.toNat?, args, x, md with
    | some res, some k, some args, some x, some md => some ⟨res, k, args, x, md⟩
    | _, _, _, _, _ => none
  match s.splitOn ":" with
  | [r, k, as] => go r k as (some .none) (some [])
  | [r, k, as, x] => if x.startsWith "M" then go r k as (some .none) (parseMdD x) else go r k as (parseExtD x) (some [])
  | [r, k, as, x, m] => go r k as (parseExtD x) (parseMdD m)
  | _ => none

def parseBlockD (s : String) : Option Block :=
  match s.splitOn "^" with
  | lab :: rest =>
    (match parseIdentD lab, rest.mapM parseInstD with
     | some l, some is => (match is.getLast? with | some t => some ⟨l, is.dropLast, t⟩ | none => none)
     | _, _ => none)
  | _ => none

/-- `<ty>~<ident>[~<i>,<i>…]`: a parameter with the positions of its attributes in `kParamAttr` -/
def parseParamD (s : String) : Option ((Ty × Core3.Ident) × List Nat) :=
  match s.splitOn "~" with
  | [t, i] => (match tyArg t, parseIdentD i with | some t, some i => some ((t, i), []) | _, _ => none)
  | [t, i, a] => (match tyArg t, parseIdentD i with | some t, some i => some ((t, i), (a.splitOn ",").filterMap String.toNat?) | _, _ => none)
  | _ => none

def parseFuncD (rt nm ps bs : String) : Option Func :=
  -- a trailing `|...` (or `...` alone) in the parameter field marks a variadic function
  let variadic := ps == "..." || ps.endsWith "|..."
  let ps := if ps == "..." then "-" else if ps.endsWith "|..." then (ps.dropEnd 4).toString else ps
  let params := if ps == "-" then some [] else (ps.splitOn "|").mapM parseParamD
  let blocks := if bs == "-" then some [] else (bs.splitOn "/").mapM parseBlockD
  -- the name field may carry the header keywords and the clauses behind the parameter list: `<hexname>~<i>,<i>…~<clauses>` (positions in `kLead`, in the order
  -- written; clauses `u<i>`, `a<n>` (addrspace), `k<i>,<i>…` (attributes), `s<hex>` (section), `p<hex>` (partition), `l<n>` (align), `g<hex>` (gc), joined by `;`)
  let parts := nm.splitOn "~"
  let nmHex := parts.headD ""
  let lead := ((parts.getD 1 "").splitOn ",").filterMap String.toNat?
  let tail : HTail := ((parts.getD 2 "").splitOn ";").foldl (fun t c =>
    match c.toList with
    | 'u' :: r => { t with unnamed := (String.ofList r).toNat? }
    | 'a' :: r => { t with addrspace := ((String.ofList r).toNat?).getD 0 }
    | 'k' :: r => { t with attrs := ((String.ofList r).splitOn ",").filterMap String.toNat? }
    | 's' :: r => { t with sect := argHex (String.ofList r) }
    | 'p' :: r => { t with partition := argHex (String.ofList r) }
    | 'l' :: r => { t with align := ((String.ofList r).toNat?).getD 0 }
    | 'g' :: r => { t with gc := argHex (String.ofList r) }
    | _ => t) {}
  match tyArg rt, params, blocks with
  | some rt, some ps, some bs => some ⟨rt, argHex nmHex, ps.map (·.1), bs, lead, tail, ps.map (·.2), variadic⟩
  | _, _, _ => none

def splitLines (s : Bytes) : List Bytes :=
  let rec go (cur : Bytes) : Bytes → List Bytes
    | [] => [cur.reverse]
    | 10 :: r => cur.reverse :: go [] r
    | c :: r => go (c :: cur) r
  go [] s

/-- inputs on which the model is NOT compared with the real parser: the written type of a first operand is not the type of its definition AND the
    instruction has a CONSTANT operand of "the same" type (the real parser re-reads that constant at the resolved type: `xor i1 %a, true` with `%a : i33`
    is an error, `xor i1 %a, 1` becomes `xor i33 %a, 1`; the model keeps the constant as read at the written type), or the condition of a conditional
    branch is a local that is not an `i1` (the printer spells the condition's own type). No printed function is of this kind (`wf` excludes them). -/
def riskyIn (ge : GEnv) (f : Func) : Bool :=
  let e := env f
  f.blocks.any fun b => (instsOf b).any fun i =>
    -- a global operand written at a type other than the type of the reference, in an instruction whose result type is computed from its operands
    let badGlob := (i.args.any fun a => match a with
      | .tyval t (.glob n) => (match lookupG ge n with | some t' => !Types.equal t' t | none => false)
      | .tyvals ixs => ixs.any fun p => match p.2 with
          | .glob n => (match lookupG ge n with | some t' => !Types.equal t' p.1 | none => false)
          | _ => false
      | _ => false) &&
      (match rows[i.row]? with | some r => r.hasRes && (match r.res with | .lastTy | .loadTy | .none => false | _ => true) | none => false)
    let badTyval := i.args.any fun a => match a with
      | .tyval t (.loc x) => (match lookup e x with | some t' => !Types.equal t' t | none => false)
      | .tyval t (.glob n) => (match lookupG ge n with | some t' => !Types.equal t' t | none => false)
      | _ => false
    let constVal := i.args.any fun a => match a with | .val (.const _) => true | _ => false
    let badCond := i.row == 28 && i.args.any fun a => match a with
      | .val (.loc x) => (match lookup e x with | some t' => !Types.equal t' (.int 1) | none => false)
      | .val (.glob n) => (match lookupG ge n with | some t' => !Types.equal t' (.int 1) | none => false)
      | _ => false
    -- calls: a return type written as a function type (the signature of a variadic callee) and variadic callees are outside the fragment
    let badCall := callRows.contains i.row &&
      ((i.args.any fun a => match a with | .ty (.func _ _ _) => true | _ => false) ||
       (match calleeOf i with
        | some (.loc x) => (match lookup e x with | some (.ptr (.func _ _ true) _) => true | _ => false)
        | some (.glob n) => (match lookupG ge n with | some (.ptr (.func _ _ true) _) => true | _ => false)
        | _ => false))
    (badTyval && constVal) || badCond || badGlob || badCall

def risky (f : Func) : Bool := riskyIn (selfEnv f) f

def hasInfix (p : Bytes) : Bytes → Bool
  | [] => p.isEmpty
  | c :: s => (TyParse.stripPrefix p (c :: s)).isSome || hasInfix p s

/-- texts on which the model is not compared: a `call void` with a result name (`%x = call void @f()`: the real parser keeps the name in its table
    and prints no result; M-Core-3 has no nameless-by-type results) -/
def textRisky (ls : List Bytes) : Bool :=
  ls.any (hasInfix [61, 32, 99, 97, 108, 108, 32, 118, 111, 105, 100, 32]) ||
  -- a case of a switch whose value is a global (`i8* @g, label %b`: a constant to the real parser; the cases of the fragment are literal constants)
  ls.any (fun l => (TyParse.stripPrefix [9, 9] l).isSome && l.contains 64 && hasInfix sCommaLabel l)

/-- the numeric calling convention `cc <n>` in a function header is outside the fragment (the printer turns the numbers that have a keyword into it) -/
def headerRisky (ls : List Bytes) : Bool :=
  ls.any fun l => ((TyParse.stripPrefix Core3.sDefine l).isSome || (TyParse.stripPrefix Core3.sDeclare l).isSome) && hasInfix [32, 99, 99, 32] l

def core3Ops (op : String) (a : List String) : Option String :=
  match op, a with
  | "core3.print", [rt, nm, ps, bs] => (parseFuncD rt nm ps bs).map fun f => outHex (Core3.flatten (printFunc IntLit.hexChoice f))
  | "core3.reparse", [rt, nm, ps, bs] => (parseFuncD rt nm ps bs).map fun f =>
      match Core3.parse (printFunc IntLit.hexChoice f) with
      | some f' => outHex (Core3.flatten (printFunc IntLit.hexChoice f'))
      | none => "error"
  | "core3.parse", [x] =>
      some (if textRisky (splitLines (argHex x)) || headerRisky (splitLines (argHex x)) then "skip" else match Core3.readFunc (splitLines (argHex x)) with
        | none => "error"
        | some f0 =>
          match Core3.translate f0 with
          | none => "error"
          | some f => if risky f0 then "skip" else "ok " ++ outHex (Core3.flatten (printFunc IntLit.hexChoice f)))
  | "core3.rt", [_, _, _, _] => some "ok"
  | "core3.wf", [rt, nm, ps, bs] => (parseFuncD rt nm ps bs).map fun f => toString (Core3.wf f)
  | _, _ => none

end Llir.Drv
