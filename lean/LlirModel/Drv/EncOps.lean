import LlirModel.Enc
import LlirModel.Drv.Util
namespace Llir.Drv
open Llir Llir.Enc

def resHex : Res Bytes → String
  | .ok b => outHex b
  | .panic => "panic"

/-- A definition-position ID other than 0 is rejected or renumbered by later passes (C08), so it is
    not observable through a one-line module: `skip`. -/
def identOut : Ident → String
  | .name n => if n.isEmpty then "id 0" else "name " ++ outHex n   -- ir.*Ident.IsUnnamed: empty name, ID 0
  | .id i => if i == 0 then "id 0" else "skip"

/-- what `asm.ParseString` observes for a one-line module whose defined identifier is `tok`,
    when the token is a valid single token of the class; `nolex` otherwise (not compared). -/
def decVia (valid : Bytes → Bool) (dec : Bytes → Res Ident) (tok : Bytes) : String :=
  if valid tok then match dec tok with | .ok i => identOut i | .panic => "panic" else "nolex"

/-! Round-trip predicates: does `decode (print name)` give back `name`? (model of the composite) -/
def rtGlobal (n : Bytes) : Bool := isGlobalTok (globalName n) && globalIdent (globalName n) == .ok (.name n)
def rtLocal (n : Bytes) : Bool := isLocalTok (localName n) && localIdent (localName n) == .ok (.name n)
def rtLabel (n : Bytes) : Bool := isLabelTok (labelName n) && labelIdent (labelName n) == .ok (.name n)
def rtType (n : Bytes) : Bool :=
  isLocalTok (typeName n) &&
    (match localIdent (typeName n) with | .ok i => getTypeName i == n | .panic => false)
def rtComdat (n : Bytes) : Bool := isComdatTok (comdatName n) && comdatNameDec (comdatName n) == .ok n
def rtMdName (n : Bytes) : Bool :=
  match metadataName n with
  | .ok t => isMdNameTok t && metadataNameDec t == .ok n
  | .panic => false

def startsWithDigit (n : Bytes) : Bool := match n with | b :: _ => isDigit b | [] => false
def isMinusZero (n : Bytes) : Bool := match n with | 45 :: r => !r.isEmpty && r.all (· == 48) | _ => false

/-- classification of a failing name (shared vocabulary with known_findings.json) -/
def nameClass (n : Bytes) : String :=
  if n.isEmpty then "empty-name"
  else if startsWithDigit n && !(n.all isDigit) && n.all inTail then "leading-digit-name"
  else if isMinusZero n then "minus-zero-name"   -- since the fix: only type names (getTypeName) are affected
  else if (parseInt64 n).isSome then "numeric-like-name"
  else if startsWithDigit n then "leading-digit-name"
  else "unclassified"

def oracle (ok : Bool) (n : Bytes) : String := if ok then "ok" else "FAIL:" ++ nameClass n

def encOps (op : String) (a : List String) : Option String :=
  match op, a with
  | "enc.gname", [x] => some (outHex (globalName (argHex x)))
  | "enc.lname", [x] => some (outHex (localName (argHex x)))
  | "enc.label", [x] => some (outHex (labelName (argHex x)))
  | "enc.tname", [x] => some (outHex (typeName (argHex x)))
  | "enc.cname", [x] => some (outHex (comdatName (argHex x)))
  | "enc.mdname", [x] => some (resHex (metadataName (argHex x)))
  | "enc.escident", [x] => some (outHex (escapeIdent (argHex x)))
  | "enc.escstr", [x] => some (outHex (escapeString (argHex x)))
  | "enc.quote", [x] => some (outHex (quote (argHex x)))
  | "enc.unescape", [x] => some (outHex (unescape (argHex x)))
  | "enc.unquote", [x] => some (resHex (encUnquote (argHex x)))
  | "enc.gid", [x] => some (resHex (globalID (argInt x)))
  | "enc.lid", [x] => some (resHex (localID (argInt x)))
  | "enc.labid", [x] => some (resHex (labelID (argInt x)))
  | "enc.agid", [x] => some (outHex (attrGroupID (argInt x)))
  | "enc.mdid", [x] => some (outHex (metadataID (argInt x)))
  | "lex.class", [x] => some (lexClass (argHex x))
  | "dec.global", [x] => some (decVia isGlobalTok globalIdent (argHex x))
  | "dec.local", [x] => some (decVia isLocalTok localIdent (argHex x))
  | "dec.label", [x] => some (decVia isLabelTok labelIdent (argHex x))
  | "dec.comdat", [x] =>
      let t := argHex x
      some (if isComdatTok t then match comdatNameDec t with | .ok n => "name " ++ outHex n | .panic => "panic" else "nolex")
  | "dec.mdname", [x] =>
      let t := argHex x
      some (if isMdNameTok t then match metadataNameDec t with | .ok n => "name " ++ outHex n | .panic => "panic" else "nolex")
  | "dec.type", [x] =>
      let t := argHex x
      some (if isLocalTok t then match localIdent t with | .ok i => "name " ++ outHex (getTypeName i) | .panic => "panic" else "nolex")
  | "dec.string", [x] =>
      let t := argHex x
      some (if isStringTok t then "name " ++ outHex (asmUnquote t) else "nolex")
  | "rt.global", [x] => let n := argHex x; some (oracle (rtGlobal n) n)
  | "rt.local", [x] => let n := argHex x; some (oracle (rtLocal n) n)
  | "rt.label", [x] => let n := argHex x; some (oracle (rtLabel n) n)
  | "rt.type", [x] => let n := argHex x; some (oracle (rtType n) n)
  | "rt.comdat", [x] => let n := argHex x; some (oracle (rtComdat n) n)
  | "rt.mdname", [x] => let n := argHex x; some (oracle (rtMdName n) n)
  | "rt.mdattach", [x] => let n := argHex x; some (oracle (rtMdName n) n)      -- an attachment is spelled with the same token
  | "enc.mdattach", [x] => some (match metadataName (argHex x) with | .ok t => outHex (t ++ [32, 33, 48]) | .panic => "panic")
  | "rt.string", [x] => let n := argHex x; some (oracle (isStringTok (quote n) && asmUnquote (quote n) == n) n)
  | "rt.strsites", [x] => let n := argHex x; some (oracle (isStringTok (quote n) && asmUnquote (quote n) == n) n)
  | "rt.chararray", [x] => let n := argHex x; some (oracle (isStringTok (quote n) && asmUnquote (quote n) == n) n)
  | _, _ => none

end Llir.Drv
