import LlirModel.Core2
import LlirModel.Drv.TypeOps
/-! Line-protocol descriptors of M-Core-2 modules.
    typedefs: `-` or `<hexname>:<o | struct type descriptor>` separated by `/`
    globals:  `-` or `<hexname>:<g|c>:<type descriptor>=<const descriptor>` separated by `/`
    const descriptor: `i<int>` | `z` | `n` | `u` | `S(<elems>)` | `Q(<elems>)` (packed) | `A(<elems>)` | `V(<elems>)`,
    elems: `<type descriptor>=<const descriptor>` separated by `,` -/
namespace Llir.Drv
open Llir Llir.Types Llir.Core2

def takeInt : List Char → List Char × List Char
  | c :: r => if c.isDigit || c == '-' then let (d, rest) := takeInt r; (c :: d, rest) else ([], c :: r)
  | [] => ([], [])

mutual
def parseConstD : Nat → List Char → Option (Const × List Char)
  | 0, _ => none
  | f + 1, cs =>
    match cs with
    | 'i' :: r => let (d, rest) := takeInt r; some (.int (String.ofList d).toInt!, rest)
    | 'z' :: r => some (.zero, r)
    | 'n' :: r => some (.null, r)
    | 'u' :: r => some (.undef, r)
    | 'S' :: '(' :: r => (parseElems f r).map fun (es, rest) => (.struct false es, rest)
    | 'Q' :: '(' :: r => (parseElems f r).map fun (es, rest) => (.struct true es, rest)
    | 'A' :: '(' :: r => (parseElems f r).map fun (es, rest) => (.arr es, rest)
    | 'V' :: '(' :: r => (parseElems f r).map fun (es, rest) => (.vec es, rest)
    | _ => none
/-- elements terminated by `)` -/
def parseElems : Nat → List Char → Option (CList × List Char)
  | 0, _ => none
  | f + 1, cs =>
    match cs with
    | ')' :: r => some (.nil, r)
    | _ =>
      match parseTy (cs.length + 2) cs with
      | some (t, '=' :: r1) =>
        (match parseConstD f r1 with
         | some (c, ',' :: r2) => (parseElems f r2).map fun (rest, r3) => (.cons t c rest, r3)
         | some (c, ')' :: r2) => some (.cons t c .nil, r2)
         | _ => none)
      | _ => none
end

def parseTypeDefD (s : String) : Option TypeDef :=
  match s.splitOn ":" with
  | [n, "o"] => some ⟨argHex n, .opaq⟩
  | [n, b] => match tyArg b with
    | some (.struct p fs) => some ⟨argHex n, .struct p fs⟩
    | _ => none
  | _ => none

def parseGlobalD (s : String) : Option Global :=
  match s.splitOn ":" with
  | [n, k, tc] =>
    -- the kind field may carry the optional keywords of the global variable: `g~<i>,<i>…` / `c~<i>,<i>…` (positions in `Whole.kGLead`, in the order written)
    let kparts := k.splitOn "~"
    let lead := ((kparts.getD 1 "").splitOn ",").filterMap String.toNat?
    -- …and the clauses behind the initializer: `~s<hex>;p<hex>;l<n>` (section, partition, align)
    let tail : GTail := ((kparts.getD 2 "").splitOn ";").foldl (fun t c =>
      match c.toList with
      | 's' :: r => { t with sect := argHex (String.ofList r) }
      | 'p' :: r => { t with partition := argHex (String.ofList r) }
      | 'l' :: r => { t with align := ((String.ofList r).toNat?).getD 0 }
      | _ => t) {}
    let cs := tc.toList
    match parseTy (cs.length + 2) cs with
    | some (t, '=' :: r) =>
      (match parseConstD (r.length + 2) r with
       | some (c, []) => some ⟨argHex n, kparts.headD "" == "c", t, c, lead, tail⟩
       | _ => none)
    | _ => none
  | _ => none

def parseMod2 (ts gs : String) : Option Mod :=
  let tl := if ts == "-" then some [] else (ts.splitOn "/").mapM parseTypeDefD
  let gl := if gs == "-" then some [] else (gs.splitOn "/").mapM parseGlobalD
  match tl, gl with
  | some t, some g => some ⟨t, g⟩
  | _, _ => none

def core2Ops (op : String) (a : List String) : Option String :=
  match op, a with
  | "core2.print", [ts, gs] => (parseMod2 ts gs).map fun m => outHex (flatten (printTok IntLit.hexChoice m))
  | "core2.reparse", [ts, gs] => (parseMod2 ts gs).map fun m =>
      match translateTok (printTok IntLit.hexChoice m) with
      | some m' => outHex (flatten (printTok IntLit.hexChoice m'))
      | none => "error"
  | "core2.rt", [_, _] => some "ok"
  /- the constant reader against the real parser: text of `T V` -/
  | "core2.readconst", [x] =>
      let s := argHex x
      some (match TyParse.parseTy (tyFuel s) s with
        | some (t, 32 :: r1) =>
          (match parseConst (r1.length + 1) t r1 with
           | some (c, []) => if constTyOK t c then outHex (tyString t ++ [32] ++ constIdent IntLit.hexChoice t c) else "error"
           | _ => "error")
        | _ => "error")
  | _, _ => none

end Llir.Drv
