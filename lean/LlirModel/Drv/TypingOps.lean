import LlirModel.CallSite
import LlirModel.Gep
import LlirModel.Drv.TypeOps
namespace Llir.Drv
open Llir Llir.Types Llir.Typing Llir.Gep

def parseKind (s : String) : Option Kind :=
  let parts := s.splitOn ":"
  let arg := parts.getD 1 ""
  let idx : List Nat := if arg == "" || !(arg.all fun c => c.isDigit || c == '.') then [] else (arg.splitOn ".").map String.toNat!
  match parts.head! with
  | "fneg" => some .fneg
  | "add" => some .binop | "fadd" => some .binop | "xor" => some .binop
  | "extractelement" => some .extractelement
  | "insertelement" => some .insertelement
  | "shufflevector" => some .shufflevector
  | "extractvalue" => some (.extractvalue idx)
  | "insertvalue" => some (.insertvalue idx)
  | "alloca" => some (.alloca arg.toNat!)
  | "load" => some .load
  | "cmpxchg" => some .cmpxchg
  | "atomicrmw" => some .atomicrmw
  | "cast" => some .cast
  | "icmp" => some .icmp | "fcmp" => some .fcmp
  | "phi" => some .phi | "select" => some .select | "freeze" => some .freeze
  | "call" => some .call | "invoke" => some .invoke | "callbr" => some .callbr
  | "vaarg" => some .vaarg | "landingpad" => some .landingpad
  | "catchpad" => some .catchpad | "cleanuppad" => some .cleanuppad | "catchswitch" => some .catchswitch
  | _ => none

def showR : R → String
  | .ok t => outHex (tyString t)
  | .panic => "panic"
  | .none => "skip"

def tysArg (xs : List String) : Option (List Ty) := Gep.mapM? tyArg xs

/-- kinds the harness renders to text for the parser leg -/
def asmRendered : Kind → Bool
  | .landingpad | .catchpad | .cleanuppad | .catchswitch | .callbr => false
  | _ => true

def resultIRObserved (k : Kind) (ts : List Ty) : R := resultIR k ts
def resultAsmObserved (k : Kind) (ts : List Ty) : R := resultAsm k ts

/-- fixed environment of the harness: every identified struct `%n` has body `{ i32, %n* }` -/
def stdEnv : Env := fun n => some (.cons (.int 32) (.cons (.ptr (.named n) 0) .nil))

def vecInfo : Ty → Nat × Bool
  | .vec s n _ => (n, s)
  | _ => (0, false)

partial def parseIdxArg (s : String) : Option IdxArg :=
  match s.splitOn ":" with
  | ["c", _, v] => some ⟨some (.int v.toInt!), 0, false⟩
  | ["v", _, vs] => let l := (vs.splitOn ",").map String.toInt!; some ⟨some (.vecInts l), l.length, false⟩
  | ["m", _, es] => let n := (es.splitOn ",").length; some ⟨some (.vecOther n), n, false⟩
  | ["z", t] => (tyArg t).map fun ty => ⟨some .zero, (vecInfo ty).1, (vecInfo ty).2⟩
  | ["u", t] => (tyArg t).map fun ty => ⟨some .undef, (vecInfo ty).1, (vecInfo ty).2⟩
  | ["o", t] => (tyArg t).map fun ty => ⟨some .poison, (vecInfo ty).1, (vecInfo ty).2⟩
  | ["n", t] => (tyArg t).map fun ty => ⟨none, (vecInfo ty).1, (vecInfo ty).2⟩
  | ["e", k, t] => (tyArg t).map fun ty => ⟨some (.expr (k == "p")), (vecInfo ty).1, (vecInfo ty).2⟩
  | "r" :: rest =>
    match parseIdxArg (":".intercalate rest) with
    | some ⟨some c, n, sc⟩ => some ⟨some (.inrange c), n, sc⟩
    | _ => none
  | _ => none

def parseRawIdx (s : String) : Option Index :=
  match s.splitOn ":" with
  | [h, v, l] => some ⟨h == "1", v.toInt!, l.toNat!, false⟩
  | [h, v, l, sc] => some ⟨h == "1", v.toInt!, l.toNat!, sc == "1"⟩
  | _ => none

def hasNonConst (args : List IdxArg) : Bool := args.any fun a => a.c.isNone
def hasInrange (args : List IdxArg) : Bool := args.any fun a => match a.c with | some (.inrange _) => true | _ => false

def gepClass (elem src : Ty) (args : List IdxArg) : String :=
  let scal := (match src with | .vec true _ _ => true | _ => false) || args.any (·.tyScalable)
  if scal then "gep-scalable-vector"
  else if args.any (fun a => a.tyVecLen != 0 && (match a.c with | some (.vecInts _) => false | none => false | _ => true)) then
    "gep-nonliteral-vector-constant-index"
  else if args.any (fun a => match a.c with | some (.expr false) => true | _ => false) then "gep-constant-expression-index"
  else "unclassified"

/-- kinds that have a constant-expression constructor in ir/constant (binary: only the integer operations) -/
def hasExprForm (ks : String) (k : Kind) : Bool :=
  match k with
  | .fneg | .extractelement | .insertelement | .shufflevector | .cast | .icmp | .fcmp | .select => true
  | .binop => ["add", "xor", "add:add", "add:sub", "add:mul", "add:shl", "add:lshr", "add:ashr", "add:and", "add:or", "add:xor"].contains ks
  | _ => false

def typingOps (op : String) (a : List String) : Option String :=
  match op, a with
  | "typ.ir", k :: ts => do
    let k ← parseKind k; let ts ← tysArg ts
    pure (showR (resultIRObserved k ts))
  | "typ.expr", ks :: ts => do
    let k ← parseKind ks; let ts ← tysArg ts
    pure (if hasExprForm ks k then showR (resultIRObserved k ts) else "skip")
  | "typ.asm", k :: ts => do
    let k ← parseKind k; let ts ← tysArg ts
    pure (if asmRendered k then showR (resultAsmObserved k ts) else "skip")
  | "typ.spec", k :: ts => do
    let k ← parseKind k; let ts ← tysArg ts
    pure (match LLVMSpec.resultType k ts with
      | some t => if LLVMSpec.wellTyped k ts then outHex (tyString t) else "illtyped"
      | none => "illtyped")
  | "typ.ok", k :: rest => do
    let k ← parseKind k; let ts ← tysArg rest.dropLast
    let want := rest.getLast!
    let irOK := showR (resultIRObserved k ts) == want
    let asmOK := !asmRendered k || showR (resultAsmObserved k ts) == want
    pure (if irOK && asmOK then "ok" else
      "FAIL:unclassified")
  | "typ.use", _ :: _ => some "ok"
  | "cs.type", [_, sg, _] => (tyArg sg).map fun t => outHex (CallSite.callSiteType t)
  | "api.fix", [_] => some "ok"
  | "cc.rt", [_] => some "ok"            -- oracle on the implementation: a calling convention given by number is read back as that number
  | "sig.alias", [_, _, _] => some "ok"  -- oracle on the implementation: a call site spelled with a named signature
  | "rename.ok", [_, _] => some "ok"
  | "edit.as", [_, _] => some "ok"
  | "cs.type", [_, sg, _, _] => (tyArg sg).map fun t => outHex (CallSite.callSiteType t)
  | "ops.subst", _ :: _ => some "ok"
  | "gep.rt", e :: s :: idx => do
    let e ← tyArg e; let s ← tyArg s; let ix ← Gep.mapM? parseRawIdx idx
    pure (showR (resultType stdEnv e s ix))
  | "gep.inst", e :: s :: idx => do
    let e ← tyArg e; let s ← tyArg s; let ix ← Gep.mapM? parseIdxArg idx
    pure (showR (gepInst stdEnv e s ix))
  | "gep.expr", e :: s :: idx => do
    let e ← tyArg e; let s ← tyArg s; let ix ← Gep.mapM? parseIdxArg idx
    pure (if hasNonConst ix then "skip" else showR (gepExpr stdEnv e s ix))
  | "gep.asm", e :: s :: idx => do
    let e ← tyArg e; let s ← tyArg s; let ix ← Gep.mapM? parseIdxArg idx
    pure (if hasInrange ix then "skip" else showR (gepAsm stdEnv e s ix))
  | "gep.spec", e :: s :: idx => do
    let e ← tyArg e; let s ← tyArg s; let ix ← Gep.mapM? parseIdxArg idx
    pure (if !Gep.LLVMSpec.vectorOperandsAgree s ix then "illtyped" else
      match Gep.LLVMSpec.gepType stdEnv e s ix with | some t => outHex (tyString t) | none => "illtyped")
  | "gep.ok", e :: s :: rest => do
    let e ← tyArg e; let s ← tyArg s; let ix ← Gep.mapM? parseIdxArg rest.dropLast
    let want := rest.getLast!
    let ok1 := showR (gepInst stdEnv e s ix) == want
    let ok2 := hasNonConst ix || showR (gepExpr stdEnv e s ix) == want
    let ok3 := hasInrange ix || showR (gepAsm stdEnv e s ix) == want
    pure (if ok1 && ok2 && ok3 then "ok" else "FAIL:" ++ gepClass e s ix)
  | _, _ => none

end Llir.Drv
