import LlirModel.Natsort
import LlirModel.IntLit
import LlirModel.Drv.Util
namespace Llir.Drv
open Llir Llir.Natsort Llir.IntLit Llir.Digits

def rBytes : R Bytes → String
  | .ok b => outHex b
  | .error => "error"
  | .panic => "panic"
def rInt : R Int → String
  | .ok z => toString z
  | .error => "error"
  | .panic => "panic"

def isHexDigit (c : UInt8) : Bool := isDigit c || (97 ≤ c && c ≤ 102) || (65 ≤ c && c ≤ 70)
/-- `int_lit_tok = '-'? [0-9]+ | [us] '0x' [0-9A-Fa-f]+` (llir/ll) -/
def isIntLitTok (s : Bytes) : Bool :=
  match s with
  | 45 :: r => !r.isEmpty && r.all isDigit
  | 117 :: 48 :: 120 :: r => !r.isEmpty && r.all isHexDigit
  | 115 :: 48 :: 120 :: r => !r.isEmpty && r.all isHexDigit
  | _ => !s.isEmpty && s.all isDigit

def intRt (w : Nat) (x : Int) : String :=
  match identInt w x with
  | .ok s => if newIntFromString w s == .ok x then "ok" else "FAIL:unclassified"
  | _ => if w == 1 then "FAIL:i1-value-not-0-or-1" else "FAIL:unclassified"

/-- `T:<hex>,<hex>` / `A:3,1` / `X:-` -/
def groupOf (k : String) (a : List String) : List String :=
  match a.find? (fun g => g.startsWith (k ++ ":")) with
  | some g => let v := (g.drop 2).toString; if v == "-" || v == "" then [] else v.splitOn ","
  | none => []
def showGroup (k : String) (l : List String) : String := k ++ ":" ++ (if l.isEmpty then "-" else ",".intercalate l)

def litOps (op : String) (a : List String) : Option String :=
  match op, a with
  | "nat.less", [x, y] => some (toString (less (argHex x) (argHex y)))
  | "nat.sort", xs => some (" ".intercalate ((sort (xs.map argHex)).map outHex))
  | "mod.deforder", gs =>
      let d : DefLists := ⟨(groupOf "T" gs).map argHex, (groupOf "C" gs).map argHex, (groupOf "N" gs).map argHex, (groupOf "A" gs).map String.toNat!, (groupOf "M" gs).map String.toNat!⟩
      let p := printedOrder d
      some (" ".intercalate [showGroup "T" (p.types.map outHex), showGroup "C" (p.comdats.map outHex), showGroup "N" (p.named.map outHex),
                              showGroup "A" (p.attrs.map toString), showGroup "M" (p.mds.map toString)])
  | "nat.law", [_, _, _] => some "ok"
  | "nat.sorted", _ => some "ok"
  | "nat.num", [_, _, _, _] => some "ok"
  | "int.ident", [w, x] => some (rBytes (identInt w.toNat! (argInt x)))
  | "int.parse", [w, s] => some (rInt (newIntFromString w.toNat! (argHex s)))
  | "int.asm", [w, s] =>
      let t := argHex s
      if isIntLitTok t then some (rInt (newIntFromString w.toNat! t))
      else if t == pfxTrue || t == pfxFalse then some (rInt (newIntFromString w.toNat! t))
      else some "nolex"
  | "int.rt", [w, x] => some (intRt w.toNat! (argInt x))
  | "int.sem", [_, _, _] => some "ok"
  | _, _ => none

end Llir.Drv
