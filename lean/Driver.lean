import LlirModel.Drv.EncOps
import LlirModel.Drv.LitOps
import LlirModel.Drv.WriterOps
import LlirModel.Drv.EnumOps
import LlirModel.Drv.TypeOps
import LlirModel.Drv.TypingOps
import LlirModel.Drv.NumOps
import LlirModel.Drv.MdOps
import LlirModel.Drv.ModOps
import LlirModel.Drv.CoreOps
import LlirModel.Drv.Core2Ops
import LlirModel.Drv.Core3Ops
import LlirModel.Drv.HistOps
import LlirModel.Drv.FloatOps
import LlirModel.Drv.MetaOps
import LlirModel.Drv.WholeOps
import LlirModel.Drv.DIOps
open Llir Llir.Drv

def dispatch (op : String) (args : List String) : String :=
  match encOps op args with
  | some r => r
  | none =>
  match litOps op args with
  | some r => r
  | none =>
  match writerOps op args with
  | some r => r
  | none =>
  match enumOps op args with
  | some r => r
  | none =>
  match typeOps op args with
  | some r => r
  | none =>
  match typingOps op args with
  | some r => r
  | none =>
  match numOps op args with
  | some r => r
  | none =>
  match mdOps op args with
  | some r => r
  | none =>
  match modOps op args with
  | some r => r
  | none =>
  match coreOps op args with
  | some r => r
  | none =>
  match core2Ops op args with
  | some r => r
  | none =>
  match core3Ops op args with
  | some r => r
  | none =>
  match histOps op args with
  | some r => r
  | none =>
  match floatOps op args with
  | some r => r
  | none =>
  match metaOps op args with
  | some r => r
  | none =>
  match wholeOps op args with
  | some r => r
  | none =>
  match diOps op args with
  | some r => r
  | none => "unknown-op"

def stepLine (line : String) : String :=
  if line.isEmpty || line.startsWith "#" then line
  else
    match (line.splitOn " ").filter (· ≠ "") with
    | [] => line
    | op :: args =>
      let op := if op.startsWith "!" then (op.drop 1).toString else op
      dispatch op args

partial def loop (h : IO.FS.Stream) (out : IO.FS.Stream) : IO Unit := do
  let line ← h.getLine
  if line.isEmpty then return ()
  let l := if line.endsWith "\n" then (line.dropEnd 1).toString else line
  out.putStrLn (stepLine l)
  loop h out

def main : IO Unit := do
  let stdin ← IO.getStdin
  let stdout ← IO.getStdout
  loop stdin stdout
