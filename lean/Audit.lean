import LlirProofs
import Lean
/-! Lists every theorem in namespace `Llir.Props.<Cxx>` with the axioms it depends on, as JSON lines.
    Run: `lake env lean Audit.lean` -/
open Lean Elab Command

def allowedAxioms : List Name := [``propext, ``Classical.choice, ``Quot.sound]

#eval show CommandElabM Unit from do
  let env ← getEnv
  let mut rows : Array (Name) := #[]
  for (n, ci) in env.constants.toList do
    if (`Llir.Props).isPrefixOf n && !n.isInternal then
      match ci with
      | .thmInfo _ => rows := rows.push n
      | _ => pure ()
  let sorted := rows.qsort (fun a b => a.toString < b.toString)
  for n in sorted do
    let axs ← Lean.collectAxioms n
    let bad := axs.filter (fun a => !(allowedAxioms.contains a))
    let prop := (n.components.getD 2 `none).toString
    IO.println s!"AUDIT \{\"theorem\":\"{n}\",\"property\":\"{prop}\",\"axioms\":{repr (axs.toList.map toString)},\"ok\":{bad.isEmpty}}"
