import LlirModel.Bytes
import LlirModel.Enc
