import LlirModel.Bytes
import LlirModel.Enc
import LlirModel.Natsort
import LlirModel.Digits
import LlirModel.IntLit
import LlirModel.Writer
import LlirModel.Generated.Enums
import LlirModel.Flags
