"""generator of M-Core-3 functions (descriptors: lean/LlirModel/Drv/Core3Ops.lean): parameters, named / numbered blocks, instructions of the 74 rows
over locals (also forward references) and Core2 constants, LLVM numbering of the unnamed values; plus text-level mutants for the parser stream."""
import random
import re
import zlib
from . import gens

BINOPS = ["add", "sub", "mul", "udiv", "sdiv", "urem", "srem", "shl", "lshr", "ashr", "and", "or", "xor"]
INT_TYS = ["i1", "i8", "i32", "i64", "i33", "V4(i32)", "V2(i64)", "S2(i8)"]
PTR_TYS = ["p0(i32)", "p0(i8)", "p1(i64)", "p0(p0(i8))", "p0(V4(i32))"]
FLOAT_TYS = ["f1", "f2", "f0", "V4(f1)", "S2(f2)"]
AGG_TYS = ["s(i32,i8)", "a4(i8)", "s(i32,s(i8,i64))", "a2(s(i1,i32))", "P(i8,a2(i32))"]
ALIGNS = ["", "", "1", "4", "8", "16", "4096"]


def agg_path(rng, t):
    """a valid index path into an aggregate type descriptor: (path, element type)"""
    path = []
    while True:
        m = re.fullmatch(r"a(\d+)\((.*)\)", t)
        if m:
            path.append(rng.randrange(int(m.group(1)))); t = m.group(2)
        elif re.fullmatch(r"[sP]\(.*\)", t):
            # split the top-level fields
            fields, depth, cur = [], 0, ""
            for ch in t[2:-1]:
                if ch == "," and depth == 0:
                    fields.append(cur); cur = ""
                else:
                    depth += ch == "("; depth -= ch == ")"; cur += ch
            fields.append(cur)
            k = rng.randrange(len(fields)); path.append(k); t = fields[k]
        else:
            break
        if path and rng.random() < 0.4:
            break
    return path, t


FPTR_TYS = ["p0(F(v;))", "p0(F(i32;i32,p0(i8)))", "p0(F(i64;))", "p0(F(p0(i8);V4(i32)))"]


def fptr_sig(t):
    """(return type, [parameter types]) of a pointer-to-function type descriptor, or None"""
    m = re.fullmatch(r"p\d+\(F\((.*)\)\)", t)
    if not m:
        return None
    inner = m.group(1)
    depth = 0
    for k, ch in enumerate(inner):
        depth += ch == "("; depth -= ch == ")"
        if ch == ";" and depth == 0:
            ret, ps = inner[:k], inner[k + 1:]
            break
    else:
        return None
    params, cur, depth = [], "", 0
    for ch in ps:
        if ch == "," and depth == 0:
            params.append(cur); cur = ""
        else:
            depth += ch == "("; depth -= ch == ")"; cur += ch
    if cur:
        params.append(cur)
    return ret, params


VEC_TYS = ["V4(i32)", "V2(i64)", "S2(i8)", "V4(f1)", "S2(f2)", "V2(p0(i8))"]


def vec_parts(t):
    m = re.fullmatch(r"([VS])(\d+)\((.*)\)", t)
    return m.group(1), int(m.group(2)), m.group(3)


def hexs(b):
    return b.hex()


def safe_name(rng):
    n = gens.rand_name(rng, 6)
    n = bytes(c for c in n if c != 0) or b"v"
    return n


def pointee(t):
    m = re.fullmatch(r"p\d+\((.*)\)", t)
    return m.group(1)


def const_for(rng, t):
    """a Core2 constant descriptor of type t"""
    if re.fullmatch(r"i\d+", t):
        w = int(t[1:])
        if w == 1:
            return "i%d" % rng.choice([0, 1])
        lo, hi = -(2**(w - 1)), 2**(w - 1) - 1
        return "i%d" % rng.choice([v for v in (0, 1, 7, -1, 4096, 65535, hi, lo, rng.randint(lo, hi)) if lo <= v <= hi])
    if t.startswith("p"):
        return rng.choice(["n", "u", "z"]) if True else "n"
    m = re.fullmatch(r"([VS])(\d+)\((.*)\)", t)
    if m:
        if m.group(1) == "S" or rng.random() < 0.4:
            return rng.choice(["z", "u"])
        n, e = int(m.group(2)), m.group(3)
        return "V(%s)" % ",".join("%s=%s" % (e, const_for(rng, e)) for _ in range(n))
    return "z"


def gen_sig(rng):
    """a function header: (name, [(param type, param name or None)], return type)"""
    name = safe_name(rng)
    used = set()
    params = []
    for _ in range(rng.randint(0, 3)):
        nm = None
        if rng.random() >= 0.45:
            for _ in range(20):
                n = safe_name(rng)
                if n not in used:
                    used.add(n); nm = n
                    break
        params.append((rng.choice(INT_TYS + PTR_TYS + (FPTR_TYS if rng.random() < 0.3 else [])), nm))
    ret = rng.choice(["v", "i32", "i1", "p0(i8)", "V4(i32)", "i64"])
    return name, params, ret


def sig_ref_ty(sig):
    """the type of a reference to a function with this header"""
    return "p0(F(%s;%s))" % (sig[2], ",".join(t for t, _ in sig[1]))


def gen_decl(sig):
    """the descriptor of a DECLARATION with this header (no blocks): unnamed parameters are numbered from 0"""
    name, params, ret = sig
    n, pdesc = 0, []
    for t, nm in params:
        if nm is None:
            pdesc.append("%s~I%d" % (t, n)); n += 1
        else:
            pdesc.append("%s~N%s" % (t, hexs(nm)))
    return ret, hexs(name), "|".join(pdesc) or "-", "-"


def gen_func(rng, max_blocks=4, sig=None, genv=()):
    """returns (descriptor args: ret, name, params, blocks) as a 4-tuple of strings; genv: the globals of the module, [(hex name, type of a reference)]"""
    name, params, ret = sig if sig is not None else gen_sig(rng)
    if sig is None:
        # a function definition on its own may refer to itself
        genv = [(hexs(name), sig_ref_ty((name, params, ret)))]
    used_names = set(nm for _, nm in params if nm is not None)
    def fresh_ident():
        # a name or `None` (unnamed: numbered later)
        if rng.random() < 0.45:
            return None
        for _ in range(20):
            n = safe_name(rng)
            if n not in used_names:
                used_names.add(n)
                return n
        return None
    nb = rng.randint(1, max_blocks)
    blocks = []
    for _ in range(nb):
        insts = []
        for _ in range(rng.randint(0, 4)):
            k = rng.random()
            if k < 0.4:
                insts.append({"row": rng.randrange(13), "ty": rng.choice(INT_TYS), "res": fresh_ident(), "has": True})
            elif k < 0.6:
                insts.append({"row": 13 + rng.randrange(10), "ty": rng.choice(INT_TYS + PTR_TYS), "res": fresh_ident(), "has": True})
            elif k < 0.75:
                pt = rng.choice(PTR_TYS)
                insts.append({"row": 23, "ty": pt, "res": fresh_ident(), "has": True})
            elif k < 0.87:
                insts.append({"row": 24, "ty": rng.choice(PTR_TYS), "res": None, "has": False})
            elif k < 0.93:
                insts.append({"row": 25, "ty": rng.choice(INT_TYS + PTR_TYS), "res": fresh_ident(), "has": True})
            elif k < 0.96:
                # conversions: (row, from, to)
                r, a, b = rng.choice([(30, "i64", "i8"), (31, "i8", "i64"), (32, "i8", "i32"), (39, "p0(i8)", "i64"), (40, "i64", "p0(i8)"), (41, "p0(i8)", "p0(i32)"),
                                      (41, "i32", "V4(i8)"), (42, "p0(i8)", "p1(i64)"), (30, "V4(i32)", "V4(i8)"), (31, "S2(i8)", "S2(i64)"), (41, "V2(i64)", "V4(i32)")])
                insts.append({"row": r, "ty": a, "to": b, "res": fresh_ident(), "has": True})
            elif k < 0.985:
                insts.append({"row": 43, "ty": rng.choice(INT_TYS + PTR_TYS), "res": fresh_ident(), "has": True, "n": rng.randint(1, 3)})
            elif k < 0.99:
                insts.append({"row": 44, "ty": rng.choice(INT_TYS + PTR_TYS), "res": fresh_ident(), "has": True})
            else:
                insts.append({"row": 44, "ty": rng.choice(FLOAT_TYS), "res": fresh_ident(), "has": True})
        # floating-point arithmetic and comparisons, vector element instructions, alloca (rows 45-70)
        for _ in range(rng.choice([0, 0, 1, 2])):
            k = rng.random()
            if k < 0.12:
                insts.append({"row": 45, "ty": rng.choice(FLOAT_TYS), "res": fresh_ident(), "has": True})
            elif k < 0.4:
                insts.append({"row": 46 + rng.randrange(5), "ty": rng.choice(FLOAT_TYS), "res": fresh_ident(), "has": True})
            elif k < 0.6:
                insts.append({"row": 51 + rng.randrange(16), "ty": rng.choice(FLOAT_TYS), "res": fresh_ident(), "has": True})
            elif k < 0.7:
                insts.append({"row": 67, "ty": rng.choice(VEC_TYS), "ity": rng.choice(["i32", "i64", "i8"]), "res": fresh_ident(), "has": True})
            elif k < 0.8:
                insts.append({"row": 68, "ty": rng.choice(VEC_TYS), "ity": rng.choice(["i32", "i64"]), "res": fresh_ident(), "has": True})
            elif k < 0.9:
                insts.append({"row": 69, "ty": rng.choice(VEC_TYS), "m": rng.choice([1, 2, 4, 8]), "res": fresh_ident(), "has": True})
            elif k < 0.94:
                insts.append({"row": 70, "ty": rng.choice(INT_TYS + PTR_TYS + FLOAT_TYS + ["a4(i8)", "s(i32,i8)"]), "res": fresh_ident(), "has": True})
            elif k < 0.97:
                t = rng.choice(AGG_TYS)
                path, et = agg_path(rng, t)
                insts.append({"row": rng.choice([71, 72]), "ty": t, "path": path, "ety": et, "res": fresh_ident(), "has": True})
            else:
                # getelementptr: element type, base pointer (any address space), a first index and a path through arrays / struct fields
                e = rng.choice(AGG_TYS + ["i32", "a4(a2(i16))"])
                path, et = agg_path(rng, e) if not e.startswith("i") and rng.random() < 0.8 else ([], e)
                insts.append({"row": 73, "ty": e, "as": rng.choice([0, 0, 1, 3]), "path": path, "ety": et, "res": fresh_ident(), "has": True})
        # calls (rows 74 / 75) of a function of the module or through a parameter of function-pointer type
        callable_tys = [ty for _, ty in genv if fptr_sig(ty)] + [t for t, _ in params if fptr_sig(t)]
        for _ in range(rng.choice([0, 0, 1, 2]) if callable_tys else 0):
            ct = rng.choice(callable_tys)
            rt = fptr_sig(ct)[0]
            tail = 2 * rng.choice([0, 0, 0, 1, 2, 3])          # plain / tail / musttail / notail
            if rt == "v":
                insts.append({"row": 74 + tail, "ty": ct, "res": None, "has": False})
            else:
                insts.append({"row": 75 + tail, "ty": ct, "res": fresh_ident(), "has": True})
        # conversions of a reference to a function or a global variable of the module (whatever its type is)
        for a, ty in genv:
            if rng.random() < 0.15:
                insts.append({"row": rng.choice([39, 41]), "ty": ty, "to": None, "res": fresh_ident(), "has": True})
                insts[-1]["to"] = "i64" if insts[-1]["row"] == 39 else "p0(i8)"
        rng.shuffle(insts)
        blocks.append({"label": fresh_ident(), "insts": insts})
    # exception handling and va_arg (rows 83-87): planned from an auxiliary generator seeded by the plan so far, so that the main stream stays
    # the one it was before these rows existed
    plan = repr((name, params, ret, [(b["label"], [(i["row"], i["ty"], i["res"]) for i in b["insts"]]) for b in blocks]))
    aux = random.Random(zlib.crc32(("eh|" + plan).encode()))
    def aux_ident():
        if aux.random() < 0.45:
            return None
        for _ in range(20):
            nm = safe_name(aux)
            if nm not in used_names:
                used_names.add(nm)
                return nm
        return None
    callable_all = [ty for _, ty in genv if fptr_sig(ty)] + [t for t, _ in params if fptr_sig(t)]
    LP_TYS = ["s(p0(i8),i32)", "s(p0(i8),i32)", "i32", "p0(i8)"]
    for b in blocks:
        if aux.random() < 0.12:
            b["insts"].insert(0, {"row": 85, "ty": aux.choice(LP_TYS), "res": aux_ident(), "has": True, "aux": True, "cleanup": aux.random() < 0.5,
                                  "clauses": [aux.choice([(False, "p0(i8)"), (False, "p0(i32)"), (True, "a0(p0(i8))"), (True, "a2(p0(i8))")])
                                              for _ in range(aux.choice([0, 1, 1, 2, 3]))]})
        if aux.random() < 0.08:
            b["insts"].insert(aux.randrange(len(b["insts"]) + 1), {"row": 87, "ty": aux.choice(["p0(i8)", "p0(p0(i8))"]), "to": aux.choice(["i32", "i64", "p0(i8)", "f2"]),
                                                                    "res": aux_ident(), "has": True, "aux": True})
        # atomic memory instructions (rows 88-90): fence, cmpxchg, atomicrmw
        if aux.random() < 0.1:
            b["insts"].insert(aux.randrange(len(b["insts"]) + 1), {"row": 88, "ty": "v", "res": None, "has": False, "aux": True, "ord": aux.choice([2, 3, 4, 5])})
        if aux.random() < 0.1:
            b["insts"].insert(aux.randrange(len(b["insts"]) + 1), {"row": 89, "ty": aux.choice(["i32", "i64", "i8", "p0(i8)", "i33"]), "res": aux_ident(), "has": True, "aux": True,
                                                                    "ord": aux.choice([1, 2, 3, 4, 5]), "ord2": aux.choice([1, 2, 5]), "fl": aux.choice(["", "", "0", "1", "0,1"]),
                                                                    "align": aux.choice(ALIGNS)})
        if aux.random() < 0.1:
            fp = aux.random() < 0.2
            b["insts"].insert(aux.randrange(len(b["insts"]) + 1), {"row": 90, "ty": aux.choice(["f1", "f2"] if fp else ["i32", "i64", "i8", "i33"]), "res": aux_ident(), "has": True, "aux": True,
                                                                    "op": aux.choice([2, 5, 2, 5, 3, 4] if fp else [0, 1, 6, 7, 8, 9, 10, 11, 12, 13, 14]),
                                                                    "ord": aux.choice([1, 2, 3, 4, 5]), "fl": aux.choice(["", "", "0"]), "align": aux.choice(ALIGNS)})
        k = aux.random()
        if callable_all and k < 0.15:
            ct = aux.choice(callable_all)
            rt = fptr_sig(ct)[0]
            b["term"] = {"row": 83 if rt == "v" else 84, "ty": ct, "res": None if rt == "v" else aux_ident(), "has": rt != "v"}
        elif k < 0.2:
            b["term"] = {"row": 86, "ty": aux.choice(LP_TYS), "res": None, "has": False}
    # exception-handling pads and terminators of the funclet kind (rows 92-96) and indirectbr (row 91): a group of a catchswitch, a catchpad within it,
    # a catchret from that catchpad, a cleanuppad (within none / the catchswitch's catchpad) and a cleanupret from it; each terminator takes a block
    # that has none planned yet (llir checks the KIND of the definition a pad reference names, not where it is)
    if aux.random() < 0.18:
        free = [b for b in blocks if "term" not in b]
        aux.shuffle(free)
        cs = cp = cl = None
        if free:
            cs = {"row": 92, "ty": "tok", "res": aux_ident(), "has": True, "aux": True, "pad": None}
            free.pop()["term"] = cs
        if cs is not None:
            cp = {"row": 95, "ty": "tok", "res": aux_ident(), "has": True, "aux": True, "within": cs, "eargs": [aux.choice(["i32", "p0(i8)", "i64"]) for _ in range(aux.choice([0, 1, 2]))]}
            aux.choice(blocks)["insts"].insert(0, cp)
            if free and aux.random() < 0.8:
                free.pop()["term"] = {"row": 93, "ty": "v", "res": None, "has": False, "from": cp}
        if aux.random() < 0.7:
            cl = {"row": 96, "ty": "tok", "res": aux_ident(), "has": True, "aux": True, "pad": aux.choice([None, None, cp, cs]), "eargs": [aux.choice(["i32", "p0(i8)"]) for _ in range(aux.choice([0, 0, 1]))]}
            aux.choice(blocks)["insts"].insert(0, cl)
            if free and aux.random() < 0.8:
                free.pop()["term"] = {"row": 94, "ty": "v", "res": None, "has": False, "from": cl}
    for b in blocks:
        if "term" not in b and aux.random() < 0.05:
            b["term"] = {"row": 91, "ty": "p0(i8)", "res": None, "has": False}
    # result types
    def res_ty(i):
        r, t = i["row"], i["ty"]
        if r in (84,): return fptr_sig(t)[0]
        if r == 85: return t
        if r == 87: return i["to"]
        if r in (92, 95, 96): return "tok"
        if r == 89: return "s(%s,i1)" % t
        if r == 90: return t
        if r < 13: return t
        if r < 23:
            m = re.fullmatch(r"([VS])(\d+)\((.*)\)", t)
            return "%s%s(i1)" % (m.group(1), m.group(2)) if m else "i1"
        if 30 <= r <= 42: return i["to"]
        if 75 <= r <= 81: return fptr_sig(t)[0]
        if r == 23: return pointee(t)
        if r == 25 or r in (43, 44): return t
        if 30 <= r <= 42: return i["to"]
        if 45 <= r <= 50 or r == 68: return t
        if 51 <= r <= 66:
            m = re.fullmatch(r"([VS])(\d+)\((.*)\)", t)
            return "%s%s(i1)" % (m.group(1), m.group(2)) if m else "i1"
        if r == 67: return vec_parts(t)[2]
        if r == 69: return "%s%d(%s)" % (vec_parts(t)[0], i["m"], vec_parts(t)[2])
        if r == 70: return "p0(%s)" % t
        if r == 71: return i["ety"]
        if r == 72: return t
        if r == 73: return "p%d(%s)" % (i["as"], i["ety"])
        return None
    # LLVM numbering of the unnamed values
    n = 0
    def ident_of(nm):
        nonlocal n
        if nm is None:
            s = "I%d" % n; n += 1
            return s
        return "N" + hexs(nm)
    pdesc = []
    avail = []          # (ident, type)
    for t, nm in params:
        ident = ident_of(nm)
        pdesc.append("%s~%s" % (t, ident))
        avail.append((ident, t))
    labels = []
    lazy = set()          # results of getelementptr: their type is computed from their operands (never operands of another getelementptr here)
    avail_aux = []        # the results of the rows planned by the auxiliary generator (operands of those rows only)
    for b in blocks:
        b["ident"] = ident_of(b["label"])
        labels.append(b["ident"])
        for i in b["insts"] + ([b["term"]] if "term" in b else []):
            if i["has"]:
                i["ident"] = ident_of(i["res"])
                (avail_aux if i.get("aux") or i["row"] in (84, 92) else avail).append((i["ident"], res_ty(i)))
                if i["row"] == 73:
                    lazy.add(i["ident"])
            else:
                i["ident"] = "_"
    def aux_operand(t):
        g = [a for a, ty in genv if ty == t]
        if g and aux.random() < 0.5:
            return "@" + aux.choice(g)
        c = [a for a, ty in avail + avail_aux if ty == t and a not in lazy]
        if c and aux.random() < 0.6:
            return "%" + aux.choice(c)
        return "#" + const_for(aux, t)
    def operand(t, nolazy=False):
        g = [a for a, ty in genv if ty == t]
        if g and rng.random() < 0.5:
            return "@" + rng.choice(g)
        c = [a for a, ty in avail if ty == t and not (nolazy and a in lazy)]
        if c and rng.random() < 0.6:
            return "%" + rng.choice(c)
        return "#" + const_for(rng, t)
    def ref_operand(t):
        """a local or global of exactly this type (never a constant)"""
        c = ["@" + a for a, ty in genv if ty == t] + ["%" + a for a, ty in avail if ty == t and a not in lazy]
        return rng.choice(c)
    bdesc = []
    for b in blocks:
        parts = [b["ident"]]
        for i in b["insts"]:
            r, t = i["row"], i["ty"]
            # flag keywords (positions in the row's keyword list): nuw / nsw in any order and multiplicity, exact, volatile, fast-math flags
            fl = ""
            if r in (0, 1, 2, 7):
                fl = "F%s!" % ",".join(str(rng.randrange(2)) for _ in range(rng.choice([0, 0, 1, 2, 2, 3])))
            elif r in (3, 4, 8, 9, 23, 24, 73):
                fl = "F%s!" % rng.choice(["", "", "0"])
            elif 45 <= r <= 50:
                fl = "F%s!" % ",".join(str(rng.randrange(8)) for _ in range(rng.choice([0, 0, 1, 2, 4])))
            if r == 85:
                parts.append("%s:85:T%s:C%d%s" % (i["ident"], t, i["cleanup"], "".join("&%s%s=%s" % ("f" if fl_ else "c", ct, aux_operand(ct)) for fl_, ct in i["clauses"])))
                continue
            if r == 87:
                parts.append("%s:87:P%s=%s!T%s" % (i["ident"], t, aux_operand(t), i["to"]))
                continue
            if r == 88:
                parts.append("_:88:W%d" % i["ord"])
                continue
            if r == 95:
                parts.append("%s:95:X%s!G%s" % (i["ident"], i["within"]["ident"], "&".join("%s=%s" % (et, aux_operand(et)) for et in i["eargs"])))
                continue
            if r == 96:
                parts.append("%s:96:Y%s!G%s" % (i["ident"], i["pad"]["ident"] if i["pad"] else "", "&".join("%s=%s" % (et, aux_operand(et)) for et in i["eargs"])))
                continue
            if r == 89:
                parts.append("%s:89:F%s!Pp0(%s)=%s!P%s=%s!P%s=%s!W%d!W%d!A%s" % (i["ident"], i["fl"], t, aux_operand("p0(%s)" % t), t, aux_operand(t), t, aux_operand(t),
                                                                                 i["ord"], i["ord2"], i["align"]))
                continue
            if r == 90:
                parts.append("%s:90:F%s!W%d!Pp0(%s)=%s!P%s=%s!W%d!A%s" % (i["ident"], i["fl"], i["op"], t, aux_operand("p0(%s)" % t), t, aux_operand(t), i["ord"], i["align"]))
                continue
            if 74 <= r <= 81:
                rt, pts = fptr_sig(t)
                args = ("T%s!" % rt if r % 2 == 1 else "") + "V%s!G%s" % (ref_operand(t), "&".join("%s=%s" % (pt, operand(pt)) for pt in pts))
            elif r < 23:
                args = fl + "P%s=%s!V%s" % (t, operand(t), operand(t))
            elif r in (23, 24):
                # kAtomicVolatile: 0 atomic, 1 volatile (strictly ascending); an atomic access has an ordering and an alignment (auxiliary draws)
                at = random.Random(zlib.crc32(("at|%s|%s|%d" % (plan, i["ident"], len(parts))).encode()))
                vol = fl == "F0!"
                al = rng.choice(ALIGNS)
                okw = "O"
                if at.random() < 0.25:
                    fl = "F0,1!" if vol else "F0!"
                    okw = "O%d" % at.choice([0, 1, 2, 5] if r == 23 else [0, 1, 3, 5])
                    al = al or at.choice(["1", "4", "8"])
                else:
                    fl = "F1!" if vol else "F!"
                if r == 23:
                    args = fl + "T%s!P%s=%s!%s!A%s" % (pointee(t), t, operand(t), okw, al)
                else:
                    args = fl + "P%s=%s!P%s=%s!%s!A%s" % (pointee(t), operand(pointee(t)), t, operand(t), okw, al)
            elif 30 <= r <= 42:
                args = "P%s=%s!T%s" % (t, operand(t), i["to"])
            elif r == 43:
                args = "T%s!H%s" % (t, "&".join("%s~%s" % (operand(t), rng.choice(labels)) for _ in range(i["n"])))
            elif r in (44, 45):
                args = fl + "P%s=%s" % (t, operand(t))
            elif 46 <= r <= 66:
                args = fl + "P%s=%s!V%s" % (t, operand(t), operand(t))
            elif r == 67:
                args = "P%s=%s!P%s=%s" % (t, operand(t), i["ity"], operand(i["ity"]))
            elif r == 68:
                e = vec_parts(t)[2]
                args = "P%s=%s!P%s=%s!P%s=%s" % (t, operand(t), e, operand(e), i["ity"], operand(i["ity"]))
            elif r == 69:
                mt = "%s%d(i32)" % (vec_parts(t)[0], i["m"])
                args = "P%s=%s!P%s=%s!P%s=#%s" % (t, operand(t), t, operand(t), mt, rng.choice(["z", "u"]) if mt.startswith("S") or rng.random() < 0.4 else
                                                  "V(%s)" % ",".join("i32=i%d" % rng.randrange(2 * vec_parts(t)[1]) for _ in range(i["m"])))
            elif r == 70:
                args = "T%s!A%s" % (t, rng.choice(ALIGNS))
            elif r == 73:
                # struct fields are stepped by CONSTANT i32 indices; array indices may be locals of any integer type
                def index(k, depth_ty):
                    if depth_ty.startswith(("s(", "P(")):
                        return "i32=#i%d" % k
                    it = rng.choice(["i64", "i32", "i8"])
                    o = operand(it, nolazy=True)
                    return "%s=%s" % (it, o if o.startswith("%") else "#i%d" % k)
                bt = "p%d(%s)" % (i["as"], t)
                ixs, cur = [], t
                first_t = rng.choice(["i64", "i32"])
                ixs.append("%s=%s" % (first_t, operand(first_t, nolazy=True)))
                for k in i["path"]:
                    ixs.append(index(k, cur))
                    m2 = re.fullmatch(r"a(\d+)\((.*)\)", cur)
                    if m2:
                        cur = m2.group(2)
                    else:
                        fields, depth, cc = [], 0, ""
                        for ch in cur[2:-1]:
                            if ch == "," and depth == 0:
                                fields.append(cc); cc = ""
                            else:
                                depth += ch == "("; depth -= ch == ")"; cc += ch
                        fields.append(cc); cur = fields[k]
                args = fl + "T%s!P%s=%s!G%s" % (t, bt, operand(bt, nolazy=True), "&".join(ixs))
            elif r == 71:
                args = "P%s=%s!K%s" % (t, operand(t), ",".join(map(str, i["path"])))
            elif r == 72:
                args = "P%s=%s!P%s=%s!K%s" % (t, operand(t), i["ety"], operand(i["ety"]), ",".join(map(str, i["path"])))
            else:
                args = "Pi1=%s!P%s=%s!P%s=%s" % (operand("i1"), t, operand(t), t, operand(t))
            parts.append("%s:%d:%s" % (i["ident"], r, args))
        k = rng.random()
        if k < 0.35:
            parts.append("_:26:R" if ret == "v" else "_:26:R%s=%s" % (ret, operand(ret)))
        elif k < 0.6:
            parts.append("_:27:L%s" % rng.choice(labels))
        elif k < 0.9:
            parts.append("_:28:V%s!L%s!L%s" % (operand("i1"), rng.choice(labels), rng.choice(labels)))
        else:
            parts.append("_:29:-")
        # a switch in place of the terminator drawn above (row 82; every choice from an auxiliary generator seeded by the block so far, so that the
        # main stream is the one it was before switches existed)
        aux_sw = random.Random(zlib.crc32(("sw|" + "^".join(parts)).encode()))
        tm = b.get("term")
        if tm is not None and tm["row"] == 86:
            parts[-1] = "_:86:P%s=%s" % (tm["ty"], aux_operand(tm["ty"]))
        elif tm is not None and tm["row"] == 91:
            parts[-1] = "_:91:P%s=%s!B%s" % (tm["ty"], aux_operand(tm["ty"]), ",".join(aux.choice(labels) for _ in range(aux.choice([0, 1, 2, 3]))))
        elif tm is not None and tm["row"] == 92:
            parts[-1] = "%s:92:Y%s!B%s!U%s" % (tm["ident"], tm["pad"]["ident"] if tm["pad"] else "", ",".join(aux.choice(labels) for _ in range(aux.choice([1, 1, 2, 3]))),
                                              aux.choice(["", "", aux.choice(labels)]))
        elif tm is not None and tm["row"] == 93:
            parts[-1] = "_:93:X%s!L%s" % (tm["from"]["ident"], aux.choice(labels))
        elif tm is not None and tm["row"] == 94:
            parts[-1] = "_:94:X%s!U%s" % (tm["from"]["ident"], aux.choice(["", aux.choice(labels)]))
        elif tm is not None:
            rt, pts = fptr_sig(tm["ty"])
            cands = ["@" + a for a, ty in genv if ty == tm["ty"]] + ["%" + a for a, ty in avail + avail_aux if ty == tm["ty"] and a not in lazy]
            parts[-1] = "%s:%d:%sV%s!G%s:D%s~%s" % (tm["ident"], tm["row"], "T%s!" % rt if tm["row"] == 84 else "", aux.choice(cands),
                                                   "&".join("%s=%s" % (pt, aux_operand(pt)) for pt in pts), aux.choice(labels), aux.choice(labels))
        elif aux_sw.random() < 0.22:
            ity = aux_sw.choice(["i32", "i8", "i64", "i1", "i33"])
            cands = [a for a, ty in avail if ty == ity]
            x = "%" + aux_sw.choice(cands) if cands and aux_sw.random() < 0.7 else "#" + const_for(aux_sw, ity)
            cases = ["%s=#%s~%s" % (ity, const_for(aux_sw, ity), aux_sw.choice(labels)) for _ in range(aux_sw.choice([0, 1, 1, 2, 3, 5]))]
            parts[-1] = "_:82:P%s=%s!L%s:S%s" % (ity, x, aux_sw.choice(labels), "&".join(cases) or "-")
        bdesc.append("^".join(parts))
    return ret, hexs(name), "|".join(pdesc) or "-", "/".join(bdesc)


# the families of header keywords as positions in the model's list `Core3.kLead` (linkage 0-10, preemption 11-12, visibility 13-15, DLL storage class 16-17,
# calling conventions 18-62)
LEAD_FAMILIES = [range(0, 11), range(11, 13), range(13, 16), range(16, 18), range(18, 63)]


def with_lead(rng, func, p=0.5):
    """header keywords in front of the return type: at most one of each family, in the order of the grammar"""
    ret, name, pdesc, bdesc = func
    if "~" in name or rng.random() >= p:
        return func
    lead = [rng.choice(list(fam)) for fam in LEAD_FAMILIES if rng.random() < 0.4]
    if not lead:
        lead = [rng.choice(list(rng.choice(LEAD_FAMILIES)))]
    # return attributes (positions 63-68: inreg noalias nonnull noundef signext zeroext), a LIST: repeats and any order are kept
    if ret != "void" and rng.random() < 0.4:
        if ret[0] == "i" and ret[1:].isdigit():
            pool = [63, 66, 67, 68]
        elif ret.endswith("*"):
            pool = [63, 64, 65, 66]
        else:
            pool = [63, 66]
        lead += [rng.choice(pool) for _ in range(rng.choice([1, 1, 2, 3]))]
    return ret, name + "~" + ",".join(map(str, lead)), pdesc, bdesc


# parameter attributes as positions in the model's list `Core3.kParamAttr`: immarg inreg nest noalias nocapture nofree nonnull noundef readnone readonly returned signext
# swiftasync swifterror swiftself writeonly zeroext
PATTR_INT, PATTR_PTR, PATTR_ANY = [1, 7, 10, 11, 16, 0], [1, 2, 3, 4, 5, 6, 7, 8, 9, 10, 12, 13, 14, 15], [1, 7, 10]


def with_pattrs(rng, func, p=0.5):
    """attributes between the type and the name of some parameters (a LIST per parameter: repeats and any order are kept)"""
    ret, name, pdesc, bdesc = func
    if pdesc == "-" or rng.random() >= p:
        return func
    ps = []
    for d in pdesc.split("|"):
        f = d.split("~")
        if len(f) == 2 and rng.random() < 0.5:
            ty = f[0]
            pool = PATTR_INT if (ty[0] == "i" and ty[1:].isdigit()) else PATTR_PTR if ty.startswith("p") else PATTR_ANY
            d += "~" + ",".join(str(rng.choice(pool)) for _ in range(rng.choice([1, 1, 2, 3])))
        ps.append(d)
    return ret, name, "|".join(ps), bdesc


def with_variadic(rng, func, p=0.25):
    """`...` behind the last parameter — only for functions nothing refers to (a call of a variadic callee spells its signature: outside the fragment)"""
    ret, name, pdesc, bdesc = func
    if pdesc.endswith("...") or rng.random() >= p:
        return func
    return ret, name, "..." if pdesc == "-" else pdesc + "|...", bdesc


def with_tail(rng, func, p=0.5, addrspace_ok=True):
    """clauses behind the parameter list: unnamed_addr / local_unnamed_addr, addrspace(N), attribute keywords, section, partition, align, gc"""
    ret, name, pdesc, bdesc = func
    if name.count("~") >= 2 or rng.random() >= p:
        return func
    cl = []
    if rng.random() < 0.3:
        cl.append("u%d" % rng.randrange(2))
    if addrspace_ok and rng.random() < 0.25:
        cl.append("a%d" % rng.choice([1, 3, 5, 16777215, 4294967296]))
    if rng.random() < 0.5:
        cl.append("k" + ",".join(str(rng.randrange(56)) for _ in range(rng.choice([1, 1, 2, 3, 5]))))
    if rng.random() < 0.3:
        cl.append("s" + rng.choice([b".text", b"a b", b'q"uote', b"\\", b"\x01\xff", b"__TEXT,__text"]).hex())
    if rng.random() < 0.15:
        cl.append("p" + rng.choice([b"part1", b"p q"]).hex())
    if rng.random() < 0.3:
        cl.append("l%d" % rng.choice([1, 2, 8, 4096, 7, 2**63, 2**64 - 1]))
    if rng.random() < 0.2:
        cl.append("g" + rng.choice([b"shadow-stack", b"statepoint-example", b"a\"b"]).hex())
    if not cl:
        return func
    if "~" not in name:
        name += "~"
    return ret, name + "~" + ";".join(cl), pdesc, bdesc


MD_NAMES = [b"dbg", b"tbaa", b"prof", b"llvm.loop", b"x", b"1a", b"7", b"a b", b"\\", b"!", b"range", b"q\"uote", b"\xff"]


def attach(rng, func, ids, p=0.3):
    """metadata attachments (`, !name !N`) on some instructions and terminators WITHOUT continuation lines of a function descriptor; `ids`: the IDs to refer to"""
    ret, name, pdesc, bdesc = func
    if bdesc == "-" or not ids:
        return func
    blocks = []
    for b in bdesc.split("/"):
        parts = b.split("^")
        for k in range(1, len(parts)):
            # (row 44, freeze: the grammar of the parser has no attachments on it — recorded finding C01-freeze-attachment-rejected)
            # (a switch / invoke / landingpad — a descriptor with a fourth field — carries them at the end of its last line)
            if parts[k].count(":") in (2, 3) and parts[k].split(":")[1] != "44" and rng.random() < p:
                atts = ["%s=%d" % (rng.choice(MD_NAMES).hex(), rng.choice(ids)) for _ in range(rng.choice([1, 1, 1, 2, 3]))]
                parts[k] += ":M" + "&".join(atts)
        blocks.append("^".join(parts))
    return ret, name, pdesc, "/".join(blocks)


def mutants(rng, text):
    """single-point mutants of a printed function text (bytes): (kind, text)"""
    out = []
    lines = text.split(b"\n")
    body = [k for k, l in enumerate(lines) if l.startswith(b"\t")]
    uses = [(k, m) for k in body for m in re.finditer(rb'%(?:"[^"]*"|[-a-zA-Z$._0-9]+)', lines[k]) if not lines[k].startswith(b"\t" + m.group(0) + b" = ")]
    defs = [(k, re.match(rb'\t(%(?:"[^"]*"|[-a-zA-Z$._0-9]+)) = ', lines[k])) for k in body]
    defs = [(k, m) for k, m in defs if m]
    def with_line(k, new):
        return b"\n".join(lines[:k] + [new] + lines[k + 1:])
    if uses:
        k, m = rng.choice(uses)
        out.append(("undefined-use", with_line(k, lines[k][:m.start()] + b"%undefined.x" + lines[k][m.end():])))
        k, m = rng.choice(uses)
        out.append(("quoted-use", with_line(k, lines[k][:m.start()] + b'%"' + m.group(0)[1:].strip(b'"') + b'"' + lines[k][m.end():])))
    if uses:
        # a function definition on its own defines no global: any `@name` operand is undefined (the global environment of M-Whole is empty here)
        k, m = rng.choice(uses)
        out.append(("global-operand", with_line(k, lines[k][:m.start()] + b"@" + m.group(0)[1:] + lines[k][m.end():])))
    flagged = [(k, m) for k in body for m in re.finditer(rb"\b(nuw|nsw|exact|volatile|inbounds|nnan|ninf|nsz|arcp|contract|afn|reassoc|fast) ", lines[k])]
    if flagged:
        # a flag keyword written twice (a list for nuw / nsw and the fast-math flags; a syntax error for `exact` and `volatile`)
        k, m = rng.choice(flagged)
        out.append(("flag-doubled", with_line(k, lines[k][:m.start()] + m.group(0) + m.group(0) + lines[k][m.end():])))
        k, m = rng.choice(flagged)
        out.append(("flag-dropped", with_line(k, lines[k][:m.start()] + lines[k][m.end():])))
        k, m = rng.choice(flagged)
        # a flag of another instruction family
        out.append(("flag-foreign", with_line(k, lines[k][:m.start()] + (b"exact " if m.group(1) != b"exact" else b"nuw ") + lines[k][m.end():])))
    if len(defs) >= 2:
        (k1, m1), (k2, m2) = rng.sample(defs, 2)
        out.append(("duplicate-def", with_line(k2, b"\t" + m1.group(1) + lines[k2][m2.end(1) + 1:])))
    nums = [(k, m) for k, m in defs if m.group(1)[1:].isdigit()]
    if nums:
        k, m = rng.choice(nums)
        out.append(("wrong-id", with_line(k, b"\t%" + str(int(m.group(1)[1:]) + rng.choice([1, 2, -1]) if int(m.group(1)[1:]) > 0 else 5).encode() + lines[k][m.end(1):])))
        k, m = rng.choice(nums)
        out.append(("implicit-result", with_line(k, b"\t" + lines[k][m.end():])))
    typed = [(k, m) for k in body for m in re.finditer(rb"\bi32 %", lines[k])]
    if typed:
        k, m = rng.choice(typed)
        out.append(("written-type-changed", with_line(k, lines[k][:m.start()] + b"i64 %" + lines[k][m.end():])))
    terms = [k for k in body if re.match(rb"\t(ret|br|unreachable)", lines[k])]
    if terms:
        k = rng.choice(terms)
        out.append(("terminator-deleted", b"\n".join(lines[:k] + lines[k + 1:])))
        k = rng.choice(terms)
        out.append(("terminator-doubled", b"\n".join(lines[:k + 1] + [lines[k]] + lines[k + 1:])))
    if len(body) >= 2:
        a, b_ = sorted(rng.sample(body, 2))
        sw = list(lines); sw[a], sw[b_] = sw[b_], sw[a]
        out.append(("lines-swapped", b"\n".join(sw)))
    labs = [k for k, l in enumerate(lines) if l and not l.startswith((b"\t", b"define", b"}"))]
    if labs:
        k = rng.choice(labs)
        out.append(("label-deleted", b"\n".join(lines[:k] + lines[k + 1:])))
    if body:
        k = rng.choice(body)
        # (`alloca T, i32 7` is the element-count form of alloca, which M-Core-3 does not have: two extra operands there)
        out.append(("extra-operand", with_line(k, lines[k] + (b", i32 7, i32 7" if b"= alloca " in lines[k] else b", i32 7"))))
        out.append(("comma-dropped", with_line(k, lines[k].replace(b", ", b" ", 1))))
    # switches (auxiliary generator: the draws above stay what they were)
    aux = random.Random(zlib.crc32(b"swm|" + text))
    cases = [k for k in body if lines[k].startswith(b"\t\t")]
    closes = [k for k in body if lines[k] == b"\t]"]
    if closes:
        k = aux.choice(closes)
        out.append(("cases-unclosed", b"\n".join(lines[:k] + lines[k + 1:])))
        out.append(("cases-closed-twice", b"\n".join(lines[:k + 1] + [lines[k]] + lines[k + 1:])))
        out.append(("case-appended", b"\n".join(lines[:k] + [b"\t\ti32 77, label %undefined.x"] + lines[k:])))
    if cases:
        k = aux.choice(cases)
        out.append(("case-doubled", b"\n".join(lines[:k + 1] + [lines[k]] + lines[k + 1:])))
        out.append(("case-deleted", b"\n".join(lines[:k] + lines[k + 1:])))
        m = re.match(rb"\t\t(\S+) (\S+), label ", lines[k])
        if m:
            out.append(("case-value-local", with_line(k, lines[k][:m.start(2)] + b"%undefined.x" + lines[k][m.end(2):])))
            out.append(("case-outside-switch", b"\n".join(lines[:closes[0] + 1] + [lines[k]] + lines[closes[0] + 1:]) if closes else text))
    dests = [k for k in body if lines[k].startswith(b"\t\tto label ")]
    if dests:
        k = aux.choice(dests)
        out.append(("dests-deleted", b"\n".join(lines[:k] + lines[k + 1:])))
        out.append(("dests-doubled", b"\n".join(lines[:k + 1] + [lines[k]] + lines[k + 1:])))
        out.append(("dests-one", with_line(k, lines[k].split(b" unwind ")[0])))
    clauses = [k for k in body if lines[k].startswith((b"\t\tcatch ", b"\t\tfilter "))]
    if clauses:
        k = aux.choice(clauses)
        out.append(("clause-kind-swapped", with_line(k, lines[k].replace(b"\t\tcatch ", b"\t\tfilter ") if lines[k].startswith(b"\t\tcatch ") else lines[k].replace(b"\t\tfilter ", b"\t\tcatch "))))
        out.append(("clause-doubled", b"\n".join(lines[:k + 1] + [lines[k]] + lines[k + 1:])))
        out.append(("cleanup-after-clause", b"\n".join(lines[:k + 1] + [b"\t\tcleanup"] + lines[k + 1:])))
        out.append(("clause-untyped", with_line(k, lines[k].split(b" ")[0] + b" null")))
    # atomic instructions: orderings and the fixed order of the optional keywords
    ords = [(k, m) for k in body for m in re.finditer(rb" (unordered|monotonic|acquire|release|acq_rel|seq_cst)\b", lines[k])]
    if ords:
        k, m = aux.choice(ords)
        out.append(("ordering-dropped", with_line(k, lines[k][:m.start()] + lines[k][m.end():])))
        out.append(("ordering-doubled", with_line(k, lines[k][:m.end()] + m.group(0) + lines[k][m.end():])))
        out.append(("ordering-misspelt", with_line(k, lines[k][:m.start()] + b" seqcst" + lines[k][m.end():])))
        out.append(("ordering-after-align", with_line(k, lines[k][:m.start()] + lines[k][m.end():] + m.group(0)) if b", align " in lines[k] else text))
    memops = [k for k in body if re.search(rb"(= load|\tstore) (?!atomic)", lines[k])]
    if memops:
        k = aux.choice(memops)
        out.append(("atomic-without-ordering", with_line(k, re.sub(rb"(load|store) ", rb"\1 atomic ", lines[k], count=1))))
        out.append(("ordering-without-atomic", with_line(k, re.sub(rb"(, align \d+)?$", rb" seq_cst\1", lines[k], count=1))))
    atomics = [k for k in body if re.search(rb"(load|store) atomic volatile |cmpxchg weak volatile ", lines[k])]
    if atomics:
        k = aux.choice(atomics)
        out.append(("keywords-reversed", with_line(k, lines[k].replace(b"atomic volatile ", b"volatile atomic ").replace(b"weak volatile ", b"volatile weak "))))
    rmws = [k for k in body if b"= atomicrmw " in lines[k]]
    if rmws:
        k = aux.choice(rmws)
        out.append(("rmw-op-dropped", with_line(k, re.sub(rb"atomicrmw (volatile )?\w+ ", rb"atomicrmw \1", lines[k], count=1))))
        out.append(("rmw-op-unknown", with_line(k, re.sub(rb"atomicrmw (volatile )?\w+ ", rb"atomicrmw \1mul ", lines[k], count=1))))
    # funclet pads: kind of the definition a pad reference names, label lists, unwind targets
    withins = [(k, m) for k in body for m in re.finditer(rb'(?:within|from) (%(?:"[^"]*"|[-a-zA-Z$._0-9]+))', lines[k])]
    valdefs = [m.group(1) for k, m in defs if not re.search(rb"= (catchswitch|catchpad|cleanuppad) ", lines[k])]
    if withins:
        k, m = aux.choice(withins)
        out.append(("pad-undefined", with_line(k, lines[k][:m.start(1)] + b"%undefined.x" + lines[k][m.end(1):])))
        out.append(("pad-none", with_line(k, lines[k][:m.start(1)] + b"none" + lines[k][m.end(1):])))
        if valdefs:
            out.append(("pad-other-kind", with_line(k, lines[k][:m.start(1)] + aux.choice(valdefs) + lines[k][m.end(1):])))
        others = [m2.group(1) for _, m2 in withins if m2.group(1) != m.group(1)]
        if others:
            out.append(("pad-other-pad", with_line(k, lines[k][:m.start(1)] + aux.choice(others) + lines[k][m.end(1):])))
    lablists = [k for k in body if re.search(rb"(indirectbr|catchswitch) .*\[", lines[k])]
    if lablists:
        k = aux.choice(lablists)
        out.append(("lablist-unclosed", with_line(k, lines[k].replace(b"]", b"", 1))))
        out.append(("lablist-trailing-comma", with_line(k, lines[k].replace(b"]", b", ]", 1))))
        out.append(("lablist-undefined-label", with_line(k, lines[k].replace(b"]", b", label %undefined.x]" if b"[label" in lines[k] else b"label %undefined.x]", 1))))
        out.append(("lablist-not-label", with_line(k, lines[k].replace(b"[label ", b"[i32 ", 1))))
    unw = [k for k in body if b" unwind " in lines[k] and not lines[k].startswith(b"\t\t")]
    if unw:
        k = aux.choice(unw)
        out.append(("unwind-dropped", with_line(k, lines[k].split(b" unwind ")[0])))
        out.append(("unwind-swapped", with_line(k, lines[k].split(b" unwind ")[0] + (b" unwind label %undefined.x" if lines[k].endswith(b"to caller") else b" unwind to caller"))))
        out.append(("unwind-misspelt", with_line(k, lines[k].split(b" unwind ")[0] + b" unwind to callee")))
    pads = [k for k in body if b"= landingpad " in lines[k]]
    if pads:
        k = aux.choice(pads)
        out.append(("cleanup-added", b"\n".join(lines[:k + 1] + [b"\t\tcleanup"] + lines[k + 1:])))
    return out
