"""C13 — a module can be printed from many goroutines at once."""
import glob, os, subprocess, time
from . import common as C
from . import regen

TRUSTED = [
    "Lean 4.33 kernel; axioms: propext, Quot.sound at most (see coverage.axioms_used)",
    "hand-written protocol model LlirModel/Conc.lean: print calls = one ID-assignment critical section under the mutex followed by unlocked reads; runs = all sequences "
    "respecting that per-call order (mutual exclusion of critical sections is sync.Mutex's contract); happens-before = program order within a call + lock hand-over, transitively",
    "the write policy and lock discipline are REGENERATED from the source by the go/ast fact extractor (harness facts): lock first / deferred unlock, SetID guarded by an "
    "ID comparison, no other SetID caller in package ir, every Type()/Succs() cache write under an if — the extractor recognises these idioms syntactically",
    "that a numbering pass over an already numbered object performs no write is C08/C17 idempotence",
    "Go memory model, fmt and strings.Builder internals are trusted; the Go race detector run (supporting, probabilistic) is not a proof",
]
ASSUMPTIONS = [
    "objects are built through the constructors or the parser, which pre-fill the lazily cached Typ fields (struct-literal construction with nil caches is outside the property)",
    "module-level printers (String/WriteTo) or function/block printers on an already numbered module; see the recorded finding for mixed-level printing of a never-printed module",
]
RULE = ("read-only printing oracle (deep fingerprint of every reachable field before/after printing an already numbered module) on corpus, catalogue and generated modules; race-detector runs: for every corpus module and 6 constructed modules with unnamed globals/locals/metadata, G goroutines call String / WriteTo / piecewise "
        "LLString+Ident+Type concurrently, from the never-printed and from the already-printed state, R rounds; every text must equal the sequential text; "
        "non-trivial = every (module, state) pair is a distinct schedule sample")


def facts(res, harness):
    r = regen.gen_facts(harness)
    for row in r["facts"].get("globalwrites") or []:
        res.violation("package-level variable %s of package %s is written in %s (printers run unlocked on many goroutines): %s" % (row["var"], row["pkg"], row["func"], row["stmt"]),
                      {"ops": [], "fact": row, "replay_hint": "cd /verif/harness && ./bin/harness facts | jq .globalwrites"})
    # a printing method that stores into its receiver races with every concurrent printer of the same object (same regenerated fact as C14's
    # `observers_do_not_store`; the lazily filled `Typ` caches and the refreshed `Successors` are the audited exceptions)
    for row in r["facts"].get("observerwrites") or []:
        if (row["method"] == "Succs" and row["field"] == "Successors") or row["type"] == "fmtWriter":
            continue
        res.violation("(%s).%s in package %s stores into its receiver's field %s (line %d): printers run unlocked on many goroutines, a store while printing is a data race" %
                      (row["type"], row["method"], row["pkg"], row["field"], row["line"]), {"ops": [], "fact": row, "replay_hint": "cd /verif/harness && ./bin/harness facts | jq .observerwrites"})
    return {"lock_facts": r["facts"]["lock"], "cache_writers": len(r["facts"]["typecache"].get("cacheWriters") or []),
            "package_level_writes": r["facts"].get("globalwrites") or [],
            "facts_regenerated_changed": r["facts_regenerated_changed"]}


def gen(tier, rng, harness=None):
    """deterministic companion of the race runs: once the numbering passes (the only writers, which run under the locks) are done, printing at
    every level must leave every reachable field unchanged (deep fingerprint before/after) — on the corpus, the catalogue and generated modules"""
    from . import modprops, catalog
    from .modprops import hx
    lines = ["!conc.readonly %s" % hx(t) for t in modprops.corpus_texts()]
    for _, text, _ in catalog.STRUCTURED + catalog.NAMED_NONSTRUCT + catalog.inst_entries() + catalog.DI + catalog.flag_cross_entries() + catalog.addrspace_cross_entries():
        lines.append("!conc.readonly %s" % hx(text))
    for m, text, sk in modprops.gen_modules(rng, 60 if tier == "quick" else 3000):
        lines.append("!conc.readonly %s" % hx(text))
    return lines


def nontrivial(ln, out):
    return len(ln) > 100


def build_racer():
    with C.Lock("racer"):
        env = dict(C.GOENV, CGO_ENABLED="1")
        rc, out = C.sh(["go", "build", "-race", "-tags", "verif", "-o", os.path.join(C.HARNESS, "bin", "racer"), "./racer"], cwd=C.HARNESS, env=env, timeout=900)
        if rc != 0:
            raise C.BrokenTie("go build -race of the racer failed:\n" + out[-2000:])
    return os.path.join(C.HARNESS, "bin", "racer")


def run_racer(racer, g, rounds, mode, files, timeout=1500):
    p = subprocess.run([racer, str(g), str(rounds), mode] + files, stdout=subprocess.PIPE, stderr=subprocess.PIPE, text=True, timeout=timeout,
                       env=dict(os.environ, GORACE="halt_on_error=0 exitcode=66"))
    cases = [l for l in p.stdout.splitlines() if l.startswith("case ")]
    races = p.stderr.count("WARNING: DATA RACE")
    mism = [l for l in cases if l.endswith("MISMATCH")]
    return p.returncode, cases, races, mism, p.stderr


def extra(res, findings, tier, rng, harness, driver):
    racer = build_racer()
    files = sorted(glob.glob(os.path.join(C.VERIF, "corpus", "ll", "*.ll")))
    g, rounds = (8, 3) if tier == "quick" else (16, 40)
    t0 = time.time()
    rc, cases, races, mism, err = run_racer(racer, g, rounds, "module", files)
    if races or mism or rc not in (0,):
        first = err[err.find("WARNING: DATA RACE"):][:3000] if races else "\n".join(mism[:5])
        res.violation("concurrent printing: %d data race report(s), %d text mismatch(es), exit %d; first: %s" % (races, len(mism), rc, first[:1500]),
                      {"ops": [], "racer_cmd": "%s %d %d module <corpus/ll/*.ll>" % (racer, g, rounds), "race_report": first})
    # mixed-level printing from the never-printed state: recorded finding
    rc2, cases2, races2, mism2, err2 = run_racer(racer, 8, 2, "mixed", files[:6] + [x for x in files[6:] if "lazy" in x])
    if races2:
        # only races whose WRITE side is the module's global numbering (GlobalIdent.SetID) belong to the recorded finding
        reports = ["WARNING: DATA RACE" + r for r in err2.split("WARNING: DATA RACE")[1:]]
        known = [r for r in reports if "GlobalIdent).SetID" in r]
        other = [r for r in reports if "GlobalIdent).SetID" not in r]
        f = findings.match("C13", "racer.mixed", "mixed-level-fresh-print")
        if known and f:
            res.known[f["id"]] = (len(known), f["what"])
        elif known:
            res.violation("mixed-level concurrent printing races: " + known[0][:1500], {"ops": [], "racer_cmd": "%s 8 2 mixed ..." % racer, "race_report": known[0][:3000]})
        if other:
            res.violation("concurrent printing (mixed levels): %d data race report(s) outside the recorded finding; first: %s" % (len(other), other[0][:1500]),
                          {"ops": [], "racer_cmd": "%s 8 2 mixed <corpus files>" % racer, "race_report": other[0][:3000]})
    # block-level printing alone, on freshly parsed modules (nothing was numbered, no lazily cached type settled under a lock): Block.LLString from every goroutine
    rc3, cases3, races3, mism3, err3 = run_racer(racer, 8, 3 if tier == "quick" else 20, "blocks", files)
    if races3 or mism3 or rc3 not in (0,):
        first = err3[err3.find("WARNING: DATA RACE"):][:3000] if races3 else "\n".join(mism3[:5])
        res.violation("concurrent printing of basic blocks (Block.LLString on a freshly parsed module): %d data race report(s), %d text mismatch(es), exit %d; first: %s"
                      % (races3, len(mism3), rc3, first[:1500]), {"ops": [], "racer_cmd": "%s 8 3 blocks <corpus/ll/*.ll>" % racer, "race_report": first})
    cases = cases + cases3
    return {"evaluations": len(cases) + len(cases2), "distinct_nontrivial": len(set(cases)) + len(set(cases2)), "rule": RULE,
            "samples": cases[:3] + cases2[:2], "goroutines": g, "rounds": rounds, "race_reports_module_mode": races, "race_reports_mixed_mode": races2,
            "racer_wall_s": round(time.time() - t0, 1)}
