"""LLVM 14 itself as the reference for "valid LLVM IR" and "denotes the same module" (llvm-as / llvm-dis are part of the llvm-14 package of the
sandbox). Used to VALIDATE, never to prove: (1) the text llir prints for a module LLVM accepts must be accepted by LLVM and must come back from
`llvm-as | llvm-dis` as the same canonical text as the input does; (2) the hand-transcribed LLVMSpec of the typing models is compared with what
LLVM's own verifier accepts. When the tools are missing the stage reports `available: false` and checks nothing."""
import os, re, shutil, subprocess
from concurrent.futures import ThreadPoolExecutor

AS = shutil.which("llvm-as-14") or shutil.which("llvm-as")
DIS = shutil.which("llvm-dis-14") or shutil.which("llvm-dis")


def available():
    return bool(AS and DIS)


def assemble(text, verify=True):
    """-> (bitcode or None, status, message); status in ok | invalid | crash. verify=False: LLVM's PARSER only (numbering, typing of operands,
    undefined / duplicate names), without the verifier (dominance, terminators ...)"""
    try:
        p = subprocess.run([AS] + ([] if verify else ["-disable-verify"]) + ["-o", "-", "-"], input=text.encode("latin-1"), stdout=subprocess.PIPE, stderr=subprocess.PIPE, timeout=60)
    except subprocess.TimeoutExpired:
        return None, "crash", "timeout"
    if p.returncode == 0:
        return p.stdout, "ok", ""
    err = p.stderr.decode("latin-1", errors="replace")
    if p.returncode < 0 or "PLEASE submit a bug report" in err or "Stack dump" in err:
        return None, "crash", err[:200]
    return None, "invalid", err.strip().split("\n")[0][:300] if "error:" in err.split("\n")[0] else err.strip()[:300]


def canon(text):
    """canonical text of a module as LLVM prints it back (-> (text or None, status, message))"""
    bc, st, msg = assemble(text)
    if bc is None:
        return None, st, msg
    q = subprocess.run([DIS, "-o", "-", "-"], input=bc, stdout=subprocess.PIPE, stderr=subprocess.PIPE, timeout=60)
    if q.returncode != 0:
        return None, "crash", q.stderr.decode("latin-1", errors="replace")[:200]
    out = q.stdout.decode("latin-1")
    out = "\n".join(l for l in out.split("\n") if not l.startswith("; ModuleID") and not l.startswith("source_filename"))
    return out, "ok", ""


# inputs on which llir and LLVM 14 differ BY THE PROPERTIES' OWN DEFINITIONS (not compared):
#  * `s0x` literals: property C09 defines them as two's complement AT THE TYPE'S WIDTH (what llir does); LLVM 14 truncates the digits to their active
#    bits first (`i4 s0x7` is -1 for LLVM, 7 for C09)
def uniqued_md_cycle(text):
    """does the module define a cycle through NON-distinct metadata nodes only? LLVM uniques such nodes while their operands are still forward references,
    so the graph it builds depends on the ORDER of the definitions; llir prints definitions by ID (C20), which LLVM may then read as a different graph.
    LLVM's own printer never emits such modules (it makes self-referential nodes distinct)."""
    adj, dist = {}, set()
    for m in re.finditer(r"(?m)^!(\d+) = (distinct )?!\{(.*)\}\s*$", text):
        i = m.group(1)
        if m.group(2):
            dist.add(i)
        adj[i] = re.findall(r"!(\d+)", m.group(3))
    color = {}
    def dfs(u):
        color[u] = 1
        for v in adj.get(u, []):
            if v in dist or v not in adj:
                continue
            if color.get(v) == 1 or (color.get(v) is None and dfs(v)):
                return True
        color[u] = 2
        return False
    return any(color.get(u) is None and u not in dist and dfs(u) for u in list(adj))


def excluded(text):
    if "s0x" in text:
        return "s0x literal (C09 defines the value at the type's width; LLVM 14 reads the active bits)"
    if uniqued_md_cycle(text):
        return "cycle through non-distinct metadata nodes (LLVM's reading depends on the order of the definitions)"
    return None


def md_canon(text):
    """order- and numbering-independent summary of the metadata of an `llvm-dis` output: every numbered node gets a structural hash (its text with
    references replaced by the referenced nodes' hashes, refined a few rounds so that cycles and shared nodes are told apart); returns the sorted
    list of (named metadata name, operand hashes), the multiset of node hashes, and the hashes referenced from non-metadata lines"""
    import hashlib
    defs, named, other = {}, [], []
    for l in text.split("\n"):
        m = re.match(r"^!(\d+) = (.*)$", l)
        if m:
            defs[m.group(1)] = m.group(2)
            continue
        m = re.match(r"^!([^ =]+) = !\{(.*)\}$", l)
        if m:
            named.append((m.group(1), re.findall(r"!(\d+)", m.group(2))))
            continue
        other.append(l)
    h = {k: "" for k in defs}
    for _ in range(6):
        nh = {}
        for k, body in defs.items():
            t = re.sub(r"!(\d+)", lambda mm: "<" + h.get(mm.group(1), "?") + ">", body)
            nh[k] = hashlib.sha1(t.encode("latin-1")).hexdigest()[:16]
        h = nh
    refd = sorted(re.sub(r"!(\d+)", lambda mm: "<" + h.get(mm.group(1), "?") + ">", l) for l in other if re.search(r"!\d+", l))
    return (sorted((n, tuple(h.get(x, "?") for x in ops)) for n, ops in named), sorted(h.values()), refd)


def _md_only_diff(a, b):
    """do the two canonical texts differ only in metadata lines (numbering / order of named metadata: llir orders named metadata by natural sort, C20,
    LLVM keeps the input order and numbers nodes by first use)?"""
    la = [l for l in a.split("\n") if not l.startswith("!")]
    lb = [l for l in b.split("\n") if not l.startswith("!")]
    strip = lambda l: re.sub(r"![0-9]+", "!N", l)
    return [strip(l) for l in la] == [strip(l) for l in lb]


def compare(pairs, workers=16):
    """pairs: list of (name, x, y-or-None, llir_outcome). Returns (stats, problems); a problem is (name, kind, detail, x)."""
    def work(p):
        name, x, y, outcome = p
        ex = excluded(x)
        if ex:
            return ("excluded", None)
        cx, st, msg = canon(x)
        if st == "crash":
            return ("reference-crash", None)
        if cx is None:
            return ("input-not-valid-llvm", None)
        if y is None:
            return ("problem", (name, "llir rejects (or fails to print) a module LLVM 14 accepts", outcome, x))
        cy, st2, msg2 = canon(y)
        if st2 == "crash":
            return ("reference-crash", None)
        if cy is None:
            return ("problem", (name, "the printed text is not valid LLVM IR", msg2, x))
        if cx == cy:
            return ("same", None)
        if _md_only_diff(cx, cy) and md_canon(cx) == md_canon(cy):
            return ("same-up-to-metadata-numbering", None)
        import difflib
        d = "\n".join(list(difflib.unified_diff(cx.split("\n"), cy.split("\n"), lineterm="", n=0))[2:12])
        return ("problem", (name, "LLVM reads the printed text as a different module", d, x))
    with ThreadPoolExecutor(workers) as ex:
        res = list(ex.map(work, pairs))
    stats, problems = {}, []
    for k, pr in res:
        stats[k] = stats.get(k, 0) + 1
        if pr:
            problems.append(pr)
    return stats, problems


def validate_spec(pairs, workers=16):
    """pairs: (name, control text, text with the result USED at the expected type). Where LLVM accepts the control text it must accept the use too;
    returns (stats, mismatches [(name, message, use text)])."""
    def work(p):
        name, ctl, use = p
        _, st, msg = assemble(ctl)
        if st == "crash":
            return ("reference-crash", None)
        if st != "ok":
            return ("not-expressible-in-llvm", None)
        _, st2, msg2 = assemble(use)
        if st2 == "ok":
            return ("confirmed", None)
        if st2 == "crash":
            return ("reference-crash", None)
        return ("mismatch", (name, msg2, use))
    with ThreadPoolExecutor(workers) as ex:
        res = list(ex.map(work, pairs))
    stats, bad = {}, []
    for k, b in res:
        stats[k] = stats.get(k, 0) + 1
        if b:
            bad.append(b)
    return stats, bad
