"""C09 — integer literals keep their exact value through print and parse."""
from .gens import hx

TRUSTED = [
    "Lean 4.33 kernel; axioms: propext, Classical.choice, Quot.sound at most (see coverage.axioms_used)",
    "hand-written Lean model LlirModel/IntLit.lean + Digits.lean of ir/constant/const_int.go (NewIntFromString, Ident)",
    "math/big contracts modelled: Int.SetString (optional sign, digits of the base, whole string), Int.Text, Int.Bit (two's complement), Int.Int64 (low 64 bits)",
    "the hex/decimal entropy heuristic is evaluated with Lean's IEEE-754 Float in the driver only; every theorem quantifies over BOTH outcomes of the heuristic, so no proof depends on floating point",
    "Go harness ops_lit.go, llir/ll lexer/parser for the asm.ParseString leg",
]
ASSUMPTIONS = ["integer token class of llir/ll: -?[0-9]+ | [us]0x[0-9A-Fa-f]+ (validated by the int.asm stream)"]
RULE = ("ops = Ident / NewIntFromString / asm.ParseString('@g = global iW LIT') on generated (width, value) and (width, spelling) pairs: all values of "
        "widths 1..8 in thorough, boundaries +-2^(w-1), 2^w-1, 0x1000 neighbourhood, repeated-digit values straddling each entropy threshold, random; "
        "non-trivial = distinct op whose value is not a single decimal digit")

WIDTHS = [1, 2, 3, 4, 5, 6, 7, 8, 15, 16, 17, 31, 32, 33, 63, 64, 65, 127, 128, 129, 1024]


def interesting_values(rng, w):
    vs = [0, 1, -1, 2, 9, 10, 4095, 4096, 4097, 0x1000, 0xFFFF, 0x10000, 65535, 2**(w - 1) - 1 if w > 1 else 0, 2**(w - 1), -(2**(w - 1)),
          2**w - 1, 2**w, -(2**w)]
    for hl in range(4, 18):           # hex lengths 4..17: few distinct hex digits, so the heuristic is near its thresholds
        for _ in range(2):
            k = rng.randint(1, 5)
            digs = [rng.choice("0123456789ABCDEF") for _ in range(k)]
            s = rng.choice("123456789ABCDEF") + "".join(rng.choice(digs) for _ in range(hl - 1))
            vs.append(int(s, 16))
        vs.append(int("8" + "0" * (hl - 1), 16))
        vs.append(int("F" * hl, 16))
        vs.append(int("7" + "F" * (hl - 1), 16))
    for dl in range(4, 22):
        vs.append(int(rng.choice("123456789") + "0" * (dl - 1)))
        vs.append(int("".join(rng.choice("19") for _ in range(dl))))
    vs += [rng.randint(-2**w, 2**w) for _ in range(10)]
    vs += [rng.randint(0, 2**min(w, 70)) for _ in range(10)]
    return vs


def gen(tier, rng, harness=None):
    lines = []
    if tier == "thorough":
        for w in range(1, 9):
            for x in range(-(2**w), 2**w + 1):
                lines.append("int.ident %d %d" % (w, x))
                lines.append("!int.rt %d %d" % (w, x))
                if 0 <= x < 2**w:
                    for form in ("dec", "dec0", "u0x", "u0xl", "s0x"):
                        lines.append("!int.sem %d %s %d" % (w, form, x))
                elif x < 0:
                    lines.append("!int.sem %d dec %d" % (w, x))
        for x in range(4096 - 64, 70000):
            lines.append("int.ident 32 %d" % x)
    reps = 3 if tier == "quick" else 60
    for _ in range(reps):
        for w in WIDTHS + [rng.randint(1, 4096)]:
            for x in interesting_values(rng, w):
                lines.append("int.ident %d %d" % (w, x))
                lines.append("!int.rt %d %d" % (w, x))      # every value, representable in iW or not (the theorem has no guard)
                if x >= 0 and w > 1:
                    form = rng.choice(["dec", "dec0", "u0x", "u0xl", "s0x"])
                    if form == "s0x" and x >= 2**w:
                        form = "u0x"
                    lines.append("!int.sem %d %s %d" % (w, form, x))
                elif w > 1:
                    lines.append("!int.sem %d %s %d" % (w, rng.choice(["dec", "dec0"]), x))
            # parser on arbitrary spellings (valid and malformed)
            for _ in range(6):
                k = rng.random()
                if k < 0.3:
                    t = rng.choice(["", "-", "+", "u0x", "s0x", "0x10", "true", "false", "True", "1_000", "+5", "--5", "u0x-5", "s0x+5", "u0xG",
                                    "12a", "s0x80", "s0xFF", "s0x7F", "u0xff", "00012", "-0", "s0x0", "u0x0000001"])
                elif k < 0.6:
                    t = rng.choice(["", "-"]) + "".join(rng.choice("0123456789") for _ in range(rng.randint(1, 30)))
                else:
                    t = rng.choice(["u0x", "s0x"]) + "".join(rng.choice("0123456789abcdefABCDEF") for _ in range(rng.randint(1, 40)))
                op = rng.choice(["int.parse", "int.asm"])
                lines.append("%s %d %s" % (op, w, hx(t.encode())))
    return lines


def extra(res, findings, tier, rng, harness, driver):
    """LLVM 14 as the reader of integer literals: `@g = global iW <literal>` in every literal form (signed decimal, unsigned decimal, u0x, true/false;
    `s0x` is excluded: C09 defines it at the type's width, LLVM 14 reads the active bits) — llir's reading and the literal llir prints must both
    denote the value LLVM reads"""
    from . import refstage
    texts = []
    n = 150 if tier == "quick" else 4000
    for i in range(n):
        w = rng.choice([1, 2, 7, 8, 16, 31, 32, 33, 63, 64, 65, 100, 128, 129, 256])
        x = rng.choice([0, 1, 2**w - 1, 2**(w - 1), 2**(w - 1) - 1, rng.getrandbits(w), rng.getrandbits(max(1, w // 2))]) % (2**w)
        sx = x - 2**w if x >= 2**(w - 1) else x
        forms = [str(x), str(sx), "u0x%X" % x, "u0x%x" % x, "u0x00%X" % x]
        if w == 1:
            forms += ["true", "false"]
        texts.append(("i%d-%s" % (w, i), "@g = global i%d %s\n" % (w, rng.choice(forms))))
    return refstage.run(res, findings, harness, "C09", texts)


def nontrivial(ln, model_out):
    p = ln.split()
    return len(p) >= 3 and len(p[2]) > 1


def search(ln, a, b, harness, driver):
    from . import common as C
    p = ln.split()
    cands = []
    if p[0] == "int.ident":
        cands.append("!int.rt %s %s" % (p[1], p[2]))
        try:
            x = int(p[2])
            for d in (x - 1, x + 1, abs(x)):
                cands.append("!int.rt %s %d" % (p[1], d))
        except ValueError:
            pass
    elif p[0] in ("int.parse", "int.asm"):
        # the parser disagrees with the model on a spelling: if the spelling is one of the accepted forms, its meaning is the oracle
        try:
            t = bytes.fromhex(p[2]).decode() if p[2] != "-" else ""
        except ValueError:
            return None
        w = int(p[1])
        try:
            if t.startswith("u0x"): cands.append("!int.sem %d %s %d" % (w, "u0x" if t[3:].upper() == t[3:] else "u0xl", int(t[3:], 16)))
            elif t.startswith("s0x") and int(t[3:], 16) < 2**w: cands.append("!int.sem %d s0x %d" % (w, int(t[3:], 16)))
            else:
                cands.append("!int.sem %d dec %d" % (w, int(t)))
            for v in (8, 9, 10, 64, 127, 100000):
                cands.append("!int.sem %d dec0 %d" % (max(w, 32), v))
        except ValueError:
            pass
    if not cands:
        return None
    impl = C.run_lines([harness, "run"], cands)
    model = C.run_lines([driver], cands)
    for c, x, y in zip(cands, impl, model):
        if x.split()[0] in ("FAIL", "panic") and y == "ok":
            return {"ops": [c], "impl": [x], "model": [y]}
    return None
