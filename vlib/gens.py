"""Seeded generators shared by property modules."""
import random

def hx(b):
    return b.hex() if b else "-"

IDENT_ALPHA = b"abzAZ$-._019"
SPECIAL = [b"\\", b'"', b"\\5C", b"\\\\", b"\\3", b"\\31", b"\\22", b" ", b"\t", b"\n", b"\x01", b"\x7f", b"\x80", b"\xff",
           b"\xe4\xb8\x96", b"#", b"@", b"%", b"!", b":", b"0", b"9", b"-", b"+", b"x", b"\\g", b"\\G1", b"\\0", b"\\1g"]

def rand_name(rng, maxlen=12, allow_nul=False):
    k = rng.random()
    if k < 0.15:   # all digits
        n = rng.choice([1, 2, 3, 5, 18, 19, 20, 21, 25])
        s = bytes(rng.choice(b"0123456789") for _ in range(rng.randint(1, n)))
        if rng.random() < 0.3: s = b"0" * rng.randint(1, 3) + s
        if rng.random() < 0.2: s = rng.choice([b"-", b"+"]) + s
        return s
    if k < 0.25:   # boundary numbers
        return str(rng.choice([2**63 - 1, 2**63, 2**63 + 1, 2**64 - 1, 2**64, 2**64 + 1, 0, 1, 42, -1, -0,
                               -2**63, -2**63 - 1])).encode()
    if k < 0.32:
        return rng.choice([b"-0", b"-00", b"+0", b"-", b"+", b"1abc", b"0x1", b"1.5", b"1e5", b"9-", b"007", b"7"])
    if k < 0.6:    # identifier-like
        return bytes(rng.choice(IDENT_ALPHA) for _ in range(rng.randint(1, maxlen)))
    if k < 0.85:   # mix of specials
        parts = [rng.choice(SPECIAL + [bytes([rng.choice(IDENT_ALPHA)])]) for _ in range(rng.randint(1, 6))]
        return b"".join(parts)
    lo = 0 if allow_nul else 1
    return bytes(rng.randint(lo, 255) for _ in range(rng.randint(1, maxlen)))

def rand_bytes(rng, maxlen=16, lo=0):
    k = rng.random()
    if k < 0.5:
        return b"".join(rng.choice(SPECIAL + [b"a", b"Z", b"5"]) for _ in range(rng.randint(0, 6)))
    return bytes(rng.randint(lo, 255) for _ in range(rng.randint(0, maxlen)))
