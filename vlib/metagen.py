"""generator of M-Meta sections (descriptors: lean/LlirModel/Drv/MetaOps.lean): numbered tuple definitions with null / reference / string / typed constant / nested
tuple fields (forward, backward and self references, cycles), distinct or not, sparse IDs, named metadata; plus text-level mutants for the parser stream."""
import re
from . import gens, core3gen

VAL_TYS = ["i1", "i8", "i32", "i64", "i33", "p0(i8)", "p1(i64)", "V2(i32)", "a2(i8)", "s(i32,i8)"]


def const_for(rng, t):
    if t.startswith("a"):
        n = int(t[1]); e = t[3:-1]
        return rng.choice(["z", "u", "A(%s)" % ",".join("%s=%s" % (e, core3gen.const_for(rng, e)) for _ in range(n))])
    if t.startswith("s("):
        es = ["i32", "i8"]
        return rng.choice(["z", "u", "S(%s)" % ",".join("%s=%s" % (e, core3gen.const_for(rng, e)) for e in es)])
    return core3gen.const_for(rng, t)


def gen_string(rng):
    n = rng.choice([0, 1, 2, 5, 12])
    return bytes(rng.choice([rng.randrange(256), rng.choice(b'ab "\\\n\x00\xff!{},')]) for _ in range(n))


def gen_field(rng, ids, depth):
    k = rng.random()
    if k < 0.12:
        return "n"
    if k < 0.45 and ids:
        return "r%d" % rng.choice(ids)
    if k < 0.62:
        return "s%s." % gen_string(rng).hex()
    if k < 0.85 or depth >= 3:
        t = rng.choice(VAL_TYS)
        return "v%s=%s" % (t, const_for(rng, t))
    return "t(%s)" % ",".join(gen_field(rng, ids, depth + 1) for _ in range(rng.randint(0, 3)))


def md_name(rng):
    n = bytes(c for c in gens.rand_name(rng, 6) if c != 0) or b"m"
    return rng.choice([n, n, b"llvm.dbg.cu", b"llvm.module.flags", b"9lives", b"x9", b"x10", b"x2", b"a b", b"\\", b"!", b"7"])


def gen_sec(rng, max_defs=6, sort=True):
    """-> (named descriptor, defs descriptor); sort=False keeps definitions and names in random order"""
    nd = rng.randint(0, max_defs)
    if rng.random() < 0.5:
        ids = list(range(nd))
    else:
        ids = sorted(rng.sample(range(0, 40), nd)) if rng.random() < 0.8 else sorted(rng.sample([0, 1, 2**31, 2**32, 2**32 + 1, 2**63 - 1, 7, 10**18], min(nd, 8)))
    order = list(ids)
    if not sort:
        rng.shuffle(order)
    defs = []
    for i in order:
        fs = [gen_field(rng, ids, 0) for _ in range(rng.randint(0, 4))]
        defs.append("%d:%s:%s" % (i, "d" if rng.random() < 0.3 else "n", ",".join(fs) or "-"))
    names = []
    for _ in range(rng.randint(0, 3) if ids or rng.random() < 0.3 else 0):
        n = md_name(rng)
        if n not in names:
            names.append(n)
    if sort:
        from . import modgen
        names = [x.encode("latin-1") for x in modgen.natsorted([n.decode("latin-1") for n in names])]
    else:
        rng.shuffle(names)
    named = ["%s:%s" % (n.hex(), ",".join(str(rng.choice(ids)) for _ in range(rng.randint(0, 3))) if ids else "") for n in names]
    return "|".join(named) or "-", "|".join(defs) or "-"


def mutants(rng, text):
    """single-point mutants of a printed section (bytes): (kind, text)"""
    out = []
    lines = [l for l in text.split(b"\n")]
    dl = [k for k, l in enumerate(lines) if re.match(rb"!\d+ = ", l)]
    nl = [k for k, l in enumerate(lines) if l.startswith(b"!") and k not in dl]
    uses = [(k, m) for k in dl + nl for m in re.finditer(rb"!(\d+)", lines[k]) if m.start() > 0]

    def with_line(k, new):
        return b"\n".join(lines[:k] + [new] + lines[k + 1:])
    if uses:
        k, m = rng.choice(uses)
        out.append(("undefined-ref", with_line(k, lines[k][:m.start()] + b"!987654" + lines[k][m.end():])))
    if uses:
        k, m = rng.choice(uses)
        out.append(("ref-leading-zeros", with_line(k, lines[k][:m.start()] + b"!" + rng.choice([b"0", b"00", b"000"]) + m.group(1) + lines[k][m.end():])))
    if len(dl) >= 2:
        a, b = rng.sample(dl, 2)
        ida = re.match(rb"!(\d+)", lines[a]).group(0)
        out.append(("duplicate-id", with_line(b, ida + lines[b][lines[b].index(b" = "):])))
        sw = list(lines); sw[a], sw[b] = sw[b], sw[a]
        out.append(("defs-swapped", b"\n".join(sw)))
    if dl:
        k = rng.choice(dl)
        out.append(("def-doubled", b"\n".join(lines[:k + 1] + [lines[k]] + lines[k + 1:])))
        out.append(("def-deleted", b"\n".join(lines[:k] + lines[k + 1:])))
        out.append(("renumbered", with_line(k, b"!" + str(rng.choice([0, 1, 5, 77])).encode() + lines[k][lines[k].index(b" = "):])))
        out.append(("brace-dropped", with_line(k, lines[k][:-1])))
        out.append(("extra-after", with_line(k, lines[k] + b", !0")))      # (a bare word would be an INVALID_TOKEN, which llir/ll's parser skips)
        if b", " in lines[k]:
            out.append(("comma-dropped", with_line(k, lines[k].replace(b", ", b" ", 1))))
            out.append(("trailing-comma", with_line(k, lines[k][:-1] + b", }")))
        out.append(("distinct-toggled", with_line(k, lines[k].replace(b" = distinct !{", b" = !{") if b" = distinct !{" in lines[k] else lines[k].replace(b" = !{", b" = distinct !{", 1))))
    if nl:
        k = rng.choice(nl)
        out.append(("named-doubled", b"\n".join(lines[:k + 1] + [lines[k]] + lines[k + 1:])))
        if len(nl) >= 2:
            a, b = rng.sample(nl, 2)
            sw = list(lines); sw[a], sw[b] = sw[b], sw[a]
            out.append(("named-swapped", b"\n".join(sw)))
            # the second definition takes the first one's name: merged
            out.append(("named-same-name", with_line(b, lines[a][:lines[a].index(b" = ")] + lines[b][lines[b].index(b" = "):])))
    rev = [l for l in lines if l]
    rng.shuffle(rev)
    out.append(("all-shuffled", b"\n".join(rev) + b"\n"))
    return out


def print_lines(rng, n):
    """constructed sections: model text == implementation text byte for byte; printed text accepted, a fixpoint, references are the listed definitions"""
    out = []
    for _ in range(n):
        nd, dd = gen_sec(rng)
        out += ["meta.print %s %s" % (nd, dd), "!meta.rt %s %s" % (nd, dd)]
    return out


def parse_stream(rng, driver, n):
    """the proved line readers + translation against the real parser: on printed sections and on their single-point mutants (acceptance and re-printed text)"""
    from . import common as C
    secs = [gen_sec(rng) for _ in range(n)]
    outs = C.run_lines([driver], ["meta.print %s %s" % s for s in secs], shards=8)
    lines = []
    for o in outs:
        if not o or o in ("-", "unknown-op"):
            continue
        t = bytes.fromhex(o)
        lines.append("meta.parse " + t.hex())
        for kind, mt in mutants(rng, t):
            lines.append("meta.parse " + (mt.hex() or "-"))
    return lines
