"""C10 — floating-point literals keep their exact bit pattern."""
from . import common as C

TRUSTED = [
    "Lean 4.33 kernel; axioms: propext, Quot.sound at most (see coverage.axioms_used)",
    "hand-written Lean model LlirModel/FloatLit.lean: IEEE-754 interchange decode/encode for any exponent/fraction width (half, double, fp128; float = double patterns) and "
    "x86_fp80 with explicit integer bit, over the library's value carrier (sign + zero/inf/finite dyadic/NaN-without-payload); big.Float is assumed to keep values normalised",
    "NOT modelled, tied by correspondence and by the exact-rational oracle only: decimal parsing with rounding (big.ParseFloat), the decimal-only-when-exact test "
    "(mewmew/float IsExact16/32/64 + strconv shortest formatting), float rounding of non-float double patterns, non-canonical x86_fp80 encodings, ppc_fp128 pairs",
    "Go harness ops_float.go (bits recomputed by an independent route; decimal literals checked with math/big.Rat)",
]
ASSUMPTIONS = ["the bit-pattern model takes hex literals at the digit counts LLVM prints (16 for 0x, 4 for 0xH, 20 for 0xK, 32 for 0xL/0xM); shorter literals are tied to those by the `flt.short` oracle (LLVM's lexer split)"]
RULE = ("bit patterns per kind: all 2^16 half patterns in thorough; for double/float/fp128/x86_fp80 every (sign, exponent class) x boundary fractions (0, 1, max, msb, "
        "alternating) plus random patterns; float patterns with zero low 29 bits; NaNs quiet/signalling with payloads; exact decimal literals (k/2^j) for half/float/double; "
        "model and implementation compared on the hexadecimal spelling of the printed literal; the oracle demands identical value after print->parse, identical bits "
        "when hexadecimal is printed and an exactly denoting literal when decimal is printed; non-trivial = distinct pattern that is not +0")


def patterns(rng, E, M, n):
    total = 1 + E + M
    out = set()
    exps = [0, 1, 2, (1 << (E - 1)) - 1, (1 << (E - 1)), (1 << E) - 2, (1 << E) - 1] + [rng.randrange(1 << E) for _ in range(6)]
    fracs = [0, 1, 2, (1 << M) - 1, 1 << (M - 1), (1 << (M - 1)) + 1, (1 << (M - 1)) - 1, int("55" * 20, 16) % (1 << M)] + [rng.randrange(1 << M) for _ in range(6)]
    for s in (0, 1):
        for e in exps:
            for f in fracs:
                out.add((s << (E + M)) | (e << M) | f)
    while len(out) < n:
        out.add(rng.getrandbits(total))
    return sorted(out)


def half_to_double_bits(h):
    import struct
    f = struct.unpack("<e", struct.pack("<H", h))[0]
    return struct.unpack("<Q", struct.pack("<d", f))[0]


def gen(tier, rng, harness=None):
    # ppc_fp128: an INFINITE high double with a NaN (or any) low double is an infinity — LLVM classifies the pair by its high double
    ppc_inf = ["!flt.rt ppc_fp128 %s%s" % (h, l) for h in ("7FF0000000000000", "FFF0000000000000") for l in ("7FF8000000000000", "FFF8000000000001", "0000000000000001", "3FF0000000000000")]
    lines = []
    n = 150 if tier == "quick" else 5000
    # prefixed hexadecimal literals with FEWER digits than the full width, every length, two digit patterns: read as LLVM's lexer splits them
    pat = "123456789ABCDEF0FEDCBA9876543210"
    for k, full in (("half", 4), ("float", 16), ("double", 16), ("x86_fp80", 20), ("fp128", 32), ("ppc_fp128", 32)):
        for ln in range(1, full):
            lines.append("!flt.short %s %s" % (k, pat[-ln:]))
            lines.append("!flt.short %s %s" % (k, pat[:ln]))
    # the legacy 16-digit spelling of half values (and float values are always spelled that way)
    hs = range(1 << 16) if tier == "thorough" else patterns(rng, 5, 10, 3 * n)
    for h in hs:
        e, fr = (h >> 10) & 0x1F, h & 0x3FF
        if e == 0x1F and fr != 0:
            continue
        lines.append("!flt.spell16 half %04X %016X" % (h, half_to_double_bits(h)))
    if tier == "thorough":
        for b in range(1 << 16):
            h = "%04X" % b
            lines += ["flt.canon half " + h, "!flt.rt half " + h]
    else:
        for b in patterns(rng, 5, 10, n):
            h = "%04X" % b
            lines += ["flt.canon half " + h, "!flt.rt half " + h]
    for b in patterns(rng, 11, 52, 2 * n):
        h = "%016X" % b
        lines += ["flt.canon double " + h, "!flt.rt double " + h]
        fb = b & ~0x1FFFFFFF
        # float: double pattern of a float value (exponent within float range or special)
        e = (fb >> 52) & 0x7FF
        if e in (0, 0x7FF) or 897 <= e <= 1150:
            if e == 0: fb &= (1 << 63)
            h = "%016X" % fb
            lines += ["flt.canon float " + h, "!flt.rt float " + h]
    for b in patterns(rng, 15, 112, n):
        # the literal spells the LOW word first (LLVM's order); patterns whose low word looks like an all-ones exponent are finite values too
        for bits in (b, (b >> 64) | ((b & (2**64 - 1)) << 64)):
            h = "%016X%016X" % (bits & (2**64 - 1), bits >> 64)
            lines += ["flt.canon fp128 " + h, "!flt.rt fp128 " + h]
    # x86_fp80: canonical encodings (+ some non-canonical ones for the correspondence only)
    for _ in range(n):
        s = rng.choice([0, 0x8000])
        e = rng.choice([0, 1, 0x3FFF, 0x7FFE, 0x7FFF, rng.randrange(1, 0x7FFF)])
        frac = rng.choice([0, 1, (1 << 63) - 1, 1 << 62, rng.getrandbits(63)])
        if e == 0:
            m = frac
        elif e == 0x7FFF:
            m = (1 << 63) | rng.choice([0, 0, frac])
        else:
            m = (1 << 63) | frac
        h = "%04X%016X" % (s | e, m)
        lines += ["flt.canon x86_fp80 " + h, "!flt.rt x86_fp80 " + h]
    # x86_fp80, NON-canonical encodings: pseudo-denormals (printed normalised, as LLVM prints them), unnormals, pseudo-infinities and pseudo-NaNs (NaNs to LLVM:
    # the recorded NaN-payload finding covers what is printed for them)
    for _ in range(max(8, n // 4)):
        s = rng.choice([0, 0x8000])
        frac = rng.choice([0, 1, (1 << 62), (1 << 63) - 1, rng.getrandbits(63)])
        for e, m in ((0, (1 << 63) | frac), (rng.choice([1, 2, 0x3FFF, 0x7FFE, rng.randrange(1, 0x7FFF)]), frac), (0x7FFF, frac)):
            h = "%04X%016X" % (s | e, m)
            lines += ["flt.canon x86_fp80 " + h, "!flt.rt x86_fp80 " + h]
    # ppc_fp128: pairs with zero low double (oracle only)
    for b in patterns(rng, 11, 52, n // 3):
        if ((b >> 52) & 0x7FF) != 0x7FF:
            lines.append("!flt.rt ppc_fp128 %016X%016X" % (b, 0))
    for b in (0x7FF0000000000000, 0xFFF0000000000000, 0, 1 << 63):          # the two infinities and the two zeros
        lines.append("!flt.rt ppc_fp128 %016X%016X" % (b, 0))
    # CANONICAL pairs with a non-zero low double (the high double is the double nearest to the sum: the low one lies below half a unit in its last place), at
    # every distance between the two exponents — also far beyond the 106 bits a double-double is usually credited with (`1 + 2^-1074`)
    for _ in range(max(40, n // 2)):
        eh = rng.choice([1, 2, 54, 55, 107, 108, 1023, 1024, 2045, 2046, rng.randrange(1, 2047)])
        hi = (rng.choice([0, 1]) << 63) | (eh << 52) | rng.choice([0, 1, (1 << 52) - 1, rng.getrandbits(52)])
        if hi & ((1 << 52) - 1) == 0 and eh > 56:
            # (just below a power of two the doubles lie twice as dense: a low double of the other sign must stay below a QUARTER of a unit in the last place)
            el = rng.choice([0, 1, eh - 56, max(1, eh - 107), rng.randrange(0, eh - 55)])
            fl = rng.choice([0, 1, (1 << 52) - 1, rng.getrandbits(52)])
        elif hi & ((1 << 52) - 1) == 0:
            el, fl = 0, 0
        elif eh > 54:
            el = rng.choice([0, 1, eh - 54, max(1, eh - 55), max(1, eh - 107), rng.randrange(0, eh - 53)])
            fl = rng.choice([0, 1, (1 << 52) - 1, rng.getrandbits(52)])
        else:
            el, fl = 0, rng.choice([0, 0, 1])          # (below: only subnormal low doubles small enough)
            if eh <= 53:
                fl = 0
        if el == 0 and fl == 0:
            lo = 0
        else:
            lo = (rng.choice([0, 1]) << 63) | (el << 52) | fl
        lines.append("!flt.rt ppc_fp128 %016X%016X" % (hi, lo))
    # NaNs of both signs (the sign is that of the high double), the largest double plus half a unit in its last place (the sum rounds to infinity as a double: the
    # high double must stay the largest double), and their negatives
    for hi, lo in ((0x7FF8000000000000, 0), (0xFFF8000000000000, 0), (0xFFF0000000000001, 0), (0x7FF8000000000000, 0x3FF0000000000000),
                   (0x7FEFFFFFFFFFFFFF, 0x7C90000000000000), (0xFFEFFFFFFFFFFFFF, 0xFC90000000000000), (0x7FEFFFFFFFFFFFFF, 0x7C8FFFFFFFFFFFFF), (0xFFEFFFFFFFFFFFFF, 0xFC8FFFFFFFFFFFFF)):
        lines.append("!flt.rt ppc_fp128 %016X%016X" % (hi, lo))
    # the recorded finding C10-ppc-fp128-pair-recanonicalised: a low double of -0, and a pair whose high double is not the double nearest to the sum
    lines += ["!flt.rt ppc_fp128 3FF00000000000008000000000000000", "!flt.rt ppc_fp128 3FF00000000000003FF0000000000000", "!flt.rt ppc_fp128 7FF0000000000000FFF0000000000000",
              "!flt.rt ppc_fp128 80000000000000008000000000000000"]
    # values that need EVERY significand bit (odd p-bit integers scaled by small powers of two) and are still printed in decimal notation: the reader of
    # decimal literals must round at exactly p bits (half 11, float 24, double 53)
    import struct
    from fractions import Fraction
    for _ in range(n // 3):
        for kind, pbits, lo, hi in (("half", 11, -4, 4), ("float", 24, -6, 6), ("double", 53, -6, 6)):
            k = rng.getrandbits(pbits - 1) | (1 << (pbits - 1)) | 1
            e = rng.randint(lo, hi)
            v = Fraction(k) * (Fraction(2) ** e)
            if rng.random() < 0.5:
                v = -v
            if kind == "half":
                if abs(v) > 65504:
                    continue
                hb = struct.unpack("<H", struct.pack("<e", float(v)))[0]
                h = "%04X" % hb
                lines += ["flt.canon half " + h, "!flt.rt half " + h]
            else:
                db = struct.unpack("<Q", struct.pack("<d", float(v)))[0]
                h = "%016X" % db
                lines += ["flt.canon %s %s" % (kind, h), "!flt.rt %s %s" % (kind, h)]
            # the same value as an exact decimal literal
            j = max(0, -e)
            num = abs(v) * 10**j
            assert num.denominator == 1
            digits = "%0*d" % (j + 1, num.numerator)
            txt = ("-" if v < 0 else "") + (digits[:-j] + "." + digits[-j:] if j else digits + ".0")
            lines.append("!flt.dec %s %s" % (kind, txt))
    # every power of two of float and double and its two neighbours (the spacing of the values changes there: shortest-digit printing must not assume a
    # symmetric neighbourhood), and of half
    for e in range(-149, 128):
        for b in ((2.0 ** e),):
            fb = struct.unpack("<I", struct.pack("<f", b))[0]
            for nb in (fb - 1, fb, fb + 1):
                if 0 < nb < 0x7F800000:
                    d = struct.unpack("<Q", struct.pack("<d", struct.unpack("<f", struct.pack("<I", nb))[0]))[0]
                    for sgn in (0, 1 << 63):
                        h = "%016X" % (d | sgn)
                        lines += ["flt.canon float " + h, "!flt.rt float " + h]
    for e in (range(-1074, 1024) if tier == "thorough" else list(range(-80, 120)) + [-1074, -1073, -1023, -1022, -1021, 1022, 1023]):
        db = struct.unpack("<Q", struct.pack("<d", 2.0 ** e))[0]
        for nb in (db - 1, db, db + 1):
            if 0 < nb < 0x7FF0000000000000:
                h = "%016X" % nb
                lines += ["flt.canon double " + h, "!flt.rt double " + h]
    # decimal literals that are NOT exactly representable are rounded to the nearest double, ties to even (LLVM rejects them for the other kinds)
    for _ in range(n):
        txt = "%s%d.%s" % (rng.choice(["", "-"]), rng.choice([0, 0, 1, 3, 123456789, rng.getrandbits(40)]), "".join(rng.choice("0123456789") for _ in range(rng.randint(1, 25))))
        if rng.random() < 0.3:
            txt += "e%s%02d" % (rng.choice("+-"), rng.randint(0, 290))        # (mantissa < 2^40: stays below the largest double)
        lines.append("!flt.decround double " + txt)
    for txt in ("0.1", "0.3", "1.7976931348623157e+308", "4.9406564584124654e-324", "2.2250738585072014e-308", "9007199254740993.0", "9007199254740995.0", "0.5000000000000000277555756156289135105907917022705078125",
                "1.00000000000000011102230246251565404236316680908203125", "1.00000000000000011102230246251565404236316680908203124", "1.00000000000000011102230246251565404236316680908203126"):
        lines.append("!flt.decround double " + txt)
    # the SUBNORMAL range: fewer significant bits than 53, so a literal rounded to 53 bits first and to the format afterwards is rounded twice;
    # literals just below, at and just above the midpoint of two neighbouring subnormals, and random ones
    from fractions import Fraction as _F
    def _dec(fr, digits=30):
        # a decimal spelling of the positive rational fr with `digits` significant digits (truncated: the literal itself is the input)
        e = 0
        while fr >= 10: fr /= 10; e += 1
        while fr < 1: fr *= 10; e -= 1
        m = int(fr * 10 ** (digits - 1))
        sm = str(m)
        return "%s.%se%+d" % (sm[0], sm[1:], e)
    for k in [1, 2, 3, 4, 5, 6, 7, 1 << 20, (1 << 52) - 2, (1 << 52) - 1] + [rng.getrandbits(rng.randint(1, 52)) | 1 for _ in range(n // 6)]:
        mid = (_F(2 * k + 1, 2)) * _F(1, 2 ** 1074)
        for fr in (mid, mid * (1 + _F(1, 10 ** 20)), mid * (1 - _F(1, 10 ** 20)), _F(k) * _F(1, 2 ** 1074) * (1 + _F(rng.randint(1, 999), 4000))):
            for sgn in ("", "-"):
                lines.append("!flt.decround double " + sgn + _dec(fr))
    lines.append("!flt.decround double 1.2351641146031164e-323")
    # exact decimals
    for _ in range(n):
        k = rng.randint(-(1 << 10), 1 << 10)
        j = rng.randint(0, 8)
        from fractions import Fraction
        v = Fraction(k, 1 << j)
        txt = "%s%d.%s" % ("-" if v < 0 else "", abs(int(v)), ("%0*d" % (j, (abs(v) - abs(int(v))) * 10**j)) if j else "0")
        kind = rng.choice(["half", "float", "double"])
        if kind == "half" and (abs(k) >= 1 << 10 or j > 4):
            kind = "double"
        lines.append("!flt.dec %s %s" % (kind, txt))
    return ppc_inf + lines


def extra(res, findings, tier, rng, harness, driver):
    """LLVM 14 as the reader of floating-point literals: every kind in its hexadecimal spelling(s) and decimals; llir's reading and the literal llir
    prints must denote the bit pattern LLVM reads (NaNs with a payload are the recorded finding and are not generated here)"""
    import struct
    from . import refstage
    texts = []
    n = 150 if tier == "quick" else 4000
    def nan(bits, ebits, mbits):
        e = (bits >> mbits) & ((1 << ebits) - 1)
        return e == (1 << ebits) - 1 and bits & ((1 << mbits) - 1) != 0
    for i in range(n):
        k = rng.choice(["half", "float", "double", "fp128", "x86_fp80", "ppc_fp128", "dec"])
        if k == "half":
            b = rng.getrandbits(16)
            if nan(b, 5, 10): b = 0x7E00
            lit = "0xH%04X" % b
        elif k == "float":
            b = rng.getrandbits(32)
            if nan(b, 8, 23): b = 0x7FC00000
            d = struct.unpack(">Q", struct.pack(">d", struct.unpack(">f", struct.pack(">I", b))[0]))[0]
            lit = "0x%016X" % d
        elif k == "double":
            b = rng.getrandbits(64)
            if nan(b, 11, 52): b = 0x7FF8000000000000
            lit = "0x%016X" % b
        elif k == "fp128":
            b = rng.getrandbits(128)
            if nan(b, 15, 112): b = 0x7FFF8 << 108
            lit = "0xL%016X%016X" % (b & (2**64 - 1), b >> 64)
        elif k == "x86_fp80":
            e = rng.choice([0, 1, 0x3FFF, 0x4000, rng.getrandbits(15) % 0x7FFF])
            m = (rng.getrandbits(63) | (1 << 63)) if e else rng.getrandbits(63)
            b = (rng.getrandbits(1) << 79) | (e << 64) | m
            lit = "0xK%020X" % b
        elif k == "ppc_fp128":
            hi = rng.getrandbits(64)
            # (a ppc_fp128 NaN is re-spelled by llir with another low double: the recorded NaN-payload finding; not generated here)
            if nan(hi, 11, 52): hi = 0x7FF0000000000000 | (hi & (1 << 63))
            lit = "0xM%016X%016X" % (hi, 0)
        else:
            k = rng.choice(["double", "float", "half"])
            lit = rng.choice(["0.0", "-0.0", "1.0", "1.5", "-2.25", "1.0e+10", "3.0e-5", "65504.0", "0.5", "1.0e+00", "123456789.0", "0.1"]) if k == "double" else rng.choice(["0.0", "1.0", "1.5", "-2.25", "0.5", "2.0e+00", "256.0"])
        texts.append(("%s-%d" % (k, i), "@g = global %s %s\n" % (k, lit)))
    return refstage.run(res, findings, harness, "C10", texts)


def nontrivial(ln, model_out):
    p = ln.split()
    return len(p) >= 3 and p[2].strip("0") != ""


def search(ln, a, b, harness, driver):
    p = ln.split()
    c = "!flt.rt %s %s" % (p[1], p[2])
    x = C.run_lines([harness, "run"], [c])[0]
    y = C.run_lines([driver], [c])[0]
    if x.split()[0] in ("FAIL", "panic") and (y == "ok" or not x.startswith("FAIL bits")):
        # (where the model predicts the recorded loss of the NaN payload, only a failure of ANOTHER kind — the value is no longer a NaN — is a new violation)
        return {"ops": [c], "impl": [x], "model": [y]}
    return None
