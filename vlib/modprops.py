"""Shared op generation for the module-level properties (C01, C02, C04, C05, C12, C20-assembly)."""
import glob, os
from . import common as C
from . import modgen


def hx(s):
    return s.encode().hex() if s else "-"


def corpus_texts():
    out = []
    for fn in sorted(glob.glob(os.path.join(C.VERIF, "corpus", "ll", "*.ll"))):
        out.append(open(fn, "rb").read().decode("latin-1"))
    return out


def gen_modules(rng, n):
    for _ in range(n):
        m = modgen.gen_mod(rng)
        text, sk = modgen.render(m)
        yield m, text, sk


MODEL_TRUST = [
    "hand-written Lean model LlirModel/Resolve.lean (M-Resolve) of the parser's indexing / scaffolding / resolution / assembly on module SKELETONS: entities with namespace, "
    "key, references, local definitions and local uses; instruction payloads are abstracted to their reference sites",
    "that each Go irXxx function visits exactly the reference sites the skeleton lists is NOT proved: it is covered by the generic reflection closure walk over the whole "
    "parsed object graph (harness ops_module.go) and by the byte-exact print fixpoint oracle on generated modules",
    "the module generator (vlib/modgen.py) renders the same description to canonical text and to the skeleton token; its canonical text is itself validated by the fixpoint oracle",
]
